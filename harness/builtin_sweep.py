"""Built-in sweep for C02: call every built-in function and method of `Tables.builtinArms` with argument
tuples of arity 0 .. declared+1 over a pool of boundary values and look for interpreter crashes.

Calls are batched through the JSON session driver (`garden reftest-json-session file.jsonl`): one `run`
request per call, `:abort` after it (a Garden exception leaves the session stopped at the error), then a
marker string. A Garden-level error is an ordinary response; a PANIC kills the process (exit 101) — the first
missing marker identifies the crashing call, which is then re-run alone through `garden run -c` (the
replay) and the batch continues after it. Everything runs inside a scratch directory, under a timeout and
RLIMIT_AS 3 GB; process-spawning and stdin built-ins only get harmless arguments.
"""
import json
import os
import re

from . import common

I64_MAX, I64_MIN = 9223372036854775807, -9223372036854775808

POOL = [
    str(I64_MAX), str(I64_MIN), "0", "-1", "1.5", '""', '"hé✓🙂"', "[]", "[[1], [2, 3]]", '(1, "a")',
    'Dict["a" => 1]', "None", "Some(1)", "fun(x) { x }", "Unit", 'Path{ p: "rel.gdn" }',
    # lists whose runtime element-type TAG disagrees with their contents (a list literal is tagged from one
    # element, List::append retags from the appended value): seeded C02-2 trusted the tag in String::join
    '[1, 2].append("c")', '[1, "a"]', '["a", 1]', '["a", "b"].append(1)', '[[1], "x"]', '[None, 1]',
]
INDEXB = [-1, 0, 1, 2, 3, 4, 5, 8, 28, I64_MAX]
BOUNDARY = [I64_MIN, I64_MIN + 1, -2, -1, 0, 1, 2, 3, 63, 64, 4294967296, I64_MAX - 1, I64_MAX]

ALIASES = {"__fs.gdn": "fs", "__shell.gdn": "shell", "__reflect.gdn": "reflect", "__random.gdn": "random",
           "__time.gdn": "time"}
PRELUDE_IMPORTS = [k for k in ALIASES]


def alias_of(ns):
    return ALIASES.get(ns) or re.sub(r"\W", "", ns.replace(".gdn", "")).strip("_")


def typed_values(ty, scratch):
    """A few well-typed values for a declared parameter / receiver type."""
    P = lambda name: 'Path{ p: "%s" }' % os.path.join(scratch, name)
    if ty == "String":
        return ['"abc"', '"a\\nb"']
    if ty == "Int":
        return ["1", "3"]
    if ty == "Float":
        return ["2.5"]
    if ty == "Path":
        # existing / missing / directory inside the scratch tree, a RELATIVE path (resolved against the cwd =
        # scratch, or refused), an absolute path whose parent does not exist, the empty path, a built-in name
        return [P("exists.txt"), P("missing.txt"), P("sub"), 'Path{ p: "rel.gdn" }',
                'Path{ p: "/nonexistent-limits/x.gdn" }', 'Path{ p: "" }', 'Path{ p: "__snippet.gdn" }']
    if ty.startswith("List<String>"):
        return ['["a", "b"]', '[1, 2].append("c")', '[1, "a"]']
    if ty.startswith("List<Int>"):
        return ["[72, 105]", "[-1, 256]", '["a"].append(1)', '["a", 1]']
    if ty == "List":
        return ["[1, 2, 3]", '["x"]']
    if ty == "Dict":
        return ['Dict["a" => 1, "b" => 2]']
    if ty == "Namespace":
        return []
    return ["1"]


def call_exprs(arm, rng, scratch, per_arm):
    """Argument tuples of arity 0..declared+1 over POOL plus the typed values; sampled to `per_arm`."""
    declared = arm["arity"] if arm["arity"] is not None else len(arm["params"])
    name = arm["gardenName"]
    if arm["isMethod"]:
        receivers = typed_values(arm["receiverType"], scratch) + POOL
    else:
        fn = name if arm["namespaceFile"] == "__prelude.gdn" else "%s::%s" % (alias_of(arm["namespaceFile"]), name)
        receivers = [None]
    tuples = []
    # first: every combination of the well-typed values at the declared arity (kept even when sampling)
    import itertools
    typed = [typed_values(ty, scratch) or ["1"] for ty in arm["params"][:declared]]
    prio = [list(t) for t in itertools.islice(itertools.product(*typed), 60)] if typed else []
    tuples += prio
    for k in range(0, declared + 2):
        pools = []
        for j in range(k):
            ty = arm["params"][j] if j < len(arm["params"]) else "T"
            pools.append(typed_values(ty, scratch) + POOL)
        total = 1
        for p in pools:
            total *= len(p)
        if total <= 40:
            import itertools
            tuples += [list(t) for t in itertools.product(*pools)]
        else:
            # all single-position sweeps with the other positions well-typed, then random tuples
            for j in range(k):
                for v in pools[j]:
                    t = [pools[i][0] for i in range(k)]
                    t[j] = v
                    tuples.append(t)
            tuples += [[rng.choice(p) for p in pools] for _ in range(30)]
    def mk(r, t):
        if r is None:
            return "%s(%s)" % (fn, ", ".join(t))
        recv = r if re.match(r'^["\[\w(]', r) and not r.startswith("fun") and not r.startswith("-") else "(%s)" % r
        return "%s.%s(%s)" % (recv, name, ", ".join(t))

    def dedup(xs):
        seen, out = set(), []
        for c in xs:
            if c not in seen:
                seen.add(c)
                out.append(c)
        return out
    tuples = [t for t in tuples
              if not (arm["name"] == "ShellRun" and t and t[0].startswith('"') and t[0] != '""')]   # never spawn a command
    good = receivers[0]
    # index boundaries: every Int parameter ranges over values below / at / just past / far past the length
    # of the well-typed receivers (all of length 3), jointly (seeded C02-1: `"abcde".substring(8, 28)` only
    # misbehaved with from > len and from <= to, which single-position sweeps never produce)
    int_pos = [j for j, ty in enumerate(arm["params"][:declared]) if ty == "Int"]
    g0 = []
    if int_pos and len(int_pos) <= 3:
        base = [typed[j][0] for j in range(declared)]
        recvs0 = [r for r in (typed_values(arm["receiverType"], scratch) + ['"hé✓🙂"', '""', "[]"]
                              if arm["isMethod"] else [None])]
        for combo in itertools.product([str(v) for v in INDEXB], repeat=len(int_pos)):
            t = list(base)
            for j, v in zip(int_pos, combo):
                t[j] = v
            for r in recvs0:
                g0.append(mk(r, t))
        g0 = dedup(g0)
        if len(g0) > 400:
            g0 = rng.sample(g0, 400)
    g1 = dedup(mk(good, t) for t in tuples[:len(prio)])            # well-typed receiver, well-typed tuples
    g2 = dedup(mk(good, t) for t in tuples[len(prio):])            # well-typed receiver, swept / random tuples
    g3 = dedup(mk(rng.choice(receivers), t) for t in tuples) if arm["isMethod"] else []   # any receiver
    g2 = [c for c in g2 if c not in set(g1)]
    g3 = [c for c in g3 if c not in set(g1) and c not in set(g2)]
    if len(g2) > per_arm:
        g2 = rng.sample(g2, per_arm)
    if len(g3) > per_arm // 3:
        g3 = rng.sample(g3, per_arm // 3)
    return g1[:60] + [c for c in g0 if c not in set(g1)] + g2 + g3


def make_scratch(d):
    os.makedirs(os.path.join(d, "sub"), exist_ok=True)
    with open(os.path.join(d, "exists.txt"), "w") as fh:
        fh.write("hello\nworld\n")


def session_batch(ctx, d, tag, prelude, calls, timeout=120):
    """Run the calls through one JSON session per batch. -> list of 'answered' / 'crash:<rc>' / 'timeout'."""
    status = [None] * len(calls)
    start = 0
    rounds = 0
    while start < len(calls) and rounds < 50:
        rounds += 1
        path = os.path.join(d, "%s-%d.jsonl" % (tag, start))
        with open(path, "w") as fh:
            for p in prelude:
                fh.write(json.dumps({"method": "run", "input": p}) + "\n")
            for i in range(start, len(calls)):
                fh.write(json.dumps({"method": "run", "input": calls[i]}) + "\n")
                fh.write(json.dumps({"method": "run", "input": ":abort"}) + "\n")
                fh.write(json.dumps({"method": "run", "input": '"MARK%dK"' % i}) + "\n")
        rc, so, se = ctx.garden(["reftest-json-session", path], timeout=timeout, cwd=d, input="",
                                env={"RUST_BACKTRACE": "0"})
        os.unlink(path)
        marks = set(int(x) for x in re.findall(r"MARK(\d+)K", so))
        first_missing = None
        for i in range(start, len(calls)):
            if i in marks:
                status[i] = "answered"
            else:
                first_missing = i
                break
        if first_missing is None:
            break
        status[first_missing] = "timeout" if rc == -9999 else "crash:%d:%s" % (rc, se.strip().split("\n")[0][:200] if se else "")
        start = first_missing + 1
    return status


def sweep_builtins(ctx, arms, d, per_arm):
    """-> (n_calls, list of (arm name, call, rc, stderr-first-line)) for confirmed crashes."""
    rng = ctx.rng
    make_scratch(d)
    prelude = ['import "%s" as %s' % (ns, alias_of(ns)) for ns in PRELUDE_IMPORTS]
    per = []
    for arm in arms:
        if arm["name"] == "PreludeReadLine":
            calls = ["read_line()", "read_line(1)"]      # stdin is empty (EOF)
        else:
            calls = call_exprs(arm, rng, d, per_arm)
        per.append((arm, calls))
    # batches of ~150 calls, arms interleaved per batch by order
    flat = [(arm["name"], c) for arm, calls in per for c in calls]
    batches = [flat[i:i + 150] for i in range(0, len(flat), 150)]

    def run_batch(ib):
        ix, b = ib
        make = [c for _, c in b]
        return session_batch(ctx, d, "b%d" % ix, prelude, make)
    stats = common.pmap(run_batch, list(enumerate(batches)), workers=max(4, common.NPROC // 2))
    crashes = []
    suspects = []
    for b, st in zip(batches, stats):
        for (arm, call), s in zip(b, st):
            if s is not None and s != "answered":
                suspects.append((arm, call, s))

    def confirm(x):
        arm, call, s = x
        src = "".join(p + "\n" for p in prelude) + call + "\n"
        rc, so, se = ctx.garden(["run", "-c", src], timeout=30, cwd=d, input="", env={"RUST_BACKTRACE": "0"})
        return arm, call, s, rc, se
    for arm, call, s, rc, se in common.pmap(confirm, suspects):
        if common.crashed(rc) or rc == -9999:
            m = re.search(r"panicked at ([^\n]*)\n([^\n]*)", se or "")
            crashes.append((arm, call, rc, (m.group(1) + " " + m.group(2)) if m else (se or "")[-200:]))
        elif s.startswith("crash"):
            # died in the session but not alone: report as a session crash (state-dependent)
            crashes.append((arm, call + "   (in a JSON session after other calls)", -1, s))
    return len(flat), crashes, {arm["name"]: len(calls) for arm, calls in per}


def operator_programs():
    """(a op b) over the boundary set. Non-raising operators are batched per left operand; `/`, `%`, `**`,
    and the compound assignments run one per process."""
    progs = []
    safe_ops = ["+", "-", "*", "<", "<=", ">", ">=", "==", "!="]
    for a in BOUNDARY:
        lines = []
        for b in BOUNDARY:
            for op in safe_ops:
                lines.append("let _ = %d %s %d" % (a, op, b))
            lines.append("let p = %d p += %d p -= %d" % (a, b, b))
            lines.append("let q = %d q -= %d" % (a, b))
        progs.append(("int-ops-batch", "\n".join(lines) + '\nprintln("done")\n', "done"))
    return progs


def raising_operator_calls():
    """`/`, `%`, `**` and compound assignment on boundary pairs: each may raise -> one session request each."""
    calls = []
    for a in BOUNDARY:
        for b in BOUNDARY:
            for op in ["/", "%", "**"]:
                calls.append("%d %s %d" % (a, op, b))
    return calls


def nesting_programs(depths):
    progs = []
    for n in depths:
        progs.append(("nest-list-literal", n, "let v = " + "[" * n + "1" + "]" * n + "\nprintln(\"built\")\nlet s = string_repr(v)\nprintln(\"shown\")"))
        progs.append(("nest-tuple-literal", n, "let v = " + "(" * n + "1" + ",)" * n + "\nprintln(\"built\")\nlet s = string_repr(v)\nprintln(\"shown\")"))
        progs.append(("nest-parens", n, "let v = " + "(" * n + "1" + ")" * n + "\nprintln(string_repr(v))"))
        progs.append(("nest-binop-chain", n, "let v = " + "1 + " * n + "1\nprintln(string_repr(v))"))
        progs.append(("nest-runtime-some", n, "let o = None\nlet i = 0\nwhile i < %d { o = Some(o) i += 1 }\nprintln(\"built\")\n"
                      "let s = string_repr(o)\nprintln(\"shown\")\nprintln(string_repr(o == o))" % n))
    return progs
