import GardenVerif.Model.Prelude
/-!
Helper lemmas for C32 (M12 prelude transcriptions): each `*_eq` lemma relates a transcription of
Model/Prelude.lean (loops with fuel, accumulators, Int indices, exceptions) to a reference on
`List Char` / `List α`. Core Lean only.
-/


namespace Prelude

@[simp] theorem Res.bind_ok {α β : Type} (v : α) (f : α → Res β) : (Res.ok v).bind f = f v := rfl
@[simp] theorem Res.bind_exn {α β : Type} (k : String) (f : α → Res β) : (Res.exn k : Res α).bind f = .exn k := rfl
@[simp] theorem Res.bind_fuel {α β : Type} (f : α → Res β) : (Res.outOfFuel : Res α).bind f = .outOfFuel := rfl

theorem concat_eq {α : Type} (a b : List α) : concat a b = a ++ b := by
  unfold concat
  induction b generalizing a with
  | nil => simp
  | cons x xs ih => simp only [List.foldl_cons, ih]; simp [listAppend]

theorem map_foldl {α β : Type} (l : List α) (f : α → β) (acc : List β) :
    l.foldl (fun items item => listAppend items (f item)) acc = acc ++ l.map f := by
  induction l generalizing acc with
  | nil => simp
  | cons x xs ih => simp only [List.foldl_cons, ih]; simp [listAppend]

theorem map_eq {α β : Type} (l : List α) (f : α → β) : map l f = l.map f := by
  simp [map, map_foldl]

theorem filter_foldl {α : Type} (l : List α) (f : α → Bool) (acc : List α) :
    l.foldl (fun result item => if f item then listAppend result item else result) acc = acc ++ l.filter f := by
  induction l generalizing acc with
  | nil => simp
  | cons x xs ih =>
    simp only [List.foldl_cons, ih, List.filter_cons]
    cases f x <;> simp [listAppend]

theorem filter_eq {α : Type} (l : List α) (f : α → Bool) : filter l f = l.filter f := by
  simp [filter, filter_foldl]

theorem enumerate_foldl {α : Type} (l : List α) (acc : List (Int × α)) (i : Nat) :
    l.foldl (fun (st : List (Int × α) × Int) item => (listAppend st.1 (st.2, item), st.2 + 1)) (acc, (i : Int))
      = (acc ++ (l.zipIdx i).map (fun p => ((p.2 : Int), p.1)), ((i + l.length : Nat) : Int)) := by
  induction l generalizing acc i with
  | nil => simp
  | cons x xs ih =>
    simp only [List.foldl_cons]
    have := ih (listAppend acc ((i : Int), x)) (i + 1)
    simp only [Int.natCast_add, Int.cast_ofNat_Int] at this ⊢
    rw [this]
    simp [listAppend, List.zipIdx_cons]
    omega

theorem enumerate_eq {α : Type} (l : List α) :
    enumerate l = l.zipIdx.map (fun p => ((p.2 : Int), p.1)) := by
  have := enumerate_foldl l [] 0
  simp at this
  simp [enumerate, this]

theorem listGet_eq {α : Type} (l : List α) (i : Int) :
    listGet l i = if 0 ≤ i then l[i.toNat]? else none := by
  unfold listGet
  by_cases h : 0 ≤ i
  · simp only [h, ite_true]
    split
    · have : l.length ≤ i.toNat := by omega
      simp [this]
    · rfl
  · have : i < 0 := by omega
    simp [h, this]

theorem first_eq {α : Type} (l : List α) : first l = l.head? := by
  cases l <;> simp [first, listGet]

theorem last_eq {α : Type} (l : List α) : last l = l.getLast? := by
  simp only [last, listGet_eq, listLen]
  cases l with
  | nil => simp
  | cons x xs =>
    have : (0:Int) ≤ ((x :: xs).length : Int) - 1 := by simp
    simp only [this, ite_true]
    rw [List.getLast?_eq_getElem?]
    congr 1
    omega

theorem max_eq (x y : Int) : Prelude.max x y = Max.max x y := by
  unfold Prelude.max; omega
theorem min_eq (x y : Int) : Prelude.min x y = Min.min x y := by
  unfold Prelude.min; omega


theorem rangeLoop_eq (j : Int) (fuel : Nat) (i : Int) (items : List Int) (h : (j - i).toNat + 1 ≤ fuel) :
    rangeLoop j fuel i items = .ok (items ++ (List.range (j - i).toNat).map (fun (k : Nat) => i + (k : Int))) := by
  induction fuel generalizing i items with
  | zero => omega
  | succ fuel ih =>
    unfold rangeLoop
    by_cases hij : i < j
    · simp only [hij, ite_true]
      rw [ih (i + 1) _ (by omega)]
      have : (j - i).toNat = (j - (i + 1)).toNat + 1 := by omega
      rw [this, List.range_succ_eq_map]
      simp [listAppend, Function.comp_def]
      intro a _
      omega
    · simp only [hij, ite_false]
      have : (j - i).toNat = 0 := by omega
      simp [this]

theorem range_eq (fuel : Nat) (i j : Int) (h : (j - i).toNat + 1 ≤ fuel) :
    range fuel i j = .ok ((List.range (j - i).toNat).map (fun (k : Nat) => i + (k : Int))) := by
  simp [range, rangeLoop_eq j fuel i [] h]

theorem flatten_intersperse (sep x : Str) (xs : List Str) :
    (List.intersperse sep (x :: xs)).flatten = x ++ (xs.map (sep ++ ·)).flatten := by
  induction xs generalizing x with
  | nil => simp
  | cons y ys ih => simp [ih]

theorem joinLoop_eq (sep : Str) (items : List Str) (i : Nat) (acc : Str) (hi : i ≠ 0) :
    joinLoop sep items i acc = acc ++ (items.map (sep ++ ·)).flatten := by
  induction items generalizing i acc with
  | nil => simp [joinLoop]
  | cons x xs ih =>
    unfold joinLoop
    rw [ih (i + 1) _ (by omega)]
    simp [hi]

theorem join_eq (sep : Str) (items : List Str) : join sep items = List.intercalate sep items := by
  cases items with
  | nil => simp [join, joinLoop, List.intercalate]
  | cons x xs =>
    unfold join joinLoop
    rw [joinLoop_eq sep xs 1 _ (by omega)]
    simp [List.intercalate, flatten_intersperse]

theorem startsWith_iff (s p : Str) : startsWith s p = true ↔ ∃ t, s = p ++ t := by
  unfold startsWith
  rw [List.isPrefixOf_iff_prefix]
  constructor
  · rintro ⟨t, h⟩; exact ⟨t, h.symm⟩
  · rintro ⟨t, h⟩; exact ⟨t, h.symm⟩

theorem endsWith_iff (s p : Str) : endsWith s p = true ↔ ∃ t, s = t ++ p := by
  unfold endsWith
  rw [List.isSuffixOf_iff_suffix]
  constructor
  · rintro ⟨t, h⟩; exact ⟨t, h.symm⟩
  · rintro ⟨t, h⟩; exact ⟨t, h.symm⟩

theorem substring_ok (s : Str) (i j : Int) (hi : 0 ≤ i) (hij : i ≤ j) :
    substring s i j = .ok ((s.take j.toNat).drop i.toNat) := by
  unfold substring
  have h1 : ¬ i < 0 := by omega
  have h2 : ¬ i > j := by omega
  simp only [h1, h2, ite_false, List.drop_take]
  congr 2
  omega

theorem substring_exn_iff (s : Str) (i j : Int) :
    (∃ k, substring s i j = .exn k) ↔ (i < 0 ∨ i > j) := by
  unfold substring
  by_cases h1 : i < 0
  · simp [h1]
  · by_cases h2 : i > j
    · simp [h1, h2]
    · simp [h1, h2]

theorem stripPrefix_hit (p t : Str) : stripPrefix (p ++ t) p = .ok t := by
  have : startsWith (p ++ t) p = true := (startsWith_iff _ _).2 ⟨t, rfl⟩
  unfold stripPrefix
  rw [this]
  simp only [ite_true, strLen]
  rw [substring_ok _ _ _ (by omega) (by simp only [List.length_append, Int.natCast_add]; omega)]
  simp only [Int.toNat_natCast, List.take_length]
  simp

theorem stripPrefix_miss (s p : Str) (h : ¬ ∃ t, s = p ++ t) : stripPrefix s p = .ok s := by
  have : startsWith s p = false := by
    cases hs : startsWith s p
    · rfl
    · exact absurd ((startsWith_iff _ _).1 hs) h
  simp [stripPrefix, this]

theorem stripSuffix_hit (t p : Str) : stripSuffix (t ++ p) p = .ok t := by
  have : endsWith (t ++ p) p = true := (endsWith_iff _ _).2 ⟨t, rfl⟩
  unfold stripSuffix
  rw [this]
  simp only [ite_true, strLen]
  rw [substring_ok _ _ _ (by omega) (by simp only [List.length_append, Int.natCast_add]; omega)]
  simp

theorem stripSuffix_miss (s p : Str) (h : ¬ ∃ t, s = t ++ p) : stripSuffix s p = .ok s := by
  have : endsWith s p = false := by
    cases hs : endsWith s p
    · rfl
    · exact absurd ((endsWith_iff _ _).1 hs) h
  simp [stripSuffix, this]

theorem take_drop_getElem? {α : Type} (l : List α) (a b k : Nat) :
    ((l.drop a).take b)[k]? = if k < b then l[a + k]? else none := by
  simp [List.getElem?_take, List.getElem?_drop]

theorem listSlice_eq {α : Type} (l : List α) (i j : Int) :
    listSlice l i j = (l.take (if j < 0 then (l.length : Int) + j else j).toNat).drop i.toNat := by
  unfold listSlice
  simp only []
  apply List.ext_getElem?
  intro k
  rw [List.drop_take, take_drop_getElem?, take_drop_getElem?]
  generalize (if j < 0 then (l.length : Int) + j else j) = J
  by_cases hk : i.toNat + k < l.length
  · have e1 : (Min.min (Max.max i 0) (l.length : Int)).toNat = i.toNat := by omega
    rw [e1]
    split <;> split <;> first | rfl | (exfalso; omega)
  · have n1 : l[i.toNat + k]? = none := by simp; omega
    have n2 : l[(Min.min (Max.max i 0) (l.length : Int)).toNat + k]? = none := by simp; omega
    simp [n1, n2]


theorem listSlice_tail {α : Type} (x : α) (xs : List α) :
    listSlice (x :: xs) 1 (listLen (x :: xs)) = xs := by
  rw [listSlice_eq]
  split
  · rename_i h; simp [listLen] at h; omega
  · simp only [listLen, Int.toNat_natCast, List.take_length]
    rfl

theorem sortNums_sound (fuel : Nat) (items : List Int) (h : items.length + 1 ≤ fuel) :
    ∃ r, sortNums fuel items = .ok r ∧ r.Pairwise (· ≤ ·) ∧ r.Perm items := by
  induction fuel generalizing items with
  | zero => omega
  | succ fuel ih =>
    cases items with
    | nil => exact ⟨[], by simp [sortNums, first, listGet], List.Pairwise.nil, List.Perm.refl _⟩
    | cons pivot rest =>
      have hf : first (pivot :: rest) = some pivot := by simp [first, listGet]
      unfold sortNums
      simp only [hf, listSlice_tail, filter_eq]
      have l1 := List.length_filter_le (fun x => decide (x < pivot)) rest
      have l2 := List.length_filter_le (fun x => decide (x ≥ pivot)) rest
      simp only [List.length_cons] at h
      obtain ⟨a, ha, sa, pa⟩ := ih (rest.filter (fun x => decide (x < pivot))) (by omega)
      obtain ⟨b, hb, sb, pb⟩ := ih (rest.filter (fun x => decide (x ≥ pivot))) (by omega)
      refine ⟨a ++ [pivot] ++ b, ?_, ?_, ?_⟩
      · simp [ha, hb, concat_eq]
      · have ma : ∀ x ∈ a, x < pivot := by
          intro x hx
          have := (pa.mem_iff).1 hx
          simpa using (List.mem_filter.1 this).2
        have mb : ∀ x ∈ b, pivot ≤ x := by
          intro x hx
          have := (pb.mem_iff).1 hx
          simpa using (List.mem_filter.1 this).2
        rw [List.append_assoc, List.pairwise_append]
        refine ⟨sa, ?_, ?_⟩
        · simp only [List.singleton_append, List.pairwise_cons]
          exact ⟨mb, sb⟩
        · intro x hx y hy
          have := ma x hx
          simp only [List.singleton_append, List.mem_cons] at hy
          rcases hy with rfl | hy
          · omega
          · have := mb y hy; omega
      · have hfe : rest.filter (fun x => decide (x ≥ pivot)) = rest.filter (fun x => !decide (x < pivot)) := by
          apply List.filter_congr
          intro x _
          by_cases hx : x < pivot <;> simp [hx] <;> omega
        have p1 : (a ++ b).Perm rest :=
          ((pa.append pb).trans (by rw [hfe]; exact List.filter_append_perm _ rest))
        rw [List.append_assoc, List.singleton_append]
        exact List.perm_middle.trans (p1.cons pivot)

theorem sortNums_eq (fuel : Nat) (items : List Int) (h : items.length + 1 ≤ fuel) :
    sortNums fuel items = .ok (items.mergeSort (fun a b => decide (a ≤ b))) := by
  obtain ⟨r, hr, sr, pr⟩ := sortNums_sound fuel items h
  rw [hr]
  congr 1
  have sm : (items.mergeSort (fun a b => decide (a ≤ b))).Pairwise (· ≤ ·) := by
    have := List.pairwise_mergeSort (le := fun (a b : Int) => decide (a ≤ b))
      (by intro a b c; simp; omega) (by intro a b; simp; omega) items
    exact this.imp (by intro a b; simp)
  exact List.Perm.eq_of_pairwise (le := (· ≤ ·)) (by intro a b _ _ h1 h2; omega) sr sm
    (pr.trans (List.mergeSort_perm items _).symm)


theorem substring_nat (s : Str) (k n : Nat) :
    substring s (k : Int) ((k : Int) + (n : Int)) = .ok ((s.drop k).take n) := by
  unfold substring
  have h1 : ¬ (k : Int) < 0 := by omega
  have h2 : ¬ (k : Int) > (k : Int) + (n : Int) := by omega
  simp only [h1, h2, ite_false]
  congr 2 <;> omega

/-! ### contains -/

theorem take_drop_eq_iff (s sub : Str) (j : Nat) :
    (s.drop j).take sub.length = sub ↔ ∃ t, s.drop j = sub ++ t := by
  constructor
  · intro h
    have h2 := (List.take_append_drop sub.length (s.drop j)).symm
    rw [h] at h2
    exact ⟨_, h2⟩
  · rintro ⟨t, h⟩
    rw [h, List.take_left']
    rfl

theorem infix_iff_window (s sub : Str) :
    sub <:+: s ↔ ∃ j, j + sub.length ≤ s.length ∧ (s.drop j).take sub.length = sub := by
  constructor
  · rintro ⟨a, b, h⟩
    refine ⟨a.length, ?_, ?_⟩
    · rw [← h]; simp
    · rw [take_drop_eq_iff]
      exact ⟨b, by rw [← h, List.append_assoc, List.drop_left' rfl]⟩
  · rintro ⟨j, hj, h⟩
    obtain ⟨t, ht⟩ := (take_drop_eq_iff s sub j).1 h
    exact ⟨s.take j, t, by rw [List.append_assoc, ← ht, List.take_append_drop]⟩

theorem containsLoop_eq (this sub : Str) (hm : sub.length ≤ this.length) (fuel i : Nat)
    (hf : this.length - sub.length + 2 ≤ fuel + i) (hi : i ≤ this.length - sub.length + 1) :
    containsLoop this sub fuel (i : Int) = .ok ((List.range' i (this.length - sub.length + 1 - i)).any
      (fun j => (this.drop j).take sub.length == sub)) := by
  induction fuel generalizing i with
  | zero => omega
  | succ fuel ih =>
    unfold containsLoop
    by_cases hc : (i : Int) ≤ strLen this - strLen sub
    · simp only [strLen] at hc
      simp only [hc, strLen, ite_true, substring_nat, Res.bind_ok]
      have e : this.length - sub.length + 1 - i = (this.length - sub.length + 1 - (i + 1)) + 1 := by omega
      rw [e, List.range'_succ, List.any_cons]
      by_cases hs : ((this.drop i).take sub.length == sub) = true
      · simp [hs]
      · have ih' := ih (i + 1) (by omega) (by omega)
        simp only [Int.natCast_add, Int.cast_ofNat_Int] at ih'
        simp only [hs, ih']
        simp
    · simp only [strLen] at hc
      simp only [strLen, hc, ite_false]
      have e : this.length - sub.length + 1 - i = 0 := by omega
      simp [e]

theorem contains_eq (fuel : Nat) (this sub : Str) (hf : this.length + 2 ≤ fuel) :
    ∃ b, contains fuel this sub = .ok b ∧ (b = true ↔ sub <:+: this) := by
  unfold contains
  by_cases hm : strLen sub > strLen this
  · simp only [hm, ite_true]
    refine ⟨false, rfl, ?_⟩
    simp only [strLen] at hm
    constructor
    · intro h; cases h
    · intro h
      have := h.length_le
      omega
  · simp only [hm, ite_false]
    simp only [strLen] at hm
    have := containsLoop_eq this sub (by omega) fuel 0 (by omega) (by omega)
    simp only [Int.cast_ofNat_Int] at this
    refine ⟨_, this, ?_⟩
    rw [infix_iff_window, List.any_eq_true]
    constructor
    · rintro ⟨j, hj, h⟩
      rw [List.mem_range'_1] at hj
      exact ⟨j, by omega, by simpa using h⟩
    · rintro ⟨j, hj, h⟩
      exact ⟨j, by rw [List.mem_range'_1]; omega, by simpa using h⟩

/-! ### trim_left -/

def isSp (c : Char) : Bool := c == ' '

theorem length_takeWhile_le' (p : Char → Bool) (l : Str) : (l.takeWhile p).length ≤ l.length := by
  have := congrArg List.length (List.takeWhile_append_dropWhile (p := p) (l := l))
  simp only [List.length_append] at this
  omega

theorem trimLeftLoop_eq (s : Str) (fuel i : Nat) (hi : i ≤ s.length) (hf : s.length + 1 ≤ fuel + i) :
    trimLeftLoop s fuel (i : Int) = .ok ((i + ((s.drop i).takeWhile isSp).length : Nat) : Int) := by
  induction fuel generalizing i with
  | zero =>
    have : i = s.length + 1 := by omega
    omega
  | succ fuel ih =>
    unfold trimLeftLoop
    by_cases hc : (i : Int) < strLen s
    · simp only [strLen] at hc
      have hlt : i < s.length := by omega
      have hd : s.drop i = s[i] :: s.drop (i + 1) := List.drop_eq_getElem_cons hlt
      have hs := substring_nat s i 1
      simp only [Int.cast_ofNat_Int] at hs
      simp only [strLen, hc, ite_true, hs, Res.bind_ok]
      rw [hd]
      simp only [List.take_succ_cons, List.take_zero, List.takeWhile_cons]
      by_cases hsp : s[i] = ' '
      · have ih' := ih (i + 1) (by omega) (by omega)
        simp only [Int.natCast_add, Int.cast_ofNat_Int] at ih'
        simp [hsp, ih', isSp]
        omega
      · simp [hsp, isSp]
    · simp only [strLen] at hc
      have : i = s.length := by omega
      subst this
      simp [strLen]

theorem trimLeft_eq (fuel : Nat) (s : Str) (hf : s.length + 1 ≤ fuel) :
    trimLeft fuel s = .ok (s.dropWhile isSp) := by
  unfold trimLeft
  have hl := trimLeftLoop_eq s fuel 0 (by omega) (by omega)
  simp only [Int.cast_ofNat_Int, List.drop_zero, Nat.zero_add] at hl
  have hle := length_takeWhile_le' isSp s
  rw [hl, Res.bind_ok, substring_ok _ _ _ (by omega) (by simp only [strLen]; omega)]
  simp only [strLen, Int.toNat_natCast, List.take_length]
  have key : ∀ (a b : Str), (a ++ b).drop a.length = b := fun a b => List.drop_left' rfl
  have k2 := key (s.takeWhile isSp) (s.dropWhile isSp)
  rw [List.takeWhile_append_dropWhile] at k2
  rw [k2]

/-! ### trim_right -/

theorem trimRightLoop_eq (s : Str) (fuel n : Nat) (hn : n ≤ s.length) (hf : n + 1 ≤ fuel) :
    trimRightLoop s fuel ((n : Int) - 1) = .ok (((((s.take n).reverse.dropWhile isSp).length : Nat) : Int) - 1) := by
  induction fuel generalizing n with
  | zero => omega
  | succ fuel ih =>
    unfold trimRightLoop
    cases n with
    | zero => simp
    | succ k =>
      have hge : ((k + 1 : Nat) : Int) - 1 ≥ 0 := by omega
      have e1 : ((k + 1 : Nat) : Int) - 1 = (k : Int) := by omega
      have hlt : k < s.length := by omega
      have hs := substring_nat s k 1
      simp only [Int.cast_ofNat_Int] at hs
      have hd : s.drop k = s[k] :: s.drop (k + 1) := List.drop_eq_getElem_cons hlt
      rw [e1]
      have hk0 : (k : Int) ≥ 0 := by omega
      simp only [hk0, ite_true, hs, Res.bind_ok, hd, List.take_succ_cons, List.take_zero]
      have ht : s.take (k + 1) = s.take k ++ [s[k]] := by
        rw [List.take_add_one, List.getElem?_eq_getElem hlt]; rfl
      rw [ht, List.reverse_append]
      simp only [List.reverse_singleton, List.singleton_append, List.dropWhile_cons]
      by_cases hsp : s[k] = ' '
      · have ih' := ih k (by omega) (by omega)
        simp [hsp, isSp, ih']
      · simp [hsp, isSp]
        omega

theorem trimRight_eq (fuel : Nat) (s : Str) (hf : s.length + 1 ≤ fuel) :
    trimRight fuel s = .ok (s.reverse.dropWhile isSp).reverse := by
  unfold trimRight
  have hl := trimRightLoop_eq s fuel s.length (by omega) (by omega)
  simp only [List.take_length] at hl
  simp only [strLen]
  rw [hl, Res.bind_ok, substring_ok _ _ _ (by omega) (by omega)]
  simp only [Int.sub_add_cancel, Int.toNat_natCast, Int.toNat_zero, List.drop_zero]
  have h := List.takeWhile_append_dropWhile (p := isSp) (l := s.reverse)
  have h2 : s = (s.reverse.dropWhile isSp).reverse ++ (s.reverse.takeWhile isSp).reverse := by
    rw [← List.reverse_append, h, List.reverse_reverse]
  have key : ∀ (a b : Str), (a ++ b).take a.length = a := fun a b => List.take_left' rfl
  have k2 := key (s.reverse.dropWhile isSp).reverse (s.reverse.takeWhile isSp).reverse
  rw [← h2, List.length_reverse] at k2
  rw [k2]

theorem trim_eq (fuel : Nat) (s : Str) (hf : s.length + 1 ≤ fuel) :
    trim fuel s = .ok ((s.dropWhile isSp).reverse.dropWhile isSp).reverse := by
  unfold trim
  rw [trimLeft_eq fuel s hf, Res.bind_ok]
  apply trimRight_eq
  have := congrArg List.length (List.takeWhile_append_dropWhile (p := isSp) (l := s))
  simp only [List.length_append] at this
  omega


/-! ### find / index_of -/

theorem find_some_bound (s n : Str) (k : Nat) (h : find s n = some k) :
    n <+: s.drop k ∧ k + n.length ≤ s.length := by
  induction s generalizing k with
  | nil =>
    unfold find at h
    cases n with
    | nil => simp at h; subst h; simp
    | cons a as => simp at h
  | cons c cs ih =>
    unfold find at h
    by_cases hp : n.isPrefixOf (c :: cs) = true
    · simp only [hp, ite_true, Option.some.injEq] at h
      subst h
      have hp' := List.isPrefixOf_iff_prefix.1 hp
      exact ⟨by simpa using hp', by simpa using hp'.length_le⟩
    · rw [if_neg hp] at h
      cases hf : find cs n with
      | none => simp [hf] at h
      | some k' =>
        simp only [hf, Option.map_some, Option.some.injEq] at h
        subst h
        have := ih k' hf
        exact ⟨by simpa using this.1, by simp; omega⟩

theorem find_minimal (s n : Str) (k : Nat) (h : find s n = some k) :
    ∀ j, j < k → ¬ n <+: s.drop j := by
  induction s generalizing k with
  | nil =>
    unfold find at h
    cases n with
    | nil => simp at h; subst h; intro j hj; omega
    | cons a as => simp at h
  | cons c cs ih =>
    unfold find at h
    by_cases hp : n.isPrefixOf (c :: cs) = true
    · simp only [hp, ite_true, Option.some.injEq] at h
      subst h
      intro j hj; omega
    · rw [if_neg hp] at h
      cases hf : find cs n with
      | none => simp [hf] at h
      | some k' =>
        simp only [hf, Option.map_some, Option.some.injEq] at h
        subst h
        intro j hj
        cases j with
        | zero =>
          intro hc
          exact hp (List.isPrefixOf_iff_prefix.2 (by simpa using hc))
        | succ j' =>
          have := ih k' hf j' (by omega)
          simpa using this

theorem find_none (s n : Str) (h : find s n = none) :
    ∀ j, j ≤ s.length → ¬ n <+: s.drop j := by
  induction s with
  | nil =>
    unfold find at h
    cases n with
    | nil => simp at h
    | cons a as => intro j _; simp
  | cons c cs ih =>
    unfold find at h
    by_cases hp : n.isPrefixOf (c :: cs) = true
    · simp [hp] at h
    · rw [if_neg hp] at h
      cases hf : find cs n with
      | some k' => simp [hf] at h
      | none =>
        intro j hj
        cases j with
        | zero =>
          intro hc
          exact hp (List.isPrefixOf_iff_prefix.2 (by simpa using hc))
        | succ j' =>
          have := ih hf j' (by simp at hj; omega)
          simpa using this

theorem indexOf_of_find_some (s n : Str) (k : Nat) (hn : n ≠ []) (h : find s n = some k) :
    indexOf s n = some (k : Int) := by
  have hb := (find_some_bound s n k h).2
  have : 0 < n.length := List.length_pos_iff.2 hn
  have hk : k < s.length := by omega
  simp [indexOf, h, hk]

theorem indexOf_of_find_none (s n : Str) (h : find s n = none) : indexOf s n = none := by
  simp [indexOf, h]

/-! ### split_once -/

theorem substring_take (s : Str) (k : Nat) : substring s 0 (k : Int) = .ok (s.take k) := by
  rw [substring_ok _ _ _ (by omega) (by omega)]
  simp

theorem substring_drop (s : Str) (k : Nat) (hk : k ≤ s.length) :
    substring s (k : Int) (strLen s) = .ok (s.drop k) := by
  rw [substring_ok _ _ _ (by omega) (by simp only [strLen]; omega)]
  simp [strLen]

theorem splitOnce_eq (s n : Str) (hn : n ≠ []) :
    splitOnce s n = .ok (match find s n with
      | none => none
      | some k => some (s.take k, s.drop (k + n.length))) := by
  unfold splitOnce
  cases hf : find s n with
  | none => simp [indexOf_of_find_none s n hf]
  | some k =>
    have hb := (find_some_bound s n k hf).2
    simp only [indexOf_of_find_some s n k hn hf, substring_take, Res.bind_ok, strLen]
    have := substring_drop s (k + n.length) hb
    simp only [Int.natCast_add, strLen] at this
    simp [this]

/-! ### split / replace -/

/-- Reference: cut at the leftmost occurrence, continue after it (`fuel` ≥ length suffices). -/
def splitCoreF (n : Str) : Nat → Str → List Str
  | 0, s => [s]
  | f + 1, s =>
    match find s n with
    | none => [s]
    | some k => s.take k :: splitCoreF n f (s.drop (k + n.length))

def splitCore (n s : Str) : List Str := splitCoreF n s.length s

theorem find_nil_of_ne (n : Str) (hn : n ≠ []) : find [] n = none := by
  cases n with
  | nil => exact absurd rfl hn
  | cons a as => simp [find]

theorem splitLoop_eq (n : Str) (hn : n ≠ []) (f fuel : Nat) (s : Str) (parts : List Str)
    (hf : s.length ≤ f) (hfuel : s.length + 1 ≤ fuel) :
    splitLoop n fuel s parts = .ok (parts ++ splitCoreF n f s) := by
  induction f generalizing fuel s parts with
  | zero =>
    have : s = [] := List.eq_nil_of_length_eq_zero (by omega)
    subst this
    cases fuel with
    | zero => omega
    | succ fuel => simp [splitLoop, indexOf_of_find_none [] n (find_nil_of_ne n hn), splitCoreF, listAppend]
  | succ f ih =>
    cases fuel with
    | zero => omega
    | succ fuel =>
      unfold splitLoop splitCoreF
      cases hfd : find s n with
      | none => simp [indexOf_of_find_none s n hfd, listAppend]
      | some k =>
        have hb := (find_some_bound s n k hfd).2
        have hpos : 0 < n.length := List.length_pos_iff.2 hn
        have hd := substring_drop s (k + n.length) hb
        simp only [Int.natCast_add, strLen] at hd
        simp only [indexOf_of_find_some s n k hn hfd, substring_take, Res.bind_ok, strLen, hd]
        rw [ih fuel _ _ (by simp; omega) (by simp; omega)]
        simp [listAppend]

theorem replaceLoop_eq (n after : Str) (hn : n ≠ []) (f fuel : Nat) (s : Str) (parts : List Str)
    (hf : s.length ≤ f) (hfuel : s.length + 1 ≤ fuel) :
    replaceLoop n after fuel s parts = .ok (parts ++ List.intersperse after (splitCoreF n f s)) := by
  induction f generalizing fuel s parts with
  | zero =>
    have : s = [] := List.eq_nil_of_length_eq_zero (by omega)
    subst this
    cases fuel with
    | zero => omega
    | succ fuel => simp [replaceLoop, indexOf_of_find_none [] n (find_nil_of_ne n hn), splitCoreF, listAppend]
  | succ f ih =>
    cases fuel with
    | zero => omega
    | succ fuel =>
      unfold replaceLoop splitCoreF
      cases hfd : find s n with
      | none => simp [indexOf_of_find_none s n hfd, listAppend]
      | some k =>
        have hb := (find_some_bound s n k hfd).2
        have hpos : 0 < n.length := List.length_pos_iff.2 hn
        have hd := substring_drop s (k + n.length) hb
        simp only [Int.natCast_add, strLen] at hd
        simp only [indexOf_of_find_some s n k hn hfd, substring_take, Res.bind_ok, strLen, hd]
        rw [ih fuel _ _ (by simp; omega) (by simp; omega)]
        have hne : splitCoreF n f (List.drop (k + n.length) s) ≠ [] := by
          cases f <;> simp [splitCoreF] <;> split <;> simp
        obtain ⟨y, ys, hy⟩ := List.exists_cons_of_ne_nil hne
        simp [listAppend, hy]

theorem split_eq (fuel : Nat) (s n : Str) (hn : n ≠ []) (hfuel : s.length + 1 ≤ fuel) :
    split fuel s n = .ok (if s = [] then [] else splitCore n s) := by
  have hn' : (n == []) = false := by simpa using hn
  unfold split splitUnguarded
  simp only [hn']
  by_cases hs : s = []
  · simp [hs]
  · have hs' : (s == []) = false := by simpa using hs
    simp [hs', hs, splitLoop_eq n hn s.length fuel s [] (by omega) hfuel, splitCore]

theorem flatten_intersperse_nil (xs : List Str) : (List.intersperse [] xs).flatten = xs.flatten := by
  cases xs with
  | nil => rfl
  | cons x xs => rw [flatten_intersperse]; simp

theorem replace_eq (fuel : Nat) (s before after : Str) (hn : before ≠ []) (hfuel : s.length + 1 ≤ fuel) :
    replace fuel s before after = .ok (List.intercalate after (splitCore before s)) := by
  have hn' : (before == []) = false := by simpa using hn
  unfold replace replaceUnguarded
  simp [hn', replaceLoop_eq before after hn s.length fuel s [] (by omega) hfuel, join_eq, splitCore,
    List.intercalate, flatten_intersperse_nil]

/-- The reference split is an inverse of joining with the needle. -/
theorem splitCoreF_join (n : Str) (f : Nat) (s : Str) :
    List.intercalate n (splitCoreF n f s) = s := by
  induction f generalizing s with
  | zero => simp [splitCoreF, List.intercalate]
  | succ f ih =>
    unfold splitCoreF
    cases hfd : find s n with
    | none => simp [List.intercalate]
    | some k =>
      have hb := find_some_bound s n k hfd
      have hne : splitCoreF n f (List.drop (k + n.length) s) ≠ [] := by
        cases f <;> simp [splitCoreF] <;> split <;> simp
      obtain ⟨y, ys, hy⟩ := List.exists_cons_of_ne_nil hne
      have ih' := ih (s.drop (k + n.length))
      simp only [hy, List.intercalate] at ih' ⊢
      simp only [List.intersperse_cons_cons, List.flatten_cons, ih']
      obtain ⟨t, ht⟩ := hb.1
      have : s.drop (k + n.length) = t := by
        rw [← List.drop_drop, ← ht, List.drop_left' rfl]
      rw [this, ht, List.take_append_drop]


theorem chars_flatten (s : Str) : (chars s).flatten = s := by
  induction s with
  | nil => rfl
  | cons c cs ih => simp [chars] at ih ⊢; exact ih

theorem chars_singletons (s : Str) : ∀ x ∈ chars s, x.length = 1 := by
  intro x hx
  simp [chars] at hx
  obtain ⟨c, _, rfl⟩ := hx
  rfl

theorem splitInclusiveNl_flatten (s cur : Str) :
    (splitInclusiveNl s cur).flatten = cur.reverse ++ s := by
  induction s generalizing cur with
  | nil => unfold splitInclusiveNl; cases cur <;> simp
  | cons c cs ih =>
    unfold splitInclusiveNl
    split <;> simp [ih]

theorem listContains_eq {α : Type} [BEq α] (l : List α) (x : α) : listContains l x = l.any (· == x) := by
  induction l with
  | nil => rfl
  | cons y ys ih => unfold listContains; cases h : y == x <;> simp [h, ih]

end Prelude
