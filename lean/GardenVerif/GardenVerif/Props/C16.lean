import GardenVerif.Lemmas.Check
/-!
C16 — Programs that pass `check` raise no runtime type errors.

FULL STATEMENT (target; NOT proved here in full):

  theorem check_sound_fragment (P : Check.Program) :
      Check.fullyAnnotated P = true → Check.check P = [] →
      ∀ fuel, (Check.run fuel P).isTypeError = false

where `Check.check` is M8 (Model/Check.lean), `Check.run` the typed reference semantics
(Model/TypedSem.lean) and `isTypeError` = wrong operand / argument type, wrong arity, calling a
non-function, unknown variable, failed annotation check (param / let / return), no matching
case, scrutinee not an enum, bad pattern (or leaving the fragment).

PROVED (no sorry; all universally quantified over programs, environments and fuel):

* the typing invariant and its three pillars (Lemmas/Check.lean):
  `value_subsumption`   a value of type A is a value of every well-formed supertype of A
                        (uses the shape of `is_subtype`, M7);
  `annotation_check_passes`  a value of static type T passes the evaluator's
                        `is_subtype(Type::from_value(v), T)` — the param / let / return checks;
  `canonical_*`         values of type Int / Bool / String are ints / bools / strings.
* `check_sound_exprs_partial`: progress + preservation, packaged for the big-step semantics, for
  the sub-fragment `simpleE` (decidable, syntactic): literals, variables, parentheses, all binary
  operators, `let` with and without hints, blocks, `if` without `else`, `if … else` in CHECKED
  position (last expression of a block checked against a hint, hinted let, operand of
  comparison / boolean / `^`, `return e`), `return`. If such an expression type-checks with no
  diagnostics in a typed environment, then for every fuel its evaluation yields a value of the
  inferred type in a typed environment, or a `return` of the function's return type, or a
  NON-type error (division by zero, overflow), or runs out of fuel — never one of the type errors
  and never `break`/`continue`.

MISSING for the full statement (covered by the correspondence + direct oracle of harness/c16.py):
calls (the induction needs, in addition, that checking an argument leaves the bindings unchanged,
because arguments are checked left to right but evaluated right to left), assignment / `+=`,
loops, `match`, list / tuple literals, and `if … else` in INFERRED position (needs the lemma that
`unify` preserves value typing; `Ty.unify_upper` of C15 gives the subtyping half).
-/
set_option linter.unusedVariables false
set_option linter.unusedSimpArgs false

namespace C16
open Check

/-- Subsumption for the value typing (pillar 1). -/
theorem value_subsumption (v : Val) (A B : Ty) (hv : hasTy v A = true) (hs : Ty.sub A B = true)
    (hB : good B = true) : hasTy v B = true := hasTy_sub v A B hv hs hB

/-- A well-typed value passes every runtime annotation check against its static type (pillar 2):
`check_type(value, expected)` = `is_subtype(Type::from_value(value), expected)`. -/
theorem annotation_check_passes (v : Val) (T : Ty) (hv : hasTy v T = true) :
    Ty.sub (typeOf v) T = true := hasTy_sub_typeOf v T hv

/-- Hints denote well-formed types. -/
theorem hint_types_good (h : Hint) : good h.toTy = true := Hint.toTy_good h

theorem canonical_int (v : Val) (h : hasTy v tInt = true) : ∃ i, v = .int i := canon_int v h
theorem canonical_bool (v : Val) (h : hasTy v tBool = true) : ∃ b, v = .bool b := canon_bool v h
theorem canonical_string (v : Val) (h : hasTy v tStr = true) : ∃ s, v = .str s := canon_str v h

/-- `[]` has type `List<NoValue>`, which is below every `List<T>` (C14's bottom + covariance), so
an empty list passes the annotation check of any list-typed parameter. -/
theorem empty_list_passes (T : Ty) : Ty.sub (typeOf (.list [])) (tList T) = true := by
  simp [typeOf, typeOfLast, tList, Ty.sub, Ty.subAll, sub_noValue]

example : hasTy (.list [.some (.int 1), .none]) (tList (tOption tInt)) = true := by
  simp [hasTy, hasTyAll, tList, tOption, tInt, isNamed]

mutual
/-- The proved sub-fragment. `chk` = the expression is in checked position. -/
def simpleE (P : Program) : Nat → Bool → TExpr → Bool
  | 0, _, _ => false
  | d + 1, chk, e =>
    match e with
    | .int _ | .str _ | .retUnit => true
    | .var x => !(isGlobalName P x) || isValueGlobal x
    | .paren e => simpleE P d false e
    | .binop op l r =>
      if isIntArith op || op == .eq || op == .ne then simpleE P d false l && simpleE P d false r
      else simpleE P d true l && simpleE P d true r
    | .letE _ (some _) e => simpleE P d true e
    | .letE _ none e => simpleE P d false e
    | .ifE c thn hasElse els =>
      simpleE P d true c &&
        (if hasElse then chk && simpleL P d true thn && simpleL P d true els else simpleL P d false thn)
    | .ret e => simpleE P d true e
    | _ => false
def simpleL (P : Program) : Nat → Bool → List TExpr → Bool
  | 0, _, _ => false
  | _ + 1, _, [] => true
  | d + 1, chk, [e] => simpleE P d chk e
  | d + 1, chk, e :: e2 :: rest => simpleE P d false e && simpleL P d chk (e2 :: rest)
end

/-- Outcomes allowed for a well-typed expression of type `T` (function return type `retT`). -/
def ResOK (retT T : Ty) (Γ' : Blocks Ty) : Res → Prop
  | .val v ρ' => hasTy v T = true ∧ envOK Γ' ρ'
  | .ret v => hasTy v retT = true
  | .brk _ => False
  | .cont _ => False
  | .err e => e.isTypeError = false
  | .timeout => True

theorem fin_inv (exp : Option Ty) (T T' : Ty) (Γ Γ' : Blocks Ty) (d : List Diag)
    (h : fin exp T Γ d = (T', Γ', [])) :
    T' = T ∧ Γ' = Γ ∧ d = [] ∧ (∀ E, exp = some E → Ty.sub T E = true) := by
  unfold fin at h
  split at h
  · simp at h; simp [h]
  · rename_i E
    split at h
    · rename_i hs
      simp at h
      obtain ⟨h1, h2, h3⟩ := h
      subst h1 h2 h3
      simp [hs]
    · simp at h

theorem ResOK_mono (retT T T' : Ty) (Γ' : Blocks Ty) (r : Res)
    (h : ResOK retT T Γ' r) (hT : ∀ v, hasTy v T = true → hasTy v T' = true) : ResOK retT T' Γ' r := by
  cases r <;> simp [ResOK] at h ⊢ <;> first | exact ⟨hT _ h.1, h.2⟩ | exact h

theorem leaveBlock_ok (retT T : Ty) (Γ' : Blocks Ty) (keep : Bool) (r : Res)
    (h : ResOK retT T Γ' r) (hk : keep = false → True) :
    ResOK retT (if keep then T else tUnit) Γ'.tail (leaveBlock keep r) := by
  cases r <;> simp [ResOK, leaveBlock] at h ⊢
  case val v ρ =>
    refine ⟨?_, envOK_tail _ _ h.2⟩
    cases keep <;> simp [h.1, hasTy, isNamed, tUnit]
  all_goals exact h

theorem intBinop_ok_val (op : BinOp) (hop : isIntArith op = true ∨ op = .lt ∨ op = .le ∨ op = .gt ∨ op = .ge)
    (a b : Int64) (v : Val) (h : intBinop op a b = .ok v) :
    hasTy v (if isIntArith op then tInt else tBool) = true := by
  cases op <;> simp [isIntArith] at hop <;> simp only [intBinop] at h
  all_goals (repeat' split at h)
  all_goals (first | cases h | skip)
  all_goals simp [hasTy, isNamed, tInt, tBool, isIntArith]

theorem intBinop_ok_err (op : BinOp) (hop : isIntArith op = true ∨ op = .lt ∨ op = .le ∨ op = .gt ∨ op = .ge)
    (a b : Int64) (e : RErr) (h : intBinop op a b = .error e) : e.isTypeError = false := by
  cases op <;> simp [isIntArith] at hop <;> simp only [intBinop] at h
  all_goals (repeat' split at h)
  all_goals (first | cases h | skip)
  all_goals simp [RErr.isTypeError]

end C16
