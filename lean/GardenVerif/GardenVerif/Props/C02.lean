import GardenVerif.Lemmas.MachineDiscipline
/-!
# C02 — Evaluation never panics (value-stack discipline of the evaluator machine)

**Model.** `Machine.step` (Model/Machine.lean): one iteration of the loop of `eval` in src/eval.rs
for the core language; every `expect` / `unreachable!` / `assert!` on the modelled path is an
explicit `StepResult.panic site` (via `Disp.panic` of `Machine.dispatch`).  The model is compared
tick-by-tick with the real evaluator by the trace-correspondence harness.

**Invariant.** `WF s := WFd s ∧ StateV s` (both in Lemmas/MachineDiscipline.lean).  `WFd s`: the call
stack is non-empty; for the current frame
* `Bal f.exprs f.values`: running the pending entries (top first) against the value stack never
  underflows: each entry pops `cons st e` values, a running `for` has `[iteree, Int index]` on top
  (`entryOK`), and leaves one value of unknown content iff `prod st e`;
* `KOK f.exprs`: every pending node is a well-formed syntax tree (`okE`), and a node that may be or
  contain `break`/`continue` is pending only inside the body of a running loop (its value used or
  not), under unused `if`/`match` statements only (`loopCtx`);
* `1 + C06.owners f.exprs ≤ f.blocks.length`: one binding block per block-owning pending entry plus
  at least one base block (re-using the balance theorem `C06.dispatch_bal`), so `pop_block` never
  empties the bindings;
and every caller frame satisfies the same with `Bal` shifted by the value the callee returns iff the
callee's `callerUses` (`StackOK`); and `StateV s` — the DEEP VALUE INVARIANT: `okProg s.prog`, and in
every frame every value (value stack, binding blocks, pending `nextBlock`) satisfies `VOK`: every
closure nested anywhere in it (lists, tuples, enum payloads, closure environments) has a body with
`okBlock false true`, every `.fn name` has a definition in `p.funs` (with such a body).  It is what
makes the callee frame of a call well-formed and excludes the panic "function value without
definition".

**What is proved** (no hypothesis besides `okProg p`; nothing is left partial).
* `MachineDiscipline.dispatch_disc` (Lemmas): for ALL 21 node kinds and all entry states, one
  `dispatch` from a frame satisfying the invariant is not a panic and re-establishes `Bal`/`KOK`
  (also for the callee frame of a call).  `dispatch_blk`, `dispatch_cu`, `dispatch_vok`: the block
  count, the `callerUses` flag, the value invariant.
* here: `init_WF`, `step_no_panic`, `step_preserves_WF`, `reach_WF`, `run_no_panic`.
Runs that end in a runtime error stop (`StepResult.error`, state restored for `:resume`); they are
outside `Reach` (resuming is C08's subject).

**Exclusions = known defects of the real interpreter, part of `okProg`.**
(i) `break`/`continue` in operand position, e.g. `1 + break` (C02/break-continue-in-operand-position):
    `okE false (.brk ..) = false`.
(ii) (NO LONGER an exclusion) `break` out of a loop whose value is used, e.g.
    `(while True { break }, while True { break })` or any toplevel `while … { break }` (toplevel
    expressions are used): before the fix 7c0ed2e in /repo it panicked "Value stack should have
    sufficient items for the tuple literal" because `eval_break` pushed Unit by the `break`'s own flag.
    Now `eval_break` (and the model's `.brk` case) pushes Unit iff the LOOP's value is used, and
    `okProg` accepts `break`/`continue` in the body of any loop, used or not (`okBlock true false body`;
    `breakLoop_disc` shows the value the consumer waits for is pushed exactly when `headLoopUsed`).
(iii) `break`/`continue` outside any loop (function bodies and lambdas are checked with flag `false`).
(iv) before the parser fix in /repo HEAD (acc2a71), a parenthesised expression in statement position
    (`for x in [1,2] { (5) }` → panic "`for` loop index should always be an `Int`"): `okE` requires
    `inner.used = paren.used`, which the fixed parser guarantees.
-/
set_option linter.unusedVariables false
namespace C02
open Machine MachineDiscipline

/-- The invariant: value-stack discipline + deep value invariant (see the header). -/
def WF (s : State) : Prop := MachineDiscipline.WFd s ∧ MachineDiscipline.StateV s

/-- The initial state of a well-formed program satisfies the invariant. -/
theorem init_WF (p : Program) (tl sl : Option Nat) (h : okProg p = true) : WF (init p [] tl sl) := by
  have h0 := h
  simp [okProg] at h
  obtain ⟨hu, ho⟩ := okItems_used p.toplevel h.2
  refine ⟨⟨initFrame p.toplevel, [], rfl, ⟨?_, ?_, ?_⟩, trivial⟩, h0, ?_⟩
  · have := Bal_operands p.toplevel [] [vUnit] hu (by intro vs _; simp [MachineDiscipline.Bal])
    simpa [initFrame] using this
  · have := KOK_operands p.toplevel [] (by simp [KOK]) ho
    simpa [initFrame] using this
  · simp [initFrame, C06.owners_fresh]
  · intro f hf
    simp [init] at hf
    subst hf
    refine ⟨?_, ?_, ?_⟩
    · intro v hv; simp [initFrame] at hv; subst hv; exact vUnit_V p
    · intro b hb; simp [initFrame] at hb; subst hb; intro kv hkv; simp at hkv
    · intro kv hkv; simp [initFrame] at hkv

/-- **No step from a state satisfying the invariant panics.** -/
theorem step_no_panic (s : State) (hw : WF s) (site : String) : step s ≠ .panic site :=
  step_no_panic_core s hw.1 (StateV_CallsOK s hw.2) site

/-- **The invariant is preserved by every step.** -/
theorem step_preserves_WF (s s' : State) (hw : WF s) (h : step s = .cont s') : WF s' :=
  ⟨step_preserves_core s s' hw.1 (StateV_CallsOK s hw.2) h, step_preserves_V s s' hw.1 hw.2 h⟩

/-- States reachable from the start of `garden run p` by evaluator steps (an error ends the run). -/
inductive Reach (p : Program) (tl sl : Option Nat) : State → Prop
  | init : Reach p tl sl (init p [] tl sl)
  | step {s s' : State} : Reach p tl sl s → step s = .cont s' → Reach p tl sl s'

/-- Every reachable state of a well-formed program satisfies the invariant. -/
theorem reach_WF (p : Program) (tl sl : Option Nat) (hp : okProg p = true) (s : State)
    (h : Reach p tl sl s) : WF s := by
  induction h with
  | init => exact init_WF p tl sl hp
  | step _ hs ih => exact step_preserves_WF _ _ ih hs

/-- **Evaluation of a well-formed program never panics**: from no reachable state (any number of
steps, any tick/stack limits) does the next step hit an `expect`/`unreachable!`/`assert!`. -/
theorem run_no_panic (p : Program) (tl sl : Option Nat) (hp : okProg p = true) (s : State)
    (h : Reach p tl sl s) (site : String) : step s ≠ .panic site :=
  step_no_panic s (reach_WF p tl sl hp s h) site

-- ------------------------------------------------------------------ non-vacuity

/-- `fun f(x) { while True { if x { break } continue } x }  f(True)` -/
def demo : Program :=
  { funs := [⟨"f", ["x"],
      [.whileE 3 false (.var 4 true "True")
          [.ifE 8 false (.var 9 true "x") [.brk 5 false] none, .cont 10 false],
       .var 6 true "x"]⟩],
    enums := [],
    toplevel := [.call 1 true (.var 2 true "f") [.var 7 true "True"]] }

example : okProg demo = true := by
  simp [okProg, okE, okBlock, okItems, Expr.used, demo]

/-- (i) `while True { 1 + break }`: `break` in operand position is rejected. -/
def badOperand : Program :=
  { funs := [], enums := [],
    toplevel := [.whileE 9 true (.var 8 true "True")
      [.binop 1 false .add (.int 3 true 1) (.brk 2 true)]] }

example : okProg badOperand = false := by
  simp [okProg, okE, okBlock, okItems, Expr.used, badOperand]

/-- (ii) `(while True { break }, while True { break })`: `break` out of a USED loop is accepted (the
evaluator pushes the loop's Unit on `break` since 7c0ed2e; a toplevel loop is a used expression). -/
def usedLoop : Program :=
  { funs := [], enums := [],
    toplevel := [.tuple 1 true [.whileE 2 true (.var 3 true "True") [.brk 4 false],
                                .whileE 5 true (.var 6 true "True") [.brk 7 false]]] }

example : okProg usedLoop = true := by
  simp [okProg, okE, okBlock, okItems, Expr.used, usedLoop]

/-- (iv) `for x in [1, 2] { (5) }` as parsed before the fix (inner `5` used, the parenthesised
statement unused) is rejected. -/
def badParen : Program :=
  { funs := [], enums := [],
    toplevel := [.forE 1 true (.sym "x") (.list 2 true [.int 3 true 1, .int 4 true 2])
      [.paren 5 false (.int 6 true 5)]] }

example : okProg badParen = false := by
  simp [okProg, okE, okBlock, okItems, Expr.used, badParen]

end C02
