import GardenVerif.Lemmas.Check
/-!
C16 — Programs that pass `check` raise no runtime type errors.

THE THEOREM (proved, no sorry, no extra hypotheses):

  theorem check_sound_fragment (P : Check.Program) :
      Check.fullyAnnotated P = true → Check.check P = [] →
      ∀ fuel, (Check.run fuel P).isTypeError = false

* `Check.check` is M8 (Model/Check.lean): all Error diagnostics of `garden check` on a program of
  the fully annotated, monomorphic, first-order core fragment — the bidirectional type checker
  (`infer_expr_` / `check_expr_` / `check_match` / `infer_call` / …, transcribed arm by arm) and
  `check_loops`.
* `Check.run` is the typed reference semantics (Model/TypedSem.lean): a fuel-indexed big-step
  interpreter with the evaluator's RUNTIME TYPE ERRORS as explicit outcomes; `isTypeError` = wrong
  operand / argument type, wrong arity, calling a non-function, unknown variable, failed annotation
  check (parameter / let / return), no matching case, scrutinee not an enum, bad pattern (or leaving
  the fragment). Division by zero, overflow and running out of fuel are not type errors.
* `Check.fullyAnnotated P` (decidable, syntactic): every function has hints on all parameters and
  on its return (by construction of `FunDef`); bodies and toplevel expressions are built from
  literals, variables, parentheses, all binary operators, `let` (as a block statement) with and
  without hints, assignment, `+=`/`-=`, `if` with and without `else`, `while`, `for` over lists,
  `match` on Option / Bool / Unit with `_` cases and exhaustiveness, `return`, `break`/`continue`,
  list and tuple literals, calls of named functions of the program (recursion included), `Some`,
  `println`, `print`, `string_repr`. Exclusions (each a syntactic condition, see `Check.okE`):
  the iterable of a `for` is a variable, a call or a parenthesised expression (`Check.iterOK`; for
  list literals / `if` / `match` directly in that position the real checker computes lossy types:
  known findings C16/any-from-checked-if and C16/error-from-checked-list); a `_` case binds no
  payload; first order (a variable in value position is a local or `None`/`True`/`False`/`Unit`).

HOW: `Check.sound` (Lemmas/Check.lean) — progress + preservation packaged for the big-step
semantics, by induction on the fuel, simultaneously for expressions, blocks, argument lists, calls,
`while`, `for` and `match` cases — on top of
* the typing invariant `Check.hasTy v T` (deep) with `value_subsumption` (uses the shape of
  `is_subtype`, M7 / C14), `annotation_check_passes` (a well-typed value passes the evaluator's
  `is_subtype(Type::from_value(v), T)`: the param / let / return checks cannot fail), canonical forms;
* checker-only invariants, by induction on a nesting-depth bound: `Check.tc_inv` (checking an
  expression leaves the bindings unchanged, checking a block only changes its own scope: needed
  because the checker threads its bindings through BOTH branches of an `if`, through every loop
  body once, and through arguments left to right while they are evaluated right to left),
  `Check.tc_gi` (inferred types are well-formed fragment types: no `Error`, no `Any`),
  `Check.hasTy_unify` (`unify` / `unify_all` preserve value typing; uses C15's `unify_upper`);
* for `match`: `Check.exhaustive_covers` (no diagnostic of `check_match_exhaustive` ⇒ the
  scrutinee's variant is named by a case or there is a `_` case) and `Check.pat_key` (a case that
  passed the pattern checks fires exactly on its variant and binds a payload of the payload type);
* for loops: the body is re-run under the SAME checker bindings (`tc_inv`), so environment typing is a
  loop invariant; `break`/`continue` carry an environment typed by the bindings at the loop.

The model describes /repo with the fixes checker-fix-toplevel-let-scope, checker-fix-match-non-enum
and checker-fix-novalue-scrutinee-payload (all committed there); each was a genuine unsoundness
found while building this proof.
-/
set_option linter.unusedVariables false
set_option linter.unusedSimpArgs false

namespace C16
open Check

/-- Subsumption for the value typing (pillar 1). -/
theorem value_subsumption (v : Val) (A B : Ty) (hv : hasTy v A = true) (hs : Ty.sub A B = true)
    (hB : good B = true) : hasTy v B = true := hasTy_sub v A B hv hs hB

/-- A well-typed value passes every runtime annotation check against its static type (pillar 2):
`check_type(value, expected)` = `is_subtype(Type::from_value(value), expected)`. -/
theorem annotation_check_passes (v : Val) (T : Ty) (hv : hasTy v T = true) :
    Ty.sub (typeOf v) T = true := hasTy_sub_typeOf v T hv

/-- Hints denote well-formed types. -/
theorem hint_types_good (h : Hint) : good h.toTy = true := Hint.toTy_good h

theorem canonical_int (v : Val) (h : hasTy v tInt = true) : ∃ i, v = .int i := canon_int v h
theorem canonical_bool (v : Val) (h : hasTy v tBool = true) : ∃ b, v = .bool b := canon_bool v h
theorem canonical_string (v : Val) (h : hasTy v tStr = true) : ∃ s, v = .str s := canon_str v h

/-- `[]` has type `List<NoValue>`, which is below every `List<T>` (C14's bottom + covariance), so
an empty list passes the annotation check of any list-typed parameter. -/
theorem empty_list_passes (T : Ty) : Ty.sub (typeOf (.list [])) (tList T) = true := by
  simp [typeOf, typeOfLast, tList, Ty.sub, Ty.subAll, sub_noValue]

example : hasTy (.list [.some (.int 1), .none]) (tList (tOption tInt)) = true := by
  simp [hasTy, hasTyAll, tList, tOption, tInt, isNamed]


-- ------------------------------------------------------------------ blocks

/-- Soundness of the checker (M8) w.r.t. the typed reference semantics for a BLOCK of the fragment
(all forms). Hypotheses: `ProgOK P D` — every function body of `P` is in the fragment and was
accepted by the checker against its annotations (what `check P = []` gives: `progOK_of_check`);
the block is in the fragment (`okL`), passes `check_loops` (`loopDiagsL il es = []`) and
type-checks with NO diagnostic in bindings `Γ` of well-formed types that type the runtime
environment `ρ`. Conclusion, for EVERY fuel: the evaluation yields a value of the inferred type
(of the expected type in checked position) in an environment typed by `Γ'`, or a `return` of a
value of the function's return type, or (inside a loop only) break/continue with an environment
typed at the loop, or a NON-type error, or runs out of fuel. -/
theorem check_sound_exprs (P : Program) (D : Nat) (hP : ProgOK P D)
    (d : Nat) (es : List TExpr) (ret : Ty) (exp : Option Ty) (Γ Γ' : Blocks Ty) (ρ : Blocks Val) (T : Ty)
    (il : Bool)
    (hfrag : okL P d es = true) (hloops : loopDiagsL il es = [])
    (hcheck : tcSeq P ret exp Γ es = (T, Γ', []))
    (hexp : ∀ E, exp = some E → good E = true) (hret : good ret = true)
    (henv : envOK Γ ρ) (hΓ : GoodEnv Γ) :
    ∀ fuel, R ret (resTy exp T) Γ Γ' il (evalSeq P fuel ρ es) :=
  fun fuel => (sound P D hP fuel).2.1 d es ret exp Γ ρ T Γ' il hfrag hcheck hloops hexp hret henv hΓ

/-- … in particular: never one of C16's type errors. -/
theorem check_sound_exprs_no_type_error (P : Program) (D : Nat) (hP : ProgOK P D)
    (d : Nat) (es : List TExpr) (ret : Ty) (exp : Option Ty) (Γ Γ' : Blocks Ty) (ρ : Blocks Val) (T : Ty)
    (il : Bool)
    (hfrag : okL P d es = true) (hloops : loopDiagsL il es = [])
    (hcheck : tcSeq P ret exp Γ es = (T, Γ', []))
    (hexp : ∀ E, exp = some E → good E = true) (hret : good ret = true)
    (henv : envOK Γ ρ) (hΓ : GoodEnv Γ) (fuel : Nat) (e : RErr)
    (h : evalSeq P fuel ρ es = .err e) : e.isTypeError = false := by
  have := check_sound_exprs P D hP d es ret exp Γ Γ' ρ T il hfrag hloops hcheck hexp hret henv hΓ fuel
  rw [h] at this
  simpa [R] using this

theorem checkFuns_nil (P : Program) : ∀ fs : List FunDef, checkFuns P fs = [] → ∀ f ∈ fs, checkFun P f = []
  | [], _, f, hf => by simp at hf
  | g :: gs, h, f, hf => by
    simp only [checkFuns] at h
    obtain ⟨h1, h2⟩ := List.append_eq_nil_iff.mp h
    simp at hf
    rcases hf with rfl | hf
    · exact h1
    · exact checkFuns_nil P gs h2 f hf

/-- `check P = []` gives the program-wide invariant: every function body checks against its
declared return type and passes `check_loops`. -/
theorem progOK_of_check (P : Program) (D : Nat) (hcheck : check P = [])
    (hfrag : ∀ f ∈ P.funs, okL P D f.body = true) : ProgOK P D := by
  intro f hf
  have hc : checkFuns P P.funs = [] := by
    unfold check at hcheck
    exact (List.append_eq_nil_iff.mp hcheck).1
  have := checkFuns_nil P P.funs hc f hf
  unfold checkFun at this
  obtain ⟨h1, h2⟩ := List.append_eq_nil_iff.mp this
  exact ⟨hfrag f hf, h1, h2⟩

-- ------------------------------------------------------------------ programs

/-- The full-fragment theorem for an arbitrary depth bound `D`. -/
theorem check_sound_fragment_D (P : Program) (D : Nat)
    (hfrag : fragmentD P D = true) (hcheck : check P = []) :
    ∀ fuel, (run fuel P).isTypeError = false := by
  intro fuel
  unfold fragmentD at hfrag
  simp only [Bool.and_eq_true, List.all_eq_true] at hfrag
  obtain ⟨hfuns, htop⟩ := hfrag
  have hP := progOK_of_check P D hcheck hfuns
  have hc : checkTop P [[]] P.top = [] := by
    unfold check at hcheck
    exact (List.append_eq_nil_iff.mp hcheck).2
  have key : ∀ (es : List TExpr) (Γ : Blocks Ty) (ρ : Blocks Val),
      (∀ e ∈ es, okS P D e = true) →
      checkTop P Γ es = [] → envOK Γ ρ → GoodEnv Γ → (runTop P fuel ρ es).isTypeError = false := by
    intro es
    induction es with
    | nil => intros; simp [runTop, Outcome.isTypeError]
    | cons e rest ih =>
      intro Γ ρ hs hck henv hG
      simp only [checkTop] at hck
      obtain ⟨T1, Γ1, d1, h1⟩ := triple_exists (tcExpr P .any none Γ e)
      rw [h1] at hck
      simp only at hck
      obtain ⟨hd12, hrest⟩ := List.append_eq_nil_iff.mp hck
      obtain ⟨hd1, hloop⟩ := List.append_eq_nil_iff.mp hd12
      subst hd1
      have he := hs e (by simp)
      have hres := (sound P D hP fuel).1 D e .any none Γ ρ T1 Γ1 false he h1 hloop (by simp)
        (by simp [good]) henv hG
      have hG1 := stmt_goodenv P D (tc_gi P D).1 e .any none Γ Γ1 T1 he h1 hG
      simp only [runTop]
      cases hev : eval P fuel ρ e with
      | val v ρ1 =>
        rw [hev] at hres
        simp [R] at hres
        exact ih Γ1 ρ1 (fun e' he' => hs e' (by simp [he'])) hrest hres.2 hG1
      | ret v => simp [Outcome.isTypeError]
      | brk ρ1 => rw [hev] at hres; simp [R] at hres
      | cont ρ1 => rw [hev] at hres; simp [R] at hres
      | err er => rw [hev] at hres; simp [R] at hres; simp [Outcome.isTypeError, hres]
      | timeout => simp [Outcome.isTypeError]
  exact key P.top [[]] [[]] htop hc (by simp [envOK, blockOK]) (by intro b hb; simp at hb; subst hb; simp)

/-- C16 for the fragment: a fully annotated program that `check` accepts never ends in a
runtime type error, for every fuel. -/
theorem check_sound_fragment (P : Program) (hfrag : fullyAnnotated P = true) (hcheck : check P = []) :
    ∀ fuel, (run fuel P).isTypeError = false := by
  unfold fullyAnnotated at hfrag
  simp only [Bool.and_eq_true] at hfrag
  exact check_sound_fragment_D P (progSize P) hfrag.1.1.1.1 hcheck

/-- A program using every form of the fragment: a recursive function with `if`/`else`, a function
with `while`, `+=`, `for`, `match` with a payload, list / tuple literals, assignment, early
`return`, `break`. -/
def exampleProgram : Program :=
  Program.mk
    [FunDef.mk "fact" [("n", Hint.int)] Hint.int
      [TExpr.ifE (.binop .le (.var "n") (.int 0)) [.int 1] true
        [.binop .mul (.var "n") (.call "fact" [.binop .sub (.var "n") (.int 1)])]],
     FunDef.mk "total" [("xs", Hint.list (Hint.option Hint.int)), ("limit", Hint.int)] Hint.int
      [TExpr.letE "s" (some Hint.int) (.int 0),
       TExpr.forE "x" (.var "xs")
         [TExpr.matchE (.var "x")
            [Case.mk "Some" (some "v") [.update true "s" (.var "v")],
             Case.mk "None" none [.assign "s" (.binop .add (.var "s") (.int 1))]],
          TExpr.ifE (.binop .gt (.var "s") (.var "limit")) [.brk] false []],
       TExpr.letE "i" none (.int 0),
       TExpr.whileE (.binop .lt (.var "i") (.int 3)) [.update true "i" (.int 1)],
       TExpr.ifE (.binop .lt (.var "s") (.int 0)) [.ret (.int 0)] false [],
       TExpr.binop .add (.var "s") (.var "i")]]
    [TExpr.letE "t" none (.tuple [.call "fact" [.int 3], .str "a"]),
     TExpr.call "println" [.call "string_repr"
       [.call "total" [.list [.call "Some" [.int 1], .var "None"], .int 10]]]]

set_option maxRecDepth 100000 in
/-- The example is in the fragment (first hypothesis of `check_sound_fragment`). -/
theorem example_in_fragment : fullyAnnotated exampleProgram = true := by decide


set_option maxRecDepth 100000 in
set_option maxHeartbeats 4000000 in
/-- … and the model checker accepts it (second hypothesis). -/
theorem example_checks : check exampleProgram = [] := by
  simp [check, checkFuns, checkFun, checkTop, exampleProgram, tcSeq, tcExpr, tcItems, tcCases, fin, inferVar,
    varForAssign, callTy, globalOf, findFun, paramTys, paramBlock, lookupB, lookupBlock, setB, setBlock,
    Hint.toTy, tInt, tBool, tStr, tUnit, tList, tOption, tFloat, Ty.sub, Ty.subAll, Ty.subNotError,
    Ty.isErr, Ty.isNoValue, Ty.noValue, intBinopTy, isIntArith, hasFloatTwin, forElemTy, listExpected, matchMode,
    scrutIsEnum, enumVariants, allUnderscore, caseNames, exhaustive, exhaustLoop, patternDiags, variantOf, tyName,
    payloadTy, Ty.isTuple, Ty.unify, Ty.unifyAll, Ty.unifyAllFrom, Ty.unifyArgs, Ty.isAny, Ty.beq, Ty.beqList,
    loopDiags, loopDiagsL, loopDiagsC, Global.ty]

/-- Non-vacuity: the theorem applies to the example (recursion, loops, match, calls). -/
theorem example_never_type_error : ∀ fuel, (run fuel exampleProgram).isTypeError = false :=
  check_sound_fragment exampleProgram example_in_fragment example_checks

end C16
