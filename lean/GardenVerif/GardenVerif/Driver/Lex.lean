import GardenVerif.Driver.Sexp
import GardenVerif.Model.Lex
import GardenVerif.Generated.Tables
/-! Driver ops for M1: `lex <hex>` (the lexer as built by the check), `lexold <hex>` (pinned
variant, for diagnosis only). The response text is byte-for-byte what `op_lex` of
`src/verif_hooks.rs` prints. -/

namespace DriverLex
open Lex

def hexOf (cs : List Char) : String := Hex.encode (String.ofList cs)

def posStr (p : Pos) : String :=
  s!"{p.start}:{p.stop}:{p.line}:{p.endLine}:{p.col}:{p.endCol}"

def errMsg : ErrKind → String
  | .unclosedString => "Unclosed string literal."
  | .unrecognized t => "Unrecognized syntax `" ++ String.ofList t ++ "`"

def render (toks : List Token) (trailing : List Comment) (errs : List LexErr) : String :=
  let t := toks.map fun tok =>
    "(tok " ++ hexOf tok.text ++ " " ++ posStr tok.pos ++
      String.join (tok.comments.map fun (p, c) => " (c " ++ hexOf c ++ " " ++ posStr p ++ ")") ++ ") "
  let c := trailing.map fun (p, c) => "(trail " ++ hexOf c ++ " " ++ posStr p ++ ") "
  let e := errs.map fun e => "(err " ++ Hex.encode (errMsg e.kind) ++ " " ++ posStr e.pos ++ ") "
  String.join (t ++ c ++ e)

def respond : Outcome → String
  | .ok t c e => "OK " ++ render t c e
  | .panic site => "PANIC " ++ Hex.encode site
  | .outOfFuel => "ERR " ++ Hex.encode "model out of fuel"

def handle (op : String) (rest : String) : Option String :=
  if op != "lex" && op != "lexold" && op != "lexre0" && op != "lexre1" then none else
  match Hex.decode rest.trimAscii.toString with
  | none => some ("ERR " ++ Hex.encode "bad hex or utf-8")
  | some s =>
    let src := s.toList
    -- diagnosis: force the STRING_RE variant
    if op == "lexre0" then some (respond (lex LexTables.garden src false)) else
    if op == "lexre1" then some (respond (lex LexTables.garden src true)) else
    -- which STRING_RE the tree under check has (regenerated from the Rust on every check run)
    if Tables.stringRe == "^\"(\\\\\"|[^\"])*(\"|\\z)" then
      some (respond (if op == "lex" then lex LexTables.garden src false else lexOld LexTables.garden src))
    else if Tables.stringRe == "^\"(\\\\.|[^\"])*(\"|\\z)" then
      some (respond (if op == "lex" then lex LexTables.garden src true else lexOld LexTables.garden src))
    else some ("ERR " ++ Hex.encode "STRING_RE of the tree is not one the lexer model knows")

end DriverLex
