"""C14 — Subtyping is a preorder with the documented variance.

Proof: GardenVerif.Props.C14 over the model Ty.sub (Model/Types.lean).
Tie: `subtype` op of the hooked garden vs the Lean driver on the same pairs.
Direct oracle on the implementation: reflexivity, top/bottom, transitivity over
all triples of a pool, and the variance equations, evaluated on the real
`is_subtype` only (no model involved).
"""
import itertools
from . import types_gen as G

LEAN_MODULES = ["GardenVerif.Props.C14"]


def run(ctx):
    rng = ctx.rng
    d0 = G.depth0()
    d1 = G.next_depth(d0)
    pool = d0 + d1
    n_d2 = ctx.scale(400, 4000)
    d2 = [G.random_type(rng, 2) for _ in range(n_d2)] + [G.random_type(rng, 3) for _ in range(n_d2 // 2)]
    mal = [G.random_type(rng, 2, malformed=True) for _ in range(ctx.scale(300, 3000))]
    ctx.rule = ("pairs of types over the signature {Int,String,Foo,NoValue,Unit,List/1,Option/1,Result/2}, "
                "params T,U, tuples arity<=2, funs arity<=2: all %d depth<=1 types vs a sample, random depth 2-3 "
                "types, plus a malformed stream (Error types, wrong arities) checked for agreement only. "
                "Non-trivial = the two types are not textually equal, neither is Any/NoValue at top level "
                "(those are decided by the first two match arms)." % len(pool))

    # ---------------- correspondence: same pairs to implementation and model
    pairs = []
    n_pairs = ctx.scale(40000, 400000)
    allt = pool + d2
    # families of closely related types (same skeleton, leaves from a small chain) so that the
    # transitivity oracle sees many non-trivial related triples
    leaves = [G.user("NoValue"), G.user("Int"), "(any)", "(param T)", G.user("List", G.user("NoValue")),
              G.user("List", G.user("Int"))]
    skeletons = [lambda a, b: G.tup(a, b), lambda a, b: G.user("Result", a, b),
                 lambda a, b: G.fn(None, [a], b), lambda a, b: G.user("List", G.tup(a, b)),
                 lambda a, b: G.fn("f", [G.fn(None, [a], G.user("Unit"))], b),
                 lambda a, b: G.user("Option", G.user("Result", a, b))]
    fam = [sk(a, b) for sk in skeletons for a in leaves[:4] for b in leaves]
    sub_pool = rng.sample(pool, 60) + d0 + leaves[4:] + fam
    for a in sub_pool:
        for b in sub_pool:
            pairs.append((a, b))
    n_matrix = len(pairs)
    while len(pairs) < n_matrix + n_pairs:
        a = rng.choice(allt)
        # bias towards related pairs: mutate a
        r = rng.random()
        if r < 0.3:
            b = rng.choice(allt)
        elif r < 0.9:
            b = G.mutate(rng, a)          # near miss: arity change, one leaf replaced, ...
            if rng.random() < 0.3:
                b = G.mutate(rng, b)
        else:
            b = G.mutate(rng, a, well_formed_only=False)
        pairs.append((a, b) if rng.random() < 0.5 else (b, a))
    for _ in range(len(mal) * 4):
        pairs.append((rng.choice(mal), rng.choice(mal + d0)))
    lines = ["subtype %s %s" % p for p in pairs]
    impl = ctx.garden_batch(lines)
    model = ctx.model_batch(lines)
    rel = {}
    for (a, b), i, m in zip(pairs, impl, model):
        nontrivial = a != b and not a.startswith("(any") and not b.startswith("(any") \
            and not a.startswith("(user enum NoValue")
        ctx.case((a, b), nontrivial)
        if i != m:
            ctx.disagree("subtype", {"lhs": a, "rhs": b}, m, i)
        if i is None or not i.startswith("OK "):
            ctx.fail("C14/hook-error", "subtype hook did not answer: %r" % (i,), lhs=a, rhs=b)
            continue
        rel[(a, b)] = (i == "OK true")
    ctx.sample({"op": lines[n_matrix + 7], "impl": impl[n_matrix + 7], "model": model[n_matrix + 7]})
    ctx.sample({"op": lines[n_matrix + 8], "impl": impl[n_matrix + 8], "model": model[n_matrix + 8]})
    ctx.sample({"op": lines[-1], "impl": impl[-1], "model": model[-1]})
    ctx.cov["pairs_compared"] = len(pairs)
    ctx.cov["related_fraction"] = round(sum(1 for v in rel.values() if v) / max(1, len(rel)), 3)

    # ---------------- direct oracle on the implementation
    wf = [t for t in sub_pool if G.well_formed(t)]
    # reflexivity on everything well-formed we have
    refl_lines = ["subtype %s %s" % (t, t) for t in allt]
    for t, r in zip(allt, ctx.garden_batch(refl_lines)):
        ctx.case(("refl", t), True)
        if r != "OK true":
            ctx.fail("C14/refl", "is_subtype(t, t) is not true", type=t, observed=r)
    for t in wf:
        if not rel.get((t, "(any)"), True):
            ctx.fail("C14/top", "t <: Any is false", type=t)
        if not rel.get((G.user("NoValue"), t), True):
            ctx.fail("C14/bottom", "NoValue <: t is false", type=t)
    # transitivity over all triples of the well-formed sub-pool
    idx = {t: i for i, t in enumerate(wf)}
    n = len(wf)
    M = [[rel[(a, b)] for b in wf] for a in wf]
    triples = 0
    for i in range(n):
        ups = [j for j in range(n) if M[i][j]]
        for j in ups:
            for k in range(n):
                if M[j][k]:
                    triples += 1
                    if not M[i][k]:
                        ctx.fail("C14/trans", "a <: b and b <: c but not a <: c",
                                 a=wf[i], b=wf[j], c=wf[k])
    ctx.cov["transitivity_triples_checked"] = triples
    ctx.cov["transitivity_pool"] = n
    # variance equations on the implementation
    var_lines, var_expect = [], []
    small = d0 + rng.sample(d1, 40)
    for _ in range(ctx.scale(3000, 30000)):
        a, b, c, d = (rng.choice(small) for _ in range(4))
        var_lines += ["subtype %s %s" % (G.tup(a, b), G.tup(c, d)),
                      "subtype %s %s" % (G.user("Result", a, b), G.user("Result", c, d)),
                      "subtype %s %s" % (G.fn(None, [a], b), G.fn("g", [c], d)),
                      "subtype %s %s" % (a, c), "subtype %s %s" % (b, d), "subtype %s %s" % (c, a)]
    res = ctx.garden_batch(var_lines)
    for q in range(0, len(res), 6):
        tu, us, fnr, ac, bd, ca = [r == "OK true" for r in res[q:q + 6]]
        ctx.case(("var", var_lines[q]), True)
        if tu != (ac and bd):
            ctx.fail("C14/tuple-variance", "tuple subtyping is not component-wise covariance", case=var_lines[q])
        if us != (ac and bd):
            ctx.fail("C14/user-variance", "Result<a,b> <: Result<c,d> is not a<:c and b<:d", case=var_lines[q + 1])
        if fnr != (ca and bd):
            ctx.fail("C14/fun-variance", "Fun<(a),b> <: Fun<(c),d> is not c<:a and b<:d", case=var_lines[q + 2])
    # one-step specification oracle: on well-formed error-free pairs the implementation's answer
    # must equal the documented rule applied to ITS OWN answers on the components (top, bottom,
    # nominal names, tuple/user covariance, function contra/co-variance, equal lengths).
    cand = [p for p in pairs[n_matrix:] if G.well_formed(p[0]) and G.well_formed(p[1])]
    dis = [(b["input"]["lhs"], b["input"]["rhs"]) for b in ctx.broken if b.get("kind") == "correspondence"
           and "lhs" in b.get("input", {})]
    cand = [p for p in dis if G.well_formed(p[0]) and G.well_formed(p[1])] + cand[:ctx.scale(15000, 150000)]
    comp_lines, plans = [], []
    for a, b in cand:
        pa, pb = G.parse(a), G.parse(b)
        comps = None
        if pb[0] == "any" or (pa[0] == "user" and pa[2] == "NoValue"):
            plan = ("const", True)
        elif pa[0] == "param":
            plan = ("const", pb[0] == "param" and pa[1] == pb[1])
        elif pa[0] == "tuple" and pb[0] == "tuple":
            plan = ("const", False) if len(pa) != len(pb) else ("all", [(x, y) for x, y in zip(pa[1:], pb[1:])])
        elif pa[0] == "fn" and pb[0] == "fn":
            if len(pa[3]) != len(pb[3]):
                plan = ("const", False)
            else:
                plan = ("all", [(y, x) for x, y in zip(pa[3][1:], pb[3][1:])] + [(pa[4], pb[4])])
        elif pa[0] == "user" and pb[0] == "user":
            plan = ("const", False) if pa[2] != pb[2] else ("all", [(x, y) for x, y in zip(pa[3:], pb[3:])])
        else:
            plan = ("const", False)
        if plan[0] == "all":
            start = len(comp_lines)
            for x, y in plan[1]:
                comp_lines.append("subtype %s %s" % (G.render(x), G.render(y)))
            plan = ("range", start, len(comp_lines))
        plans.append(plan)
    top_res = ctx.garden_batch(["subtype %s %s" % p for p in cand])
    comp_res = ctx.garden_batch(comp_lines)
    for (a, b), plan, r in zip(cand, plans, top_res):
        expect = plan[1] if plan[0] == "const" else all(x == "OK true" for x in comp_res[plan[1]:plan[2]])
        ctx.case(("spec", a, b), plan[0] == "range")
        if r != ("OK true" if expect else "OK false"):
            ctx.fail("C14/one-step-rule", "is_subtype(a, b) differs from the documented rule applied to its "
                     "own answers on the components (expected %s)" % expect, a=a, b=b, observed=r)
    ctx.cov["one_step_rule_pairs"] = len(cand)
    ctx.assumptions += ["model Ty.sub is hand-written from src/garden_type.rs; only the correspondence run ties it",
                        "Type::Error payloads and Symbol positions/ids are not represented (never inspected)"]
