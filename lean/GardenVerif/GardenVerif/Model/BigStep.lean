import GardenVerif.Model.Machine
/-!
M5: a definitional (big-step, environment-passing, fuel-indexed) interpreter for the core
language — the REFERENCE SEMANTICS of property C05.

It runs on the same syntax tree and value types as the machine model M4 (`Machine.Expr`,
`Machine.Program`, `Machine.Value`) so that both can be run on the real parser's tree, but it
shares no evaluation code with `Machine.step` / `Machine.dispatch`: there is no expression
stack, no value stack, no `ExpressionState`, and it never reads a `value_is_used` flag. What it
re-uses from Model/Machine.lean is data-level only: the scope ADT (`lookupBlocks`, `addNew`,
`setExisting`: an association list per scope), the namespace table (`nsLookup`), and the value
primitives (`intBinop` — judged by C04, `valueEq` — C13, `display` — C12).

The semantics, written as a language designer would from the documentation:

* lexical block scoping: a block pushes a scope, leaving it BY ANY MEANS (normal completion,
  `break`, `continue`, `return`) pops it; `let` declares in the innermost scope (shadowing an
  outer variable, replacing a variable of the same scope), assignment writes the innermost scope
  that has the variable; `_` is never bound;
* `break` / `continue` target the innermost enclosing loop, `return` the enclosing function;
  loops evaluate to `Unit`; `if` without `else` evaluates to `Unit`;
* a closure captures the scopes of its definition BY VALUE (the implementation clones the
  `Vec<BlockBindings>`; checked on the real binary: an assignment to a captured variable after
  the closure was created is not seen by the closure, an assignment inside the closure is not
  seen by the definer, and nothing persists between two calls of the same closure);
* evaluation order (what the implementation does; documented choice, DESIGN §11): binary
  operands left-to-right, `&&` / `||` do NOT short-circuit, a call's receiver before its
  arguments, call arguments / list items / tuple items RIGHT-TO-LEFT; the right-hand side of an
  assignment / `+=` is evaluated before the variable is looked up;
* `match`: the scrutinee must be an enum value; the first case whose variant has the same enum
  type AND variant index as the scrutinee (or `_`) is taken; a pattern's variant name is resolved
  like a variable.

Import-free apart from Model/Machine (the driver links it).
-/

namespace BigStep
open Machine

/-- How the evaluation of an expression ends. -/
inductive Outcome where
  | val (v : Value)
  | brk
  | cont
  | ret (v : Value)
  | err (e : Err)
  /-- the program left the modelled fragment (also: `break` / `continue` escaping a function) -/
  | unsupported (what : String)
  | outOfFuel

/-- Result of evaluating an expression: the scopes afterwards, the output log, the outcome. -/
structure Res where
  scopes : List Block
  out : String
  outcome : Outcome

/-- Result of evaluating a list of expressions to values. -/
structure ResL where
  scopes : List Block
  out : String
  result : Except Outcome (List Value)

/-- An expression evaluator (the interpreter one fuel unit down). -/
abbrev Ev := List Block → String → Expr → Res

/-- Variable lookup: lexical scopes innermost first, then the global namespace (functions, enum
variants and constructors, built-ins). -/
def lookupVar (p : Program) (σ : List Block) (name : String) : Option Value :=
  match lookupBlocks σ name with
  | some v => some v
  | none => nsLookup p name

/-- Declare variables, one after the other, in the innermost scope. -/
def declareAll (σ : List Block) (kvs : List (String × Value)) : List Block :=
  kvs.foldl (fun s kv => addNew s kv.1 kv.2) σ

/-- Match a value against a `let` / `for` / case destination. -/
def destructure (dest : Dest) (v : Value) (notTuple : Err) : Except Err (List (String × Value)) :=
  match dest with
  | .sym n => .ok [(n, v)]
  | .destr names =>
    match v with
    | .tuple items =>
      if items.length != names.length then .error (.tupleSize names.length items.length)
      else .ok (names.zip items)
    | _ => .error notTuple

/-- Statements of a block in order; the value is that of the last statement (`last` when there
is none). Anything but a value ends the sequence. -/
def evalSeq (ev : Ev) : Value → List Expr → List Block → String → Res
  | last, [], σ, out => ⟨σ, out, .val last⟩
  | _, e :: rest, σ, out =>
    let r := ev σ out e
    match r.outcome with
    | .val v => evalSeq ev v rest r.scopes r.out
    | _ => r

/-- A block: push a scope holding `binds`, run the statements, pop the scope however the block
is left. -/
def runBlock (ev : Ev) (binds : List (String × Value)) (body : List Expr) (σ : List Block)
    (out : String) : Res :=
  let r := evalSeq ev vUnit body (declareAll ([] :: σ) binds) out
  ⟨r.scopes.drop 1, r.out, r.outcome⟩

/-- Expressions evaluated RIGHT-TO-LEFT (call arguments, list and tuple items); the values are
returned in source order. -/
def evalRtl (ev : Ev) : List Expr → List Block → String → ResL
  | [], σ, out => ⟨σ, out, .ok []⟩
  | e :: rest, σ, out =>
    let r := evalRtl ev rest σ out
    match r.result with
    | .error _ => r
    | .ok vs =>
      let r1 := ev r.scopes r.out e
      match r1.outcome with
      | .val v => ⟨r1.scopes, r1.out, .ok (v :: vs)⟩
      | o => ⟨r1.scopes, r1.out, .error o⟩

/-- `for dest in items { body }` over the remaining items. -/
def forLoop (ev : Ev) (dest : Dest) (body : List Expr) : List Value → List Block → String → Res
  | [], σ, out => ⟨σ, out, .val vUnit⟩
  | x :: xs, σ, out =>
    match destructure dest x (.typeError "Tuple") with
    | .error e => ⟨σ, out, .err e⟩
    | .ok binds =>
      let r := runBlock ev binds body σ out
      match r.outcome with
      | .val _ => forLoop ev dest body xs r.scopes r.out
      | .cont => forLoop ev dest body xs r.scopes r.out
      | .brk => ⟨r.scopes, r.out, .val vUnit⟩
      | _ => r

/-- Which case of a `match` is taken for the scrutinee `ty.idx(payload)`. -/
inductive CaseSel where
  | take (binds : List (String × Value)) (body : List Expr)
  | fail (e : Err)

def selectCase (p : Program) (σ : List Block) (ty : String) (idx : Nat) (payload : Option Value) :
    List Case → CaseSel
  | [] => .fail .noMatch
  | .mk variant dest body :: rest =>
    if variant == "_" then .take [] body else
    match lookupVar p σ variant with
    | some (.enumV pty pidx _) | some (.enumC pty pidx) =>
      if ty == pty && idx == pidx then
        match payload, dest with
        | some pl, some d =>
          match destructure d pl (.typeError "tuple-payload") with
          | .ok binds => .take binds body
          | .error e => .fail e
        | none, none => .take [] body
        | _, _ => selectCase p σ ty idx payload rest
      else selectCase p σ ty idx payload rest
    | _ => .fail (.badPattern variant)

/-- The scope holding a function's parameters. -/
def paramScope (params : List String) (args : List Value) : Block :=
  (params.zip args).foldl (fun b kv => if kv.1 == "_" then b else blockSet b kv.1 kv.2) []

/-- Run a function body in its own scopes; `return v` and falling off the end both give `v`. -/
def runBody (ev : Ev) (scopes : List Block) (body : List Expr) (callerScopes : List Block)
    (out : String) : Res :=
  let r := evalSeq ev vUnit body scopes out
  match r.outcome with
  | .val v => ⟨callerScopes, r.out, .val v⟩
  | .ret v => ⟨callerScopes, r.out, .val v⟩
  | .brk => ⟨callerScopes, r.out, .unsupported "break outside a loop"⟩
  | .cont => ⟨callerScopes, r.out, .unsupported "continue outside a loop"⟩
  | o => ⟨callerScopes, r.out, o⟩

/-- Apply a function value to arguments (already evaluated). -/
def apply (ev : Ev) (p : Program) (σ : List Block) (out : String) (fv : Value) (args : List Value) :
    Res :=
  match fv with
  | .closure env params body =>
    if params.length != args.length then ⟨σ, out, .err (.arity params.length args.length)⟩
    else runBody ev (paramScope params args :: env) body σ out
  | .fn name =>
    match p.funs.find? (fun d => d.name == name) with
    | none => ⟨σ, out, .unsupported "function value without definition"⟩
    | some d =>
      if d.params.length != args.length then ⟨σ, out, .err (.arity d.params.length args.length)⟩
      else runBody ev [paramScope d.params args] d.body σ out
  | .builtin name =>
    if args.length != 1 then ⟨σ, out, .err (.arity 1 args.length)⟩
    else match name, args with
      | "println", [.str t] => ⟨σ, out ++ (t ++ "\n"), .val vUnit⟩
      | "print", [.str t] => ⟨σ, out ++ t, .val vUnit⟩
      | "println", _ => ⟨σ, out, .err (.typeError "String")⟩
      | "print", _ => ⟨σ, out, .err (.typeError "String")⟩
      | "string_repr", [v] => ⟨σ, out, .val (.str (display p v))⟩
      | _, _ => ⟨σ, out, .unsupported ("builtin " ++ name)⟩
  | .enumC ty idx =>
    match args with
    | [a] => ⟨σ, out, .val (.enumV ty idx (some a))⟩
    | _ => ⟨σ, out, .err (.arity 1 args.length)⟩
  | _ => ⟨σ, out, .err (.typeError "Function")⟩

/-- A binary operator on two values. -/
def binop (op : BinOp) (lv rv : Value) : Outcome :=
  match op with
  | .eq => .val (vBool (valueEq lv rv))
  | .ne => .val (vBool (!valueEq lv rv))
  | .and =>
    match lv.asBool, rv.asBool with
    | some a, some b => .val (vBool (a && b))
    | _, _ => .err (.typeError "Bool")
  | .or =>
    match lv.asBool, rv.asBool with
    | some a, some b => .val (vBool (a || b))
    | _, _ => .err (.typeError "Bool")
  | .concat =>
    match lv, rv with
    | .str a, .str b => .val (.str (a ++ b))
    | _, _ => .err (.typeError "String")
  | .floatOp => .unsupported "float operator"
  | _ =>
    match lv, rv with
    | .int a, .int b =>
      match intBinop op a b with
      | .ok v => .val v
      | .err e => .err e
      | .panic site => .unsupported ("panic " ++ site)
    | _, _ => .err (.typeError "Int")

/-- How a function value is applied (parameter of the interpreter so that the staged theorems
can speak about the interpreter restricted to built-ins and constructors, `applyBuiltin`). -/
abbrev Ap := Ev → List Block → String → Value → List Value → Res

/-- The interpreter. `evalWith ap p (n+1)` evaluates sub-expressions with `evalWith ap p n`;
fuel 0 is out of fuel. `eval` below is `evalWith` with the full `apply`. -/
def evalWith (ap : Ap) (p : Program) : Nat → Ev
  | 0, σ, out, _ => ⟨σ, out, .outOfFuel⟩
  | n + 1, σ, out, e =>
    let ev : Ev := evalWith ap p n
    match e with
    | .int _ _ v => ⟨σ, out, .val (.int v)⟩
    | .str _ _ t => ⟨σ, out, .val (.str t)⟩
    | .var _ _ name =>
      match lookupVar p σ name with
      | some v => ⟨σ, out, .val v⟩
      | none => ⟨σ, out, .err (.noSuchVar name)⟩
    | .lambda _ _ params body => ⟨σ, out, .val (.closure σ params body)⟩
    | .paren _ _ inner => ev σ out inner
    | .invalid .. => ⟨σ, out, .err .invalidSyntax⟩
    | .unsup _ _ what => ⟨σ, out, .unsupported what⟩
    | .binop _ _ op l r =>
      let rl := ev σ out l
      match rl.outcome with
      | .val lv =>
        let rr := ev rl.scopes rl.out r
        match rr.outcome with
        | .val rv => ⟨rr.scopes, rr.out, binop op lv rv⟩
        | _ => rr
      | _ => rl
    | .letE _ _ dest inner =>
      let r := ev σ out inner
      match r.outcome with
      | .val v =>
        match destructure dest v (.typeError "Tuple") with
        | .ok binds => ⟨declareAll r.scopes binds, r.out, .val vUnit⟩
        | .error er => ⟨r.scopes, r.out, .err er⟩
      | _ => r
    | .assign _ _ name inner =>
      let r := ev σ out inner
      match r.outcome with
      | .val v =>
        match setExisting r.scopes name v with
        | some σ' => ⟨σ', r.out, .val vUnit⟩
        | none => ⟨r.scopes, r.out, .err (.notBound name)⟩
      | _ => r
    | .update _ _ isAdd name inner =>
      let r := ev σ out inner
      match r.outcome with
      | .val dv =>
        match lookupVar p r.scopes name with
        | none => ⟨r.scopes, r.out, .err (.notBound name)⟩
        | some (.int cur) =>
          match dv with
          | .int d =>
            -- wrapping arithmetic (`wrapping_add` / `wrapping_sub`)
            match setExisting r.scopes name (.int (if isAdd then cur + d else cur - d)) with
            | some σ' => ⟨σ', r.out, .val vUnit⟩
            | none => ⟨r.scopes, r.out, .err (.notBound name)⟩
          | _ => ⟨r.scopes, r.out, .err (.typeError "Int")⟩
        | some _ => ⟨r.scopes, r.out, .err (.typeError "Int")⟩
      | _ => r
    | .ifE _ _ c thn els =>
      let rc := ev σ out c
      match rc.outcome with
      | .val cv =>
        match cv.asBool with
        | none => ⟨rc.scopes, rc.out, .err (.typeError "Bool")⟩
        | some true =>
          let rb := runBlock ev [] thn rc.scopes rc.out
          match rb.outcome, els with
          | .val _, none => ⟨rb.scopes, rb.out, .val vUnit⟩
          | _, _ => rb
        | some false =>
          match els with
          | none => ⟨rc.scopes, rc.out, .val vUnit⟩
          | some eb => runBlock ev [] eb rc.scopes rc.out
      | _ => rc
    | .matchE _ _ scrut cases =>
      let rs := ev σ out scrut
      match rs.outcome with
      | .val (.enumV ty idx payload) =>
        match selectCase p rs.scopes ty idx payload cases with
        | .take binds body => runBlock ev binds body rs.scopes rs.out
        | .fail er => ⟨rs.scopes, rs.out, .err er⟩
      | .val _ => ⟨rs.scopes, rs.out, .err .notEnum⟩
      | _ => rs
    | .whileE _ _ c body =>
      let rc := ev σ out c
      match rc.outcome with
      | .val cv =>
        match cv.asBool with
        | none => ⟨rc.scopes, rc.out, .err (.typeError "Bool")⟩
        | some false => ⟨rc.scopes, rc.out, .val vUnit⟩
        | some true =>
          let rb := runBlock ev [] body rc.scopes rc.out
          match rb.outcome with
          | .val _ => ev rb.scopes rb.out e
          | .cont => ev rb.scopes rb.out e
          | .brk => ⟨rb.scopes, rb.out, .val vUnit⟩
          | _ => rb
      | _ => rc
    | .forE _ _ dest iter body =>
      let ri := ev σ out iter
      match ri.outcome with
      | .val (.list items) =>
        -- the implementation indexes with an i64; a list of 2^63 items cannot exist in memory
        if items.length < 9223372036854775808 then forLoop ev dest body items ri.scopes ri.out
        else ⟨ri.scopes, ri.out, .unsupported "list of 2^63 or more items"⟩
      | .val _ => ⟨ri.scopes, ri.out, .err (.typeError "List")⟩
      | _ => ri
    | .ret _ _ inner =>
      match inner with
      | none => ⟨σ, out, .ret vUnit⟩
      | some x =>
        let r := ev σ out x
        match r.outcome with
        | .val v => ⟨r.scopes, r.out, .ret v⟩
        | _ => r
    | .brk .. => ⟨σ, out, .brk⟩
    | .cont .. => ⟨σ, out, .cont⟩
    | .list _ _ items =>
      let r := evalRtl ev items σ out
      match r.result with
      | .ok vs => ⟨r.scopes, r.out, .val (.list vs)⟩
      | .error o => ⟨r.scopes, r.out, o⟩
    | .tuple _ _ items =>
      let r := evalRtl ev items σ out
      match r.result with
      | .ok vs => ⟨r.scopes, r.out, .val (.tuple vs)⟩
      | .error o => ⟨r.scopes, r.out, o⟩
    | .call _ _ recv args =>
      let rr := ev σ out recv
      match rr.outcome with
      | .val fv =>
        let ra := evalRtl ev args rr.scopes rr.out
        match ra.result with
        | .ok vs => ap ev ra.scopes ra.out fv vs
        | .error o => ⟨ra.scopes, ra.out, o⟩
      | _ => rr

/-- The reference interpreter. -/
def eval (p : Program) : Nat → Ev := evalWith (fun ev σ out fv vs => apply ev p σ out fv vs) p

/-- `apply` restricted to built-ins and enum constructors: calling a closure or a named function
is outside (stages (a) and (b) of the refinement theorem). -/
def applyBuiltin (p : Program) : Ap := fun ev σ out fv vs =>
  match fv with
  | .closure .. => ⟨σ, out, .unsupported "call of a closure"⟩
  | .fn _ => ⟨σ, out, .unsupported "call of a named function"⟩
  | _ => apply ev p σ out fv vs

/-- Run a whole program as `garden run` does: the definitions are in the namespace, the
toplevel expressions run in one scope. `return` at top level ends the program. -/
def runProgramWith (ev : Ev) (p : Program) : String × Outcome :=
  let r := evalSeq ev vUnit p.toplevel [[]] ""
  match r.outcome with
  | .ret v => (r.out, .val v)
  | o => (r.out, o)

def runProgram (p : Program) (fuel : Nat) : String × Outcome := runProgramWith (eval p fuel) p

/-! ## The fragment of the refinement theorem (decidable predicates on the real tree)

`wfUse`: the `value_is_used` flags are the ones the parser's second pass (`set_is_used_*`,
src/parser.rs) assigns — operands, arguments, items, conditions, scrutinees, initialisers and
returned expressions are used; of a block only the last expression can be used, and it is iff the
block's value is (`if` without `else`, loop bodies: never; function bodies: always); the inside of
parentheses is used iff the parentheses are. The harness checks it on every real tree.

`exitsOK`: `break` / `continue` stand in statement position of a loop body (reached from the body
through `if` / `match` blocks only — not inside an operand, argument, initialiser or condition),
never outside a loop of the same function. Outside this the implementation's value stack goes
wrong (known findings C05/exit-in-operand/break, C05/exit-in-operand/continue).

`level`: 0 = expressions, blocks, `let`, assignment, `+=`, `if`, `match`, calls of built-ins and
enum constructors; 1 = + `while`, `for`, `break`, `continue`; 2 = + named functions, closures,
`return`. -/

mutual
def wfE : Expr → Bool
  | .int .. | .str .. | .var .. | .brk .. | .cont .. | .invalid .. | .unsup .. => true
  | .binop _ _ _ l r => l.used && r.used && wfE l && wfE r
  | .letE _ _ _ e => e.used && wfE e
  | .assign _ _ _ e => e.used && wfE e
  | .update _ _ _ _ e => e.used && wfE e
  | .ifE _ _ c t none => c.used && wfE c && wfB false t
  | .ifE _ u c t (some b) => c.used && wfE c && wfB u t && wfB u b
  | .whileE _ _ c b => c.used && wfE c && wfB false b
  | .forE _ _ _ it b => it.used && wfE it && wfB false b
  | .matchE _ u sc cases => sc.used && wfE sc && wfCases u cases
  | .ret _ _ none => true
  | .ret _ _ (some e) => e.used && wfE e
  | .list _ _ items => wfAll items
  | .tuple _ _ items => wfAll items
  | .call _ _ recv args => recv.used && wfE recv && wfAll args
  | .lambda _ _ _ body => wfB true body
  | .paren _ u e => (e.used == u) && wfE e
/-- Statements of a block whose value is used iff `u`. -/
def wfB : Bool → List Expr → Bool
  | _, [] => true
  | u, e :: rest => (e.used == (u && rest.isEmpty)) && wfE e && wfB u rest
/-- Operands: all used. -/
def wfAll : List Expr → Bool
  | [] => true
  | e :: rest => e.used && wfE e && wfAll rest
def wfCases : Bool → List Case → Bool
  | _, [] => true
  | u, .mk _ _ body :: rest => wfB u body && wfCases u rest
end

mutual
/-- `exE b c e`: `break` allowed here iff `b`, `continue` iff `c`. -/
def exE : Bool → Bool → Expr → Bool
  | b, _, .brk .. => b
  | _, c, .cont _ _ => c
  | _, _, .int .. | _, _, .str .. | _, _, .var .. | _, _, .invalid .. | _, _, .unsup .. => true
  | _, _, .binop _ _ _ l r => exE false false l && exE false false r
  | _, _, .letE _ _ _ e => exE false false e
  | _, _, .assign _ _ _ e => exE false false e
  | _, _, .update _ _ _ _ e => exE false false e
  | b, c, .ifE _ _ cnd t none => exE false false cnd && exB b c t
  | b, c, .ifE _ _ cnd t (some eb) => exE false false cnd && exB b c t && exB b c eb
  | _, _, .whileE _ _ cnd body => exE false false cnd && exB true true body
  | _, _, .forE _ _ _ it body => exE false false it && exB true true body
  | b, c, .matchE _ _ sc cases => exE false false sc && exCases b c cases
  | _, _, .ret _ _ none => true
  | _, _, .ret _ _ (some e) => exE false false e
  | _, _, .list _ _ items => exAll items
  | _, _, .tuple _ _ items => exAll items
  | _, _, .call _ _ recv args => exE false false recv && exAll args
  | _, _, .lambda _ _ _ body => exB false false body
  | _, _, .paren _ _ e => exE false false e
def exB : Bool → Bool → List Expr → Bool
  | _, _, [] => true
  | b, c, e :: rest => exE b c e && exB b c rest
def exAll : List Expr → Bool
  | [] => true
  | e :: rest => exE false false e && exAll rest
def exCases : Bool → Bool → List Case → Bool
  | _, _, [] => true
  | b, c, .mk _ _ body :: rest => exB b c body && exCases b c rest
end

mutual
/-- The smallest stage (0, 1, 2) whose constructs cover `e`; 3 = outside the fragment. -/
def lvE : Expr → Nat
  | .int .. | .str .. | .var .. | .invalid .. => 0
  | .unsup .. => 3
  | .brk .. | .cont .. => 1
  | .binop _ _ op l r => max (if op == .floatOp then 3 else 0) (max (lvE l) (lvE r))
  | .letE _ _ _ e => lvE e
  | .assign _ _ _ e => lvE e
  | .update _ _ _ _ e => lvE e
  | .ifE _ _ c t none => max (lvE c) (lvB t)
  | .ifE _ _ c t (some b) => max (lvE c) (max (lvB t) (lvB b))
  | .whileE _ _ c b => max 1 (max (lvE c) (lvB b))
  | .forE _ _ _ it b => max 1 (max (lvE it) (lvB b))
  | .matchE _ _ sc cases => max (lvE sc) (lvCases cases)
  | .ret _ _ none => 2
  | .ret _ _ (some e) => max 2 (lvE e)
  | .list _ _ items => max (if items.length < 9223372036854775808 then 0 else 3) (lvB items)
  | .tuple _ _ items => lvB items
  | .call _ _ recv args => max (lvE recv) (lvB args)
  | .lambda _ _ _ body => max 2 (lvB body)
  | .paren _ _ e => lvE e
def lvB : List Expr → Nat
  | [] => 0
  | e :: rest => max (lvE e) (lvB rest)
def lvCases : List Case → Nat
  | [] => 0
  | .mk _ _ body :: rest => max (lvB body) (lvCases rest)
end

/-- A function body inside the fragment of the refinement theorem. -/
def bodyOK (body : List Expr) : Bool :=
  wfB true body && exB false false body && decide (lvB body ≤ 2)

/-- `apply` with the fragment check made dynamic for closures: calling a closure whose body is
outside the fragment answers `unsupported` (nothing claimed). Every function literal of a program
satisfying `wfProgram`, `exitsProgram`, `levelProgram ≤ 2` has a body inside the fragment, so on
such programs this is `apply`. Named functions are covered by the program-level predicates. -/
def applyChecked (p : Program) : Ap := fun ev σ out fv vs =>
  match fv with
  | .closure _ _ body =>
    if bodyOK body then apply ev p σ out fv vs
    else ⟨σ, out, .unsupported "closure body outside the fragment"⟩
  | _ => apply ev p σ out fv vs

/-- Use flags of a whole program: every toplevel expression is used (the parser leaves
`value_is_used = true` on `ToplevelItem::Expr`), function bodies are used blocks. -/
def wfProgram (p : Program) : Bool :=
  wfAll p.toplevel && p.funs.all (fun d => wfB true d.body)

def exitsProgram (p : Program) : Bool :=
  exB false false p.toplevel && p.funs.all (fun d => exB false false d.body)

def levelProgram (p : Program) : Nat :=
  max (lvB p.toplevel) (if p.funs.isEmpty then 0 else max 2 (p.funs.foldl (fun m d => max m (lvB d.body)) 0))

end BigStep
