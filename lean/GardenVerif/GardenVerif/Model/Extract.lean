import GardenVerif.Model.Validators
/-!
# Extract — relations and checkers for C21 (wrap-in-dbg, add-type-annotation) and C20 (extract
variable / function)

(V) of DESIGN §3. The tools are not modelled; each property has a decidable relation between the tree
before and the tree after (both from the REAL parser), evaluated by the driver on every generated
input, and theorems (Props/C21, Props/C20) that related programs behave the same under `RefSem`.

Part 1 (C21): `W c` — the program transformer "wrap every node whose id is selected by `c.sel` in
`c.wrap`, and (if `c.strip`) forget node ids and `value_is_used` flags". `let` nodes are never
wrapped (a `let` is a statement: `RefSem.evalSeq` recognises it syntactically). Instances:
* `stripCfg`: only forget ids / flags (`RefSem` never reads them);
* `dbgCfg target`: wrap the node `target` in a call of `dbg` and strip;
* `chkCfg sel chk`: wrap the selected nodes in an arbitrary "partial identity" context `chk`
  (the model of the runtime check a type hint adds, see Props/C21).
-/

namespace Extract
open Machine (Expr Case Dest BinOp Program FunDef EnumDef)
open RefSem Validators

structure WCfg where
  /-- forget node ids and use flags -/
  strip : Bool
  /-- the node ids to wrap -/
  sel : Nat → Bool
  wrap : Expr → Expr
  /-- binder names the wrapper tolerates in scope (`dbg` must not be rebound) -/
  ok : String → Bool
  /-- fuel slack of the wrapper -/
  k : Nat
  /-- the error kind with which the wrapper may fail (`none`: it never fails) -/
  fk : Option EK

def WCfg.i (c : WCfg) (id : Nat) : Nat := if c.strip then 0 else id
def WCfg.u (c : WCfg) (u : Bool) : Bool := if c.strip then false else u

/-- Wrap the finished node if its id is selected. -/
def fin (c : WCfg) (id : Nat) (e : Expr) : Expr := if c.sel id then c.wrap e else e

mutual
def W (c : WCfg) : Expr → Expr
  | .int id u v => fin c id (.int (c.i id) (c.u u) v)
  | .str id u s => fin c id (.str (c.i id) (c.u u) s)
  | .var id u n => fin c id (.var (c.i id) (c.u u) n)
  | .binop id u op l r => fin c id (.binop (c.i id) (c.u u) op (W c l) (W c r))
  | .letE id u dest rhs => .letE (c.i id) (c.u u) dest (W c rhs)
  | .assign id u n rhs => fin c id (.assign (c.i id) (c.u u) n (W c rhs))
  | .update id u a n rhs => fin c id (.update (c.i id) (c.u u) a n (W c rhs))
  | .ifE id u cnd thn els => fin c id (.ifE (c.i id) (c.u u) (W c cnd) (WSeq c thn) (WOpt c els))
  | .whileE id u cnd body => fin c id (.whileE (c.i id) (c.u u) (W c cnd) (WSeq c body))
  | .forE id u dest iter body => fin c id (.forE (c.i id) (c.u u) dest (W c iter) (WSeq c body))
  | .matchE id u scrut cases => fin c id (.matchE (c.i id) (c.u u) (W c scrut) (WCases c cases))
  | .ret id u none => fin c id (.ret (c.i id) (c.u u) none)
  | .ret id u (some e) => fin c id (.ret (c.i id) (c.u u) (some (W c e)))
  | .brk id u => fin c id (.brk (c.i id) (c.u u))
  | .cont id u => fin c id (.cont (c.i id) (c.u u))
  | .list id u items => fin c id (.list (c.i id) (c.u u) (WSeq c items))
  | .tuple id u items => fin c id (.tuple (c.i id) (c.u u) (WSeq c items))
  | .call id u recv args => fin c id (.call (c.i id) (c.u u) (W c recv) (WSeq c args))
  | .lambda id u params body => fin c id (.lambda (c.i id) (c.u u) params (WSeq c body))
  | .paren id u e => fin c id (.paren (c.i id) (c.u u) (W c e))
  | .invalid id u => fin c id (.invalid (c.i id) (c.u u))
  | .unsup id u w => fin c id (.unsup (c.i id) (c.u u) w)
def WSeq (c : WCfg) : List Expr → List Expr
  | [] => []
  | e :: rest => W c e :: WSeq c rest
def WOpt (c : WCfg) : Option (List Expr) → Option (List Expr)
  | none => none
  | some b => some (WSeq c b)
def WCase (c : WCfg) : Case → Case
  | .mk v d body => .mk v d (WSeq c body)
def WCases (c : WCfg) : List Case → List Case
  | [] => []
  | cs :: rest => WCase c cs :: WCases c rest
end

def WFun (c : WCfg) (d : FunDef) : FunDef := { d with body := WSeq c d.body }

def WP (c : WCfg) (p : Program) : Program :=
  { p with funs := p.funs.map (WFun c), toplevel := WSeq c p.toplevel }

-- binder names

def bokDest (f : String → Bool) : Dest → Bool
  | .sym n => f n
  | .destr ns => ns.all f

mutual
/-- Every binder name in the expression satisfies `f`. -/
def bok (f : String → Bool) : Expr → Bool
  | .int .. => true
  | .str .. => true
  | .var .. => true
  | .binop _ _ _ l r => bok f l && bok f r
  | .letE _ _ dest rhs => bokDest f dest && bok f rhs
  | .assign _ _ _ rhs => bok f rhs
  | .update _ _ _ _ rhs => bok f rhs
  | .ifE _ _ c t e => bok f c && bokSeq f t && bokOpt f e
  | .whileE _ _ c b => bok f c && bokSeq f b
  | .forE _ _ d e b => bokDest f d && bok f e && bokSeq f b
  | .matchE _ _ s cs => bok f s && bokCases f cs
  | .ret _ _ none => true
  | .ret _ _ (some e) => bok f e
  | .brk .. => true
  | .cont .. => true
  | .list _ _ es => bokSeq f es
  | .tuple _ _ es => bokSeq f es
  | .call _ _ r as => bok f r && bokSeq f as
  | .lambda _ _ ps b => ps.all f && bokSeq f b
  | .paren _ _ e => bok f e
  | .invalid .. => true
  | .unsup .. => true
def bokSeq (f : String → Bool) : List Expr → Bool
  | [] => true
  | e :: rest => bok f e && bokSeq f rest
def bokOpt (f : String → Bool) : Option (List Expr) → Bool
  | none => true
  | some b => bokSeq f b
def bokCase (f : String → Bool) : Case → Bool
  | .mk _ none b => bokSeq f b
  | .mk _ (some d) b => bokDest f d && bokSeq f b
def bokCases (f : String → Bool) : List Case → Bool
  | [] => true
  | c :: rest => bokCase f c && bokCases f rest
end

def bokFun (f : String → Bool) (d : FunDef) : Bool := d.params.all f && bokSeq f d.body

def bokProg (f : String → Bool) (p : Program) : Bool := p.funs.all (bokFun f) && bokSeq f p.toplevel

-- ------------------------------------------------------------------ instances

def stripCfg : WCfg :=
  { strip := true, sel := fun _ => false, wrap := id, ok := fun _ => true, k := 0, fk := none }

/-- No transformation at all (used to derive fuel monotonicity from the simulation). -/
def idCfg : WCfg :=
  { strip := false, sel := fun _ => false, wrap := id, ok := fun _ => true, k := 0, fk := none }

def dbgCall (e : Expr) : Expr := .call 0 false (.var 0 false "dbg") [e]

def dbgCfg (target : Nat) : WCfg :=
  { strip := true, sel := fun i => i == target, wrap := dbgCall, ok := fun n => n != "dbg", k := 2, fk := none }

/-- `dbg` means the built-in in `p`: no function, enum variant or binder of that name. -/
def dbgFree (p : Program) : Bool :=
  bokProg (fun n => n != "dbg") p && !(funNames p).contains "dbg" &&
    (findVariant (p.enums ++ Machine.preludeEnums) "dbg").isNone

/-- Number of nodes with the given id (`let` nodes do not count: they are never wrapped). -/
def hitsOf (target : Nat) (id : Nat) : Nat := if id == target then 1 else 0

mutual
def hits (t : Nat) : Expr → Nat
  | .int id .. => hitsOf t id
  | .str id .. => hitsOf t id
  | .var id .. => hitsOf t id
  | .binop id _ _ l r => hitsOf t id + hits t l + hits t r
  | .letE _ _ _ rhs => hits t rhs
  | .assign id _ _ rhs => hitsOf t id + hits t rhs
  | .update id _ _ _ rhs => hitsOf t id + hits t rhs
  | .ifE id _ c th e => hitsOf t id + hits t c + hitsSeq t th + hitsOpt t e
  | .whileE id _ c b => hitsOf t id + hits t c + hitsSeq t b
  | .forE id _ _ e b => hitsOf t id + hits t e + hitsSeq t b
  | .matchE id _ s cs => hitsOf t id + hits t s + hitsCases t cs
  | .ret id _ none => hitsOf t id
  | .ret id _ (some e) => hitsOf t id + hits t e
  | .brk id _ => hitsOf t id
  | .cont id _ => hitsOf t id
  | .list id _ es => hitsOf t id + hitsSeq t es
  | .tuple id _ es => hitsOf t id + hitsSeq t es
  | .call id _ r as => hitsOf t id + hits t r + hitsSeq t as
  | .lambda id _ _ b => hitsOf t id + hitsSeq t b
  | .paren id _ e => hitsOf t id + hits t e
  | .invalid id _ => hitsOf t id
  | .unsup id .. => hitsOf t id
def hitsSeq (t : Nat) : List Expr → Nat
  | [] => 0
  | e :: rest => hits t e + hitsSeq t rest
def hitsOpt (t : Nat) : Option (List Expr) → Nat
  | none => 0
  | some b => hitsSeq t b
def hitsCases (t : Nat) : List Case → Nat
  | [] => 0
  | .mk _ _ b :: rest => hitsSeq t b + hitsCases t rest
end

def hitsProg (t : Nat) (p : Program) : Nat :=
  (p.funs.map fun d => hitsSeq t d.body).sum + hitsSeq t p.toplevel

/-- C21, wrap-in-dbg: up to node ids and use flags, `p'` is `p` with the node `target` (exactly
one node, not a `let`) replaced by `dbg(<that node>)`, everything else in place. -/
def IsDbgWrap (p p' : Program) (target : Nat) : Prop :=
  WP stripCfg p' = WP (dbgCfg target) p ∧ hitsProg target p = 1

def dbgwrapCheck (p p' : Program) (target : Nat) : Bool :=
  progEq (WP stripCfg p') (WP (dbgCfg target) p) && hitsProg target p == 1

/-- C21, add-type-annotation, on the hint-free trees (`Machine.Expr` carries no hints): nothing but
node ids / flags differs. That exactly one hint was added, and where, is read off the `astq` dumps by
the driver (`annot_check`). -/
def IsAnnotationAdd (p p' : Program) : Prop := WP stripCfg p' = WP stripCfg p

def annotCheck (p p' : Program) : Bool := progEq (WP stripCfg p') (WP stripCfg p)

/-- The model of the check a hint `T` adds at the selected nodes: any expression context `chk` that
is a partial identity (Props/C21 `PartialId`). -/
def chkCfg (sel : Nat → Bool) (chk : Expr → Expr) (fk : EK) : WCfg :=
  { strip := false, sel := sel, wrap := chk, ok := fun _ => true, k := 2, fk := some fk }

/-- Concrete partial identities available in `RefSem`: the value must be an `Int` / `Bool` / `String`. -/
def chkInt (e : Expr) : Expr := .binop 0 true .add e (.int 0 true 0)
def chkBool (e : Expr) : Expr := .binop 0 true .and e (.var 0 true "True")
def chkStr (e : Expr) : Expr := .binop 0 true .concat e (.str 0 true "")

end Extract
