import GardenVerif.Lemmas.ExtractFun
/-! The simulation between `p` and the program in which the node `t` is replaced by a call of the new
function (`W x.cfg`, plus the new function), closure-free. -/
set_option linter.unusedVariables false
set_option linter.unusedSimpArgs false
set_option maxHeartbeats 400000

namespace Extract
open Machine (Expr Case Dest BinOp Program FunDef EnumDef)
open RefSem Validators

def thrX (x : FX) (k : Nat) : Nat := (x.ps.length + 5) * k

theorem thrX_succ (x : FX) (k : Nat) : thrX x (k + 1) = thrX x k + (x.ps.length + 5) := by
  simp [thrX, Nat.mul_succ]

theorem thrX_ge (x : FX) (k : Nat) : 5 * k ≤ thrX x k := Nat.mul_le_mul_right k (by omega)

theorem fin_miss (x : FX) (id : Nat) (core : Expr) (h : (id == x.t) = false) : fin x.cfg id core = core := by
  simp [fin, FX.cfg, h]

theorem GF_selOK (x : FX) {e : Expr} (h : GF x e = true) (hl : isLet e = false) : x.selOK e = true := by
  cases e <;> first | (simp [isLet] at hl; done) | (simp [GF] at h; done) |
    (simp only [GF, Bool.and_eq_true] at h; first | exact h | exact h.1 | exact h.1.1 | exact h.1.1.1) | skip
  rename_i o; cases o <;> (simp only [GF, Bool.and_eq_true] at h; first | exact h | exact h.1)

structure SimX (x : FX) (p q : Program) (k m : Nat) : Prop where
  ev : ∀ env s env' s' e, Ok2 x p q env s env' s' → GF x e = true →
    RelH s s' (eval false p k env s e) (eval false q m env' s' (W x.cfg e))
  seq : ∀ env s env' s' es, Ok2 x p q env s env' s' → GFSeq x es = true →
    RelH s s' (evalSeq false p k env s es) (evalSeq false q m env' s' (WSeq x.cfg es))
  lst : ∀ env s env' s' es, Ok2 x p q env s env' s' → GFSeq x es = true →
    RelH s s' (evalList false p k env s es) (evalList false q m env' s' (WSeq x.cfg es))
  whl : ∀ env s env' s' cnd body, Ok2 x p q env s env' s' → GF x cnd = true → GFSeq x body = true →
    RelH s s' (evalWhile false p k env s cnd body) (evalWhile false q m env' s' (W x.cfg cnd) (WSeq x.cfg body))
  for_ : ∀ env s env' s' dest items body, Ok2 x p q env s env' s' → bokDest x.f dest = true → GFSeq x body = true →
    RelH s s' (evalFor false p k env s dest items body) (evalFor false q m env' s' dest items (WSeq x.cfg body))
  cases : ∀ env s env' s' ty idx pl cs, Ok2 x p q env s env' s' → GFCases x cs = true →
    RelH s s' (evalCases false p k env s ty idx pl cs) (evalCases false q m env' s' ty idx pl (WCases x.cfg cs))
  app : ∀ s s' f args, s.out = s'.out →
    RelH s s' (applyVal false p k s f args) (applyVal false q m s' f args)

theorem simX_zero (x : FX) (p q : Program) (m : Nat) : SimX x p q 0 m := by
  refine ⟨?_, ?_, ?_, ?_, ?_, ?_, ?_⟩ <;> intros <;>
    simp only [eval, evalSeq, evalList, evalWhile, evalFor, evalCases, applyVal] <;> exact RelH.bad rfl

/-- Binding the same destination on both sides keeps `Ok2`. -/
theorem Ok2.bind {x p q env s env' s'} (hk : Ok2 x p q env s env' s') (d : Dest) (v : Val)
    (hd : bokDest x.f d = true) :
    (∃ ke, bindDest d v env s = .error ke ∧ bindDest d v env' s' = .error ke) ∨
    (∃ e1 t1 e1' t1', bindDest d v env s = .ok (e1, t1) ∧ bindDest d v env' s' = .ok (e1', t1') ∧
      Ok2 x p q e1 t1 e1' t1' ∧ s.store <+: t1.store ∧ s'.store <+: t1'.store) := by
  rcases bindDest_both d v hk.agree hk.wf hk.wf' with ⟨ke, e1, e2⟩ | ⟨e1, t1, e1', t1', b1, b2, ag, w1, w1', oo, oo', q1, q1'⟩
  · exact Or.inl ⟨ke, e1, e2⟩
  · exact Or.inr ⟨e1, t1, e1', t1', b1, b2,
      ⟨ag, w1, w1', by rw [oo, oo', hk.out], bindDest_ok hk.ok hd b1, bindDest_ok hk.ok' hd b2⟩, q1, q1'⟩

theorem applyBuiltinX {x p q} (hc : FCtx x p q) (name : String) (args : List Val) {s s' : RefSem.St}
    (ho : s.out = s'.out) : RelH s s' (applyBuiltin p name args s) (applyBuiltin q name args s') := by
  cases args with
  | nil => exact RelH.same _ ho
  | cons a rest =>
    cases rest with
    | cons b r2 => exact RelH.same _ ho
    | nil =>
      simp only [applyBuiltin, hc.enums]
      by_cases h1 : (name == "println") = true
      · simp only [h1, if_true]
        cases a <;> first | exact RelH.same _ ho | exact Or.inr ⟨rfl, by simp [ho], List.prefix_refl _, List.prefix_refl _⟩
      · simp only [h1, if_false, Bool.false_eq_true]
        by_cases h2 : (name == "print") = true
        · simp only [h2, if_true]
          cases a <;> first | exact RelH.same _ ho | exact Or.inr ⟨rfl, by simp [ho], List.prefix_refl _, List.prefix_refl _⟩
        · simp only [h2, if_false, Bool.false_eq_true]
          by_cases h3 : (name == "string_repr") = true
          · simp only [h3, if_true]; exact RelH.same _ ho
          · simp only [h3, if_false, Bool.false_eq_true]
            by_cases h4 : (name == "dbg") = true
            · simp only [h4, if_true]; exact RelH.same _ ho
            · simp only [h4, if_false, Bool.false_eq_true]; exact RelH.same _ ho

theorem find_none_of_nfree {p : Program} {n : String} (h : nsLookup (funNames p) p.enums n = none) :
    p.funs.find? (fun d => d.name == n) = none := by
  have hc : (funNames p).contains n = false := by
    cases hh : (funNames p).contains n with
    | false => rfl
    | true =>
      have hm : n ∈ funNames p := by simpa using hh
      simp [nsLookup, hm] at h
  rw [List.find?_eq_none]
  intro d hd hdn
  have : n ∈ funNames p := by
    simp only [funNames, List.mem_map]
    exact ⟨d, hd, by simpa using hdn⟩
  simp at hc
  exact hc this


theorem simX_succ {x : FX} {p q : Program} (hc : FCtx x p q) (k : Nat)
    (ih : ∀ m0, thrX x k ≤ m0 → SimX x p q k m0) (m : Nat) (hm : thrX x (k + 1) ≤ m) :
    SimX x p q (k + 1) m := by
  have hm' := hm
  rw [thrX_succ] at hm'
  have hge := thrX_ge x k
  obtain ⟨m1, rfl⟩ : ∃ m1, m = m1 + 1 := ⟨m - 1, by omega⟩
  have ih := ih m1 (by omega)
  refine ⟨?ev, ?seq, ?lst, ?whl, ?for_, ?cases, ?app⟩
  case ev =>
    intro env s env' s' e hk hg
    by_cases hl : isLet e = true
    · obtain ⟨id, u, d, r, rfl⟩ := isLet_iff.mp hl
      simp only [W, eval]; exact RelH.bad rfl
    have hl' : isLet e = false := by simpa using hl
    by_cases hid : (e.id == x.t) = true
    · -- the selected node: the extracted program calls the new function
      have hso := GF_selOK x hg hl'
      simp only [FX.selOK, hid, Bool.not_true, Bool.false_or, Bool.and_eq_true, beq_iff_eq, List.all_eq_true,
        bne_iff_ne, ne_eq, Bool.or_eq_true] at hso
      obtain ⟨⟨⟨⟨ha, h1⟩, hb⟩, hv⟩, hp⟩ := hso
      have hb' := exprEq_sound _ _ hb
      rw [W_sel x e ha hid h1]
      have hw : x.cfg.wrap (W stripCfg e) = callOf x.n x.ps := by simp [FX.cfg, hb]
      rw [hw]
      exact call_step hc hk e ha hb' (fun y hy => (hv y hy).2) (fun y hy => by simpa using hp y hy)
        (fun y hy => (hv y hy).1) k (m1 + 1) (by omega) (by omega)
    have hid' : (e.id == x.t) = false := by simpa using hid
    cases e <;> simp only [Expr.id] at hid'
    case int id u v => simp only [W, fin_miss x _ _ hid', eval]; exact RelH.same _ hk.out
    case str id u v => simp only [W, fin_miss x _ _ hid', eval]; exact RelH.same _ hk.out
    case var id u nm =>
      simp only [GF, Bool.and_eq_true, bne_iff_ne, ne_eq] at hg
      simp only [W, fin_miss x _ _ hid', eval, hk.agree nm hg.2]
      cases lookupVar q env' s'.store nm <;> exact RelH.same _ hk.out
    case binop id u op l r =>
      simp only [GF, Bool.and_eq_true] at hg
      simp only [W, fin_miss x _ _ hid', eval]
      refine bindH (ih.ev _ _ _ _ _ hk hg.1.2) fun lv s1 s1' o1 p1 p1' => ?_
      refine bindH ((ih.ev _ _ _ _ _ (hk.step p1 p1' o1) hg.2).mono p1 p1') fun rv s2 s2' o2 p2 p2' => ?_
      exact Or.inr ⟨rfl, o2, p2, p2'⟩
    case letE => simp [isLet] at hl'
    case assign => simp [GF] at hg
    case update => simp [GF] at hg
    case ifE id u cnd thn els =>
      simp only [GF, Bool.and_eq_true] at hg
      simp only [W, fin_miss x _ _ hid', eval]
      refine bindH (ih.ev _ _ _ _ _ hk hg.1.1.2) fun cv s1 s1' o1 p1 p1' => ?_
      have hk1 := hk.step p1 p1' o1
      cases cv.asBool with
      | none => exact RelH.bad rfl
      | some b =>
        cases els with
        | none =>
          simp only [WOpt]
          cases b with
          | false => exact Or.inr ⟨rfl, o1, p1, p1'⟩
          | true =>
            simp only [if_true]
            refine bindH ((ih.seq _ _ _ _ _ hk1 hg.1.2).mono p1 p1') fun _ s2 s2' o2 p2 p2' => ?_
            exact Or.inr ⟨rfl, o2, p2, p2'⟩
        | some eb =>
          simp only [WOpt]
          have hg3 : GFSeq x eb = true := by simpa [GFOpt] using hg.2
          cases b with
          | false => exact (ih.seq _ _ _ _ _ hk1 hg3).mono p1 p1'
          | true => exact (ih.seq _ _ _ _ _ hk1 hg.1.2).mono p1 p1'
    case whileE id u cnd body =>
      simp only [GF, Bool.and_eq_true] at hg
      simp only [W, fin_miss x _ _ hid', eval]
      exact ih.whl _ _ _ _ _ _ hk hg.1.2 hg.2
    case forE id u dest iter body =>
      simp only [GF, Bool.and_eq_true] at hg
      simp only [W, fin_miss x _ _ hid', eval]
      refine bindH (ih.ev _ _ _ _ _ hk hg.1.2) fun iv s1 s1' o1 p1 p1' => ?_
      cases iv <;> first | exact RelH.bad rfl | exact (ih.for_ _ _ _ _ _ _ _ (hk.step p1 p1' o1) hg.1.1.2 hg.2).mono p1 p1'
    case matchE id u scrut cs =>
      simp only [GF, Bool.and_eq_true] at hg
      simp only [W, fin_miss x _ _ hid', eval]
      refine bindH (ih.ev _ _ _ _ _ hk hg.1.2) fun sv s1 s1' o1 p1 p1' => ?_
      cases sv <;> first | exact RelH.bad rfl | exact (ih.cases _ _ _ _ _ _ _ _ (hk.step p1 p1' o1) hg.2).mono p1 p1'
    case ret id u o =>
      cases o with
      | none => simp only [W, fin_miss x _ _ hid', eval]; exact RelH.same _ hk.out
      | some y =>
        simp only [GF, Bool.and_eq_true] at hg
        simp only [W, fin_miss x _ _ hid', eval]
        exact bindH (ih.ev _ _ _ _ _ hk hg.2) fun v s1 s1' o1 p1 p1' => Or.inr ⟨rfl, o1, p1, p1'⟩
    case brk id u => simp only [W, fin_miss x _ _ hid', eval]; exact RelH.same _ hk.out
    case cont id u => simp only [W, fin_miss x _ _ hid', eval]; exact RelH.same _ hk.out
    case list id u items =>
      simp only [GF, Bool.and_eq_true] at hg
      simp only [W, fin_miss x _ _ hid', eval]
      exact ih.lst _ _ _ _ _ hk hg.2
    case tuple id u items =>
      simp only [GF, Bool.and_eq_true] at hg
      simp only [W, fin_miss x _ _ hid', eval]
      refine bindH (ih.lst _ _ _ _ _ hk hg.2) fun vs s1 s1' o1 p1 p1' => ?_
      cases vs <;> first | exact RelH.bad rfl | exact Or.inr ⟨rfl, o1, p1, p1'⟩
    case call id u recv args =>
      simp only [GF, Bool.and_eq_true] at hg
      simp only [W, fin_miss x _ _ hid', eval]
      refine bindH (ih.ev _ _ _ _ _ hk hg.1.2) fun fv s1 s1' o1 p1 p1' => ?_
      refine bindH ((ih.lst _ _ _ _ _ (hk.step p1 p1' o1) hg.2).mono p1 p1') fun vs s2 s2' o2 p2 p2' => ?_
      cases vs <;> first | exact RelH.bad rfl | exact (ih.app _ _ _ _ o2).mono p2 p2'
    case lambda id u ps body =>
      simp only [W, fin_miss x _ _ hid', eval, Bool.false_eq_true, if_false]; exact RelH.bad rfl
    case paren id u y =>
      simp only [GF, Bool.and_eq_true] at hg
      simp only [W, fin_miss x _ _ hid', eval]
      exact ih.ev _ _ _ _ _ hk hg.2
    case invalid id u => simp only [W, fin_miss x _ _ hid', eval]; exact RelH.bad rfl
    case unsup id u w => simp only [W, fin_miss x _ _ hid', eval]; exact RelH.bad rfl
  case seq =>
    intro env s env' s' es hk hg
    cases es with
    | nil => simp only [WSeq, evalSeq]; exact RelH.same _ hk.out
    | cons e rest =>
      simp only [GFSeq, Bool.and_eq_true] at hg
      by_cases hl : isLet e = true
      · obtain ⟨id, u, d, r, rfl⟩ := isLet_iff.mp hl
        simp only [GF, Bool.and_eq_true] at hg
        simp only [WSeq, W]
        rw [evalSeq_let, evalSeq_let]
        refine bindH (ih.ev _ _ _ _ _ hk hg.1.2) fun v s1 s1' o1 p1 p1' => ?_
        have hk1 := hk.step p1 p1' o1
        rcases hk1.bind d v hg.1.1 with ⟨ke, e1, e2⟩ | ⟨e1, t1, e1', t1', b1, b2, hk2, q1, q1'⟩
        · simp only [e1, e2]; exact RelH.bad rfl
        · simp only [b1, b2]
          exact (ih.seq _ _ _ _ _ hk2 hg.2).mono (p1.trans q1) (p1'.trans q1')
      · have hl' : isLet e = false := by simpa using hl
        have hl2 : isLet (W x.cfg e) = false :=
          isLet_W (fun id y hs => by
            simp only [FX.cfg]
            split <;> simp [callOf, isLet]) hl'
        simp only [WSeq]
        rw [evalSeq_cons_nonlet _ _ _ _ _ _ hl2, evalSeq_cons_nonlet _ _ _ _ _ _ hl']
        cases rest with
        | nil => simp only [WSeq]; exact ih.ev _ _ _ _ _ hk hg.1
        | cons e2 rest2 =>
          simp only [WSeq]
          refine bindH (ih.ev _ _ _ _ _ hk hg.1) fun _ s1 s1' o1 p1 p1' => ?_
          have := ih.seq env s1 env' s1' (e2 :: rest2) (hk.step p1 p1' o1) hg.2
          simp only [WSeq] at this
          exact this.mono p1 p1'
  case lst =>
    intro env s env' s' es hk hg
    cases es with
    | nil => simp only [WSeq, evalList]; exact RelH.same _ hk.out
    | cons e rest =>
      simp only [GFSeq, Bool.and_eq_true] at hg
      simp only [WSeq, evalList]
      refine bindH (ih.ev _ _ _ _ _ hk hg.1) fun v s1 s1' o1 p1 p1' => ?_
      refine bindH ((ih.lst _ _ _ _ _ (hk.step p1 p1' o1) hg.2).mono p1 p1') fun vs s2 s2' o2 p2 p2' => ?_
      cases vs <;> first | exact RelH.bad rfl | exact Or.inr ⟨rfl, o2, p2, p2'⟩
  case whl =>
    intro env s env' s' cnd body hk hg1 hg2
    rw [evalWhile_loop, evalWhile_loop]
    refine bindH (ih.ev _ _ _ _ _ hk hg1) fun cv s1 s1' o1 p1 p1' => ?_
    have hk1 := hk.step p1 p1' o1
    cases cv.asBool with
    | none => exact RelH.bad rfl
    | some b =>
      cases b with
      | false => exact Or.inr ⟨rfl, o1, p1, p1'⟩
      | true =>
        refine loopH ((ih.seq _ _ _ _ _ hk1 hg2).mono p1 p1') fun s2 s2' o2 p2 p2' => ?_
        exact (ih.whl _ _ _ _ _ _ (hk.step p2 p2' o2) hg1 hg2).mono p2 p2'
  case for_ =>
    intro env s env' s' dest items body hk hd hg
    cases items with
    | nil => simp only [evalFor]; exact RelH.same _ hk.out
    | cons it rest =>
      rw [evalFor_loop, evalFor_loop]
      rcases hk.bind dest it hd with ⟨ke, e1, e2⟩ | ⟨e1, t1, e1', t1', b1, b2, hk2, q1, q1'⟩
      · simp only [e1, e2]; exact RelH.bad rfl
      · simp only [b1, b2]
        refine loopH ((ih.seq _ _ _ _ _ hk2 hg).mono q1 q1') fun s2 s2' o2 p2 p2' => ?_
        exact (ih.for_ _ _ _ _ _ _ _ (hk.step p2 p2' o2) hd hg).mono p2 p2'
  case cases =>
    intro env s env' s' ty idx pl cs hk hg
    cases cs with
    | nil => simp only [WCases, evalCases]; exact RelH.bad rfl
    | cons cs0 rest =>
      obtain ⟨variant, dest, body⟩ := cs0
      cases dest with
      | none =>
        simp only [GFCases, Bool.and_eq_true] at hg
        have h3 := ih.cases env s env' s' ty idx pl rest hk hg.2
        have h2 := ih.seq env s env' s' body hk hg.1
        simp only [WCases, WCase, evalCases, hc.patKey]
        by_cases hv : (variant == "_") = true
        · simp only [hv, if_true]; exact h2
        · simp only [hv, if_false, Bool.false_eq_true]
          cases patKey p variant with
          | none => exact RelH.bad rfl
          | some pk =>
            obtain ⟨pty, pidx⟩ := pk
            by_cases hkk : (ty == pty && idx == pidx) = true
            · simp only [hkk, if_true]
              cases pl with
              | none => exact h2
              | some _ => exact h3
            · simp only [hkk, if_false, Bool.false_eq_true]; exact h3
      | some d =>
        simp only [GFCases, Bool.and_eq_true] at hg
        have h3 := ih.cases env s env' s' ty idx pl rest hk hg.2
        simp only [WCases, WCase, evalCases, hc.patKey]
        cases patKey p variant with
        | none => exact RelH.bad rfl
        | some pk =>
          obtain ⟨pty, pidx⟩ := pk
          by_cases hkk : (ty == pty && idx == pidx) = true
          · simp only [hkk, if_true]
            cases pl with
            | none => exact h3
            | some v =>
              simp only []
              rcases hk.bind d v hg.1.1 with ⟨ke, e1, e2⟩ | ⟨e1, t1, e1', t1', b1, b2, hk2, q1, q1'⟩
              · simp only [e1, e2]; exact RelH.bad rfl
              · simp only [b1, b2]
                exact (ih.seq _ _ _ _ _ hk2 hg.1.2).mono q1 q1'
          · simp only [hkk, if_false, Bool.false_eq_true]; exact h3
  case app =>
    intro s s' f args ho
    cases f with
    | closure cenv ps body => simp only [applyVal, Bool.not_false, if_true]; exact RelH.bad rfl
    | fn name =>
      by_cases hnm : name = x.n
      · subst hnm
        simp only [applyVal, find_none_of_nfree hc.nfree]
        exact RelH.bad rfl
      simp only [applyVal, hc.find_o name hnm]
      cases hfind : p.funs.find? (fun d => d.name == name) with
      | none => exact RelH.bad rfl
      | some d =>
        have hmem : d ∈ p.funs := List.mem_of_find?_eq_some hfind
        have hfr := hc.gfuns d hmem
        simp only [GFFun, Bool.and_eq_true] at hfr
        simp only [Option.map_some, WFun]
        by_cases hl : (d.params.length != args.length) = true
        · simp only [hl, if_true]; exact RelH.bad rfl
        · simp only [hl, if_false, Bool.false_eq_true]
          have hk1 : Ok2 x p q (bindNames d.params args [] s).1 (bindNames d.params args [] s).2
              (bindNames d.params args [] s').1 (bindNames d.params args [] s').2 :=
            ⟨bindNames_agree _ _ _ _ _ _ (hc.agree_nil _ _) WF.nil WF.nil, bindNames_wf _ _ _ _ WF.nil,
              bindNames_wf _ _ _ _ WF.nil, by rw [(bindNames_out _ _ _ _).1, (bindNames_out _ _ _ _).1, ho],
              bindNames_ok _ _ _ _ EnvOK.nil hfr.1, bindNames_ok _ _ _ _ EnvOK.nil hfr.1⟩
          exact funResultH ((ih.seq _ _ _ _ _ hk1 hfr.2).mono (bindNames_out _ _ _ _).2 (bindNames_out _ _ _ _).2)
    | builtin name => simp only [applyVal]; exact applyBuiltinX hc name args ho
    | int v => simp only [applyVal]; exact RelH.bad rfl
    | str v => simp only [applyVal]; exact RelH.bad rfl
    | list v => simp only [applyVal]; exact RelH.bad rfl
    | tuple v => simp only [applyVal]; exact RelH.bad rfl
    | enumV a b c => simp only [applyVal]; exact RelH.bad rfl
    | enumC a b =>
      simp only [applyVal]
      cases args with
      | nil => exact RelH.bad rfl
      | cons a1 r1 => cases r1 <;> first | exact RelH.same _ ho | exact RelH.bad rfl

theorem simX_all {x : FX} {p q : Program} (hc : FCtx x p q) : ∀ k m, thrX x k ≤ m → SimX x p q k m
  | 0, m, _ => simX_zero x p q m
  | k + 1, m, hm => simX_succ hc k (fun m0 h0 => simX_all hc k m0 h0) m hm


-- ------------------------------------------------------------------ programs with the same function table run the same

/-- The interpreter reads a program's functions only through lookup by name. -/
structure EqP (p1 p2 : Program) : Prop where
  enums : p1.enums = p2.enums
  names : ∀ y, (funNames p1).contains y = (funNames p2).contains y
  find : ∀ name, p1.funs.find? (fun d => d.name == name) = p2.funs.find? (fun d => d.name == name)

structure EqS (cl : Bool) (p1 p2 : Program) (n : Nat) : Prop where
  ev : ∀ env s e, eval cl p1 n env s e = eval cl p2 n env s e
  seq : ∀ env s es, evalSeq cl p1 n env s es = evalSeq cl p2 n env s es
  lst : ∀ env s es, evalList cl p1 n env s es = evalList cl p2 n env s es
  whl : ∀ env s c b, evalWhile cl p1 n env s c b = evalWhile cl p2 n env s c b
  for_ : ∀ env s d items b, evalFor cl p1 n env s d items b = evalFor cl p2 n env s d items b
  cases : ∀ env s ty idx pl cs, evalCases cl p1 n env s ty idx pl cs = evalCases cl p2 n env s ty idx pl cs
  app : ∀ s f args, applyVal cl p1 n s f args = applyVal cl p2 n s f args

theorem eqS (cl : Bool) {p1 p2 : Program} (h : EqP p1 p2) : ∀ n, EqS cl p1 p2 n
  | 0 => by
    refine ⟨?_, ?_, ?_, ?_, ?_, ?_, ?_⟩ <;> intros <;>
      simp only [eval, evalSeq, evalList, evalWhile, evalFor, evalCases, applyVal]
  | n + 1 => by
    have ih := eqS cl h n
    have hns : ∀ y, nsLookup (funNames p1) p1.enums y = nsLookup (funNames p2) p2.enums y := fun y => by
      simp only [nsLookup, h.names y, h.enums]
    have hlv : ∀ env st y, lookupVar p1 env st y = lookupVar p2 env st y := fun env st y => by
      simp only [lookupVar, hns]
    have hpk : ∀ v, patKey p1 v = patKey p2 v := fun v => by simp only [patKey, hns]
    refine ⟨?ev, ?seq, ?lst, ?whl, ?for_, ?cases, ?app⟩
    case ev =>
      intro env s e
      cases e <;> try (simp only [eval, ih.ev, ih.seq, ih.lst, ih.whl, ih.for_, ih.cases, ih.app, hlv]; done)
      all_goals (rename_i o; cases o <;> simp only [eval, ih.ev])
    case seq =>
      intro env s es
      cases es with
      | nil => simp only [evalSeq]
      | cons e rest =>
        by_cases hl : isLet e = true
        · obtain ⟨id, u, d, r, rfl⟩ := isLet_iff.mp hl
          simp only [evalSeq, ih.ev, ih.seq]
        · have hl' : isLet e = false := by simpa using hl
          rw [evalSeq_cons_nonlet _ _ _ _ _ _ hl', evalSeq_cons_nonlet _ _ _ _ _ _ hl']
          cases rest <;> simp only [ih.ev, ih.seq]
    case lst =>
      intro env s es
      cases es <;> simp only [evalList, ih.ev, ih.lst]
    case whl =>
      intro env s c b
      simp only [evalWhile, ih.ev, ih.seq, ih.whl]
    case for_ =>
      intro env s d items b
      cases items <;> simp only [evalFor, ih.seq, ih.for_]
    case cases =>
      intro env s ty idx pl cs
      cases cs with
      | nil => simp only [evalCases]
      | cons c0 rest =>
        obtain ⟨v, d, b⟩ := c0
        cases d <;> simp only [evalCases, hpk, ih.seq, ih.cases]
    case app =>
      intro s f args
      cases f <;> simp only [applyVal, h.find, ih.seq, applyBuiltin, h.enums]

theorem eqP_run (cl : Bool) {p1 p2 : Program} (h : EqP p1 p2) (ht : p1.toplevel = p2.toplevel) (n : Nat) :
    run cl p1 n = run cl p2 n := by
  simp only [run, ht]
  exact (eqS cl h n).seq _ _ _


-- ------------------------------------------------------------------ assembling `fun_extract_sound`

theorem find_congr {α} {p q : α → Bool} : ∀ (l : List α), (∀ a, a ∈ l → p a = q a) → l.find? p = l.find? q
  | [], _ => rfl
  | a :: rest, h => by
      simp only [List.find?_cons, h a (List.mem_cons_self ..)]
      rw [find_congr rest fun b hb => h b (List.mem_cons_of_mem _ hb)]

theorem contains_iff_find (fs : List FunDef) (y : String) :
    (fs.map (·.name)).contains y = (fs.find? (fun d => d.name == y)).isSome := by
  induction fs with
  | nil => rfl
  | cons d rest ih =>
    simp only [List.map_cons, List.contains_cons, List.find?_cons]
    by_cases h : (d.name == y) = true
    · have e0 : d.name = y := by simpa using h
      have h' : (y == d.name) = true := by simp [e0]
      simp [h, h']
    · have h' : (y == d.name) = false := by
        simp only [beq_eq_false_iff_ne, ne_eq]; intro e; exact h (by simp [e])
      simp only [h, h', Bool.false_or]
      exact ih

theorem eqP_of_find {p1 p2 : Program} (he : p1.enums = p2.enums)
    (hf : ∀ name, p1.funs.find? (fun d => d.name == name) = p2.funs.find? (fun d => d.name == name)) : EqP p1 p2 :=
  ⟨he, fun y => by simp only [funNames, contains_iff_find, hf], hf⟩

/-- The canonical extracted program: the new function first, then `p` with the node replaced. -/
def canonQ (x : FX) (p : Program) : Program :=
  { funs := { name := x.n, params := x.ps, body := [x.bS] } :: (WP x.cfg p).funs,
    enums := p.enums, toplevel := WSeq x.cfg p.toplevel }

theorem fctx_canon {x : FX} {p : Program} (hn : x.n ≠ "_") (psu : x.ps.all (· != "_") = true)
    (psf : x.ps.all x.f = true) (nfree : nsLookup (funNames p) p.enums x.n = none)
    (gfuns : ∀ d ∈ p.funs, GFFun x d = true) : FCtx x p (canonQ x p) where
  hn := hn
  psu := psu
  psf := psf
  enums := rfl
  find_n := by simp only [canonQ, List.find?_cons, beq_self_eq_true]
  find_o := fun name hne => by
    have : (x.n == name) = false := by simpa using Ne.symm hne
    simp only [canonQ, List.find?_cons, this]
    exact find_WP x.cfg p name
  names := fun y => by
    simp only [canonQ, funNames, List.map_cons, List.contains_cons]
    have := funNames_WP x.cfg p
    simp only [funNames] at this
    rw [this, Bool.or_comm]
  nfree := nfree
  gfuns := gfuns

theorem canon_run {x : FX} {p : Program} (hc : FCtx x p (canonQ x p)) (hg : GFSeq x p.toplevel = true) (k : Nat) :
    RelH St.init St.init (run false p k) (run false (canonQ x p) (thrX x k)) :=
  (simX_all hc k (thrX x k) (Nat.le_refl _)).seq [] St.init [] St.init p.toplevel
    ⟨hc.agree_nil _ _, WF.nil, WF.nil, rfl, EnvOK.nil, EnvOK.nil⟩ hg

/-- The real output (ids / flags stripped) has the same function table as the canonical program. -/
theorem eqP_canon {x : FX} {p p' : Program} {d : FunDef} {b : Expr}
    (hd : p'.funs.find? (fun d => d.name == x.n) = some d) (hb : d.body = [b]) (hps : d.params = x.ps)
    (hbS : W stripCfg b = x.bS)
    (h3 : WP stripCfg { p' with funs := p'.funs.filter fun d => d.name != x.n } = WP x.cfg p) :
    EqP (canonQ x p) (WP stripCfg p') ∧ (canonQ x p).toplevel = (WP stripCfg p').toplevel := by
  have hfuns : (p'.funs.filter fun d => d.name != x.n).map (WFun stripCfg) = (WP x.cfg p).funs := by
    have := congrArg Program.funs h3; simpa only [WP] using this
  have henums : p'.enums = p.enums := by
    have := congrArg Program.enums h3; simpa only [WP] using this
  have htop : WSeq stripCfg p'.toplevel = WSeq x.cfg p.toplevel := by
    have := congrArg Program.toplevel h3; simpa only [WP] using this
  have hdn : d.name = x.n := by simpa using List.find?_some hd
  refine ⟨eqP_of_find henums.symm fun name => ?_, htop.symm⟩
  have hR : (WP stripCfg p').funs.find? (fun d => d.name == name) =
      (p'.funs.find? (fun d => d.name == name)).map (WFun stripCfg) := find_WP stripCfg p' name
  rw [hR]
  by_cases hne : name = x.n
  · subst hne
    rw [hd]
    simp [canonQ, WFun, hb, WSeq, hdn, hps, hbS]
  · have hx : (x.n == name) = false := by simpa using Ne.symm hne
    simp only [canonQ, List.find?_cons, hx, ← hfuns, List.find?_map, List.find?_filter]
    congr 1
    apply find_congr
    intro d0 _
    simp only [Function.comp, WFun]
    by_cases hd0 : (d0.name == name) = true
    · have e0 : d0.name = name := by simpa using hd0
      simp [e0, hne]
    · simp [hd0]

end Extract
