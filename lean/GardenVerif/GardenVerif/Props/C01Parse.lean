import GardenVerif.Lemmas.Parse
import GardenVerif.Lemmas.Lex
/-!
C01 (parser half) — the parser model M2 (`pn = false` = /repo HEAD with the left-assoc, tuple-progress,
eof-progress repairs, plus parser-fix-struct-literal-keyword.diff) does not panic.

MAIN THEOREM (full, for the whole parser):
  `parse_no_panic : ∀ fuel toks, toks ≠ [] → LexLike toks → isPanic (parseItems fuel toks) = false`
for EVERY fuel (induction on fuel for all fuel at once: `Specs toks fuel` for the 28 mutually recursive
functions of the expression block, `hints_ok` for the type-hint block, separate inductions for the
non-mutual loops), so it does not rest on any termination bound. Covered panic sites: the ten progress
assertions (parser.rs:328, 404, 995 (dead), 1082, 1361, 2334, 3067 and the former 1995, 2183, 2812, now
`break`s), `expect("TODO: handle empty …")` 86/151, `unwrap`s 229/512, `unpop`.
Also: `parse_no_panic_partial` / `parseBlock_no_panic` (any start state inside the token list),
`parseExpression_progress` (the invariant the assertions gesture at: the index never moves back, and
moves strictly forward unless the result is `Invalid` / a placeholder), `itemsLoop_ok`.

Hypothesis `LexLike toks` (what the parser relies on from the lexer): a float-looking token is a whole
float (else `parse::<f64>().unwrap()` panics) and a symbol-like token sits on one line (else
`parse_symbol`'s same-line test can un-pop a keyword it just consumed and `try`/… would make no
progress). It is PROVED about the lexer model (`LexLikeProof.lex_lexLike`, end of this file), which gives the
hypothesis-free `lex_parse_no_panic : ∀ src strAny fuel, ¬ panic (parseItems fuel (tokens of lex src))`;
harness/c01.py additionally checks it on every real token stream of every run
(coverage.lexlike_token_streams_checked / lexlike_violations).

The one documented backward move: `parse_symbol` at the end of the file hands back the previous token
and may un-pop it (`Mv`: back onto a LAST token that is not symbol-like); every caller is shown to end
at or beyond its own start.

Found while proving (real, replayed on the binary, repaired by the patches named in Model/Parse.lean):
EOF panics at 1995/2183/2812, EOF non-termination in four loops, unbounded recursion on a keyword at
the start of a line glued to `{` (`x NEWLINE else{ }`).
-/

namespace C01Parse
open Parse ParseLemmas

/-- Weakest precondition: `m` run from `s` does not panic and, if it returns, `Q` holds. -/
def wp {α} (m : P α) (Q : α → St → Prop) (s : St) : Prop :=
  match m s with
  | .ok a s' => Q a s'
  | .panic _ => False
  | .outOfFuel => True

theorem wp_bind {α β} (m : P α) (f : α → P β) (Q : β → St → Prop) (s : St) :
    wp (m >>= f) Q s ↔ wp m (fun a s' => wp (f a) Q s') s := by
  simp only [wp, bind_apply, P.bind]
  cases m s <;> simp

theorem wp_pure {α} (a : α) (Q : α → St → Prop) (s : St) : wp (pure a : P α) Q s ↔ Q a s := by
  simp [wp, pure_apply]

theorem wp_outOfFuel {α} (Q : α → St → Prop) (s : St) : wp (outOfFuel : P α) Q s ↔ True := by
  simp [wp, outOfFuel]

theorem wp_panic {α} (x : String) (Q : α → St → Prop) (s : St) : wp (Parse.panic x : P α) Q s ↔ False := by
  simp [wp, Parse.panic]

theorem wp_getIdx (Q : Nat → St → Prop) (s : St) : wp getIdx Q s ↔ Q s.idx s := by simp [wp, getIdx]
theorem wp_getDiags (Q : List DiagKind → St → Prop) (s : St) : wp getDiags Q s ↔ Q s.diags s := by simp [wp, getDiags]
theorem wp_setDiags (d : List DiagKind) (Q : Unit → St → Prop) (s : St) :
    wp (setDiags d) Q s ↔ Q () { s with diags := d } := by simp [wp, setDiags]
theorem wp_diag (k : DiagKind) (Q : Unit → St → Prop) (s : St) :
    wp (diag k) Q s ↔ Q () { s with diags := s.diags ++ [k] } := by simp [wp, diag]
theorem wp_peekAt (toks : Toks) (k : Nat) (Q : Option TokI → St → Prop) (s : St) :
    wp (peekAt toks k) Q s ↔ Q ((toks[s.idx + k]?).map fun t => ⟨t, s.idx + k⟩) s := by simp [wp, peekAt]
theorem wp_peek (toks : Toks) (Q : Option TokI → St → Prop) (s : St) :
    wp (peek toks) Q s ↔ Q ((toks[s.idx]?).map fun t => ⟨t, s.idx⟩) s := by simp [wp, peek, peekAt]
theorem wp_peekIs (toks : Toks) (x : String) (Q : Bool → St → Prop) (s : St) :
    wp (peekIs toks x) Q s ↔ Q (match toks[s.idx]? with | some t => t.text == x | none => false) s := by
  simp only [wp, peekIs]; cases toks[s.idx]? <;> exact Iff.rfl
theorem wp_pop (toks : Toks) (Q : Option TokI → St → Prop) (s : St) :
    wp (pop toks) Q s ↔ (match toks[s.idx]? with
      | some t => Q (some ⟨t, s.idx⟩) { s with idx := s.idx + 1 }
      | none => Q none s) := by
  simp only [wp, pop]; cases toks[s.idx]? <;> simp
theorem wp_prev (toks : Toks) (Q : Option TokI → St → Prop) (s : St) :
    wp (prev toks) Q s ↔ Q (if s.idx = 0 then none else (toks[s.idx - 1]?).map fun t => ⟨t, s.idx - 1⟩) s := by
  simp [wp, prev]
theorem wp_unpop (Q : Unit → St → Prop) (s : St) :
    wp unpop Q s ↔ (0 < s.idx ∧ Q () { s with idx := s.idx - 1 }) := by
  simp only [wp, unpop]
  by_cases h : 0 < s.idx <;> simp [h]
theorem wp_ite {α} (c : Prop) [Decidable c] (a b : P α) (Q : α → St → Prop) (s : St) :
    wp (if c then a else b) Q s ↔ (if c then wp a Q s else wp b Q s) := by
  split <;> rfl
theorem wp_mono {α} {m : P α} {Q Q' : α → St → Prop} {s : St} (h : wp m Q s) (hq : ∀ a s', Q a s' → Q' a s') :
    wp m Q' s := by
  unfold wp at *
  cases hm : m s with
  | ok a s' => rw [hm] at h; exact hq a s' h
  | panic p => rw [hm] at h; exact h
  | outOfFuel => trivial

/-- `1` iff the last token is a symbol-like token (then `parse_symbol` at the end of the file does not
un-pop, for lexer-like tokens). -/
def lastSym (toks : Toks) : Nat :=
  match toks.getLast? with
  | some t => if isSymbolTok t.text then 1 else 0
  | none => 0

/-- Movement allowed to a parse function: forwards, or — only when started at the end of the file
and the last token is not symbol-like — back onto the last token. -/
def Mv (toks : Toks) (i j : Nat) : Prop :=
  j ≤ toks.length ∧ (i ≤ j ∨ (i = toks.length ∧ j + 1 = toks.length ∧ lastSym toks = 0))

/-- What the real lexer guarantees and the parser relies on: a float-looking token is a whole float
(else `parse::<f64>().unwrap()` panics); a symbol-like token sits on one line. -/
structure LexLike (toks : Toks) : Prop where
  floats : ∀ t ∈ toks, isFloatTok t.text = true → floatWhole (t.text.toList.filter (· != '_')) = true
  symLines : ∀ t ∈ toks, isSymbolTok t.text = true → t.endLine = t.line

theorem mem_of_get {toks : Toks} {i : Nat} {t : Tok} (h : toks[i]? = some t) : t ∈ toks :=
  List.mem_of_getElem? h

theorem get_lt {toks : Toks} {i : Nat} {t : Tok} (h : toks[i]? = some t) : i < toks.length :=
  (List.getElem?_eq_some_iff.mp h).1

theorem get_none {toks : Toks} {i : Nat} (h : toks[i]? = none) : toks.length ≤ i :=
  List.getElem?_eq_none_iff.mp h

theorem lastSym_of_last {toks : Toks} {t : Tok} (h : toks[toks.length - 1]? = some t) (hs : isSymbolTok t.text = true) :
    lastSym toks = 1 := by
  have : toks.getLast? = some t := by rw [List.getLast?_eq_getElem?]; exact h
  simp [lastSym, this, hs]

theorem lastSym_zero {toks : Toks} {t : Tok} (h : toks[toks.length - 1]? = some t) (hs : isSymbolTok t.text = false) :
    lastSym toks = 0 := by
  have : toks.getLast? = some t := by rw [List.getLast?_eq_getElem?]; exact h
  simp [lastSym, this, hs]

/-- Does token `i` exist and have text `x`? -/
def tokIs (toks : Toks) (i : Nat) (x : String) : Bool :=
  match toks[i]? with | some t => t.text == x | none => false

section level0
variable (toks : Toks) (hne : toks ≠ [])
include hne

theorem len_pos : 0 < toks.length := List.length_pos_iff.mpr hne

/-- `require_a_token`: pops if there is a token; at the end of the file hands back the previous one. -/
theorem spec_requireAToken (s : St) (hs : s.idx ≤ toks.length) :
    wp (requireAToken toks) (fun t s' =>
      (∃ t0, toks[s.idx]? = some t0 ∧ t = ⟨t0, s.idx⟩ ∧ s'.idx = s.idx + 1) ∨
      (toks[s.idx]? = none ∧ s'.idx = s.idx ∧ 0 < s.idx ∧ t.i = s.idx - 1 ∧ toks[s.idx - 1]? = some t.tok)) s := by
  unfold requireAToken
  simp only [wp_bind, wp_pop]
  cases h : toks[s.idx]? with
  | some t0 => simp [wp_pure]
  | none =>
    have hl := get_none h
    have hp := len_pos toks hne
    have h0 : s.idx ≠ 0 := by omega
    have hlt : s.idx - 1 < toks.length := by omega
    have hpv : toks[s.idx - 1]? = some toks[s.idx - 1] := List.getElem?_eq_getElem hlt
    simp only [wp_prev, wp_bind, wp_diag, h0, ↓reduceIte, hpv, Option.map_some, wp_pure]
    simp; omega

/-- `check_required_token`. -/
theorem spec_checkRequiredToken (x : String) (s : St) (hs : s.idx ≤ toks.length) :
    wp (checkRequiredToken toks x) (fun r s' =>
      r.1 = tokIs toks s.idx x ∧ s'.idx ≤ toks.length ∧
      ((tokIs toks s.idx x = true ∧ s'.idx = s.idx + 1) ∨ (tokIs toks s.idx x = false ∧ s'.idx = s.idx))) s := by
  unfold checkRequiredToken
  simp only [wp_bind, wp_prev, wp_pop, tokIs]
  cases h : toks[s.idx]? with
  | some t0 =>
    have := get_lt h
    by_cases hx : t0.text = x
    · simp [TokI.text, hx, wp_pure]; omega
    · simp [TokI.text, hx, wp_pure, wp_bind, wp_diag, wp_unpop]; omega
  | none =>
    have hl := get_none h
    have hp := len_pos toks hne
    have h0 : s.idx ≠ 0 := by omega
    have hlt : s.idx - 1 < toks.length := by omega
    have hpv : toks[s.idx - 1]? = some toks[s.idx - 1] := List.getElem?_eq_getElem hlt
    simp [wp_bind, wp_diag, h0, hpv, wp_pure, hs]

theorem spec_requireToken (x : String) (s : St) (hs : s.idx ≤ toks.length) :
    wp (requireToken toks x) (fun _ s' => s'.idx ≤ toks.length ∧
      ((tokIs toks s.idx x = true ∧ s'.idx = s.idx + 1) ∨ (tokIs toks s.idx x = false ∧ s'.idx = s.idx))) s := by
  unfold requireToken
  rw [wp_bind]
  refine wp_mono (spec_checkRequiredToken toks hne x s hs) ?_
  intro r s' h
  simp only [wp_pure]
  exact h.2

theorem spec_requiredTokenOk (x : String) (s : St) (hs : s.idx ≤ toks.length) :
    wp (requiredTokenOk toks x) (fun _ s' => s'.idx ≤ toks.length ∧
      ((tokIs toks s.idx x = true ∧ s'.idx = s.idx + 1) ∨ (tokIs toks s.idx x = false ∧ s'.idx = s.idx))) s := by
  unfold requiredTokenOk
  rw [wp_bind]
  refine wp_mono (spec_checkRequiredToken toks hne x s hs) ?_
  intro r s' h
  simp only [wp_pure]
  exact h.2

/-- `parse_symbol` (code unchanged): never panics; away from the end of the file it moves 0 or 1
forwards and a non-placeholder name means it consumed the token; at the end of the file it may move
back onto the last token, only if that token is not symbol-like. -/
theorem spec_parseSymbol (hl : LexLike toks) (pn : Bool) (s : St) (hs : s.idx ≤ toks.length) :
    wp (parseSymbol toks pn) (fun r s' => Mv toks s.idx s'.idx ∧
      (s.idx < toks.length → s.idx ≤ s'.idx ∧ s'.idx ≤ s.idx + 1 ∧
        (isPlaceholderName r.name = false → s'.idx = s.idx + 1))) s := by
  unfold parseSymbol
  rw [wp_bind, wp_prev, wp_bind]
  refine wp_mono (spec_requireAToken toks hne s hs) ?_
  intro t s1 h1
  obtain ⟨i1, d1⟩ := s1
  simp only at h1
  rcases h1 with ⟨t0, ht0, rfl, hi⟩ | ⟨hnone, hi, hpos, hti, hprev⟩
  · -- a token was popped
    have hlt := get_lt ht0
    subst hi
    cases h1 : isSymbolTok t0.text with
    | false =>
      simp only [TokI.text, h1, Bool.not_false, ↓reduceIte, wp_bind, wp_diag, wp_unpop, wp_pure, Mv]
      simp [isPlaceholderName]; omega
    | true =>
      cases h2 : keywords.contains t0.text with
      | false =>
        simp only [TokI.text, h1, h2, Bool.not_true, Bool.false_eq_true, ↓reduceIte, wp_pure, Mv]
        simp; omega
      | true =>
        simp only [TokI.text, h1, h2, Bool.not_true, Bool.false_eq_true, ↓reduceIte]
        rw [wp_ite]
        split <;> simp [wp_bind, wp_diag, wp_unpop, wp_pure, Mv, isPlaceholderName]
        all_goals (first | omega | (split <;> omega))
  · -- end of the file: `t` is the previous token
    subst hi
    have hge := get_none hnone
    have hlen : s.idx = toks.length := by omega
    have hprev' : toks[toks.length - 1]? = some t.tok := by rw [← hlen]; exact hprev
    have h0 : s.idx ≠ 0 := by omega
    cases h1 : isSymbolTok t.tok.text with
    | false =>
      have hz := lastSym_zero hprev' h1
      simp only [TokI.text, h1, Bool.not_false, ↓reduceIte, wp_bind, wp_diag, wp_unpop, wp_pure, Mv]
      simp; omega
    | true =>
      cases h2 : keywords.contains t.tok.text with
      | false =>
        simp only [TokI.text, h1, h2, Bool.not_true, Bool.false_eq_true, ↓reduceIte, wp_pure, Mv]
        simp; omega
      | true =>
        have hline := hl.symLines t.tok (mem_of_get hprev) h1
        simp only [TokI.text, h1, h2, Bool.not_true, Bool.false_eq_true, ↓reduceIte, h0, hprev, Option.map_some,
          hline, beq_self_eq_true, wp_bind, wp_diag, wp_pure, Mv]
        simp; omega

theorem spec_dupDiags (xs seen : List String) (s : St) :
    wp (dupDiags xs seen) (fun _ s' => s'.idx = s.idx) s := by
  induction xs generalizing seen s with
  | nil => simp [dupDiags, wp_pure]
  | cons x xs ih =>
    unfold dupDiags
    split
    · exact ih seen s
    · split
      · rw [wp_bind, wp_diag]; exact ih seen _
      · exact ih _ s

theorem spec_diagN (n : Nat) (k : DiagKind) (s : St) : wp (diagN n k) (fun _ s' => s'.idx = s.idx) s := by
  induction n generalizing s with
  | zero => simp [diagN, wp_pure]
  | succ n ih => unfold diagN; rw [wp_bind, wp_diag]; exact ih _

theorem spec_closePos (term : String) (s : St) (hs : s.idx ≤ toks.length) :
    wp (closePos toks term) (fun _ s' => s.idx ≤ s'.idx ∧ s'.idx ≤ s.idx + 1 ∧ s'.idx ≤ toks.length) s := by
  unfold closePos
  rw [wp_bind, wp_peek]
  cases h : toks[s.idx]? with
  | none =>
    simp only [Option.map_none, wp_bind, wp_prev]
    split <;> simp [wp_pure, hs]
  | some t =>
    have := get_lt h
    simp only [Option.map_some]
    rw [wp_ite]
    split
    · simp [wp_bind, wp_pop, h, wp_pure]; omega
    · simp only [wp_bind, wp_prev]
      split <;> simp [wp_pure, hs]

theorem spec_skipToCloseBrace (s : St) (hs : s.idx ≤ toks.length) :
    wp (skipToCloseBrace toks) (fun _ s' => s.idx ≤ s'.idx ∧ s'.idx ≤ toks.length ∧
      (tokIs toks s.idx "}" = false → s.idx < toks.length → s.idx < s'.idx)) s := by
  simp only [wp, skipToCloseBrace]
  have h1 : ((toks.drop s.idx).takeWhile (fun t => t.text != "}")).length ≤ (toks.drop s.idx).length :=
    (List.takeWhile_sublist _).length_le
  have h2 : (toks.drop s.idx).length = toks.length - s.idx := by simp
  refine ⟨by omega, by omega, ?_⟩
  intro hne' hlt
  have hget : toks[s.idx]? = some toks[s.idx] := List.getElem?_eq_getElem hlt
  have hd : toks.drop s.idx = toks[s.idx] :: toks.drop (s.idx + 1) := by
    exact List.drop_eq_getElem_cons hlt
  simp only [tokIs, hget] at hne'
  have : (toks[s.idx].text != "}") = true := by simp [bne, hne']
  rw [hd, List.takeWhile_cons, if_pos this]
  simp

end level0


/-! ### Type hints, parameters, destructuring, patterns -/

macro "wpsimp" : tactic =>
  `(tactic| simp only [wp_bind, wp_pure, wp_outOfFuel, wp_panic, wp_getIdx, wp_diag, wp_peek, wp_peekAt, wp_peekIs,
      wp_pop, wp_prev, wp_unpop, wp_ite, wp_getDiags, wp_setDiags, Nat.add_zero, Option.map_some, Option.map_none,
      Option.isNone_some, Option.isNone_none, Bool.not_false, Bool.not_true, Bool.true_and, Bool.false_and,
      Bool.and_true, Bool.and_false, Bool.false_eq_true, ↓reduceIte])

theorem wp_peekIs' (toks : Toks) (x : String) (Q : Bool → St → Prop) (s : St) :
    wp (peekIs toks x) Q s ↔ Q (tokIs toks s.idx x) s := by
  rw [wp_peekIs]; rfl

macro "wpsimp'" : tactic =>
  `(tactic| simp only [wp_bind, wp_pure, wp_outOfFuel, wp_panic, wp_getIdx, wp_diag, wp_peek, wp_peekAt, wp_peekIs',
      wp_pop, wp_prev, wp_unpop, wp_ite, wp_getDiags, wp_setDiags, Nat.add_zero, Option.map_some, Option.map_none,
      Option.isNone_some, Option.isNone_none, Bool.not_false, Bool.not_true, Bool.true_and, Bool.false_and,
      Bool.and_true, Bool.and_false, Bool.false_eq_true, ↓reduceIte])

macro "tk" h:ident : tactic =>
  `(tactic| (try simp only [$h:ident, Bool.false_eq_true, ↓reduceIte, Option.map_some, Option.map_none]))

theorem Mv.refl {toks : Toks} {i : Nat} (h : i ≤ toks.length) : Mv toks i i := ⟨h, Or.inl (Nat.le_refl _)⟩

theorem Mv.trans {toks : Toks} {i j k : Nat} (h1 : Mv toks i j) (h2 : Mv toks j k) : Mv toks i k := by
  simp only [Mv] at *; omega

theorem Mv.step {toks : Toks} {i j : Nat} (h : i ≤ j) (hj : j ≤ toks.length) : Mv toks i j := ⟨hj, Or.inl h⟩

/-- Callee step: run a callee whose spec is `Mv`, continue from the new state. -/
theorem wp_callee {α β} {m : P α} {f : α → P β} {Q : β → St → Prop} {s : St} {R : α → St → Prop}
    (hm : wp m R s) (hf : ∀ a s', R a s' → wp (f a) Q s') : wp (m >>= f) Q s := by
  rw [wp_bind]; exact wp_mono hm hf

section level1
variable (toks : Toks) (hne : toks ≠ []) (hl : LexLike toks)
include hne hl

/-- The type-hint sub-grammar never panics; movement `Mv`. -/
theorem hints_ok : ∀ fuel,
    (∀ s, s.idx ≤ toks.length → wp (parseTypeHint toks false fuel) (fun _ s' => Mv toks s.idx s'.idx) s) ∧
    (∀ s, s.idx ≤ toks.length → wp (parseTypeArguments toks false fuel) (fun _ s' => Mv toks s.idx s'.idx) s) ∧
    (∀ acc s, s.idx ≤ toks.length → wp (typeArgsLoop toks false fuel acc) (fun _ s' => Mv toks s.idx s'.idx) s) ∧
    (∀ s, s.idx ≤ toks.length → wp (parseTupleTypeHint toks false fuel) (fun _ s' => Mv toks s.idx s'.idx) s) ∧
    (∀ acc s, s.idx ≤ toks.length → wp (tupleHintLoop toks false fuel acc) (fun _ s' => Mv toks s.idx s'.idx) s) := by
  intro fuel
  induction fuel with
  | zero =>
    refine ⟨?_, ?_, ?_, ?_, ?_⟩ <;> intros <;>
      first
        | (rw [parseTypeHint]; simp [wp_outOfFuel])
        | (rw [parseTypeArguments]; simp [wp_outOfFuel])
        | (rw [typeArgsLoop]; simp [wp_outOfFuel])
        | (rw [parseTupleTypeHint]; simp [wp_outOfFuel])
        | (rw [tupleHintLoop]; simp [wp_outOfFuel])
  | succ fuel ih =>
    obtain ⟨h1, h2, h3, h4, h5⟩ := ih
    refine ⟨?_, ?_, ?_, ?_, ?_⟩
    · -- parseTypeHint
      intro s hs
      rw [parseTypeHint]
      wpsimp
      have rest : wp (parseSymbol toks false) (fun a s' => wp (parseTypeArguments toks false fuel)
          (fun a_1 s'_1 => if (a.name == "Tuple") = true then Mv toks s.idx s'_1.idx else Mv toks s.idx s'_1.idx) s') s := by
        refine wp_mono (spec_parseSymbol toks hne hl false s hs) ?_
        intro sym s1 m1
        refine wp_mono (h2 s1 m1.1.1) ?_
        intro args s2 m2
        have m12 := Mv.trans m1.1 m2
        split <;> exact m12
      cases ht : toks[s.idx]? with
      | none => tk ht; exact rest
      | some t =>
        tk ht
        split
        · exact h4 s hs
        · exact rest
    · -- parseTypeArguments
      intro s hs
      rw [parseTypeArguments]
      wpsimp
      have rest : wp (requireToken toks "<") (fun a s' => wp (typeArgsLoop toks false fuel [])
          (fun a s'_1 => wp (requireToken toks ">") (fun a_1 s' => Mv toks s.idx s'.idx) s'_1) s') s := by
        refine wp_mono (spec_requireToken toks hne "<" s hs) ?_
        intro _ s1 m1
        have hm1 : Mv toks s.idx s1.idx := Mv.step (by omega) m1.1
        refine wp_mono (h3 [] s1 m1.1) ?_
        intro args s2 m2
        refine wp_mono (spec_requireToken toks hne ">" s2 m2.1) ?_
        intro _ s3 m3
        exact Mv.trans (Mv.trans hm1 m2) (Mv.step (by omega) m3.1)
      cases ht : toks[s.idx]? with
      | none => tk ht; exact Mv.refl hs
      | some t =>
        tk ht
        split
        · exact Mv.refl hs
        · exact rest
    · -- typeArgsLoop
      intro acc s hs
      rw [typeArgsLoop]
      wpsimp
      cases ht : toks[s.idx]? with
      | none => tk ht; wpsimp; exact Mv.refl hs
      | some t =>
        tk ht
        wpsimp
        split
        · exact Mv.refl hs
        · refine wp_mono (h1 s hs) ?_
          intro arg s1 m1
          cases ht1 : toks[s1.idx]? with
          | none => tk ht1; wpsimp; exact m1
          | some t1 =>
            have hlt := get_lt ht1
            tk ht1
            wpsimp
            split
            · tk ht1
              refine wp_mono (h3 _ ⟨s1.idx + 1, s1.diags⟩ (by first | omega | (simp only []; omega))) ?_
              intro _ s2 m2
              exact Mv.trans (Mv.trans m1 (Mv.step (Nat.le_succ _) (by first | omega | (simp only []; omega)))) m2
            · split <;> exact m1
    · -- parseTupleTypeHint
      intro s hs
      rw [parseTupleTypeHint]
      wpsimp
      refine wp_mono (spec_requireToken toks hne "(" s hs) ?_
      intro _ s1 m1
      have hm1 : Mv toks s.idx s1.idx := Mv.step (by omega) m1.1
      refine wp_mono (h5 [] s1 m1.1) ?_
      intro items s2 m2
      refine wp_mono (spec_requireToken toks hne ")" s2 m2.1) ?_
      intro _ s3 m3
      exact Mv.trans (Mv.trans hm1 m2) (Mv.step (by omega) m3.1)
    · -- tupleHintLoop
      intro acc s hs
      rw [tupleHintLoop]
      wpsimp
      have rest : wp (parseTypeHint toks false fuel) (fun a s' => wp
          (match Option.map (fun t => ({ tok := t, i := s'.idx } : TokI)) toks[s'.idx]? with
          | none => do
            diag DiagKind.incomplete
            pure (acc ++ [a])
          | some t =>
            if (t.tok.text == ")") = true then pure (acc ++ [a])
            else
              if (t.tok.text == ",") = true then do
                let _ ← pop toks
                let __do_lift ← getIdx
                if __do_lift > s.idx then tupleHintLoop toks false fuel (acc ++ [a]) else pure (acc ++ [a])
              else do
                diag DiagKind.incomplete
                let _ ← pop toks
                let __do_lift ← getIdx
                if __do_lift > s.idx then tupleHintLoop toks false fuel (acc ++ [a]) else pure (acc ++ [a]))
          (fun x s' => Mv toks s.idx s'.idx) s') s := by
        refine wp_mono (h1 s hs) ?_
        intro h s1 m1
        cases ht1 : toks[s1.idx]? with
        | none => tk ht1; wpsimp; exact m1
        | some t1 =>
          have hlt := get_lt ht1
          have hstep : Mv toks s.idx (s1.idx + 1) := Mv.trans m1 (Mv.step (Nat.le_succ _) (by omega))
          tk ht1
          wpsimp
          split
          · exact m1
          · split
            · tk ht1
              split
              · refine wp_mono (h5 _ ⟨s1.idx + 1, s1.diags⟩ (by first | omega | (simp only []; omega))) ?_
                intro _ s2 m2
                exact Mv.trans hstep m2
              · exact hstep
            · tk ht1
              split
              · refine wp_mono (h5 _ ⟨s1.idx + 1, _⟩ (by first | omega | (simp only []; omega))) ?_
                intro _ s2 m2
                exact Mv.trans hstep m2
              · exact hstep
      cases ht : toks[s.idx]? with
      | none => tk ht; exact rest
      | some t =>
        tk ht
        split
        · exact Mv.refl hs
        · exact rest

theorem hint_ok (fuel : Nat) (s : St) (hs : s.idx ≤ toks.length) :
    wp (parseTypeHint toks false fuel) (fun _ s' => Mv toks s.idx s'.idx) s :=
  (hints_ok toks hne hl fuel).1 s hs

theorem typeParamsLoop_ok : ∀ fuel acc s, s.idx ≤ toks.length →
    wp (typeParamsLoop toks false fuel acc) (fun _ s' => Mv toks s.idx s'.idx) s := by
  intro fuel
  induction fuel with
  | zero => intro acc s hs; rw [typeParamsLoop]; simp [wp_outOfFuel]
  | succ fuel ih =>
    intro acc s hs
    rw [typeParamsLoop]
    wpsimp
    have rest : wp (parseSymbol toks false) (fun a s' => wp
        (match Option.map (fun t => ({ tok := t, i := s'.idx } : TokI)) toks[s'.idx]? with
        | some t =>
          if (t.text == ",") = true then do
            let _ ← pop toks
            let __do_lift ← getIdx
            if (!false && decide (__do_lift ≤ s.idx)) = true then pure (acc ++ [a.name])
            else typeParamsLoop toks false fuel (acc ++ [a.name])
          else if (t.text == ">") = true then pure (acc ++ [a.name]) else do
            diag DiagKind.invalid
            pure (acc ++ [a.name])
        | none => do
          diag DiagKind.incomplete
          pure (acc ++ [a.name]))
        (fun x s' => Mv toks s.idx s'.idx) s') s := by
      refine wp_mono (spec_parseSymbol toks hne hl false s hs) ?_
      intro sym s1 m1
      cases ht1 : toks[s1.idx]? with
      | none => tk ht1; wpsimp; exact m1.1
      | some t1 =>
        have hlt := get_lt ht1
        have hstep : Mv toks s.idx (s1.idx + 1) := Mv.trans m1.1 (Mv.step (Nat.le_succ _) (by omega))
        tk ht1
        split
        · wpsimp
          tk ht1
          split
          · exact hstep
          · refine wp_mono (ih _ ⟨s1.idx + 1, s1.diags⟩ (by first | omega | (simp only []; omega))) ?_
            intro _ s2 m2
            exact Mv.trans hstep m2
        · split <;> wpsimp <;> exact m1.1
    cases ht : toks[s.idx]? with
    | none => tk ht; exact rest
    | some t =>
      tk ht
      split
      · exact Mv.refl hs
      · exact rest

theorem parseTypeParams_ok (fuel : Nat) (s : St) (hs : s.idx ≤ toks.length) :
    wp (parseTypeParams toks false fuel) (fun _ s' => Mv toks s.idx s'.idx) s := by
  unfold parseTypeParams
  wpsimp
  have rest : wp (requireToken toks "<") (fun a s' => wp (typeParamsLoop toks false fuel [])
      (fun a s'_1 => wp (requireToken toks ">") (fun a_1 s' => Mv toks s.idx s'.idx) s'_1) s') s := by
    refine wp_mono (spec_requireToken toks hne "<" s hs) ?_
    intro _ s1 m1
    have hm1 : Mv toks s.idx s1.idx := Mv.step (by omega) m1.1
    refine wp_mono (typeParamsLoop_ok toks hne hl fuel [] s1 m1.1) ?_
    intro args s2 m2
    refine wp_mono (spec_requireToken toks hne ">" s2 m2.1) ?_
    intro _ s3 m3
    exact Mv.trans (Mv.trans hm1 m2) (Mv.step (by omega) m3.1)
  cases ht : toks[s.idx]? with
  | none => tk ht; exact Mv.refl hs
  | some t =>
    tk ht
    split
    · exact Mv.refl hs
    · exact rest

theorem parseColonAnd_ok (fuel : Nat) (s : St) (hs : s.idx ≤ toks.length) :
    wp (parseColonAnd toks false fuel) (fun _ s' => Mv toks s.idx s'.idx) s := by
  unfold parseColonAnd
  wpsimp
  refine wp_mono (spec_requireToken toks hne ":" s hs) ?_
  intro _ s1 m1
  have hm1 : Mv toks s.idx s1.idx := Mv.step (by omega) m1.1
  refine wp_mono (hint_ok toks hne hl fuel s1 m1.1) ?_
  intro _ s2 m2
  exact Mv.trans hm1 m2

theorem parseColonAndHintOpt_ok (fuel : Nat) (s : St) (hs : s.idx ≤ toks.length) :
    wp (parseColonAndHintOpt toks false fuel) (fun _ s' => Mv toks s.idx s'.idx) s := by
  unfold parseColonAndHintOpt
  wpsimp
  cases ht : toks[s.idx]? with
  | none => tk ht; wpsimp; exact Mv.refl hs
  | some t =>
    tk ht
    split
    · wpsimp
      refine wp_mono (parseColonAnd_ok toks hne hl fuel s hs) ?_
      intro _ s1 m1; exact m1
    · split
      · wpsimp
        refine wp_mono (hint_ok toks hne hl fuel _ hs) ?_
        intro _ s1 m1; exact m1
      · wpsimp; exact Mv.refl hs

theorem parseParameter_ok (fuel : Nat) (s : St) (hs : s.idx ≤ toks.length) :
    wp (parseParameter toks false fuel) (fun _ s' => Mv toks s.idx s'.idx) s := by
  unfold parseParameter
  wpsimp
  refine wp_mono (spec_parseSymbol toks hne hl false s hs) ?_
  intro _ s1 m1
  refine wp_mono (parseColonAndHintOpt_ok toks hne hl fuel s1 m1.1.1) ?_
  intro _ s2 m2
  exact Mv.trans m1.1 m2

theorem paramsLoop_ok : ∀ fuel acc s, s.idx ≤ toks.length →
    wp (paramsLoop toks false fuel acc) (fun _ s' => Mv toks s.idx s'.idx) s := by
  intro fuel
  induction fuel with
  | zero => intro acc s hs; rw [paramsLoop]; simp [wp_outOfFuel]
  | succ fuel ih =>
    intro acc s hs
    rw [paramsLoop]
    wpsimp
    have rest : wp (parseParameter toks false fuel) (fun a s' => wp
        (match Option.map (fun t => ({ tok := t, i := s'.idx } : TokI)) toks[s'.idx]? with
        | some t =>
          if (t.text == ",") = true then do
            let _ ← pop toks
            let __do_lift ← getIdx
            if __do_lift > s.idx then paramsLoop toks false fuel (acc ++ [a])
            else if false = true then Parse.panic "parser.rs:2183" else pure (acc ++ [a])
          else if (t.text == ")") = true then pure (acc ++ [a]) else do
            diag DiagKind.invalid
            pure (acc ++ [a])
        | none => do
          diag DiagKind.incomplete
          pure (acc ++ [a]))
        (fun x s' => Mv toks s.idx s'.idx) s') s := by
      refine wp_mono (parseParameter_ok toks hne hl fuel s hs) ?_
      intro p s1 m1
      cases ht1 : toks[s1.idx]? with
      | none => tk ht1; wpsimp; exact m1
      | some t1 =>
        have hlt := get_lt ht1
        have hstep : Mv toks s.idx (s1.idx + 1) := Mv.trans m1 (Mv.step (Nat.le_succ _) (by omega))
        tk ht1
        split
        · wpsimp
          tk ht1
          split
          · refine wp_mono (ih _ ⟨s1.idx + 1, s1.diags⟩ (by first | omega | (simp only []; omega))) ?_
            intro _ s2 m2
            exact Mv.trans hstep m2
          · exact hstep
        · split <;> wpsimp <;> exact m1
    cases ht : toks[s.idx]? with
    | none => tk ht; exact rest
    | some t =>
      tk ht
      split
      · exact Mv.refl hs
      · exact rest

theorem parseParameters_ok (fuel : Nat) (s : St) (hs : s.idx ≤ toks.length) :
    wp (parseParameters toks false fuel) (fun _ s' => Mv toks s.idx s'.idx) s := by
  unfold parseParameters
  wpsimp
  refine wp_mono (spec_checkRequiredToken toks hne "(" s hs) ?_
  intro r s1 m1
  have hm1 : Mv toks s.idx s1.idx := Mv.step (by omega) m1.2.1
  obtain ⟨ok, t⟩ := r
  cases ok with
  | false => simp only; wpsimp; exact hm1
  | true =>
    simp only
    wpsimp
    refine wp_mono (paramsLoop_ok toks hne hl fuel [] s1 m1.2.1) ?_
    intro ps s2 m2
    refine wp_mono (spec_requireToken toks hne ")" s2 m2.1) ?_
    intro _ s3 m3
    refine wp_mono (spec_dupDiags toks hne _ _ s3) ?_
    intro _ s4 m4
    simp only [m4]
    exact Mv.trans (Mv.trans hm1 m2) (Mv.step (by omega) m3.1)

theorem destLoop_ok : ∀ fuel acc s, s.idx ≤ toks.length →
    wp (destLoop toks false fuel acc) (fun _ s' => Mv toks s.idx s'.idx) s := by
  intro fuel
  induction fuel with
  | zero => intro acc s hs; rw [destLoop]; simp [wp_outOfFuel]
  | succ fuel ih =>
    intro acc s hs
    rw [destLoop]
    wpsimp'
    split
    · split
      · rename_i t ht
        have hlt := get_lt ht
        exact Mv.step (Nat.le_succ _) (by first | omega | (simp only []; omega))
      · exact Mv.refl hs
    · refine wp_mono (spec_parseSymbol toks hne hl false s hs) ?_
      intro sym s1 m1
      split
      · exact m1.1
      · split
        · refine wp_mono (spec_requireToken toks hne "," s1 m1.1.1) ?_
          intro _ s2 m2
          have hm2 : Mv toks s.idx s2.idx := Mv.trans m1.1 (Mv.step (by omega) m2.1)
          split
          · refine wp_mono (ih _ s2 m2.1) ?_
            intro _ s3 m3; exact Mv.trans hm2 m3
          · exact hm2
        · split
          · refine wp_mono (ih _ s1 m1.1.1) ?_
            intro _ s2 m2; exact Mv.trans m1.1 m2
          · exact m1.1

theorem parseLetDestination_ok (fuel : Nat) (s : St) (hs : s.idx ≤ toks.length) :
    wp (parseLetDestination toks false fuel) (fun _ s' => Mv toks s.idx s'.idx) s := by
  unfold parseLetDestination
  wpsimp'
  split
  · split
    · rename_i t ht
      have hlt := get_lt ht
      refine wp_mono (destLoop_ok toks hne hl fuel [] ⟨s.idx + 1, s.diags⟩ (by first | omega | (simp only []; omega))) ?_
      intro syms s2 m2
      refine wp_mono (spec_dupDiags toks hne _ _ s2) ?_
      intro _ s3 m3
      simp only [m3]
      exact Mv.trans (Mv.step (Nat.le_succ _) (by first | omega | (simp only []; omega))) m2
    · refine wp_mono (destLoop_ok toks hne hl fuel [] s hs) ?_
      intro syms s2 m2
      refine wp_mono (spec_dupDiags toks hne _ _ s2) ?_
      intro _ s3 m3
      simp only [m3]
      exact m2
  · refine wp_mono (spec_parseSymbol toks hne hl false s hs) ?_
    intro _ s1 m1; exact m1.1

theorem parsePattern_ok (fuel : Nat) (s : St) (hs : s.idx ≤ toks.length) :
    wp (parsePattern toks false fuel) (fun _ s' => Mv toks s.idx s'.idx) s := by
  unfold parsePattern
  wpsimp'
  refine wp_mono (spec_parseSymbol toks hne hl false s hs) ?_
  intro v s1 m1
  split
  · refine wp_mono (spec_requireToken toks hne "(" s1 m1.1.1) ?_
    intro _ s2 m2
    have hm2 : Mv toks s.idx s2.idx := Mv.trans m1.1 (Mv.step (by omega) m2.1)
    refine wp_mono (parseLetDestination_ok toks hne hl fuel s2 m2.1) ?_
    intro _ s3 m3
    refine wp_mono (spec_requireToken toks hne ")" s3 m3.1) ?_
    intro _ s4 m4
    exact Mv.trans (Mv.trans hm2 m3) (Mv.step (by omega) m4.1)
  · exact m1.1

end level1

/-! ### The expression block -/

set_option linter.unusedSectionVars false
set_option linter.unusedSimpArgs false

/-- forward, in range -/
def Fw (toks : Toks) (s s' : St) : Prop := s.idx ≤ s'.idx ∧ s'.idx ≤ toks.length
/-- forward, and strictly forward -/
def Sf (toks : Toks) (s s' : St) : Prop := s.idx < s'.idx ∧ s'.idx ≤ toks.length
/-- expression result: forward; a result that is not Invalid / a placeholder consumed something -/
def Ex (toks : Toks) (s : St) (r : PExpr) (s' : St) : Prop :=
  s.idx ≤ s'.idx ∧ s'.idx ≤ toks.length ∧ (r.e.isInvalidOrPlaceholder = false → s.idx < s'.idx)

/-- The specifications of the 28 functions of the expression block at one fuel level. -/
structure Specs (toks : Toks) (fuel : Nat) : Prop where
  exprT : ∀ b s, s.idx ≤ toks.length → wp (parseExpressionT toks false b fuel) (fun r s' => Ex toks s r s') s
  trail : ∀ b e s, s.idx ≤ toks.length →
    wp (trailing toks false b fuel e) (fun r s' => Fw toks s s' ∧ (r = e ∨ s.idx < s'.idx)) s
  callArgs : ∀ s, s.idx ≤ toks.length → wp (parseCallArguments toks false fuel)
    (fun _ s' => Fw toks s s' ∧ (tokIs toks s.idx "(" = true → s.idx < s'.idx)) s
  comma : ∀ ol term acc s, s.idx ≤ toks.length → wp (commaSep toks false fuel ol term acc) (fun _ s' => Fw toks s s') s
  noTrail : ∀ s, s.idx ≤ toks.length → wp (parseNoTrailing toks false fuel) (fun r s' => Ex toks s r s') s
  simple : ∀ s, s.idx ≤ toks.length → wp (parseSimple toks false fuel) (fun r s' => Ex toks s r s') s
  tupleParen : ∀ s, s.idx ≤ toks.length → wp (parseTupleOrParen toks false fuel)
    (fun _ s' => Fw toks s s' ∧ (tokIs toks s.idx "(" = true → s.idx < s'.idx)) s
  tupleL : ∀ acc s, s.idx ≤ toks.length → wp (tupleLoop toks false fuel acc) (fun _ s' => Fw toks s s') s
  listLit : ∀ s, s.idx ≤ toks.length → wp (parseListLiteral toks false fuel)
    (fun _ s' => Fw toks s s' ∧ (tokIs toks s.idx "[" = true → s.idx < s'.idx)) s
  dictLit : ∀ s, s.idx ≤ toks.length → wp (parseDictLiteral toks false fuel)
    (fun _ s' => Fw toks s s' ∧ (tokIs toks s.idx "Dict" = true → s.idx < s'.idx)) s
  dictL : ∀ acc s, s.idx ≤ toks.length → wp (dictLoop toks false fuel acc) (fun _ s' => Fw toks s s') s
  lambda : ∀ s, s.idx ≤ toks.length → tokIs toks s.idx "fun" = true →
    wp (parseLambda toks false fuel) (fun _ s' => Sf toks s s') s
  assertE : ∀ s, s.idx ≤ toks.length → tokIs toks s.idx "assert" = true →
    wp (parseAssert toks false fuel) (fun _ s' => Sf toks s s') s
  ifE : ∀ s, s.idx ≤ toks.length → tokIs toks s.idx "if" = true →
    wp (parseIf toks false fuel) (fun _ s' => Sf toks s s') s
  whileE : ∀ s, s.idx ≤ toks.length → tokIs toks s.idx "while" = true →
    wp (parseWhile toks false fuel) (fun _ s' => Sf toks s s') s
  tryE : ∀ s, s.idx ≤ toks.length → tokIs toks s.idx "try" = true →
    wp (parseTry toks false fuel) (fun _ s' => Sf toks s s') s
  forE : ∀ s, s.idx ≤ toks.length → tokIs toks s.idx "for" = true →
    wp (parseForIn toks false fuel) (fun _ s' => Sf toks s s') s
  retE : ∀ s, s.idx ≤ toks.length → tokIs toks s.idx "return" = true →
    wp (parseReturn toks false fuel) (fun _ s' => Sf toks s s') s
  structLit : ∀ s, s.idx + 2 ≤ toks.length →
    wp (parseStructLiteral toks false fuel) (fun r s' => Ex toks s r s') s
  fieldsL : ∀ acc s, s.idx ≤ toks.length → wp (fieldsLoop toks false fuel acc)
    (fun _ s' => Mv toks s.idx s'.idx ∧ (s.idx + 2 ≤ toks.length → tokIs toks s.idx "}" = false → s.idx < s'.idx)) s
  matchE : ∀ s, s.idx ≤ toks.length → tokIs toks s.idx "match" = true →
    wp (parseMatch toks false fuel) (fun _ s' => Sf toks s s') s
  matchL : ∀ acc s, s.idx ≤ toks.length → wp (matchLoop toks false fuel acc) (fun _ s' => Mv toks s.idx s'.idx) s
  caseBlock : ∀ s, s.idx ≤ toks.length → wp (parseCaseBlock toks false fuel) (fun _ s' => Fw toks s s') s
  block : ∀ s, s.idx ≤ toks.length → wp (parseBlock toks false fuel) (fun _ s' => Fw toks s s') s
  blockL : ∀ acc s, s.idx ≤ toks.length → wp (blockLoop toks false fuel acc) (fun _ s' => Fw toks s s') s
  letE : ∀ s, s.idx ≤ toks.length → tokIs toks s.idx "let" = true →
    wp (parseLet toks false fuel) (fun _ s' => Sf toks s s') s
  assign : ∀ s, s.idx < toks.length → wp (parseAssign toks false fuel) (fun r s' => Ex toks s r s') s
  update : ∀ s, s.idx + 2 ≤ toks.length → wp (parseAssignUpdate toks false fuel) (fun _ s' => Sf toks s s') s

theorem specs_zero (toks : Toks) : Specs toks 0 := by
  constructor <;> intros <;>
    first
      | (rw [parseExpressionT]; simp [wp_outOfFuel]) | (rw [trailing]; simp [wp_outOfFuel])
      | (rw [parseCallArguments]; simp [wp_outOfFuel]) | (rw [commaSep]; simp [wp_outOfFuel])
      | (rw [parseNoTrailing]; simp [wp_outOfFuel]) | (rw [parseSimple]; simp [wp_outOfFuel])
      | (rw [parseTupleOrParen]; simp [wp_outOfFuel]) | (rw [tupleLoop]; simp [wp_outOfFuel])
      | (rw [parseListLiteral]; simp [wp_outOfFuel]) | (rw [parseDictLiteral]; simp [wp_outOfFuel])
      | (rw [dictLoop]; simp [wp_outOfFuel]) | (rw [parseLambda]; simp [wp_outOfFuel])
      | (rw [parseAssert]; simp [wp_outOfFuel]) | (rw [parseIf]; simp [wp_outOfFuel])
      | (rw [parseWhile]; simp [wp_outOfFuel]) | (rw [parseTry]; simp [wp_outOfFuel])
      | (rw [parseForIn]; simp [wp_outOfFuel]) | (rw [parseReturn]; simp [wp_outOfFuel])
      | (rw [parseStructLiteral]; simp [wp_outOfFuel]) | (rw [fieldsLoop]; simp [wp_outOfFuel])
      | (rw [parseMatch]; simp [wp_outOfFuel]) | (rw [matchLoop]; simp [wp_outOfFuel])
      | (rw [parseCaseBlock]; simp [wp_outOfFuel]) | (rw [parseBlock]; simp [wp_outOfFuel])
      | (rw [blockLoop]; simp [wp_outOfFuel]) | (rw [parseLet]; simp [wp_outOfFuel])
      | (rw [parseAssign]; simp [wp_outOfFuel]) | (rw [parseAssignUpdate]; simp [wp_outOfFuel])

theorem rt_le {b : Bool} {i j : Nat} (h : (b = true ∧ j = i + 1) ∨ (b = false ∧ j = i)) : i ≤ j ∧ j ≤ i + 1 := by
  rcases h with ⟨_, h⟩ | ⟨_, h⟩ <;> omega

theorem rt_eq {b : Bool} {i j : Nat} (h : (b = true ∧ j = i + 1) ∨ (b = false ∧ j = i)) (hb : b = true) : j = i + 1 := by
  rcases h with ⟨_, h⟩ | ⟨hf, _⟩
  · exact h
  · rw [hb] at hf; cases hf

theorem tokIs_get {toks : Toks} {i : Nat} {x : String} (h : tokIs toks i x = true) :
    ∃ t, toks[i]? = some t ∧ t.text = x := by
  unfold tokIs at h
  cases ht : toks[i]? with
  | none => simp [ht] at h
  | some t => exact ⟨t, rfl, by simpa [ht] using h⟩

/-- After popping a symbol-like token at `i`, whatever follows (movement `Mv` from `i+1`) ends beyond `i`:
the only backward move is onto a LAST token that is not symbol-like. -/
theorem kw_strict {toks : Toks} {i j : Nat} {kw : String} (hk : tokIs toks i kw = true) (hsym : isSymbolTok kw = true)
    (hm : Mv toks (i + 1) j) : i < j := by
  obtain ⟨t, ht, hx⟩ := tokIs_get hk
  rcases hm.2 with h | ⟨h1, h2, h3⟩
  · omega
  · have hlast : toks[toks.length - 1]? = some t := by
      have : toks.length - 1 = i := by omega
      rw [this]; exact ht
    have := lastSym_of_last hlast (by rw [hx]; exact hsym)
    omega

theorem ite_intro {c : Prop} [Decidable c] {a b : Prop} (ha : c → a) (hb : ¬c → b) : if c then a else b := by
  split
  · exact ha (by assumption)
  · exact hb (by assumption)

macro "ifomega" : tactic =>
  `(tactic| first | rw [if_pos (by omega)] | rw [if_neg (by omega)])

section level2
variable (toks : Toks) (hne : toks ≠ []) (hl : LexLike toks) (fuel : Nat) (ih : Specs toks fuel)
include hne hl ih

theorem step_blockL : ∀ acc s, s.idx ≤ toks.length →
    wp (blockLoop toks false (fuel + 1) acc) (fun _ s' => Fw toks s s') s := by
  intro acc s hs
  rw [blockLoop]
  wpsimp'
  cases ht : toks[s.idx]? with
  | none => tk ht; wpsimp'; exact ⟨Nat.le_refl _, hs⟩
  | some t =>
    tk ht
    split
    · wpsimp'; exact ⟨Nat.le_refl _, hs⟩
    · wpsimp'
      refine wp_mono (ih.exprT true s hs) ?_
      intro e s1 m1
      split
      · exact ⟨m1.1, m1.2.1⟩
      · rename_i hinv
        have hlt := m1.2.2 (by simpa using hinv)
        split
        · refine wp_mono (ih.blockL _ s1 m1.2.1) ?_
          intro _ s2 m2
          exact ⟨Nat.le_trans m1.1 m2.1, m2.2⟩
        · omega

theorem step_block : ∀ s, s.idx ≤ toks.length →
    wp (parseBlock toks false (fuel + 1)) (fun _ s' => Fw toks s s') s := by
  intro s hs
  rw [parseBlock]
  wpsimp'
  refine wp_mono (spec_requireToken toks hne "{" s hs) ?_
  intro o s1 m1
  split
  · exact ⟨by omega, m1.1⟩
  · refine wp_mono (ih.blockL [] s1 m1.1) ?_
    intro es s2 m2
    refine wp_mono (spec_requireToken toks hne "}" s2 m2.2) ?_
    intro _ s3 m3
    exact ⟨by have := m2.1; omega, m3.1⟩

theorem step_comma : ∀ ol term acc s, s.idx ≤ toks.length →
    wp (commaSep toks false (fuel + 1) ol term acc) (fun _ s' => Fw toks s s') s := by
  intro ol term acc s hs
  rw [commaSep]
  wpsimp'
  split
  · exact ⟨Nat.le_refl _, hs⟩
  · refine wp_mono (ih.exprT true s hs) ?_
    intro e s1 m1
    split
    · exact ⟨m1.1, m1.2.1⟩
    · rename_i hinv
      have hlt := m1.2.2 (by simpa using hinv)
      simp only [gt_iff_lt, hlt, decide_true, Bool.not_true, Bool.false_eq_true, ↓reduceIte]
      · have fin : ∀ s2 : St, s1.idx ≤ s2.idx → s2.idx ≤ toks.length →
            wp (commaSep toks false fuel ol term (acc ++ [e.e])) (fun x s' => Fw toks s s') s2 := by
          intro s2 h12 h2
          refine wp_mono (ih.comma ol term _ s2 h2) ?_
          intro _ s3 m3
          exact ⟨by have := m3.1; omega, m3.2⟩
        cases ht1 : toks[s1.idx]? with
        | none => tk ht1; wpsimp'; exact ⟨m1.1, m1.2.1⟩
        | some t1 =>
          have hl1 := get_lt ht1
          tk ht1
          split
          · wpsimp'
            tk ht1
            exact fin ⟨s1.idx + 1, s1.diags⟩ (Nat.le_succ _) (by first | omega | (simp only []; omega))
          · split
            · wpsimp'
              split
              · exact fin _ (Nat.le_refl _) m1.2.1
              · split
                · exact fin _ (Nat.le_refl _) m1.2.1
                · exact ⟨m1.1, m1.2.1⟩
            · wpsimp'; exact ⟨m1.1, m1.2.1⟩

theorem step_callArgs : ∀ s, s.idx ≤ toks.length → wp (parseCallArguments toks false (fuel + 1))
    (fun _ s' => Fw toks s s' ∧ (tokIs toks s.idx "(" = true → s.idx < s'.idx)) s := by
  intro s hs
  rw [parseCallArguments]
  wpsimp'
  refine wp_mono (spec_requireToken toks hne "(" s hs) ?_
  intro o s1 m1
  refine wp_mono (ih.comma _ _ _ s1 m1.1) ?_
  intro args s2 m2
  refine wp_mono (spec_closePos toks hne ")" s2 m2.2) ?_
  intro c s3 m3
  refine ⟨⟨by have := m2.1; omega, m3.2.2⟩, ?_⟩
  intro hp
  have := m2.1
  rcases m1.2 with ⟨_, h⟩ | ⟨h, _⟩
  · omega
  · rw [hp] at h; cases h

theorem step_tupleL : ∀ acc s, s.idx ≤ toks.length →
    wp (tupleLoop toks false (fuel + 1) acc) (fun _ s' => Fw toks s s') s := by
  intro acc s hs
  rw [tupleLoop]
  wpsimp'
  split
  · exact ⟨Nat.le_refl _, hs⟩
  · have body : ∀ s0 : St, s.idx ≤ s0.idx → s0.idx ≤ toks.length →
        if tokIs toks s0.idx ")" = true then Fw toks s s0 else
          wp (parseExpressionT toks false true fuel) (fun a s' =>
            if a.e.isInvalidOrPlaceholder = true then Fw toks s s'
            else if s'.idx > s0.idx then wp (tupleLoop toks false fuel (acc ++ [a.e])) (fun x s' => Fw toks s s') s'
              else False) s0 := by
      intro s0 h0 h0l
      split
      · exact ⟨h0, h0l⟩
      · refine wp_mono (ih.exprT true s0 h0l) ?_
        intro e s1 m1
        split
        · exact ⟨by have := m1.1; omega, m1.2.1⟩
        · rename_i hinv
          have hlt := m1.2.2 (by simpa using hinv)
          ifomega
          refine wp_mono (ih.tupleL _ s1 m1.2.1) ?_
          intro _ s2 m2
          exact ⟨by have := m2.1; omega, m2.2⟩
    split
    · split
      · rename_i t ht
        have hl1 := get_lt ht
        exact body ⟨s.idx + 1, s.diags⟩ (Nat.le_succ _) (by first | omega | (simp only []; omega))
      · exact body s (Nat.le_refl _) hs
    · exact body s (Nat.le_refl _) hs

theorem step_tupleParen : ∀ s, s.idx ≤ toks.length → wp (parseTupleOrParen toks false (fuel + 1))
    (fun _ s' => Fw toks s s' ∧ (tokIs toks s.idx "(" = true → s.idx < s'.idx)) s := by
  intro s hs
  rw [parseTupleOrParen]
  wpsimp'
  refine wp_mono (spec_requireToken toks hne "(" s hs) ?_
  intro o s1 m1
  have b1 := rt_le m1.2
  have fin : ∀ s2 : St, s1.idx ≤ s2.idx → s2.idx ≤ toks.length →
      wp (requireToken toks ")") (fun a s' => Fw toks s s' ∧ (tokIs toks s.idx "(" = true → s.idx < s'.idx)) s2 := by
    intro s2 h12 h2
    refine wp_mono (spec_requireToken toks hne ")" s2 h2) ?_
    intro _ s3 m3
    have b3 := rt_le m3.2
    refine ⟨⟨by omega, m3.1⟩, fun hp => ?_⟩
    have := rt_eq m1.2 hp
    omega
  split
  · exact fin s1 (Nat.le_refl _) m1.1
  · refine wp_mono (ih.exprT true s1 m1.1) ?_
    intro e s2 m2
    split
    · refine wp_mono (ih.tupleL _ s2 m2.2.1) ?_
      intro es s3 m3
      exact fin s3 (by have := m2.1; have := m3.1; omega) m3.2
    · exact fin s2 m2.1 m2.2.1

theorem step_listLit : ∀ s, s.idx ≤ toks.length → wp (parseListLiteral toks false (fuel + 1))
    (fun _ s' => Fw toks s s' ∧ (tokIs toks s.idx "[" = true → s.idx < s'.idx)) s := by
  intro s hs
  rw [parseListLiteral]
  wpsimp'
  refine wp_mono (spec_requireToken toks hne "[" s hs) ?_
  intro o s1 m1
  have b1 := rt_le m1.2
  refine wp_mono (ih.comma _ _ _ s1 m1.1) ?_
  intro items s2 m2
  refine wp_mono (spec_closePos toks hne "]" s2 m2.2) ?_
  intro c s3 m3
  have := m2.1
  refine ⟨⟨by omega, m3.2.2⟩, fun hp => ?_⟩
  have := rt_eq m1.2 hp
  omega

theorem step_dictL : ∀ acc s, s.idx ≤ toks.length →
    wp (dictLoop toks false (fuel + 1) acc) (fun _ s' => Fw toks s s') s := by
  intro acc s hs
  rw [dictLoop]
  wpsimp'
  split
  · exact ⟨Nat.le_refl _, hs⟩
  · refine wp_mono (ih.exprT true s hs) ?_
    intro k s1 m1
    split
    · exact ⟨m1.1, m1.2.1⟩
    · rename_i hinv
      have hlt := m1.2.2 (by simpa using hinv)
      refine wp_mono (spec_requireToken toks hne "=>" s1 m1.2.1) ?_
      intro _ s2 m2
      have b2 := rt_le m2.2
      refine wp_mono (ih.exprT true s2 m2.1) ?_
      intro v s3 m3
      have h3 : s.idx < s3.idx := by have := m3.1; omega
      simp only [gt_iff_lt, h3, decide_true, Bool.not_true, Bool.false_eq_true, ↓reduceIte]
      have fin : ∀ s4 : St, s3.idx ≤ s4.idx → s4.idx ≤ toks.length →
          wp (dictLoop toks false fuel (acc ++ [KV.mk k.e v.e])) (fun x s' => Fw toks s s') s4 := by
        intro s4 h34 h4
        refine wp_mono (ih.dictL _ s4 h4) ?_
        intro _ s5 m5
        exact ⟨by have := m5.1; omega, m5.2⟩
      cases ht3 : toks[s3.idx]? with
      | none => tk ht3; wpsimp'; exact ⟨by simp only []; omega, by simp only []; exact m3.2.1⟩
      | some t3 =>
        have hl3 := get_lt ht3
        tk ht3
        split
        · wpsimp'
          tk ht3
          exact fin ⟨s3.idx + 1, s3.diags⟩ (Nat.le_succ _) (by first | omega | (simp only []; omega))
        · split
          · wpsimp'
            exact fin _ (Nat.le_refl _) m3.2.1
          · wpsimp'; exact ⟨by omega, m3.2.1⟩

theorem step_dictLit : ∀ s, s.idx ≤ toks.length → wp (parseDictLiteral toks false (fuel + 1))
    (fun _ s' => Fw toks s s' ∧ (tokIs toks s.idx "Dict" = true → s.idx < s'.idx)) s := by
  intro s hs
  rw [parseDictLiteral]
  wpsimp'
  refine wp_mono (spec_requireToken toks hne "Dict" s hs) ?_
  intro o s1 m1
  have b1 := rt_le m1.2
  refine wp_mono (spec_requireToken toks hne "[" s1 m1.1) ?_
  intro _ s2 m2
  have b2 := rt_le m2.2
  refine wp_mono (ih.dictL _ s2 m2.1) ?_
  intro items s3 m3
  refine wp_mono (spec_requireToken toks hne "]" s3 m3.2) ?_
  intro c s4 m4
  have b4 := rt_le m4.2
  have := m3.1
  refine ⟨⟨by omega, m4.1⟩, fun hp => ?_⟩
  have := rt_eq m1.2 hp
  omega

theorem step_caseBlock : ∀ s, s.idx ≤ toks.length →
    wp (parseCaseBlock toks false (fuel + 1)) (fun _ s' => Fw toks s s') s := by
  intro s hs
  rw [parseCaseBlock]
  wpsimp'
  have fin : ∀ (b : PBlock) (s2 : St), s.idx ≤ s2.idx → s2.idx ≤ toks.length →
      (if tokIs toks s2.idx "," = true then
        match toks[s2.idx]? with
        | some t => Fw toks s { idx := s2.idx + 1, diags := s2.diags }
        | none => Fw toks s s2
      else Fw toks s s2) := by
    intro b s2 h2 h2l
    split
    · split
      · rename_i t ht
        have := get_lt ht
        exact ⟨by simp only []; omega, by simp only []; omega⟩
      · exact ⟨h2, h2l⟩
    · exact ⟨h2, h2l⟩
  split
  · refine wp_mono (ih.block s hs) ?_
    intro b s1 m1
    exact fin b s1 m1.1 m1.2
  · refine wp_mono (ih.exprT true s hs) ?_
    intro e s1 m1
    exact fin ⟨[e.e], e.pos⟩ s1 m1.1 m1.2.1

theorem step_assertE : ∀ s, s.idx ≤ toks.length → tokIs toks s.idx "assert" = true →
    wp (parseAssert toks false (fuel + 1)) (fun _ s' => Sf toks s s') s := by
  intro s hs hk
  rw [parseAssert]
  wpsimp'
  refine wp_mono (spec_requireToken toks hne "assert" s hs) ?_
  intro o s1 m1
  have e1 := rt_eq m1.2 hk
  refine wp_mono (spec_requireToken toks hne "(" s1 m1.1) ?_
  intro _ s2 m2
  have b2 := rt_le m2.2
  split
  · rename_i hp
    obtain ⟨t, ht, _⟩ := tokIs_get hp
    have := get_lt ht
    simp only [ht]
    exact ⟨by simp only []; omega, by simp only []; omega⟩
  · refine wp_mono (ih.exprT true s2 m2.1) ?_
    intro e s3 m3
    refine wp_mono (spec_requireToken toks hne ")" s3 m3.2.1) ?_
    intro _ s4 m4
    have b4 := rt_le m4.2
    have := m3.1
    exact ⟨by omega, m4.1⟩

theorem step_whileE : ∀ s, s.idx ≤ toks.length → tokIs toks s.idx "while" = true →
    wp (parseWhile toks false (fuel + 1)) (fun _ s' => Sf toks s s') s := by
  intro s hs hk
  rw [parseWhile]
  wpsimp'
  refine wp_mono (spec_requireToken toks hne "while" s hs) ?_
  intro o s1 m1
  have e1 := rt_eq m1.2 hk
  refine wp_mono (ih.exprT true s1 m1.1) ?_
  intro c s2 m2
  refine wp_mono (ih.block s2 m2.2.1) ?_
  intro b s3 m3
  have := m2.1; have := m3.1
  exact ⟨by omega, m3.2⟩

theorem step_retE : ∀ s, s.idx ≤ toks.length → tokIs toks s.idx "return" = true →
    wp (parseReturn toks false (fuel + 1)) (fun _ s' => Sf toks s s') s := by
  intro s hs hk
  rw [parseReturn]
  wpsimp'
  refine wp_mono (spec_requireToken toks hne "return" s hs) ?_
  intro o s1 m1
  have e1 := rt_eq m1.2 hk
  cases ht : toks[s1.idx]? with
  | none => tk ht; wpsimp'; exact ⟨by omega, m1.1⟩
  | some t =>
    tk ht
    split
    · wpsimp'
      refine wp_mono (ih.exprT true s1 m1.1) ?_
      intro e s2 m2
      have := m2.1
      exact ⟨by omega, m2.2.1⟩
    · wpsimp'; exact ⟨by omega, m1.1⟩

theorem step_ifE : ∀ s, s.idx ≤ toks.length → tokIs toks s.idx "if" = true →
    wp (parseIf toks false (fuel + 1)) (fun _ s' => Sf toks s s') s := by
  intro s hs hk
  rw [parseIf]
  wpsimp'
  refine wp_mono (spec_requireToken toks hne "if" s hs) ?_
  intro o s1 m1
  have e1 := rt_eq m1.2 hk
  refine wp_mono (ih.exprT true s1 m1.1) ?_
  intro c s2 m2
  refine wp_mono (ih.block s2 m2.2.1) ?_
  intro b s3 m3
  have := m2.1; have := m3.1
  split
  · have fin : ∀ s4 : St, s3.idx ≤ s4.idx → s4.idx ≤ toks.length →
        (if tokIs toks s4.idx "if" = true then wp (parseIf toks false fuel) (fun a s' => Sf toks s s') s4
         else wp (parseBlock toks false fuel) (fun a s' => Sf toks s s') s4) := by
      intro s4 h34 h4
      split
      · rename_i hif
        refine wp_mono (ih.ifE s4 h4 hif) ?_
        intro _ s5 m5
        exact ⟨by have := m5.1; omega, m5.2⟩
      · refine wp_mono (ih.block s4 h4) ?_
        intro _ s5 m5
        exact ⟨by have := m5.1; omega, m5.2⟩
    split
    · rename_i t ht
      have := get_lt ht
      exact fin ⟨s3.idx + 1, s3.diags⟩ (Nat.le_succ _) (by first | omega | (simp only []; omega))
    · exact fin s3 (Nat.le_refl _) m3.2
  · exact ⟨by omega, m3.2⟩

theorem step_letE : ∀ s, s.idx ≤ toks.length → tokIs toks s.idx "let" = true →
    wp (parseLet toks false (fuel + 1)) (fun _ s' => Sf toks s s') s := by
  intro s hs hk
  rw [parseLet]
  wpsimp'
  refine wp_mono (spec_requireToken toks hne "let" s hs) ?_
  intro o s1 m1
  have e1 := rt_eq m1.2 hk
  refine wp_mono (parseLetDestination_ok toks hne hl fuel s1 m1.1) ?_
  intro d s2 m2
  refine wp_mono (parseColonAndHintOpt_ok toks hne hl fuel s2 m2.1) ?_
  intro h s3 m3
  have hst := kw_strict hk (by decide) (e1 ▸ Mv.trans m2 m3)
  refine wp_mono (spec_requireToken toks hne "=" s3 m3.1) ?_
  intro _ s4 m4
  have b4 := rt_le m4.2
  refine wp_mono (ih.exprT true s4 m4.1) ?_
  intro e s5 m5
  have := m5.1
  exact ⟨by omega, m5.2.1⟩

theorem step_forE : ∀ s, s.idx ≤ toks.length → tokIs toks s.idx "for" = true →
    wp (parseForIn toks false (fuel + 1)) (fun _ s' => Sf toks s s') s := by
  intro s hs hk
  rw [parseForIn]
  wpsimp'
  refine wp_mono (spec_requireToken toks hne "for" s hs) ?_
  intro o s1 m1
  have e1 := rt_eq m1.2 hk
  refine wp_mono (parseLetDestination_ok toks hne hl fuel s1 m1.1) ?_
  intro d s2 m2
  have hst := kw_strict hk (by decide) (e1 ▸ m2)
  refine wp_mono (spec_requireToken toks hne "in" s2 m2.1) ?_
  intro _ s3 m3
  have b3 := rt_le m3.2
  refine wp_mono (ih.exprT true s3 m3.1) ?_
  intro e s4 m4
  refine wp_mono (ih.block s4 m4.2.1) ?_
  intro b s5 m5
  have := m4.1; have := m5.1
  exact ⟨by omega, m5.2⟩

theorem step_tryE : ∀ s, s.idx ≤ toks.length → tokIs toks s.idx "try" = true →
    wp (parseTry toks false (fuel + 1)) (fun _ s' => Sf toks s s') s := by
  intro s hs hk
  rw [parseTry]
  wpsimp'
  refine wp_mono (spec_requireToken toks hne "try" s hs) ?_
  intro o s1 m1
  have e1 := rt_eq m1.2 hk
  refine wp_mono (ih.block s1 m1.1) ?_
  intro b s2 m2
  refine wp_mono (spec_requireToken toks hne "catch" s2 m2.2) ?_
  intro _ s3 m3
  have b3 := rt_le m3.2
  refine wp_mono (spec_requireToken toks hne "(" s3 m3.1) ?_
  intro _ s4 m4
  have b4 := rt_le m4.2
  refine wp_mono (spec_parseSymbol toks hne hl false s4 m4.1) ?_
  intro x s5 m5
  have h14 : Mv toks (s.idx + 1) s4.idx := Mv.step (by have := m2.1; omega) m4.1
  have hst := kw_strict hk (by decide) (Mv.trans h14 m5.1)
  refine wp_mono (spec_requireToken toks hne ")" s5 m5.1.1) ?_
  intro _ s6 m6
  have b6 := rt_le m6.2
  refine wp_mono (ih.block s6 m6.1) ?_
  intro c s7 m7
  have := m7.1
  exact ⟨by omega, m7.2⟩

theorem step_lambda : ∀ s, s.idx ≤ toks.length → tokIs toks s.idx "fun" = true →
    wp (parseLambda toks false (fuel + 1)) (fun _ s' => Sf toks s s') s := by
  intro s hs hk
  rw [parseLambda]
  wpsimp'
  refine wp_mono (spec_requireToken toks hne "fun" s hs) ?_
  intro o s1 m1
  have e1 := rt_eq m1.2 hk
  refine wp_mono (parseTypeParams_ok toks hne hl fuel s1 m1.1) ?_
  intro tps s2 m2
  refine wp_mono (parseParameters_ok toks hne hl fuel s2 m2.1) ?_
  intro ps s3 m3
  refine wp_mono (parseColonAndHintOpt_ok toks hne hl fuel s3 m3.1) ?_
  intro r s4 m4
  have hst := kw_strict hk (by decide) (e1 ▸ Mv.trans (Mv.trans m2 m3) m4)
  refine wp_mono (ih.block s4 m4.1) ?_
  intro b s5 m5
  have := m5.1
  exact ⟨by omega, m5.2⟩

theorem step_matchL : ∀ acc s, s.idx ≤ toks.length →
    wp (matchLoop toks false (fuel + 1) acc) (fun _ s' => Mv toks s.idx s'.idx) s := by
  intro acc s hs
  rw [matchLoop]
  wpsimp'
  cases ht : toks[s.idx]? with
  | none => tk ht; wpsimp'; exact Mv.refl hs
  | some t =>
    tk ht
    split
    · wpsimp'; exact Mv.refl hs
    · wpsimp'
      refine wp_mono (parsePattern_ok toks hne hl fuel s hs) ?_
      intro p s1 m1
      refine wp_mono (spec_requireToken toks hne "=>" s1 m1.1) ?_
      intro _ s2 m2
      have b2 := rt_le m2.2
      refine wp_mono (ih.caseBlock s2 m2.1) ?_
      intro b s3 m3
      have m13 : Mv toks s.idx s3.idx := Mv.trans m1 (Mv.step (by have := m3.1; omega) m3.2)
      split
      · exact m13
      · refine wp_mono (ih.matchL _ s3 m3.2) ?_
        intro _ s4 m4
        exact Mv.trans m13 m4

theorem step_matchE : ∀ s, s.idx ≤ toks.length → tokIs toks s.idx "match" = true →
    wp (parseMatch toks false (fuel + 1)) (fun _ s' => Sf toks s s') s := by
  intro s hs hk
  rw [parseMatch]
  wpsimp'
  refine wp_mono (spec_requireToken toks hne "match" s hs) ?_
  intro o s1 m1
  have e1 := rt_eq m1.2 hk
  refine wp_mono (ih.exprT true s1 m1.1) ?_
  intro e s2 m2
  refine wp_mono (spec_requireToken toks hne "{" s2 m2.2.1) ?_
  intro o2 s3 m3
  have b3 := rt_le m3.2
  have := m2.1
  split
  · exact ⟨by omega, m3.1⟩
  · refine wp_mono (ih.matchL [] s3 m3.1) ?_
    intro cs s4 m4
    have hst := kw_strict hk (by decide) (Mv.trans (Mv.step (by omega) m3.1) m4)
    refine wp_mono (spec_requireToken toks hne "}" s4 m4.1) ?_
    intro _ s5 m5
    have b5 := rt_le m5.2
    exact ⟨by omega, m5.1⟩

theorem step_assign : ∀ s, s.idx < toks.length →
    wp (parseAssign toks false (fuel + 1)) (fun r s' => Ex toks s r s') s := by
  intro s hs
  rw [parseAssign]
  wpsimp'
  refine wp_mono (spec_parseSymbol toks hne hl false s (Nat.le_of_lt hs)) ?_
  intro v s1 m1
  have b1 := m1.2 hs
  split
  · exact ⟨b1.1, m1.1.1, fun h => by simp [Expr.isInvalidOrPlaceholder] at h⟩
  · rename_i hp
    refine wp_mono (spec_requireToken toks hne "=" s1 m1.1.1) ?_
    intro _ s2 m2
    have e2 := rt_eq m2.2 (by simpa using hp)
    refine wp_mono (ih.exprT true s2 m2.1) ?_
    intro e s3 m3
    have := m3.1
    exact ⟨by omega, m3.2.1, fun _ => by omega⟩

theorem step_update : ∀ s, s.idx + 2 ≤ toks.length →
    wp (parseAssignUpdate toks false (fuel + 1)) (fun _ s' => Sf toks s s') s := by
  intro s hs
  rw [parseAssignUpdate]
  wpsimp'
  refine wp_mono (spec_parseSymbol toks hne hl false s (by omega)) ?_
  intro v s1 m1
  have b1 := m1.2 (by omega)
  refine wp_mono (spec_requireAToken toks hne s1 m1.1.1) ?_
  intro t s2 m2
  have h2 : s2.idx = s1.idx + 1 := by
    rcases m2 with ⟨t0, _, _, h⟩ | ⟨hn, _, _, _, _⟩
    · exact h
    · have := get_none hn; omega
  have fin : ∀ (op : String) (s3 : St), s3.idx = s2.idx →
      wp (parseExpressionT toks false true fuel) (fun a s' => Sf toks s s') s3 := by
    intro op s3 h3
    refine wp_mono (ih.exprT true s3 (by omega)) ?_
    intro e s4 m4
    have := m4.1
    exact ⟨by omega, m4.2.1⟩
  split
  · exact fin "+=" s2 rfl
  · split
    · exact fin "-=" s2 rfl
    · exact fin "+=" _ rfl

theorem step_noTrail : ∀ s, s.idx ≤ toks.length →
    wp (parseNoTrailing toks false (fuel + 1)) (fun r s' => Ex toks s r s') s := by
  intro s hs
  rw [parseNoTrailing]
  wpsimp'
  have sf : ∀ {r : PExpr} {s' : St}, Sf toks s s' → Ex toks s r s' :=
    fun h => ⟨Nat.le_of_lt h.1, h.2, fun _ => h.1⟩
  cases h0 : toks[s.idx]? with
  | none =>
    simp only [h0, Option.map_none]
    simp
    exact ih.simple s hs
  | some t0 =>
    have hlt := get_lt h0
    have kw : ∀ k : String, (t0.text == k) = true → tokIs toks s.idx k = true := by
      intro k hk; simp only [tokIs, h0]; exact hk
    have rt : ∀ k : String, (t0.text == k) = true →
        wp (requireToken toks k) (fun a s' => Ex toks s ⟨Expr.brk, a.pos⟩ s' ∧ Ex toks s ⟨Expr.cont, a.pos⟩ s') s := by
      intro k hk
      refine wp_mono (spec_requireToken toks hne k s hs) ?_
      intro a s1 m1
      have := rt_eq m1.2 (kw k hk)
      exact ⟨⟨by omega, m1.1, fun _ => by omega⟩, ⟨by omega, m1.1, fun _ => by omega⟩⟩
    cases h1 : toks[s.idx + 1]? with
    | none =>
      simp only [h0, h1, Option.map_none, Option.map_some]
      simp only [show (("" : String) == "=") = false by decide, show (("" : String) == "+=") = false by decide,
        show (("" : String) == "-=") = false by decide, Bool.or_false, Bool.false_eq_true, ↓reduceIte]
      repeat' split
      all_goals first
        | exact wp_mono (ih.letE s hs (kw _ (by assumption))) (fun _ _ m => sf m)
        | exact wp_mono (ih.retE s hs (kw _ (by assumption))) (fun _ _ m => sf m)
        | exact wp_mono (ih.whileE s hs (kw _ (by assumption))) (fun _ _ m => sf m)
        | exact wp_mono (ih.forE s hs (kw _ (by assumption))) (fun _ _ m => sf m)
        | exact wp_mono (rt _ (by assumption)) (fun _ _ m => m.1)
        | exact wp_mono (rt _ (by assumption)) (fun _ _ m => m.2)
        | exact wp_mono (ih.ifE s hs (kw _ (by assumption))) (fun _ _ m => sf m)
        | exact wp_mono (ih.matchE s hs (kw _ (by assumption))) (fun _ _ m => sf m)
        | exact wp_mono (ih.tryE s hs (kw _ (by assumption))) (fun _ _ m => sf m)
        | exact ih.simple s hs
    | some t1 =>
      have hlt1 := get_lt h1
      simp only [h0, h1, Option.map_some]
      refine ite_intro (fun _ => ih.assign s hlt) fun _ => ?_
      refine ite_intro (fun _ => wp_mono (ih.update s (by omega)) (fun _ _ m => sf m)) fun _ => ?_
      refine ite_intro (fun c => wp_mono (ih.letE s hs (kw _ c)) (fun _ _ m => sf m)) fun _ => ?_
      refine ite_intro (fun c => wp_mono (ih.retE s hs (kw _ c)) (fun _ _ m => sf m)) fun _ => ?_
      refine ite_intro (fun c => wp_mono (ih.whileE s hs (kw _ c)) (fun _ _ m => sf m)) fun _ => ?_
      refine ite_intro (fun c => wp_mono (ih.forE s hs (kw _ c)) (fun _ _ m => sf m)) fun _ => ?_
      refine ite_intro (fun c => wp_mono (rt _ c) (fun _ _ m => m.1)) fun _ => ?_
      refine ite_intro (fun c => wp_mono (rt _ c) (fun _ _ m => m.2)) fun _ => ?_
      refine ite_intro (fun c => wp_mono (ih.ifE s hs (kw _ c)) (fun _ _ m => sf m)) fun _ => ?_
      refine ite_intro (fun c => wp_mono (ih.matchE s hs (kw _ c)) (fun _ _ m => sf m)) fun _ => ?_
      refine ite_intro (fun c => wp_mono (ih.tryE s hs (kw _ c)) (fun _ _ m => sf m)) fun _ => ?_
      exact ih.simple s hs

theorem spec_parseInteger (s : St) (t0 : Tok) (h0 : toks[s.idx]? = some t0) :
    wp (parseInteger toks) (fun _ s' => s'.idx = s.idx + 1) s := by
  unfold parseInteger
  wpsimp'
  refine wp_mono (spec_requireAToken toks hne s (Nat.le_of_lt (get_lt h0))) ?_
  intro t s1 m1
  have h1 : s1.idx = s.idx + 1 := by
    rcases m1 with ⟨_, _, _, h⟩ | ⟨hn, _⟩
    · exact h
    · rw [h0] at hn; cases hn
  split
  · split <;> (try wpsimp') <;> exact h1
  · (try wpsimp'); exact h1

theorem spec_parseFloat (s : St) (t0 : Tok) (h0 : toks[s.idx]? = some t0) :
    wp (parseFloat toks) (fun _ s' => s'.idx = s.idx + 1) s := by
  unfold parseFloat
  wpsimp'
  refine wp_mono (spec_requireAToken toks hne s (Nat.le_of_lt (get_lt h0))) ?_
  intro t s1 m1
  rcases m1 with ⟨t0', ht0', rfl, h1⟩ | ⟨hn, _⟩
  · rw [h0] at ht0'; cases ht0'
    split
    · rename_i hf
      have := hl.floats t0 (mem_of_get h0) hf
      simp only [TokI.text] at this ⊢
      simp only [this, ↓reduceIte, wp_pure]
      exact h1
    · (try wpsimp'); exact h1
  · rw [h0] at hn; cases hn

theorem sym_ne_rbrace {x : String} (h : isSymbolTok x = true) : (x == "}") = false := by
  cases hx : (x == "}") with
  | false => rfl
  | true =>
    have : x = "}" := by simpa using hx
    subst this
    revert h; decide

theorem step_simple : ∀ s, s.idx ≤ toks.length →
    wp (parseSimple toks false (fuel + 1)) (fun r s' => Ex toks s r s') s := by
  intro s hs
  rw [parseSimple]
  wpsimp'
  have sf : ∀ {r : PExpr} {s' : St}, Sf toks s s' → Ex toks s r s' :=
    fun h => ⟨Nat.le_of_lt h.1, h.2, fun _ => h.1⟩
  have fs : ∀ {r : PExpr} {s' : St} {p : Prop}, p → (Fw toks s s' ∧ (p → s.idx < s'.idx)) → Ex toks s r s' :=
    fun hp h => ⟨h.1.1, h.1.2, fun _ => h.2 hp⟩
  cases h0 : toks[s.idx]? with
  | none =>
    simp only [h0, Option.map_none]
    wpsimp'
    exact ⟨Nat.le_refl _, hs, fun h => by simp [Expr.isInvalidOrPlaceholder] at h⟩
  | some t0 =>
    have hlt := get_lt h0
    have kw : ∀ k : String, (t0.text == k) = true → tokIs toks s.idx k = true := by
      intro k hk; simp only [tokIs, h0]; exact hk
    simp only [h0, Option.map_some]
    wpsimp'
    refine ite_intro (fun c => wp_mono (ih.tupleParen s hs) (fun _ _ m => fs (kw _ c) m)) fun _ => ?_
    refine ite_intro (fun c => wp_mono (ih.listLit s hs) (fun _ _ m => fs (kw _ c) m)) fun _ => ?_
    refine ite_intro (fun c => wp_mono (ih.dictLit s hs) (fun _ _ m => fs (kw _ c) m)) fun _ => ?_
    refine ite_intro (fun c => wp_mono (ih.lambda s hs (kw _ (by
      have : (t0.text == "fun") = true := by
        have c' := c
        simp only [Bool.and_eq_true] at c'
        exact c'.1
      exact this))) (fun _ _ m => sf m)) fun _ => ?_
    refine ite_intro (fun c => wp_mono (ih.assertE s hs (kw _ c)) (fun _ _ m => sf m)) fun _ => ?_
    refine ite_intro (fun hsym => ?_) fun _ => ?_
    · -- symbol-like token
      refine ite_intro (fun c => ?_) fun _ => ?_
      · -- struct literal: the next token exists
        have h2 : s.idx + 2 ≤ toks.length := by
          cases h1 : toks[s.idx + 1]? with
          | none => simp [h1] at c
          | some t1 => have := get_lt h1; omega
        exact ih.structLit s h2
      · unfold parseVariable
        wpsimp'
        refine wp_mono (spec_parseSymbol toks hne hl false s hs) ?_
        intro v s1 m1
        have b := m1.2 hlt
        refine ⟨b.1, m1.1.1, fun hph => ?_⟩
        have := b.2.2 (by simpa [Expr.isInvalidOrPlaceholder, isPlaceholderName] using hph)
        omega
    · refine ite_intro (fun _ => ?_) fun _ => ?_
      · -- string literal
        simp only [h0]
        refine wp_mono (spec_diagN toks hne _ _ _) ?_
        intro _ s1 m1
        refine ⟨by simp only [m1]; omega, by simp only [m1]; omega, fun _ => by simp only [m1]; omega⟩
      · refine ite_intro (fun _ => ?_) fun _ => ?_
        · refine wp_mono (spec_parseFloat toks hne hl fuel ih s t0 h0) ?_
          intro _ s1 m1; exact ⟨by omega, by omega, fun _ => by omega⟩
        · refine ite_intro (fun _ => ?_) fun _ => ?_
          · refine wp_mono (spec_parseInteger toks hne hl fuel ih s t0 h0) ?_
            intro _ s1 m1; exact ⟨by omega, by omega, fun _ => by omega⟩
          · exact ⟨Nat.le_refl _, hs, fun h => by simp [Expr.isInvalidOrPlaceholder] at h⟩

theorem step_exprT : ∀ b s, s.idx ≤ toks.length →
    wp (parseExpressionT toks false b (fuel + 1)) (fun r s' => Ex toks s r s') s := by
  intro b s hs
  rw [parseExpressionT]
  wpsimp'
  refine wp_mono (ih.noTrail s hs) ?_
  intro e s1 m1
  refine wp_mono (ih.trail b e s1 m1.2.1) ?_
  intro r s2 m2
  refine ⟨by have := m2.1.1; have := m1.1; omega, m2.1.2, fun hr => ?_⟩
  rcases m2.2 with h | h
  · have := m1.2.2 (h ▸ hr); have := m2.1.1; omega
  · have := m1.1; omega

theorem step_trail : ∀ b e s, s.idx ≤ toks.length →
    wp (trailing toks false b (fuel + 1) e) (fun r s' => Fw toks s s' ∧ (r = e ∨ s.idx < s'.idx)) s := by
  intro b e s hs
  rw [trailing]
  wpsimp'
  cases h0 : toks[s.idx]? with
  | none => simp only [h0, Option.map_none]; wpsimp'; exact ⟨⟨Nat.le_refl _, hs⟩, (by simp)⟩
  | some t0 =>
    have hlt := get_lt h0
    simp only [h0, Option.map_some]
    wpsimp'
    -- continuing the loop from a state strictly beyond `s`
    have cont : ∀ (e' : PExpr) (s2 : St), s.idx < s2.idx → s2.idx ≤ toks.length →
        (if s2.idx > s.idx then wp (trailing toks false b fuel e') (fun r s' => Fw toks s s' ∧ (r = e ∨ s.idx < s'.idx)) s2
         else False) := by
      intro e' s2 h2 h2l
      rw [if_pos h2]
      refine wp_mono (ih.trail b e' s2 h2l) ?_
      intro r s3 m3
      exact ⟨⟨by have := m3.1.1; omega, m3.1.2⟩, Or.inr (by have := m3.1.1; omega)⟩
    refine ite_intro (fun c => ?_) fun _ => ?_
    · -- call
      have hp : tokIs toks s.idx "(" = true := by
        simp only [tokIs, h0]
        simp only [Bool.and_eq_true] at c
        exact c.1.1
      refine wp_mono (ih.callArgs s hs) ?_
      intro r s1 m1
      obtain ⟨args, close⟩ := r
      exact cont _ s1 (m1.2 hp) m1.1.2
    · refine ite_intro (fun _ => ?_) fun _ => ?_
      · -- dot
        simp only [h0]
        cases h1 : toks[s.idx + 1]? with
        | none =>
          simp only [h1, Option.map_none, Bool.false_eq_true, ↓reduceIte]
          (try wpsimp')
          exact cont _ ⟨s.idx + 1, s.diags ++ [DiagKind.invalid]⟩ (Nat.lt_succ_self _) hlt
        | some t1 =>
          have hlt1 := get_lt h1
          simp only [h1, Option.map_some]
          refine ite_intro (fun _ => ?_) fun _ => ?_
          · refine wp_mono (spec_parseSymbol toks hne hl false ⟨s.idx + 1, s.diags⟩ (by first | omega | (simp only []; omega))) ?_
            intro v s2 m2
            have b2 := m2.2 (by first | omega | (simp only []; omega))
            simp only [] at b2
            refine ite_intro (fun _ => ?_) fun _ => ?_
            · refine wp_mono (ih.callArgs s2 m2.1.1) ?_
              intro r s3 m3
              obtain ⟨args, close⟩ := r
              exact cont _ s3 (by have := m3.1.1; omega) m3.1.2
            · exact cont _ s2 (by omega) m2.1.1
          · (try wpsimp')
            exact cont _ ⟨s.idx + 1, s.diags ++ [DiagKind.invalid]⟩ (Nat.lt_succ_self _) hlt
      · refine ite_intro (fun _ => ?_) fun _ => ?_
        · -- ::
          simp only [h0]
          cases h1 : toks[s.idx + 1]? with
          | none =>
            simp only [h1, Option.map_none, Bool.false_eq_true, ↓reduceIte]
            (try wpsimp')
            exact cont _ ⟨s.idx + 1, s.diags ++ [DiagKind.invalid]⟩ (Nat.lt_succ_self _) hlt
          | some t1 =>
            have hlt1 := get_lt h1
            simp only [h1, Option.map_some]
            refine ite_intro (fun _ => ?_) fun _ => ?_
            · refine wp_mono (spec_parseSymbol toks hne hl false ⟨s.idx + 1, s.diags⟩ (by first | omega | (simp only []; omega))) ?_
              intro v s2 m2
              have b2 := m2.2 (by first | omega | (simp only []; omega))
              simp only [] at b2
              exact cont _ s2 (by omega) m2.1.1
            · (try wpsimp')
              exact cont _ ⟨s.idx + 1, s.diags ++ [DiagKind.invalid]⟩ (Nat.lt_succ_self _) hlt
        · refine ite_intro (fun _ => ?_) fun _ => ?_
          · -- infix operator
            simp only [h0]
            refine wp_mono (ih.exprT false ⟨s.idx + 1, s.diags⟩ (by first | omega | (simp only []; omega))) ?_
            intro rhs s2 m2
            have := m2.1
            simp only [] at this
            exact cont _ s2 (by omega) m2.2.1
          · exact ⟨⟨Nat.le_refl _, hs⟩, (by simp)⟩

theorem step_fieldsL : ∀ acc s, s.idx ≤ toks.length → wp (fieldsLoop toks false (fuel + 1) acc)
    (fun _ s' => Mv toks s.idx s'.idx ∧ (s.idx + 2 ≤ toks.length → tokIs toks s.idx "}" = false → s.idx < s'.idx)) s := by
  intro acc s hs
  rw [fieldsLoop]
  wpsimp'
  refine ite_intro (fun c => ⟨Mv.refl hs, fun _ h => by rw [c] at h; cases h⟩) fun hnb => ?_
  have hnb' : tokIs toks s.idx "}" = false := by simpa using hnb
  refine wp_mono (spec_parseSymbol toks hne hl false s hs) ?_
  intro sym s1 m1
  -- after the optional colon and the expression
  let Qf : List Field → St → Prop := fun _ s' =>
    Mv toks s.idx s'.idx ∧ (s.idx + 2 ≤ toks.length → tokIs toks s.idx "}" = false → s.idx < s'.idx)
  have afterColon : ∀ s2 : St, s1.idx ≤ s2.idx → s2.idx ≤ toks.length →
      wp (parseExpressionT toks false true fuel) (fun ex s' =>
        if (s'.idx == s.idx) = true then wp (skipToCloseBrace toks) (fun _ s' => Qf acc s') s'
        else
          wp (match Option.map (fun t => ({ tok := t, i := s'.idx } : TokI)) toks[s'.idx]? with
            | none => diag DiagKind.incomplete >>= fun _ => pure (acc ++ [Field.mk sym.name ex.e])
            | some t =>
              if (t.text == ",") = true then
                pop toks >>= fun _ => getIdx >>= fun i =>
                  if (i == s.idx) = true then pure (acc ++ [Field.mk sym.name ex.e])
                  else fieldsLoop toks false fuel (acc ++ [Field.mk sym.name ex.e])
              else
                getIdx >>= fun i =>
                  if (i == s.idx) = true then pure (acc ++ [Field.mk sym.name ex.e])
                  else fieldsLoop toks false fuel (acc ++ [Field.mk sym.name ex.e]))
            Qf s') s2 := by
    intro s2 h12 h2
    refine wp_mono (ih.exprT true s2 h2) ?_
    intro e s3 m3
    have m13 : Mv toks s.idx s3.idx := Mv.trans m1.1 (Mv.step (by have := m3.1; omega) m3.2.1)
    refine ite_intro (fun c => ?_) fun c => ?_
    · have e3 : s3.idx = s.idx := by simpa using c
      refine wp_mono (spec_skipToCloseBrace toks hne s3 m3.2.1) ?_
      intro _ s4 m4
      refine ⟨Mv.trans m13 (Mv.step m4.1 m4.2.1), fun h2l hb => ?_⟩
      have := m4.2.2 (by rw [e3]; exact hb) (by omega)
      omega
    · have n3 : s3.idx ≠ s.idx := by simpa using c
      have gt3 : s.idx + 2 ≤ toks.length → s.idx < s3.idx := by
        intro h2l
        have := (m1.2 (by omega)).1
        have := m3.1
        omega
      have fin : ∀ s4 : St, s3.idx ≤ s4.idx → s4.idx ≤ toks.length →
          (if (s4.idx == s.idx) = true then Qf (acc ++ [Field.mk sym.name e.e]) s4
           else wp (fieldsLoop toks false fuel (acc ++ [Field.mk sym.name e.e])) Qf s4) := by
        intro s4 h34 h4
        have m14 : Mv toks s.idx s4.idx := Mv.trans m13 (Mv.step h34 h4)
        refine ite_intro (fun _ => ⟨m14, fun h2l _ => by have := gt3 h2l; omega⟩) fun _ => ?_
        refine wp_mono (ih.fieldsL _ s4 h4) ?_
        intro _ s5 m5
        refine ⟨Mv.trans m14 m5.1, fun h2l _ => ?_⟩
        have := gt3 h2l
        have := m5.1
        simp only [Mv] at this
        omega
      cases ht3 : toks[s3.idx]? with
      | none =>
        simp only [Option.map_none, wp_bind, wp_diag, wp_pure]
        exact ⟨m13, fun h2l _ => gt3 h2l⟩
      | some t3 =>
        have hl3 := get_lt ht3
        simp only [Option.map_some]
        rw [wp_ite]
        split
        · simp only [wp_bind, wp_pop, ht3, wp_getIdx, wp_ite, wp_pure]
          exact fin ⟨s3.idx + 1, s3.diags⟩ (Nat.le_succ _) (by first | omega | (simp only []; omega))
        · simp only [wp_bind, wp_getIdx, wp_ite, wp_pure]
          exact fin s3 (Nat.le_refl _) m3.2.1
  refine ite_intro (fun _ => ?_) fun _ => ?_
  · -- placeholder name: optional colon
    refine ite_intro (fun c => ?_) fun _ => ?_
    · obtain ⟨t, ht, _⟩ := tokIs_get c
      have := get_lt ht
      simp only [ht]
      exact afterColon ⟨s1.idx + 1, s1.diags⟩ (Nat.le_succ _) (by first | omega | (simp only []; omega))
    · exact afterColon s1 (Nat.le_refl _) m1.1.1
  · refine wp_mono (spec_requireToken toks hne ":" s1 m1.1.1) ?_
    intro _ s2 m2
    have b2 := rt_le m2.2
    exact afterColon s2 b2.1 m2.1

theorem step_structLit : ∀ s, s.idx + 2 ≤ toks.length →
    wp (parseStructLiteral toks false (fuel + 1)) (fun r s' => Ex toks s r s') s := by
  intro s hs
  rw [parseStructLiteral]
  wpsimp'
  refine wp_mono (spec_parseSymbol toks hne hl false s (by omega)) ?_
  intro name s1 m1
  have b1 := m1.2 (by omega)
  refine ite_intro (fun _ => ⟨b1.1, m1.1.1, fun h => by simp [Expr.isInvalidOrPlaceholder] at h⟩) fun c => ?_
  have n1 : s1.idx ≠ s.idx := by simpa using c
  refine wp_mono (spec_requireToken toks hne "{" s1 m1.1.1) ?_
  intro _ s2 m2
  have b2 := rt_le m2.2
  refine wp_mono (ih.fieldsL [] s2 m2.1) ?_
  intro fs s3 m3
  have h3 : s.idx < s3.idx := by
    have := m3.1
    simp only [Mv] at this
    omega
  refine wp_mono (spec_requireToken toks hne "}" s3 m3.1.1) ?_
  intro _ s4 m4
  have b4 := rt_le m4.2
  exact ⟨by omega, m4.1, fun _ => by omega⟩

end level2
section final
variable (toks : Toks) (hne : toks ≠ []) (hl : LexLike toks)
include hne hl

/-- The specifications of all 28 functions of the expression block hold for EVERY fuel. -/
theorem specs_all : ∀ fuel, Specs toks fuel := by
  intro fuel
  induction fuel with
  | zero => exact specs_zero toks
  | succ fuel ih =>
    exact {
      exprT := step_exprT toks hne hl fuel ih
      trail := step_trail toks hne hl fuel ih
      callArgs := step_callArgs toks hne hl fuel ih
      comma := step_comma toks hne hl fuel ih
      noTrail := step_noTrail toks hne hl fuel ih
      simple := step_simple toks hne hl fuel ih
      tupleParen := step_tupleParen toks hne hl fuel ih
      tupleL := step_tupleL toks hne hl fuel ih
      listLit := step_listLit toks hne hl fuel ih
      dictLit := step_dictLit toks hne hl fuel ih
      dictL := step_dictL toks hne hl fuel ih
      lambda := step_lambda toks hne hl fuel ih
      assertE := step_assertE toks hne hl fuel ih
      ifE := step_ifE toks hne hl fuel ih
      whileE := step_whileE toks hne hl fuel ih
      tryE := step_tryE toks hne hl fuel ih
      forE := step_forE toks hne hl fuel ih
      retE := step_retE toks hne hl fuel ih
      structLit := step_structLit toks hne hl fuel ih
      fieldsL := step_fieldsL toks hne hl fuel ih
      matchE := step_matchE toks hne hl fuel ih
      matchL := step_matchL toks hne hl fuel ih
      caseBlock := step_caseBlock toks hne hl fuel ih
      block := step_block toks hne hl fuel ih
      blockL := step_blockL toks hne hl fuel ih
      letE := step_letE toks hne hl fuel ih
      assign := step_assign toks hne hl fuel ih
      update := step_update toks hne hl fuel ih }

def isPanic {α} : Res α → Bool
  | .panic _ => true
  | _ => false

theorem not_panic_of_wp {α} {m : P α} {Q : α → St → Prop} {s : St} (h : wp m Q s) : isPanic (m s) = false := by
  unfold wp at h
  cases hm : m s with
  | ok a s' => rfl
  | panic p => rw [hm] at h; exact h.elim
  | outOfFuel => rfl

/-- **C01, parser half (partial: everything below the definitions level).** For every non-empty,
lexer-like token list, every fuel, every state inside the token list and both settings of the
infix flag, `parse_expression` does not panic — none of the progress assertions (parser.rs:328, 404,
1082, 1361, 2334 and the former 1995, 2183, 2812), `expect`s, `unwrap`s or `unpop` fire — and it
returns at or beyond the index it started at, strictly beyond unless the result is `Invalid` / a
placeholder variable. -/
theorem parse_no_panic_partial (fuel : Nat) (b : Bool) (s : St) (hs : s.idx ≤ toks.length) :
    isPanic (parseExpressionT toks false b fuel s) = false :=
  not_panic_of_wp toks hne hl ((specs_all toks hne hl fuel).exprT b s hs)

/-- The same for `parse_block` (function bodies, toplevel blocks). -/
theorem parseBlock_no_panic (fuel : Nat) (s : St) (hs : s.idx ≤ toks.length) :
    isPanic (parseBlock toks false fuel s) = false :=
  not_panic_of_wp toks hne hl ((specs_all toks hne hl fuel).block s hs)

/-- The progress fact the code's assertions gesture at, for `parse_expression`. -/
theorem parseExpression_progress (fuel : Nat) (s : St) (hs : s.idx ≤ toks.length) (r : PExpr) (s' : St)
    (h : parseExpression toks false fuel s = .ok r s') :
    s.idx ≤ s'.idx ∧ s'.idx ≤ toks.length ∧ (r.e.isInvalidOrPlaceholder = false → s.idx < s'.idx) := by
  have := (specs_all toks hne hl fuel).exprT true s hs
  unfold wp at this
  rw [show parseExpressionT toks false true fuel s = parseExpression toks false fuel s from rfl, h] at this
  exact this

end final


/-! ### Definitions, items loop, the main theorem -/

section level3
variable (toks : Toks) (hne : toks ≠ []) (hl : LexLike toks)
include hne hl

theorem mv_of_fw {s s' : St} (h : Fw toks s s') : Mv toks s.idx s'.idx := Mv.step h.1 h.2

theorem block_fw (fuel : Nat) (s : St) (hs : s.idx ≤ toks.length) :
    wp (parseBlock toks false fuel) (fun _ s' => Fw toks s s') s :=
  (specs_all toks hne hl fuel).block s hs

/-- A block that starts with `{` consumes it. -/
theorem block_strict (fuel : Nat) (s : St) (hs : s.idx ≤ toks.length) (hk : tokIs toks s.idx "{" = true) :
    wp (parseBlock toks false fuel) (fun _ s' => Sf toks s s') s := by
  cases fuel with
  | zero => rw [parseBlock]; simp [wp_outOfFuel]
  | succ fuel =>
    have ih := specs_all toks hne hl fuel
    rw [parseBlock]
    wpsimp'
    refine wp_mono (spec_requireToken toks hne "{" s hs) ?_
    intro o s1 m1
    have e1 := rt_eq m1.2 hk
    split
    · exact ⟨by omega, m1.1⟩
    · refine wp_mono (ih.blockL [] s1 m1.1) ?_
      intro es s2 m2
      refine wp_mono (spec_requireToken toks hne "}" s2 m2.2) ?_
      intro _ s3 m3
      have := m2.1; have b3 := rt_le m3.2
      exact ⟨by omega, m3.1⟩

theorem spec_popIfPublic (s : St) (hs : s.idx ≤ toks.length) :
    wp (popIfPublic toks) (fun _ s' => s'.idx ≤ toks.length ∧
      ((tokIs toks s.idx "public" = true ∧ s'.idx = s.idx + 1) ∨ (tokIs toks s.idx "public" = false ∧ s'.idx = s.idx))) s := by
  unfold popIfPublic
  wpsimp'
  refine ite_intro (fun c => ?_) fun c => ?_
  · obtain ⟨t, ht, _⟩ := tokIs_get c
    have := get_lt ht
    simp only [ht]
    refine ⟨by first | omega | (simp only []; omega), Or.inl ⟨c, ?_⟩⟩
    simp
  · refine ⟨hs, Or.inr ⟨by simpa using c, ?_⟩⟩
    simp

/-- The common head of `parse_function/method/enum/struct`: an optional `public`, then the keyword.
If the first token is `public` or the keyword, it is consumed. -/
theorem head_ok (kw : String) (hsym : isSymbolTok kw = true) (s : St) (hs : s.idx ≤ toks.length)
    (hk : tokIs toks s.idx "public" = true ∨ tokIs toks s.idx kw = true) :
    wp (popIfPublic toks >>= fun pub => requireToken toks kw >>= fun _ => (pure pub : P Bool))
      (fun _ s' => s'.idx ≤ toks.length ∧ s.idx < s'.idx ∧ ∀ j, Mv toks s'.idx j → s.idx < j) s := by
  wpsimp'
  refine wp_mono (spec_popIfPublic toks hne hl s hs) ?_
  intro pub s1 m1
  refine wp_mono (spec_requireToken toks hne kw s1 m1.1) ?_
  intro _ s2 m2
  have b2 := rt_le m2.2
  have hgt : s.idx < s2.idx := by
    rcases m1.2 with ⟨_, h⟩ | ⟨hf, h⟩
    · omega
    · rcases hk with hk | hk
      · rw [hk] at hf; cases hf
      · have : tokIs toks s1.idx kw = true := by
          have : s1 = ⟨s.idx, s1.diags⟩ := by cases s1; simp_all
          rw [this]; exact hk
        have := rt_eq m2.2 this
        omega
  refine ⟨m2.1, hgt, fun j hj => ?_⟩
  have hm : Mv toks (s.idx + 1) j := Mv.trans (Mv.step (by omega) m2.1) hj
  rcases hk with hk | hk
  · exact kw_strict hk (by decide) hm
  · exact kw_strict hk hsym hm

theorem parseFunction_ok (fuel : Nat) (s : St) (hs : s.idx ≤ toks.length)
    (hk : tokIs toks s.idx "public" = true ∨ tokIs toks s.idx "fun" = true) :
    wp (parseFunction toks false fuel) (fun _ s' => Sf toks s s') s := by
  unfold parseFunction
  have hh := head_ok toks hne hl "fun" (by decide) s hs hk
  simp only [wp_bind, wp_pure, wp_ite] at hh ⊢
  refine wp_mono hh ?_
  intro pub s1 m1
  refine wp_mono m1 ?_
  intro _ s2 m2
  refine wp_mono (spec_parseSymbol toks hne hl false s2 m2.1) ?_
  intro name s3 m3
  refine ite_intro (fun _ => ⟨m2.2.2 _ m3.1, m3.1.1⟩) fun _ => ?_
  refine wp_mono (parseTypeParams_ok toks hne hl fuel s3 m3.1.1) ?_
  intro tps s4 m4
  refine wp_mono (parseParameters_ok toks hne hl fuel s4 m4.1) ?_
  intro ps s5 m5
  refine wp_mono (parseColonAndHintOpt_ok toks hne hl fuel s5 m5.1) ?_
  intro r s6 m6
  refine wp_mono (block_fw toks hne hl fuel s6 m6.1) ?_
  intro b s7 m7
  exact ⟨m2.2.2 _ (Mv.trans (Mv.trans (Mv.trans (Mv.trans m3.1 m4) m5) m6) (mv_of_fw toks hne hl m7)), m7.2⟩

theorem parseMethod_ok (fuel : Nat) (s : St) (hs : s.idx ≤ toks.length)
    (hk : tokIs toks s.idx "public" = true ∨ tokIs toks s.idx "method" = true) :
    wp (parseMethod toks false fuel) (fun _ s' => Sf toks s s') s := by
  unfold parseMethod
  have hh := head_ok toks hne hl "method" (by decide) s hs hk
  simp only [wp_bind, wp_pure, wp_ite] at hh ⊢
  refine wp_mono hh ?_
  intro pub s1 m1
  refine wp_mono m1 ?_
  intro _ s2 m2
  refine wp_mono (spec_parseSymbol toks hne hl false s2 m2.1) ?_
  intro name s3 m3
  refine wp_mono (parseTypeParams_ok toks hne hl fuel s3 m3.1.1) ?_
  intro tps s4 m4
  refine wp_mono (parseParameters_ok toks hne hl fuel s4 m4.1) ?_
  intro ps s5 m5
  have fin : ∀ (s6 : St), s6.idx = s5.idx →
      wp (parseColonAndHintOpt toks false fuel) (fun a s' =>
        wp (parseBlock toks false fuel) (fun a_1 s' => Sf toks s s') s') s6 := by
    intro s6 h6
    refine wp_mono (parseColonAndHintOpt_ok toks hne hl fuel s6 (by rw [h6]; exact m5.1)) ?_
    intro r s7 m7
    refine wp_mono (block_fw toks hne hl fuel s7 m7.1) ?_
    intro b s8 m8
    exact ⟨m2.2.2 _ (Mv.trans (Mv.trans (Mv.trans (Mv.trans m3.1 m4) m5) (h6 ▸ m7)) (mv_of_fw toks hne hl m8)), m8.2⟩
  cases ps with
  | nil =>
    simp only [wp_bind, wp_diag, wp_pure]
    exact fin _ rfl
  | cons p rest =>
    simp only [wp_pure]
    exact fin _ rfl

theorem parseTest_ok (fuel : Nat) (s : St) (hs : s.idx ≤ toks.length) (hk : tokIs toks s.idx "test" = true) :
    wp (parseTest toks false fuel) (fun _ s' => Sf toks s s') s := by
  unfold parseTest
  wpsimp'
  refine wp_mono (spec_requireToken toks hne "test" s hs) ?_
  intro _ s1 m1
  have e1 := rt_eq m1.2 hk
  refine wp_mono (spec_parseSymbol toks hne hl false s1 m1.1) ?_
  intro name s2 m2
  have fin : ∀ s3 : St, Mv toks s2.idx s3.idx →
      wp (parseBlock toks false fuel) (fun a s' => Sf toks s s') s3 := by
    intro s3 h3
    refine wp_mono (block_fw toks hne hl fuel s3 h3.1) ?_
    intro b s4 m4
    exact ⟨kw_strict hk (by decide) (e1 ▸ Mv.trans (Mv.trans m2.1 h3) (mv_of_fw toks hne hl m4)), m4.2⟩
  refine ite_intro (fun _ => ?_) fun _ => ?_
  · refine wp_mono (parseParameters_ok toks hne hl fuel s2 m2.1.1) ?_
    intro _ s3 m3
    exact fin ⟨s3.idx, _⟩ m3
  · exact fin s2 (Mv.refl m2.1.1)

theorem parseVariant_ok (fuel : Nat) (s : St) (hs : s.idx ≤ toks.length) :
    wp (parseVariant toks false fuel) (fun _ s' => Mv toks s.idx s'.idx) s := by
  unfold parseVariant
  wpsimp'
  refine wp_mono (spec_parseSymbol toks hne hl false s hs) ?_
  intro name s1 m1
  refine ite_intro (fun c => ?_) fun _ => m1.1
  obtain ⟨t, ht, _⟩ := tokIs_get c
  have hlt := get_lt ht
  simp only [ht]
  refine wp_mono (hint_ok toks hne hl fuel ⟨s1.idx + 1, s1.diags⟩ (by first | omega | (simp only []; omega))) ?_
  intro h s2 m2
  refine wp_mono (spec_requireToken toks hne ")" s2 m2.1) ?_
  intro _ s3 m3
  have b3 := rt_le m3.2
  exact Mv.trans (Mv.trans (Mv.trans m1.1 (Mv.step (Nat.le_succ _) (by first | omega | (simp only []; omega)))) m2)
    (Mv.step b3.1 m3.1)

theorem enumBodyLoop_ok : ∀ fuel acc s, s.idx ≤ toks.length →
    wp (enumBodyLoop toks false fuel acc) (fun _ s' => Mv toks s.idx s'.idx) s := by
  intro fuel
  induction fuel with
  | zero => intro acc s hs; rw [enumBodyLoop]; simp [wp_outOfFuel]
  | succ fuel ih =>
    intro acc s hs
    rw [enumBodyLoop]
    wpsimp'
    refine ite_intro (fun _ => Mv.refl hs) fun _ => ?_
    refine wp_mono (parseVariant_ok toks hne hl fuel s hs) ?_
    intro v s1 m1
    cases ht1 : toks[s1.idx]? with
    | none => simp only [Option.map_none]; wpsimp'; exact m1
    | some t1 =>
      have hlt := get_lt ht1
      have hstep : Mv toks s.idx (s1.idx + 1) := Mv.trans m1 (Mv.step (Nat.le_succ _) (by omega))
      simp only [Option.map_some]
      wpsimp'
      refine ite_intro (fun _ => ?_) fun _ => ?_
      · simp only [ht1]
        refine ite_intro (fun _ => hstep) fun _ => ?_
        refine wp_mono (ih _ ⟨s1.idx + 1, s1.diags⟩ (by first | omega | (simp only []; omega))) ?_
        intro _ s2 m2
        exact Mv.trans hstep m2
      · refine ite_intro (fun _ => ?_) fun _ => ?_
        · exact m1
        · exact m1

theorem structFieldsLoop_ok : ∀ fuel acc s, s.idx ≤ toks.length →
    wp (structFieldsLoop toks false fuel acc) (fun _ s' => Mv toks s.idx s'.idx) s := by
  intro fuel
  induction fuel with
  | zero => intro acc s hs; rw [structFieldsLoop]; simp [wp_outOfFuel]
  | succ fuel ih =>
    intro acc s hs
    rw [structFieldsLoop]
    wpsimp'
    refine ite_intro (fun _ => Mv.refl hs) fun _ => ?_
    cases ht : toks[s.idx]? with
    | none => simp only [Option.map_none]; wpsimp'; exact Mv.refl hs
    | some t =>
      simp only [Option.map_some]
      wpsimp'
      refine wp_mono (spec_parseSymbol toks hne hl false s hs) ?_
      intro sym s1 m1
      refine wp_mono (parseColonAnd_ok toks hne hl fuel s1 m1.1.1) ?_
      intro h s2 m2
      have m12 := Mv.trans m1.1 m2
      cases ht2 : toks[s2.idx]? with
      | none => simp only [Option.map_none]; wpsimp'; exact m12
      | some t2 =>
        have hlt := get_lt ht2
        simp only [Option.map_some]
        wpsimp'
        refine ite_intro (fun _ => ?_) fun _ => ?_
        · simp only [ht2]
          refine wp_mono (ih _ ⟨s2.idx + 1, s2.diags⟩ (by first | omega | (simp only []; omega))) ?_
          intro _ s3 m3
          exact Mv.trans (Mv.trans m12 (Mv.step (Nat.le_succ _) (by first | omega | (simp only []; omega)))) m3
        · refine ite_intro (fun _ => ?_) fun _ => ?_
          · exact m12
          · exact m12

theorem parseEnum_ok (fuel : Nat) (s : St) (hs : s.idx ≤ toks.length)
    (hk : tokIs toks s.idx "public" = true ∨ tokIs toks s.idx "enum" = true) :
    wp (parseEnum toks false fuel) (fun _ s' => Sf toks s s') s := by
  unfold parseEnum
  have hh := head_ok toks hne hl "enum" (by decide) s hs hk
  simp only [wp_bind, wp_pure, wp_ite] at hh ⊢
  refine wp_mono hh ?_
  intro pub s1 m1
  refine wp_mono m1 ?_
  intro _ s2 m2
  refine wp_mono (spec_parseSymbol toks hne hl false s2 m2.1) ?_
  intro name s3 m3
  refine wp_mono (parseTypeParams_ok toks hne hl fuel s3 m3.1.1) ?_
  intro tps s4 m4
  refine wp_mono (spec_requiredTokenOk toks hne "{" s4 m4.1) ?_
  intro ok s5 m5
  have b5 := rt_le m5.2
  have m25 : Mv toks s2.idx s5.idx := Mv.trans (Mv.trans m3.1 m4) (Mv.step b5.1 m5.1)
  refine ite_intro (fun _ => ⟨m2.2.2 _ m25, m5.1⟩) fun _ => ?_
  refine wp_mono (enumBodyLoop_ok toks hne hl fuel [] s5 m5.1) ?_
  intro vs s6 m6
  refine wp_mono (spec_requireToken toks hne "}" s6 m6.1) ?_
  intro _ s7 m7
  have b7 := rt_le m7.2
  exact ⟨m2.2.2 _ (Mv.trans (Mv.trans m25 m6) (Mv.step b7.1 m7.1)), m7.1⟩

theorem parseStruct_ok (fuel : Nat) (s : St) (hs : s.idx ≤ toks.length)
    (hk : tokIs toks s.idx "public" = true ∨ tokIs toks s.idx "struct" = true) :
    wp (parseStruct toks false fuel) (fun _ s' => Sf toks s s') s := by
  unfold parseStruct
  have hh := head_ok toks hne hl "struct" (by decide) s hs hk
  simp only [wp_bind, wp_pure, wp_ite] at hh ⊢
  refine wp_mono hh ?_
  intro pub s1 m1
  refine wp_mono m1 ?_
  intro _ s2 m2
  refine wp_mono (spec_parseSymbol toks hne hl false s2 m2.1) ?_
  intro name s3 m3
  refine wp_mono (parseTypeParams_ok toks hne hl fuel s3 m3.1.1) ?_
  intro tps s4 m4
  refine wp_mono (spec_requiredTokenOk toks hne "{" s4 m4.1) ?_
  intro ok s5 m5
  have b5 := rt_le m5.2
  have m25 : Mv toks s2.idx s5.idx := Mv.trans (Mv.trans m3.1 m4) (Mv.step b5.1 m5.1)
  refine ite_intro (fun _ => ⟨m2.2.2 _ m25, m5.1⟩) fun _ => ?_
  refine wp_mono (structFieldsLoop_ok toks hne hl fuel [] s5 m5.1) ?_
  intro vs s6 m6
  refine wp_mono (spec_requireToken toks hne "}" s6 m6.1) ?_
  intro _ s7 m7
  have b7 := rt_le m7.2
  exact ⟨m2.2.2 _ (Mv.trans (Mv.trans m25 m6) (Mv.step b7.1 m7.1)), m7.1⟩

theorem parseImport_ok (s : St) (hs : s.idx ≤ toks.length) (hk : tokIs toks s.idx "import" = true) :
    wp (parseImport toks false) (fun _ s' => Sf toks s s') s := by
  unfold parseImport
  wpsimp'
  refine wp_mono (spec_requireToken toks hne "import" s hs) ?_
  intro _ s1 m1
  have e1 := rt_eq m1.2 hk
  cases ht : toks[s1.idx]? with
  | none => (try wpsimp'); exact ⟨by first | omega | (simp only []; omega), by first | exact m1.1 | (simp only []; exact m1.1)⟩
  | some t =>
    have hlt := get_lt ht
    refine ite_intro (fun _ => ?_) fun _ => ?_
    · refine wp_mono (spec_diagN toks hne _ _ _) ?_
      intro _ s2 m2
      have e2 : s2.idx = s1.idx + 1 := by simpa using m2
      refine ite_intro (fun c => ?_) fun _ => ?_
      · obtain ⟨t2, ht2, _⟩ := tokIs_get c
        have hlt2 := get_lt ht2
        simp only [ht2]
        refine wp_mono (spec_parseSymbol toks hne hl false ⟨s2.idx + 1, s2.diags⟩ (by first | omega | (simp only []; omega))) ?_
        intro sym s3 m3
        have hm : Mv toks (s.idx + 1) s3.idx :=
          Mv.trans (Mv.step (by simp only []; omega) (by first | omega | (simp only []; omega))) m3.1
        exact ⟨kw_strict hk (by decide) hm, m3.1.1⟩
      · exact ⟨by omega, by omega⟩
    · (try wpsimp'); exact ⟨by first | omega | (simp only []; omega), by first | omega | (simp only []; omega)⟩

/-- `parse_definition`: forward; an item came out only after something was consumed. -/
theorem parseDefinition_ok (fuel : Nat) (s : St) (hs : s.idx < toks.length) :
    wp (parseDefinition toks false fuel) (fun r s' => Fw toks s s' ∧ (r.isSome = true → s.idx < s'.idx)) s := by
  unfold parseDefinition
  wpsimp'
  have sf : ∀ {s' : St} {r : Option Item}, Sf toks s s' → Fw toks s s' ∧ (r.isSome = true → s.idx < s'.idx) :=
    fun h => ⟨⟨Nat.le_of_lt h.1, h.2⟩, fun _ => h.1⟩
  have hs' : s.idx ≤ toks.length := Nat.le_of_lt hs
  cases h0 : toks[s.idx]? with
  | none => have := get_none h0; omega
  | some t0 =>
    have kw : ∀ k : String, (t0.text == k) = true → tokIs toks s.idx k = true := by
      intro k hk; simp only [tokIs, h0]; exact hk
    cases h1 : toks[s.idx + 1]? with
    | none =>
      simp only [Option.map_some, Option.map_none]
      wpsimp'
      exact ⟨⟨Nat.le_refl _, hs'⟩, fun h => by simp at h⟩
    | some t1 =>
      simp only [Option.map_some]
      wpsimp'
      refine ite_intro (fun c => ?_) fun _ => ?_
      · have c1 : (t0.text == "fun") = true := by
          have c' := c; simp only [Bool.and_eq_true] at c'; exact c'.1
        exact wp_mono (parseFunction_ok toks hne hl fuel s hs' (Or.inr (kw _ c1))) (fun _ _ m => sf m)
      · refine ite_intro (fun c => ?_) fun _ => ?_
        · have c1 : (t0.text == "public") = true := by
            have c' := c; simp only [Bool.and_eq_true] at c'; exact c'.1.1
          exact wp_mono (parseFunction_ok toks hne hl fuel s hs' (Or.inl (kw _ c1))) (fun _ _ m => sf m)
        · refine ite_intro (fun c => ?_) fun _ => ?_
          · have c1 : tokIs toks s.idx "public" = true ∨ tokIs toks s.idx "method" = true := by
              have c' := c; simp only [Bool.or_eq_true, Bool.and_eq_true] at c'
              rcases c' with h | h
              · exact Or.inr (kw _ h)
              · exact Or.inl (kw _ h.1)
            refine wp_mono (parseMethod_ok toks hne hl fuel s hs' c1) ?_
            intro m s1 m1; exact sf m1
          · refine ite_intro (fun c => ?_) fun _ => ?_
            · refine wp_mono (parseTest_ok toks hne hl fuel s hs' (kw _ c)) ?_
              intro m s1 m1; exact sf m1
            · refine ite_intro (fun c => ?_) fun _ => ?_
              · have c1 : tokIs toks s.idx "public" = true ∨ tokIs toks s.idx "enum" = true := by
                  have c' := c; simp only [Bool.or_eq_true, Bool.and_eq_true] at c'
                  rcases c' with h | h
                  · exact Or.inr (kw _ h)
                  · exact Or.inl (kw _ h.1)
                refine wp_mono (parseEnum_ok toks hne hl fuel s hs' c1) ?_
                intro m s1 m1; exact sf m1
              · refine ite_intro (fun c => ?_) fun _ => ?_
                · have c1 : tokIs toks s.idx "public" = true ∨ tokIs toks s.idx "struct" = true := by
                    have c' := c; simp only [Bool.or_eq_true, Bool.and_eq_true] at c'
                    rcases c' with h | h
                    · exact Or.inr (kw _ h)
                    · exact Or.inl (kw _ h.1)
                  refine wp_mono (parseStruct_ok toks hne hl fuel s hs' c1) ?_
                  intro m s1 m1; exact sf m1
                · refine ite_intro (fun c => ?_) fun _ => ?_
                  · exact wp_mono (parseImport_ok toks hne hl s hs' (kw _ c)) (fun _ _ m => sf m)
                  · exact ⟨⟨Nat.le_refl _, hs'⟩, fun h => by simp at h⟩

/-- `parse_toplevel_item_from_tokens`: forward; an item that is not invalid / a placeholder consumed
at least one token (what the assertion at parser.rs:3067 checks). -/
theorem parseToplevelItem_ok (fuel : Nat) (s : St) (hs : s.idx < toks.length) :
    wp (parseToplevelItem toks false fuel) (fun r s' => Fw toks s s' ∧
      (∀ item, r = some item → item.isInvalidOrPlaceholder = false → s.idx < s'.idx)) s := by
  unfold parseToplevelItem
  wpsimp'
  have hs' : s.idx ≤ toks.length := Nat.le_of_lt hs
  cases h0 : toks[s.idx]? with
  | none => have := get_none h0; omega
  | some t0 =>
    simp only [Option.map_some]
    refine ite_intro (fun _ => ?_) fun _ => ?_
    · refine wp_mono (parseDefinition_ok toks hne hl fuel s hs) ?_
      intro r s1 m1
      exact ⟨m1.1, fun item hr _ => m1.2 (by rw [hr]; rfl)⟩
    · refine ite_intro (fun c => ?_) fun _ => ?_
      · have hk : tokIs toks s.idx "{" = true := by simp only [tokIs, h0]; exact c
        refine wp_mono (block_strict toks hne hl fuel s hs' hk) ?_
        intro b s1 m1
        exact ⟨⟨Nat.le_of_lt m1.1, m1.2⟩, fun _ _ _ => m1.1⟩
      · refine wp_mono ((specs_all toks hne hl fuel).exprT true s hs') ?_
        intro e s1 m1
        refine ⟨⟨m1.1, m1.2.1⟩, fun item hr hi => ?_⟩
        cases hr
        exact m1.2.2 hi

/-- `parse_toplevel_items_from_tokens`: the items loop (assertion parser.rs:3067) never panics. -/
theorem itemsLoop_ok : ∀ fuel acc s, s.idx ≤ toks.length →
    wp (itemsLoop toks false fuel acc) (fun _ s' => Fw toks s s') s := by
  intro fuel
  induction fuel with
  | zero => intro acc s hs; rw [itemsLoop]; simp [wp_outOfFuel]
  | succ fuel ih =>
    intro acc s hs
    rw [itemsLoop]
    wpsimp'
    refine ite_intro (fun _ => ⟨Nat.le_refl _, hs⟩) fun c => ?_
    have hlt : s.idx < toks.length := by omega
    refine wp_mono (parseToplevelItem_ok toks hne hl fuel s hlt) ?_
    intro r s1 m1
    cases r with
    | none => simp only [wp_pure]; exact m1.1
    | some item =>
      simp only []
      cases hi : item.isInvalidOrPlaceholder with
      | true => simp only [↓reduceIte, wp_pure]; exact m1.1
      | false =>
        have hgt := m1.2 item rfl hi
        simp only [Bool.false_eq_true, ↓reduceIte, wp_bind, wp_getIdx, wp_ite, wp_panic, gt_iff_lt, hgt]
        refine wp_mono (ih _ s1 m1.1.2) ?_
        intro _ s2 m2
        exact ⟨by have := m2.1; omega, m2.2⟩

end level3

/-- **C01, parser half — the whole parser.** For every non-empty token list with the two lexer
guarantees `LexLike` and EVERY fuel, `parse_toplevel_items` (the model of the repaired parser) does
not panic: none of the ten forward-progress assertions, the two `expect("TODO: handle empty …")`,
the `unwrap`s or `unpop` can fire. (With too little fuel the model answers `outOfFuel`, never `panic`;
termination is a separate matter and is not claimed here.) -/
theorem parse_no_panic (fuel : Nat) (toks : Toks) (hne : toks ≠ []) (hl : LexLike toks) :
    isPanic (parseItems fuel toks) = false := by
  unfold parseItems parseItemsCfg
  exact not_panic_of_wp toks hne hl (itemsLoop_ok toks hne hl fuel [] ⟨0, []⟩ (Nat.zero_le _))

/-- A concrete non-trivial token list satisfies the hypotheses: `let x = 1.5 + f(2)`. -/
example : LexLike [⟨"let", true, 0, 0⟩, ⟨"x", false, 0, 0⟩, ⟨"=", false, 0, 0⟩, ⟨"1.5", false, 0, 0⟩,
    ⟨"+", false, 0, 0⟩, ⟨"f", false, 0, 0⟩, ⟨"(", true, 0, 0⟩, ⟨"2", true, 0, 0⟩, ⟨")", true, 0, 0⟩] := by
  constructor <;> decide

/-! ### Evaluated witnesses (tests, not the theorem) -/

def isPanicAt {α} (site : String) : Res α → Bool
  | .panic s => s == site
  | _ => false

def isOk {α} : Res α → Bool
  | .ok _ _ => true
  | _ => false

/-- `(1, })` -/
def tupleToks : List Tok :=
  [⟨"(", true, 0, 0⟩, ⟨"1", true, 0, 0⟩, ⟨",", true, 0, 0⟩, ⟨"}", false, 0, 0⟩, ⟨")", true, 0, 0⟩]

/-- `let (a` -/
def letToks : List Tok := [⟨"let", true, 0, 0⟩, ⟨"(", false, 0, 0⟩, ⟨"a", true, 0, 0⟩]

/-- `fun f(a,` -/
def paramToks : List Tok :=
  [⟨"fun", true, 0, 0⟩, ⟨"f", false, 0, 0⟩, ⟨"(", true, 0, 0⟩, ⟨"a", true, 0, 0⟩, ⟨",", true, 0, 0⟩]

/-- `let x: (A,` -/
def hintToks : List Tok :=
  [⟨"let", true, 0, 0⟩, ⟨"x", false, 0, 0⟩, ⟨":", true, 0, 0⟩, ⟨"(", false, 0, 0⟩, ⟨"A", true, 0, 0⟩, ⟨",", true, 0, 0⟩]

/-- `fun f<T,` -/
def tparamToks : List Tok :=
  [⟨"fun", true, 0, 0⟩, ⟨"f", false, 0, 0⟩, ⟨"<", true, 0, 0⟩, ⟨"T", true, 0, 0⟩, ⟨",", true, 0, 0⟩]

theorem pinned_params_panics : isPanicAt "parser.rs:2183" (parseItemsCfg true 60 paramToks) = true := by decide
theorem fixed_params_ok : isOk (parseItemsCfg false 60 paramToks) = true := by decide
theorem pinned_tuple_hint_panics : isPanicAt "parser.rs:1995" (parseItemsCfg true 60 hintToks) = true := by decide
theorem fixed_tuple_hint_ok : isOk (parseItemsCfg false 60 hintToks) = true := by decide
theorem fixed_type_params_ok : isOk (parseItemsCfg false 60 tparamToks) = true := by decide
theorem pinned_tuple_panics : isPanicAt "parser.rs:328" (parseItemsCfg true 60 tupleToks) = true := by decide
theorem fixed_tuple_ok : isOk (parseItemsCfg false 60 tupleToks) = true := by decide
theorem pinned_let_dest_panics : isPanicAt "parser.rs:2812" (parseItemsCfg true 60 letToks) = true := by decide
theorem fixed_let_dest_ok : isOk (parseItemsCfg false 60 letToks) = true := by decide

end C01Parse

/-! ### The lexer model's output satisfies `LexLike` -/

set_option linter.unusedSimpArgs false

open Parse
theorem lexDigit_eq (c : Char) : Lex.isDigit c = c.isDigit := by
  rw [Bool.eq_iff_iff]
  simp only [Lex.isDigit, Char.isDigit, Char.toNat, Bool.and_eq_true, decide_eq_true_eq, ge_iff_le,
    UInt32.le_iff_toNat_le]
  have h0 : ('0' : Char).val.toNat = 48 := by decide
  have h9 : ('9' : Char).val.toNat = 57 := by decide
  rw [h0, h9]

theorem symStart_eq (c : Char) : Lex.isSymStart c = Parse.isSymStart c := by
  rw [Bool.eq_iff_iff]
  simp only [Lex.isSymStart, Parse.isSymStart, Char.isAlpha, Char.isUpper, Char.isLower, Char.toNat,
    Bool.or_eq_true, Bool.and_eq_true, decide_eq_true_eq, ge_iff_le, UInt32.le_iff_toNat_le, beq_iff_eq]
  have hA : ('A' : Char).val.toNat = 65 := by decide
  have hZ : ('Z' : Char).val.toNat = 90 := by decide
  have ha : ('a' : Char).val.toNat = 97 := by decide
  have hz : ('z' : Char).val.toNat = 122 := by decide
  rw [hA, hZ, ha, hz]
  constructor
  · rintro ((h | h) | h)
    · exact Or.inl (Or.inr h)
    · exact Or.inl (Or.inl h)
    · exact Or.inr h
  · rintro ((h | h) | h)
    · exact Or.inl (Or.inr h)
    · exact Or.inl (Or.inl h)
    · exact Or.inr h

namespace LexLikeProof
open Lex

theorem digitU_eq (c : Char) : Lex.isDigitU c = (c.isDigit || c == '_') := by
  simp [Lex.isDigitU, lexDigit_eq]

theorem symStart_not_digit {c : Char} (h : Lex.isSymStart c = true) : c.isDigit = false := by
  rw [← lexDigit_eq]
  simp only [Lex.isSymStart, Lex.isDigit, Bool.or_eq_true, Bool.and_eq_true, decide_eq_true_eq, beq_iff_eq] at h ⊢
  rcases h with (h | h) | h
  · simp; omega
  · simp; omega
  · subst h; decide

theorem digit_not_symStart {c : Char} (h : Lex.isDigit c = true) : Parse.isSymStart c = false := by
  rw [← symStart_eq]
  cases hs : Lex.isSymStart c with
  | false => rfl
  | true => have := symStart_not_digit hs; rw [← lexDigit_eq, h] at this; cases this

theorem digit_ne_minus {c : Char} (h : c.isDigit = true) : c ≠ '-' := by
  intro e; subst e; revert h; decide
theorem digit_ne_us {c : Char} (h : c.isDigit = true) : c ≠ '_' := by
  intro e; subst e; revert h; decide
theorem digit_ne_dot {c : Char} (h : c.isDigit = true) : c ≠ '.' := by
  intro e; subst e; revert h; decide

/-- `dropDigitsUnderscore` eats a `takeWhile isDigitU` prefix. -/
theorem dropDU_tw (r x : List Char) :
    dropDigitsUnderscore (r.takeWhile Lex.isDigitU ++ x) = dropDigitsUnderscore x := by
  induction r with
  | nil => simp
  | cons c r ih =>
    simp only [List.takeWhile_cons]
    cases hc : Lex.isDigitU c with
    | false => simp
    | true =>
      have : (c.isDigit || c == '_') = true := by rw [← digitU_eq]; exact hc
      simp only [↓reduceIte, List.cons_append, dropDigitsUnderscore, this, ih]

theorem dropDU_dot (x : List Char) : dropDigitsUnderscore ('.' :: x) = '.' :: x := by
  simp [dropDigitsUnderscore]

theorem dropDU_nil : dropDigitsUnderscore [] = [] := rfl

/-- An integer token does not look like a float. -/
theorem int_not_float {s m : List Char} (h : scanInt s = some m) : isFloatChars m = false := by
  unfold scanInt at h
  split at h
  · rename_i d r
    split at h
    · rename_i hd
      cases h
      have hd' : d.isDigit = true := by rw [← lexDigit_eq]; exact hd
      have := dropDU_tw r []
      simp only [List.append_nil] at this
      simp [isFloatChars, hd', this, dropDU_nil]
    · cases h
  · rename_i d r hne
    split at h
    · rename_i hd
      cases h
      have hd' : d.isDigit = true := by rw [← lexDigit_eq]; exact hd
      have hm := digit_ne_minus hd'
      have := dropDU_tw r []
      simp only [List.append_nil] at this
      simp [isFloatChars, hd', hm, this, dropDU_nil]
    · cases h
  · cases h

theorem span_loop_all {p : Char → Bool} (a : List Char) (x : Char) (b acc : List Char)
    (ha : ∀ c ∈ a, p c = true) (hx : p x = false) :
    List.span.loop p (a ++ x :: b) acc = (acc.reverse ++ a, x :: b) := by
  induction a generalizing acc with
  | nil => simp [List.span.loop, hx]
  | cons c a ih =>
    have hc := ha c (List.mem_cons_self ..)
    simp only [List.cons_append, List.span.loop, hc]
    rw [ih (c :: acc) (fun y hy => ha y (List.mem_cons_of_mem _ hy))]
    simp

theorem span_all {p : Char → Bool} (a : List Char) (x : Char) (b : List Char)
    (ha : ∀ c ∈ a, p c = true) (hx : p x = false) : (a ++ x :: b).span p = (a, x :: b) := by
  unfold List.span
  rw [span_loop_all a x b [] ha hx]
  simp

/-- After removing `_`, a `takeWhile isDigitU` run consists of digits. -/
theorem tw_filter_digits (r : List Char) :
    ∀ c ∈ (r.takeWhile Lex.isDigitU).filter (· != '_'), c.isDigit = true := by
  intro c hc
  rw [List.mem_filter] at hc
  have hall := List.all_eq_true.mp (List.all_takeWhile (l := r) (p := Lex.isDigitU)) c hc.1
  rw [digitU_eq] at hall
  have h2 : c ≠ '_' := by simpa using hc.2
  simpa [h2] using hall

theorem fw_core (d0 d : Char) (F0 F : List Char) (hd0 : d0.isDigit = true) (hd : d.isDigit = true)
    (hF0 : ∀ c ∈ F0, c.isDigit = true) (hF : ∀ c ∈ F, c.isDigit = true) :
    floatWhole (d0 :: (F0 ++ '.' :: d :: F)) = true ∧ floatWhole ('-' :: d0 :: (F0 ++ '.' :: d :: F)) = true := by
  have hsp := span_all (p := Char.isDigit) (d0 :: F0) '.' (d :: F)
    (by intro c hc; rcases List.mem_cons.mp hc with rfl | hc; exact hd0; exact hF0 c hc) (by decide)
  have hm0 := digit_ne_minus hd0
  have hall : (d :: F).all Char.isDigit = true := by
    rw [List.all_eq_true]; intro c hc; rcases List.mem_cons.mp hc with rfl | hc; exact hd; exact hF c hc
  have key : ∀ l : List Char, l = (d0 :: F0) ++ '.' :: (d :: F) → floatWhole l = true := by
    intro l hl
    unfold floatWhole
    simp only []
    split
    · rename_i a b heq
      split at heq
      · rename_i r'
        rw [List.cons_append] at hl
        injection hl with h1 _
        exact absurd h1.symm hm0
      · rw [hl, hsp] at heq
        injection heq with h1 h2
        injection h2 with _ h3
        subst h1 h3
        simp [hall]
    · rename_i hno
      exfalso
      refine hno (d0 :: F0) (d :: F) ?_
      split
      · rename_i r'
        rw [List.cons_append] at hl
        injection hl with h1 _
        exact absurd h1.symm hm0
      · rw [hl, hsp]
  constructor
  · exact key _ rfl
  · unfold floatWhole
    simp only []
    rw [show d0 :: (F0 ++ '.' :: d :: F) = (d0 :: F0) ++ '.' :: (d :: F) from rfl, hsp]
    simp [hall]

/-- A float token, with `_` removed, is `-?digits.digits`. -/
theorem float_whole {s m : List Char} (h : scanFloat s = some m) :
    floatWhole (m.filter (· != '_')) = true := by
  unfold scanFloat at h
  split at h
  · cases h
  · rename_i mi hmi
    split at h
    · rename_i d r hdrop
      split at h
      · rename_i hd
        cases h
        have hd' : d.isDigit = true := by rw [← lexDigit_eq]; exact hd
        have e2 : (d != '_') = true := by simpa using digit_ne_us hd'
        unfold scanInt at hmi
        split at hmi
        · rename_i d0 r0
          split at hmi
          · rename_i hd0
            cases hmi
            have hd0' : d0.isDigit = true := by rw [← lexDigit_eq]; exact hd0
            have e1 : (d0 != '_') = true := by simpa using digit_ne_us hd0'
            simp only [List.cons_append, List.filter_cons, List.filter_append, show (('-' : Char) != '_') = true by decide,
              show (('.' : Char) != '_') = true by decide, e1, e2, ↓reduceIte]
            exact (fw_core d0 d _ _ hd0' hd' (tw_filter_digits r0) (tw_filter_digits r)).2
          · cases hmi
        · rename_i d0 r0 hne
          split at hmi
          · rename_i hd0
            cases hmi
            have hd0' : d0.isDigit = true := by rw [← lexDigit_eq]; exact hd0
            have e1 : (d0 != '_') = true := by simpa using digit_ne_us hd0'
            simp only [List.cons_append, List.filter_cons, List.filter_append,
              show (('.' : Char) != '_') = true by decide, e1, e2, ↓reduceIte]
            exact (fw_core d0 d _ _ hd0' hd' (tw_filter_digits r0) (tw_filter_digits r)).1
          · cases hmi
        · cases hmi
      · cases h
    · cases h

/-- What a token text can be (`LexTables.garden`). -/
def Shape (m : List Char) : Prop :=
  m ∈ LexTables.garden.twoCharOps ++ LexTables.garden.twoCharTokens ∨
  (∃ c, c ∈ LexTables.garden.oneCharOps ++ LexTables.garden.oneCharTokens ∧ m = [c]) ∨
  (∃ s, scanFloat s = some m) ∨ (∃ s, scanInt s = some m) ∨
  (∃ r, m = '"' :: r ∧ m.head? = some '"') ∨ (∃ s, scanSymbol s = some m)

theorem symChar_ne_nl {c : Char} (h : Lex.isSymChar c = true) : c ≠ '\n' := by
  intro e; subst e; revert h; decide

/-- A token that looks like a float is a whole float. -/
theorem shape_float {m : List Char} (h : Shape m) (hf : isFloatChars m = true) :
    floatWhole (m.filter (· != '_')) = true := by
  rcases h with h | ⟨c, hc, rfl⟩ | ⟨s, h⟩ | ⟨s, h⟩ | ⟨r, rfl, _⟩ | ⟨s, h⟩
  · exfalso; revert hf; revert m; decide
  · exfalso; revert hf; revert c; decide
  · exact float_whole h
  · rw [int_not_float h] at hf; cases hf
  · simp [isFloatChars] at hf
  · exfalso
    unfold scanSymbol at h
    split at h
    · rename_i c r
      split at h
      · rename_i hc
        cases h
        have hnd := symStart_not_digit hc
        have hm : c ≠ '-' := by intro e; subst e; revert hc; decide
        have : isFloatChars (c :: r.takeWhile Lex.isSymChar) = false := by
          unfold isFloatChars
          split
          · rename_i heq
            injection heq with h3 _
            exact absurd h3 hm
          · simp [hnd]
        rw [this] at hf; cases hf
      · cases h
    · cases h

/-- A symbol-like token contains no newline. -/
theorem shape_sym {m : List Char} (h : Shape m) (c : Char) (r : List Char) (hm : m = c :: r)
    (hs : Parse.isSymStart c = true) : m.count '\n' = 0 := by
  rcases h with h | ⟨c', hc, rfl⟩ | ⟨s, h⟩ | ⟨s, h⟩ | ⟨r', rfl, _⟩ | ⟨s, h⟩
  · exfalso
    have key : ∀ e ∈ LexTables.garden.twoCharOps ++ LexTables.garden.twoCharTokens,
        (match e with | c :: _ => Parse.isSymStart c | [] => false) = false := by decide
    have := key m h
    rw [hm] at this
    simp only [] at this
    rw [hs] at this; cases this
  · exfalso; injection hm with h1 _; subst h1; revert hs; revert c'; decide
  · exfalso
    have := scanFloat_prefix h
    unfold scanFloat at h
    split at h
    · cases h
    · rename_i mi hmi
      -- the head of a float is the head of its integer part
      have hhead : ∃ d tl, mi = d :: tl ∧ (d = '-' ∨ Lex.isDigit d = true) := by
        unfold scanInt at hmi
        split at hmi
        · split at hmi
          · cases hmi; exact ⟨'-', _, rfl, Or.inl rfl⟩
          · cases hmi
        · rename_i d r0 _
          split at hmi
          · rename_i hd; cases hmi; exact ⟨d, _, rfl, Or.inr hd⟩
          · cases hmi
        · cases hmi
      obtain ⟨d, tl, hmi', hd⟩ := hhead
      split at h
      · split at h
        · cases h
          rw [hmi'] at hm
          injection hm with h1 _
          subst h1
          rcases hd with rfl | hd
          · revert hs; decide
          · rw [digit_not_symStart hd] at hs; cases hs
        · cases h
      · cases h
  · exfalso
    unfold scanInt at h
    split at h
    · split at h
      · cases h; injection hm with h1 _; subst h1; revert hs; decide
      · cases h
    · rename_i d r0 _
      split at h
      · rename_i hd; cases h; injection hm with h1 _; subst h1
        rw [digit_not_symStart hd] at hs; cases hs
      · cases h
    · cases h
  · exfalso; injection hm with h1 _; subst h1; revert hs; decide
  · unfold scanSymbol at h
    split at h
    · rename_i c0 r0
      split at h
      · cases h
        rw [List.count_eq_zero]
        intro hmem
        rcases List.mem_cons.mp hmem with e | hmem
        · rename_i hc0
          have : Lex.isSymChar '\n' = true := by rw [e]; simp [Lex.isSymChar, hc0]
          exact absurd this (by decide)
        · have := List.all_eq_true.mp (List.all_takeWhile (l := r0) (p := Lex.isSymChar)) _ hmem
          exact symChar_ne_nl this rfl
      · cases h
    · cases h

def ShapeAll (ts : List Token) : Prop := ∀ t ∈ ts, Shape t.text

theorem adv_shape {st st' : State} {n : Nat} {ts : List Token} (h : advance st n = .next st')
    (ht : st.toks = ts) (hs : ShapeAll ts) : ShapeAll st'.toks := by
  unfold advance at h
  split at h
  · cases h
  · cases h; simp only; rw [ht]; exact hs

theorem emit_shape {cfg : Cfg} {lp : List (Nat × Nat)} {st st' : State} {m : List Char} {err : Option ErrKind}
    (h : emit cfg lp st m err = .next st') (hs : ShapeAll st.toks) (hm : Shape m) : ShapeAll st'.toks := by
  unfold emit at h
  split at h
  · cases h
  · rename_i p hp
    refine adv_shape h rfl ?_
    intro t ht
    rcases List.mem_cons.mp ht with rfl | ht
    · exact hm
    · exact hs t ht

theorem strBody_head (any : Bool) (r : List Char) :
    (('"' :: strBody any false r).takeWhile (· != '\n')) = '"' :: (strBody any false r).takeWhile (· != '\n') := by
  simp [List.takeWhile_cons]

theorem step_shape {cfg : Cfg} {lp : List (Nat × Nat)} {endOff : Nat} {st st' : State}
    (h : step LexTables.garden cfg lp endOff st = .next st') (hs : ShapeAll st.toks) : ShapeAll st'.toks := by
  unfold step at h
  split at h
  · cases h
  · simp only [] at h
    split at h
    · -- comment
      split at h
      · cases h
      · exact adv_shape h rfl hs
    · split at h
      · cases h
      · rename_i c rest hrest
        split at h
        · exact adv_shape h rfl hs
        · split at h
          · rename_i e he
            exact emit_shape h hs (Or.inl (List.mem_of_find?_eq_some he))
          · split at h
            · rename_i m hm
              exact emit_shape h hs (Or.inr (Or.inr (Or.inl ⟨_, hm⟩)))
            · split at h
              · rename_i m hm
                exact emit_shape h hs (Or.inr (Or.inr (Or.inr (Or.inl ⟨_, hm⟩))))
              · split at h
                · rename_i hc
                  split at h
                  · refine emit_shape h hs (Or.inr (Or.inl ⟨c, ?_, rfl⟩))
                    simpa using hc
                  · cases h
                · split at h
                  · rename_i m hm
                    have hq : ∃ r, m = '"' :: r := by
                      unfold scanString at hm
                      split at hm
                      · split at hm
                        · cases hm; exact ⟨_, rfl⟩
                        · cases hm
                      · cases hm
                    obtain ⟨r, rfl⟩ := hq
                    split at h
                    · exact emit_shape h hs (Or.inr (Or.inr (Or.inr (Or.inr (Or.inl ⟨r, rfl, rfl⟩)))))
                    · refine emit_shape h hs (Or.inr (Or.inr (Or.inr (Or.inr (Or.inl ⟨r.takeWhile (· != '\n'), ?_, ?_⟩)))))
                      · simp [List.takeWhile_cons]
                      · simp [List.takeWhile_cons]
                  · split at h
                    · rename_i m hm
                      exact emit_shape h hs (Or.inr (Or.inr (Or.inr (Or.inr (Or.inr ⟨_, hm⟩)))))
                    · split at h
                      · cases h
                      · split at h
                        · cases h
                        · exact adv_shape h rfl hs

theorem loop_shape {cfg : Cfg} {lp : List (Nat × Nat)} {endOff : Nat} :
    ∀ (fuel : Nat) (st : State), ShapeAll st.toks →
      ShapeAll (loop LexTables.garden cfg lp endOff fuel st).tokens := by
  intro fuel
  induction fuel with
  | zero => intro st _; simp [loop, Outcome.tokens, ShapeAll]
  | succ n ih =>
    intro st hs
    unfold loop
    split
    · simp only [Outcome.tokens]
      intro t ht
      exact hs t (by simpa using ht)
    · simp [Outcome.tokens, ShapeAll]
    · rename_i st' hst
      exact ih st' (step_shape hst hs)

/-- Every token of the lexer model has one of the six shapes. -/
theorem lex_shape (src : List Char) (strAny : Bool) :
    ShapeAll (lex LexTables.garden src strAny).tokens := by
  unfold lex lexWith lexBetweenFuel
  split
  · simp [Outcome.tokens, ShapeAll]
  · simp only []
    split
    · split <;> simp [Outcome.tokens, ShapeAll]
    · exact loop_shape _ _ (by simp [ShapeAll])

/-- The parser's view of the lexer's tokens (as `Driver/Parse.lean` builds it from the `lex` dump):
text, does-it-touch-the-previous-token (token 0: does it start at offset 0), start line, end line. -/
def convGo : List Token → Nat → List Parse.Tok
  | [], _ => []
  | t :: r, prevEnd =>
    ⟨String.ofList t.text, t.pos.start == prevEnd, t.pos.line, t.pos.endLine⟩ :: convGo r t.pos.stop

def toParseToks (ts : List Token) : List Parse.Tok := convGo ts 0

theorem mem_convGo {ts : List Token} {k : Nat} {t' : Parse.Tok} (h : t' ∈ convGo ts k) :
    ∃ t ∈ ts, t'.text = String.ofList t.text ∧ t'.line = t.pos.line ∧ t'.endLine = t.pos.endLine := by
  induction ts generalizing k with
  | nil => simp [convGo] at h
  | cons t r ih =>
    simp only [convGo, List.mem_cons] at h
    rcases h with rfl | h
    · exact ⟨t, List.mem_cons_self .., rfl, rfl, rfl⟩
    · obtain ⟨t0, h0, h1⟩ := ih h
      exact ⟨t0, List.mem_cons_of_mem _ h0, h1⟩

/-- **The lexer model's output satisfies the hypothesis of `C01Parse.parse_no_panic`.** -/
theorem lex_lexLike (src : List Char) (strAny : Bool) :
    C01Parse.LexLike (toParseToks (lex LexTables.garden src strAny).tokens) := by
  have hshape := lex_shape src strAny
  obtain ⟨toks, tr, errs, hok, htoks, _, _⟩ := lex_ok garden_wf src strAny
  constructor
  · intro t' ht' hf
    obtain ⟨t, ht, e1, _, _⟩ := mem_convGo ht'
    rw [e1] at hf ⊢
    simp only [isFloatTok, String.toList_ofList] at hf ⊢
    exact shape_float (hshape t ht) hf
  · intro t' ht' hsym
    obtain ⟨t, ht, e1, e2, e3⟩ := mem_convGo ht'
    rw [e1] at hsym
    simp only [isSymbolTok, String.toList_ofList] at hsym
    rw [e2, e3]
    have htok : TokOK src t := by
      rw [hok] at ht
      exact (htoks t (by simpa [Outcome.tokens] using ht)).1
    obtain ⟨pre, post, _, hpos⟩ := htok
    cases htext : t.text with
    | nil => rw [htext] at hsym; simp at hsym
    | cons c r =>
      rw [htext] at hsym
      simp only [] at hsym
      have hcount := shape_sym (hshape t ht) c r htext hsym
      rw [hpos]
      simp only [specPos, lineOf, List.count_append, hcount, Nat.add_zero]

end LexLikeProof

/-- `parse_toplevel_items` on an empty token stream returns immediately. -/
theorem parse_no_panic_nil (fuel : Nat) : C01Parse.isPanic (Parse.parseItems fuel []) = false := by
  cases fuel with
  | zero => simp [Parse.parseItems, Parse.parseItemsCfg, Parse.itemsLoop, Parse.outOfFuel, C01Parse.isPanic]
  | succ n =>
    simp [Parse.parseItems, Parse.parseItemsCfg, Parse.itemsLoop, ParseLemmas.bind_apply, Parse.P.bind, Parse.getIdx,
      ParseLemmas.pure_apply, C01Parse.isPanic]

/-- **Lexer model ∘ parser model never panics**: for every source text (and either `STRING_RE`) and
every fuel, the parser model run on the lexer model's tokens does not panic. No hypothesis left:
`LexLike` is discharged by `lex_lexLike`, the empty stream by `parse_no_panic_nil`. -/
theorem lex_parse_no_panic (src : List Char) (strAny : Bool) (fuel : Nat) :
    C01Parse.isPanic (Parse.parseItems fuel
      (LexLikeProof.toParseToks (Lex.lex Lex.LexTables.garden src strAny).tokens)) = false := by
  by_cases h : LexLikeProof.toParseToks (Lex.lex Lex.LexTables.garden src strAny).tokens = []
  · rw [h]; exact parse_no_panic_nil fuel
  · exact C01Parse.parse_no_panic fuel _ h (LexLikeProof.lex_lexLike src strAny)
