#!/usr/bin/env python3
"""Rewrites the generated blocks of DESIGN.md (between <!-- BEGIN:x --> and <!-- END:x -->) from
MANIFEST.json, known_findings.json, evidence/*.json and seeded/*/meta.json."""
import glob
import json
import os
import re

ROOT = os.path.dirname(os.path.dirname(os.path.abspath(__file__)))


def block(name, text, s):
    b, e = "<!-- BEGIN:%s -->" % name, "<!-- END:%s -->" % name
    if b not in s:
        return s
    i, j = s.index(b) + len(b), s.index(e)
    return s[:i] + "\n" + text.rstrip() + "\n" + s[j:]


def main():
    man = json.load(open(os.path.join(ROOT, "MANIFEST.json")))
    kf = json.load(open(os.path.join(ROOT, "known_findings.json")))
    props = [json.loads(l) for l in open(os.path.join(ROOT, "properties.jsonl"))]
    checks = {c["property_id"]: c for c in man["checks"]}
    rows = ["| Id | Title | Level | Obligations (discharged) | Cases in last quick run (non-trivial) | Known findings | Strength |",
            "|---|---|---|---|---|---|---|"]
    for p in props:
        pid = p["id"]
        c = checks.get(pid)
        ev = None
        try:
            ev = json.load(open(os.path.join(ROOT, "evidence", pid + ".json")))
        except Exception:
            pass
        nkf = len([f for f in kf["findings"] if f["property"] == pid])
        if not c:
            rows.append("| %s | %s | not claimed | | | %d | |" % (pid, p["title"], nkf))
            continue
        cov = (ev or {}).get("coverage", {})
        txt = c["level_claimed"]["text"] + " " + c["level_note"]
        strength = "partial" if re.search(r"PARTIAL|_partial|partial", txt) else "full on the model"
        rows.append("| %s | %s | %s | %s (%s) | %s (%s) | %d | %s |" % (
            pid, p["title"], c["level_claimed"]["category"], cov.get("obligations", "?"), cov.get("discharged", "?"),
            cov.get("evaluations", "?"), cov.get("distinct_nontrivial", "?"), nkf, strength))
    s = open(os.path.join(ROOT, "DESIGN.md")).read()
    s = block("status-table", "\n".join(rows), s)
    # known findings
    kl = ["| Property | Key | What |", "|---|---|---|"]
    for f in kf["findings"]:
        kl.append("| %s | `%s` | %s |" % (f["property"], f["key"], f["what"].replace("|", "\\|").replace("\n", " ")[:260]))
    s = block("known-findings", "\n".join(kl), s)
    fl = ["- " + x for x in kf.get("fixed", [])]
    s = block("fixed", "\n".join(fl), s)
    # seeded
    sl = ["| Seeded change | Property | What it is | Needs | Outcome |", "|---|---|---|---|---|"]
    for mp in sorted(glob.glob(os.path.join(ROOT, "seeded", "*", "meta.json"))):
        m = json.load(open(mp))
        v = m.get("verification", {})
        sl.append("| %s | %s | %s | %s | %s |" % (
            os.path.basename(os.path.dirname(mp)), m.get("property", ""),
            str(m.get("summary", "")).replace("|", "\\|").replace("\n", " ")[:300],
            str(m.get("needs", "")).replace("|", "\\|").replace("\n", " ")[:200],
            (str(v.get("caught_by", "not yet run")) + ((" — strengthened: " + v["strengthened"]) if v.get("strengthened") else "")
             ).replace("|", "\\|")))
    s = block("seeded", "\n".join(sl), s)
    open(os.path.join(ROOT, "DESIGN.md"), "w").write(s)
    print("DESIGN.md blocks regenerated")


if __name__ == "__main__":
    main()
