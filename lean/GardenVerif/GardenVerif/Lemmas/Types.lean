import GardenVerif.Model.Types
/-! Helper lemmas for the subtype / unify model (used by Props/C14, Props/C15). -/
set_option linter.unusedVariables false
set_option linter.unusedSimpArgs false

mutual
theorem Ty.sub_refl : ∀ t : Ty, Ty.sub t t = true
  | .any => by simp [Ty.sub]
  | .tuple items => by simp [Ty.sub, Ty.subAll_refl items]
  | .fn n tp ps r => by simp [Ty.sub, Ty.subAllFlip_refl ps, Ty.sub_refl r]
  | .user k n as => by simp [Ty.sub, Ty.subAll_refl as]
  | .param a => by simp [Ty.sub]
  | .err => by simp [Ty.sub]
theorem Ty.subAll_refl : ∀ ts : List Ty, Ty.subAll ts ts = true
  | [] => by simp [Ty.subAll]
  | t :: ts => by simp [Ty.subAll, Ty.sub_refl t, Ty.subAll_refl ts]
theorem Ty.subAllFlip_refl : ∀ ts : List Ty, Ty.subAllFlip ts ts = true
  | [] => by simp [Ty.subAllFlip]
  | t :: ts => by simp [Ty.subAllFlip, Ty.sub_refl t, Ty.subAllFlip_refl ts]
end

mutual
theorem Ty.sub_trans (sig : String → Nat) : ∀ (b a c : Ty),
    Ty.wf sig a = true → Ty.wf sig b = true → Ty.wf sig c = true →
    Ty.noErr a = true → Ty.noErr b = true → Ty.noErr c = true →
    Ty.sub a b = true → Ty.sub b c = true → Ty.sub a c = true
  | .any, a, c, wa, wb, wc, na, nb, nc, hab, hbc => by
      cases c <;> simp [Ty.sub, Ty.noErr] at hbc nc ⊢
  | .tuple bs, a, c, wa, wb, wc, na, nb, nc, hab, hbc => by
      cases a <;> cases c <;> simp [Ty.sub, Ty.noErr, Ty.wf] at hab hbc na nb nc wa wb wc ⊢
      case tuple.tuple as cs =>
        exact ⟨by omega, Ty.subAll_trans sig bs as cs hab.1 hbc.1 wa wb wc na nb nc hab.2 hbc.2⟩
      all_goals (first | assumption | omega | (intro h; simp_all))
  | .fn n tp ps r, a, c, wa, wb, wc, na, nb, nc, hab, hbc => by
      cases a <;> cases c <;> simp [Ty.sub, Ty.noErr, Ty.wf] at hab hbc na nb nc wa wb wc ⊢
      case fn.fn n1 tp1 ps1 r1 n3 tp3 ps3 r3 =>
        refine ⟨by omega, ?_, ?_⟩
        · exact Ty.subAllFlip_trans sig ps ps1 ps3 hab.1 hbc.1 wa.1 wb.1 wc.1 na.1 nb.1 nc.1 hab.2.1 hbc.2.1
        · exact Ty.sub_trans sig r r1 r3 wa.2 wb.2 wc.2 na.2 nb.2 nc.2 hab.2.2 hbc.2.2
      all_goals (first | assumption | omega | (intro h; simp_all))
  | .user k n bs, a, c, wa, wb, wc, na, nb, nc, hab, hbc => by
      cases a <;> cases c <;> simp [Ty.sub, Ty.noErr, Ty.wf] at hab hbc na nb nc wa wb wc ⊢
      case user.user k1 n1 as k3 n3 cs =>
        rcases hab with h | ⟨h1, h2⟩
        · exact Or.inl h
        · subst h1
          rcases hbc with h | ⟨h3, h4⟩
          · exact Or.inl h
          · subst h3
            exact Or.inr ⟨rfl, Ty.subAll_trans sig bs as cs (by omega) (by omega) wa.2 wb.2 wc.2 na nb nc h2 h4⟩
      case user.tuple => rcases hab with h | ⟨h, _⟩ <;> first | exact h | exact h.trans hbc
      case user.fn => rcases hab with h | ⟨h, _⟩ <;> first | exact h | exact h.trans hbc
      case user.param => rcases hab with h | ⟨h, _⟩ <;> first | exact h | exact h.trans hbc
      all_goals (first | assumption | omega | (intro h; simp_all) | simp_all)
  | .param p, a, c, wa, wb, wc, na, nb, nc, hab, hbc => by
      cases a <;> cases c <;> simp [Ty.sub, Ty.noErr, Ty.wf] at hab hbc na nb nc wa wb wc ⊢
      all_goals (first | assumption | omega | (intro h; simp_all) | simp_all)
  | .err, a, c, wa, wb, wc, na, nb, nc, hab, hbc => by
      simp [Ty.noErr] at nb
theorem Ty.subAll_trans (sig : String → Nat) : ∀ (bs as cs : List Ty),
    as.length = bs.length → bs.length = cs.length →
    Ty.wfList sig as = true → Ty.wfList sig bs = true → Ty.wfList sig cs = true →
    Ty.noErrList as = true → Ty.noErrList bs = true → Ty.noErrList cs = true →
    Ty.subAll as bs = true → Ty.subAll bs cs = true → Ty.subAll as cs = true
  | [], as, cs, h1, h2, wa, wb, wc, na, nb, nc, hab, hbc => by
      cases as <;> cases cs <;> simp_all [Ty.subAll]
  | b :: bs, as, cs, h1, h2, wa, wb, wc, na, nb, nc, hab, hbc => by
      cases as with
      | nil => simp at h1
      | cons a as =>
        cases cs with
        | nil => simp at h2
        | cons c cs =>
          simp [Ty.subAll, Ty.wfList, Ty.noErrList] at *
          exact ⟨Ty.sub_trans sig b a c wa.1 wb.1 wc.1 na.1 nb.1 nc.1 hab.1 hbc.1,
                 Ty.subAll_trans sig bs as cs h1 h2 wa.2 wb.2 wc.2 na.2 nb.2 nc.2 hab.2 hbc.2⟩
theorem Ty.subAllFlip_trans (sig : String → Nat) : ∀ (bs as cs : List Ty),
    as.length = bs.length → bs.length = cs.length →
    Ty.wfList sig as = true → Ty.wfList sig bs = true → Ty.wfList sig cs = true →
    Ty.noErrList as = true → Ty.noErrList bs = true → Ty.noErrList cs = true →
    Ty.subAllFlip as bs = true → Ty.subAllFlip bs cs = true → Ty.subAllFlip as cs = true
  | [], as, cs, h1, h2, wa, wb, wc, na, nb, nc, hab, hbc => by
      cases as <;> cases cs <;> simp_all [Ty.subAllFlip]
  | b :: bs, as, cs, h1, h2, wa, wb, wc, na, nb, nc, hab, hbc => by
      cases as with
      | nil => simp at h1
      | cons a as =>
        cases cs with
        | nil => simp at h2
        | cons c cs =>
          simp [Ty.subAllFlip, Ty.wfList, Ty.noErrList] at *
          exact ⟨Ty.sub_trans sig b c a wc.1 wb.1 wa.1 nc.1 nb.1 na.1 hbc.1 hab.1,
                 Ty.subAllFlip_trans sig bs as cs h1 h2 wa.2 wb.2 wc.2 na.2 nb.2 nc.2 hab.2 hbc.2⟩
end

mutual
theorem Ty.eq_of_beq : ∀ (a b : Ty), Ty.beq a b = true → a = b
  | .any, b, h => by cases b <;> simp [Ty.beq] at h ⊢
  | .tuple as, b, h => by
      cases b <;> simp [Ty.beq] at h ⊢
      exact Ty.eq_of_beqList as _ h
  | .fn n tp ps r, b, h => by
      cases b <;> simp [Ty.beq] at h ⊢
      exact ⟨h.1.1.1, h.1.1.2, Ty.eq_of_beqList ps _ h.1.2, Ty.eq_of_beq r _ h.2⟩
  | .user k n as, b, h => by
      cases b <;> simp [Ty.beq] at h ⊢
      exact ⟨h.1.1, h.1.2, Ty.eq_of_beqList as _ h.2⟩
  | .param p, b, h => by cases b <;> simp [Ty.beq] at h ⊢; exact h
  | .err, b, h => by cases b <;> simp [Ty.beq] at h ⊢
theorem Ty.eq_of_beqList : ∀ (as bs : List Ty), Ty.beqList as bs = true → as = bs
  | [], bs, h => by cases bs <;> simp [Ty.beqList] at h ⊢
  | a :: as, bs, h => by
      cases bs <;> simp [Ty.beqList] at h ⊢
      exact ⟨Ty.eq_of_beq a _ h.1, Ty.eq_of_beqList as _ h.2⟩
end

mutual
theorem Ty.beq_refl : ∀ (a : Ty), Ty.beq a a = true
  | .any => by simp [Ty.beq]
  | .tuple as => by simp [Ty.beq, Ty.beqList_refl as]
  | .fn n tp ps r => by simp [Ty.beq, Ty.beqList_refl ps, Ty.beq_refl r]
  | .user k n as => by simp [Ty.beq, Ty.beqList_refl as]
  | .param p => by simp [Ty.beq]
  | .err => by simp [Ty.beq]
theorem Ty.beqList_refl : ∀ (as : List Ty), Ty.beqList as as = true
  | [] => by simp [Ty.beqList]
  | a :: as => by simp [Ty.beqList, Ty.beq_refl a, Ty.beqList_refl as]
end
theorem Ty.sub_of_isNoValue (a c : Ty) (h : a.isNoValue = true) : Ty.sub a c = true := by
  cases a <;> simp [Ty.isNoValue] at h
  subst h
  cases c <;> simp [Ty.sub]

theorem Ty.sub_of_isErr (a c : Ty) (h : a.isErr = true) : Ty.sub a c = true := by
  cases a <;> simp [Ty.isErr] at h
  cases c <;> simp [Ty.sub]

theorem Ty.sub_any (a : Ty) : Ty.sub a .any = true := by
  cases a <;> simp [Ty.sub]

mutual
theorem Ty.unify_upper : ∀ (a b c : Ty), Ty.unify a b = some c →
    Ty.sub a c = true ∧ Ty.sub b c = true
  | a, b, c, h => by
    unfold Ty.unify at h
    split at h
    · cases h; exact ⟨Ty.sub_any a, Ty.sub_any b⟩
    · split at h
      · rename_i h1
        cases h
        refine ⟨?_, Ty.sub_refl b⟩
        rcases Bool.or_eq_true _ _ |>.mp h1 with h1 | h1
        · exact Ty.sub_of_isNoValue a b h1
        · exact Ty.sub_of_isErr a b h1
      · split at h
        · rename_i h1
          cases h
          refine ⟨Ty.sub_refl a, ?_⟩
          rcases Bool.or_eq_true _ _ |>.mp h1 with h1 | h1
          · exact Ty.sub_of_isNoValue b a h1
          · exact Ty.sub_of_isErr b a h1
        · split at h
          · rename_i h1
            cases h
            have := Ty.eq_of_beq a b h1
            subst this
            exact ⟨Ty.sub_refl a, Ty.sub_refl a⟩
          · rename_i hnany hnnv1 hnnv2 hnbeq
            split at h
            · rename_i k1 n1 a1 k2 n2 a2
              split at h
              · cases h
              · rename_i hcond
                simp at hcond
                obtain ⟨⟨hk, hn⟩, hl⟩ := hcond
                split at h
                · rename_i args hargs
                  cases h
                  have ih := Ty.unifyArgs_upper a1 a2 args hargs hl
                  simp [Ty.isNoValue] at hnnv1 hnnv2
                  subst hn
                  simp [Ty.sub, hnnv1, hnnv2]
                  exact ⟨ih.1, ih.2.1⟩
                · cases h
            · cases h
theorem Ty.unifyArgs_upper : ∀ (as bs cs : List Ty), Ty.unifyArgs as bs = some cs →
    as.length = bs.length →
    Ty.subAll as cs = true ∧ Ty.subAll bs cs = true ∧ cs.length = as.length
  | [], bs, cs, h, hl => by
      cases bs <;> simp [Ty.unifyArgs] at h hl ⊢
      subst h; simp [Ty.subAll]
  | a :: as, bs, cs, h, hl => by
      cases bs with
      | nil => simp at hl
      | cons b bs =>
        simp [Ty.unifyArgs] at h hl
        split at h
        · cases h
        · rename_i c hc
          split at h
          · cases h
          · rename_i cs' hcs
            cases h
            have ih1 := Ty.unify_upper a b c hc
            have ih2 := Ty.unifyArgs_upper as bs cs' hcs hl
            simp [Ty.subAll, ih1.1, ih1.2, ih2.1, ih2.2.1, ih2.2.2]
end

mutual
theorem Ty.unify_ok (sig : String → Nat) : ∀ (a b c : Ty), Ty.unify a b = some c →
    Ty.wf sig a = true → Ty.wf sig b = true → Ty.noErr a = true → Ty.noErr b = true →
    Ty.wf sig c = true ∧ Ty.noErr c = true
  | a, b, c, h, wa, wb, na, nb => by
    unfold Ty.unify at h
    split at h
    · cases h; simp [Ty.wf, Ty.noErr]
    · split at h
      · cases h; exact ⟨wb, nb⟩
      · split at h
        · cases h; exact ⟨wa, na⟩
        · split at h
          · cases h; exact ⟨wa, na⟩
          · rename_i hnany hnnv1 hnnv2 hnbeq
            split at h
            · rename_i k1 n1 a1 k2 n2 a2
              split at h
              · cases h
              · rename_i hcond
                simp at hcond
                obtain ⟨⟨hk, hn⟩, hl⟩ := hcond
                split at h
                · rename_i args hargs
                  cases h
                  simp [Ty.wf, Ty.noErr] at wa wb na nb ⊢
                  have ih := Ty.unifyArgs_ok sig a1 a2 args hargs hl wa.2 wb.2 na nb
                  exact ⟨⟨by omega, ih.1⟩, ih.2.1⟩
                · cases h
            · cases h
theorem Ty.unifyArgs_ok (sig : String → Nat) : ∀ (as bs cs : List Ty), Ty.unifyArgs as bs = some cs →
    as.length = bs.length →
    Ty.wfList sig as = true → Ty.wfList sig bs = true →
    Ty.noErrList as = true → Ty.noErrList bs = true →
    Ty.wfList sig cs = true ∧ Ty.noErrList cs = true ∧ cs.length = as.length
  | [], bs, cs, h, hl, wa, wb, na, nb => by
      cases bs <;> simp [Ty.unifyArgs] at h hl ⊢
      subst h; simp [Ty.wfList, Ty.noErrList]
  | a :: as, bs, cs, h, hl, wa, wb, na, nb => by
      cases bs with
      | nil => simp at hl
      | cons b bs =>
        simp [Ty.unifyArgs] at h hl
        simp [Ty.wfList, Ty.noErrList] at wa wb na nb
        split at h
        · cases h
        · rename_i c hc
          split at h
          · cases h
          · rename_i cs' hcs
            cases h
            have ih1 := Ty.unify_ok sig a b c hc wa.1 wb.1 na.1 nb.1
            have ih2 := Ty.unifyArgs_ok sig as bs cs' hcs hl wa.2 wb.2 na.2 nb.2
            simp [Ty.wfList, Ty.noErrList, ih1.1, ih1.2, ih2.1, ih2.2.1, ih2.2.2]
end

theorem Ty.unify_self (a : Ty) : Ty.unify a a = some a := by
  unfold Ty.unify
  cases a <;> simp [Ty.isAny, Ty.isNoValue, Ty.isErr, Ty.beq_refl]

theorem Ty.unifyAllFrom_upper (sig : String → Nat) : ∀ (ts : List Ty) (acc c : Ty) (idx : Nat),
    Ty.unifyAllFrom acc idx ts = .ok c →
    Ty.wf sig acc = true → Ty.noErr acc = true →
    (∀ t ∈ ts, Ty.wf sig t = true ∧ Ty.noErr t = true) →
    Ty.sub acc c = true ∧ (∀ t ∈ ts, Ty.sub t c = true) ∧ Ty.wf sig c = true ∧ Ty.noErr c = true
  | [], acc, c, idx, h, wa, na, hts => by
      simp [Ty.unifyAllFrom] at h
      subst h
      exact ⟨Ty.sub_refl _, by simp, wa, na⟩
  | t :: ts, acc, c, idx, h, wa, na, hts => by
      simp [Ty.unifyAllFrom] at h
      split at h
      · cases h
      · rename_i u hu
        have ht := hts t (by simp)
        have up := Ty.unify_upper acc t u hu
        have ok := Ty.unify_ok sig acc t u hu wa ht.1 na ht.2
        have ih := Ty.unifyAllFrom_upper sig ts u c (idx + 1) h ok.1 ok.2
          (fun t' ht' => hts t' (by simp [ht']))
        refine ⟨?_, ?_, ih.2.2.1, ih.2.2.2⟩
        · exact Ty.sub_trans sig u acc c wa ok.1 ih.2.2.1 na ok.2 ih.2.2.2 up.1 ih.1
        · intro t' ht'
          simp at ht'
          rcases ht' with rfl | ht'
          · exact Ty.sub_trans sig u t' c ht.1 ok.1 ih.2.2.1 ht.2 ok.2 ih.2.2.2 up.2 ih.1
          · exact ih.2.1 t' ht'

theorem Ty.unifyAllFrom_replicate (a : Ty) : ∀ (n idx : Nat),
    Ty.unifyAllFrom a idx (List.replicate n a) = .ok a
  | 0, idx => by simp [Ty.unifyAllFrom]
  | n + 1, idx => by
      simp [List.replicate, Ty.unifyAllFrom, Ty.unify_self, Ty.unifyAllFrom_replicate a n]
