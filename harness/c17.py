"""C17 — Formatting never changes a program's meaning.  (V) certified validator.

Proof (GardenVerif.Props.C17, over Model/Format.lean): the relation `sameTokens` and the
gap-rewrite theorem; the exact phase models `applySpanEdits` / `applyIndentationEdits` never change
token or comment bytes when the edit lists satisfy `spansInGaps` / `editsInGaps`, and do not panic.

Per input (every generated / seed program that parses without errors), on the REAL formatter:
  tie 1   `same_tokens` — the Lean relation evaluated on the real lexer's token lists of input and
          formatter output;
  tie 2   `fmt_check` — the Lean phase models run on the real edit lists and intermediate texts
          (`fmt_trace` hook) and must reproduce them; `editsInGaps` / `spansInGaps` evaluated on
          the real edit lists with marks from the real lexer;
  oracle  (no model) position-free `{:#?}` dump of parse(input) == dump of parse(output) modulo
          optional commas, output has no parse errors, comment lists equal.

Keys (complete fixed set; a failure maps to exactly one, by mechanism):
  C17/format-hook-failed                   the formatter does not return on a parseable input
  C17/<phase>-changes-tokens               <phase> in wrap, spans, indent, blanks, types, spacing, final = the first
                                           phase whose output no longer lexes to the input's tokens and comments;
    ... except, when a line of the input starts inside a string literal:
  C17/indent-edit-inside-string-token      (phase indent)   C17/blank-lines-inside-string-token  (phase blanks)
  C17/span-edit-with-string-token          (phase spans)
    ... and, in phase wrap, when the rebuilt signature contains the token `Tuple` that the input does not:
  C17/wrap-empty-tuple-hint                wrap_long_signatures renders the hint `()` as `Tuple` (TypeHint::as_src)
  C17/ast-differs-with-same-tokens         every phase keeps tokens and comments, the parser's tree still differs
  C17/line-edit-outside-gaps               tree unchanged, but a real line edit rewrites token bytes (editsInGaps false)
  C17/span-edit-outside-gaps               tree unchanged, but real span edits overlap a token or each other
  C17/output-not-explained-by-trace        the tree/comments differ AND format()'s output differs from the traced pipeline's
  C17/cli-drops-source-text                `garden format FILE` (CLI) loses tokens/comments that format() keeps
  C17/cli-format-failed                    `garden format FILE` exits non-zero on a parseable file
"""
import re

from . import format_common as F
from .common import hexs, unhex, pmap

LEAN_MODULES = ["GardenVerif.Props.C17"]
LEVEL = "translation_validation"

PHASES = ["wrap", "spans", "indent", "blanks", "types", "spacing", "final"]


def tok_texts(lex_resp):
    toks = [unhex(m.group(1)) for m in re.finditer(r"\(tok (\w*) ", lex_resp or "")]
    out = []
    for i, t in enumerate(toks):
        if t == "," and i + 1 < len(toks) and toks[i + 1] == ")":
            continue
        out.append(t)
    return out


def classify(ctx, src, trace_resp, lex_in):
    """Find the first phase whose output no longer lexes to the input's tokens/comments."""
    texts = F.trace_texts(trace_resp)
    names = [p for p in PHASES if p in texts]
    lexes = F.garden_batch(ctx, ["lex " + texts[p] for p in names], shards=1)
    want = (tok_texts(lex_in), F.lex_comments(lex_in))
    ml = F.line_starts_in_string(src)
    for p, lx in zip(names, lexes):
        if (tok_texts(lx), F.lex_comments(lx)) != want:
            if p == "wrap" and "Tuple" in tok_texts(lx) and "Tuple" not in want[0]:
                return "C17/wrap-empty-tuple-hint", p
            if ml and p == "indent":
                return "C17/indent-edit-inside-string-token", p
            if ml and p == "blanks":
                return "C17/blank-lines-inside-string-token", p
            if ml and p == "spans":
                return "C17/span-edit-with-string-token", p
            return "C17/%s-changes-tokens" % p, p
    return "C17/ast-differs-with-same-tokens", None


def run(ctx):
    items = F.corpus(ctx, ctx.scale(350, 8000), 3, seeds_perturb=ctx.scale(1, 3))
    items = [(o, s) for o, s in items if not F.has_nonascii_outside(s) and "\r" not in s]
    ctx.rule = ("grammar-directed Garden programs (prog_gen: items, statements, expressions, comments, doc "
                "comments, multi-line string literals, non-ASCII in strings/comments, >100-char signatures) "
                "rendered canonically and under 3 whitespace/blank-line/indentation perturbations each, plus "
                "every .gdn file of the repo as-is and perturbed, plus hand-written probes; only inputs that "
                "the real parser accepts without errors are judged. Non-trivial = the formatter changed the "
                "text (output != input).")
    srcs = [s for _, s in items]
    hx = [hexs(s) for s in srcs]
    r_ast = F.garden_batch(ctx, ["ast " + h for h in hx])
    good = []
    n_perr = n_hook = 0
    for (o, s), h, r in zip(items, hx, r_ast):
        pa = F.parse_ast(r)
        if pa is None:
            n_hook += 1      # lexer/parser panic etc.: C01's business
        elif pa[1] > 0:
            n_perr += 1
        else:
            good.append((o, s, h, pa[0]))
    ctx.cov["inputs_generated"] = len(items)
    ctx.cov["inputs_with_parse_errors_skipped"] = n_perr
    ctx.cov["inputs_front_end_failed_skipped"] = n_hook
    ctx.log("inputs: %d, parseable: %d (parse errors %d, hook failures %d)" % (len(items), len(good), n_perr, n_hook))

    hs = [g[2] for g in good]
    r_fmt = F.garden_batch(ctx, ["format " + h for h in hs])
    r_tr = F.garden_batch(ctx, ["fmt_trace " + h for h in hs])
    r_lex = F.garden_batch(ctx, ["lex " + h for h in hs])
    outs = []
    for g, r in zip(good, r_fmt):
        outs.append(r[3:] if r and r.startswith("OK ") else None)
    idx = [i for i, o in enumerate(outs) if o is not None]
    idx_ch = [i for i in idx if outs[i] != hs[i]]       # unchanged text: same tree, nothing to parse
    r_ast_out = dict(zip(idx_ch, F.garden_batch(ctx, ["ast " + outs[i] for i in idx_ch])))
    for i in idx:
        if i not in r_ast_out:
            r_ast_out[i] = "OK (ast %s) " % hexs(good[i][3])
    r_lex_out = dict(zip(idx, F.garden_batch(ctx, ["lex " + outs[i] for i in idx])))
    texts = [F.trace_texts(r) for r in r_tr]
    idx_t = [i for i in idx if "wrap" in texts[i] and "spans" in texts[i]]
    r_lex_wrap = dict(zip(idx_t, F.garden_batch(ctx, ["lex " + texts[i]["wrap"] for i in idx_t])))
    r_lex_spans = dict(zip(idx_t, F.garden_batch(ctx, ["lex " + texts[i]["spans"] for i in idx_t])))

    # ---- model side
    st_lines = ["same_tokens (a %s) (b %s)" % (r_lex[i][3:], r_lex_out[i][3:]) for i in idx]
    r_same = dict(zip(idx, F.model_batch(ctx, st_lines)))
    # marks of the `indent` text (input of phase 6) only where a line can start inside a token
    idx_ml = [i for i in idx_t if "indent" in texts[i] and F.line_starts_in_string(unhex(texts[i]["indent"]))]
    r_lex_indent = dict(zip(idx_ml, F.garden_batch(ctx, ["lex " + texts[i]["indent"] for i in idx_ml])))
    fc_lines = []
    for i in idx_t:
        fc_lines.append("fmt_check %s (marks_wrap %s) (marks_spans %s) (marks_indent %s)" % (
            r_tr[i][3:], F.lex_spans(r_lex_wrap[i]), F.lex_spans(r_lex_spans[i]),
            F.lex_spans(r_lex_indent.get(i, ""))))
    r_fc = dict(zip(idx_t, F.model_batch(ctx, fc_lines)))

    n_changed = n_ml = n_wrapped = n_le = n_se = 0
    stats = {"same_true": 0, "edits_in_gaps_true": 0, "spans_in_gaps_true": 0}
    for i, (o, s, h, dump_in) in enumerate(good):
        out_hex = outs[i]
        if out_hex is None:
            ctx.fail("C17/format-hook-failed", "format did not return: %r" % (r_fmt[i][:200],), origin=o, input=s)
            continue
        out = unhex(out_hex)
        changed = out != s
        ctx.case(s, changed)
        n_changed += changed
        ml = F.line_starts_in_string(s)
        n_ml += ml
        tail = F.trace_tail(r_tr[i])
        n_le += tail.count("(le ")
        n_se += tail.count("(se ")
        if texts[i].get("wrap") != h:
            n_wrapped += 1
        if texts[i].get("final") != out_hex:
            ctx.broken.append(dict(kind="correspondence", what="fmt_trace's final text differs from format's output "
                                   "(the hook's copy of the pipeline is stale)", input=s))
        # ---------- direct oracle (no model)
        pa = F.parse_ast(r_ast_out[i])
        bad = None
        if pa is None:
            bad = "front end failed on the formatter's output: %s" % r_ast_out[i][:200]
        elif pa[1] > 0:
            bad = "formatter output has %d parse errors" % pa[1]
        elif F.canon_dump(pa[0]) != F.canon_dump(dump_in):
            bad = "syntax tree of the output differs from the input's"
        elif F.lex_comments(r_lex_out[i]) != F.lex_comments(r_lex[i]):
            bad = "comment list of the output differs from the input's"
        same = r_same.get(i, "")
        fc = r_fc.get(i, "")
        if bad and texts[i].get("final") != out_hex:
            # the traced pipeline (verif_format_trace, a cfg-guarded copy of format()) does not produce
            # format()'s output: its edit lists and phase texts do not explain this violation
            ctx.fail("C17/output-not-explained-by-trace", bad + "; format() and its traced copy disagree on this input, so "
                     "the edit lists that `editsInGaps` was evaluated on are not the ones format() applied",
                     origin=o, input=s, output=out, traced_final=unhex(texts[i].get("final", "")),
                     command="printf %s <input> > f.gdn; garden format f.gdn")
        elif bad:
            key, phase = classify(ctx, s, r_tr[i], r_lex[i])
            ctx.fail(key, bad + (" (first phase that changes the tokens: %s)" % phase if phase else ""),
                     origin=o, input=s, output=out, same_tokens=same, fmt_check=fc,
                     command="printf %s <input> > f.gdn; garden format f.gdn")
        # ---------- tie 1: the relation on real tokens
        if not same.startswith("OK "):
            ctx.broken.append(dict(kind="correspondence", what="same_tokens driver op failed", input=s, model=same))
        else:
            is_same = "(same true)" in same
            stats["same_true"] += is_same
            if is_same and bad:
                # the validator accepted a pair the oracle rejects: the relation is unsound
                ctx.broken.append(dict(kind="correspondence", what="sameTokens holds but the real parser's trees differ "
                                       "(the relation misses a fact the parser reads)", input=s, output=out))
            if not is_same and not bad:
                ctx.broken.append(dict(kind="correspondence", what="sameTokens is false although the trees and comments "
                                       "agree (relation stricter than the parser)", input=s, output=out, model=same))
        # ---------- tie 2: phase models and edit preconditions on real data
        if i in r_fc:
            if not fc.startswith("OK "):
                ctx.broken.append(dict(kind="correspondence", what="fmt_check driver op failed", input=s, model=fc))
            else:
                for ph in ("spans", "indent", "blanks", "final"):
                    if "(%s eq)" % ph not in fc and not (ph == "blanks" and "(blanks eqfix)" in fc):
                        ctx.disagree("format phase model `%s`" % ph, s, fc, "real intermediate text (fmt_trace)")
                eig = "(edits_in_gaps true)" in fc
                sig = "(spans_in_gaps true)" in fc
                stats["edits_in_gaps_true"] += eig
                stats["spans_in_gaps_true"] += sig
                if not eig and not bad:
                    # an edit touched token bytes but the result happens to be the same program
                    # (e.g. re-indenting a string continuation line to the same indent): still a defect
                    ctx.fail("C17/indent-edit-inside-string-token" if ml else "C17/line-edit-outside-gaps",
                             "a line edit rewrites bytes of a token: " + fc, origin=o, input=s)
                if not sig and not bad:
                    ctx.fail("C17/span-edit-outside-gaps", "a span edit overlaps a token or another edit: " + fc,
                             origin=o, input=s, trace=tail[:2000])
        if changed and len(s) < 400:
            ctx.sample({"input": s, "output": out, "same_tokens": same, "fmt_check": fc}, limit=4)

    # ---------- CLI oracle: `garden format FILE` (main.rs: remove_testing_footer + format) keeps every
    # token and comment of the file. Files that end in a genuine reftest footer (a `// args: ` line
    # followed by comment lines only, up to the end of the file) are skipped: the CLI strips that footer
    # by design.
    def has_footer(src):
        ls = src.split("\n")
        # remove_testing_footer looks at EVERY line starting with `// args: `: the first one from which only
        # blank / comment lines follow is the footer (by design the CLI does not print it)
        for k, l in enumerate(ls):
            if l.startswith("// args: ") and all((not x.strip()) or x.startswith("//") for x in ls[k:]):
                return True
        return False

    cand = [i for i in range(len(good)) if outs[i] is not None and not has_footer(good[i][1])]
    argsy = [i for i in cand if "// args: " in good[i][1]]
    rest = [i for i in cand if i not in set(argsy)]
    ctx.rng.shuffle(rest)
    sample = argsy[:200] + [i for i in cand if good[i][0].startswith("probe")] + rest[:ctx.scale(100, 1000)]
    sample = sorted(set(sample))
    d = ctx.scratch("cli")

    def cli(i):
        import os
        p = os.path.join(d, "f%d.gdn" % i)
        with open(p, "w", encoding="utf-8", newline="") as f:
            f.write(good[i][1])
        rc, so, se = ctx.garden(["format", p], timeout=60)
        if rc == -9999:
            rc, so, se = ctx.garden(["format", p], timeout=300)
        return i, rc, so

    res = pmap(cli, sample)
    okc = [(i, so) for i, rc, so in res if rc == 0]
    lex_cli = F.garden_batch(ctx, ["lex " + hexs(so) for _, so in okc])
    n_cli = 0
    for (i, so), lx in zip(okc, lex_cli):
        n_cli += 1
        if (tok_texts(lx), F.lex_comments(lx)) != (tok_texts(r_lex[i]), F.lex_comments(r_lex[i])):
            hook_same = (tok_texts(r_lex_out[i]), F.lex_comments(r_lex_out[i])) == (tok_texts(r_lex[i]), F.lex_comments(r_lex[i]))
            if hook_same:   # otherwise the per-phase classification above has already reported it
                ctx.fail("C17/cli-drops-source-text", "`garden format FILE` prints a text with other tokens/comments than "
                         "the file, although format() on the same text keeps them (main.rs pre-processing)",
                         origin=good[i][0], input=good[i][1], output=so, command="garden format f.gdn")
    for i, rc, so in res:
        if rc != 0:
            ctx.fail("C17/cli-format-failed", "`garden format FILE` exits %d on a parseable file" % rc,
                     origin=good[i][0], input=good[i][1])
    ctx.cov["cli_format_runs"] = n_cli
    ctx.cov["cli_inputs_with_args_comment"] = len(argsy)

    ctx.cov["programs"] = len(good)
    ctx.cov["disagreements_checked"] = len(good)
    ctx.cov["changed_by_formatter"] = n_changed
    ctx.cov["with_line_starting_inside_string"] = n_ml
    ctx.cov["signature_wrapped"] = n_wrapped
    ctx.cov["real_line_edits"] = n_le
    ctx.cov["real_span_edits"] = n_se
    ctx.cov.update(stats)
    ctx.log("judged %d programs: changed %d, multi-line-string %d, wrapped %d, line edits %d, span edits %d, %s" % (
        len(good), n_changed, n_ml, n_wrapped, n_le, n_se, stats))
    ctx.assumptions += [
        "that parser.rs reads no position fact other than those listed in Model/Format.lean `touchRule`/`lineRule`/"
        "`VComment.adjNext` is checked per input by the tree comparison, not proved (the parser model M2 is a separate module)",
        "the phase models are tied to format.rs by reproducing the real intermediate texts of every judged input",
        "fix_type_annotation_spacing and normalize_token_spacing are not modelled as functions; they are covered by "
        "same_tokens on (input, output) and by the tree oracle",
        "inputs containing a carriage return are exercised by C18 only (str::lines turns CRLF into LF, which changes "
        "the bytes of comments and of multi-line string literals)",
    ]
