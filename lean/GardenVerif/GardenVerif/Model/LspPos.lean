/-!
M9 `LspPos` — the LSP position arithmetic of `src/lsp.rs`, transcribed from the Rust as it is,
plus the LSP specification's own reading of a `TextEdit` (used as the *specification* side of C29).

A document is a `List Char` (Rust `&str`: a sequence of Unicode scalar values); byte offsets are
offsets into its UTF-8 encoding, LSP columns count UTF-16 code units.

Import-free (linked into the driver).

Rust anchors (src/lsp.rs): `offset_to_lsp_position`, `garden_pos_to_lsp_range`,
`line_char_to_offset`, `whole_document_range`.
-/

namespace LspPos

/-- `char::len_utf8`. -/
def utf8Len (c : Char) : Nat := c.utf8Size

/-- `char::len_utf16`: 1 for the BMP, 2 (a surrogate pair) above it. -/
def utf16Len (c : Char) : Nat := if c.toNat < 0x10000 then 1 else 2

/-- `str::len` (bytes). -/
def byteLen : List Char → Nat
  | [] => 0
  | c :: cs => utf8Len c + byteLen cs

/-- `s.encode_utf16().count()`. -/
def utf16Count : List Char → Nat
  | [] => 0
  | c :: cs => utf16Len c + utf16Count cs

/-- Number of `'\n'` in a text. -/
def countNl : List Char → Nat
  | [] => 0
  | c :: cs => (if c = '\n' then 1 else 0) + countNl cs

/-- `&src[..o]`: the prefix of `src` whose UTF-8 length is exactly `o`; `none` when `o` is not
on a character boundary or past the end (where the Rust slice expression panics). -/
def prefixAt : List Char → Nat → Option (List Char)
  | _, 0 => some []
  | [], _ + 1 => none
  | c :: cs, o + 1 =>
    if utf8Len c ≤ o + 1 then (prefixAt cs (o + 1 - utf8Len c)).map (c :: ·) else none

/-- `str::is_char_boundary` (true for 0, for `len`, and between characters). -/
def isCharBoundary (src : List Char) (o : Nat) : Bool := (prefixAt src o).isSome

def IsCharBoundary (src : List Char) (o : Nat) : Prop := isCharBoundary src o = true

instance (src : List Char) (o : Nat) : Decidable (IsCharBoundary src o) := by
  unfold IsCharBoundary; infer_instance

/-- Number of `'\n'` characters that start strictly before byte offset `o` (the 0-based line
of offset `o`). Defined directly on bytes, for every `o` (boundary or not). -/
def lineOf : List Char → Nat → Nat
  | [], _ => 0
  | c :: cs, o => if o = 0 then 0 else (if c = '\n' then 1 else 0) + lineOf cs (o - utf8Len c)

/-- The text after the last `'\n'` of `pre` (all of `pre` if there is none):
`&pre[pre.rfind('\n').map_or(0, |i| i + 1)..]`. -/
def lastLine (pre : List Char) : List Char :=
  (pre.reverse.takeWhile (fun c => c != '\n')).reverse

structure Position where
  line : Nat
  character : Nat
  deriving DecidableEq, Repr

structure Range where
  start : Position
  stop : Position
  deriving DecidableEq, Repr

/-- `x as u32`. -/
def asU32 (n : Nat) : Nat := n % 4294967296

/-- `offset_to_lsp_position(src, offset, line_number)`. `none` = the slice `src[..offset]`
panics (offset inside a multi-byte character; offsets past the end are clamped first).
```
let offset = offset.min(src.len());
let line_start = src[..offset].rfind('\n').map_or(0, |i| i + 1);
let character = src[line_start..offset].encode_utf16().count();
Position { line: line_number as u32, character: character as u32 }
``` -/
def offsetToLspPosition (src : List Char) (offset lineNumber : Nat) : Option Position :=
  let offset := min offset (byteLen src)
  match prefixAt src offset with
  | none => none
  | some pre => some ⟨asU32 lineNumber, asU32 (utf16Count (lastLine pre))⟩

/-- `garden_pos_to_lsp_range` on the four fields of a Garden `Position` it reads. -/
def gardenPosToLspRange (src : List Char) (startOffset endOffset lineNumber endLineNumber : Nat) :
    Option Range :=
  match offsetToLspPosition src startOffset lineNumber,
        offsetToLspPosition src endOffset endLineNumber with
  | some s, some e => some ⟨s, e⟩
  | _, _ => none

/-- `s.find('\n')` together with the text after that newline: `(i, &s[i+1..])`. -/
def findNl : List Char → Option (Nat × List Char)
  | [] => none
  | c :: cs =>
    if c = '\n' then some (0, cs)
    else match findNl cs with
      | none => none
      | some (k, r) => some (utf8Len c + k, r)

/-- The first loop of `line_char_to_offset`: advance `line_start` over `n` newlines.
Result `(line_start, &src[line_start..])`, `none` when the source has fewer newlines
(the Rust returns `src.len()` there). -/
def skipLines : Nat → List Char → Option (Nat × List Char)
  | 0, s => some (0, s)
  | n + 1, s =>
    match findNl s with
    | none => none
    | some (i, rest) =>
      match skipLines n rest with
      | none => none
      | some (k, r) => some (i + 1 + k, r)

/-- The second loop of `line_char_to_offset` on `&src[line_start..]`: bytes advanced before
`units >= character`, a `'\n'`, or the end of the text. A `character` that falls inside a
surrogate pair is rounded up past the astral character (the test is made before each
character with the units consumed so far). -/
def walkUnits (character : Nat) : List Char → Nat → Nat
  | [], _ => 0
  | c :: cs, units =>
    if units ≥ character ∨ c = '\n' then 0
    else utf8Len c + walkUnits character cs (units + utf16Len c)

/-- `line_char_to_offset(src, line, character)`. Never panics. -/
def lineCharToOffset (src : List Char) (line character : Nat) : Nat :=
  match skipLines line src with
  | none => byteLen src
  | some (lineStart, rest) => lineStart + walkUnits character rest 0

/-- `str::split_inclusive('\n')`: pieces keep their terminating newline; no empty last piece. -/
def splitInclusive : List Char → List (List Char)
  | [] => []
  | c :: cs =>
    if c = '\n' then [c] :: splitInclusive cs
    else match splitInclusive cs with
      | [] => [[c]]
      | l :: ls => (c :: l) :: ls

/-- What `str::lines()` does to each `split_inclusive('\n')` piece (Rust ≥ 1.77 library
source): strip one trailing `"\n"`, and only then one trailing `"\r"`. A piece without a
newline (the last one) is returned unchanged, so a final bare `'\r'` is kept. -/
def stripLineEnd (l : List Char) : List Char :=
  if l.getLast? = some '\n' then
    let l1 := l.dropLast
    if l1.getLast? = some '\r' then l1.dropLast else l1
  else l

/-- `str::lines()`. -/
def rustLines (s : List Char) : List (List Char) := (splitInclusive s).map stripLineEnd

/-- `whole_document_range(src)`. -/
def wholeDocumentRange (src : List Char) : Range :=
  let endPos : Nat × Nat :=
    if src.isEmpty then (0, 0)
    else if src.getLast? = some '\n' then ((rustLines src).length, 0)
    else
      let lines := rustLines src
      (lines.length - 1, match lines.getLast? with | none => 0 | some l => utf16Count l)
  ⟨⟨0, 0⟩, ⟨asU32 endPos.1, asU32 endPos.2⟩⟩

/-! ### The LSP specification side

LSP 3.17, "Text Documents": *"a position inside a document is expressed as a zero-based line and
character offset […] To ensure that both client and server split the string into the same line
representation the protocol specifies the following end-of-line sequences: `\n`, `\r\n` and `\r`.
Positions are line end character agnostic […] If the character value is greater than the line
length it defaults back to the line length."*  A position therefore denotes a suffix of the
document; a `TextEdit` replaces what lies between two positions. -/

/-- Drop one specification line including its end-of-line sequence (`\n`, `\r\n`, `\r`);
`none` if the text contains no end-of-line sequence. -/
def specDropLine : List Char → Option (List Char)
  | [] => none
  | c :: cs =>
    if c = '\n' then some cs
    else if c = '\r' then
      match cs with
      | [] => some []
      | d :: cs' => if d = '\n' then some cs' else some (d :: cs')
    else specDropLine cs

def specSkipLines : Nat → List Char → Option (List Char)
  | 0, s => some s
  | n + 1, s =>
    match specDropLine s with
    | none => none
    | some rest => specSkipLines n rest

/-- Advance `character` UTF-16 units inside a specification line; stops at an end-of-line
character (a position cannot denote `\r|\n`) or at the end of the document. -/
def specWalk (character : Nat) : List Char → Nat → List Char
  | [], _ => []
  | c :: cs, units =>
    if units ≥ character ∨ c = '\n' ∨ c = '\r' then c :: cs
    else specWalk character cs (units + utf16Len c)

/-- The suffix of `doc` that starts at the LSP position `(line, character)`. A line past the
last line denotes the end of the document (what `vscode-languageserver-textdocument` does). -/
def specSeek (doc : List Char) (line character : Nat) : List Char :=
  match specSkipLines line doc with
  | none => []
  | some rest => specWalk character rest 0

/-- Index (in characters) of an LSP position in `doc`. -/
def specIndex (doc : List Char) (line character : Nat) : Nat :=
  doc.length - (specSeek doc line character).length

/-- Applying `TextEdit { range, newText }` to `doc` as the specification defines it. -/
def applyEdit (doc : List Char) (r : Range) (newText : List Char) : List Char :=
  doc.take (specIndex doc r.start.line r.start.character) ++ newText ++
    specSeek doc r.stop.line r.stop.character

/-- Every `'\r'` is immediately followed by `'\n'` (the document has no bare carriage return,
in particular it does not end in one). -/
def noBareCR : List Char → Bool
  | [] => true
  | c :: cs => (c != '\r' || cs.head? == some '\n') && noBareCR cs

def NoBareCR (doc : List Char) : Prop := noBareCR doc = true

instance (doc : List Char) : Decidable (NoBareCR doc) := by unfold NoBareCR; infer_instance

end LspPos
