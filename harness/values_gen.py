"""Literal-value trees for C13 (and float/int pools for C04).

A value is a nested tuple:
  ('int', n) ('float', text) ('str', s) ('list', [v…]) ('tuple', [v…])
  ('dict', [(key, v)…]) ('variant', EnumName, VariantName, payload|None)
  ('struct', StructName, [(field, v)…])
Rendered three ways, independently of each other:
  src(v)    Garden source text of the literal
  sexp(v)   the Lean driver's literal S-expression (Driver/Arith.lean)
  canon(v)  a hashable canonical form whose Python `==` is the structural equality the
            property speaks of: ints by value, floats by IEEE bit pattern (= printed form
            for finite floats; 0.0 and -0.0 differ), dict entries as a key-sorted tuple
            (last duplicate wins), struct fields in literal order, variants by enum name,
            variant name and payload.
"""
import struct

from .common import hexs

# user definitions prepended to every C13 program; the prelude types come with garden
PRELUDE = ("enum Shape { Dot, Circle(Int), Label(String) } "
           "enum Wrap<T> { Full(T), Hollow } "
           "enum Wrap2<T> { Full2(T), Hollow2 } "
           "struct P { x: Int, y: Int } "
           "struct Q { x: Int, y: Int } "
           "struct Box<T> { v: T, n: Int } ")

# enum name -> (number of type params, [(variant, has_payload, index of the type param the
# payload hint names or None)])
ENUMS = {
    "Bool": (0, [("True", False, None), ("False", False, None)]),
    "Unit": (0, [("Unit", False, None)]),
    "Option": (1, [("Some", True, 0), ("None", False, None)]),
    "Result": (2, [("Ok", True, 0), ("Err", True, 1)]),
    "Shape": (0, [("Dot", False, None), ("Circle", True, None), ("Label", True, None)]),
    "Wrap": (1, [("Full", True, 0), ("Hollow", False, None)]),
    "Wrap2": (1, [("Full2", True, 0), ("Hollow2", False, None)]),
}
# struct name -> (number of type params, [(field, index of the type param its hint names or None)])
STRUCTS = {
    "P": (0, [("x", None), ("y", None)]),
    "Q": (0, [("x", None), ("y", None)]),
    "Box": (1, [("v", 0), ("n", None)]),
}


def fbits(text):
    return struct.unpack(">Q", struct.pack(">d", float(text)))[0]


def escape(s):
    out = []
    for c in s:
        if c == '"':
            out.append('\\"')
        elif c == "\\":
            out.append("\\\\")
        elif c == "\n":
            out.append("\\n")
        elif c == "\t":
            out.append("\\t")
        else:
            out.append(c)
    return '"' + "".join(out) + '"'


def src(v):
    k = v[0]
    if k == "int":
        return str(v[1])
    if k == "float":
        return v[1]
    if k == "str":
        return escape(v[1])
    if k == "list":
        return "[" + ", ".join(src(x) for x in v[1]) + "]"
    if k == "tuple":
        if len(v[1]) == 1:
            return "(" + src(v[1][0]) + ",)"
        return "(" + ", ".join(src(x) for x in v[1]) + ")"
    if k == "dict":
        return "Dict[" + ", ".join("%s => %s" % (escape(a), src(b)) for a, b in v[1]) + "]"
    if k == "variant":
        return v[2] if v[3] is None else "%s(%s)" % (v[2], src(v[3]))
    if k == "struct":
        return "%s{ %s }" % (v[1], ", ".join("%s: %s" % (f, src(x)) for f, x in v[2]))
    raise ValueError(v)


def sexp(v):
    k = v[0]
    if k == "int":
        return "(int i:%d)" % v[1]
    if k == "float":
        return "(float f:%016x)" % fbits(v[1])
    if k == "str":
        return "(str s:%s)" % hexs(v[1])
    if k == "list":
        return "(" + " ".join(["list"] + [sexp(x) for x in v[1]]) + ")"
    if k == "tuple":
        return "(" + " ".join(["tuple"] + [sexp(x) for x in v[1]]) + ")"
    if k == "dict":
        return "(" + " ".join(["dict"] + ["(kv s:%s %s)" % (hexs(a), sexp(b)) for a, b in v[1]]) + ")"
    if k == "variant":
        np, variants = ENUMS[v[1]]
        idx = [n for n, _, _ in variants].index(v[2])
        hint = variants[idx][2]
        head = "variant %s %d %d %s" % (v[1], np, idx, "-" if hint is None else str(hint))
        return "(" + head + ("" if v[3] is None else " " + sexp(v[3])) + ")"
    if k == "struct":
        np, fields = STRUCTS[v[1]]
        hints = dict(fields)
        return "(" + " ".join(["struct %s %d" % (v[1], np)] + [
            "(field %s %s %s)" % (f, "-" if hints[f] is None else str(hints[f]), sexp(x))
            for f, x in v[2]]) + ")"
    raise ValueError(v)


def canon(v):
    k = v[0]
    if k == "int":
        return ("int", v[1])
    if k == "float":
        return ("float", fbits(v[1]))
    if k == "str":
        return ("str", v[1])
    if k in ("list", "tuple"):
        return (k, tuple(canon(x) for x in v[1]))
    if k == "dict":
        d = {}
        for a, b in v[1]:
            d[a] = canon(b)
        return ("dict", tuple(sorted(d.items())))
    if k == "variant":
        return ("variant", v[1], v[2], None if v[3] is None else canon(v[3]))
    if k == "struct":
        return ("struct", v[1], tuple((f, canon(x)) for f, x in v[2]))
    raise ValueError(v)


def depth(v):
    k = v[0]
    if k in ("int", "float", "str"):
        return 0
    if k in ("list", "tuple"):
        return 1 + max([depth(x) for x in v[1]] + [0])
    if k == "dict":
        return 1 + max([depth(x) for _, x in v[1]] + [0])
    if k == "variant":
        return 0 if v[3] is None else 1 + depth(v[3])
    if k == "struct":
        return 1 + max([depth(x) for _, x in v[2]] + [0])
    raise ValueError(v)


def kinds(v, acc=None):
    acc = set() if acc is None else acc
    acc.add(v[0])
    if v[0] in ("list", "tuple"):
        for x in v[1]:
            kinds(x, acc)
    elif v[0] == "dict":
        for _, x in v[1]:
            kinds(x, acc)
    elif v[0] == "variant" and v[3] is not None:
        kinds(v[3], acc)
    elif v[0] == "struct":
        for _, x in v[2]:
            kinds(x, acc)
    return acc


INTS = [0, 1, -1, 2, 7, 9223372036854775807, -9223372036854775808]
FLOATS = ["0.0", "-0.0", "1.5", "-1.5", "0.1", "0.30000000000000004", "0.3", "1.0", "100000000000000000000.0",
          "0.000000000000000000001", "123456789.125"]
STRS = ["", "a", "b", "ab", "a b", "A", "é", "\"q\"", "x\ny", "1"]
KEYS = ["a", "b", "c", "", "k k"]


def leaves():
    out = [("int", i) for i in INTS] + [("float", f) for f in FLOATS] + [("str", s) for s in STRS]
    out += [("variant", "Bool", "True", None), ("variant", "Bool", "False", None),
            ("variant", "Unit", "Unit", None), ("variant", "Option", "None", None),
            ("variant", "Shape", "Dot", None), ("variant", "Wrap", "Hollow", None),
            ("variant", "Wrap2", "Hollow2", None)]
    return out


def random_value(rng, d):
    """A random literal of depth <= d, mostly homogeneous containers."""
    if d == 0 or rng.random() < 0.15:
        return rng.choice(leaves())
    r = rng.random()
    sub = lambda: random_value(rng, d - 1)
    if r < 0.2:
        n = rng.choice([0, 1, 1, 2, 2, 3])
        first = sub()
        items = [first] + [mutate(rng, first, d - 1) if rng.random() < 0.7 else sub() for _ in range(max(0, n - 1))]
        return ("list", items[:n])
    if r < 0.35:
        n = rng.choice([1, 2, 2, 3])
        return ("tuple", [sub() for _ in range(n)])
    if r < 0.55:
        n = rng.choice([0, 1, 2, 2, 3])
        ks = rng.sample(KEYS, n)
        if n >= 2 and rng.random() < 0.1:
            ks[1] = ks[0]                      # duplicate key: last one wins
        return ("dict", [(k, sub()) for k in ks])
    if r < 0.8:
        en = rng.choice(["Option", "Result", "Result", "Shape", "Wrap", "Wrap2"])
        vn, has, _ = rng.choice([x for x in ENUMS[en][1] if x[1]] or ENUMS[en][1])
        if en == "Shape":
            p = ("int", rng.choice(INTS)) if vn == "Circle" else ("str", rng.choice(STRS))
        else:
            p = sub()
        return ("variant", en, vn, p if has else None)
    sn = rng.choice(["P", "Q", "Box"])
    if sn == "Box":
        fs = [("v", sub()), ("n", ("int", rng.choice(INTS)))]
    else:
        fs = [("x", ("int", rng.choice(INTS))), ("y", ("int", rng.choice(INTS)))]
    if rng.random() < 0.3:
        fs.reverse()
    return ("struct", sn, fs)


def mutate(rng, v, d):
    """A near miss of v: same shape with one small change (or v itself rebuilt)."""
    k = v[0]
    r = rng.random()
    if k == "int":
        return ("int", rng.choice([v[1], v[1], max(-2 ** 63, min(2 ** 63 - 1, v[1] + rng.choice([-1, 1]))), -v[1] if v[1] != -2 ** 63 else 0]))
    if k == "float":
        alt = {"0.0": "-0.0", "-0.0": "0.0", "0.3": "0.30000000000000004", "0.30000000000000004": "0.3",
               "1.5": "-1.5", "1.0": "1.5"}
        return ("float", alt.get(v[1], rng.choice(FLOATS)) if r < 0.6 else v[1])
    if k == "str":
        return ("str", rng.choice([v[1], v[1] + "a", v[1].upper(), v[1][:-1]]))
    if k in ("list", "tuple"):
        items = list(v[1])
        if not items:
            return (k, [rng.choice(leaves())] if r < 0.5 else [])
        if r < 0.25:
            return (k, items[:-1])                       # drop the last element
        if r < 0.4:
            return (k, items + [items[-1]])              # one more element
        if r < 0.5 and len(items) >= 2:
            return (k, [items[1], items[0]] + items[2:])  # swap
        if r < 0.6:
            return ("tuple" if k == "list" else "list", items)
        i = rng.randrange(len(items)) if r < 0.85 else len(items) - 1
        items[i] = mutate(rng, items[i], d - 1)
        return (k, items)
    if k == "dict":
        items = list(v[1])
        if not items:
            return ("dict", [("a", rng.choice(leaves()))] if r < 0.5 else [])
        if r < 0.3:
            rng.shuffle(items)                            # same map, other order
            return ("dict", items)
        if r < 0.45:
            return ("dict", items[:-1])
        if r < 0.6:
            i = rng.randrange(len(items))
            items[i] = (items[i][0] + "x", items[i][1])
            return ("dict", items)
        i = rng.randrange(len(items))
        items[i] = (items[i][0], mutate(rng, items[i][1], d - 1))
        return ("dict", items)
    if k == "variant":
        if v[3] is None:
            return rng.choice([v, ("variant", "Option", "None", None), ("variant", "Wrap", "Hollow", None),
                               ("variant", "Wrap2", "Hollow2", None)])
        if r < 0.3:
            other = {"Ok": ("Result", "Err"), "Err": ("Result", "Ok"), "Some": ("Result", "Ok"),
                     "Full": ("Wrap2", "Full2"), "Full2": ("Wrap", "Full"), "Circle": ("Option", "Some"),
                     "Label": ("Option", "Some")}[v[2]]
            return ("variant", other[0], other[1], v[3])
        return ("variant", v[1], v[2], mutate(rng, v[3], d - 1))
    if k == "struct":
        fs = list(v[2])
        if r < 0.25:
            fs.reverse()
            return ("struct", v[1], fs)
        if r < 0.45 and v[1] in ("P", "Q"):
            return ("struct", "Q" if v[1] == "P" else "P", fs)
        i = rng.randrange(len(fs))
        fs[i] = (fs[i][0], mutate(rng, fs[i][1], d - 1))
        return ("struct", v[1], fs)
    return v


def pool(rng, n):
    """About n distinct literals to depth 3: every leaf class, then families of near misses."""
    out, seen = [], set()

    def add(v):
        s = src(v)
        if s not in seen and len(s) < 400:
            seen.add(s)
            out.append(v)

    base = leaves()
    for v in rng.sample(base, min(len(base), max(12, n // 4))):
        add(v)
    # always present: the reproducers and the representation edge cases
    for v in [("float", "1.5"), ("float", "1.50"), ("float", "0.0"), ("float", "-0.0"), ("dict", []), ("list", []),
              ("list", [("float", "1.50")]), ("float", "0.3000000000000000444"),
              ("dict", [("k k", ("list", [("float", "0.1")])), ("", ("variant", "Option", "None", None))]),
              ("dict", [("", ("variant", "Option", "None", None)), ("k k", ("list", [("float", "0.1")]))]),
              ("dict", [("a", ("int", 1)), ("b", ("int", 2))]), ("dict", [("b", ("int", 2)), ("a", ("int", 1))]),
              ("dict", [("a", ("int", 1)), ("a", ("int", 2))]), ("dict", [("a", ("int", 2))]),
              ("list", [("float", "1.5")]), ("tuple", [("int", 1)]), ("list", [("int", 1)]),
              ("variant", "Option", "Some", ("float", "0.1")), ("variant", "Option", "Some", ("list", [])),
              ("variant", "Result", "Ok", ("int", 1)), ("variant", "Result", "Err", ("int", 1)),
              ("variant", "Wrap", "Full", ("int", 1)), ("variant", "Wrap2", "Full2", ("int", 1)),
              ("struct", "P", [("x", ("int", 1)), ("y", ("int", 2))]),
              ("struct", "P", [("y", ("int", 2)), ("x", ("int", 1))]),
              ("struct", "Q", [("x", ("int", 1)), ("y", ("int", 2))]),
              ("struct", "Box", [("v", ("float", "1.5")), ("n", ("int", 0))]),
              ("struct", "Box", [("v", ("str", "a")), ("n", ("int", 0))]),
              ("list", [("int", 1), ("int", 2)]), ("list", [("int", 1), ("int", 2), ("int", 3)]),
              ("list", [("int", 1), ("int", 3)]), ("tuple", [("int", 1), ("int", 2)]),
              ("tuple", [("int", 1), ("int", 3)]), ("tuple", [("int", 0), ("int", 2)])]:
        add(v)
    guard = 0
    while len(out) < n and guard < 50 * n:
        guard += 1
        v = random_value(rng, rng.choice([1, 2, 2, 3, 3]))
        add(v)
        for _ in range(rng.choice([1, 2, 3])):
            if len(out) < n:
                add(mutate(rng, v, 3))
    return out[:n]


def rebuild(v):
    """A structurally identical copy sharing no Python object with v (the two operands of a
    comparison are always rendered from separate copies)."""
    k = v[0]
    if k in ("int", "float", "str"):
        return (k, v[1])
    if k in ("list", "tuple"):
        return (k, [rebuild(x) for x in v[1]])
    if k == "dict":
        return ("dict", [(a, rebuild(b)) for a, b in v[1]])
    if k == "variant":
        return ("variant", v[1], v[2], None if v[3] is None else rebuild(v[3]))
    return ("struct", v[1], [(f, rebuild(x)) for f, x in v[2]])
