import GardenVerif.Lemmas.Format
/-!
C18 — Formatting is idempotent (partial by design, DESIGN §7 C18).

What is proved here, for all texts: the string phases of `format` whose input is only the text are
idempotent / the identity when there is nothing to do. Whether the edit *collectors* (the visitor,
`collect_comment_edits`, `fix_type_annotation_spacing`, `normalize_token_spacing`,
`wrap_long_signatures`) emit no edits on formatted text is NOT modelled; it is decided per input by
running the real formatter twice (harness/c18.py).
-/
namespace C18
open Fmt

/-- `apply_span_edits(src, [])` returns `src` (and does not panic). -/
theorem apply_no_span_edits_id (t : MText) : applySpanEdits t [] = .ok t := by
  simp [applySpanEdits]

/-- Phase 9 (strip surplus final newlines, add a missing one) is idempotent. -/
theorem finalNewline_idem (t : MText) : finalNewline (finalNewline t) = finalNewline t := by
  simp [finalNewline, finalNewlineRev_idem]

example : finalNewline (plain [120, 10, 10, 10]) = plain [120, 10] := by decide
example : finalNewline (plain [120]) = plain [120, 10] := by decide

end C18
