import GardenVerif.Lemmas.RefSem
import GardenVerif.Model.Extract
/-! Lemmas for C21 / C20: the approximation ordering `LeX` on results of the fuel-based reference
semantics, and the simulation between a program and its `W`-transform (both directions). -/
set_option linter.unusedVariables false
set_option linter.unusedSimpArgs false

namespace Extract
open Machine (Expr Case Dest BinOp Program FunDef EnumDef)
open RefSem Validators

-- ------------------------------------------------------------------ the ordering

def isTO : Res → Bool
  | .timeout => true
  | _ => false

def failedBy : Option EK → Res → Bool
  | some k, .err k' => k == k'
  | _, _ => false

/-- `a` approximates `b`: `a` ran out of fuel, or they are the same, or one of them is the
designated failure (`oa` for the left, `ob` for the right side). -/
def LeX (oa ob : Option EK) (a b : Res × RefSem.St) : Prop :=
  isTO a.1 = true ∨ a = b ∨ failedBy oa a.1 = true ∨ failedBy ob b.1 = true

theorem LeX.rfl {oa ob a} : LeX oa ob a a := Or.inr (Or.inl (Eq.refl a))

theorem LeX.of_eq {oa ob a b} (h : a = b) : LeX oa ob a b := Or.inr (Or.inl h)

theorem LeX.to {oa ob s b} : LeX oa ob (.timeout, s) b := Or.inl (Eq.refl true)

theorem failedBy_err {o r} (h : failedBy o r = true) : ∃ k, r = .err k := by
  cases o <;> cases r <;> simp [failedBy] at h ⊢

theorem isTO_eq {r} (h : isTO r = true) : r = .timeout := by
  cases r <;> simp [isTO] at h ⊢

theorem bind_le {oa ob} {a b : Res × RefSem.St} {k k' : Val → RefSem.St → Res × RefSem.St}
    (h : LeX oa ob a b) (hk : ∀ v s, LeX oa ob (k v s) (k' v s)) :
    LeX oa ob (RefSem.bind a k) (RefSem.bind b k') := by
  obtain ⟨r, s⟩ := a
  obtain ⟨r', s'⟩ := b
  rcases h with h | h | h | h
  · have := isTO_eq h; simp only at this; subst this
    exact LeX.to
  · cases h
    cases r <;> first | exact hk _ _ | exact LeX.rfl
  · obtain ⟨e, he⟩ := failedBy_err h
    simp only at he; subst he
    exact Or.inr (Or.inr (Or.inl h))
  · obtain ⟨e, he⟩ := failedBy_err h
    simp only at he; subst he
    exact Or.inr (Or.inr (Or.inr h))

/-- One iteration of a loop body. -/
def loopStep (a : Res × RefSem.St) (k : RefSem.St → Res × RefSem.St) : Res × RefSem.St :=
  match a with
  | (.val _, s2) => k s2
  | (.cont, s2) => k s2
  | (.brk, s2) => (.val vUnit, s2)
  | other => other

theorem loop_le {oa ob} {a b : Res × RefSem.St} {k k' : RefSem.St → Res × RefSem.St}
    (h : LeX oa ob a b) (hk : ∀ s, LeX oa ob (k s) (k' s)) :
    LeX oa ob (loopStep a k) (loopStep b k') := by
  obtain ⟨r, s⟩ := a
  obtain ⟨r', s'⟩ := b
  rcases h with h | h | h | h
  · have := isTO_eq h; simp only at this; subst this
    exact LeX.to
  · cases h
    cases r <;> first | exact hk _ | exact LeX.rfl
  · obtain ⟨e, he⟩ := failedBy_err h
    simp only at he; subst he
    exact Or.inr (Or.inr (Or.inl h))
  · obtain ⟨e, he⟩ := failedBy_err h
    simp only at he; subst he
    exact Or.inr (Or.inr (Or.inr h))

theorem funResult_le {oa ob} {a b : Res × RefSem.St} (h : LeX oa ob a b) :
    LeX oa ob (funResult a) (funResult b) := by
  obtain ⟨r, s⟩ := a
  obtain ⟨r', s'⟩ := b
  rcases h with h | h | h | h
  · have := isTO_eq h; simp only at this; subst this
    exact LeX.to
  · cases h; exact LeX.rfl
  · obtain ⟨e, he⟩ := failedBy_err h
    simp only at he; subst he
    exact Or.inr (Or.inr (Or.inl h))
  · obtain ⟨e, he⟩ := failedBy_err h
    simp only at he; subst he
    exact Or.inr (Or.inr (Or.inr h))

/-- Forward composition (failures only on the right). -/
theorem LeX.transF {ob a b c} (h1 : LeX none ob a b) (h2 : LeX none ob b c) : LeX none ob a c := by
  rcases h1 with h | h | h | h
  · exact Or.inl h
  · subst h; exact h2
  · simp [failedBy] at h
  · rcases h2 with g | g | g | g
    · have := isTO_eq g; obtain ⟨e, he⟩ := failedBy_err h; rw [this] at he; cases he
    · subst g; exact Or.inr (Or.inr (Or.inr h))
    · simp [failedBy] at g
    · exact Or.inr (Or.inr (Or.inr g))

/-- Backward composition (failures only on the left). -/
theorem LeX.transB {oa a b c} (h1 : LeX oa none a b) (h2 : LeX oa none b c) : LeX oa none a c := by
  rcases h1 with h | h | h | h
  · exact Or.inl h
  · subst h; exact h2
  · exact Or.inr (Or.inr (Or.inl h))
  · simp [failedBy] at h

-- ------------------------------------------------------------------ what `W` keeps

def EnvOK (f : String → Bool) (env : Env) : Prop := ∀ kl ∈ env, f kl.1 = true

theorem EnvOK.nil {f} : EnvOK f [] := by intro kl h; cases h

theorem bindNames_ok {f : String → Bool} : ∀ (ns : List String) (vs : List Val) (env : Env) (s : RefSem.St),
    EnvOK f env → ns.all f = true → EnvOK f (bindNames ns vs env s).1
  | [], vs, env, s, h, _ => by cases vs <;> simpa [bindNames] using h
  | n :: ns, [], env, s, h, _ => by simpa [bindNames] using h
  | n :: ns, v :: vs, env, s, h, hn => by
      simp only [List.all_cons, Bool.and_eq_true] at hn
      simp only [bindNames]
      apply bindNames_ok ns vs _ _ _ hn.2
      split
      · exact h
      · intro kl hkl
        rcases List.mem_cons.mp hkl with rfl | hkl
        · exact hn.1
        · exact h kl hkl

theorem bindDest_ok {f : String → Bool} {dest v env s e' s'} (hE : EnvOK f env)
    (hd : bokDest f dest = true) (h : bindDest dest v env s = .ok (e', s')) : EnvOK f e' := by
  cases dest with
  | sym n =>
    simp only [bindDest, Except.ok.injEq] at h
    have := bindNames_ok [n] [v] env s hE (by simpa [bokDest] using hd)
    rw [h] at this; exact this
  | destr ns =>
    cases v with
    | tuple items =>
      simp only [bindDest] at h
      split at h
      · cases h
      · simp only [Except.ok.injEq] at h
        have := bindNames_ok ns items env s hE (by simpa [bokDest] using hd)
        rw [h] at this; exact this
    | _ => simp [bindDest] at h

theorem funNames_WP (c : WCfg) (p : Program) : funNames (WP c p) = funNames p := by
  simp [funNames, WP, List.map_map, Function.comp_def, WFun]

theorem lookupVar_WP (c : WCfg) (p : Program) (env : Env) (st : List Val) (n : String) :
    lookupVar (WP c p) env st n = lookupVar p env st n := by
  unfold lookupVar
  rw [funNames_WP]
  rfl

theorem patKey_WP (c : WCfg) (p : Program) (v : String) : patKey (WP c p) v = patKey p v := by
  unfold patKey
  rw [funNames_WP]
  rfl

theorem applyBuiltin_WP (c : WCfg) (p : Program) (name : String) (args : List Val) (s : RefSem.St) :
    applyBuiltin (WP c p) name args s = applyBuiltin p name args s := rfl

theorem find_WP (c : WCfg) (p : Program) (name : String) :
    (WP c p).funs.find? (fun d => d.name == name) = (p.funs.find? (fun d => d.name == name)).map (WFun c) := by
  simp only [WP, List.find?_map]
  rfl

/-- The local hypothesis on the wrapper, relative to the transformed program. -/
structure Local (c : WCfg) (p : Program) : Prop where
  notLet : ∀ id x, c.sel id = true → isLet (c.wrap x) = false
  /-- `wrap x` evaluates like `x`, with `c.k` more fuel, unless it fails with `c.fk` -/
  fwd : ∀ m env s x, EnvOK c.ok env →
    LeX none c.fk (eval false (WP c p) m env s x) (eval false (WP c p) (m + c.k) env s (c.wrap x))
  /-- with the same fuel, `wrap x` is below `x` -/
  bwd : ∀ m env s x, EnvOK c.ok env →
    LeX c.fk none (eval false (WP c p) m env s (c.wrap x)) (eval false (WP c p) m env s x)
  funs : ∀ d ∈ p.funs, bokFun c.ok d = true

theorem isLet_fin {c : WCfg} (h : ∀ id x, c.sel id = true → isLet (c.wrap x) = false) (id : Nat) {e : Expr}
    (he : isLet e = false) : isLet (fin c id e) = false := by
  unfold fin; split
  · rename_i hs; exact h _ _ hs
  · exact he

theorem isLet_W {c : WCfg} (h : ∀ id x, c.sel id = true → isLet (c.wrap x) = false) {e : Expr} (he : isLet e = false) :
    isLet (W c e) = false := by
  cases e <;> first | (simp [isLet] at he; done) | (simp only [W]; exact isLet_fin h _ (by simp [isLet])) | skip
  rename_i o; cases o <;> (simp only [W]; exact isLet_fin h _ (by simp [isLet]))

def thr (c : WCfg) (n : Nat) : Nat := (c.k + 1) * n

theorem thr_succ (c : WCfg) (n : Nat) : thr c (n + 1) = thr c n + c.k + 1 := by
  simp [thr, Nat.mul_succ, Nat.add_assoc]

-- ------------------------------------------------------------------ forward simulation

/-- `p` with fuel `n` is below `WP c p` with fuel `m`. -/
structure SimF (c : WCfg) (p : Program) (n m : Nat) : Prop where
  ev : ∀ env s e, EnvOK c.ok env → bok c.ok e = true →
    LeX none c.fk (eval false p n env s e) (eval false (WP c p) m env s (W c e))
  seq : ∀ env s es, EnvOK c.ok env → bokSeq c.ok es = true →
    LeX none c.fk (evalSeq false p n env s es) (evalSeq false (WP c p) m env s (WSeq c es))
  lst : ∀ env s es, EnvOK c.ok env → bokSeq c.ok es = true →
    LeX none c.fk (evalList false p n env s es) (evalList false (WP c p) m env s (WSeq c es))
  whl : ∀ env s cnd body, EnvOK c.ok env → bok c.ok cnd = true → bokSeq c.ok body = true →
    LeX none c.fk (evalWhile false p n env s cnd body) (evalWhile false (WP c p) m env s (W c cnd) (WSeq c body))
  for_ : ∀ env s dest items body, EnvOK c.ok env → bokDest c.ok dest = true → bokSeq c.ok body = true →
    LeX none c.fk (evalFor false p n env s dest items body) (evalFor false (WP c p) m env s dest items (WSeq c body))
  cases : ∀ env s ty idx pl cs, EnvOK c.ok env → bokCases c.ok cs = true →
    LeX none c.fk (evalCases false p n env s ty idx pl cs) (evalCases false (WP c p) m env s ty idx pl (WCases c cs))
  app : ∀ s f args, LeX none c.fk (applyVal false p n s f args) (applyVal false (WP c p) m s f args)

theorem simF_zero (c : WCfg) (p : Program) (m : Nat) : SimF c p 0 m := by
  refine ⟨?_, ?_, ?_, ?_, ?_, ?_, ?_⟩ <;> intros <;>
    simp only [eval, evalSeq, evalList, evalWhile, evalFor, evalCases, applyVal] <;> exact LeX.to

theorem evalWhile_loop (cl p n env s c body) :
    evalWhile cl p (n + 1) env s c body =
      RefSem.bind (eval cl p n env s c) fun cv s1 =>
        match cv.asBool with
        | none => (.err .typeError, s1)
        | some false => (.val vUnit, s1)
        | some true => loopStep (evalSeq cl p n env s1 body) fun s2 => evalWhile cl p n env s2 c body := by
  simp only [evalWhile, loopStep]
  rfl

theorem evalFor_loop (cl p n env s dest it rest body) :
    evalFor cl p (n + 1) env s dest (it :: rest) body =
      match bindDest dest it env s with
      | .error k => (.err k, s)
      | .ok (env', s') => loopStep (evalSeq cl p n env' s' body) fun s2 => evalFor cl p n env s2 dest rest body := by
  simp only [evalFor, loopStep]
  rfl

/-- The wrapper step of the forward direction. -/
theorem fin_fwd {c : WCfg} {p : Program} (hc : Local c p) {n m : Nat} (hm : thr c (n + 1) ≤ m)
    (env : Env) (s : RefSem.St) (hE : EnvOK c.ok env) (a : Res × RefSem.St) (id : Nat) (core : Expr)
    (h : ∀ m0, thr c n ≤ m0 → LeX none c.fk a (eval false (WP c p) (m0 + 1) env s core)) :
    LeX none c.fk a (eval false (WP c p) m env s (fin c id core)) := by
  rw [thr_succ] at hm
  unfold fin; split
  · have h1 := h (m - c.k - 1) (by omega)
    have h2 := hc.fwd (m - c.k - 1 + 1) env s core hE
    have e : m - c.k - 1 + 1 + c.k = m := by omega
    rw [e] at h2
    exact h1.transF h2
  · have h1 := h (m - 1) (by omega)
    have e : m - 1 + 1 = m := by omega
    rw [e] at h1
    exact h1

theorem simF_succ {c : WCfg} {p : Program} (hc : Local c p) (n : Nat)
    (ih : ∀ m0, thr c n ≤ m0 → SimF c p n m0) (m : Nat) (hm : thr c (n + 1) ≤ m) : SimF c p (n + 1) m := by
  have hm' := hm
  rw [thr_succ] at hm'
  obtain ⟨m1, rfl⟩ : ∃ m1, m = m1 + 1 := ⟨m - 1, by omega⟩
  have ih1 := ih m1 (by omega)
  refine ⟨?ev, ?seq, ?lst, ?whl, ?for_, ?cases, ?app⟩
  case ev =>
    intro env s e hE hb
    cases e with
    | int id u v =>
      simp only [W]; refine fin_fwd hc hm env s hE _ _ _ fun m0 hm0 => ?_
      simp only [eval]; exact LeX.rfl
    | str id u v =>
      simp only [W]; refine fin_fwd hc hm env s hE _ _ _ fun m0 hm0 => ?_
      simp only [eval]; exact LeX.rfl
    | var id u nm =>
      simp only [W]; refine fin_fwd hc hm env s hE _ _ _ fun m0 hm0 => ?_
      simp only [eval, lookupVar_WP]; exact LeX.rfl
    | binop id u op l r =>
      simp only [bok, Bool.and_eq_true] at hb
      simp only [W]; refine fin_fwd hc hm env s hE _ _ _ fun m0 hm0 => ?_
      have ih := ih m0 hm0
      simp only [eval]
      refine bind_le (ih.ev _ _ _ hE hb.1) fun lv s1 => ?_
      refine bind_le (ih.ev _ _ _ hE hb.2) fun rv s2 => ?_
      exact LeX.rfl
    | letE id u d r => simp only [W, eval]; exact LeX.rfl
    | assign id u nm rhs =>
      simp only [bok] at hb
      simp only [W]; refine fin_fwd hc hm env s hE _ _ _ fun m0 hm0 => ?_
      have ih := ih m0 hm0
      simp only [eval]
      refine bind_le (ih.ev _ _ _ hE hb) fun v s1 => ?_
      exact LeX.rfl
    | update id u a nm rhs =>
      simp only [bok] at hb
      simp only [W]; refine fin_fwd hc hm env s hE _ _ _ fun m0 hm0 => ?_
      have ih := ih m0 hm0
      simp only [eval]
      refine bind_le (ih.ev _ _ _ hE hb) fun v s1 => ?_
      exact LeX.rfl
    | ifE id u cnd thn els =>
      simp only [bok, Bool.and_eq_true] at hb
      simp only [W]; refine fin_fwd hc hm env s hE _ _ _ fun m0 hm0 => ?_
      have ih := ih m0 hm0
      simp only [eval]
      refine bind_le (ih.ev _ _ _ hE hb.1.1) fun cv s1 => ?_
      cases cv.asBool with
      | none => exact LeX.rfl
      | some b =>
        cases els with
        | none =>
          simp only [WOpt]
          cases b with
          | false => exact LeX.rfl
          | true =>
            simp only [if_true]
            exact bind_le (ih.seq _ _ _ hE hb.1.2) fun _ s2 => LeX.rfl
        | some eb =>
          simp only [WOpt]
          have hb3 : bokSeq c.ok eb = true := by simpa [bokOpt] using hb.2
          cases b with
          | false => exact ih.seq _ _ _ hE hb3
          | true => exact ih.seq _ _ _ hE hb.1.2
    | whileE id u cnd body =>
      simp only [bok, Bool.and_eq_true] at hb
      simp only [W]; refine fin_fwd hc hm env s hE _ _ _ fun m0 hm0 => ?_
      have ih := ih m0 hm0
      simp only [eval]
      exact ih.whl _ _ _ _ hE hb.1 hb.2
    | forE id u dest iter body =>
      simp only [bok, Bool.and_eq_true] at hb
      simp only [W]; refine fin_fwd hc hm env s hE _ _ _ fun m0 hm0 => ?_
      have ih := ih m0 hm0
      simp only [eval]
      refine bind_le (ih.ev _ _ _ hE hb.1.2) fun iv s1 => ?_
      cases iv <;> first | exact LeX.rfl | exact ih.for_ _ _ _ _ _ hE hb.1.1 hb.2
    | matchE id u scrut cs =>
      simp only [bok, Bool.and_eq_true] at hb
      simp only [W]; refine fin_fwd hc hm env s hE _ _ _ fun m0 hm0 => ?_
      have ih := ih m0 hm0
      simp only [eval]
      refine bind_le (ih.ev _ _ _ hE hb.1) fun sv s1 => ?_
      cases sv <;> first | exact LeX.rfl | exact ih.cases _ _ _ _ _ _ hE hb.2
    | ret id u o =>
      cases o with
      | none =>
        simp only [W]; refine fin_fwd hc hm env s hE _ _ _ fun m0 hm0 => ?_
        simp only [eval]; exact LeX.rfl
      | some x =>
        simp only [bok] at hb
        simp only [W]; refine fin_fwd hc hm env s hE _ _ _ fun m0 hm0 => ?_
        have ih := ih m0 hm0
        simp only [eval]
        exact bind_le (ih.ev _ _ _ hE hb) fun v s1 => LeX.rfl
    | brk id u =>
      simp only [W]; refine fin_fwd hc hm env s hE _ _ _ fun m0 hm0 => ?_
      simp only [eval]; exact LeX.rfl
    | cont id u =>
      simp only [W]; refine fin_fwd hc hm env s hE _ _ _ fun m0 hm0 => ?_
      simp only [eval]; exact LeX.rfl
    | list id u items =>
      simp only [bok] at hb
      simp only [W]; refine fin_fwd hc hm env s hE _ _ _ fun m0 hm0 => ?_
      have ih := ih m0 hm0
      simp only [eval]
      exact ih.lst _ _ _ hE hb
    | tuple id u items =>
      simp only [bok] at hb
      simp only [W]; refine fin_fwd hc hm env s hE _ _ _ fun m0 hm0 => ?_
      have ih := ih m0 hm0
      simp only [eval]
      exact bind_le (ih.lst _ _ _ hE hb) fun vs s1 => LeX.rfl
    | call id u recv args =>
      simp only [bok, Bool.and_eq_true] at hb
      simp only [W]; refine fin_fwd hc hm env s hE _ _ _ fun m0 hm0 => ?_
      have ih := ih m0 hm0
      simp only [eval]
      refine bind_le (ih.ev _ _ _ hE hb.1) fun fv s1 => ?_
      refine bind_le (ih.lst _ _ _ hE hb.2) fun vs s2 => ?_
      cases vs <;> first | exact LeX.rfl | exact ih.app _ _ _
    | lambda id u ps body =>
      simp only [W]; refine fin_fwd hc hm env s hE _ _ _ fun m0 hm0 => ?_
      simp only [eval, Bool.false_eq_true, if_false]; exact LeX.rfl
    | paren id u x =>
      simp only [bok] at hb
      simp only [W]; refine fin_fwd hc hm env s hE _ _ _ fun m0 hm0 => ?_
      have ih := ih m0 hm0
      simp only [eval]
      exact ih.ev _ _ _ hE hb
    | invalid id u =>
      simp only [W]; refine fin_fwd hc hm env s hE _ _ _ fun m0 hm0 => ?_
      simp only [eval]; exact LeX.rfl
    | unsup id u w =>
      simp only [W]; refine fin_fwd hc hm env s hE _ _ _ fun m0 hm0 => ?_
      simp only [eval]; exact LeX.rfl
  case seq =>
    intro env s es hE hb
    have ih := ih1
    cases es with
    | nil => simp only [WSeq, evalSeq]; exact LeX.rfl
    | cons e rest =>
      simp only [bokSeq, Bool.and_eq_true] at hb
      by_cases hl : isLet e = true
      · obtain ⟨id, u, d, r, rfl⟩ := isLet_iff.mp hl
        simp only [bok, Bool.and_eq_true] at hb
        simp only [WSeq, W, evalSeq]
        refine bind_le (ih.ev _ _ _ hE hb.1.2) fun v s1 => ?_
        cases hbd : bindDest d v env s1 with
        | error k => exact LeX.rfl
        | ok pr =>
          obtain ⟨env', s2⟩ := pr
          exact ih.seq _ _ _ (bindDest_ok hE hb.1.1 hbd) hb.2
      · have hl' : isLet e = false := by simpa using hl
        have hl2 : isLet (W c e) = false := isLet_W hc.notLet hl'
        simp only [WSeq]
        rw [evalSeq_cons_nonlet _ _ _ _ _ _ hl2, evalSeq_cons_nonlet _ _ _ _ _ _ hl']
        cases rest with
        | nil => simp only [WSeq]; exact ih.ev _ _ _ hE hb.1
        | cons e2 rest2 =>
          simp only [WSeq]
          refine bind_le (ih.ev _ _ _ hE hb.1) fun _ s1 => ?_
          have := ih.seq env s1 (e2 :: rest2) hE hb.2
          simpa only [WSeq] using this
  case lst =>
    intro env s es hE hb
    have ih := ih1
    cases es with
    | nil => simp only [WSeq, evalList]; exact LeX.rfl
    | cons e rest =>
      simp only [bokSeq, Bool.and_eq_true] at hb
      simp only [WSeq, evalList]
      refine bind_le (ih.ev _ _ _ hE hb.1) fun v s1 => ?_
      refine bind_le (ih.lst _ _ _ hE hb.2) fun vs s2 => ?_
      exact LeX.rfl
  case whl =>
    intro env s cnd body hE hb1 hb2
    have ih := ih1
    rw [evalWhile_loop, evalWhile_loop]
    refine bind_le (ih.ev _ _ _ hE hb1) fun cv s1 => ?_
    cases cv.asBool with
    | none => exact LeX.rfl
    | some b =>
      cases b with
      | false => exact LeX.rfl
      | true => exact loop_le (ih.seq _ _ _ hE hb2) fun s2 => ih.whl _ _ _ _ hE hb1 hb2
  case for_ =>
    intro env s dest items body hE hb1 hb2
    have ih := ih1
    cases items with
    | nil => simp only [evalFor]; exact LeX.rfl
    | cons it rest =>
      rw [evalFor_loop, evalFor_loop]
      cases hbd : bindDest dest it env s with
      | error k => exact LeX.rfl
      | ok pr =>
        obtain ⟨env', s2⟩ := pr
        exact loop_le (ih.seq _ _ _ (bindDest_ok hE hb1 hbd) hb2) fun s3 => ih.for_ _ _ _ _ _ hE hb1 hb2
  case cases =>
    intro env s ty idx pl cs hE hb
    have ih := ih1
    cases cs with
    | nil => simp only [WCases, evalCases]; exact LeX.rfl
    | cons cs0 rest =>
      simp only [bokCases, Bool.and_eq_true] at hb
      have h3 := ih.cases env s ty idx pl rest hE hb.2
      obtain ⟨variant, dest, body⟩ := cs0
      cases dest with
      | none =>
        simp only [bokCase] at hb
        have h2 := ih.seq env s body hE hb.1
        simp only [WCases, WCase, evalCases, patKey_WP]
        by_cases hv : (variant == "_") = true
        · simp only [hv, if_true]; exact h2
        · simp only [hv, if_false, Bool.false_eq_true]
          cases patKey p variant with
          | none => exact LeX.rfl
          | some pk =>
            obtain ⟨pty, pidx⟩ := pk
            by_cases hk : (ty == pty && idx == pidx) = true
            · simp only [hk, if_true]
              cases pl with
              | none => exact h2
              | some _ => exact h3
            · simp only [hk, if_false, Bool.false_eq_true]; exact h3
      | some d =>
        simp only [bokCase, Bool.and_eq_true] at hb
        simp only [WCases, WCase, evalCases, patKey_WP]
        cases patKey p variant with
        | none => exact LeX.rfl
        | some pk =>
          obtain ⟨pty, pidx⟩ := pk
          by_cases hk : (ty == pty && idx == pidx) = true
          · simp only [hk, if_true]
            cases pl with
            | none => exact h3
            | some v =>
              simp only []
              cases hbd : bindDest d v env s with
              | error k => exact LeX.rfl
              | ok pr =>
                obtain ⟨env', s2⟩ := pr
                exact ih.seq _ _ _ (bindDest_ok hE hb.1.1 hbd) hb.1.2
          · simp only [hk, if_false, Bool.false_eq_true]; exact h3
  case app =>
    intro s f args
    have ih := ih1
    cases f with
    | closure cenv ps body => simp only [applyVal, Bool.not_false, if_true]; exact LeX.rfl
    | fn name =>
      simp only [applyVal, find_WP]
      cases hfind : p.funs.find? (fun d => d.name == name) with
      | none => exact LeX.rfl
      | some d =>
        have hmem : d ∈ p.funs := List.mem_of_find?_eq_some hfind
        have hfr := hc.funs d hmem
        simp only [bokFun, Bool.and_eq_true] at hfr
        simp only [Option.map_some, WFun]
        by_cases hl : (d.params.length != args.length) = true
        · simp only [hl, if_true]; exact LeX.rfl
        · simp only [hl, if_false, Bool.false_eq_true]
          exact funResult_le (ih.seq _ _ _ (bindNames_ok _ _ _ _ EnvOK.nil hfr.1) hfr.2)
    | builtin name => simp only [applyVal, applyBuiltin_WP]; exact LeX.rfl
    | int v => simp only [applyVal]; exact LeX.rfl
    | str v => simp only [applyVal]; exact LeX.rfl
    | list v => simp only [applyVal]; exact LeX.rfl
    | tuple v => simp only [applyVal]; exact LeX.rfl
    | enumV a b c => simp only [applyVal]; exact LeX.rfl
    | enumC a b => simp only [applyVal]; exact LeX.rfl

theorem simF_all {c : WCfg} {p : Program} (hc : Local c p) : ∀ n m, thr c n ≤ m → SimF c p n m
  | 0, m, _ => simF_zero c p m
  | n + 1, m, hm => simF_succ hc n (fun m0 h0 => simF_all hc n m0 h0) m hm


-- ------------------------------------------------------------------ backward simulation

/-- `WP c p` with fuel `n` is below `p` with fuel `m`. -/
structure SimB (c : WCfg) (p : Program) (n m : Nat) : Prop where
  ev : ∀ env s e, EnvOK c.ok env → bok c.ok e = true →
    LeX c.fk none (eval false (WP c p) n env s (W c e)) (eval false p m env s e)
  seq : ∀ env s es, EnvOK c.ok env → bokSeq c.ok es = true →
    LeX c.fk none (evalSeq false (WP c p) n env s (WSeq c es)) (evalSeq false p m env s es)
  lst : ∀ env s es, EnvOK c.ok env → bokSeq c.ok es = true →
    LeX c.fk none (evalList false (WP c p) n env s (WSeq c es)) (evalList false p m env s es)
  whl : ∀ env s cnd body, EnvOK c.ok env → bok c.ok cnd = true → bokSeq c.ok body = true →
    LeX c.fk none (evalWhile false (WP c p) n env s (W c cnd) (WSeq c body)) (evalWhile false p m env s cnd body)
  for_ : ∀ env s dest items body, EnvOK c.ok env → bokDest c.ok dest = true → bokSeq c.ok body = true →
    LeX c.fk none (evalFor false (WP c p) n env s dest items (WSeq c body)) (evalFor false p m env s dest items body)
  cases : ∀ env s ty idx pl cs, EnvOK c.ok env → bokCases c.ok cs = true →
    LeX c.fk none (evalCases false (WP c p) n env s ty idx pl (WCases c cs)) (evalCases false p m env s ty idx pl cs)
  app : ∀ s f args, LeX c.fk none (applyVal false (WP c p) n s f args) (applyVal false p m s f args)

theorem simB_zero (c : WCfg) (p : Program) (m : Nat) : SimB c p 0 m := by
  refine ⟨?_, ?_, ?_, ?_, ?_, ?_, ?_⟩ <;> intros <;>
    simp only [eval, evalSeq, evalList, evalWhile, evalFor, evalCases, applyVal] <;> exact LeX.to

/-- The wrapper step of the backward direction. -/
theorem fin_bwd {c : WCfg} {p : Program} (hc : Local c p) {n : Nat}
    (env : Env) (s : RefSem.St) (hE : EnvOK c.ok env) (b : Res × RefSem.St) (id : Nat) (core : Expr)
    (h : LeX c.fk none (eval false (WP c p) (n + 1) env s core) b) :
    LeX c.fk none (eval false (WP c p) (n + 1) env s (fin c id core)) b := by
  unfold fin; split
  · exact (hc.bwd (n + 1) env s core hE).transB h
  · exact h

theorem simB_succ {c : WCfg} {p : Program} (hc : Local c p) (n : Nat)
    (ih : ∀ m0, n ≤ m0 → SimB c p n m0) (m : Nat) (hm : n + 1 ≤ m) : SimB c p (n + 1) m := by
  obtain ⟨m1, rfl⟩ : ∃ m1, m = m1 + 1 := ⟨m - 1, by omega⟩
  have ih1 := ih m1 (by omega)
  refine ⟨?ev, ?seq, ?lst, ?whl, ?for_, ?cases, ?app⟩
  case ev =>
    intro env s e hE hb
    cases e with
    | int id u v =>
      simp only [W]; refine fin_bwd hc env s hE _ _ _ ?_
      simp only [eval]; exact LeX.rfl
    | str id u v =>
      simp only [W]; refine fin_bwd hc env s hE _ _ _ ?_
      simp only [eval]; exact LeX.rfl
    | var id u nm =>
      simp only [W]; refine fin_bwd hc env s hE _ _ _ ?_
      simp only [eval, lookupVar_WP]; exact LeX.rfl
    | binop id u op l r =>
      simp only [bok, Bool.and_eq_true] at hb
      simp only [W]; refine fin_bwd hc env s hE _ _ _ ?_
      have ih := ih1
      simp only [eval]
      refine bind_le (ih.ev _ _ _ hE hb.1) fun lv s1 => ?_
      refine bind_le (ih.ev _ _ _ hE hb.2) fun rv s2 => ?_
      exact LeX.rfl
    | letE id u d r => simp only [W, eval]; exact LeX.rfl
    | assign id u nm rhs =>
      simp only [bok] at hb
      simp only [W]; refine fin_bwd hc env s hE _ _ _ ?_
      have ih := ih1
      simp only [eval]
      refine bind_le (ih.ev _ _ _ hE hb) fun v s1 => ?_
      exact LeX.rfl
    | update id u a nm rhs =>
      simp only [bok] at hb
      simp only [W]; refine fin_bwd hc env s hE _ _ _ ?_
      have ih := ih1
      simp only [eval]
      refine bind_le (ih.ev _ _ _ hE hb) fun v s1 => ?_
      exact LeX.rfl
    | ifE id u cnd thn els =>
      simp only [bok, Bool.and_eq_true] at hb
      simp only [W]; refine fin_bwd hc env s hE _ _ _ ?_
      have ih := ih1
      simp only [eval]
      refine bind_le (ih.ev _ _ _ hE hb.1.1) fun cv s1 => ?_
      cases cv.asBool with
      | none => exact LeX.rfl
      | some b =>
        cases els with
        | none =>
          simp only [WOpt]
          cases b with
          | false => exact LeX.rfl
          | true =>
            simp only [if_true]
            exact bind_le (ih.seq _ _ _ hE hb.1.2) fun _ s2 => LeX.rfl
        | some eb =>
          simp only [WOpt]
          have hb3 : bokSeq c.ok eb = true := by simpa [bokOpt] using hb.2
          cases b with
          | false => exact ih.seq _ _ _ hE hb3
          | true => exact ih.seq _ _ _ hE hb.1.2
    | whileE id u cnd body =>
      simp only [bok, Bool.and_eq_true] at hb
      simp only [W]; refine fin_bwd hc env s hE _ _ _ ?_
      have ih := ih1
      simp only [eval]
      exact ih.whl _ _ _ _ hE hb.1 hb.2
    | forE id u dest iter body =>
      simp only [bok, Bool.and_eq_true] at hb
      simp only [W]; refine fin_bwd hc env s hE _ _ _ ?_
      have ih := ih1
      simp only [eval]
      refine bind_le (ih.ev _ _ _ hE hb.1.2) fun iv s1 => ?_
      cases iv <;> first | exact LeX.rfl | exact ih.for_ _ _ _ _ _ hE hb.1.1 hb.2
    | matchE id u scrut cs =>
      simp only [bok, Bool.and_eq_true] at hb
      simp only [W]; refine fin_bwd hc env s hE _ _ _ ?_
      have ih := ih1
      simp only [eval]
      refine bind_le (ih.ev _ _ _ hE hb.1) fun sv s1 => ?_
      cases sv <;> first | exact LeX.rfl | exact ih.cases _ _ _ _ _ _ hE hb.2
    | ret id u o =>
      cases o with
      | none =>
        simp only [W]; refine fin_bwd hc env s hE _ _ _ ?_
        simp only [eval]; exact LeX.rfl
      | some x =>
        simp only [bok] at hb
        simp only [W]; refine fin_bwd hc env s hE _ _ _ ?_
        have ih := ih1
        simp only [eval]
        exact bind_le (ih.ev _ _ _ hE hb) fun v s1 => LeX.rfl
    | brk id u =>
      simp only [W]; refine fin_bwd hc env s hE _ _ _ ?_
      simp only [eval]; exact LeX.rfl
    | cont id u =>
      simp only [W]; refine fin_bwd hc env s hE _ _ _ ?_
      simp only [eval]; exact LeX.rfl
    | list id u items =>
      simp only [bok] at hb
      simp only [W]; refine fin_bwd hc env s hE _ _ _ ?_
      have ih := ih1
      simp only [eval]
      exact ih.lst _ _ _ hE hb
    | tuple id u items =>
      simp only [bok] at hb
      simp only [W]; refine fin_bwd hc env s hE _ _ _ ?_
      have ih := ih1
      simp only [eval]
      exact bind_le (ih.lst _ _ _ hE hb) fun vs s1 => LeX.rfl
    | call id u recv args =>
      simp only [bok, Bool.and_eq_true] at hb
      simp only [W]; refine fin_bwd hc env s hE _ _ _ ?_
      have ih := ih1
      simp only [eval]
      refine bind_le (ih.ev _ _ _ hE hb.1) fun fv s1 => ?_
      refine bind_le (ih.lst _ _ _ hE hb.2) fun vs s2 => ?_
      cases vs <;> first | exact LeX.rfl | exact ih.app _ _ _
    | lambda id u ps body =>
      simp only [W]; refine fin_bwd hc env s hE _ _ _ ?_
      simp only [eval, Bool.false_eq_true, if_false]; exact LeX.rfl
    | paren id u x =>
      simp only [bok] at hb
      simp only [W]; refine fin_bwd hc env s hE _ _ _ ?_
      have ih := ih1
      simp only [eval]
      exact ih.ev _ _ _ hE hb
    | invalid id u =>
      simp only [W]; refine fin_bwd hc env s hE _ _ _ ?_
      simp only [eval]; exact LeX.rfl
    | unsup id u w =>
      simp only [W]; refine fin_bwd hc env s hE _ _ _ ?_
      simp only [eval]; exact LeX.rfl
  case seq =>
    intro env s es hE hb
    have ih := ih1
    cases es with
    | nil => simp only [WSeq, evalSeq]; exact LeX.rfl
    | cons e rest =>
      simp only [bokSeq, Bool.and_eq_true] at hb
      by_cases hl : isLet e = true
      · obtain ⟨id, u, d, r, rfl⟩ := isLet_iff.mp hl
        simp only [bok, Bool.and_eq_true] at hb
        simp only [WSeq, W, evalSeq]
        refine bind_le (ih.ev _ _ _ hE hb.1.2) fun v s1 => ?_
        cases hbd : bindDest d v env s1 with
        | error k => exact LeX.rfl
        | ok pr =>
          obtain ⟨env', s2⟩ := pr
          exact ih.seq _ _ _ (bindDest_ok hE hb.1.1 hbd) hb.2
      · have hl' : isLet e = false := by simpa using hl
        have hl2 : isLet (W c e) = false := isLet_W hc.notLet hl'
        simp only [WSeq]
        rw [evalSeq_cons_nonlet _ _ _ _ _ _ hl2, evalSeq_cons_nonlet _ _ _ _ _ _ hl']
        cases rest with
        | nil => simp only [WSeq]; exact ih.ev _ _ _ hE hb.1
        | cons e2 rest2 =>
          simp only [WSeq]
          refine bind_le (ih.ev _ _ _ hE hb.1) fun _ s1 => ?_
          have := ih.seq env s1 (e2 :: rest2) hE hb.2
          simpa only [WSeq] using this
  case lst =>
    intro env s es hE hb
    have ih := ih1
    cases es with
    | nil => simp only [WSeq, evalList]; exact LeX.rfl
    | cons e rest =>
      simp only [bokSeq, Bool.and_eq_true] at hb
      simp only [WSeq, evalList]
      refine bind_le (ih.ev _ _ _ hE hb.1) fun v s1 => ?_
      refine bind_le (ih.lst _ _ _ hE hb.2) fun vs s2 => ?_
      exact LeX.rfl
  case whl =>
    intro env s cnd body hE hb1 hb2
    have ih := ih1
    rw [evalWhile_loop, evalWhile_loop]
    refine bind_le (ih.ev _ _ _ hE hb1) fun cv s1 => ?_
    cases cv.asBool with
    | none => exact LeX.rfl
    | some b =>
      cases b with
      | false => exact LeX.rfl
      | true => exact loop_le (ih.seq _ _ _ hE hb2) fun s2 => ih.whl _ _ _ _ hE hb1 hb2
  case for_ =>
    intro env s dest items body hE hb1 hb2
    have ih := ih1
    cases items with
    | nil => simp only [evalFor]; exact LeX.rfl
    | cons it rest =>
      rw [evalFor_loop, evalFor_loop]
      cases hbd : bindDest dest it env s with
      | error k => exact LeX.rfl
      | ok pr =>
        obtain ⟨env', s2⟩ := pr
        exact loop_le (ih.seq _ _ _ (bindDest_ok hE hb1 hbd) hb2) fun s3 => ih.for_ _ _ _ _ _ hE hb1 hb2
  case cases =>
    intro env s ty idx pl cs hE hb
    have ih := ih1
    cases cs with
    | nil => simp only [WCases, evalCases]; exact LeX.rfl
    | cons cs0 rest =>
      simp only [bokCases, Bool.and_eq_true] at hb
      have h3 := ih.cases env s ty idx pl rest hE hb.2
      obtain ⟨variant, dest, body⟩ := cs0
      cases dest with
      | none =>
        simp only [bokCase] at hb
        have h2 := ih.seq env s body hE hb.1
        simp only [WCases, WCase, evalCases, patKey_WP]
        by_cases hv : (variant == "_") = true
        · simp only [hv, if_true]; exact h2
        · simp only [hv, if_false, Bool.false_eq_true]
          cases patKey p variant with
          | none => exact LeX.rfl
          | some pk =>
            obtain ⟨pty, pidx⟩ := pk
            by_cases hk : (ty == pty && idx == pidx) = true
            · simp only [hk, if_true]
              cases pl with
              | none => exact h2
              | some _ => exact h3
            · simp only [hk, if_false, Bool.false_eq_true]; exact h3
      | some d =>
        simp only [bokCase, Bool.and_eq_true] at hb
        simp only [WCases, WCase, evalCases, patKey_WP]
        cases patKey p variant with
        | none => exact LeX.rfl
        | some pk =>
          obtain ⟨pty, pidx⟩ := pk
          by_cases hk : (ty == pty && idx == pidx) = true
          · simp only [hk, if_true]
            cases pl with
            | none => exact h3
            | some v =>
              simp only []
              cases hbd : bindDest d v env s with
              | error k => exact LeX.rfl
              | ok pr =>
                obtain ⟨env', s2⟩ := pr
                exact ih.seq _ _ _ (bindDest_ok hE hb.1.1 hbd) hb.1.2
          · simp only [hk, if_false, Bool.false_eq_true]; exact h3
  case app =>
    intro s f args
    have ih := ih1
    cases f with
    | closure cenv ps body => simp only [applyVal, Bool.not_false, if_true]; exact LeX.rfl
    | fn name =>
      simp only [applyVal, find_WP]
      cases hfind : p.funs.find? (fun d => d.name == name) with
      | none => exact LeX.rfl
      | some d =>
        have hmem : d ∈ p.funs := List.mem_of_find?_eq_some hfind
        have hfr := hc.funs d hmem
        simp only [bokFun, Bool.and_eq_true] at hfr
        simp only [Option.map_some, WFun]
        by_cases hl : (d.params.length != args.length) = true
        · simp only [hl, if_true]; exact LeX.rfl
        · simp only [hl, if_false, Bool.false_eq_true]
          exact funResult_le (ih.seq _ _ _ (bindNames_ok _ _ _ _ EnvOK.nil hfr.1) hfr.2)
    | builtin name => simp only [applyVal, applyBuiltin_WP]; exact LeX.rfl
    | int v => simp only [applyVal]; exact LeX.rfl
    | str v => simp only [applyVal]; exact LeX.rfl
    | list v => simp only [applyVal]; exact LeX.rfl
    | tuple v => simp only [applyVal]; exact LeX.rfl
    | enumV a b c => simp only [applyVal]; exact LeX.rfl
    | enumC a b => simp only [applyVal]; exact LeX.rfl

theorem simB_all {c : WCfg} {p : Program} (hc : Local c p) : ∀ n m, n ≤ m → SimB c p n m
  | 0, m, _ => simB_zero c p m
  | n + 1, m, hm => simB_succ hc n (fun m0 h0 => simB_all hc n m0 h0) m hm


-- ------------------------------------------------------------------ trivial binder condition, identity transformer

theorem bokDest_true (d : Dest) : bokDest (fun _ => true) d = true := by
  cases d <;> simp [bokDest]

mutual
theorem bok_true : ∀ e : Expr, bok (fun _ => true) e = true
  | .int .. => rfl
  | .str .. => rfl
  | .var .. => rfl
  | .binop _ _ _ l r => by simp [bok, bok_true l, bok_true r]
  | .letE _ _ d r => by simp [bok, bokDest_true, bok_true r]
  | .assign _ _ _ r => by simp [bok, bok_true r]
  | .update _ _ _ _ r => by simp [bok, bok_true r]
  | .ifE _ _ c t e => by simp [bok, bok_true c, bokSeq_true t, bokOpt_true e]
  | .whileE _ _ c b => by simp [bok, bok_true c, bokSeq_true b]
  | .forE _ _ d e b => by simp [bok, bokDest_true, bok_true e, bokSeq_true b]
  | .matchE _ _ s cs => by simp [bok, bok_true s, bokCases_true cs]
  | .ret _ _ none => rfl
  | .ret _ _ (some e) => by simp [bok, bok_true e]
  | .brk .. => rfl
  | .cont .. => rfl
  | .list _ _ es => by simp [bok, bokSeq_true es]
  | .tuple _ _ es => by simp [bok, bokSeq_true es]
  | .call _ _ r as => by simp [bok, bok_true r, bokSeq_true as]
  | .lambda _ _ ps b => by simp [bok, bokSeq_true b]
  | .paren _ _ e => by simp [bok, bok_true e]
  | .invalid .. => rfl
  | .unsup .. => rfl
theorem bokSeq_true : ∀ es : List Expr, bokSeq (fun _ => true) es = true
  | [] => rfl
  | e :: rest => by simp [bokSeq, bok_true e, bokSeq_true rest]
theorem bokOpt_true : ∀ o : Option (List Expr), bokOpt (fun _ => true) o = true
  | none => rfl
  | some b => by simp [bokOpt, bokSeq_true b]
theorem bokCase_true : ∀ c : Case, bokCase (fun _ => true) c = true
  | .mk _ none b => by simp [bokCase, bokSeq_true b]
  | .mk _ (some d) b => by simp [bokCase, bokDest_true, bokSeq_true b]
theorem bokCases_true : ∀ cs : List Case, bokCases (fun _ => true) cs = true
  | [] => rfl
  | c :: rest => by simp [bokCases, bokCase_true c, bokCases_true rest]
end

theorem bokFun_true (d : FunDef) : bokFun (fun _ => true) d = true := by
  simp [bokFun, bokSeq_true]

mutual
theorem W_id : ∀ e : Expr, W idCfg e = e
  | .int .. => rfl
  | .str .. => rfl
  | .var .. => rfl
  | .binop _ _ _ l r => by simp [W, fin, idCfg, WCfg.i, WCfg.u]; exact ⟨by simpa [idCfg] using W_id l, by simpa [idCfg] using W_id r⟩
  | .letE _ _ d r => by simp [W, fin, idCfg, WCfg.i, WCfg.u]; simpa [idCfg] using W_id r
  | .assign _ _ _ r => by simp [W, fin, idCfg, WCfg.i, WCfg.u]; simpa [idCfg] using W_id r
  | .update _ _ _ _ r => by simp [W, fin, idCfg, WCfg.i, WCfg.u]; simpa [idCfg] using W_id r
  | .ifE _ _ c t e => by
      simp [W, fin, idCfg, WCfg.i, WCfg.u]
      exact ⟨by simpa [idCfg] using W_id c, by simpa [idCfg] using WSeq_id t, by simpa [idCfg] using WOpt_id e⟩
  | .whileE _ _ c b => by
      simp [W, fin, idCfg, WCfg.i, WCfg.u]
      exact ⟨by simpa [idCfg] using W_id c, by simpa [idCfg] using WSeq_id b⟩
  | .forE _ _ d e b => by
      simp [W, fin, idCfg, WCfg.i, WCfg.u]
      exact ⟨by simpa [idCfg] using W_id e, by simpa [idCfg] using WSeq_id b⟩
  | .matchE _ _ s cs => by
      simp [W, fin, idCfg, WCfg.i, WCfg.u]
      exact ⟨by simpa [idCfg] using W_id s, by simpa [idCfg] using WCases_id cs⟩
  | .ret _ _ none => rfl
  | .ret _ _ (some e) => by simp [W, fin, idCfg, WCfg.i, WCfg.u]; simpa [idCfg] using W_id e
  | .brk .. => rfl
  | .cont .. => rfl
  | .list _ _ es => by simp [W, fin, idCfg, WCfg.i, WCfg.u]; simpa [idCfg] using WSeq_id es
  | .tuple _ _ es => by simp [W, fin, idCfg, WCfg.i, WCfg.u]; simpa [idCfg] using WSeq_id es
  | .call _ _ r as => by
      simp [W, fin, idCfg, WCfg.i, WCfg.u]
      exact ⟨by simpa [idCfg] using W_id r, by simpa [idCfg] using WSeq_id as⟩
  | .lambda _ _ ps b => by simp [W, fin, idCfg, WCfg.i, WCfg.u]; simpa [idCfg] using WSeq_id b
  | .paren _ _ e => by simp [W, fin, idCfg, WCfg.i, WCfg.u]; simpa [idCfg] using W_id e
  | .invalid .. => rfl
  | .unsup .. => rfl
theorem WSeq_id : ∀ es : List Expr, WSeq idCfg es = es
  | [] => rfl
  | e :: rest => by simp [WSeq, W_id e, WSeq_id rest]
theorem WOpt_id : ∀ o : Option (List Expr), WOpt idCfg o = o
  | none => rfl
  | some b => by simp [WOpt, WSeq_id b]
theorem WCase_id : ∀ c : Case, WCase idCfg c = c
  | .mk _ _ b => by simp [WCase, WSeq_id b]
theorem WCases_id : ∀ cs : List Case, WCases idCfg cs = cs
  | [] => rfl
  | c :: rest => by simp [WCases, WCase_id c, WCases_id rest]
end

theorem WP_id (p : Program) : WP idCfg p = p := by
  have : p.funs.map (WFun idCfg) = p.funs := by
    have h : ∀ d : FunDef, WFun idCfg d = d := fun d => by simp [WFun, WSeq_id]
    rw [List.map_congr_left (g := id) (fun d _ => h d), List.map_id]
  simp [WP, WSeq_id, this]

theorem local_id (p : Program) : Local idCfg p where
  notLet := fun id x h => by simp [idCfg] at h
  fwd := fun m env s x _ => LeX.rfl
  bwd := fun m env s x _ => LeX.rfl
  funs := fun d _ => bokFun_true d

theorem envOK_true (env : Env) : EnvOK (fun _ => true) env := fun _ _ => rfl

/-- Fuel monotonicity of the closure-free reference semantics: more fuel never changes a result
that is not a timeout. -/
theorem eval_mono (p : Program) {n m : Nat} (h : n ≤ m) (env : Env) (s : RefSem.St) (e : Expr) :
    LeX none none (eval false p n env s e) (eval false p m env s e) := by
  have := (simF_all (local_id p) n m (by simp [thr, idCfg]; exact h)).ev env s e (envOK_true env) (bok_true e)
  rw [WP_id, W_id] at this
  exact this

theorem evalSeq_mono (p : Program) {n m : Nat} (h : n ≤ m) (env : Env) (s : RefSem.St) (es : List Expr) :
    LeX none none (evalSeq false p n env s es) (evalSeq false p m env s es) := by
  have := (simF_all (local_id p) n m (by simp [thr, idCfg]; exact h)).seq env s es (envOK_true env) (bokSeq_true es)
  rw [WP_id, WSeq_id] at this
  exact this

theorem LeX.eq_of_not_to {a b : Res × RefSem.St} (h : LeX none none a b) (hn : isTO a.1 = false) : a = b := by
  rcases h with h | h | h | h
  · rw [hn] at h; cases h
  · exact h
  · simp [failedBy] at h
  · simp [failedBy] at h

/-- `run n p = r`, `r` not a timeout → `run (n + k) p = r`. -/
theorem run_mono (p : Program) (n k : Nat) (hn : isTO (run false p n).1 = false) :
    run false p (n + k) = run false p n :=
  ((evalSeq_mono p (Nat.le_add_right n k) [] St.init p.toplevel).eq_of_not_to hn).symm

-- ------------------------------------------------------------------ the `dbg` wrapper

theorem lookup_none_of_ok {env : Env} {y : String} (h : EnvOK (fun n => n != y) env) : lookup env y = none := by
  induction env with
  | nil => rfl
  | cons kl rest ih =>
    obtain ⟨k, l⟩ := kl
    have hk : (k != y) = true := h (k, l) (List.mem_cons_self ..)
    have hk' : (k == y) = false := by simpa using hk
    simp only [lookup, hk', Bool.false_eq_true, if_false]
    exact ih fun kl hkl => h kl (List.mem_cons_of_mem _ hkl)

theorem dbg_lookup {p : Program} (hp : dbgFree p = true) (c : WCfg) {env : Env}
    (hE : EnvOK (fun n => n != "dbg") env) (st : List Val) :
    lookupVar (WP c p) env st "dbg" = some (.builtin "dbg") := by
  simp only [dbgFree, Bool.and_eq_true, Bool.not_eq_true', Option.isNone_iff_eq_none] at hp
  rw [lookupVar_WP]
  simp only [lookupVar, lookup_none_of_ok hE, nsLookup, hp.1.2, Bool.false_eq_true, if_false, hp.2]
  rfl

theorem dbg_eval {q : Program} {env : Env} {s : RefSem.St}
    (hl : lookupVar q env s.store "dbg" = some (.builtin "dbg")) (m : Nat) (x : Expr) :
    eval false q (m + 2) env s (dbgCall x) = eval false q m env s x := by
  simp only [dbgCall, eval, hl, evalList, RefSem.bind]
  cases m with
  | zero => simp [eval]
  | succ m' =>
    simp only [evalList]
    cases h : eval false q (m' + 1) env s x with
    | mk r s1 =>
      cases r <;> simp [applyVal, applyBuiltin]

theorem local_dbg {p : Program} (hp : dbgFree p = true) (t : Nat) : Local (dbgCfg t) p where
  notLet := fun id x _ => rfl
  fwd := fun m env s x hE => by
    have hl := dbg_lookup hp (dbgCfg t) hE s.store
    show LeX none none _ (eval false _ (m + 2) env s (dbgCall x))
    rw [dbg_eval hl]
    exact LeX.rfl
  bwd := fun m env s x hE => by
    have hl := dbg_lookup hp (dbgCfg t) hE s.store
    show LeX none none (eval false _ m env s (dbgCall x)) _
    match m with
    | 0 => simp only [eval]; exact LeX.to
    | 1 => simp only [dbgCall, eval, RefSem.bind]; exact LeX.to
    | m' + 2 =>
      rw [dbg_eval hl]
      exact eval_mono _ (by omega) env s x
  funs := fun d hd => by
    simp only [dbgFree, bokProg, Bool.and_eq_true, List.all_eq_true] at hp
    exact hp.1.1.1 d hd

theorem local_strip (p : Program) : Local stripCfg p where
  notLet := fun id x h => by simp [stripCfg] at h
  fwd := fun m env s x _ => LeX.rfl
  bwd := fun m env s x _ => LeX.rfl
  funs := fun d _ => bokFun_true d

-- ------------------------------------------------------------------ partial identities (the model of a hint's check)

/-- What a runtime type check does to a result: values accepted by `ok` pass, others fail with `fk`. -/
def hintCheck (ok : Val → Bool) (fk : EK) : Res × RefSem.St → Res × RefSem.St
  | (.val v, s) => if ok v then (.val v, s) else (.err fk, s)
  | r => r

/-- `chk` is an expression context that implements such a check, in every program and state. -/
def PartialId (chk : Expr → Expr) (ok : Val → Bool) (fk : EK) : Prop :=
  (∀ x, isLet (chk x) = false) ∧
  ∀ (q : Program) (m : Nat) (env : Env) (s : RefSem.St) (x : Expr),
    eval false q (m + 1) env s (chk x) = hintCheck ok fk (eval false q m env s x)

theorem hintCheck_le_right {ok fk a} : LeX none (some fk) a (hintCheck ok fk a) := by
  obtain ⟨r, s⟩ := a
  cases r <;> try exact LeX.rfl
  rename_i v
  simp only [hintCheck]
  split
  · exact LeX.rfl
  · exact Or.inr (Or.inr (Or.inr (by simp [failedBy])))

theorem hintCheck_le_left {ok fk a} : LeX (some fk) none (hintCheck ok fk a) a := by
  obtain ⟨r, s⟩ := a
  cases r <;> try exact LeX.rfl
  rename_i v
  simp only [hintCheck]
  split
  · exact LeX.rfl
  · exact Or.inr (Or.inr (Or.inl (by simp [failedBy])))

theorem LeX.weakenR {ob a b} (h : LeX none none a b) : LeX none ob a b := by
  rcases h with h | h | h | h
  · exact Or.inl h
  · exact Or.inr (Or.inl h)
  · simp [failedBy] at h
  · simp [failedBy] at h

theorem LeX.weakenL {oa a b} (h : LeX none none a b) : LeX oa none a b := by
  rcases h with h | h | h | h
  · exact Or.inl h
  · exact Or.inr (Or.inl h)
  · simp [failedBy] at h
  · simp [failedBy] at h

theorem local_chk {chk ok fk} (h : PartialId chk ok fk) (sel : Nat → Bool) (p : Program) :
    Local (chkCfg sel chk fk) p where
  notLet := fun id x _ => h.1 x
  fwd := fun m env s x _ => by
    show LeX none (some fk) _ (eval false _ (m + 1 + 1) env s (chk x))
    rw [h.2]
    exact (eval_mono _ (Nat.le_succ m) env s x).weakenR.transF hintCheck_le_right
  bwd := fun m env s x _ => by
    show LeX (some fk) none (eval false _ m env s (chk x)) _
    match m with
    | 0 => simp only [eval]; exact LeX.to
    | m' + 1 =>
      rw [h.2]
      exact hintCheck_le_left.transB (eval_mono _ (Nat.le_succ m') env s x).weakenL
  funs := fun d _ => bokFun_true d

theorem eval_int (cl q n env s i u v) : eval cl q (n + 1) env s (.int i u v) = (.val (.int v), s) := rfl
theorem eval_str (cl q n env s i u v) : eval cl q (n + 1) env s (.str i u v) = (.val (.str v), s) := rfl

def isIntV : Val → Bool
  | .int _ => true
  | _ => false

def isStrV : Val → Bool
  | .str _ => true
  | _ => false

theorem partialId_int : PartialId chkInt isIntV .typeError := by
  refine ⟨fun x => rfl, fun q m env s x => ?_⟩
  simp only [chkInt, eval, RefSem.bind]
  cases m with
  | zero => simp [eval, hintCheck]
  | succ m' =>
    simp only [eval_int]
    cases h : eval false q (m' + 1) env s x with
    | mk r s1 =>
      cases r <;> try (simp [hintCheck]; done)
      rename_i v
      cases v <;> simp [hintCheck, isIntV, binop, Machine.intBinop, ofSimple]

theorem partialId_str : PartialId chkStr isStrV .typeError := by
  refine ⟨fun x => rfl, fun q m env s x => ?_⟩
  simp only [chkStr, eval, RefSem.bind]
  cases m with
  | zero => simp [eval, hintCheck]
  | succ m' =>
    simp only [eval_str]
    cases h : eval false q (m' + 1) env s x with
    | mk r s1 =>
      cases r <;> try (simp [hintCheck]; done)
      rename_i v
      cases v <;> simp [hintCheck, isStrV, binop]


-- ------------------------------------------------------------------ C20: pure expressions keep the state

theorem bind_state {a : Res × RefSem.St} {k : Val → RefSem.St → Res × RefSem.St} {s : RefSem.St}
    (ha : a.2 = s) (hk : ∀ v, (k v s).2 = s) : (RefSem.bind a k).2 = s := by
  obtain ⟨r, s1⟩ := a
  simp only at ha; subst ha
  cases r <;> first | exact hk _ | rfl

structure KeepsState (cl : Bool) (p : Program) (n : Nat) : Prop where
  ev : ∀ env s e, arithE e = true → (eval cl p n env s e).2 = s
  lst : ∀ env s es, arithL es = true → (evalList cl p n env s es).2 = s

theorem keepsState (cl : Bool) (p : Program) : ∀ n, KeepsState cl p n
  | 0 => ⟨fun _ _ _ _ => rfl, fun _ _ _ _ => rfl⟩
  | n + 1 => by
    have ih := keepsState cl p n
    constructor
    · intro env s e he
      cases e <;> simp only [arithE, Bool.and_eq_true, Bool.false_eq_true] at he
      case int => rfl
      case str => rfl
      case var id u nm => simp only [eval]; split <;> rfl
      case binop id u op l r =>
        simp only [eval]
        exact bind_state (ih.ev _ _ _ he.1) fun lv => bind_state (ih.ev _ _ _ he.2) fun rv => rfl
      case paren id u x => simp only [eval]; exact ih.ev _ _ _ he
      case list id u es => simp only [eval]; exact ih.lst _ _ _ he
      case tuple id u es =>
        simp only [eval]
        exact bind_state (ih.lst _ _ _ he) fun vs => by split <;> rfl
    · intro env s es he
      cases es with
      | nil => rfl
      | cons e rest =>
        simp only [arithL, Bool.and_eq_true] at he
        simp only [evalList]
        exact bind_state (ih.ev _ _ _ he.1) fun v => bind_state (ih.lst _ _ _ he.2) fun vs => by split <;> rfl

end Extract
