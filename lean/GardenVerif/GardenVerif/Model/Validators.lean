import GardenVerif.Model.RefSem
/-!
# Validators — decidable relations between the before/after trees of the refactoring tools

(V) of DESIGN §3: the tools (rename, wrap-in-dbg, add-type-annotation, extract variable /
function, `check --fix`) are not modelled; instead each property has a DECIDABLE relation between
the tree before and the tree after (both from the REAL parser), evaluated by the driver on every
generated input, and a theorem, proved once for all programs, that related programs behave the
same under `RefSem`.

Part 1 (C19): alpha-renaming of ONE binder. `renProg c p` renames the binder at `c.site` (if it
binds `c.x`) to `c.y` together with exactly the occurrences of `c.x` that resolve to it. The
lexical resolver is the `act` flag threaded through the tree: `act = true` iff `c.x`, looked up
here, resolves to the binder at `c.site`. Binders: `let` (symbol or tuple destructuring), function
and closure parameters, `for` destinations, `match` payload destinations. A `let` is in scope in
the REST of its block; blocks, loop bodies, match arms and closure bodies are scopes.
-/

namespace Validators
open Machine (Expr Case Dest BinOp Program FunDef EnumDef)

-- ------------------------------------------------------------------ structural equality

def destEq (a b : Dest) : Bool := decide (a = b)

mutual
def exprEq : Expr → Expr → Bool
  | .int i u v, b => match b with
    | .int i' u' v' => i == i' && u == u' && v == v' | _ => false
  | .str i u s, b => match b with
    | .str i' u' s' => i == i' && u == u' && s == s' | _ => false
  | .var i u n, b => match b with
    | .var i' u' n' => i == i' && u == u' && n == n' | _ => false
  | .binop i u op l r, b => match b with
    | .binop i' u' op' l' r' => i == i' && u == u' && decide (op = op') && exprEq l l' && exprEq r r'
    | _ => false
  | .letE i u d e, b => match b with
    | .letE i' u' d' e' => i == i' && u == u' && destEq d d' && exprEq e e' | _ => false
  | .assign i u n e, b => match b with
    | .assign i' u' n' e' => i == i' && u == u' && n == n' && exprEq e e' | _ => false
  | .update i u a n e, b => match b with
    | .update i' u' a' n' e' => i == i' && u == u' && a == a' && n == n' && exprEq e e' | _ => false
  | .ifE i u c t e, b => match b with
    | .ifE i' u' c' t' e' => i == i' && u == u' && exprEq c c' && seqEq t t' && optEq e e' | _ => false
  | .whileE i u c bd, b => match b with
    | .whileE i' u' c' bd' => i == i' && u == u' && exprEq c c' && seqEq bd bd' | _ => false
  | .forE i u d e bd, b => match b with
    | .forE i' u' d' e' bd' => i == i' && u == u' && destEq d d' && exprEq e e' && seqEq bd bd' | _ => false
  | .matchE i u s cs, b => match b with
    | .matchE i' u' s' cs' => i == i' && u == u' && exprEq s s' && casesEq cs cs' | _ => false
  | .ret i u none, b => match b with
    | .ret i' u' none => i == i' && u == u' | _ => false
  | .ret i u (some e), b => match b with
    | .ret i' u' (some e') => i == i' && u == u' && exprEq e e' | _ => false
  | .brk i u, b => match b with
    | .brk i' u' => i == i' && u == u' | _ => false
  | .cont i u, b => match b with
    | .cont i' u' => i == i' && u == u' | _ => false
  | .list i u es, b => match b with
    | .list i' u' es' => i == i' && u == u' && seqEq es es' | _ => false
  | .tuple i u es, b => match b with
    | .tuple i' u' es' => i == i' && u == u' && seqEq es es' | _ => false
  | .call i u r as, b => match b with
    | .call i' u' r' as' => i == i' && u == u' && exprEq r r' && seqEq as as' | _ => false
  | .lambda i u ps bd, b => match b with
    | .lambda i' u' ps' bd' => i == i' && u == u' && ps == ps' && seqEq bd bd' | _ => false
  | .paren i u e, b => match b with
    | .paren i' u' e' => i == i' && u == u' && exprEq e e' | _ => false
  | .invalid i u, b => match b with
    | .invalid i' u' => i == i' && u == u' | _ => false
  | .unsup i u w, b => match b with
    | .unsup i' u' w' => i == i' && u == u' && w == w' | _ => false
def seqEq : List Expr → List Expr → Bool
  | [], [] => true
  | a :: as, b :: bs => exprEq a b && seqEq as bs
  | _, _ => false
def optEq : Option (List Expr) → Option (List Expr) → Bool
  | none, none => true
  | some a, some b => seqEq a b
  | _, _ => false
def caseEq : Case → Case → Bool
  | .mk v d b, .mk v' d' b' => v == v' && decide (d = d') && seqEq b b'
def casesEq : List Case → List Case → Bool
  | [], [] => true
  | a :: as, b :: bs => caseEq a b && casesEq as bs
  | _, _ => false
end

def funEq (a b : FunDef) : Bool := a.name == b.name && a.params == b.params && seqEq a.body b.body

def funsEq : List FunDef → List FunDef → Bool
  | [], [] => true
  | a :: as, b :: bs => funEq a b && funsEq as bs
  | _, _ => false

def enumEq (a b : EnumDef) : Bool := a.name == b.name && a.variants == b.variants

def enumsEq : List EnumDef → List EnumDef → Bool
  | [], [] => true
  | a :: as, b :: bs => enumEq a b && enumsEq as bs
  | _, _ => false

def progEq (a b : Program) : Bool :=
  funsEq a.funs b.funs && enumsEq a.enums b.enums && seqEq a.toplevel b.toplevel

-- ------------------------------------------------------------------ C19: alpha-renaming

/-- A binder occurrence: parameter `i` of toplevel function `f`, or name `i` of the
destination carried by node `id` (`let`, `for`, closure parameters: `case = 0`; payload
destination of arm `case` of a `match`). -/
inductive Site where
  | fparam (f : String) (i : Nat)
  | node (id : Nat) (case : Nat) (i : Nat)
  deriving DecidableEq, Repr

structure RenCfg where
  site : Site
  x : String
  y : String

def hitNode (c : RenCfg) (id case : Nat) : Option Nat :=
  match c.site with
  | .node id' case' i => if id' == id && case' == case then some i else none
  | _ => none

def hitFun (c : RenCfg) (f : String) : Option Nat :=
  match c.site with
  | .fparam g i => if g == f then some i else none
  | _ => none

/-- One bound name: the binder at the site becomes `y` and activates; any other binder of `x`
shadows (deactivates); other names change nothing. -/
def renName (c : RenCfg) (hitHere act : Bool) (n : String) : String × Bool :=
  if n == c.x then (if hitHere then (c.y, true) else (n, false)) else (n, act)

def renNames (c : RenCfg) (hit : Option Nat) : Bool → Nat → List String → List String × Bool
  | act, _, [] => ([], act)
  | act, i, n :: ns =>
    let r := renName c (hit == some i) act n
    let rs := renNames c hit r.2 (i + 1) ns
    (r.1 :: rs.1, rs.2)

def renDest (c : RenCfg) (hit : Option Nat) (act : Bool) : Dest → Dest × Bool
  | .sym n => let r := renName c (hit == some 0) act n; (.sym r.1, r.2)
  | .destr ns => let r := renNames c hit act 0 ns; (.destr r.1, r.2)

/-- A use of a name. -/
def rn (c : RenCfg) (act : Bool) (n : String) : String := if act && n == c.x then c.y else n

/-- Is `x` (still) resolved to the site's binder after statement `e` of a sequence? -/
def actAfter (c : RenCfg) (act : Bool) : Expr → Bool
  | .letE id _ dest _ => (renDest c (hitNode c id 0) act dest).2
  | _ => act

mutual
def ren (c : RenCfg) (act : Bool) : Expr → Expr
  | .int id u v => .int id u v
  | .str id u s => .str id u s
  | .var id u n => .var id u (rn c act n)
  | .binop id u op l r => .binop id u op (ren c act l) (ren c act r)
  | .letE id u dest rhs => .letE id u (renDest c (hitNode c id 0) act dest).1 (ren c act rhs)
  | .assign id u n rhs => .assign id u (rn c act n) (ren c act rhs)
  | .update id u a n rhs => .update id u a (rn c act n) (ren c act rhs)
  | .ifE id u cnd thn els => .ifE id u (ren c act cnd) (renSeq c act thn) (renOpt c act els)
  | .whileE id u cnd body => .whileE id u (ren c act cnd) (renSeq c act body)
  | .forE id u dest iter body =>
      .forE id u (renDest c (hitNode c id 0) act dest).1 (ren c act iter)
        (renSeq c (renDest c (hitNode c id 0) act dest).2 body)
  | .matchE id u scrut cases => .matchE id u (ren c act scrut) (renCases c act id 0 cases)
  | .ret id u none => .ret id u none
  | .ret id u (some e) => .ret id u (some (ren c act e))
  | .brk id u => .brk id u
  | .cont id u => .cont id u
  | .list id u items => .list id u (renList c act items)
  | .tuple id u items => .tuple id u (renList c act items)
  | .call id u recv args => .call id u (ren c act recv) (renList c act args)
  | .lambda id u params body =>
      .lambda id u (renNames c (hitNode c id 0) act 0 params).1
        (renSeq c (renNames c (hitNode c id 0) act 0 params).2 body)
  | .paren id u e => .paren id u (ren c act e)
  | .invalid id u => .invalid id u
  | .unsup id u w => .unsup id u w
/-- A statement sequence: a `let` changes what `x` resolves to in the rest. -/
def renSeq (c : RenCfg) (act : Bool) : List Expr → List Expr
  | [] => []
  | e :: rest => ren c act e :: renSeq c (actAfter c act e) rest
/-- Items evaluated in the same scope (list / tuple items, call arguments). -/
def renList (c : RenCfg) (act : Bool) : List Expr → List Expr
  | [] => []
  | e :: rest => ren c act e :: renList c act rest
def renOpt (c : RenCfg) (act : Bool) : Option (List Expr) → Option (List Expr)
  | none => none
  | some b => some (renSeq c act b)
def renCase (c : RenCfg) (act : Bool) (id k : Nat) : Case → Case
  | .mk v none body => .mk v none (renSeq c act body)
  | .mk v (some d) body =>
      .mk v (some (renDest c (hitNode c id k) act d).1) (renSeq c (renDest c (hitNode c id k) act d).2 body)
def renCases (c : RenCfg) (act : Bool) (id : Nat) : Nat → List Case → List Case
  | _, [] => []
  | k, cs :: rest => renCase c act id k cs :: renCases c act id (k + 1) rest
end

def renFun (c : RenCfg) (d : FunDef) : FunDef :=
  { d with params := (renNames c (hitFun c d.name) false 0 d.params).1,
           body := renSeq c (renNames c (hitFun c d.name) false 0 d.params).2 d.body }

def renProg (c : RenCfg) (p : Program) : Program :=
  { p with funs := p.funs.map (renFun c), toplevel := renSeq c false p.toplevel }

-- freshness: the new name occurs nowhere (as a use, an assignment target or a binder)

def freshNames (y : String) (ns : List String) : Bool := ns.all (· != y)

def freshDest (y : String) : Dest → Bool
  | .sym n => n != y
  | .destr ns => freshNames y ns

mutual
def fresh (y : String) : Expr → Bool
  | .int .. => true
  | .str .. => true
  | .var _ _ n => n != y
  | .binop _ _ _ l r => fresh y l && fresh y r
  | .letE _ _ dest rhs => freshDest y dest && fresh y rhs
  | .assign _ _ n rhs => n != y && fresh y rhs
  | .update _ _ _ n rhs => n != y && fresh y rhs
  | .ifE _ _ c t e => fresh y c && freshSeq y t && freshOpt y e
  | .whileE _ _ c b => fresh y c && freshSeq y b
  | .forE _ _ d e b => freshDest y d && fresh y e && freshSeq y b
  | .matchE _ _ s cs => fresh y s && freshCases y cs
  | .ret _ _ none => true
  | .ret _ _ (some e) => fresh y e
  | .brk .. => true
  | .cont .. => true
  | .list _ _ es => freshSeq y es
  | .tuple _ _ es => freshSeq y es
  | .call _ _ r as => fresh y r && freshSeq y as
  | .lambda _ _ ps b => freshNames y ps && freshSeq y b
  | .paren _ _ e => fresh y e
  | .invalid .. => true
  | .unsup .. => true
def freshSeq (y : String) : List Expr → Bool
  | [] => true
  | e :: rest => fresh y e && freshSeq y rest
def freshOpt (y : String) : Option (List Expr) → Bool
  | none => true
  | some b => freshSeq y b
def freshCase (y : String) : Case → Bool
  | .mk _ none b => freshSeq y b
  | .mk _ (some d) b => freshDest y d && freshSeq y b
def freshCases (y : String) : List Case → Bool
  | [] => true
  | c :: rest => freshCase y c && freshCases y rest
end

def freshFun (y : String) (d : FunDef) : Bool := freshNames y d.params && freshSeq y d.body

/-- `Fresh y p`: `y` is not mentioned anywhere in `p`. -/
def freshProg (y : String) (p : Program) : Bool := p.funs.all (freshFun y) && freshSeq y p.toplevel

/-- The relation the driver evaluates for C19 (decidable: `alphaCheck`). -/
def IsAlphaRename (p p' : Program) (site : Site) (x y : String) : Prop :=
  p' = renProg ⟨site, x, y⟩ p

def alphaCheck (p p' : Program) (site : Site) (x y : String) : Bool :=
  progEq p' (renProg ⟨site, x, y⟩ p)

-- the name bound at a site (sanity: the site exists and binds `x`)

def destName (d : Dest) (i : Nat) : Option String :=
  match d with
  | .sym n => if i == 0 then some n else none
  | .destr ns => ns[i]?

mutual
def nameAtE (id case i : Nat) : Expr → Option String
  | .int .. => none
  | .str .. => none
  | .var .. => none
  | .binop _ _ _ l r => (nameAtE id case i l).or (nameAtE id case i r)
  | .letE id' _ dest rhs =>
      (if id' == id && case == 0 then destName dest i else none).or (nameAtE id case i rhs)
  | .assign _ _ _ rhs => nameAtE id case i rhs
  | .update _ _ _ _ rhs => nameAtE id case i rhs
  | .ifE _ _ c t e => ((nameAtE id case i c).or (nameAtS id case i t)).or (nameAtO id case i e)
  | .whileE _ _ c b => (nameAtE id case i c).or (nameAtS id case i b)
  | .forE id' _ d e b =>
      ((if id' == id && case == 0 then destName d i else none).or (nameAtE id case i e)).or (nameAtS id case i b)
  | .matchE id' _ s cs => (nameAtE id case i s).or (nameAtC id case i (id' == id) 0 cs)
  | .ret _ _ none => none
  | .ret _ _ (some e) => nameAtE id case i e
  | .brk .. => none
  | .cont .. => none
  | .list _ _ es => nameAtS id case i es
  | .tuple _ _ es => nameAtS id case i es
  | .call _ _ r as => (nameAtE id case i r).or (nameAtS id case i as)
  | .lambda id' _ ps b => (if id' == id && case == 0 then ps[i]? else none).or (nameAtS id case i b)
  | .paren _ _ e => nameAtE id case i e
  | .invalid .. => none
  | .unsup .. => none
def nameAtS (id case i : Nat) : List Expr → Option String
  | [] => none
  | e :: rest => (nameAtE id case i e).or (nameAtS id case i rest)
def nameAtO (id case i : Nat) : Option (List Expr) → Option String
  | none => none
  | some b => nameAtS id case i b
def nameAtC (id case i : Nat) (here : Bool) : Nat → List Case → Option String
  | _, [] => none
  | k, .mk _ d b :: rest =>
      ((if here && k == case then (match d with | some d => destName d i | none => none) else none).or
        (nameAtS id case i b)).or (nameAtC id case i here (k + 1) rest)
end

def nameAt (p : Program) : Site → Option String
  | .fparam f i => (p.funs.find? (fun d => d.name == f)).bind fun d => d.params[i]?
  | .node id case i =>
      (p.funs.findSome? fun d => nameAtS id case i d.body).or (nameAtS id case i p.toplevel)

/-- Node ids of the uses (`var`, assignment / update targets) that `ren` renames: the
occurrences that RESOLVE to the binder at the site. -/
def isUse (c : RenCfg) (act : Bool) (n : String) : Bool := act && n == c.x

mutual
def resolved (c : RenCfg) (act : Bool) : Expr → List Nat
  | .int .. => []
  | .str .. => []
  | .var id _ n => if isUse c act n then [id] else []
  | .binop _ _ _ l r => resolved c act l ++ resolved c act r
  | .letE _ _ _ rhs => resolved c act rhs
  | .assign id _ n rhs => (if isUse c act n then [id] else []) ++ resolved c act rhs
  | .update id _ _ n rhs => (if isUse c act n then [id] else []) ++ resolved c act rhs
  | .ifE _ _ cnd thn els => resolved c act cnd ++ resolvedSeq c act thn ++ resolvedOpt c act els
  | .whileE _ _ cnd body => resolved c act cnd ++ resolvedSeq c act body
  | .forE id _ dest iter body =>
      resolved c act iter ++ resolvedSeq c (renDest c (hitNode c id 0) act dest).2 body
  | .matchE id _ scrut cases => resolved c act scrut ++ resolvedCases c act id 0 cases
  | .ret _ _ none => []
  | .ret _ _ (some e) => resolved c act e
  | .brk .. => []
  | .cont .. => []
  | .list _ _ items => resolvedList c act items
  | .tuple _ _ items => resolvedList c act items
  | .call _ _ recv args => resolved c act recv ++ resolvedList c act args
  | .lambda id _ params body => resolvedSeq c (renNames c (hitNode c id 0) act 0 params).2 body
  | .paren _ _ e => resolved c act e
  | .invalid .. => []
  | .unsup .. => []
def resolvedSeq (c : RenCfg) (act : Bool) : List Expr → List Nat
  | [] => []
  | e :: rest => resolved c act e ++ resolvedSeq c (actAfter c act e) rest
def resolvedList (c : RenCfg) (act : Bool) : List Expr → List Nat
  | [] => []
  | e :: rest => resolved c act e ++ resolvedList c act rest
def resolvedOpt (c : RenCfg) (act : Bool) : Option (List Expr) → List Nat
  | none => []
  | some b => resolvedSeq c act b
def resolvedCases (c : RenCfg) (act : Bool) (id : Nat) : Nat → List Case → List Nat
  | _, [] => []
  | k, .mk _ none body :: rest => resolvedSeq c act body ++ resolvedCases c act id (k + 1) rest
  | k, .mk _ (some d) body :: rest =>
      resolvedSeq c (renDest c (hitNode c id k) act d).2 body ++ resolvedCases c act id (k + 1) rest
end

/-- `resolve`: the uses in `p` that resolve to the binder at `site` (node ids, in source order). -/
def resolve (p : Program) (site : Site) (x : String) : List Nat :=
  let c : RenCfg := ⟨site, x, x⟩
  (p.funs.flatMap fun d => resolvedSeq c (renNames c (hitFun c d.name) false 0 d.params).2 d.body)
    ++ resolvedSeq c false p.toplevel

-- ------------------------------------------------------------------ `apply_renames` (src/rename.rs 87-101), exactly

/-- `&src[i..j]`: panics (`none`) unless `i ≤ j ≤ len` (char boundaries: the positions are
token positions of the lexer; over bytes every offset is a boundary). -/
def slice {α} (src : List α) (i j : Nat) : Option (List α) :=
  if i ≤ j ∧ j ≤ src.length then some ((src.drop i).take (j - i)) else none

def applyRenamesGo {α} (src new : List α) : Nat → List (Nat × Nat) → List α → Option (List α)
  | i, [], acc => (slice src i src.length).map (acc ++ ·)
  | i, (s, e) :: rest, acc =>
    match slice src i s with
    | none => none
    | some seg => applyRenamesGo src new e rest (acc ++ seg ++ new)

/-- Positions are (start_offset, end_offset); sorted by start offset first. -/
def applyRenames {α} (src new : List α) (positions : List (Nat × Nat)) : Option (List α) :=
  applyRenamesGo src new 0 (positions.mergeSort (fun a b => a.1 ≤ b.1)) []

/-- A text cut into (gap, token) segments and a final gap. -/
def buildText {α} : List (List α × List α) → List α → List α
  | [], last => last
  | (g, t) :: rest, last => g ++ t ++ buildText rest last

/-- The same text with every token replaced by `new`. -/
def buildRenamed {α} (new : List α) : List (List α × List α) → List α → List α
  | [], last => last
  | (g, _) :: rest, last => g ++ new ++ buildRenamed new rest last

/-- The token positions of a segmented text that starts at offset `i`. -/
def positionsOf {α} : Nat → List (List α × List α) → List (Nat × Nat)
  | _, [] => []
  | i, (g, t) :: rest => (i + g.length, i + g.length + t.length) :: positionsOf (i + g.length + t.length) rest

-- ------------------------------------------------------------------ `apply_fixes` (src/syntax_check.rs 40-54), exactly

structure Fix (α : Type) where
  start : Nat
  stop : Nat
  new : List α

/-- `format!("{}{}{}", &result[..start], new_text, &result[end..])`: the two slices panic
(`none`) when an offset is beyond the current text. -/
def splice {α} (r : List α) (f : Fix α) : Option (List α) :=
  if f.start ≤ r.length ∧ f.stop ≤ r.length then some (r.take f.start ++ f.new ++ r.drop f.stop) else none

/-- The loop over the sorted fixes. -/
def applyFixesSorted {α} (src : List α) (fixes : List (Fix α)) : Option (List α) :=
  fixes.foldl (fun acc f => acc.bind (splice · f)) (some src)

/-- `fixes.sort_by_key(|b| Reverse(b.position.start_offset))` (stable), then the loop. -/
def applyFixes {α} (src : List α) (fixes : List (Fix α)) : Option (List α) :=
  applyFixesSorted src (fixes.mergeSort (fun a b => decide (b.start ≤ a.start)))

/-- A text cut into (gap, replaced range, replacement) segments and a final gap. -/
def buildText3 {α} : List (List α × List α × List α) → List α → List α
  | [], last => last
  | (g, t, _) :: rest, last => g ++ t ++ buildText3 rest last

/-- The simultaneous substitution. -/
def buildFixed {α} : List (List α × List α × List α) → List α → List α
  | [], last => last
  | (g, _, nw) :: rest, last => g ++ nw ++ buildFixed rest last

def fixesOf {α} : Nat → List (List α × List α × List α) → List (Fix α)
  | _, [] => []
  | i, (g, t, nw) :: rest =>
      ⟨i + g.length, i + g.length + t.length, nw⟩ :: fixesOf (i + g.length + t.length) rest

/-- Pairwise disjoint, in bounds, in ascending order: what `fixesOf` produces. -/
def fixesDisjointSorted {α} (len : Nat) : Nat → List (Fix α) → Bool
  | i, [] => decide (i ≤ len)
  | i, f :: rest => decide (i ≤ f.start) && decide (f.start ≤ f.stop) && fixesDisjointSorted len f.stop rest

/-- `apply_fixes` after the repair "skip a fix that overlaps an already applied one"
(patches/refactor-fix-apply-fixes-skip-overlap.diff): the fixes are visited in descending start
order; `bound` is the start of the last applied fix (initially the text length); a fix with
`start > end` or `end > bound` is skipped. No slice can be out of range, so there is no panic. -/
def applyFixesSkipGo {α} : List (Fix α) → List α → Nat → List α
  | [], r, _ => r
  | f :: rest, r, bound =>
    if f.start ≤ f.stop ∧ f.stop ≤ bound then
      applyFixesSkipGo rest (r.take f.start ++ f.new ++ r.drop f.stop) f.start
    else applyFixesSkipGo rest r bound

def applyFixesSkip {α} (src : List α) (fixes : List (Fix α)) : List α :=
  applyFixesSkipGo (fixes.mergeSort (fun a b => decide (b.start ≤ a.start))) src src.length

end Validators
