"""C22 — `check --fix` edits are safe.

Level: translation validation.
Proof (GardenVerif.Props.C22): `apply_fixes_disjoint` (exact model of `apply_fixes`: for pairwise-disjoint in-bounds
fixes in any order the result is the simultaneous substitution, no slicing panic), `fixesOf_disjoint`, and the
per-lint schema lemmas on the reference semantics (`unused_literal_stmt_sound`, `unused_string_stmt_sound`,
`unnecessary_let_sound`, `repeated_bool_sound`).
Per input (programs that trigger the fixable lints: unused literal statements — alone on a line, sharing a line with
other code, with effectful items —, unused variables / parameters, `let x = e; x`, trailing `return`, repeated
`&&` / `||` operands (plain and effectful), `len() == 0`, arms after `_`):
* tie: the real fix list (hook op `check`) is fed to the Lean model `applyFixes` (op `fixes_check`), whose output must
  equal the real `check --fix` output (hook op `fix` = `apply_fixes`; a sample through the CLI), and the driver
  evaluates the precondition of `apply_fixes_disjoint` (disjoint, in bounds) on it;
* `FixCoversOnly`: a deletion may not touch any statement other than the one its diagnostic names (node spans
  from the real parser);
* direct oracle: the fixed program parses; when the original ran without error the fixed one prints the same and
  ends without error (real evaluator; differences re-run through `garden run`); repeating --fix reaches a fixed
  point within 3 rounds.
"""
import os
import re
from . import common
from . import refactor_common as RC
from .common import hexs, unhex

LEAN_MODULES = ["GardenVerif.Props.C22"]
LEVEL = "translation_validation"


def gen_lint_program(rng, idx):
    """Functions whose bodies mix ordinary statements with lint triggers; every function is called and its
    result printed, and effectful helpers print, so a fix that drops or duplicates code is observable."""
    g = RC.RGen(rng, size=rng.choice([10, 18, 26]), assign=True, closures=rng.random() < 0.5)
    kinds = []
    parts = ["fun pr(k) {\n  println(string_repr(k))\n  k > 2\n}", "fun eff(k) {\n  println(string_repr(k + 100))\n  k\n}"]
    g.funs += []
    nfun = rng.randrange(1, 4)
    calls = []
    for fi in range(nfun):
        name = "g%d" % fi
        ps = rng.sample(RC.POOL, rng.randrange(0, 3))
        g.scopes = [{p: RC.INT for p in ps}, {}]
        g.loop = 0
        body = []
        for _ in range(rng.randrange(2, 6)):
            k = rng.randrange(14)
            if k == 0:
                kinds.append("literal-line")
                body.append(rng.choice(["1", '"s"', "[1, 2]", "(1, 2)", "[%s]" % g.int_expr(2)]))
            elif k == 1:
                kinds.append("literal-shared-line")
                body.append("%s println(string_repr(%s))" % (rng.choice(["1", '"s"', "[1, 2]"]), g.int_expr(2)))
            elif k == 2:
                kinds.append("literal-shared-line-after")
                body.append("println(string_repr(%s)) %s" % (g.int_expr(2), rng.choice(["1", '"s"', "[3]"])))
            elif k == 3:
                kinds.append("literal-effectful")
                body.append(rng.choice(["[eff(%s)]", "(eff(%s), 2)", "[1, eff(%s)]"]) % g.int_expr(2))
            elif k == 4:
                kinds.append("unused-var")
                body.append("let u%d = %s" % (len(kinds), rng.choice([g.int_expr(1), "eff(%s)" % g.int_expr(2)])))
            elif k == 5:
                kinds.append("repeated-bool")
                bs = g.vars_of(RC.BOOL)
                a = rng.choice(bs) if bs else "(%s)" % g.bool_expr(1)
                op = rng.choice(["||", "&&"])
                body.append("println(string_repr(%s %s %s %s %s))" % (a, op, g.bool_expr(1) if rng.random() < 0.5 else "True", op, a))
            elif k == 6:
                kinds.append("repeated-bool-effectful")
                op = rng.choice(["||", "&&"])
                body.append("println(string_repr((pr(%d) %s False) %s pr(%d)))" % (fi, op, op, fi))
            elif k == 7:
                kinds.append("len-compare")
                body.append("let l%d = %s" % (len(kinds), g.list_expr(1)))
                body.append("if l%d.len() %s 0 { println(\"e\") }" % (len(kinds), rng.choice(["==", "!="])))
            elif k == 8:
                kinds.append("unreachable-arm")
                body.append("match %s { Some(q) => { println(string_repr(q)) } _ => { println(\"o\") } None => { println(\"n\") } }" % g.opt_expr(1))
            else:
                body.append(g.stmt(1))
        tail = rng.randrange(4)
        if tail == 0:
            kinds.append("unnecessary-let")
            body.append("let r = %s" % g.int_expr(1))
            body.append("r")
        elif tail == 1:
            kinds.append("unnecessary-return")
            body.append("return %s" % g.int_expr(1))
        else:
            body.append(g.int_expr(1))
        used = set(re.findall(r"\w+", "\n".join(body)))
        for p in ps:
            if p not in used:
                kinds.append("unused-param")
        parts.append("fun %s(%s) %s" % (name, ", ".join(ps), g.render(body, 0)))
        calls.append("println(string_repr(%s(%s)))" % (name, ", ".join(str(rng.randrange(0, 6)) for _ in ps)))
    src = "\n".join(parts + calls) + "\n"
    return src, kinds


def parse_check(resp):
    """-> (n_parse_errors, [(severity, message, (start, end), [(desc, start, end, new)])])"""
    if not resp or not resp.startswith("OK"):
        return None
    diags = []
    nerr = len(re.findall(r"\((?:invalid|incomplete) ", resp))
    for m in re.finditer(r"\(diag (\w+) ([0-9a-f]*) (\d+):(\d+):[\d:]+((?: \(fix [0-9a-f]* [\d:]+ [0-9a-f]*\))*)\)", resp):
        fixes = [(unhex(f.group(1)), int(f.group(2)), int(f.group(3)), unhex(f.group(4)))
                 for f in re.finditer(r"\(fix ([0-9a-f]*) (\d+):(\d+):[\d:]+ ([0-9a-f]*)\)", m.group(5))]
        diags.append((m.group(1), unhex(m.group(2)), (int(m.group(3)), int(m.group(4))), fixes))
    return nerr, diags


def fix_result(resp):
    m = re.match(r"^OK \(fixed ([0-9a-f]*) (\d+)\)$", resp or "")
    if m:
        return unhex(m.group(1)), int(m.group(2))
    return None


def statements(tree):
    """(start, end) of every block-level statement and toplevel expression."""
    out = []

    def block(b):
        for e in b[3:]:
            out.append((int(e[3]), int(e[4])))
            walk(e)

    def walk(e):
        for x in e[5:]:
            if isinstance(x, list):
                if x and x[0] == "block":
                    block(x)
                elif RC.is_expr(x):
                    walk(x)
                elif x and x[0] == "case":
                    block(x[3])
    for it in tree.items:
        if it[0] == "fun":
            block(it[4])
        elif it[0] == "expr":
            out.append((int(it[1][3]), int(it[1][4])))
            walk(it[1])
        elif it[0] == "blockitem":
            block(it[1])
    return out


SEEDS = [
    'fun f() {\n  1 println("x")\n  2\n}\nprintln(string_repr(f()))\n',
    'fun f() {\n  println("a") "s"\n  2\n}\nprintln(string_repr(f()))\n',
    'fun eff(k) {\n  println("e")\n  k\n}\nfun f() {\n  [eff(1)]\n  2\n}\nprintln(string_repr(f()))\n',
    'fun f() {\n  [1, 2]\n  [3, 4]\n}\nprintln(string_repr(f()))\n',
    'fun f(x) {\n  let y = 1\n  y\n}\nprintln(string_repr(f(3)))\n',
    'fun f(b, c) {\n  (b && c && b) || c || (b && c && b)\n}\nprintln(string_repr(f(True, False)))\n',
    'fun f(y) {\n  (y <= y) && True && (y <= y)\n}\nprintln(string_repr(f(1)))\n',
]


def slug(desc):
    return re.sub(r"[^a-z]+", "-", re.sub(r"`[^`]*`", "", desc).lower()).strip("-")


def culprit(ctx, src, fixes, before, parse_only=False):
    """Which single fix, applied alone, already breaks the program (parse / output)? -> slug or 'combination'."""
    texts = []
    groups = {}
    for dpos, f in fixes:
        groups.setdefault(dpos, []).append(f)
    for dpos, fs in groups.items():       # all fixes of ONE diagnostic together (they are disjoint)
        bs = src.encode()
        for (desc, a, b, new) in sorted(fs, key=lambda f: -f[1]):
            bs = bs[:a] + new.encode() + bs[b:]
        texts.append((fs[0][0], bs.decode("utf-8", "replace")))
    rr = ctx.garden_batch([RC.run_line(t) for _, t in texts], shards=1)
    bad = set()
    for (desc, t), x in zip(texts, rr):
        a = RC.run_result(x)
        if parse_only:
            if a[0] == "parse-error":
                bad.add(slug(desc))
        elif a[0] != before[0] or a[2] != before[2]:
            bad.add(slug(desc))
    return bad


def keyed(ctx, prefix, bad):
    """Failure key from the culprit lints, leaving out lints whose own key is already a listed finding
    (so that a second, different defect in the same program is still reported under its own name)."""
    known = {k["key"] for k in ctx.known}
    rest = sorted(b for b in bad if prefix + b not in known)
    if bad and not rest:
        rest = sorted(bad)[:1]
    return prefix + ("+".join(rest) if rest else "combination")


def run(ctx):
    rng = ctx.rng
    nprog = ctx.scale(300, 10000)
    progs = [(s, ["seed"]) for s in SEEDS] + [gen_lint_program(rng, i) for i in range(nprog)]
    srcs = [p for p, _ in progs]
    n = len(srcs)
    ctx.rule = ("%d generated programs whose functions mix ordinary statements with triggers of the fixable lints (unused "
                "literal alone on a line / sharing a line with code before or after it / with effectful items, unused "
                "variable with pure or effectful value, unused parameter, `let r = e; r`, trailing return, repeated && / || "
                "operand plain or effectful, len() == 0, match arm after `_`) + 5 fixed seeds; every function is called and "
                "its result printed. Non-trivial = at least one autofix is offered." % nprog)
    r = ctx.garden_batch(["check " + hexs(s) for s in srcs] + ["fix " + hexs(s) for s in srcs] +
                         ["astq " + hexs(s) for s in srcs] + [RC.run_line(s) for s in srcs])
    chk, fx, astq, runs = r[:n], r[n:2 * n], r[2 * n:3 * n], r[3 * n:]
    model_lines, model_idx = [], []
    hist, nfix_total, lint_hist = {}, 0, {}
    stage = {}
    for i, s in enumerate(srcs):
        for k in progs[i][1]:
            hist[k] = hist.get(k, 0) + 1
        pc = parse_check(chk[i])
        fr = fix_result(fx[i])
        rep = dict(src=s, cmd="garden check --fix --stdout f.gdn")
        if chk[i] and chk[i].startswith("PANIC") or fx[i] and fx[i].startswith("PANIC"):
            key = "C22/crash"
            if pc is not None:
                fs = sorted((f for d in pc[1] for f in d[3]), key=lambda f: (f[1], f[2]))
                ov = set()
                for x, y in zip(fs, fs[1:]):
                    if y[1] < x[2]:
                        ov |= {slug(x[0]), slug(y[0])}
                if ov:
                    key = "C22/crash/overlapping-fixes/" + "+".join(sorted(ov))
            ctx.fail(key, "check / apply_fixes panicked: %s" % unhex((fx[i] or chk[i])[6:])[:200], **rep)
            continue
        if pc is None or fr is None:
            if fx[i] and "parse-error" in fx[i]:
                ctx.fail("C22/generator", "generated program does not parse", **rep)
            else:
                ctx.disagree("hook", {"src": s}, None, (chk[i] or "")[:200])
            continue
        nerr, diags = pc
        fixes = [(d[2], f) for d in diags for f in d[3]]
        ctx.case(s, bool(fixes))
        nfix_total += len(fixes)
        for d in diags:
            for f in d[3]:
                lint_hist[f[0]] = lint_hist.get(f[0], 0) + 1
        if fr[1] != len(fixes):
            ctx.disagree("fix-count", {"src": s}, len(fixes), fr[1])
        stage[i] = (fixes, fr[0])
        model_lines.append("fixes_check %s %s" % (hexs(s), " ".join("%d:%d:%s" % (f[1], f[2], hexs(f[3])) for _, f in fixes)))
        model_idx.append(i)
        # FixCoversOnly: a deletion touches no statement but the one its diagnostic names
        if astq[i] and astq[i].startswith("OK (astq 0"):
            st = statements(RC.Tree(astq[i]))
            for (ds, de), (desc, a, b, new) in fixes:
                if desc != "Remove unused value":
                    continue
                own = [x for x in st if x[0] <= ds and de <= x[1]]
                for (x0, x1) in st:
                    if x0 < b and a < x1 and not any(o[0] <= x0 and x1 <= o[1] for o in own) \
                            and not any(x0 <= o[0] and o[1] <= x1 for o in own):
                        ctx.fail("C22/fix-covers-other-code/" + re.sub(r"[^a-z]+", "-", desc.lower()),
                                 "the range of a deleting fix (%d..%d, %r) covers another statement (%d..%d: %r)" % (
                                     a, b, desc, x0, x1, s.encode()[x0:x1].decode()), fix_range=[a, b], **rep)
                        break
    # ---- the exact model of apply_fixes on the real fix lists
    mr = ctx.model_batch(model_lines)
    disj_bad = 0
    for i, x in zip(model_idx, mr):
        fixes, real = stage[i]
        m = re.match(r"^OK \(fixes (\d) (PANIC|[0-9a-f]*)\)$", x or "")
        if not m:
            ctx.disagree("fixes_check", {"src": srcs[i]}, x, "ok")
            continue
        if m.group(2) == "PANIC":
            ctx.disagree("fixes_check", {"src": srcs[i]}, "PANIC", real)
            continue
        if unhex(m.group(2)) != real:
            ctx.disagree("apply_fixes", {"src": srcs[i], "fixes": [f for _, f in fixes]}, unhex(m.group(2)), real)
        if m.group(1) != "1":
            disj_bad += 1
            fs = sorted((f for _, f in fixes), key=lambda f: (f[1], f[2]))
            for x, y in zip(fs, fs[1:]):
                if y[1] < x[2] or (y[1], y[2]) == (x[1], x[2]):
                    ctx.fail("C22/overlapping-fixes/" + "+".join(sorted({slug(x[0]), slug(y[0])})),
                             "two offered fixes overlap: %r and %r" % (x, y), src=srcs[i],
                             cmd="garden check --fix --stdout f.gdn")
    # ---- fixed programs: parse, run, fixed point
    cur = {i: stage[i][1] for i in stage if stage[i][0]}
    idxs = sorted(cur)
    texts = [cur[i] for i in idxs]
    r1 = ctx.garden_batch(["check " + hexs(t) for t in texts] + [RC.run_line(t) for t in texts] +
                          ["fix " + hexs(t) for t in texts])
    m = len(texts)
    scratch = ctx.scratch("c22")
    rounds_hist = {}
    pending = []
    for k, i in enumerate(idxs):
        t = texts[k]
        rep = dict(src=srcs[i], fixed=t, cmd="garden check --fix --stdout f.gdn")
        pc = parse_check(r1[k])
        if pc is None or pc[0] > 0 or "parse-error" in (r1[2 * m + k] or ""):
            ctx.fail(keyed(ctx, "C22/fixed-does-not-parse/", culprit(ctx, srcs[i], stage[i][0], RC.run_result(runs[i]), parse_only=True)),
                     "the fixed program has parse errors", **rep)
            continue
        b, a = RC.run_result(runs[i]), RC.run_result(r1[m + k])
        if b[0] == "ok" and (a[0] != "ok" or a[2] != b[2] or a[1] != b[1]):
            c1, c2 = RC.cli_run(ctx, srcs[i], scratch, "b%d" % i), RC.cli_run(ctx, t, scratch, "a%d" % i)
            if c1[1] != c2[1] or c1[0] != c2[0]:
                lost = [kk for kk in progs[i][1]]
                ctx.fail(keyed(ctx, "C22/behaviour-changed/", culprit(ctx, srcs[i], stage[i][0], b)),
                         "the original runs without error, the fixed program prints or ends "
                         "differently", before_run=b, after_run=a, triggers=lost, **rep)
        f2 = fix_result(r1[2 * m + k])
        if f2 is None:
            ctx.fail("C22/crash", "second --fix round failed: %s" % (r1[2 * m + k] or "")[:200], **rep)
            continue
        if f2[0] == t:
            rounds_hist[1] = rounds_hist.get(1, 0) + 1
        else:
            pending.append((i, f2[0], 2))
    while pending:
        rr = ctx.garden_batch(["fix " + hexs(t) for _, t, _ in pending])
        nxt = []
        for (i, t, k), x in zip(pending, rr):
            f = fix_result(x)
            if f is None:
                ctx.fail("C22/fixed-does-not-parse", "a later --fix round produced an unparseable program", src=srcs[i], fixed=t)
            elif f[0] == t:
                rounds_hist[k] = rounds_hist.get(k, 0) + 1
            elif k >= 3:
                pc = parse_check(ctx.garden_batch(["check " + hexs(t)], shards=1)[0])
                lints = sorted({slug(fx_[0]) for d_ in (pc[1] if pc else []) for fx_ in d_[3]})
                ctx.fail("C22/no-fixed-point/" + "+".join(lints), "--fix still changes the program after 3 rounds", src=srcs[i], after3=t, after4=f[0])
            else:
                nxt.append((i, f[0], k + 1))
        pending = nxt
    # ---- the CLI on a sample
    def cli_job(i):
        path = os.path.join(scratch, "c%d.gdn" % i)
        with open(path, "w") as f:
            f.write(srcs[i])
        rc, so, se = ctx.garden(["check", "--fix", "--stdout", path], timeout=60)
        return i, rc, so
    sample = idxs[::max(1, len(idxs) // ctx.scale(40, 400))]
    for i, rc, so in common.pmap(cli_job, sample):
        if common.crashed(rc):
            ctx.fail("C22/crash", "garden check --fix crashed rc=%d" % rc, src=srcs[i])
        elif so != stage[i][1]:
            ctx.disagree("hook-vs-cli", {"src": srcs[i]}, stage[i][1], so)
    RC.cleanup(scratch)
    for i in idxs[:6]:
        ctx.sample(dict(src=srcs[i], fixed=stage[i][1], fixes=[list(f) for _, f in stage[i][0]]))
    ctx.cov["failure_keys"] = sorted({f["key"] for f in ctx.failures})
    ctx.cov["known_keys_hit"] = sorted({k["key"] for k in ctx.known_hit})
    ctx.log("failure keys: %s; known: %s" % (ctx.cov["failure_keys"], ctx.cov["known_keys_hit"]))
    ctx.cov.update(programs=n, disagreements_checked=len(model_idx), programs_with_fixes=len(idxs), fixes=nfix_total,
                   fixes_by_lint=lint_hist, triggers_generated=hist, rounds_to_fixed_point=rounds_hist,
                   fix_lists_not_disjoint=disj_bad, cli_compared=len(sample))
    ctx.assumptions += [
        "schema soundness lemmas are local (statement level, exact in fuel); their lift through arbitrary contexts is not "
        "proved — the per-input oracle runs the real evaluator before / after",
        "sources are ASCII (every byte offset is a char boundary)",
    ]
    ctx.log("programs %d with fixes %d, fixes %d by lint %s; rounds %s; triggers %s" % (
        n, len(idxs), nfix_total, lint_hist, rounds_hist, hist))
