"""Generator of well-formed Garden syntax trees (position-free, the S-expression format of
harness/ast_dump.py / Driver/Parse.lean), for C33 and C03.

Trees are Python tuples `(kind, …)`; `sexpr(t)` renders them. "Well-formed" = expressible by the
grammar; every generated tree satisfies `RT.WT` / `RT.WTI` of Props/C33.lean:
  * a binary operator's right child is a closed form (never an unparenthesised chain; the grammar also
    allows `let` / assignment / `return` as the right child of the LAST operator of a chain — not generated
    here, see the deterministic `grammar-edge` stream of harness/c33.py), its left child is a closed form
    or a chain;
  * receivers / callees are closed forms; a callee is never a dot access (`a.b(…)` is a method call);
  * in a sequence of block / top-level expressions, one ending in a dot access is never followed by
    one starting with `(` (`x.f` NEWLINE `(1)` is the method call `x.f(1)`);
  * names: identifiers that are not keywords / `Dict` / placeholder names; struct literal and type
    names likewise; `Tuple` only as the tuple type hint;
  * integers within i64; lambdas without type parameters; distinct (non-`_`) parameter and
    destructuring names; a top-level expression does not start with `fun`;
  * no `invalid` nodes.
Knobs (all recorded by the caller): max_depth, max_items (list lengths), p_stmt (weight of statement
forms), p_leaf.
"""

OPS = ["+", "+.", "-", "-.", "*", "*.", "/", "/.", "%", "**", "==", "!=", "&&", "||", "&", "|",
       "<", "<=", ">", ">=", "^"]
KEYWORDS = {"let", "fun", "enum", "struct", "import", "if", "else", "while", "return", "test", "match",
            "break", "continue", "for", "in", "assert", "as", "method", "public", "shared", "try", "catch"}
NAMES = ["x", "y", "z", "foo", "bar_1", "_tmp", "value", "n2", "Some", "None", "T1", "this", "items", "_"]
TYPE_NAMES = ["Int", "String", "List", "Option", "T", "Foo", "Unit", "Result"]
STRUCT_NAMES = ["Foo", "Point", "P2", "Config"]
STRINGS = ["", "a", "hello world", "q\"uote", "back\\slash", "line\nbreak", "tab\there", "é", "日本語 ok",
           "// not a comment", "{ } ( )", "x + y", "\\n literal",
           # boundary alphabet for the escape / closing-quote logic (values, not source text)
           "\\", "\\\\", "\\\\\\", "a\\", "ab\\\\", "\"", "a\"", "\\\"", "\"\\", "\\\"\\", "\"\"",
           "\n", "\t", "end\n", "\\n", "\\t", "{", "}", "{}", "}{", "\\{", "é\\", "日\"", "'", "\\'"]
FLOATS = ["1.5", "0.25", "-2.5", "10.0", "3.14159", "100.125", "-0.5"]
INTS = [0, 1, 2, 3, 7, 10, 42, -1, -5, 123456789, 9223372036854775807, -9223372036854775808]


def hexs(s):
    return s.encode("utf-8").hex()


class Gen:
    def __init__(self, rng, max_depth=4, max_items=3, p_stmt=0.35, p_leaf=0.25):
        self.rng = rng
        self.max_depth = max_depth
        self.max_items = max_items
        self.p_stmt = p_stmt
        self.p_leaf = p_leaf

    # ---------------------------------------------------------------- small pieces
    def name(self, allow_underscore=True):
        while True:
            n = self.rng.choice(NAMES)
            if n == "_" and not allow_underscore:
                continue
            return n

    def distinct_names(self, k):
        pool = [n for n in NAMES if n != "_"]
        self.rng.shuffle(pool)
        out = pool[:k]
        # `_` may repeat
        return [("_" if self.rng.random() < 0.1 else n) for n in out]

    def hint(self, depth=0):
        r = self.rng.random()
        if depth >= 2 or r < 0.5:
            return ("hint", self.rng.choice(TYPE_NAMES), [])
        if r < 0.75:
            return ("hint", self.rng.choice(TYPE_NAMES), [self.hint(depth + 1) for _ in range(self.rng.randint(1, 2))])
        return ("hint", "Tuple", [self.hint(depth + 1) for _ in range(self.rng.randint(0, 3))])

    def hint_opt(self):
        return self.hint() if self.rng.random() < 0.5 else None

    def dest(self):
        if self.rng.random() < 0.6:
            return ("sym", self.name())
        return ("destr", self.distinct_names(self.rng.randint(0, 3)))

    def params(self):
        return [("p", n, self.hint_opt()) for n in self.distinct_names(self.rng.randint(0, 3))]

    def n_items(self):
        return self.rng.randint(0, self.max_items)

    # ---------------------------------------------------------------- expressions
    def leaf(self):
        r = self.rng.random()
        if r < 0.3:
            return ("int", self.rng.choice(INTS))
        if r < 0.4:
            return ("float", self.rng.choice(FLOATS))
        if r < 0.6:
            return ("str", self.rng.choice(STRINGS))
        if r < 0.95:
            return ("var", self.name())
        return self.rng.choice([("break",), ("continue",), ("tuple", []), ("list", [])])

    def closed(self, d):
        """An operand: can be a receiver, a callee, either side of a binary operator."""
        if d <= 0 or self.rng.random() < self.p_leaf:
            return self.leaf()
        if self.rng.random() < self.p_stmt:
            return self.closed_stmt(d)
        k = self.rng.choice(["call", "call", "mcall", "dot", "ns", "paren", "paren", "tuple", "list", "dict",
                             "structlit", "lambda", "assert"])
        if k == "call":
            f = self.closed(d - 1)
            while f[0] == "dot":
                f = self.closed(d - 1)
            return ("call", f, self.exprs(d - 1))
        if k == "mcall":
            return ("mcall", self.closed(d - 1), self.name(False), self.exprs(d - 1))
        if k == "dot":
            return ("dot", self.closed(d - 1), self.name(False))
        if k == "ns":
            return ("ns", self.closed(d - 1), self.name(False))
        if k == "paren":
            return ("paren", self.full(d - 1))
        if k == "tuple":
            return ("tuple", self.exprs(d - 1))
        if k == "list":
            return ("list", self.exprs(d - 1))
        if k == "dict":
            return ("dict", [(self.full(d - 1), self.full(d - 1)) for _ in range(self.n_items())])
        if k == "structlit":
            return ("structlit", self.rng.choice(STRUCT_NAMES),
                    [(self.name(False), self.full(d - 1)) for _ in range(self.n_items())])
        if k == "lambda":
            return ("lambda", self.fun(d - 1, tparams=False))
        return ("assert", self.full(d - 1))

    def closed_stmt(self, d):
        k = self.rng.choice(["if", "if", "while", "for", "match", "try"])
        if k == "if":
            return ("if", self.full(d - 1), self.block(d - 1), self.block(d - 1) if self.rng.random() < 0.6 else None)
        if k == "while":
            return ("while", self.full(d - 1), self.block(d - 1))
        if k == "for":
            return ("for", self.dest(), self.full(d - 1), self.block(d - 1))
        if k == "match":
            cases = []
            for _ in range(self.n_items()):
                payload = None
                r = self.rng.random()
                if r < 0.5:
                    payload = self.dest()
                cases.append((self.name(False), payload, self.block(d - 1)))
            return ("match", self.full(d - 1), cases)
        return ("try", self.block(d - 1), self.name(False), self.block(d - 1))

    def chain(self, d):
        n = self.rng.choice([1, 1, 2, 2, 3, 4])
        e = self.closed(d)
        for _ in range(n):
            e = ("binop", self.rng.choice(OPS), e, self.closed(d - 1))
        return e

    def full(self, d):
        """Any expression (argument / block item / value position)."""
        if d <= 0:
            return self.leaf()
        r = self.rng.random()
        if r < 0.3:
            return self.chain(d - 1)
        if r < 0.3 + self.p_stmt * 0.6:
            k = self.rng.choice(["let", "let", "assign", "update", "return", "return0"])
            if k == "let":
                return ("let", self.dest(), self.hint_opt(), self.full(d - 1))
            if k == "assign":
                return ("assign", self.name(), self.full(d - 1))
            if k == "update":
                return ("update", self.rng.choice(["+=", "-="]), self.name(), self.full(d - 1))
            if k == "return":
                return ("return", self.full(d - 1))
            return ("return", None)
        return self.closed(d)

    def exprs(self, d):
        return [self.full(d) for _ in range(self.n_items())]

    def seq(self, d, n, top=False):
        """A sequence of adjacent expressions (block or top level) respecting the dot / `(` rule."""
        out = []
        while len(out) < n:
            e = self.full(d)
            if out and ends_dot(out[-1]) and starts_with(e, ("paren", "tuple")):
                continue
            if top and starts_with(e, ("lambda",)):
                continue
            out.append(e)
        return out

    def block(self, d):
        return ("block", self.seq(d, self.n_items()))

    def fun(self, d, tparams=True):
        tps = []
        if tparams and self.rng.random() < 0.3:
            tps = self.rng.sample(["T", "U", "E"], self.rng.randint(1, 2))
        return (tps, self.params(), self.hint_opt(), self.block(d))

    # ---------------------------------------------------------------- items
    def item(self, d):
        k = self.rng.choice(["fun", "fun", "method", "test", "enum", "struct", "import", "expr", "expr", "expr", "block"])
        pub = self.rng.random() < 0.3
        if k == "fun":
            return ("fun", pub, self.name(False), self.fun(d))
        if k == "method":
            tps, ps, r, body = self.fun(d)
            names = self.distinct_names(len(ps) + 1)
            ps = [("p", n, p[2]) for n, p in zip(names[1:], ps)]
            return ("method", pub, self.name(False), names[0] if names[0] != "_" else "recv0", self.hint(), (tps, ps, r, body))
        if k == "test":
            return ("test", self.name(False), self.block(d))
        if k == "enum":
            return ("enum", pub, self.rng.choice(STRUCT_NAMES), self.rng.sample(["T", "U"], self.rng.randint(0, 2)),
                    [(self.name(False), self.hint_opt()) for _ in range(self.n_items())])
        if k == "struct":
            return ("struct", pub, self.rng.choice(STRUCT_NAMES), self.rng.sample(["T", "U"], self.rng.randint(0, 2)),
                    [(self.name(False), self.hint()) for _ in range(self.n_items())])
        if k == "import":
            return ("import", self.rng.choice(["./foo.gdn", "x.gdn", "__fs.gdn", "a b.gdn"]),
                    self.name(False) if self.rng.random() < 0.5 else None)
        if k == "block":
            return ("blockitem", self.block(d))
        return ("expr", None)      # filled by items()

    def items(self, d, n):
        out = []
        while len(out) < n:
            it = self.item(d)
            if it[0] == "expr":
                e = self.full(d)
                if starts_with(e, ("lambda",)):
                    continue
                if out and out[-1][0] == "expr" and ends_dot(out[-1][1]) and starts_with(e, ("paren", "tuple")):
                    continue
                it = ("expr", e)
            out.append(it)
        return out


# -------------------------------------------------------------------- analyses

def ends_dot(e):
    k = e[0]
    if k == "dot":
        return True
    if k == "binop":
        return ends_dot(e[3])
    if k in ("let",):
        return ends_dot(e[3])
    if k == "assign":
        return ends_dot(e[2])
    if k == "update":
        return ends_dot(e[3])
    if k == "return":
        return e[1] is not None and ends_dot(e[1])
    return False


def starts_with(e, kinds):
    k = e[0]
    if k in kinds:
        return True
    if k == "binop":
        return starts_with(e[2], kinds)
    if k in ("call", "mcall", "dot", "ns"):
        return starts_with(e[1], kinds)
    return False


def kinds_of(t, acc):
    """Histogram of node kinds."""
    if isinstance(t, tuple):
        if t and isinstance(t[0], str):
            acc[t[0]] = acc.get(t[0], 0) + 1
        for x in t[1:] if t and isinstance(t[0], str) else t:
            kinds_of(x, acc)
    elif isinstance(t, list):
        for x in t:
            kinds_of(x, acc)
    return acc


def depth_of(t):
    if isinstance(t, (tuple, list)):
        return 1 + max([depth_of(x) for x in t] + [0]) if isinstance(t, tuple) and t and isinstance(t[0], str) \
            else max([depth_of(x) for x in t] + [0])
    return 0


# -------------------------------------------------------------------- rendering

def s_hint(h):
    return "(hint %s%s)" % (h[1], "".join(" " + s_hint(a) for a in h[2]))


def s_hint_opt(h):
    return "nohint" if h is None else s_hint(h)


def s_dest(d):
    if d[0] == "sym":
        return "(sym %s)" % d[1]
    return "(destr%s)" % "".join(" " + x for x in d[1])


def s_block(b):
    return "(block%s)" % "".join(" " + sexpr(e) for e in b[1])


def s_fun(f):
    tps, ps, r, body = f
    return "(tparams%s) (params%s) %s %s" % ("".join(" " + t for t in tps),
                                            "".join(" (p %s %s)" % (p[1], s_hint_opt(p[2])) for p in ps),
                                            s_hint_opt(r), s_block(body))


def sexpr(e, float_canon=True):
    k = e[0]
    if k == "int":
        return "(int i:%d)" % e[1]
    if k == "float":
        return "(float %s)" % (repr(float(e[1])) if float_canon else "s:" + hexs(e[1]))
    if k == "str":
        return "(str s:%s)" % hexs(e[1])
    if k == "var":
        return "(var %s)" % e[1]
    S = lambda x: sexpr(x, float_canon)  # noqa: E731
    if k == "binop":
        return "(binop %s %s %s)" % (e[1], S(e[2]), S(e[3]))
    if k == "call":
        return "(call %s%s)" % (S(e[1]), "".join(" " + S(a) for a in e[2]))
    if k == "mcall":
        return "(mcall %s %s%s)" % (S(e[1]), e[2], "".join(" " + S(a) for a in e[3]))
    if k == "dot":
        return "(dot %s %s)" % (S(e[1]), e[2])
    if k == "ns":
        return "(ns %s %s)" % (S(e[1]), e[2])
    if k == "let":
        return "(let %s %s %s)" % (s_dest(e[1]), s_hint_opt(e[2]), S(e[3]))
    if k == "assign":
        return "(assign %s %s)" % (e[1], S(e[2]))
    if k == "update":
        return "(update %s %s %s)" % (e[1], e[2], S(e[3]))
    B = lambda b: "(block%s)" % "".join(" " + S(x) for x in b[1])  # noqa: E731
    if k == "if":
        return "(if %s %s %s)" % (S(e[1]), B(e[2]), "noelse" if e[3] is None else B(e[3]))
    if k == "while":
        return "(while %s %s)" % (S(e[1]), B(e[2]))
    if k == "for":
        return "(for %s %s %s)" % (s_dest(e[1]), S(e[2]), B(e[3]))
    if k == "match":
        return "(match %s%s)" % (S(e[1]), "".join(
            " (case %s %s %s)" % (c[0], "nodest" if c[1] is None else s_dest(c[1]), B(c[2])) for c in e[2]))
    if k == "try":
        return "(try %s %s %s)" % (B(e[1]), e[2], B(e[3]))
    if k == "return":
        return "(return %s)" % ("none" if e[1] is None else S(e[1]))
    if k in ("break", "continue"):
        return "(%s)" % k
    if k in ("list", "tuple"):
        return "(%s%s)" % (k, "".join(" " + S(a) for a in e[1]))
    if k == "dict":
        return "(dict%s)" % "".join(" (kv %s %s)" % (S(a), S(b)) for a, b in e[1])
    if k == "structlit":
        return "(structlit %s%s)" % (e[1], "".join(" (field %s %s)" % (n, S(v)) for n, v in e[2]))
    if k == "lambda":
        tps, ps, r, body = e[1]
        return "(lambda (tparams%s) (params%s) %s %s)" % (
            "".join(" " + t for t in tps), "".join(" (p %s %s)" % (p[1], s_hint_opt(p[2])) for p in ps),
            s_hint_opt(r), B(body))
    if k == "assert":
        return "(assert %s)" % S(e[1])
    if k == "paren":
        return "(paren %s)" % S(e[1])
    if k == "block":
        return B(e)
    raise ValueError("unknown node %r" % (k,))


def item_sexpr(it, float_canon=True):
    k = it[0]
    S = lambda x: sexpr(x, float_canon)  # noqa: E731

    def F(f):
        tps, ps, r, body = f
        return "(tparams%s) (params%s) %s %s" % ("".join(" " + t for t in tps),
                                                "".join(" (p %s %s)" % (p[1], s_hint_opt(p[2])) for p in ps),
                                                s_hint_opt(r), S(body))
    vis = lambda p: "pub" if p else "priv"  # noqa: E731
    if k == "fun":
        return "(fun %s %s %s)" % (vis(it[1]), it[2], F(it[3]))
    if k == "method":
        return "(method %s %s (recv %s %s) %s)" % (vis(it[1]), it[2], it[3], s_hint(it[4]), F(it[5]))
    if k == "test":
        return "(test %s %s)" % (it[1], S(it[2]))
    if k == "enum":
        return "(enum %s %s (tparams%s)%s)" % (vis(it[1]), it[2], "".join(" " + t for t in it[3]),
                                               "".join(" (variant %s %s)" % (n, s_hint_opt(h)) for n, h in it[4]))
    if k == "struct":
        return "(struct %s %s (tparams%s)%s)" % (vis(it[1]), it[2], "".join(" " + t for t in it[3]),
                                                 "".join(" (field %s %s)" % (n, s_hint(h)) for n, h in it[4]))
    if k == "import":
        return "(import s:%s %s)" % (hexs(it[1]), "noalias" if it[2] is None else "(alias %s)" % it[2])
    if k == "expr":
        return "(expr %s)" % S(it[1])
    if k == "blockitem":
        return S(it[1])
    raise ValueError("unknown item %r" % (k,))
