import GardenVerif.Driver.Types
import GardenVerif.Driver.Parse
import GardenVerif.Driver.Arith
import GardenVerif.Driver.LspPos
import GardenVerif.Driver.LspDispatch
import GardenVerif.Driver.Machine
import GardenVerif.Driver.Lex
import GardenVerif.Driver.Prelude
import GardenVerif.Driver.Imports
import GardenVerif.Driver.Format
import GardenVerif.Driver.Sandbox
import GardenVerif.Driver.Strings
import GardenVerif.Driver.Nrepl
import GardenVerif.Driver.BigStep
import GardenVerif.Driver.Session
import GardenVerif.Driver.Check
import GardenVerif.Driver.TestRunner
import GardenVerif.Driver.Resume
import GardenVerif.Driver.Validators
import GardenVerif.Driver.EvalUpTo
import GardenVerif.Driver.Extract
import GardenVerif.Driver.Fixes
/-!
Line-protocol driver for the executable models. One request per line on stdin,
one response line per request on stdout. Imports only `Model` / `Driver` modules
(no Mathlib) so that it links as a `lean_exe`.
-/

def handlers : List (String → String → Option String) :=
  [DriverTypes.handle, DriverParse.handle, DriverLspPos.handle, DriverLspDispatch.handle, DriverMachine.handle, DriverLex.handle, DriverPrelude.handle, DriverImports.handle, DriverFormat.handle, DriverSandbox.handle, DriverStrings.handle, DriverArith.handle, DriverNrepl.handle, DriverBigStep.handle, DriverSession.handle, DriverCheck.handle, DriverTestRunner.handle, DriverResume.handle, DriverValidators.handle, DriverEvalUpTo.handle, DriverExtract.handle, DriverFixes.handle]

def dispatch (line : String) : String :=
  let line := line.trimAscii.toString
  let (op, rest) := match line.splitOn " " with
    | [] => ("", "")
    | op :: rest => (op, " ".intercalate rest)
  if op == "ping" then "OK pong" else
  match handlers.findSome? (fun h => h op rest) with
  | some r => r
  | none => "ERR unknown-op"

partial def loop (h : IO.FS.Stream) (out : IO.FS.Stream) : IO Unit := do
  let line ← h.getLine
  if line.isEmpty then return ()
  out.putStrLn (dispatch line)
  out.flush
  loop h out

def main : IO Unit := do
  loop (← IO.getStdin) (← IO.getStdout)
