/-
M12: import loading, namespaces and visibility.

Transcribed from
* `load_toplevel_items_` (src/eval.rs ≈322-581): item order (types first, stable), `Fun` arm
  (`values.insert`, `exported_syms.insert/remove`), `Method` arm (`Env::add_method` with
  `vivify_types = false`: silently dropped when the receiver type is unknown), `Enum`/`Struct`
  arms (`Env::add_type`: GLOBAL `env.types`, methods of an earlier definition kept), `Import` arm
  (`paths_seen.contains` → re-use namespace; else `paths_seen.insert` BEFORE reading the file,
  unreadable file → diagnostic + placeholder namespace, else recursive load into
  `get_or_create_namespace(abs_path)` and `insert_imported_namespace`), enum variant values
  inserted after all items of the file;
* `insert_imported_namespace` (≈620-656), `insert_placeholder_namespace` (≈583-615);
* `Env::get_or_create_namespace`, `insert_prelude`, `Env::add_type`, `Env::add_method` (src/env.rs);
* run time: `eval_namespace_access` (≈7346-7418), variable lookup, struct literal, method call;
* check time: `infer_namespace_access` (src/checks/type_checker.rs ≈2144-2295), `get_var`.

Maps are association lists with "first match wins" (insert = cons); this is lookup-equivalent to
the `FxHashMap`s of the Rust. Paths are the normalised absolute paths (the harness normalises).
`Cfg` selects between the code as it is (both flags `true`: two `panic` sites) and the code after
the two small repairs in /verif/patches/imports-fix-*.diff (flags `false`).
Import-free on purpose (the driver links against it).
-/

namespace Imports

/-- A probe expression. `call` = the source text applies the value to `()`. -/
inductive Probe where
  | qual (ns name : String) (call : Bool)     -- `ns::name` / `ns::name()`
  | bare (name : String) (call : Bool)        -- `name` / `name()`
  | structLit (ty : String)                   -- `ty{ a: 1 }`
  | methInt (name : String)                   -- `1.name()`
  | methStruct (ty name : String)             -- `ty{ a: 1 }.name()`
  deriving Repr, DecidableEq, Inhabited

/-- Toplevel items that matter for loading. `tag` identifies a definition (the generated
function body returns it); `body = some p` is a function whose body evaluates the probe `p`. -/
inductive Item where
  | imp (path : String) (alias : Option String)
  | fn (pub : Bool) (name : String) (tag : Nat) (body : Option Probe)
  | struct (pub : Bool) (name : String)
  | enum (pub : Bool) (name : String) (variants : List String)
  | meth (pub : Bool) (recv name : String) (tag : Nat)
  deriving Repr, DecidableEq, Inhabited

/-- Finite map path ↦ items (first entry wins). A path that is absent is an unreadable file. -/
abbrev Project := List (String × List Item)

inductive Val where
  | fn (origin : String) (tag : Nat) (pub : Bool) (body : Option Probe)
  | variant (origin : String) (enumName : String)
  | ns (path : String)                -- `Value_::Namespace { ns_info: Rc<…> }`: a REFERENCE
  | placeholder (path : String)       -- namespace made by `insert_placeholder_namespace`
  | builtin                           -- a prelude value copied by `insert_prelude`
  deriving Repr, DecidableEq, Inhabited

def alookup {α : Type} : List (String × α) → String → Option α
  | [], _ => none
  | (k, v) :: rest, x => if k == x then some v else alookup rest x

structure Ns where
  values : List (String × Val)
  exported : List String
  types : List String
  deriving Repr, Inhabited

inductive TKind where
  | struct | enum | builtin
  deriving Repr, DecidableEq, Inhabited

structure MInfo where
  origin : String
  tag : Nat
  pub : Bool
  deriving Repr, DecidableEq, Inhabited

structure TInfo where
  kind : TKind
  origin : String
  pub : Bool
  methods : List (String × MInfo)
  deriving Repr, Inhabited

structure Cfg where
  /-- eval.rs:476 `env.get_namespace(&abs_path).unwrap()` on a path that is in `paths_seen`
  but has no namespace (its file was unreadable). -/
  panicReimportUnreadable : Bool
  /-- eval.rs:646 `current_ns.borrow_mut()` while `imported_ns.borrow()` is alive and both are
  the same `Rc` (a file importing itself without `as`, with at least one exported value). -/
  panicSelfImport : Bool
  deriving Repr, DecidableEq, Inhabited

def Cfg.asIs : Cfg := ⟨true, true⟩
def Cfg.repaired : Cfg := ⟨false, false⟩

structure St where
  nss : List (String × Ns)          -- env.namespaces
  types : List (String × TInfo)     -- env.types (global!)
  seen : List String                -- paths_seen
  diags : List String               -- Error diagnostics of the loader (unreadable import paths)
  calls : Nat                       -- ghost: number of recursive loads started
  deriving Repr, Inhabited

inductive Out (α : Type) where
  | ok (a : α)
  | panic (site : String)
  | outOfFuel
  deriving Repr, Inhabited

/-- The few prelude names the harness ever mentions; `insert_prelude` copies every prelude value
into each new namespace's `values` (never into `exported_syms`). -/
def preludeNames : List String := ["println", "print", "string_repr", "dbg", "todo"]

def freshNs : Ns := ⟨preludeNames.map (fun n => (n, Val.builtin)), [], []⟩

def builtinTypes : List (String × TInfo) :=
  [("Int", ⟨.builtin, "__prelude.gdn", true, []⟩), ("String", ⟨.builtin, "__prelude.gdn", true, []⟩)]

def St.init : St := ⟨[], builtinTypes, [], [], 0⟩

def St.getNs (st : St) (p : String) : Option Ns := alookup st.nss p
def St.nsOf (st : St) (p : String) : Ns := (st.getNs p).getD freshNs
def St.setNs (st : St) (p : String) (ns : Ns) : St := { st with nss := (p, ns) :: st.nss }

/-- `get_or_create_namespace`. -/
def St.ensureNs (st : St) (p : String) : St :=
  match st.getNs p with
  | some _ => st
  | none => st.setNs p freshNs

/-- `Env::add_type`: replaces the definition, keeps the methods, also records it in the namespace. -/
def St.addType (st : St) (cur name : String) (kind : TKind) (pub : Bool) : St :=
  let methods := match alookup st.types name with
    | some ti => ti.methods
    | none => []
  let ns := st.nsOf cur
  { st with types := (name, ⟨kind, cur, pub, methods⟩) :: st.types,
            nss := (cur, { ns with types := name :: ns.types }) :: st.nss }

/-- `Env::add_method` with `vivify_types = false`. -/
def St.addMethod (st : St) (recv name : String) (mi : MInfo) : St :=
  match alookup st.types recv with
  | some ti => { st with types := (recv, { ti with methods := (name, mi) :: ti.methods }) :: st.types }
  | none => st

/-- The `Fun` arm. -/
def St.addFun (st : St) (cur : String) (pub : Bool) (name : String) (tag : Nat) (body : Option Probe) : St :=
  let ns := st.nsOf cur
  st.setNs cur { ns with values := (name, Val.fn cur tag pub body) :: ns.values,
                         exported := if pub then name :: ns.exported
                                     else ns.exported.filter (fun e => e != name) }

/-- The values an unqualified import copies: those whose key is in `exported_syms`. Shadowed
entries keep their relative order, so this is lookup-equivalent to the HashMap loop. -/
def Ns.exportedValues (ns : Ns) : List (String × Val) :=
  ns.values.filter (fun kv => ns.exported.contains kv.1)

/-- `insert_imported_namespace`. -/
def insertImported (cfg : Cfg) (alias : Option String) (cur path : String) (st : St) : Out St :=
  let ns := st.nsOf cur
  match alias with
  | some a => .ok (st.setNs cur { ns with values := (a, Val.ns path) :: ns.values })
  | none =>
    let imp := st.nsOf path
    if cfg.panicSelfImport && path == cur && !imp.exportedValues.isEmpty then
      .panic "eval.rs:646 RefCell already borrowed"
    else .ok (st.setNs cur { ns with values := imp.exportedValues ++ ns.values })

/-- `insert_placeholder_namespace` (nothing happens for an unqualified import). -/
def insertPlaceholder (alias : Option String) (cur path : String) (st : St) : St :=
  match alias with
  | some a => let ns := st.nsOf cur
              st.setNs cur { ns with values := (a, Val.placeholder path) :: ns.values }
  | none => st

/-- One iteration of the `for item in &items` loop; `recLoad` is the recursive call. -/
def stepItem (cfg : Cfg) (proj : Project) (recLoad : String → St → Out St) (cur : String)
    (it : Item) (st : St) : Out St :=
  match it with
  | .fn pub name tag body => .ok (st.addFun cur pub name tag body)
  | .meth pub recv name tag => .ok (st.addMethod recv name ⟨cur, tag, pub⟩)
  | .struct pub name => .ok (st.addType cur name .struct pub)
  | .enum pub name _ => .ok (st.addType cur name .enum pub)
  | .imp path alias =>
    if st.seen.contains path then
      match st.getNs path with
      | some _ => insertImported cfg alias cur path st
      | none =>
        if cfg.panicReimportUnreadable then .panic "eval.rs:476 get_namespace(..).unwrap() on None"
        else .ok (insertPlaceholder alias cur path st)
    else
      let st := { st with seen := path :: st.seen }
      match alookup proj path with
      | none => .ok (insertPlaceholder alias cur path { st with diags := st.diags ++ [path] })
      | some _ =>
        match recLoad path { st with calls := st.calls + 1 } with
        | .ok st' => insertImported cfg alias cur path st'
        | .panic s => .panic s
        | .outOfFuel => .outOfFuel

def loadItems (step : Item → St → Out St) : List Item → St → Out St
  | [], st => .ok st
  | it :: rest, st =>
    match step it st with
    | .ok st' => loadItems step rest st'
    | .panic s => .panic s
    | .outOfFuel => .outOfFuel

def Item.isType : Item → Bool
  | .struct .. => true
  | .enum .. => true
  | _ => false

/-- `items.sort_by_key(|item| 0 for Enum/Struct, 1 otherwise)` (stable). -/
def sortItems (items : List Item) : List Item :=
  items.filter Item.isType ++ items.filter (fun i => !i.isType)

def variantValues (cur : String) : List Item → List (String × Val)
  | [] => []
  | .enum _ name vs :: rest => variantValues cur rest ++ (vs.reverse.map fun v => (v, Val.variant cur name))
  | _ :: rest => variantValues cur rest

/-- The final loop creating enum constructor values (later insertions shadow earlier ones). -/
def insertVariants (cur : String) (items : List Item) (st : St) : St :=
  let ns := st.nsOf cur
  st.setNs cur { ns with values := variantValues cur items ++ ns.values }

/-- `load_toplevel_items_` for the file `p`, loading into namespace `p`. One unit of fuel per
nesting level of the Rust recursion. -/
def loadFile (cfg : Cfg) (proj : Project) : Nat → String → St → Out St
  | 0, _, _ => .outOfFuel
  | n + 1, p, st =>
    let items := (alookup proj p).getD []
    match loadItems (stepItem cfg proj (loadFile cfg proj n) p) (sortItems items) (st.ensureNs p) with
    | .ok st' => .ok (insertVariants p items st')
    | .panic s => .panic s
    | .outOfFuel => .outOfFuel

/-- `garden run main` / `garden check main`: `paths_seen` starts EMPTY (the main file itself is
not in it), the namespace of `main` is created first. -/
def load (cfg : Cfg) (proj : Project) (main : String) (fuel : Nat) : Out St :=
  loadFile cfg proj fuel main St.init

/-- Enough fuel for every project (see `C34.load_terminates`). -/
def defaultFuel (proj : Project) : Nat := proj.length + 1

/-! ## Probes: run time -/

inductive ErrKind where
  | unbound          -- "No such variable `x`" / "Unbound symbol: `x`"
  | notExternal      -- "`x` is not marked as `external` …"
  | noItem           -- "Namespace `f` does not contain a function named `x`" / "… an item named …"
  | noType           -- "No type exists named `T`" / "No such type `T`"
  | noMethod         -- "… has no method named `g`" / "`T` has no method `g`"
  | notNamespace | notCallable | notStruct
  | missingFile      -- "No such file `p`" (loader diagnostic, fatal for `run`)
  | depth
  deriving Repr, DecidableEq, Inhabited

inductive RunOut where
  | ok (tag : Option Nat)
  | err (k : ErrKind)
  deriving Repr, DecidableEq, Inhabited

/-- `eval_namespace_access` on the value bound to `a` in `cur`. -/
def resolveQual (st : St) (cur a x : String) : Except ErrKind Val :=
  match alookup (st.nsOf cur).values a with
  | none => .error .unbound
  | some (.ns p) =>
    let ns := st.nsOf p
    match alookup ns.values x with
    | none => .error .noItem
    | some v => if ns.exported.contains x then .ok v else .error .notExternal
  | some (.placeholder _) => .error .noItem
  | some _ => .error .notNamespace

def resolveBare (st : St) (cur x : String) : Except ErrKind Val :=
  match alookup (st.nsOf cur).values x with
  | none => .error .unbound
  | some v => .ok v

def resolveMethod (st : St) (ty g : String) (needStruct : Bool) : Except ErrKind MInfo :=
  match alookup st.types ty with
  | none => .error .noType
  | some ti =>
    if needStruct && ti.kind != .struct then .error .notStruct else
    match alookup ti.methods g with
    | none => .error .noMethod
    | some mi => .ok mi

/-- Evaluate a probe in the namespace of file `cur`. A called function runs its body in the
namespace of the file that DEFINED it. -/
def evalProbe (st : St) : Nat → String → Probe → RunOut
  | 0, _, _ => .err .depth
  | d + 1, cur, pr =>
    let finish (v : Val) (call : Bool) : RunOut :=
      if !call then .ok none else
      match v with
      | .fn _ tag _ none => .ok (some tag)
      | .fn origin _ _ (some b) => evalProbe st d origin b
      | _ => .err .notCallable
    match pr with
    | .qual a x call => match resolveQual st cur a x with
      | .ok v => finish v call
      | .error e => .err e
    | .bare x call => match resolveBare st cur x with
      | .ok v => finish v call
      | .error e => .err e
    | .structLit ty => match alookup st.types ty with
      | none => .err .noType
      | some ti => if ti.kind == .struct then .ok none else .err .notStruct
    | .methInt g => match resolveMethod st "Int" g false with
      | .ok mi => .ok (some mi.tag)
      | .error e => .err e
    | .methStruct ty g => match resolveMethod st ty g true with
      | .ok mi => .ok (some mi.tag)
      | .error e => .err e

/-- `garden run main.gdn` with the probe as the only toplevel expression: a loader diagnostic of
severity Error is raised as an exception before anything is evaluated. -/
def runProbe (st : St) (main : String) (pr : Probe) : RunOut :=
  if st.diags.isEmpty then evalProbe st 16 main pr else .err .missingFile

/-! ## Probes: check time (only the main file's own expressions are checked) -/

def checkProbe (st : St) (cur : String) : Probe → Option ErrKind
  | .qual a x _ =>
    match alookup (st.nsOf cur).values a with
    | none => some .unbound
    | some (.ns p) =>
      let ns := st.nsOf p
      match alookup ns.values x with
      | none => some .noItem
      | some _ => if ns.exported.contains x then none else some .notExternal
    | some (.placeholder _) => none      -- "avoid cascading errors"
    | some _ => none
  | .bare x _ => match alookup (st.nsOf cur).values x with
    | none => some .unbound
    | some _ => none
  | .structLit ty => match alookup st.types ty with
    | none => some .noType
    | some ti => if ti.kind == .struct then none else some .notStruct
  | .methInt g => match resolveMethod st "Int" g false with
    | .ok _ => none
    | .error e => some e
  | .methStruct ty g => match resolveMethod st ty g true with
    | .ok _ => none
    | .error e => some e

/-! ## What the property speaks about -/

/-- Flags of the function definitions named `x`, in source order. -/
def funFlags (x : String) : List Item → List Bool
  | [] => []
  | .fn pub name _ _ :: rest => if name == x then pub :: funFlags x rest else funFlags x rest
  | _ :: rest => funFlags x rest

/-- "file `items` defines a PUBLIC function `x`": the last definition of `x` wins, as when the
file is loaded on its own. -/
def publicFun (items : List Item) (x : String) : Bool :=
  (funFlags x items).getLast?.getD false

def Project.publicFun (proj : Project) (f x : String) : Bool :=
  Imports.publicFun ((alookup proj f).getD []) x

end Imports
