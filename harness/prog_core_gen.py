"""G-prog: type-directed generator of core-fragment Garden programs (DESIGN §6b).

Programs are mostly well-typed; loops are bounded by construction; early exits
(break / continue / return), shadowing, closures, match, for-in and prints are
weighted up. A separate error-injection knob produces unbound names, wrong arity
and wrong operand types. Every random choice comes from the rng passed in.

API: gen_program(rng, size=..., err_rate=...) -> (src, info) where info records
the knobs and the feature counters used for the evidence histogram.
"""

INT, BOOL, STR, LIST, OPT, UNIT = "Int", "Bool", "String", "List", "Option", "Unit"


class Gen:
    def __init__(self, rng, size=30, err_rate=0.0, exits=0.3, allow_funs=True, allow_closures=True):
        self.rng = rng
        self.budget = size
        self.err_rate = err_rate
        self.exits = exits
        self.scopes = [[]]          # list of list of (name, type)
        self.funs = []              # (name, [param types], ret type)
        self.counter = 0
        self.loop_depth = 0
        self.in_fun = False
        self.allow_funs = allow_funs
        self.allow_closures = allow_closures
        self.feat = {}
        self.readonly = set()

    # -- helpers
    def f(self, k):
        self.feat[k] = self.feat.get(k, 0) + 1

    def fresh(self, base="v"):
        self.counter += 1
        return "%s%d" % (base, self.counter)

    def vars_of(self, ty):
        seen, out = set(), []
        for sc in reversed(self.scopes):
            for n, t in reversed(sc):
                if n not in seen:
                    seen.add(n)
                    if t == ty:
                        out.append(n)
        return out

    def declare(self, name, ty):
        self.scopes[-1].append((name, ty))

    def chance(self, p):
        return self.rng.random() < p

    def spend(self, n=1):
        self.budget -= n
        return self.budget > 0

    # -- expressions
    def expr(self, ty, depth=0):
        r = self.rng
        self.spend()
        if self.chance(self.err_rate):
            k = r.randrange(4)
            if k == 0:
                self.f("err:unbound")
                return "nosuch%d" % r.randrange(3)
            if k == 1:
                self.f("err:optype")
                return '(1 + "s")' if ty == INT else '("a" ^ 1)' if ty == STR else "(1 && True)"
            if k == 2 and self.funs:
                self.f("err:arity")
                name, ps, rt = r.choice(self.funs)
                return "%s(%s)" % (name, ", ".join(["1"] * (len(ps) + 1)))
            self.f("err:notfun")
            return "5(1)"
        leaf = depth >= 3 or self.budget <= 0 or self.chance(0.3)
        vs = self.vars_of(ty)
        if ty == INT:
            if leaf:
                if vs and self.chance(0.6):
                    return r.choice(vs)
                # negative literals too: truncating `/` and Euclidean `%` differ from their neighbours only on
                # negative operands (seeded C05-2 swapped checked_div for checked_div_euclid)
                return str(r.choice([0, 1, 2, 3, 5, 7, 10, 100, -1, -7, -9]))
            k = r.randrange(10)
            if k < 4:
                op = r.choice(["+", "-", "*", "+", "-", "%", "/"])
                rhs = self.expr(INT, depth + 1)
                if op in ("/", "%") and self.chance(0.9):
                    rhs = str(r.choice([1, 2, 3, 7, -2, -3]))
                self.f("binop")
                return "(%s %s %s)" % (self.expr(INT, depth + 1), op, rhs)
            if k == 4 and [fn for fn in self.funs if fn[2] == INT]:
                return self.call(r.choice([fn for fn in self.funs if fn[2] == INT]), depth)
            if k == 5:
                self.f("if-expr")
                return "if %s { %s } else { %s }" % (self.expr(BOOL, depth + 1), self.expr(INT, depth + 1),
                                                      self.expr(INT, depth + 1))
            if k == 6:
                self.f("match-expr")
                x = self.fresh("m")
                return "match %s { Some(%s) => { %s + 1 } None => { %s } }" % (
                    self.expr(OPT, depth + 1), x, x, self.expr(INT, depth + 1))
            if k == 7 and self.allow_closures:
                self.f("closure-call")
                p = self.fresh("p")
                self.scopes.append([(p, INT)])
                body = self.expr(INT, depth + 1)
                self.scopes.pop()
                return "(fun(%s) { %s })(%s)" % (p, body, self.expr(INT, depth + 1))
            if vs:
                return r.choice(vs)
            return str(r.randrange(20))
        if ty == BOOL:
            if leaf:
                if vs and self.chance(0.5):
                    return r.choice(vs)
                return r.choice(["True", "False"])
            k = r.randrange(6)
            if k < 3:
                return "(%s %s %s)" % (self.expr(INT, depth + 1), r.choice(["<", "<=", ">", ">=", "==", "!="]),
                                        self.expr(INT, depth + 1))
            if k == 3:
                return "(%s %s %s)" % (self.expr(BOOL, depth + 1), r.choice(["&&", "||"]), self.expr(BOOL, depth + 1))
            if k == 4:
                return "(%s == %s)" % (self.expr(STR, depth + 1), self.expr(STR, depth + 1))
            return "(%s == %s)" % (self.expr(LIST, depth + 1), self.expr(LIST, depth + 1))
        if ty == STR:
            if leaf:
                if vs and self.chance(0.5):
                    return r.choice(vs)
                return r.choice(['"a"', '"b"', '""', '"x y"', '"q\\"r"', '"\\n"'])
            k = r.randrange(3)
            if k == 0:
                return "(%s ^ %s)" % (self.expr(STR, depth + 1), self.expr(STR, depth + 1))
            return "string_repr(%s)" % self.expr(r.choice([INT, BOOL, LIST, OPT, STR]), depth + 1)
        if ty == LIST:
            if leaf and vs and self.chance(0.6):
                return r.choice(vs)
            return "[%s]" % ", ".join(self.expr(INT, depth + 1) for _ in range(r.randrange(4)))
        if ty == OPT:
            if vs and self.chance(0.4):
                return r.choice(vs)
            return "Some(%s)" % self.expr(INT, depth + 1) if self.chance(0.6) else "None"
        return "Unit"

    def call(self, fn, depth):
        name, ps, rt = fn
        self.f("call")
        return "%s(%s)" % (name, ", ".join(self.expr(p, depth + 1) for p in ps))

    # -- statements
    def block(self, ind, n=None, extra_scope=None):
        self.scopes.append(list(extra_scope or []))
        n = n if n is not None else self.rng.randrange(1, 4)
        out = []
        for _ in range(n):
            if self.budget <= 0:
                break
            out.append(self.stmt(ind))
        self.scopes.pop()
        return out

    def render_block(self, stmts, ind):
        pad = "  " * ind
        return "{\n" + "".join(pad + "  " + s + "\n" for s in stmts) + pad + "}"

    def stmt(self, ind):
        r = self.rng
        self.spend()
        k = r.randrange(100)
        if self.loop_depth > 0 and self.chance(self.exits * 0.5):
            self.f("exit:break" if k % 2 else "exit:continue")
            kw = "break" if k % 2 else "continue"
            self.f("exit-in-if")
            pre = ["let %s = %s" % (self.fresh("w"), self.expr(INT, 2))] if self.chance(0.5) else []
            return "if %s %s" % (self.expr(BOOL, 1), self.render_block(pre + [kw], ind))
        if self.in_fun and self.chance(self.exits * 0.3):
            self.f("exit:return")
            pre = ["let %s = %s" % (self.fresh("w"), self.expr(INT, 2))] if self.chance(0.5) else []
            return "if %s %s" % (self.expr(BOOL, 1), self.render_block(pre + ["return %s" % self.expr(INT, 1)], ind))
        if k < 22:
            ty = r.choice([INT, INT, INT, BOOL, STR, LIST, OPT])
            e = self.expr(ty, 0)
            # shadowing: reuse an existing name with some probability
            names = [n for sc in self.scopes for n, _ in sc if n not in self.readonly]
            name = r.choice(names) if names and self.chance(0.25) else self.fresh()
            if name in names:
                self.f("shadow")
            self.declare(name, ty)
            self.f("let")
            return "let %s = %s" % (name, e)
        if k < 32:
            ty = r.choice([INT, INT, BOOL, STR])
            vs = [v for v in self.vars_of(ty) if v not in self.readonly]
            if vs:
                self.f("assign")
                return "%s = %s" % (r.choice(vs), self.expr(ty, 0))
        if k < 40:
            vs = [v for v in self.vars_of(INT) if v not in self.readonly]
            if vs:
                self.f("update")
                return "%s %s %s" % (r.choice(vs), r.choice(["+=", "-="]), self.expr(INT, 1))
        if k < 58:
            self.f("print")
            ty = r.choice([INT, INT, BOOL, STR, LIST, OPT])
            if ty == STR and self.chance(0.5):
                return "println(%s)" % self.expr(STR, 0)
            return "println(string_repr(%s))" % self.expr(ty, 0)
        if k < 68:
            self.f("if")
            c = self.expr(BOOL, 0)
            t = self.render_block(self.block(ind + 1), ind)
            if self.chance(0.5):
                return "if %s %s else %s" % (c, t, self.render_block(self.block(ind + 1), ind))
            return "if %s %s" % (c, t)
        if k < 77 and self.loop_depth < 2:
            self.f("while")
            i = self.fresh("i")
            self.declare(i, INT)
            self.readonly.add(i)
            bound = r.randrange(0, 4)
            self.loop_depth += 1
            body = ["%s += 1" % i] + self.block(ind + 1)
            self.loop_depth -= 1
            return "let %s = 0\n%swhile %s < %d %s" % (i, "  " * ind, i, bound, self.render_block(body, ind))
        if k < 86 and self.loop_depth < 2:
            self.f("for")
            x = self.fresh("x")
            it = self.expr(LIST, 1)
            self.loop_depth += 1
            body = self.block(ind + 1, extra_scope=[(x, INT)])
            self.loop_depth -= 1
            return "for %s in %s %s" % (x, it, self.render_block(body, ind))
        if k < 92:
            self.f("match")
            x = self.fresh("m")
            b1 = self.render_block(self.block(ind + 1, extra_scope=[(x, INT)]), ind)
            b2 = self.render_block(self.block(ind + 1), ind)
            if self.chance(0.2):
                return "match %s { Some(%s) => %s _ => %s }" % (self.expr(OPT, 0), x, b1, b2)
            return "match %s { Some(%s) => %s None => %s }" % (self.expr(OPT, 0), x, b1, b2)
        if k < 96 and self.funs:
            return self.call(r.choice(self.funs), 0)
        self.f("print")
        return "println(string_repr(%s))" % self.expr(INT, 0)

    def fun_def(self):
        r = self.rng
        name = self.fresh("f")
        n = r.randrange(0, 3)
        ps = [(self.fresh("a"), r.choice([INT, INT, BOOL, LIST])) for _ in range(n)]
        saved, self.scopes = self.scopes, [list(ps)]
        self.in_fun = True
        saved_loop, self.loop_depth = self.loop_depth, 0
        body = self.block(1, n=r.randrange(1, 4), extra_scope=None)
        # the last expression is the return value
        self.scopes.append([])
        body.append(self.expr(INT, 1))
        self.in_fun = False
        self.loop_depth = saved_loop
        self.scopes = saved
        self.funs.append((name, [t for _, t in ps], INT))
        self.f("fun")
        return "fun %s(%s) %s" % (name, ", ".join(p for p, _ in ps), self.render_block(body, 0))


FIXED_SNIPPETS = [
    "fun fact(n) {\n  if n <= 0 { 1 } else { n * fact(n - 1) }\n}\nprintln(string_repr(fact(5)))",
    "fun mk(k) {\n  fun(x) { x + k }\n}\nlet add3 = mk(3)\nprintln(string_repr(add3(4)))",
    "enum Colour { Red, Green, Custom(Int) }\nlet c = Custom(5)\nmatch c { Red => { println(\"r\") } Custom(n) => { println(string_repr(n)) } _ => { println(\"o\") } }",
    "let t = (1, 2)\nlet (a, b) = t\nprintln(string_repr(a + b))",
    "for (p, q) in [(1, 2), (3, 4)] {\n  println(string_repr(p * q))\n}",
]


def gen_program(rng, size=30, err_rate=0.02, exits=0.3):
    g = Gen(rng, size=size, err_rate=err_rate, exits=exits)
    parts = []
    if rng.random() < 0.15:
        parts.append(rng.choice(FIXED_SNIPPETS))
    for _ in range(rng.randrange(0, 3)):
        parts.append(g.fun_def())
    n = rng.randrange(2, 7)
    for _ in range(n):
        if g.budget <= 0:
            break
        parts.append(g.stmt(0))
    parts.append("println(string_repr(%s))" % g.expr(INT, 1))
    src = "\n".join(parts) + "\n"
    return src, dict(size=size, err_rate=err_rate, exits=exits, features=g.feat)
