/-
Wire-format helpers shared by all driver handlers: S-expressions, hex strings.
Import-free.
-/

inductive Sexp where
  | atom (s : String)
  | list (items : List Sexp)
  deriving Repr, Inhabited

namespace Sexp

def tokenize (s : String) : List String :=
  let rec go (cs : List Char) (cur : List Char) (acc : List String) : List String :=
    let flush (acc : List String) : List String :=
      if cur.isEmpty then acc else String.ofList cur.reverse :: acc
    match cs with
    | [] => (flush acc).reverse
    | c :: rest =>
      if c == '(' || c == ')' then go rest [] (String.singleton c :: flush acc)
      else if c == ' ' || c == '\t' || c == '\n' || c == '\r' then go rest [] (flush acc)
      else go rest (c :: cur) acc
  go s.toList [] []

/-- Parse one S-expression from a token list (fuel = number of tokens). -/
def parseOne : Nat → List String → Option (Sexp × List String)
  | 0, _ => none
  | _, [] => none
  | fuel + 1, t :: rest =>
    if t == "(" then parseItems fuel rest []
    else if t == ")" then none
    else some (.atom t, rest)
where
  parseItems : Nat → List String → List Sexp → Option (Sexp × List String)
    | 0, _, _ => none
    | _, [], _ => none
    | fuel + 1, t :: rest, acc =>
      if t == ")" then some (.list acc.reverse, rest)
      else match parseOne fuel (t :: rest) with
        | none => none
        | some (s, rest') => parseItems fuel rest' (s :: acc)

def parseAll (s : String) : Option (List Sexp) :=
  let toks := tokenize s
  let rec go (fuel : Nat) (toks : List String) (acc : List Sexp) : Option (List Sexp) :=
    match fuel with
    | 0 => none
    | fuel + 1 =>
      match toks with
      | [] => some acc.reverse
      | _ => match parseOne (toks.length + 1) toks with
        | none => none
        | some (s, rest) => go fuel rest (s :: acc)
  go (toks.length + 1) toks []

partial def toString : Sexp → String
  | .atom s => s
  | .list items => "(" ++ " ".intercalate (items.map toString) ++ ")"

end Sexp

namespace Hex

def digit (n : Nat) : Char :=
  if n < 10 then Char.ofNat (48 + n) else Char.ofNat (87 + n)

def encodeBytes (bs : List UInt8) : String :=
  String.ofList (bs.flatMap fun b => [digit (b.toNat / 16), digit (b.toNat % 16)])

def encode (s : String) : String := encodeBytes s.toUTF8.toList

def val (c : Char) : Option Nat :=
  if '0' ≤ c ∧ c ≤ '9' then some (c.toNat - 48)
  else if 'a' ≤ c ∧ c ≤ 'f' then some (c.toNat - 87)
  else if 'A' ≤ c ∧ c ≤ 'F' then some (c.toNat - 55)
  else none

def decodeBytes (s : String) : Option (List UInt8) :=
  let rec go : List Char → List UInt8 → Option (List UInt8)
    | [], acc => some acc.reverse
    | [_], _ => none
    | a :: b :: rest, acc =>
      match val a, val b with
      | some x, some y => go rest (UInt8.ofNat (x * 16 + y) :: acc)
      | _, _ => none
  go s.toList []

def decode (s : String) : Option String :=
  match decodeBytes s with
  | none => none
  | some bs => String.fromUTF8? (ByteArray.mk bs.toArray)

end Hex
