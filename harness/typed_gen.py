"""Type-directed generator of FULLY ANNOTATED core-fragment Garden programs for C16, plus
single-node mutants.

Every function has a hint on every parameter and on its return; lets come with and without
hints. Programs are well-typed by construction unless a mutation is requested: exactly one node
is then changed (wrong operand type, dropped match arm, changed annotation, changed argument
count, wrong return type in one branch, assignment of a different type, if/else of different
types, heterogeneous list, unknown variable, toplevel variable used inside a function, match on a
non-enum, `for` over `[if … else …]` + match on the element, …). Loops are bounded by construction,
recursion decreases an Int argument. All randomness comes from the rng passed in.

API: gen_program(rng, size, mutation=None) -> (src, info); info = dict(mutation, applied, features).
"""

INT, BOOL, STR, UNIT = "Int", "Bool", "String", "Unit"


def LIST(t):
    return ("List", t)


def OPT(t):
    return ("Option", t)


def TUP(*ts):
    return ("Tuple",) + tuple(ts)


def show(t):
    if isinstance(t, str):
        return t
    if t[0] == "Tuple":
        return "(" + ", ".join(show(x) for x in t[1:]) + ")"
    return "%s<%s>" % (t[0], show(t[1]))


MUTATIONS = [
    "operand-type", "drop-match-arm", "param-annotation", "return-annotation", "let-annotation",
    "arg-count", "arg-type", "return-wrong-branch", "assign-type", "if-branch-types", "hetero-list",
    "unknown-var", "toplevel-var-in-fun", "match-non-enum", "any-from-if", "call-non-function",
    "update-non-int", "last-expr-loop", "cond-type", "for-non-list", "print-non-string",
    "use-after-scope", "stale-binder-type", "closure-return-outer-type",
]

BASE_TYPES = [INT, INT, INT, BOOL, STR, LIST(INT), OPT(INT), LIST(STR), OPT(STR), TUP(INT, STR), LIST(OPT(INT)),
              OPT(LIST(INT)), UNIT]


class Gen:
    def __init__(self, rng, size=40, mutation=None):
        self.rng = rng
        self.budget = size
        self.mutation = mutation
        self.applied = False
        self.scopes = [[]]
        self.funs = []              # (name, [param types], ret)
        self.counter = 0
        self.loop_depth = 0
        self.ret_ty = None          # inside a function: its return type
        self.cur_fun = None
        self.feat = {}
        self.readonly = set()
        self.toplevel_vars = []
        self.last_block = []

    # ---------------------------------------------------------------- helpers
    def f(self, k):
        self.feat[k] = self.feat.get(k, 0) + 1

    def fresh(self, base="v"):
        self.counter += 1
        return "%s%d" % (base, self.counter)

    def chance(self, p):
        return self.rng.random() < p

    def mut(self, kind, p=0.5):
        """Is this the node to mutate?"""
        if self.mutation == kind and not self.applied and self.chance(p):
            self.applied = True
            self.f("mut:" + kind)
            return True
        return False

    def vars_of(self, ty, writable=False):
        seen, out = set(), []
        for sc in reversed(self.scopes):
            for n, t in reversed(sc):
                if n not in seen:
                    seen.add(n)
                    if t == ty and not (writable and n in self.readonly):
                        out.append(n)
        return out

    def declare(self, name, ty):
        self.scopes[-1].append((name, ty))

    def other_type(self, ty):
        cands = [t for t in [INT, BOOL, STR, LIST(INT), OPT(INT), UNIT] if t != ty]
        return self.rng.choice(cands)

    def pick_type(self, allow_unit=False):
        t = self.rng.choice(BASE_TYPES)
        while t == UNIT and not allow_unit:
            t = self.rng.choice(BASE_TYPES)
        return t

    def visible(self):
        cur = {}
        for sc in self.scopes:
            for n, t in sc:
                cur[n] = t
        return cur

    def binder(self, base, ty):
        """Name of a for-variable / match binder / closure parameter: fresh, or (SHADOWING) the name of a
        visible variable of a DIFFERENT type. Returns (name, type of the shadowed outer variable or None)."""
        cur = self.visible()
        diff = sorted(n for n, t in cur.items() if t != ty)
        p = 1.0 if self.mutation == "stale-binder-type" and not self.applied else 0.35
        if diff and self.chance(p):
            name = self.rng.choice(diff)
            self.f("shadow-binder")
            return name, cur[name]
        return self.fresh(base), None

    def after_scope(self, pad, name, binder_ty, outer_ty):
        """Statements after a scope that bound `name` has ended: a use of the OUTER variable at its own type
        (valid), or mutants that are only well-typed if the ended scope's binding were still visible."""
        if outer_ty is not None:
            if self.mut("stale-binder-type", 0.8):
                return ["%slet %s: %s = %s" % (pad, self.fresh("z"), show(binder_ty), name)]
            if self.chance(0.7):
                self.f("use-after-shadow")
                return ["%slet %s: %s = %s" % (pad, self.fresh("z"), show(outer_ty), name)]
            return []
        if self.mut("use-after-scope", 0.6):
            return ["%sprintln(string_repr(%s))" % (pad, name)]
        return []

    # ---------------------------------------------------------------- expressions
    def lit(self, ty):
        r = self.rng
        if ty == INT:
            return str(r.choice([0, 1, 2, 3, 5, 7, 10, 100]))
        if ty == BOOL:
            return r.choice(["True", "False"])
        if ty == STR:
            return '"%s"' % r.choice(["", "a", "b", "xy", "hello"])
        if ty == UNIT:
            return "Unit"
        if ty[0] == "List":
            n = r.choice([0, 0, 1, 2, 3])
            items = [self.expr(ty[1], 3) for _ in range(n)]
            if n >= 1 and self.mut("hetero-list"):
                items.insert(r.randrange(len(items) + 1), self.expr(self.other_type(ty[1]), 3))
            return "[" + ", ".join(items) + "]"
        if ty[0] == "Option":
            return "None" if self.chance(0.4) else "Some(%s)" % self.expr(ty[1], 3)
        if ty[0] == "Tuple":
            return "(" + ", ".join(self.expr(t, 3) for t in ty[1:]) + ")"
        raise ValueError(ty)

    def expr(self, ty, depth=0):
        r = self.rng
        self.budget -= 1
        if self.mut("operand-type", 0.15):
            return self.expr(self.other_type(ty), depth + 1)
        if self.mut("unknown-var", 0.15):
            return "nosuch%d" % r.randrange(3)
        if self.ret_ty is not None and self.toplevel_vars and self.mut("toplevel-var-in-fun", 0.3):
            cands = [n for n, t in self.toplevel_vars if t == ty] or [self.toplevel_vars[0][0]]
            return r.choice(cands)
        leaf = depth >= 3 or self.budget <= 0 or self.chance(0.3)
        vs = self.vars_of(ty)
        if leaf:
            if vs and self.chance(0.65):
                return r.choice(vs)
            return self.lit(ty) if isinstance(ty, str) or depth < 4 else self.flat_lit(ty)
        funs = [fn for fn in self.funs if fn[2] == ty and fn[0] != self.cur_fun]
        k = r.randrange(10)
        if k == 0 and funs:
            return self.call(r.choice(funs), depth)
        if k == 1:
            self.f("if-expr")
            a, b = self.expr(ty, depth + 1), self.expr(ty, depth + 1)
            if self.mut("if-branch-types"):
                b = self.expr(self.other_type(ty), depth + 1)
            return "if %s { %s } else { %s }" % (self.cond(depth + 1), a, b)
        if k == 2:
            self.f("match-expr")
            pt = r.choice([INT, STR])
            x = self.fresh("m")
            scrut = self.expr(OPT(pt), depth + 1)
            self.scopes.append([(x, pt)])
            some_body = self.expr(ty, depth + 1)
            self.scopes.pop()
            none_body = self.expr(ty, depth + 1)
            if self.mut("drop-match-arm"):
                return "match %s { Some(%s) => { %s } }" % (scrut, x, some_body)
            if self.mut("match-non-enum"):
                scrut = self.expr(r.choice([INT, STR, LIST(INT), TUP(INT, STR)]), depth + 1)
                return "match %s { _ => { %s } }" % (scrut, none_body)
            if self.chance(0.2):
                return "match %s { Some(%s) => { %s } _ => { %s } }" % (scrut, x, some_body, none_body)
            return "match %s { Some(%s) => { %s } None => { %s } }" % (scrut, x, some_body, none_body)
        if k == 3 and ty != BOOL:
            self.f("match-bool")
            return "match %s { True => { %s } False => { %s } }" % (self.cond(depth + 1), self.expr(ty, depth + 1),
                                                                     self.expr(ty, depth + 1))
        if ty == INT and (k == 9 or (self.mutation == "closure-return-outer-type" and not self.applied and k >= 6)) \
                and self.chance(0.6):
            # an annotated closure, called at once; its body may `return` early: the value must have the
            # CLOSURE's return type (Int), whatever the enclosing function returns
            self.f("closure-call")
            pn, _ = self.binder("c", INT)
            outer = self.ret_ty
            wrong = outer if outer not in (None, INT, UNIT) else (STR if outer is None else None)
            self.scopes.append([(pn, INT)])
            body = self.expr(INT, depth + 1)
            early = ""
            if wrong is not None and self.mut("closure-return-outer-type", 0.8):
                early = "  if True { return %s }\n" % self.expr(wrong, depth + 2)
            elif self.chance(0.6):
                self.f("closure-return")
                cond = "True" if self.chance(0.5) else self.expr(BOOL, depth + 2)
                early = "  if %s { return %s }\n" % (cond, self.expr(INT, depth + 2))
            self.scopes.pop()
            return "(fun(%s: Int): Int {\n%s  %s\n})(%s)" % (pn, early, body, self.expr(INT, depth + 1))
        if ty == INT:
            if k < 7:
                op = r.choice(["+", "-", "*", "+", "-", "%", "/"])
                rhs = self.expr(INT, depth + 1)
                if op in ("/", "%") and self.chance(0.85):
                    rhs = str(r.choice([1, 2, 3, 7]))
                self.f("binop")
                return "(%s %s %s)" % (self.expr(INT, depth + 1), op, rhs)
        if ty == BOOL:
            if k < 6:
                return "(%s %s %s)" % (self.expr(INT, depth + 1), r.choice(["<", "<=", ">", ">=", "==", "!="]),
                                        self.expr(INT, depth + 1))
            if k < 8:
                return "(%s %s %s)" % (self.expr(BOOL, depth + 1), r.choice(["&&", "||"]), self.expr(BOOL, depth + 1))
            t2 = r.choice([STR, OPT(INT), LIST(INT)])
            return "(%s == %s)" % (self.expr(t2, depth + 1), self.expr(t2, depth + 1))
        if ty == STR:
            if k < 6:
                return "(%s ^ %s)" % (self.expr(STR, depth + 1), self.expr(STR, depth + 1))
            if k < 8:
                return "string_repr(%s)" % self.expr(self.pick_type(), depth + 1)
        if vs and self.chance(0.5):
            return r.choice(vs)
        return self.lit(ty)

    def flat_lit(self, ty):
        if ty[0] == "List":
            return "[]"
        if ty[0] == "Option":
            return "None"
        return "(" + ", ".join(self.flat_lit(t) if not isinstance(t, str) else self.lit(t) for t in ty[1:]) + ")"

    def cond(self, depth):
        if self.mut("cond-type", 0.2):
            return self.expr(self.rng.choice([INT, STR]), depth)
        return self.expr(BOOL, depth)

    def call(self, fn, depth):
        name, ps, rt = fn
        self.f("call")
        args = [self.expr(p, depth + 1) for p in ps]
        if self.mut("arg-count"):
            if args and self.chance(0.5):
                args.pop()
            else:
                args.append(self.expr(INT, depth + 1))
        elif ps and self.mut("arg-type"):
            i = self.rng.randrange(len(ps))
            args[i] = self.expr(self.other_type(ps[i]), depth + 1)
        return "%s(%s)" % (name, ", ".join(args))

    # ---------------------------------------------------------------- statements
    def block(self, n, indent, tail=None):
        self.scopes.append([])
        lines = []
        for _ in range(n):
            if self.budget <= 0:
                break
            lines.extend(self.stmt(indent))
        if tail is not None:
            lines.extend(tail(indent))
        self.last_block = list(self.scopes.pop())
        return lines

    def stmt(self, indent):
        r = self.rng
        pad = "  " * indent
        self.budget -= 1
        k = r.randrange(14)
        if k < 3:
            ty = self.pick_type()
            name = self.fresh()
            e = self.expr(ty, 1)
            hint_ty = ty
            if self.mut("let-annotation"):
                hint_ty = self.other_type(ty)
                line = "%slet %s: %s = %s" % (pad, name, show(hint_ty), e)
            elif self.chance(0.5):
                line = "%slet %s: %s = %s" % (pad, name, show(ty), e)
                self.f("let-hint")
            else:
                line = "%slet %s = %s" % (pad, name, e)
                self.f("let")
            if ty != UNIT:
                self.declare(name, ty)
            return [line]
        if k == 3:
            # shadowing, possibly with a different type
            vs = [n for sc in self.scopes for n, _ in sc if n not in self.readonly]
            if vs:
                name = r.choice(vs)
                ty = self.pick_type()
                self.f("shadow")
                e = self.expr(ty, 1)
                self.declare(name, ty)
                return ["%slet %s = %s" % (pad, name, e)]
        if k == 4:
            ty = r.choice([INT, STR, BOOL, OPT(INT), LIST(INT)])
            vs = self.vars_of(ty, writable=True)
            if vs:
                self.f("assign")
                e = self.expr(ty, 1)
                if self.mut("assign-type"):
                    e = self.expr(self.other_type(ty), 1)
                return ["%s%s = %s" % (pad, r.choice(vs), e)]
        if k == 5:
            vs = self.vars_of(INT, writable=True)
            vs2 = self.vars_of(STR, writable=True) + self.vars_of(BOOL, writable=True)
            if vs2 and self.mutation == "update-non-int":
                if self.mut("update-non-int"):
                    return ["%s%s += %s" % (pad, r.choice(vs2), self.expr(INT, 1))]
            if vs:
                self.f("update")
                return ["%s%s %s %s" % (pad, r.choice(vs), r.choice(["+=", "-="]), self.expr(INT, 1))]
        if k == 6:
            self.f("if-stmt")
            c = self.cond(1)
            before = self.visible()
            out = ["%sif %s {" % (pad, c)] + self.block(r.randrange(1, 3), indent + 1)
            inner = [(n, t) for n, t in self.last_block if n not in self.readonly]
            if self.chance(0.5):
                out += ["%s} else {" % pad] + self.block(r.randrange(1, 3), indent + 1)
            out.append("%s}" % pad)
            if inner:
                n, t = self.rng.choice(inner)
                # an inner `let` (possibly shadowing an outer variable of another type) has ended here
                out += self.after_scope(pad, n, t, before.get(n) if before.get(n) != t else None) \
                    if (n not in before or before.get(n) != t) else []
            return out
        if k == 7:
            self.f("while")
            i = self.fresh("i")
            self.declare(i, INT)
            self.readonly.add(i)
            bound = r.randrange(1, 5)
            self.loop_depth += 1
            body = self.block(r.randrange(1, 3), indent + 1)
            self.loop_depth -= 1
            return (["%slet %s = 0" % (pad, i), "%swhile %s < %d {" % (pad, i, bound), "%s  %s += 1" % (pad, i)]
                    + body + ["%s}" % pad])
        if k == 8:
            self.f("for")
            et = r.choice([INT, STR, OPT(INT)])
            if self.mutation == "any-from-if":
                x, outer = self.fresh("x"), None
            else:
                x, outer = self.binder("x", et)
            if self.mut("any-from-if"):
                it = "[if %s { %s } else { %s }]" % (self.expr(BOOL, 2), self.expr(INT, 2), self.expr(INT, 2))
                acc = self.vars_of(INT, writable=True)
                inner = "match %s { Some(q) => { q + 1 } None => { 0 } }" % x
                body = ["%s  println(string_repr(%s))" % (pad, inner)] if not acc else [
                    "%s  %s += %s" % (pad, acc[0], inner)]
                return ["%sfor %s in %s {" % (pad, x, it)] + body + ["%s}" % pad]
            it = self.expr(LIST(et), 1)
            if self.mut("for-non-list"):
                it = self.expr(r.choice([INT, STR, OPT(INT)]), 1)
            if it[0] in "[im" and self.chance(0.6):
                # a literal / if / match iterable: parenthesised its type is inferred (the fragment of
                # check_sound_fragment), bare it is checked against List<Any> (known findings)
                it = "(" + it + ")"
                self.f("for-paren")
            self.scopes.append([(x, et)])
            self.readonly.add(x)
            self.loop_depth += 1
            body = self.block(r.randrange(1, 3), indent + 1)
            self.loop_depth -= 1
            self.scopes.pop()
            return ["%sfor %s in %s {" % (pad, x, it)] + body + ["%s}" % pad] + self.after_scope(pad, x, et, outer)
        if k == 9:
            self.f("match-stmt")
            pt = r.choice([INT, STR, LIST(INT)])
            scrut = self.expr(OPT(pt), 1)
            x, outer = self.binder("m", pt)
            self.scopes.append([(x, pt)])
            a = self.block(r.randrange(1, 3), indent + 2)
            self.scopes.pop()
            b = self.block(r.randrange(0, 2), indent + 2)
            out = ["%smatch %s {" % (pad, scrut), "%s  Some(%s) => {" % (pad, x)] + a + ["%s  }" % pad]
            if not self.mut("drop-match-arm"):
                out += ["%s  None => {" % pad] + b + ["%s  }" % pad]
            return out + ["%s}" % pad] + self.after_scope(pad, x, pt, outer)
        if k == 10 and self.loop_depth > 0:
            self.f("break/continue")
            return ["%sif %s { %s }" % (pad, self.expr(BOOL, 2), r.choice(["break", "continue"]))]
        if k == 11 and self.ret_ty is not None:
            self.f("early-return")
            rt = self.ret_ty
            e = self.expr(rt, 2)
            if self.mut("return-wrong-branch"):
                e = self.expr(self.other_type(rt), 2)
            return ["%sif %s { return %s }" % (pad, self.expr(BOOL, 2), e)]
        if k == 12:
            unit_funs = [fn for fn in self.funs if fn[2] == UNIT and fn[0] != self.cur_fun]
            if unit_funs:
                return [pad + self.call(r.choice(unit_funs), 1)]
        self.f("println")
        if self.mut("print-non-string", 0.3):
            return ["%sprintln(%s)" % (pad, self.expr(r.choice([INT, BOOL]), 1))]
        vs = self.vars_of(INT) + self.vars_of(STR)
        if vs and self.mutation == "call-non-function":
            if self.mut("call-non-function", 0.3):
                return ["%s%s(1)" % (pad, r.choice(vs))]
        ty = self.pick_type(allow_unit=False)
        return ["%sprintln(string_repr(%s))" % (pad, self.expr(ty, 1))]

    # ---------------------------------------------------------------- functions
    def fun_def(self):
        r = self.rng
        name = self.fresh("f")
        nparams = r.randrange(0, 4)
        ptys = [self.pick_type() for _ in range(nparams)]
        rt = self.pick_type(allow_unit=True)
        recursive = bool(ptys) and ptys[0] == INT and rt != UNIT and self.chance(0.35)
        pnames = [self.fresh("p") for _ in ptys]
        saved = (self.scopes, self.readonly, self.loop_depth)
        self.scopes = [list(zip(pnames, ptys))]
        self.readonly = set(pnames[:1]) if recursive else set()
        self.loop_depth = 0
        self.ret_ty, self.cur_fun = rt, name
        shown_ptys = list(ptys)
        shown_rt = rt
        if ptys and self.mut("param-annotation", 0.4):
            i = r.randrange(len(ptys))
            shown_ptys[i] = self.other_type(ptys[i])
        if self.mut("return-annotation", 0.4):
            shown_rt = self.other_type(rt)

        def tail(indent):
            pad = "  " * indent
            if rt == UNIT and self.chance(0.6):
                return []
            if self.mut("last-expr-loop", 0.5):
                return ["%swhile False { }" % pad]
            if recursive:
                self.f("recursion")
                # the other arguments are passed on unchanged (a growing argument, e.g. string_repr of a
                # tuple holding itself, makes the run exponential)
                args = ["(%s - 1)" % pnames[0]] + list(pnames[1:])
                rec = "%s(%s)" % (name, ", ".join(args))
                base = self.expr(rt, 2)
                step = "(%s + 1)" % rec if rt == INT else rec
                return ["%sif %s <= 0 { %s } else { %s }" % (pad, pnames[0], base, step)]
            return [pad + self.expr(rt, 1)]
        body = self.block(r.randrange(0, 4), 1, tail)
        self.scopes, self.readonly, self.loop_depth = saved
        self.ret_ty, self.cur_fun = None, None
        self.funs.append((name, ptys, rt))
        self.f("fun")
        params = ", ".join("%s: %s" % (n, show(t)) for n, t in zip(pnames, shown_ptys))
        return "fun %s(%s): %s {\n%s\n}" % (name, params, show(shown_rt), "\n".join(body))


def gen_program(rng, size=40, mutation=None):
    g = Gen(rng, size=size, mutation=mutation)
    parts = []
    # toplevel variables first, so that the `toplevel-var-in-fun` mutation has something to refer to
    for _ in range(rng.randrange(0, 3)):
        ty = rng.choice([INT, STR, BOOL, LIST(INT)])
        name = g.fresh("t")
        parts.append("let %s = %s" % (name, g.lit(ty)))
        g.declare(name, ty)
        g.toplevel_vars.append((name, ty))
    for _ in range(rng.randrange(1, 4)):
        per = max(8, size // 3)
        g.budget = per
        parts.append(g.fun_def())
    g.budget = max(10, size // 2)
    for _ in range(rng.randrange(2, 6)):
        parts.extend(g.stmt(0))
    # call every function at least once so that bodies are reached
    for fn in g.funs:
        g.budget = 6
        c = g.call(fn, 1)
        parts.append(c if fn[2] == UNIT else "println(string_repr(%s))" % c)
    src = "\n".join(parts) + "\n"
    return src, dict(size=size, mutation=mutation, applied=g.applied, features=g.feat)
