import GardenVerif.Model.Check
/-
Reference semantics of the fully annotated core fragment of M8 with RUNTIME TYPE ERRORS as
explicit outcomes, mirroring the runtime checks of src/eval.rs:

* operand checks of the binary operators, `if`/`while` conditions, `for` iterables, `println`
  (`check_type`-style "Expected `T` but …" exceptions)            → `operandType`
* `check_param_types`: `is_subtype(Type::from_value(arg), hint)`     → `argType`
* `eval_let` with a hint                                             → `letType`
* the return-type check when a frame finishes (`eval`, ≈7205-7229)  → `retType`
* `check_arity`                                                      → `arity`
* calling a non-function                                             → `notFunction`
* `No such variable` / `x is not currently bound`                    → `unboundVar` / `notBound`
* `match`: no case reached / scrutinee not an enum / bad pattern     → `noMatch` / `notEnum` / `badPattern`

and the NON-type errors: division by zero, overflow on division / power, negative power.

A fuel-indexed big-step interpreter (every recursive call consumes one unit of fuel; `timeout`
when it runs out). Blocks are entered/left where the CHECKER enters/leaves them; this is
observationally the evaluator's scoping (lookups and `set_existing` go innermost-first in both).
`typeOf` is `Type::from_value`: in the fragment a list value is only ever built by a list
literal, whose `elem_type` is the type of its last element (`NoValue` when empty), a tuple's
`item_types` are its items' types, `Some(v)` is `Option<typeOf v>` and `None` is `Option<NoValue>`.
Call arguments and list/tuple items are evaluated right to left, operands left to right.
-/

namespace Check

inductive Val where
  | int (v : Int64)
  | str (s : String)
  | bool (b : Bool)
  | unit
  | none
  | some (v : Val)
  | list (items : List Val)
  | tuple (items : List Val)
  deriving Repr, Inhabited

mutual
/-- `Type::from_value`. -/
def typeOf : Val → Ty
  | .int _ => tInt
  | .str _ => tStr
  | .bool _ => tBool
  | .unit => tUnit
  | .none => tOption Ty.noValue
  | .some v => tOption (typeOf v)
  | .list items => tList (typeOfLast items)
  | .tuple items => .tuple (typeOfs items)
/-- `elem_type` of a list literal: the type of the last element. -/
def typeOfLast : List Val → Ty
  | [] => Ty.noValue
  | [v] => typeOf v
  | _ :: w :: rest => typeOfLast (w :: rest)
def typeOfs : List Val → List Ty
  | [] => []
  | v :: rest => typeOf v :: typeOfs rest
end

inductive RErr where
  | operandType (expected : String)
  | argType | letType | retType
  | arity | notFunction | unboundVar | notBound
  | noMatch | notEnum | badPattern
  | unsupported
  | divZero | divOverflow | modZero | negPow | powTooLarge | powOverflow
  deriving Repr, Inhabited, DecidableEq

/-- `TypeErrorKinds` of C16 (plus `unsupported`: the run left the fragment). -/
def RErr.isTypeError : RErr → Bool
  | .divZero | .divOverflow | .modZero | .negPow | .powTooLarge | .powOverflow => false
  | _ => true

def RErr.toString : RErr → String
  | .operandType e => "operand-type " ++ e
  | .argType => "arg-type" | .letType => "let-type" | .retType => "ret-type"
  | .arity => "arity" | .notFunction => "not-function" | .unboundVar => "unbound-var" | .notBound => "not-bound"
  | .noMatch => "no-match" | .notEnum => "not-enum" | .badPattern => "bad-pattern"
  | .unsupported => "unsupported"
  | .divZero => "div-zero" | .divOverflow => "div-overflow" | .modZero => "mod-zero" | .negPow => "neg-pow"
  | .powTooLarge => "pow-too-large" | .powOverflow => "pow-overflow"

inductive Res where
  | val (v : Val) (ρ : Blocks Val)
  | ret (v : Val)
  | brk (ρ : Blocks Val)
  | cont (ρ : Blocks Val)
  | err (e : RErr)
  | timeout
  deriving Inhabited

inductive ItemsRes where
  | vals (vs : List Val) (ρ : Blocks Val)
  | ret (v : Val)
  | brk (ρ : Blocks Val)
  | cont (ρ : Blocks Val)
  | err (e : RErr)
  | timeout

-- ------------------------------------------------------------------ operators

def checkedPow (a : Int64) (n : Nat) : Option Int64 :=
  let r := a.toInt ^ n
  if r < -(2^63) ∨ r ≥ 2^63 then Option.none else Option.some (Int64.ofInt r)

/-- `eval_int_binop` (as in M4). -/
def intBinop (op : BinOp) (a b : Int64) : Except RErr Val :=
  match op with
  | .add => .ok (.int (a + b))
  | .sub => .ok (.int (a - b))
  | .mul => .ok (.int (a * b))
  | .div => if b == 0 then .error .divZero
            else if a == Int64.minValue && b == -1 then .error .divOverflow
            else .ok (.int (a / b))
  | .mod => if b == 0 then .error .modZero
            else if a == Int64.minValue && b == -1 then .error .modZero
            else .ok (.int (Int64.ofInt (a.toInt.emod b.toInt)))
  | .pow => if b < 0 then .error .negPow
            else if b.toInt > 4294967295 then .error .powTooLarge
            else match checkedPow a b.toInt.toNat with
              | Option.some v => .ok (.int v)
              | Option.none => .error .powOverflow
  | .bitand => .ok (.int (a &&& b))
  | .bitor => .ok (.int (a ||| b))
  | .lt => .ok (.bool (a < b))
  | .le => .ok (.bool (a ≤ b))
  | .gt => .ok (.bool (a > b))
  | .ge => .ok (.bool (a ≥ b))
  | _ => .error .unsupported

mutual
/-- `PartialEq for Value_` on the fragment. -/
def valEq : Val → Val → Bool
  | .int a, .int b => a == b
  | .str a, .str b => a == b
  | .bool a, .bool b => a == b
  | .unit, .unit => true
  | .none, .none => true
  | .some a, .some b => valEq a b
  | .list a, .list b => valEqL a b
  | .tuple a, .tuple b => valEqL a b
  | _, _ => false
def valEqL : List Val → List Val → Bool
  | [], [] => true
  | a :: as, b :: bs => valEq a b && valEqL as bs
  | _, _ => false
end

def binopVal (op : BinOp) (l r : Val) : Except RErr Val :=
  match op with
  | .eq => .ok (.bool (valEq l r))
  | .ne => .ok (.bool (!valEq l r))
  | .and | .or =>
    (match l, r with
     | .bool a, .bool b => .ok (.bool (if op == .and then a && b else a || b))
     | _, _ => .error (.operandType "Bool"))
  | .concat =>
    (match l, r with
     | .str a, .str b => .ok (.str (a ++ b))
     | _, _ => .error (.operandType "String"))
  | _ =>
    (match l, r with
     | .int a, .int b => intBinop op a b
     | _, _ => .error (.operandType "Int"))

def escapeString (s : String) : String :=
  "\"" ++ String.join (s.toList.map fun c =>
    if c == '"' then "\\\"" else if c == '\n' then "\\n" else if c == '\\' then "\\\\"
    else String.singleton c) ++ "\""

mutual
/-- `Value::display` on the fragment. -/
def display : Val → String
  | .int v => toString v.toInt
  | .str s => escapeString s
  | .bool b => if b then "True" else "False"
  | .unit => "Unit"
  | .none => "None"
  | .some v => "Some(" ++ display v ++ ")"
  | .list items => "[" ++ ", ".intercalate (displayL items) ++ "]"
  | .tuple items => "(" ++ ", ".intercalate (displayL items) ++ (if items.length == 1 then "," else "") ++ ")"
def displayL : List Val → List String
  | [] => []
  | v :: rest => display v :: displayL rest
end

/-- Namespace values of the fragment that are not functions. -/
def globalVal (x : String) : Option Val :=
  if x == "None" then Option.some .none
  else if x == "True" then Option.some (.bool true)
  else if x == "False" then Option.some (.bool false)
  else if x == "Unit" then Option.some .unit
  else Option.none

/-- (enum name, variant index) of an enum value / of a pattern symbol. -/
def valKey : Val → Option (String × Nat × Option Val)
  | .bool b => Option.some ("Bool", if b then 0 else 1, Option.none)
  | .unit => Option.some ("Unit", 0, Option.none)
  | .some v => Option.some ("Option", 0, Option.some v)
  | .none => Option.some ("Option", 1, Option.none)
  | _ => Option.none

def patKey (x : String) : Option (String × Nat) :=
  if x == "Some" then Option.some ("Option", 0)
  else if x == "None" then Option.some ("Option", 1)
  else if x == "True" then Option.some ("Bool", 0)
  else if x == "False" then Option.some ("Bool", 1)
  else if x == "Unit" then Option.some ("Unit", 0)
  else if x == "Ok" then Option.some ("Result", 0)
  else if x == "Err" then Option.some ("Result", 1)
  else Option.none

/-- `check_param_types`: first parameter whose annotation check fails. -/
def paramsOk : List (String × Hint) → List Val → Bool
  | p :: ps, v :: vs => Ty.sub (typeOf v) p.2.toTy && paramsOk ps vs
  | _, _ => true

def bindParams : List (String × Hint) → List Val → List (String × Val) → List (String × Val)
  | p :: ps, v :: vs, acc => bindParams ps vs (setBlock acc p.1 v)
  | _, _, acc => acc

/-- What leaving a block does to an outcome: pop the block, keep/replace the value. -/
def leaveBlock (keep : Bool) : Res → Res
  | .val v ρ => .val (if keep then v else .unit) ρ.tail
  | .brk ρ => .brk ρ.tail
  | .cont ρ => .cont ρ.tail
  | r => r

-- ------------------------------------------------------------------ the interpreter

mutual
def eval (P : Program) : Nat → Blocks Val → TExpr → Res
  | 0, _, _ => .timeout
  | n + 1, ρ, e =>
    match e with
    | .int v => .val (.int v) ρ
    | .str s => .val (.str s) ρ
    | .var x =>
      (match lookupB ρ x with
       | Option.some v => .val v ρ
       | Option.none =>
         match globalVal x with
         | Option.some v => .val v ρ
         | Option.none => if (globalOf P x).isSome then .err .unsupported else .err .unboundVar)
    | .paren e => eval P n ρ e
    | .binop op l r =>
      (match eval P n ρ l with
       | .val lv ρ1 =>
         (match eval P n ρ1 r with
          | .val rv ρ2 =>
            (match binopVal op lv rv with
             | .ok v => .val v ρ2
             | .error er => .err er)
          | other => other)
       | other => other)
    | .letE x hint e =>
      (match eval P n ρ e with
       | .val v ρ1 =>
         (match hint with
          | Option.some h => if Ty.sub (typeOf v) h.toTy then .val .unit (setB ρ1 x v) else .err .letType
          | Option.none => .val .unit (setB ρ1 x v))
       | other => other)
    | .assign x e =>
      (match eval P n ρ e with
       | .val v ρ1 =>
         (match lookupB ρ1 x with
          | Option.none => .err .notBound
          | Option.some _ => .val .unit (assignB ρ1 x v))
       | other => other)
    | .update isAdd x e =>
      (match eval P n ρ e with
       | .val rv ρ1 =>
         (match lookupB ρ1 x with
          | Option.none => if (globalOf P x).isSome then .err (.operandType "Int") else .err .notBound
          | Option.some (.int cur) =>
            (match rv with
             | .int d => .val .unit (assignB ρ1 x (.int (if isAdd then cur + d else cur - d)))
             | _ => .err (.operandType "Int"))
          | Option.some _ => .err (.operandType "Int"))
       | other => other)
    | .ifE c thn hasElse els =>
      (match eval P n ρ c with
       | .val (.bool b) ρ1 =>
         if b then leaveBlock hasElse (evalSeq P n ([] :: ρ1) thn)
         else if hasElse then leaveBlock true (evalSeq P n ([] :: ρ1) els)
         else .val .unit ρ1
       | .val _ _ => .err (.operandType "Bool")
       | other => other)
    | .whileE c body => evalWhile P n ρ c body
    | .forE x e body =>
      (match eval P n ρ e with
       | .val (.list items) ρ1 => evalFor P n ρ1 x items body
       | .val _ _ => .err (.operandType "List")
       | other => other)
    | .matchE s cases =>
      (match eval P n ρ s with
       | .val sv ρ1 =>
         (match valKey sv with
          | Option.none => .err .notEnum
          | Option.some key => evalCases P n ρ1 key cases)
       | other => other)
    | .ret e =>
      (match eval P n ρ e with
       | .val v _ => .ret v
       | other => other)
    | .retUnit => .ret .unit
    | .brk => .brk ρ
    | .cont => .cont ρ
    | .list items =>
      (match evalItems P n ρ items with
       | .vals vs ρ1 => .val (.list vs) ρ1
       | .ret v => .ret v | .brk ρ1 => .brk ρ1 | .cont ρ1 => .cont ρ1 | .err er => .err er | .timeout => .timeout)
    | .tuple items =>
      (match evalItems P n ρ items with
       | .vals vs ρ1 => .val (.tuple vs) ρ1
       | .ret v => .ret v | .brk ρ1 => .brk ρ1 | .cont ρ1 => .cont ρ1 | .err er => .err er | .timeout => .timeout)
    | .call f args =>
      -- the receiver is evaluated first: an unknown name fails before the arguments run
      if (lookupB ρ f).isNone && (globalOf P f).isNone then .err .unboundVar else
      (match evalItems P n ρ args with
       | .vals vs ρ1 => callFn P n ρ1 f vs
       | .ret v => .ret v | .brk ρ1 => .brk ρ1 | .cont ρ1 => .cont ρ1 | .err er => .err er | .timeout => .timeout)
/-- A block's expressions; the value is the last expression's (`Unit` when empty). -/
def evalSeq (P : Program) : Nat → Blocks Val → List TExpr → Res
  | 0, _, _ => .timeout
  | _ + 1, ρ, [] => .val .unit ρ
  | n + 1, ρ, [e] => eval P n ρ e
  | n + 1, ρ, e :: e2 :: rest =>
    match eval P n ρ e with
    | .val _ ρ1 => evalSeq P n ρ1 (e2 :: rest)
    | other => other
/-- Items / arguments, evaluated RIGHT TO LEFT, returned in source order. -/
def evalItems (P : Program) : Nat → Blocks Val → List TExpr → ItemsRes
  | 0, _, _ => .timeout
  | _ + 1, ρ, [] => .vals [] ρ
  | n + 1, ρ, e :: rest =>
    match evalItems P n ρ rest with
    | .vals vs ρ1 =>
      (match eval P n ρ1 e with
       | .val v ρ2 => .vals (v :: vs) ρ2
       | .ret v => .ret v | .brk ρ2 => .brk ρ2 | .cont ρ2 => .cont ρ2 | .err er => .err er | .timeout => .timeout)
    | other => other
def evalWhile (P : Program) : Nat → Blocks Val → TExpr → List TExpr → Res
  | 0, _, _, _ => .timeout
  | n + 1, ρ, c, body =>
    match eval P n ρ c with
    | .val (.bool true) ρ1 =>
      (match evalSeq P n ([] :: ρ1) body with
       | .val _ ρ2 => evalWhile P n ρ2.tail c body
       | .cont ρ2 => evalWhile P n ρ2.tail c body
       | .brk ρ2 => .val .unit ρ2.tail
       | other => other)
    | .val (.bool false) ρ1 => .val .unit ρ1
    | .val _ _ => .err (.operandType "Bool")
    | other => other
def evalFor (P : Program) : Nat → Blocks Val → String → List Val → List TExpr → Res
  | 0, _, _, _, _ => .timeout
  | _ + 1, ρ, _, [], _ => .val .unit ρ
  | n + 1, ρ, x, v :: rest, body =>
    match evalSeq P n ([] :: setB ([] :: ρ) x v) body with
    | .val _ ρ2 => evalFor P n ρ2.tail.tail x rest body
    | .cont ρ2 => evalFor P n ρ2.tail.tail x rest body
    | .brk ρ2 => .val .unit ρ2.tail.tail
    | other => other
/-- `eval_match_cases`: first case whose variant is the scrutinee's and whose payload shape fits. -/
def evalCases (P : Program) : Nat → Blocks Val → (String × Nat × Option Val) → List Case → Res
  | 0, _, _, _ => .timeout
  | _ + 1, _, _, [] => .err .noMatch
  | n + 1, ρ, key, .mk variant payload body :: rest =>
    if variant == "_" then
      leaveBlock true (leaveBlock true (evalSeq P n ([] :: [] :: ρ) body))
    else
      match patKey variant with
      | Option.none => .err .badPattern
      | Option.some (en, idx) =>
        if en == key.1 && idx == key.2.1 then
          match key.2.2, payload with
          | Option.some pv, Option.some x =>
            leaveBlock true (leaveBlock true (evalSeq P n ([] :: setB ([] :: ρ) x pv) body))
          | Option.none, Option.none =>
            leaveBlock true (leaveBlock true (evalSeq P n ([] :: [] :: ρ) body))
          | _, _ => evalCases P n ρ key rest
        else evalCases P n ρ key rest
/-- `eval_call` once receiver and arguments are values. -/
def callFn (P : Program) : Nat → Blocks Val → String → List Val → Res
  | 0, _, _, _ => .timeout
  | n + 1, ρ, f, vs =>
    match lookupB ρ f with
    | Option.some _ => .err .notFunction        -- locals are never functions in the fragment
    | Option.none =>
      match globalOf P f with
      | Option.none => .err .unboundVar
      | Option.some (.val _) => .err .notFunction
      | Option.some .someC =>
        (match vs with
         | [v] => .val (.some v) ρ
         | _ => .err .arity)
      | Option.some .printLike =>
        (match vs with
         | [.str _] => .val .unit ρ
         | [_] => .err (.operandType "String")
         | _ => .err .arity)
      | Option.some .stringRepr =>
        (match vs with
         | [v] => .val (.str (display v)) ρ
         | _ => .err .arity)
      | Option.some (.fn _ _) =>
        match findFun P f with
        | Option.none => .err .unsupported
        | Option.some d =>
          if d.params.length != vs.length then .err .arity
          else if !(paramsOk d.params vs) then .err .argType
          else
            let finish (v : Val) : Res := if Ty.sub (typeOf v) d.ret.toTy then .val v ρ else .err .retType
            match evalSeq P n ([] :: [bindParams d.params vs [], []]) d.body with
            | .val v _ => finish v
            | .ret v => finish v
            | .brk _ => finish .unit
            | .cont _ => finish .unit
            | other => other
end

/-- Outcome of a whole program: the toplevel expressions in order, in one scope. -/
inductive Outcome where
  | ok
  | err (e : RErr)
  | timeout
  deriving Repr, Inhabited, DecidableEq

def runTop (P : Program) (fuel : Nat) : Blocks Val → List TExpr → Outcome
  | _, [] => .ok
  | ρ, e :: rest =>
    match eval P fuel ρ e with
    | .val _ ρ1 => runTop P fuel ρ1 rest
    | .ret _ => .ok            -- not in the fragment (no toplevel `return`)
    | .brk ρ1 => runTop P fuel ρ1 rest
    | .cont ρ1 => runTop P fuel ρ1 rest
    | .err er => .err er
    | .timeout => .timeout

def run (fuel : Nat) (P : Program) : Outcome := runTop P fuel [[]] P.top

def Outcome.isTypeError : Outcome → Bool
  | .err e => e.isTypeError
  | _ => false

end Check
