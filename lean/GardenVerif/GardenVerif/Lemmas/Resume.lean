import GardenVerif.Model.Resume
import GardenVerif.Props.C08
/-!
Helper lemmas for C07 (restore after a runtime error) and C11 (incremental = batch).
Reuses `C08.core` / `C08.step_sim` ("the same step on states that agree up to ticks").
-/
set_option linter.unusedVariables false
set_option linter.unusedSimpArgs false

namespace ResumeL
open Machine Resume

-- ------------------------------------------------------------------ bookkeeping of error steps

/-- An error step changes nothing but the current frame, the tick counter and the flag. -/
theorem step_error_fields (s s' : State) (e : Err) (h : step s = .error s' e) :
    s'.prog = s.prog ∧ s'.out = s.out ∧ s'.tickLimit = s.tickLimit ∧ s'.stackLimit = s.stackLimit ∧
    s'.stopAt = s.stopAt ∧ s'.interruptAt = s.interruptAt ∧ s'.frames.tail = s.frames.tail := by
  unfold step at h
  match hf : s.frames with
  | [] => simp [hf] at h
  | f :: callers =>
    simp only [hf] at h
    match he : f.exprs with
    | [] =>
      simp only [he] at h
      cases callers with
      | nil => cases hv : f.values <;> simp [hv] at h
      | cons caller rest =>
        cases hv : f.values with
        | nil => simp [hv] at h
        | cons v vs => simp only [hv] at h; split at h <;> simp at h
    | (st, e0) :: rest =>
      simp only [he] at h
      split at h
      · simp at h; obtain ⟨h, _⟩ := h; subst h; simp [setTop, hf]
      · split at h
        · simp at h; obtain ⟨h, _⟩ := h; subst h; simp [setTop, hf]
        · split at h
          · simp at h; obtain ⟨h, _⟩ := h; subst h; simp [setTop, hf]
          · split at h <;> (try (unfold stopCheck at h; repeat' split at h)) <;> simp at h
            obtain ⟨h, _⟩ := h; subst h; simp [setTop, hf]

/-- Two states that agree on everything but ticks / flag / schedule. -/
theorem core_eq_of_fields (a b : State) (h1 : a.prog = b.prog) (h2 : a.frames = b.frames)
    (h3 : a.out = b.out) (h4 : a.tickLimit = b.tickLimit) (h5 : a.stackLimit = b.stackLimit)
    (h6 : a.stopAt = b.stopAt) : C08.core a = C08.core b := by
  cases a; cases b; simp_all [C08.core]

theorem core_frames (a b : State) (h : C08.core a = C08.core b) : a.frames = b.frames := by
  have := congrArg State.frames h; simpa [C08.core] using this

-- ------------------------------------------------------------------ value-stack lemmas

theorem popN_append : ∀ (n : Nat) (l got rest : List Value), popN n l = some (got, rest) →
    l = got ++ rest ∧ got.length = n := by
  intro n
  induction n with
  | zero => intro l got rest h; simp [popN] at h; obtain ⟨h1, h2⟩ := h; subst h1 h2; simp
  | succ n ih =>
    intro l got rest h
    cases l with
    | nil => simp [popN] at h
    | cons v vs =>
      simp only [popN] at h
      cases hp : popN n vs with
      | none => simp [hp] at h
      | some pr =>
        obtain ⟨g, r⟩ := pr
        simp [hp] at h
        obtain ⟨h1, h2⟩ := h
        subst h1 h2
        have := ih vs g r hp
        simp [this.1, this.2]

/-- Pushing a list of values one by one puts them on the stack in reverse. -/
theorem foldl_pushV (vals : List Value) (f : Frame) :
    vals.foldl (fun f v => f.pushV v) f = { f with values := vals.reverse ++ f.values } := by
  induction vals generalizing f with
  | nil => simp
  | cons v vs ih =>
    simp only [List.foldl]
    rw [ih]
    simp [Frame.pushV]

theorem restore_eq (f : Frame) (st : St) (e : Expr) (vals : List Value) :
    restore f st e vals = { f with values := vals.reverse ++ f.values, exprs := (st, e) :: f.exprs } := by
  unfold restore; simp [foldl_pushV, Frame.pushE]

end ResumeL
