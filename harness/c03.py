"""C03 — Operator chains are left-associative with uniform precedence.

Proof: GardenVerif.Props.C03 (`chain_left_assoc`, `chain_left_assoc_all`, `paren_overrides_*`) over the parser model M2.
Tie: the real parser (`ast` hook) vs the Lean model on the REAL token list, on generated chains.
Direct oracles on the implementation (no model involved):
  * tree oracle: the position-free tree of `x1 op1 x2 … opn xn` is the left fold, and explicit
    parentheses stay `paren` nodes where written;
  * value oracle: `garden run -c` of type-correct Int / Bool / String chains prints the same value as
    the explicitly parenthesised left-nested chain run through the same binary (and, for + - * on
    small integers, as Python's own left fold).
"""
import itertools
from . import ast_dump as A
from . import tree_gen as G
from . import common

LEAN_MODULES = ["GardenVerif.Props.C03"]

OPS = G.OPS

# three operand shapes: (source text, expected S-expression)
SHAPES = {
    "lit": [("1", "(int i:1)"), ("2", "(int i:2)"), ("30", "(int i:30)"), ("4", "(int i:4)"), ("-5", "(int i:-5)"),
            ("6", "(int i:6)")],
    "call": [("x", "(var x)"), ("f(y)", "(call (var f) (var y))"), ("g()", "(call (var g))"),
             ("z.m(1)", "(mcall (var z) m (int i:1))"), ("w.q", "(dot (var w) q)"), ("n::k", "(ns (var n) k)")],
    "mixed": [("(a + 1)", "(paren (binop + (var a) (int i:1)))"), ("\"s\"", "(str s:73)"),
              ("[1, 2]", "(list (int i:1) (int i:2))"), ("(b)", "(paren (var b))"), ("2.5", "(float 2.5)"),
              ("h(1 - 2 - 3)", "(call (var h) (binop - (binop - (int i:1) (int i:2)) (int i:3)))")],
}


def chain_case(shape, ops):
    pool = SHAPES[shape]
    src, tree = pool[0]
    for k, op in enumerate(ops):
        s, t = pool[(k + 1) % len(pool)]
        src += " %s %s" % (op, s)
        tree = "(binop %s %s %s)" % (op, tree, t)
    return src, "(expr %s)" % tree


# ---------------------------------------------------------------- typed chains for the value oracle
INT_OPS = ["+", "-", "*", "/", "%"]
CMP_OPS = ["<", "<=", ">", ">="]


def typed_chain(rng, n_ops):
    """A chain whose LEFT-nested reading is type-correct and cannot raise. Returns (operands, ops)."""
    ty = rng.choice(["Int", "Int", "Bool", "String"])
    first = {"Int": lambda: str(rng.randint(1, 40)), "Bool": lambda: rng.choice(["True", "False"]),
             "String": lambda: '"%s"' % rng.choice(["a", "b", "cd", ""])}
    operands, ops = [first[ty]()], []
    for _ in range(n_ops):
        if ty == "Int":
            op = rng.choice(INT_OPS * 3 + CMP_OPS + ["==", "!="])
            operands.append(str(rng.randint(1, 9)))
            ty = "Int" if op in INT_OPS else "Bool"
        elif ty == "Bool":
            op = rng.choice(["&&", "||", "==", "!="])
            operands.append(rng.choice(["True", "False"]))
        else:
            op = rng.choice(["^", "^", "==", "!="])
            operands.append('"%s"' % rng.choice(["a", "b", "cd", ""]))
            ty = "String" if op == "^" else "Bool"
        ops.append(op)
    return operands, ops


def flat(operands, ops):
    s = operands[0]
    for o, x in zip(ops, operands[1:]):
        s += " %s %s" % (o, x)
    return s


def nested(operands, ops):
    s = operands[0]
    for o, x in zip(ops, operands[1:]):
        s = "(%s %s %s)" % (s, o, x)
    return s


def py_fold(operands, ops):
    if not all(o in ("+", "-", "*") for o in ops):
        return None
    v = int(operands[0])
    for o, x in zip(ops, operands[1:]):
        x = int(x)
        v = v + x if o == "+" else v - x if o == "-" else v * x
    return str(v)


def run_value(ctx, expr):
    """(rc, printed value or first line of the Garden exception, stderr tail); retried on a timeout."""
    for _ in range(3):
        rc, so, se = ctx.garden(["run", "-c", "println(string_repr(%s))" % expr], timeout=60)
        if rc != -9999:
            break
    out = so.strip()
    if not out and se.strip():
        out = "stderr: " + se.strip().split("\n")[0][:200]
    return rc, out, se.strip()[-300:]


def run(ctx):
    rng = ctx.rng
    # ------------------------------------------------------------ tree level: correspondence + tree oracle
    cases = [("10 - 1 - 1 - 1", "(expr (binop - (binop - (binop - (int i:10) (int i:1)) (int i:1)) (int i:1)))")]
    import os
    fast = os.environ.get("VERIF_C03_FAST") == "1"   # mutation testing only: skip the 3-operator exhaustive part
    if fast:
        ctx.notes.append("VERIF_C03_FAST=1: reduced case set (not a valid evidence run)")
    for shape in SHAPES:
        for n in ((1, 2) if fast else (1, 2, 3)):
            for ops in itertools.product(OPS, repeat=n):
                cases.append(chain_case(shape, ops))
    n_exh = len(cases)
    for _ in range(ctx.scale(1500, 60000)):
        n = rng.randint(4, 5)
        cases.append(chain_case(rng.choice(list(SHAPES)), [rng.choice(OPS) for _ in range(n)]))
    # long chains: every operator repeated 6..40 times (seeded C03-2 re-balanced runs of one "associative"
    # operator with more than 8 operands), and long mixed chains
    for op in OPS:
        for n in (6, 8, 9, 12, 17, 40):
            cases.append(chain_case(rng.choice(list(SHAPES)), [op] * n))
    for _ in range(ctx.scale(150, 5000)):
        n = rng.randint(6, 24)
        few = [rng.choice(OPS) for _ in range(rng.randint(1, 3))]
        cases.append(chain_case(rng.choice(list(SHAPES)), [rng.choice(few) for _ in range(n)]))
    # parentheses override the grouping
    for op1, op2 in itertools.product(OPS, repeat=2):
        cases.append(("a %s (b %s c)" % (op1, op2),
                      "(expr (binop %s (var a) (paren (binop %s (var b) (var c)))))" % (op1, op2)))
        cases.append(("(a %s b) %s c" % (op1, op2),
                      "(expr (binop %s (paren (binop %s (var a) (var b))) (var c)))" % (op2, op1)))
        cases.append(("a %s (b %s c) %s d" % (op1, op2, op1),
                      "(expr (binop %s (binop %s (var a) (paren (binop %s (var b) (var c)))) (var d)))" % (op1, op1, op2)))
    ctx.rule = ("chains x1 op1 x2 … over all 21 operators: exhaustive for 1..3 operators x 3 operand shapes (literals; "
                "variables/calls/method calls/dot/::; parenthesised/strings/lists/floats/calls with chain arguments) = %d, "
                "random 4-5 operators, every operator repeated 6/8/9/12/17/40 times and long chains over 1-3 operators, 3 parenthesised patterns for every operator pair; value oracle on type-correct "
                "Int/Bool/String chains of 2..6 operators. Non-trivial = at least 3 operators (4 operands), where the "
                "one-level rotation of the pinned parser goes wrong, or explicit parentheses." % n_exh)
    srcs = [c[0] for c in cases]
    res = A.parse_both(ctx, srcs)
    bad_first = []
    for (src, want), r in zip(cases, res):
        nontrivial = src.count(" ") >= 6 or "(" in src
        ctx.case(src, nontrivial)
        impl = r["impl"]
        if "items" not in impl:
            ctx.fail("C03/parser-crash", "parser did not return a tree on an operator chain", src=src, observed=impl)
            continue
        if impl["items"] != [want] or impl["diags"]:
            ctx.fail("C03/chain-tree", "the tree of an operator chain is not the left fold (or parentheses were lost)",
                     src=src, expected=want, observed=impl["items"], diags=impl["diags"],
                     command="garden verif: ast " + common.hexs(src))
            bad_first.append(src)
        if not A.same_outcome(r):
            ctx.disagree("parse_tokens", src, r["model"], impl)
    ctx.sample({"src": cases[0][0], "impl": res[0]["impl"], "model": res[0]["model"]})
    k = min(5000, len(cases) - 1)
    ctx.sample({"src": cases[k][0], "impl": res[k]["impl"].get("items"), "expected": cases[k][1]})
    ctx.cov["tree_cases"] = len(cases)
    ctx.cov["exhaustive_cases"] = n_exh

    # ------------------------------------------------------------ value level (CLI, no hook, no model)
    chains = [(["10", "1", "1", "1"], ["-", "-", "-"])]
    for _ in range(60 if fast else ctx.scale(500, 6000)):
        chains.append(typed_chain(rng, rng.randint(2, 6)))

    for _ in range(20 if fast else ctx.scale(150, 2000)):   # + - * only: also judged by Python's left fold
        n = rng.randint(3, 6)
        chains.append(([str(rng.randint(1, 40))] + [str(rng.randint(1, 9)) for _ in range(n)],
                       [rng.choice(["+", "-", "*"]) for _ in range(n)]))

    def one(c):
        operands, ops = c
        return run_value(ctx, flat(operands, ops)), run_value(ctx, nested(operands, ops))
    outs = common.pmap(one, chains)
    n_py = 0
    for (operands, ops), ((rc1, so1, se1), (rc2, so2, se2)) in zip(chains, outs):
        src = flat(operands, ops)
        ctx.case(("value", src), len(ops) >= 3)
        cmd = "garden run -c 'println(string_repr(%s))'" % src
        if rc1 == -9999 or rc2 == -9999:
            ctx.cov["value_chains_timed_out"] = ctx.cov.get("value_chains_timed_out", 0) + 1
            continue
        if common.crashed(rc1) or common.crashed(rc2):
            ctx.fail("C03/run-crash", "garden crashed evaluating an operator chain", src=src, command=cmd, stderr=se1 or se2)
            continue
        if so1 != so2:
            ctx.fail("C03/chain-value", "x1 op x2 op … does not evaluate like ((x1 op x2) op …)",
                     src=src, command=cmd, observed=so1, expected=so2, parenthesised=nested(operands, ops))
            continue
        pv = py_fold(operands, ops)
        if pv is not None:
            n_py += 1
            if so1 != pv:
                ctx.fail("C03/chain-value-python", "chain value differs from the left fold computed independently",
                         src=src, command=cmd, observed=so1, expected=pv)
    ctx.sample({"value_chain": flat(*chains[1]), "printed": outs[1][0][1], "parenthesised_printed": outs[1][1][1]})
    ctx.cov["value_chains"] = len(chains)
    ctx.cov["value_chains_checked_against_python_fold"] = n_py
    ctx.assumptions += [
        "operands of chain_left_assoc: integer literals (every i64, intTok_of_i64), variables, calls, parenthesised "
        "chains (WF true); chain_left_assoc_all: every closed operand kind (RT.WT .closed of Props/C33.lean)",
        "the theorems are about the parser MODEL; this run ties the model to the real parser on the real tokens"]
