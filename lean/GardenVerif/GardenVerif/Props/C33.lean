import GardenVerif.Lemmas.Parse
/-!
C33 — Printing a syntax tree and parsing it gives the same tree.

`Print.printExpr` / `Print.printItems` give the canonical source text of every tree of the model, as
print tokens with explicit adjacency and newlines; `Print.lexOf` is the token list the lexer yields on
that text (the harness checks the real lexer agrees on every generated tree).

## What is proved

Main theorem `C33.parse_print` (whole files, every node kind):
  `∀ its, (∀ it ∈ its, WTI it) → IAdj its → ∃ N, ∀ fuel ≥ N,`
  `  parseItems fuel (lexOf 0 (printItems its)) = ok its ⟨all tokens consumed, no diagnostics⟩`
and, for use inside other contexts, `parse_print_stmt` (one expression / statement in any token
context), `parse_print_stmt_whole`, `parse_print_block`.  `demo_roundtrip` instantiates the main theorem
on a program with every item kind and most node kinds (`demo_wf` shows the hypotheses are satisfiable).

Covered constructors (`RT.WT`, `RT.WTI`): EVERY constructor of `Expr` except `invalid` —
intLit, floatLit, strLit, var, binop, call, mcall, dot, ns, letE (symbol and destructuring
destinations, optional type hint), assign, update (`+=`/`-=`), ifE (with and without `else`; an
`else if` is the same position-free tree as `else { if … }`, which is what the printer emits),
whileE, forIn (symbol and destructuring), matchE (patterns with and without payload, payload a symbol or
a destructuring), tryE, ret (with and without value), brk, cont, list, tuple (0, 1, n elements), dict,
structLit, lambda, assertE, paren — and EVERY constructor of `Item` — func, method, test, enum, struct,
importI (with and without alias), expr, block — with type hints of any nesting (`Name`, `Name<…>`,
tuple hints), type parameters, parameters with optional hints, visibility.

`WT` / `WTI` / `IAdj` are meant to be exactly the trees the concrete syntax can express (we know of no
expressible tree they exclude).  Their side conditions, each of them something the grammar cannot
express or reads differently:
* names are `ParseLemmas.ValidName` (symbol tokens that are not keywords, `Dict`, or the parser's
  placeholder names); a named type hint is not called `Tuple`; integer literals are i64
  (`ParseLemmas.I64`; `intTok_of_i64` proves the decimal text of every i64 reads back as that value);
  float literals are `RT.FloatTok` texts (`digits.digits`, optional `-`, no `_`); `update`'s operator is
  `+=` or `-=`; binary operators are the 21 of `gardenBinaryOps`; strings are arbitrary (`unescape ∘
  escape = id` is proved: `RT.unescapeTok_strTok`);
* positions (`RT.Kind`): receivers, callees and right operands of binary operators are closed forms
  (`closed`), left operands are chains (`chain`); `let`, assignments and `return` (`stmt`) are complete
  expressions (`full`) and may also be the right operand of the LAST operator of a chain (`a + x = 1`,
  `WT.binopStmt`), not of an inner one; a callee does not end in a dot access (`a.b(…)` is a method
  call).  A bare `return` may end any complete expression, also inside arguments, lists, conditions
  (`f(return)`): the printer then puts a newline before the separator, which the token-shape lemmas
  track (`T_then_g`);
* parameter / destructuring names are not repeated (`RT.dupFree`, as the parser's diagnostics see
  them: `_` may repeat); lambdas have no type parameters; a top-level expression does not start with
  `fun`, `method`, `test`, `enum`, `struct`, `public`, `import` (`RT.defKw`);
* `RT.Adj` / `RT.IAdj`: in a block / at top level, an expression that ends in a dot access is not
  followed by one starting with `(` (the method-call parenthesis need not touch, even across lines).

## Structure

`namespace C33` (first part): the earlier operator/call/parenthesis fragment over `ParseLemmas.WF`
(`parse_print_partial`, `parse_print_whole_partial`; C03 uses the same lemmas).
`namespace RT`: the development — total-correctness triples `Ok`, token views `D`, the operand
invariant `R` (continuation-passing: from the first token of `e` the parser gets into the trailing loop
holding `e`), the complete-expression invariants `FU` / `FS`, print facts `PF`, one lemma per node kind
(`r_*`, `fu_*`, `pf_*`), per item kind (`item_*`), the loops (`comma_ok`, `blockLoop_ok`, `matchLoop_ok`,
`itemsLoop_ok`, …), `wt_all` (induction over `WT`) and `wti_ok`.
`namespace C33` (second part): the theorems named above.

Negative integer literals: printed as the single token `-n`; the printer never glues an operator to a
literal (operators have a space on both sides), so `a - 1` and `a -1` (= `a` then literal `-1`) are
never confused.
-/

namespace C33
open Parse Print ParseLemmas

/-- **Round trip (partial: operator/call/parenthesis fragment).** For every well-formed tree `e` of
the fragment, in every context (`pre` before; `rest` after, not continuing the expression), for every
fuel above a bound depending only on `e`: parsing the lexed canonical text of `e` returns `e`,
consumes exactly its tokens and emits no diagnostic. -/
theorem parse_print_partial {e : Expr} (h : WF false e) :
    ∃ n, ∀ (fuel ln : Nat) (first : Bool) (pre rest : List Tok) (d : List DiagKind),
      n ≤ fuel → Follow rest → ChainStop rest →
      ∃ ln', parseExpression (pre ++ lexOf ln (printExpr first e) ++ rest) false fuel ⟨pre.length, d⟩ =
        .ok ⟨e, ⟨ln', pre.length + (lexOf ln (printExpr first e)).length⟩⟩
            ⟨pre.length + (lexOf ln (printExpr first e)).length, d⟩ :=
  parse_print_fragment h

/-- The same for a whole text: index 0, nothing before or after, no diagnostics at all. -/
theorem parse_print_whole_partial {e : Expr} (h : WF false e) :
    ∃ n, ∀ fuel, n ≤ fuel →
      ∃ ln', parseExpression (lexOf 0 (printExpr true e)) false fuel ⟨0, []⟩ =
        .ok ⟨e, ⟨ln', (lexOf 0 (printExpr true e)).length⟩⟩ ⟨(lexOf 0 (printExpr true e)).length, []⟩ := by
  obtain ⟨n, hn⟩ := parse_print_partial h
  refine ⟨n, fun fuel hf => ?_⟩
  have := hn fuel 0 true [] [] [] hf (by intro t h; simp at h) (by intro t h; simp at h)
  simpa using this

/-- A tree of the fragment with every node kind: `f(1, (g() + x) * 2) - -3`. -/
example : WF false
    (.binop (.call (.var "f") [.intLit 1, .binop (.paren (.binop (.call (.var "g") []) "+" (.var "x"))) "*" (.intLit 2)])
      "-" (.intLit (-3))) := by
  have i1 : I64 (1) := ⟨by decide, by decide⟩
  have i2 : I64 (2) := ⟨by decide, by decide⟩
  have i3 : I64 (-3) := ⟨by decide, by decide⟩
  have vf : ValidName "f" := ⟨by decide, by decide, by decide, by decide⟩
  have vg : ValidName "g" := ⟨by decide, by decide, by decide, by decide⟩
  have vx : ValidName "x" := ⟨by decide, by decide, by decide, by decide⟩
  refine .binop (.closed (.call (.var vf) ?_)) (by decide) (.int i3)
  intro a ha
  simp at ha
  rcases ha with rfl | rfl
  · exact .closed (.int i1)
  · refine .binop (.closed (.paren (.binop (.closed (.call (.var vg) ?_)) (by decide) (.var vx)))) (by decide) (.int i2)
    intro a ha; simp at ha

end C33

/-! ## The statement-level round trip (`RT`) -/

namespace RT
open Parse Print ParseLemmas
set_option linter.unusedSimpArgs false
set_option linter.unusedSectionVars false
set_option linter.unusedVariables false

/-! ### Total-correctness triples -/

/-- `m` run from `s` returns (no panic, enough fuel) and `Q` holds of the result. -/
def Ok {α} (m : P α) (s : St) (Q : α → St → Prop) : Prop := ∃ a s', m s = .ok a s' ∧ Q a s'

theorem ok_bind {α β} (m : P α) (f : α → P β) (Q : β → St → Prop) (s : St) :
    Ok (m >>= f) s Q ↔ Ok m s (fun a s' => Ok (f a) s' Q) := by
  simp only [Ok, bind_apply, P.bind]
  constructor
  · rintro ⟨b, s2, h, hq⟩
    cases hm : m s with
    | ok a s1 => rw [hm] at h; exact ⟨a, s1, rfl, b, s2, h, hq⟩
    | panic p => rw [hm] at h; cases h
    | outOfFuel => rw [hm] at h; cases h
  · rintro ⟨a, s1, hm, b, s2, h, hq⟩
    exact ⟨b, s2, by rw [hm]; exact h, hq⟩

theorem ok_det {α} {m : P α} {s s' : St} {a : α} (h : m s = .ok a s') (Q : α → St → Prop) : Ok m s Q ↔ Q a s' := by
  constructor
  · rintro ⟨b, s2, h2, hq⟩; rw [h] at h2; cases h2; exact hq
  · intro hq; exact ⟨a, s', h, hq⟩

theorem ok_pure {α} (a : α) (Q : α → St → Prop) (s : St) : Ok (pure a : P α) s Q ↔ Q a s := ok_det rfl Q
theorem ok_outOfFuel {α} (Q : α → St → Prop) (s : St) : Ok (outOfFuel : P α) s Q ↔ False := by
  simp [Ok, outOfFuel]
theorem ok_panic {α} (x : String) (Q : α → St → Prop) (s : St) : Ok (Parse.panic x : P α) s Q ↔ False := by
  simp [Ok, Parse.panic]
theorem ok_getIdx (Q : Nat → St → Prop) (s : St) : Ok getIdx s Q ↔ Q s.idx s := ok_det rfl Q
theorem ok_diag (k : DiagKind) (Q : Unit → St → Prop) (s : St) :
    Ok (diag k) s Q ↔ Q () { s with diags := s.diags ++ [k] } := ok_det rfl Q
theorem ok_peekAt (toks : Toks) (k : Nat) (Q : Option TokI → St → Prop) (s : St) :
    Ok (peekAt toks k) s Q ↔ Q ((toks[s.idx + k]?).map fun t => ⟨t, s.idx + k⟩) s := ok_det rfl Q
theorem ok_peek (toks : Toks) (Q : Option TokI → St → Prop) (s : St) :
    Ok (peek toks) s Q ↔ Q ((toks[s.idx]?).map fun t => ⟨t, s.idx⟩) s := ok_det (by simp [peek, peekAt]) Q
theorem ok_peekIs (toks : Toks) (x : String) (Q : Bool → St → Prop) (s : St) :
    Ok (peekIs toks x) s Q ↔ Q (match toks[s.idx]? with | some t => t.text == x | none => false) s := by
  exact ok_det rfl Q
theorem ok_pop (toks : Toks) (Q : Option TokI → St → Prop) (s : St) :
    Ok (pop toks) s Q ↔ (match toks[s.idx]? with
      | some t => Q (some ⟨t, s.idx⟩) { s with idx := s.idx + 1 }
      | none => Q none s) := by
  cases h : toks[s.idx]? with
  | none => exact ok_det (by simp [pop, h]) Q
  | some t => exact ok_det (by simp [pop, h]) Q
theorem ok_prev (toks : Toks) (Q : Option TokI → St → Prop) (s : St) :
    Ok (prev toks) s Q ↔ Q (if s.idx = 0 then none else (toks[s.idx - 1]?).map fun t => ⟨t, s.idx - 1⟩) s := by
  exact ok_det rfl Q
theorem ok_ite {α} (c : Prop) [Decidable c] (a b : P α) (Q : α → St → Prop) (s : St) :
    Ok (if c then a else b) s Q ↔ (if c then Ok a s Q else Ok b s Q) := by
  split <;> rfl
theorem ok_mono {α} {m : P α} {Q Q' : α → St → Prop} {s : St} (h : Ok m s Q) (hq : ∀ a s', Q a s' → Q' a s') :
    Ok m s Q' := by
  obtain ⟨a, s', h1, h2⟩ := h; exact ⟨a, s', h1, hq a s' h2⟩
theorem ok_of_eq {α} {m : P α} {s s' : St} {a : α} {Q : α → St → Prop} (h : m s = .ok a s') (hq : Q a s') :
    Ok m s Q := ⟨a, s', h, hq⟩

macro "oksimp" : tactic =>
  `(tactic| simp only [ok_bind, ok_pure, ok_outOfFuel, ok_panic, ok_getIdx, ok_diag, ok_peek, ok_peekAt, ok_peekIs,
      ok_pop, ok_prev, ok_ite, Nat.add_zero, Option.map_some, Option.map_none,
      Option.isNone_some, Option.isNone_none, Bool.not_false, Bool.not_true, Bool.true_and, Bool.false_and,
      Bool.and_true, Bool.and_false, Bool.false_eq_true, ↓reduceIte])

/-! ### Views of the remaining tokens -/

/-- From index `i` on, the tokens are `l`. -/
def D (toks : Toks) (i : Nat) (l : List Tok) : Prop := toks.drop i = l

theorem D.head {toks : Toks} {i : Nat} {t : Tok} {l : List Tok} (h : D toks i (t :: l)) : toks[i]? = some t := by
  have : (toks.drop i)[0]? = some t := by rw [h]; rfl
  simpa using this

theorem D.tail {toks : Toks} {i : Nat} {t : Tok} {l : List Tok} (h : D toks i (t :: l)) : D toks (i + 1) l := by
  unfold D at *
  rw [← List.drop_drop, h]; rfl

theorem D.skip {toks : Toks} {i : Nat} {a l : List Tok} (h : D toks i (a ++ l)) : D toks (i + a.length) l := by
  unfold D at *
  rw [← List.drop_drop, h]; simp

theorem D.nil {toks : Toks} {i : Nat} (h : D toks i []) : toks[i]? = none := by
  unfold D at h
  have : (toks.drop i)[0]? = none := by rw [h]; rfl
  simpa using this

theorem D.head? {toks : Toks} {i : Nat} {l : List Tok} (h : D toks i l) : toks[i]? = l.head? := by
  cases l with
  | nil => exact h.nil
  | cons t l => exact h.head

theorem D.second {toks : Toks} {i : Nat} {t : Tok} {l : List Tok} (h : D toks i (t :: l)) :
    toks[i + 1]? = l.head? := h.tail.head?

/-- A token on line `l`. -/
def tk (s : String) (touch : Bool) (l : Nat) : Tok := ⟨s, touch, l, l⟩

@[simp] theorem tk_text (s : String) (b : Bool) (l : Nat) : (tk s b l).text = s := rfl
@[simp] theorem tk_touch (s : String) (b : Bool) (l : Nat) : (tk s b l).touchesPrev = b := rfl
@[simp] theorem tk_line (s : String) (b : Bool) (l : Nat) : (tk s b l).line = l := rfl
@[simp] theorem tk_endLine (s : String) (b : Bool) (l : Nat) : (tk s b l).endLine = l := rfl

/-! ### `lexAux` over concatenations -/

/-- number of newlines -/
def nlc : List PTok → Nat
  | [] => 0
  | .nl :: r => nlc r + 1
  | .t _ _ :: r => nlc r

/-- does the next token start a line? -/
def fl (b : Bool) : List PTok → Bool
  | [] => b
  | .nl :: r => fl true r
  | .t _ _ :: r => fl false r

theorem lexAux_append (b : Bool) (ln : Nat) (a c : List PTok) :
    lexAux b ln (a ++ c) = lexAux b ln a ++ lexAux (fl b a) (ln + nlc a) c := by
  induction a generalizing b ln with
  | nil => simp [lexAux, fl, nlc]
  | cons p a ih =>
    cases p with
    | t s touch => simp [lexAux, fl, nlc, ih]
    | nl =>
      simp only [List.cons_append, lexAux, fl, nlc, ih]
      congr 2; omega

theorem nlc_append (a c : List PTok) : nlc (a ++ c) = nlc a + nlc c := by
  induction a with
  | nil => simp [nlc]
  | cons p a ih => cases p <;> simp [nlc, ih] <;> omega

theorem fl_append (b : Bool) (a c : List PTok) : fl b (a ++ c) = fl (fl b a) c := by
  induction a generalizing b with
  | nil => simp [fl]
  | cons p a ih => cases p <;> simp [fl, ih]

theorem lexAux_tok (b : Bool) (ln : Nat) (s : String) (touch : Bool) (r : List PTok) :
    lexAux b ln (.t s touch :: r) = tk s (touch && !b) ln :: lexAux false ln r := rfl

theorem lexAux_nl (b : Bool) (ln : Nat) (r : List PTok) : lexAux b ln (.nl :: r) = lexAux true (ln + 1) r := rfl

/-! ### Definitions of the round-trip invariants -/

def T (ln : Nat) (first : Bool) (e : Expr) : List Tok := lexAux false ln (printExpr first e)
/-- newlines in the canonical text of `e` -/
def pnl (e : Expr) : Nat := nlc (printExpr false e)

/-- First printed tokens that never continue / terminate anything. -/
def badFirst : List String :=
  [")", "]", "}", ",", "=", "+=", "-=", ".", "::", "=>", ":", "{", "else", "catch", "in", "as"] ++ gardenBinaryOps

/-- Does `e` end in a dot access (then a following `(` would be read as a method call)? -/
def endsDot : Expr → Bool
  | .dot _ _ => true
  | .binop _ _ r => endsDot r
  | .letE _ _ e => endsDot e
  | .assign _ e => endsDot e
  | .update _ _ e => endsDot e
  | .ret (some e) => endsDot e
  | _ => false

/-- Does `e` end in a bare `return` (then the next token must be on a later line)? -/
def tailRet : Expr → Bool
  | .ret none => true
  | .binop _ _ r => tailRet r
  | .ret (some e) => tailRet e
  | .letE _ _ e => tailRet e
  | .assign _ e => tailRet e
  | .update _ _ e => tailRet e
  | _ => false

/-- What may follow the tokens of an operand (it is then back in the trailing loop). -/
def Fol (e : Expr) (rest : List Tok) : Prop :=
  ∀ t, rest.head? = some t →
    t.text ≠ "=" ∧ t.text ≠ "+=" ∧ t.text ≠ "-=" ∧ ¬ (t.text = "{" ∧ t.touchesPrev = true) ∧
    (endsDot e = true → t.text ≠ "(") ∧ t.text ≠ "else"

/-- What may follow a complete expression: nothing that the trailing loop would take. -/
def Stop (e : Expr) (ln : Nat) (rest : List Tok) : Prop :=
  ∀ t, rest.head? = some t →
    t.text ≠ "=" ∧ t.text ≠ "+=" ∧ t.text ≠ "-=" ∧ ¬ (t.text = "{" ∧ t.touchesPrev = true) ∧
    (endsDot e = true → t.text ≠ "(") ∧
    ¬ (t.text = "(" ∧ t.touchesPrev = true) ∧ t.text ≠ "." ∧ t.text ≠ "::" ∧
    gardenBinaryOps.contains t.text = false ∧
    (tailRet e = true → ln + pnl e ≤ t.line) ∧ t.text ≠ "else"

theorem Stop.fol {e : Expr} {ln : Nat} {rest : List Tok} (h : Stop e ln rest) : Fol e rest := by
  intro t ht; have := h t ht
  exact ⟨this.1, this.2.1, this.2.2.1, this.2.2.2.1, this.2.2.2.2.1, this.2.2.2.2.2.2.2.2.2.2⟩

/-- What stops the postfix part of the trailing loop. -/
def PStop (rest : List Tok) : Prop :=
  ∀ t, rest.head? = some t → ¬ (t.text = "(" ∧ t.touchesPrev = true) ∧ t.text ≠ "." ∧ t.text ≠ "::"

theorem Stop.pstop {e : Expr} {ln : Nat} {rest : List Tok} (h : Stop e ln rest) : PStop rest := by
  intro t ht; have := h t ht; exact ⟨this.2.2.2.2.2.1, this.2.2.2.2.2.2.1, this.2.2.2.2.2.2.2.1⟩

/-- After the tokens of `e`: in the trailing loop holding `e`, with any start line and any fuel ≥ `lb`. -/
def After (toks : Toks) (b : Bool) (lb : Nat) (e : Expr) (j : Nat) (d : List DiagKind)
    {α : Type} (Q : PExpr → St → Prop) : Prop :=
  ∀ ln' fuel', lb ≤ fuel' → Ok (trailing toks false b fuel' ⟨e, ⟨ln', j⟩⟩) ⟨j, d⟩ Q

/-- Operand invariant (`c = true`: for both settings of the infix flag; `c = false`: a chain, flag on):
from the first token of `e` the parser gets into the trailing loop holding `e` just after its
tokens, spending at most `n` fuel. -/
def R (c : Bool) (e : Expr) (n : Nat) : Prop :=
  ∀ (b : Bool) (fuel ln : Nat) (first : Bool) (i : Nat) (rest : List Tok) (d : List DiagKind) (toks : Toks)
    (Q : PExpr → St → Prop),
    (c = false → b = true) → n ≤ fuel → D toks i (T ln first e ++ rest) → Fol e rest →
    (c = false → PStop rest) →
    After toks b (fuel - n) e (i + (T ln first e).length) d (α := Unit) Q →
    Ok (parseExpressionT toks false b fuel) ⟨i, d⟩ Q

/-- The exact result of a complete expression. -/
def Res1 (e : Expr) (j : Nat) (d : List DiagKind) : PExpr → St → Prop :=
  fun r s' => r.e = e ∧ r.pos.endPos = j ∧ s' = ⟨j, d⟩

/-- Complete-expression invariant: `parse_expression` returns exactly `e`, just after its tokens, no
new diagnostics. -/
def FU (e : Expr) (n : Nat) : Prop :=
  ∀ (fuel ln : Nat) (first : Bool) (i : Nat) (rest : List Tok) (d : List DiagKind) (toks : Toks),
    n ≤ fuel → D toks i (T ln first e ++ rest) → Stop e ln rest →
    Ok (parseExpressionT toks false true fuel) ⟨i, d⟩ (Res1 e (i + (T ln first e).length) d)

theorem R.mono {c e n m} (h : R c e n) (hnm : n ≤ m) : R c e m := by
  intro b fuel ln first i rest d toks Q hb hf hD hfo hp ha
  exact h b fuel ln first i rest d toks Q hb (by omega) hD hfo hp (fun ln' fuel' hl => ha ln' fuel' (by omega))

theorem FU.mono {e n m} (h : FU e n) (hnm : n ≤ m) : FU e m := by
  intro fuel ln first i rest d toks hf hD hs
  exact h fuel ln first i rest d toks (by omega) hD hs

/-- Statement invariant: like `FU`, for both settings of the infix flag (a `let`, assignment or `return`
may also be the right operand of the last operator of a chain: `a + x = 1`). -/
def FS (e : Expr) (n : Nat) : Prop :=
  ∀ (b : Bool) (fuel ln : Nat) (first : Bool) (i : Nat) (rest : List Tok) (d : List DiagKind) (toks : Toks),
    n ≤ fuel → D toks i (T ln first e ++ rest) → Stop e ln rest →
    Ok (parseExpressionT toks false b fuel) ⟨i, d⟩ (Res1 e (i + (T ln first e).length) d)

theorem FS.fu {e n} (h : FS e n) : FU e n := h true

/-- The trailing loop stops at a `Stop` context. -/
theorem trailing_stop' (toks : Toks) (b : Bool) (fuel j : Nat) (d : List DiagKind) (pe : PExpr) (e : Expr) (ln : Nat)
    (rest : List Tok) (hD : D toks j rest) (hs : Stop e ln rest) :
    trailing toks false b (fuel + 1) pe ⟨j, d⟩ = .ok pe ⟨j, d⟩ := by
  rw [trailing]
  cases h3 : toks[j]? with
  | none => simp [bind_apply, P.bind, pure_apply, peek, peekAt, getIdx, h3]
  | some t =>
    rw [hD.head?] at h3
    obtain ⟨_, _, _, _, _, a1, a2, a3, a4, _, _⟩ := hs t h3
    have a5 : t.text ∉ gardenBinaryOps := by simpa using a4
    have a1' : (t.text == "(" && pe.pos.endPos == j && t.touchesPrev) = false := by
      cases hx : (t.text == "(" && pe.pos.endPos == j && t.touchesPrev) with
      | false => rfl
      | true =>
        simp only [Bool.and_eq_true, beq_iff_eq] at hx
        exact absurd ⟨hx.1.1, hx.2⟩ a1
    have hget : toks[j]? = some t := by rw [hD.head?]; exact h3
    have a1'' : ¬ ((t.text = "(" ∧ pe.pos.endPos = j) ∧ t.touchesPrev = true) := fun hx => a1 ⟨hx.1.1, hx.2⟩
    simp [bind_apply, P.bind, pure_apply, peek, peekAt, getIdx, hget, TokI.text, a1'', a2, a3, a5]

/-- The operand parser's trailing loop (infix flag off) stops at a `PStop` context. -/
theorem trailing_pstop (toks : Toks) (fuel j : Nat) (d : List DiagKind) (pe : PExpr)
    (rest : List Tok) (hD : D toks j rest) (hs : PStop rest) :
    trailing toks false false (fuel + 1) pe ⟨j, d⟩ = .ok pe ⟨j, d⟩ := by
  rw [trailing]
  cases h3 : toks[j]? with
  | none => simp [bind_apply, P.bind, pure_apply, peek, peekAt, getIdx, h3]
  | some t =>
    rw [hD.head?] at h3
    obtain ⟨a1, a2, a3⟩ := hs t h3
    have hget : toks[j]? = some t := by rw [hD.head?]; exact h3
    have a1'' : ¬ ((t.text = "(" ∧ pe.pos.endPos = j) ∧ t.touchesPrev = true) := fun hx => a1 ⟨hx.1.1, hx.2⟩
    simp [bind_apply, P.bind, pure_apply, peek, peekAt, getIdx, hget, TokI.text, a1'', a2, a3]

/-- A complete chain: from `R false` and a `Stop` context. -/
theorem FU.of_R {c : Bool} {e : Expr} {n : Nat} (h : R c e n) : FU e (n + 1) := by
  intro fuel ln first i rest d toks hf hD hs
  refine h true fuel ln first i rest d toks _ (fun _ => rfl) (by omega) hD hs.fol (fun _ => hs.pstop) ?_
  intro ln' fuel' hl
  obtain ⟨k, rfl⟩ : ∃ k, fuel' = k + 1 := ⟨fuel' - 1, by omega⟩
  exact ok_of_eq (trailing_stop' toks true k _ d _ e ln rest hD.skip hs) ⟨rfl, rfl, rfl⟩

theorem T_var (ln : Nat) (first : Bool) (x : String) : T ln first (.var x) = [tk x first ln] := by
  simp [T, printExpr, lexAux, tk]
theorem T_int (ln : Nat) (first : Bool) (i : Int) : T ln first (.intLit i) = [tk (toString i) first ln] := by
  simp [T, printExpr, lexAux, tk]

theorem fol_second {e : Expr} {rest : List Tok} (h : Fol e rest) (t2 : Tok) (h2 : rest.head? = some t2) :
    (t2.text ≠ "=" ∧ t2.text ≠ "+=" ∧ t2.text ≠ "-=") ∧ ¬ (t2.text = "{" ∧ t2.touchesPrev = true) := by
  have := h t2 h2
  exact ⟨⟨this.1, this.2.1, this.2.2.1⟩, this.2.2.2.1⟩

theorem ok_exprT {toks : Toks} {b : Bool} {fuel : Nat} {s s' : St} {pe : PExpr} {Q : PExpr → St → Prop}
    (h : parseNoTrailing toks false fuel s = .ok pe s') (hq : Ok (trailing toks false b fuel pe) s' Q) :
    Ok (parseExpressionT toks false b (fuel + 1)) s Q := by
  unfold Ok at *
  rw [exprT_of_noTrailing toks b fuel s s' pe h]
  exact hq

theorem r_var {x : String} (hx : ValidName x) : R true (.var x) 3 := by
  intro b fuel ln first i rest d toks Q _ hf hD hfo _ ha
  obtain ⟨f, rfl⟩ : ∃ f, fuel = f + 3 := ⟨fuel - 3, by omega⟩
  rw [T_var] at hD ha
  have h0 := hD.head
  have h1 := hD.second
  have hnt : parseNoTrailing toks false (f + 2) ⟨i, d⟩ = .ok ⟨.var x, ⟨ln, i + 1⟩⟩ ⟨i + 1, d⟩ := by
    rw [noTrailing_simple toks (f + 1) i d _ h0 hx.notStmt (fun t2 h2 => (fol_second hfo t2 (h1 ▸ h2)).1)]
    simpa using simple_var toks f i d _ h0 hx (fun t2 h2 => (fol_second hfo t2 (h1 ▸ h2)).2)
  exact ok_exprT hnt (ha ln (f + 2) (by omega))

theorem r_int {v : Int} (hv : IntTok (toString v) v) : R true (.intLit v) 3 := by
  intro b fuel ln first i rest d toks Q _ hf hD hfo _ ha
  obtain ⟨f, rfl⟩ : ∃ f, fuel = f + 3 := ⟨fuel - 3, by omega⟩
  rw [T_int] at hD ha
  have h0 := hD.head
  have h1 := hD.second
  have hnt : parseNoTrailing toks false (f + 2) ⟨i, d⟩ = .ok ⟨.intLit v, ⟨ln, i + 1⟩⟩ ⟨i + 1, d⟩ := by
    rw [noTrailing_simple toks (f + 1) i d _ h0 hv.notStmt (fun t2 h2 => (fol_second hfo t2 (h1 ▸ h2)).1)]
    simpa using simple_int toks f i d _ v h0 hv
  exact ok_exprT hnt (ha ln (f + 2) (by omega))

/-- Facts about the canonical text of `e`: it starts with a token that does not depend on `first` except
for its flag, that token is not one of `badFirst`, and it ends with a newline exactly if `e` ends in a bare
`return`. -/
structure PF (e : Expr) : Prop where
  hd : ∃ s tl, (∀ first, printExpr first e = .t s first :: tl) ∧ s ∉ badFirst
  fl : ∀ b first, fl b (printExpr first e) = tailRet e
  ninv : e.isInvalidOrPlaceholder = false

theorem PF.nlc {e : Expr} (h : PF e) (first : Bool) : nlc (printExpr first e) = pnl e := by
  obtain ⟨s, tl, h1, _⟩ := h.hd
  simp [pnl, h1, RT.nlc]

/-- Tokens of `A ++ B` when `A` is the text of an expression that does not end in a newline. -/
theorem T_then {e : Expr} (h : PF e) (ht : tailRet e = false) (ln : Nat) (first : Bool) (B : List PTok) :
    lexAux false ln (printExpr first e ++ B) = T ln first e ++ lexAux false (ln + pnl e) B := by
  rw [lexAux_append, h.fl, ht, h.nlc]; rfl

theorem T_then' {e : Expr} (h : PF e) (ln : Nat) (first : Bool) (B : List PTok) :
    lexAux false ln (printExpr first e ++ B) = T ln first e ++ lexAux (tailRet e) (ln + pnl e) B := by
  rw [lexAux_append, h.fl, h.nlc]; rfl

/-- Tokens of `A ++ s B` (`s` not glued): the line of `s` and its flag do not depend on how `e` ends. -/
theorem T_then_w {e : Expr} (h : PF e) (ln : Nat) (first : Bool) (s : String) (B : List PTok) :
    lexAux false ln (printExpr first e ++ (PTok.t s false :: B)) =
      T ln first e ++ tk s false (ln + pnl e) :: lexAux false (ln + pnl e) B := by
  rw [T_then' h, lexAux_tok]; simp

/-- Tokens of `A ++ s B` (`s` glued): after a bare `return` the newline un-glues `s`. -/
theorem T_then_g {e : Expr} (h : PF e) (ln : Nat) (first : Bool) (s : String) (B : List PTok) :
    lexAux false ln (printExpr first e ++ (PTok.t s true :: B)) =
      T ln first e ++ tk s (!tailRet e) (ln + pnl e) :: lexAux false (ln + pnl e) B := by
  rw [T_then' h, lexAux_tok]; simp

theorem T_head {e : Expr} (h : PF e) (ln : Nat) (first : Bool) :
    ∃ s tl, T ln first e = tk s first ln :: tl ∧ s ∉ badFirst := by
  obtain ⟨s, tl, h1, h2⟩ := h.hd
  exact ⟨s, lexAux false ln tl, by simp [T, h1, lexAux, tk], h2⟩

theorem T_pos {e : Expr} (h : PF e) (ln : Nat) (first : Bool) : 0 < (T ln first e).length := by
  obtain ⟨s, tl, h1, _⟩ := T_head h ln first
  simp [h1]

theorem r_dot {r : Expr} {f : String} {nr : Nat} (hr : R true r nr) (pr : PF r) (tr : tailRet r = false)
    (hf : ValidName f) : R true (.dot r f) (nr + 2) := by
  intro b fuel ln first i rest d toks Q _ hfu hD hfo _ ha
  have hT : T ln first (.dot r f) = T ln first r ++ [tk "." true (ln + pnl r), tk f true (ln + pnl r)] := by
    simp only [T, printExpr]
    rw [T_then pr tr]
    simp [lexAux, tk, g, T]
  rw [hT] at hD ha
  have hD' : D toks i (T ln first r ++ (tk "." true (ln + pnl r) :: tk f true (ln + pnl r) :: rest)) := by
    simpa [List.append_assoc] using hD
  refine hr b fuel ln first i _ d toks Q (fun h => by cases h) (by omega) hD' ?_ (fun h => by cases h) ?_
  · intro t ht; simp at ht; subst ht; simp
  · intro ln' fuel' hl
    obtain ⟨k, rfl⟩ : ∃ k, fuel' = k + 1 := ⟨fuel' - 1, by omega⟩
    have hD1 := hD'.skip
    have h0 := hD1.head
    have hD2 := hD1.tail
    have h1 := hD2.head
    have hD3 := hD2.tail
    have hnext := hD3.head?
    have hsym := parseSymbol_ok toks (i + (T ln first r).length + 1) d _ h1 hf
    have hnp : (match toks[i + (T ln first r).length + 1 + 1]? with | some t => t.text == "(" | none => false) = false := by
      rw [hnext]
      cases hr' : rest.head? with
      | none => rfl
      | some t => simp; exact (hfo t hr').2.2.2.2.1 rfl
    rw [trailing]
    oksimp
    simp only [h0, Option.map_some, TokI.text, tk_text, tk_touch, h1]
    simp only [show (("." : String) == "(") = false by decide, show (("." : String) == ".") = true by decide,
      Bool.false_and, Bool.false_eq_true, ↓reduceIte]
    oksimp
    simp only [h0, h1, Option.map_some, tk_touch, ↓reduceIte]
    rw [ok_det hsym]
    have hlt : i + (T ln first r).length < i + (T ln first r).length + 1 + 1 := by omega
    simp only [hnp, Bool.false_eq_true, ↓reduceIte, gt_iff_lt, hlt, tk_text, tk_line, Pos.merge]
    have := ha ln' k (by omega)
    have e1 : max (i + (T ln first r).length) (i + (T ln first r).length + 1 + 1)
        = i + (T ln first r ++ [tk "." true (ln + pnl r), tk f true (ln + pnl r)]).length := by simp; omega
    have e2 : i + (T ln first r).length + 1 + 1
        = i + (T ln first r ++ [tk "." true (ln + pnl r), tk f true (ln + pnl r)]).length := by simp; omega
    rw [e1, e2]
    exact this

theorem r_ns {r : Expr} {f : String} {nr : Nat} (hr : R true r nr) (pr : PF r) (tr : tailRet r = false)
    (hf : ValidName f) : R true (.ns r f) (nr + 2) := by
  intro b fuel ln first i rest d toks Q _ hfu hD hfo _ ha
  have hT : T ln first (.ns r f) = T ln first r ++ [tk "::" true (ln + pnl r), tk f true (ln + pnl r)] := by
    simp only [T, printExpr]
    rw [T_then pr tr]
    simp [lexAux, tk, g, T]
  rw [hT] at hD ha
  have hD' : D toks i (T ln first r ++ (tk "::" true (ln + pnl r) :: tk f true (ln + pnl r) :: rest)) := by
    simpa [List.append_assoc] using hD
  refine hr b fuel ln first i _ d toks Q (fun h => by cases h) (by omega) hD' ?_ (fun h => by cases h) ?_
  · intro t ht; simp at ht; subst ht; simp
  · intro ln' fuel' hl
    obtain ⟨k, rfl⟩ : ∃ k, fuel' = k + 1 := ⟨fuel' - 1, by omega⟩
    have hD1 := hD'.skip
    have h0 := hD1.head
    have hD2 := hD1.tail
    have h1 := hD2.head
    have hsym := parseSymbol_ok toks (i + (T ln first r).length + 1) d _ h1 hf
    rw [trailing]
    oksimp
    simp only [h0, Option.map_some, TokI.text, tk_text, tk_touch, h1]
    simp only [show (("::" : String) == "(") = false by decide, show (("::" : String) == ".") = false by decide,
      show (("::" : String) == "::") = true by decide, Bool.false_and, Bool.false_eq_true, ↓reduceIte]
    oksimp
    simp only [h0, h1, Option.map_some, tk_touch, ↓reduceIte]
    rw [ok_det hsym]
    have hlt : i + (T ln first r).length < i + (T ln first r).length + 1 + 1 := by omega
    simp only [gt_iff_lt, hlt, ↓reduceIte, tk_text, tk_line, Pos.merge]
    have := ha ln' k (by omega)
    have e1 : max (i + (T ln first r).length) (i + (T ln first r).length + 1 + 1)
        = i + (T ln first r ++ [tk "::" true (ln + pnl r), tk f true (ln + pnl r)]).length := by simp; omega
    have e2 : i + (T ln first r).length + 1 + 1
        = i + (T ln first r ++ [tk "::" true (ln + pnl r), tk f true (ln + pnl r)]).length := by simp; omega
    rw [e1, e2]
    exact this

/-- `a op b` where `a` is a chain and `b` an operand. -/
theorem r_binop {l r : Expr} {op : String} {nl nr : Nat} (hl : R false l nl) (hr : R true r nr)
    (pl : PF l) (tl : tailRet l = false) (pr : PF r)
    (hop : gardenBinaryOps.contains op = true) : R false (.binop l op r) (nl + nr + 3) := by
  intro b fuel ln first i rest d toks Q hb hfu hD hfo hps ha
  have hb' : b = true := hb rfl
  subst hb'
  obtain ⟨o1, o2, o3, o4, o5, o6, o7, _, _⟩ := binop_ne hop
  have hmem : op ∈ gardenBinaryOps := by simpa using hop
  have oe : op ≠ "else" := by intro e; subst e; revert hop; decide
  have hT : T ln first (.binop l op r) = T ln first l ++ tk op false (ln + pnl l) :: T (ln + pnl l) false r := by
    simp only [T, printExpr]
    rw [List.append_assoc, T_then pl tl]
    simp [lexAux, tk, w, T]
  rw [hT] at hD ha
  have hD' : D toks i (T ln first l ++ (tk op false (ln + pnl l) :: (T (ln + pnl l) false r ++ rest))) := by
    simpa [List.append_assoc] using hD
  refine hl true fuel ln first i _ d toks Q (fun _ => rfl) (by omega) hD' ?_ ?_ ?_
  · intro t ht; simp at ht; subst ht; simp [o4, o5, o6, o7, o1, oe]
  · intro _ t ht; simp at ht; subst ht; simp [o1, o2, o3]
  · intro ln' fuel' hl'
    obtain ⟨k, rfl⟩ : ∃ k, fuel' = k + 1 := ⟨fuel' - 1, by omega⟩
    have hD1 := hD'.skip
    have h0 := hD1.head
    have hD2 := hD1.tail
    rw [trailing]
    oksimp
    simp only [h0, Option.map_some, TokI.text, tk_text, tk_touch]
    simp only [beq_iff_eq, o1, o2, o3, false_and, Bool.false_and, Bool.false_eq_true, ↓reduceIte, hmem, List.contains_iff_mem,
      List.elem_eq_mem, decide_true, decide_false]
    oksimp
    simp only [h0]
    -- the right operand, parsed without infix operators
    refine hr false k (ln + pnl l) false (i + (T ln first l).length + 1) rest d toks _ (fun h => by cases h) (by omega)
      hD2 ?_ (fun h => by cases h) ?_
    · intro t ht
      have := hfo t ht
      refine ⟨this.1, this.2.1, this.2.2.1, this.2.2.2.1, fun hd => this.2.2.2.2.1 ?_, this.2.2.2.2.2⟩
      simpa [endsDot] using hd
    · intro ln2 fuel2 hl2
      obtain ⟨k2, rfl⟩ : ∃ k2, fuel2 = k2 + 1 := ⟨fuel2 - 1, by omega⟩
      -- the operand parser's trailing loop stops: the next token does not continue a postfix chain
      have hD3 := hD2.skip
      have hstop : trailing toks false false (k2 + 1) ⟨r, ⟨ln2, i + (T ln first l).length + 1 + (T (ln + pnl l) false r).length⟩⟩
          ⟨i + (T ln first l).length + 1 + (T (ln + pnl l) false r).length, d⟩ = .ok _ _ :=
        trailing_pstop toks k2 _ d _ rest hD3 (hps rfl)
      rw [ok_det hstop]
      have hlt : i + (T ln first l).length < i + (T ln first l).length + 1 + (T (ln + pnl l) false r).length := by omega
      simp only [gt_iff_lt, hlt, ↓reduceIte, Pos.merge]
      have := ha ln' k (by omega)
      have e1 : max (i + (T ln first l).length) (i + (T ln first l).length + 1 + (T (ln + pnl l) false r).length)
          = i + (T ln first l ++ tk op false (ln + pnl l) :: T (ln + pnl l) false r).length := by simp; omega
      have e2 : i + (T ln first l).length + 1 + (T (ln + pnl l) false r).length
          = i + (T ln first l ++ tk op false (ln + pnl l) :: T (ln + pnl l) false r).length := by simp; omega
      rw [e1, e2]
      exact this

/-! ### Comma-separated expressions -/

theorem stop_sep {e : Expr} {ln : Nat} {x : String} {tt : Bool} {lt : Nat} {rest : List Tok}
    (hx : x = "," ∨ x = ")" ∨ x = "]" ∨ x = "}" ∨ x = "=>") (ht : tailRet e = false) :
    Stop e ln (tk x tt lt :: rest) := by
  intro t h
  simp at h; subst h
  rcases hx with rfl | rfl | rfl | rfl | rfl <;> simp [ht] <;> decide

theorem stop_sep' {e : Expr} {ln : Nat} {x : String} {tt : Bool} {lt : Nat} {rest : List Tok}
    (hx : x = "," ∨ x = ")" ∨ x = "]" ∨ x = "}" ∨ x = "=>") (hl : ln + pnl e ≤ lt) :
    Stop e ln (tk x tt lt :: rest) := by
  intro t h
  simp at h; subst h
  simp only [tk_text, tk_touch, tk_line]
  rcases hx with rfl | rfl | rfl | rfl | rfl <;>
    exact ⟨by decide, by decide, by decide, by simp, fun _ => by decide, by simp, by decide, by decide, by decide,
      fun _ => hl, by decide⟩

theorem not_badFirst {s x : String} (h : s ∉ badFirst) (hx : x ∈ badFirst) : (s == x) = false := by
  cases hb : (s == x) with
  | false => rfl
  | true => have : s = x := by simpa using hb
            subst this; exact absurd hx h

theorem comma_ok (args : List Expr) (hfu : ∀ a ∈ args, ∃ n, FU a n) (hpf : ∀ a ∈ args, PF a) :
    ∃ N, ∀ (fuel ln : Nat) (first : Bool) (i : Nat) (rest : List Tok) (d : List DiagKind) (toks : Toks)
      (acc : List Expr) (ol : Nat) (term : String) (tt : Bool) (lt : Nat),
      N ≤ fuel → (term = ")" ∨ term = "]") → ln + nlc (printArgs first args) ≤ lt →
      D toks i (lexAux false ln (printArgs first args) ++ tk term tt lt :: rest) →
      Ok (commaSep toks false fuel ol term acc) ⟨i, d⟩
        (fun r s' => r = acc ++ args ∧ s' = ⟨i + (lexAux false ln (printArgs first args)).length, d⟩) := by
  induction args with
  | nil =>
    refine ⟨1, ?_⟩
    intro fuel ln first i rest d toks acc ol term tt lt hf hterm hline hD
    obtain ⟨f, rfl⟩ : ∃ f, fuel = f + 1 := ⟨fuel - 1, by omega⟩
    simp only [printArgs, lexAux, List.nil_append] at hD ⊢
    have h0 := hD.head
    rw [commaSep]
    oksimp
    simp [h0]
  | cons a rest' ih =>
    obtain ⟨na, hna⟩ := hfu a (List.mem_cons_self ..)
    have pa := hpf a (List.mem_cons_self ..)
    obtain ⟨N', hN'⟩ := ih (fun x hx => hfu x (List.mem_cons_of_mem _ hx)) (fun x hx => hpf x (List.mem_cons_of_mem _ hx))
    refine ⟨na + N' + 2, ?_⟩
    intro fuel ln first i rest d toks acc ol term tt lt hf hterm hline hD
    obtain ⟨f, rfl⟩ : ∃ f, fuel = f + 1 := ⟨fuel - 1, by omega⟩
    obtain ⟨s0, tl0, hT0, hbad⟩ := T_head pa ln first
    have hterm_bad : term ∈ badFirst := by rcases hterm with rfl | rfl <;> decide
    have hne : (s0 == term) = false := not_badFirst hbad hterm_bad
    have hpos := T_pos pa ln first
    have hc1 : (term == ",") = false := by rcases hterm with rfl | rfl <;> decide
    cases rest' with
    | nil =>
      have hP : lexAux false ln (printArgs first [a]) = T ln first a := by simp [printArgs, T]
      rw [hP] at hD ⊢
      have h0 : toks[i]? = some (tk s0 first ln) := by
        have := hD.head?; rw [hT0] at this; simpa using this
      have hline' : ln + pnl a ≤ lt := by
        have : nlc (printArgs first [a]) = pnl a := by simp [printArgs, pa.nlc]
        omega
      have hres := hna f ln first i (tk term tt lt :: rest) d toks (by omega) hD
        (stop_sep' (by rcases hterm with rfl | rfl <;> simp) hline')
      have hclose := hD.skip.head
      rw [commaSep]
      oksimp
      simp only [h0, tk_text, hne, Bool.false_eq_true, ↓reduceIte]
      refine ok_mono hres ?_
      rintro r s1 ⟨hr1, hr2, rfl⟩
      have hlt : i < i + (T ln first a).length := by omega
      simp only [hr1, pa.ninv, Bool.false_eq_true, ↓reduceIte, gt_iff_lt, hlt, decide_true, Bool.not_true, hclose,
        Option.map_some, TokI.text, tk_text, hc1, bne_self_eq_false]
      oksimp
      simp
    | cons a2 r2 =>
      have hpa : printArgs first (a :: a2 :: r2) = printExpr first a ++ (PTok.t "," true :: printArgs false (a2 :: r2)) := by
        simp [printArgs, g]
      have hP : lexAux false ln (printArgs first (a :: a2 :: r2)) =
          T ln first a ++ tk "," (!tailRet a) (ln + pnl a) :: lexAux false (ln + pnl a) (printArgs false (a2 :: r2)) := by
        rw [hpa, T_then_g pa]
      have hline' : ln + pnl a + nlc (printArgs false (a2 :: r2)) ≤ lt := by
        have : nlc (printArgs first (a :: a2 :: r2)) = pnl a + nlc (printArgs false (a2 :: r2)) := by
          rw [hpa, nlc_append, pa.nlc]; rfl
        omega
      rw [hP] at hD ⊢
      have hD' : D toks i (T ln first a ++ (tk "," (!tailRet a) (ln + pnl a) ::
          (lexAux false (ln + pnl a) (printArgs false (a2 :: r2)) ++ tk term tt lt :: rest))) := by
        simpa [List.append_assoc] using hD
      have h0 : toks[i]? = some (tk s0 first ln) := by
        have := hD'.head?; rw [hT0] at this; simpa using this
      have hres := hna f ln first i _ d toks (by omega) hD' (stop_sep' (Or.inl rfl) (Nat.le_refl _))
      have hD1 := hD'.skip
      have hcomma := hD1.head
      have hrec := hN' f (ln + pnl a) false (i + (T ln first a).length + 1) rest d toks (acc ++ [a]) ol term tt lt
        (by omega) hterm hline' hD1.tail
      rw [commaSep]
      oksimp
      simp only [h0, tk_text, hne, Bool.false_eq_true, ↓reduceIte]
      refine ok_mono hres ?_
      rintro r s1 ⟨hr1, hr2, rfl⟩
      have hlt : i < i + (T ln first a).length := by omega
      simp only [hr1, pa.ninv, Bool.false_eq_true, ↓reduceIte, gt_iff_lt, hlt, decide_true, Bool.not_true, hcomma,
        Option.map_some, TokI.text, tk_text, beq_self_eq_true]
      oksimp
      simp only [hcomma]
      refine ok_mono hrec ?_
      rintro r2' s2 ⟨h1, h2⟩
      refine ⟨by simp [h1], ?_⟩
      rw [h2]; simp; omega

def TA (ln : Nat) (first : Bool) (args : List Expr) : List Tok := lexAux false ln (printArgs first args)
def pnlA (args : List Expr) : Nat := nlc (printArgs false args)

/-- does the text of the arguments end in a newline (the last one ends in a bare `return`)? -/
def flA (args : List Expr) : Bool := fl false (printArgs false args)

theorem args_facts (args : List Expr) (hpf : ∀ a ∈ args, PF a) :
    ∀ first, fl false (printArgs first args) = flA args ∧ nlc (printArgs first args) = pnlA args := by
  induction args with
  | nil => intro first; simp [printArgs, fl, nlc, pnlA, flA]
  | cons a r ih =>
    have pa := hpf a (List.mem_cons_self ..)
    have ih' := ih (fun x hx => hpf x (List.mem_cons_of_mem _ hx))
    intro first
    cases r with
    | nil => simp [printArgs, pnlA, flA, pa.fl, pa.nlc]
    | cons a2 r2 =>
      have hpa : ∀ f, printArgs f (a :: a2 :: r2) = printExpr f a ++ ([g ","] ++ printArgs false (a2 :: r2)) := by
        intro f; simp [printArgs]
      simp only [hpa, pnlA, flA, fl_append, nlc_append, pa.fl, pa.nlc, g, fl, nlc]
      simp

theorem TA_then (args : List Expr) (hpf : ∀ a ∈ args, PF a) (ln : Nat) (first : Bool) (B : List PTok) :
    lexAux false ln (printArgs first args ++ B) = TA ln first args ++ lexAux (flA args) (ln + pnlA args) B := by
  rw [lexAux_append, (args_facts args hpf first).1, (args_facts args hpf first).2]; rfl

theorem callArgs_ok (args : List Expr) (hfu : ∀ a ∈ args, ∃ n, FU a n) (hpf : ∀ a ∈ args, PF a) :
    ∃ N, ∀ (fuel ln : Nat) (i : Nat) (rest : List Tok) (d : List DiagKind) (toks : Toks) (t1 t2 : Bool) (l0 l2 : Nat),
      N ≤ fuel → ln + pnlA args ≤ l2 → D toks i (tk "(" t1 l0 :: (TA ln true args ++ tk ")" t2 l2 :: rest)) →
      Ok (parseCallArguments toks false fuel) ⟨i, d⟩
        (fun r s' => r.1 = args ∧ r.2.endPos = i + 1 + (TA ln true args).length + 1 ∧
          s' = ⟨i + 1 + (TA ln true args).length + 1, d⟩) := by
  obtain ⟨N, hN⟩ := comma_ok args hfu hpf
  refine ⟨N + 1, ?_⟩
  intro fuel ln i rest d toks t1 t2 l0 l2 hf hline hD
  obtain ⟨f, rfl⟩ : ∃ f, fuel = f + 1 := ⟨fuel - 1, by omega⟩
  have h0 := hD.head
  have hargs := hN f ln true (i + 1) rest d toks [] l0 ")" t2 l2 (by omega) (Or.inl rfl)
    (by rw [(args_facts args hpf true).2]; exact hline) hD.tail
  have hclose := hD.tail.skip.head
  rw [parseCallArguments]
  oksimp
  rw [ok_det (requireToken_ok toks "(" i d _ h0 rfl)]
  simp only [tk_line]
  refine ok_mono hargs ?_
  rintro r s1 ⟨hr, rfl⟩
  simp only [closePos]
  oksimp
  simp only [TA] at hclose ⊢
  simp only [hclose, Option.map_some, TokI.text, tk_text, beq_self_eq_true, ↓reduceIte]
  oksimp
  simp only [hclose]
  simp [hr, TokI.pos]

theorem r_call {f : Expr} {args : List Expr} {nf : Nat} (hf : R true f nf) (pf : PF f) (tf : tailRet f = false)
    (hnd : endsDot f = false)
    (hfu : ∀ a ∈ args, ∃ n, FU a n) (hpf : ∀ a ∈ args, PF a) :
    ∃ n, R true (.call f args) n := by
  obtain ⟨N, hN⟩ := callArgs_ok args hfu hpf
  refine ⟨nf + N + 2, ?_⟩
  intro b fuel ln first i rest d toks Q _ hfu' hD hfo _ ha
  have hT : T ln first (.call f args) = T ln first f ++ tk "(" true (ln + pnl f) ::
      (TA (ln + pnl f) true args ++ [tk ")" (!flA args) (ln + pnl f + pnlA args)]) := by
    simp only [T, printExpr]
    rw [List.append_assoc, List.append_assoc, T_then pf tf]
    simp only [List.cons_append, List.nil_append, lexAux_tok, g, Bool.and_true, Bool.not_false]
    rw [TA_then args hpf]
    simp [lexAux, tk, T]
  rw [hT] at hD ha
  have hD' : D toks i (T ln first f ++ (tk "(" true (ln + pnl f) ::
      (TA (ln + pnl f) true args ++ tk ")" (!flA args) (ln + pnl f + pnlA args) :: rest))) := by
    simpa [List.append_assoc] using hD
  refine hf b fuel ln first i _ d toks Q (fun h => by cases h) (by omega) hD' ?_ (fun h => by cases h) ?_
  · intro t ht; simp at ht; subst ht; simp [hnd]
  · intro ln' fuel' hl
    obtain ⟨k, rfl⟩ : ∃ k, fuel' = k + 1 := ⟨fuel' - 1, by omega⟩
    have hD1 := hD'.skip
    have h0 := hD1.head
    have hca := hN k (ln + pnl f) (i + (T ln first f).length) rest d toks true _ _ _ (by omega) (Nat.le_refl _) hD1
    rw [trailing]
    oksimp
    simp only [h0, Option.map_some, TokI.text, tk_text, tk_touch, beq_self_eq_true, Bool.and_self, ↓reduceIte]
    oksimp
    refine ok_mono hca ?_
    rintro ⟨as, cl⟩ s1 ⟨h1, h2, rfl⟩
    simp only at h1 h2
    have hlt : i + (T ln first f).length < i + (T ln first f).length + 1 + (TA (ln + pnl f) true args).length + 1 := by omega
    simp only [gt_iff_lt, hlt, ↓reduceIte, h1, Pos.merge, h2]
    have := ha ln' k (by omega)
    have e1 : max (i + (T ln first f).length) (i + (T ln first f).length + 1 + (TA (ln + pnl f) true args).length + 1)
        = i + (T ln first f ++ tk "(" true (ln + pnl f) ::
          (TA (ln + pnl f) true args ++ [tk ")" (!flA args) (ln + pnl f + pnlA args)])).length := by simp; omega
    have e2 : i + (T ln first f).length + 1 + (TA (ln + pnl f) true args).length + 1
        = i + (T ln first f ++ tk "(" true (ln + pnl f) ::
          (TA (ln + pnl f) true args ++ [tk ")" (!flA args) (ln + pnl f + pnlA args)])).length := by simp; omega
    rw [e1, e2]
    exact this

theorem ok_rw {α} {m m' : P α} {s : St} {Q : α → St → Prop} (h : m s = m' s) (hq : Ok m' s Q) : Ok m s Q := by
  unfold Ok at *; rw [h]; exact hq

theorem ok_exprT' {toks : Toks} {b : Bool} {fuel : Nat} {s : St} {Q : PExpr → St → Prop}
    (h : Ok (parseNoTrailing toks false fuel) s (fun pe s' => Ok (trailing toks false b fuel pe) s' Q)) :
    Ok (parseExpressionT toks false b (fuel + 1)) s Q := by
  rw [parseExpressionT, ok_bind]; exact h

theorem bad_second {s : String} (h : s ∉ badFirst) : s ≠ "=" ∧ s ≠ "+=" ∧ s ≠ "-=" := by
  refine ⟨?_, ?_, ?_⟩ <;> (intro e; subst e; exact h (by decide))

/-- Entering a closed form through `parse_simple_expression`: the token at `i` is `t`, not a statement
keyword, and the token after it is not an assignment operator. -/
theorem enter_simple {toks : Toks} {b : Bool} {f i : Nat} {d : List DiagKind} {t : Tok} {Q : PExpr → St → Prop}
    (h0 : toks[i]? = some t) (hkw : t.text ∉ stmtKeywords)
    (h2 : ∀ t2, toks[i + 1]? = some t2 → t2.text ≠ "=" ∧ t2.text ≠ "+=" ∧ t2.text ≠ "-=")
    (h : Ok (parseSimple toks false f) ⟨i, d⟩ (fun pe s' => Ok (trailing toks false b (f + 1) pe) s' Q)) :
    Ok (parseExpressionT toks false b (f + 2)) ⟨i, d⟩ Q :=
  ok_exprT' (ok_rw (noTrailing_simple toks f i d t h0 hkw h2) h)

theorem r_paren {e : Expr} {n : Nat} (he : FU e n) (pe : PF e) :
    R true (.paren e) (n + 4) := by
  intro b fuel ln first i rest d toks Q _ hfu hD hfo _ ha
  obtain ⟨f, rfl⟩ : ∃ f, fuel = f + 4 := ⟨fuel - 4, by omega⟩
  have hT : T ln first (.paren e) = tk "(" first ln :: (T ln true e ++ [tk ")" (!tailRet e) (ln + pnl e)]) := by
    simp only [T, printExpr, List.cons_append, List.nil_append, lexAux_tok, Bool.not_false, Bool.and_true]
    rw [show [g ")"] = [PTok.t ")" true] from rfl, T_then_g pe]
    simp [lexAux, tk, T]
  rw [hT] at hD ha
  have hD0 : D toks i (tk "(" first ln :: (T ln true e ++ (tk ")" (!tailRet e) (ln + pnl e) :: rest))) := by
    simpa [List.append_assoc] using hD
  have h0 := hD0.head
  have hD1 := hD0.tail
  obtain ⟨s1, tl1, hT1, hbad⟩ := T_head pe ln true
  have h1 : toks[i + 1]? = some (tk s1 true ln) := by
    have := hD1.head?; rw [hT1] at this; simpa using this
  have hin := he f ln true (i + 1) _ d toks (by omega) hD1 (stop_sep' (Or.inr (Or.inl rfl)) (Nat.le_refl _))
  have hclose := hD1.skip.head
  refine enter_simple (f := f + 2) h0 (by simp [stmtKeywords]) (fun t2 h2 => ?_) ?_
  · rw [h1] at h2; cases h2; exact bad_second hbad
  · refine ok_rw (simple_paren toks (f + 1) i d _ h0 rfl) ?_
    rw [parseTupleOrParen]
    oksimp
    rw [ok_det (requireToken_ok toks "(" i d _ h0 rfl)]
    simp only [h1, tk_text, not_badFirst hbad (show ")" ∈ badFirst by decide), Bool.false_eq_true, ↓reduceIte]
    refine ok_mono hin ?_
    rintro r s2 ⟨hr1, hr2, rfl⟩
    simp only [hclose, tk_text, show ((")" : String) == ",") = false by decide, Bool.false_eq_true, ↓reduceIte]
    rw [ok_det (requireToken_ok toks ")" _ d _ hclose rfl)]
    have := ha ln (f + 3) (by omega)
    simp only [hr1, TokI.pos, Pos.merge, tk_line]
    have e1 : max (i + 1) (i + 1 + (T ln true e).length + 1)
        = i + (tk "(" first ln :: (T ln true e ++ [tk ")" (!tailRet e) (ln + pnl e)])).length := by simp; omega
    have e2 : i + 1 + (T ln true e).length + 1
        = i + (tk "(" first ln :: (T ln true e ++ [tk ")" (!tailRet e) (ln + pnl e)])).length := by simp; omega
    rw [e1, e2]
    exact this

/-! ### Blocks -/

/-- tokens of the items of a block whose `{` is on line `l`: each item starts a new line -/
def TItems : Nat → List Expr → List Tok
  | _, [] => []
  | l, e :: r => T (l + 1) false e ++ TItems (l + 1 + pnl e) r

/-- the line of the last item's last token -/
def LItems : Nat → List Expr → Nat
  | l, [] => l
  | l, e :: r => LItems (l + 1 + pnl e) r

theorem lexAux_true_T {e : Expr} (h : PF e) (l : Nat) : lexAux true l (printExpr false e) = T l false e := by
  obtain ⟨s, tl, h1, _⟩ := h.hd
  simp [T, h1, lexAux]

theorem items_tokens (es : List Expr) (hpf : ∀ e ∈ es, PF e) (b : Bool) (l : Nat) (B : List PTok) :
    lexAux b l (printBlockItems es ++ (PTok.nl :: w "}" :: B)) =
      TItems l es ++ tk "}" false (LItems l es + 1) :: lexAux false (LItems l es + 1) B := by
  induction es generalizing b l with
  | nil => simp [printBlockItems, TItems, LItems, lexAux, tk, w]
  | cons e r ih =>
    have pe := hpf e (List.mem_cons_self ..)
    have hrest : ∃ X, printBlockItems r ++ (PTok.nl :: w "}" :: B) = PTok.nl :: X := by
      cases r with
      | nil => exact ⟨_, rfl⟩
      | cons e2 r2 => exact ⟨printExpr false e2 ++ (printBlockItems r2 ++ PTok.nl :: w "}" :: B), by simp [printBlockItems]⟩
    obtain ⟨X, hX⟩ := hrest
    have ih' := ih (fun x hx => hpf x (List.mem_cons_of_mem _ hx))
    simp only [printBlockItems, List.cons_append, List.nil_append, List.append_assoc, lexAux_nl, TItems, LItems]
    rw [lexAux_append, lexAux_true_T pe, pe.nlc]
    congr 1
    -- whatever the flag, the next print token is a newline
    have := ih' (fl true (printExpr false e)) (l + 1 + pnl e)
    rw [hX] at this ⊢
    exact this

def TB (ln : Nat) (b : Block) : List Tok := lexAux false ln (printBlock b)

theorem TB_eq (es : List Expr) (hpf : ∀ e ∈ es, PF e) (ln : Nat) (B : List PTok) :
    lexAux false ln (printBlock (.mk es) ++ B) =
      tk "{" false ln :: (TItems ln es ++ tk "}" false (LItems ln es + 1) :: lexAux false (LItems ln es + 1) B) := by
  simp only [printBlock, List.cons_append, List.nil_append, List.append_assoc, lexAux_tok, Bool.false_and]
  rw [show (w "{") = PTok.t "{" false from rfl, lexAux_tok, items_tokens es hpf]
  rfl

/-- Adjacent block items: one that ends in a dot access is not followed by one starting with `(`. -/
def Adj : List Expr → Prop
  | [] => True
  | [_] => True
  | e1 :: e2 :: r =>
    (endsDot e1 = true → ∀ s tl, printExpr false e2 = PTok.t s false :: tl → s ≠ "(") ∧ Adj (e2 :: r)

theorem LItems_ge (l : Nat) (es : List Expr) : l ≤ LItems l es := by
  induction es generalizing l with
  | nil => simp [LItems]
  | cons e r ih => simp only [LItems]; have := ih (l + 1 + pnl e); omega

/-- `Stop` for a block item followed by the first token `tk s false l2` of the next item. -/
theorem stop_item {e : Expr} {l : Nat} {s : String} {l2 : Nat} {rest : List Tok} (hs : s ∉ badFirst)
    (hdot : endsDot e = true → s ≠ "(") (hl : l + pnl e ≤ l2) : Stop e l (tk s false l2 :: rest) := by
  intro t h
  simp at h; subst h
  have m : ∀ x, x ∈ badFirst → s ≠ x := fun x hx e => by subst e; exact hs hx
  simp only [tk_text, tk_touch, tk_line]
  refine ⟨m _ (by decide), m _ (by decide), m _ (by decide), by simp, hdot, by simp, m _ (by decide), m _ (by decide), ?_,
    fun _ => hl, m _ (by decide)⟩
  cases hc : gardenBinaryOps.contains s with
  | false => rfl
  | true =>
    have : s ∈ gardenBinaryOps := by simpa using hc
    exact absurd (List.mem_append_right _ this) hs

/-- `Stop` for the last item of a block, followed by `}` on a later line. -/
theorem stop_close {e : Expr} {l : Nat} {tt : Bool} {l2 : Nat} {rest : List Tok} (hl : l + pnl e ≤ l2) :
    Stop e l (tk "}" tt l2 :: rest) := by
  intro t h
  simp at h; subst h
  simp only [tk_text, tk_touch, tk_line]
  refine ⟨by decide, by decide, by decide, by simp, fun _ => by decide, by simp, by decide, by decide, by decide,
    fun _ => hl, by decide⟩

theorem blockLoop_ok (es : List Expr) (hfu : ∀ e ∈ es, ∃ n, FU e n) (hpf : ∀ e ∈ es, PF e) (hadj : Adj es) :
    ∃ N, ∀ (fuel l i : Nat) (rest : List Tok) (d : List DiagKind) (toks : Toks) (acc : List Expr) (tt : Bool),
      N ≤ fuel → D toks i (TItems l es ++ tk "}" tt (LItems l es + 1) :: rest) →
      Ok (blockLoop toks false fuel acc) ⟨i, d⟩ (fun r s' => r = acc ++ es ∧ s' = ⟨i + (TItems l es).length, d⟩) := by
  induction es with
  | nil =>
    refine ⟨1, ?_⟩
    intro fuel l i rest d toks acc tt hf hD
    obtain ⟨f, rfl⟩ : ∃ f, fuel = f + 1 := ⟨fuel - 1, by omega⟩
    simp only [TItems, List.nil_append] at hD ⊢
    have h0 := hD.head
    rw [blockLoop]
    oksimp
    simp [h0, TokI.text, ok_pure]
  | cons e r ih =>
    obtain ⟨ne, hne⟩ := hfu e (List.mem_cons_self ..)
    have pe := hpf e (List.mem_cons_self ..)
    have hadj' : Adj r := by
      cases r with
      | nil => trivial
      | cons e2 r2 => exact hadj.2
    obtain ⟨N', hN'⟩ := ih (fun x hx => hfu x (List.mem_cons_of_mem _ hx)) (fun x hx => hpf x (List.mem_cons_of_mem _ hx)) hadj'
    refine ⟨ne + N' + 2, ?_⟩
    intro fuel l i rest d toks acc tt hf hD
    obtain ⟨f, rfl⟩ : ∃ f, fuel = f + 1 := ⟨fuel - 1, by omega⟩
    simp only [TItems, LItems, List.append_assoc] at hD ⊢
    obtain ⟨s0, tl0, hT0, hbad⟩ := T_head pe (l + 1) false
    have h0 : toks[i]? = some (tk s0 false (l + 1)) := by
      have := hD.head?; rw [hT0] at this; simpa using this
    have hne_close : (s0 == "}") = false := not_badFirst hbad (by decide)
    have hpos := T_pos pe (l + 1) false
    -- the context of this item
    have hstop : Stop e (l + 1) (TItems (l + 1 + pnl e) r ++ tk "}" tt (LItems (l + 1 + pnl e) r + 1) :: rest) := by
      cases r with
      | nil =>
        simp only [TItems, LItems, List.nil_append]
        exact stop_close (by omega)
      | cons e2 r2 =>
        have pe2 := hpf e2 (List.mem_cons_of_mem _ (List.mem_cons_self ..))
        obtain ⟨s2, tl2, hT2, hbad2⟩ := T_head pe2 (l + 1 + pnl e + 1) false
        obtain ⟨s2', tl2', hp2, _⟩ := pe2.hd
        have hs2 : s2 = s2' := by
          have : T (l + 1 + pnl e + 1) false e2 = tk s2' false (l + 1 + pnl e + 1) :: lexAux false (l + 1 + pnl e + 1) tl2' := by
            simp [T, hp2, lexAux, tk]
          rw [hT2] at this; injection this with h1 _; injection h1
        simp only [TItems, List.append_assoc, hT2, List.cons_append]
        refine stop_item hbad2 (fun hd => ?_) (by omega)
        rw [hs2]; exact hadj.1 hd s2' tl2' (hp2 false)
    have hres := hne f (l + 1) false i _ d toks (by omega) hD hstop
    have hrec := hN' f (l + 1 + pnl e) (i + (T (l + 1) false e).length) rest d toks (acc ++ [e]) tt (by omega) hD.skip
    rw [blockLoop]
    oksimp
    simp only [h0, Option.map_some, TokI.text, tk_text, hne_close, Bool.false_eq_true, ↓reduceIte]
    oksimp
    refine ok_mono hres ?_
    rintro re s1 ⟨hr1, hr2, rfl⟩
    have hlt : i < i + (T (l + 1) false e).length := by omega
    simp only [hr1, pe.ninv, Bool.false_eq_true, ↓reduceIte, gt_iff_lt, hlt]
    refine ok_mono hrec ?_
    rintro r2' s2 ⟨h1, h2⟩
    refine ⟨by simp [h1], ?_⟩
    rw [h2]; simp; omega

theorem block_ok (es : List Expr) (hfu : ∀ e ∈ es, ∃ n, FU e n) (hpf : ∀ e ∈ es, PF e) (hadj : Adj es) :
    ∃ N, ∀ (fuel ln i : Nat) (rest : List Tok) (d : List DiagKind) (toks : Toks) (tt : Bool),
      N ≤ fuel → D toks i (tk "{" tt ln :: (TItems ln es ++ tk "}" false (LItems ln es + 1) :: rest)) →
      Ok (parseBlock toks false fuel) ⟨i, d⟩ (fun r s' => r.exprs = es ∧
        r.close.endPos = i + 1 + (TItems ln es).length + 1 ∧ s' = ⟨i + 1 + (TItems ln es).length + 1, d⟩) := by
  obtain ⟨N, hN⟩ := blockLoop_ok es hfu hpf hadj
  refine ⟨N + 1, ?_⟩
  intro fuel ln i rest d toks tt hf hD
  obtain ⟨f, rfl⟩ : ∃ f, fuel = f + 1 := ⟨fuel - 1, by omega⟩
  have h0 := hD.head
  have hloop := hN f ln (i + 1) rest d toks [] false (by omega) hD.tail
  have hclose := hD.tail.skip.head
  rw [parseBlock]
  oksimp
  rw [ok_det (requireToken_ok toks "{" i d _ h0 rfl)]
  simp only [TokI.text, tk_text, bne_self_eq_false, Bool.false_eq_true, ↓reduceIte]
  refine ok_mono hloop ?_
  rintro r s1 ⟨hr, rfl⟩
  rw [ok_det (requireToken_ok toks "}" _ d _ hclose rfl)]
  simp [hr, TokI.pos]

/-! ### Keyword dispatch of `parse_expression_no_trailing` -/



theorem nt_kw (toks : Toks) (f i : Nat) (d : List DiagKind) (t : Tok) (h0 : toks[i]? = some t)
    (h2 : ∀ t2, toks[i + 1]? = some t2 → t2.text ≠ "=" ∧ t2.text ≠ "+=" ∧ t2.text ≠ "-=") :
    (t.text = "let" → parseNoTrailing toks false (f + 1) ⟨i, d⟩ = parseLet toks false f ⟨i, d⟩) ∧
    (t.text = "return" → parseNoTrailing toks false (f + 1) ⟨i, d⟩ = parseReturn toks false f ⟨i, d⟩) ∧
    (t.text = "while" → parseNoTrailing toks false (f + 1) ⟨i, d⟩ = parseWhile toks false f ⟨i, d⟩) ∧
    (t.text = "for" → parseNoTrailing toks false (f + 1) ⟨i, d⟩ = parseForIn toks false f ⟨i, d⟩) ∧
    (t.text = "if" → parseNoTrailing toks false (f + 1) ⟨i, d⟩ = parseIf toks false f ⟨i, d⟩) ∧
    (t.text = "break" → parseNoTrailing toks false (f + 1) ⟨i, d⟩ = .ok ⟨.brk, ⟨t.line, i + 1⟩⟩ ⟨i + 1, d⟩) ∧
    (t.text = "continue" → parseNoTrailing toks false (f + 1) ⟨i, d⟩ = .ok ⟨.cont, ⟨t.line, i + 1⟩⟩ ⟨i + 1, d⟩) := by
  have key : ∀ t2, toks[i + 1]? = some t2 → t2.text ≠ "=" ∧ t2.text ≠ "+=" ∧ t2.text ≠ "-=" := h2
  refine ⟨?_, ?_, ?_, ?_, ?_, ?_, ?_⟩ <;> intro ht <;> rw [parseNoTrailing] <;>
    (cases h3 : toks[i + 1]? with
     | none => simp [bind_apply, P.bind, pure_apply, peek, peekAt, h0, h3, TokI.text, ht, requireToken, checkRequiredToken,
         prev, pop, TokI.pos]
     | some t2 =>
       obtain ⟨e1, e2, e3⟩ := key t2 h3
       simp [bind_apply, P.bind, pure_apply, peek, peekAt, h0, h3, TokI.text, e1, e2, e3, ht, requireToken,
         checkRequiredToken, prev, pop, TokI.pos])

/-! ### Statements -/

theorem r_brk : R true .brk 2 := by
  intro b fuel ln first i rest d toks Q _ hf hD hfo _ ha
  obtain ⟨f, rfl⟩ : ∃ f, fuel = f + 2 := ⟨fuel - 2, by omega⟩
  have hT : T ln first .brk = [tk "break" first ln] := by simp [T, printExpr, lexAux, tk]
  rw [hT] at hD ha
  replace hD : D toks i (tk "break" first ln :: rest) := by simpa using hD
  have h0 := hD.head
  have h1 := hD.second
  have := (nt_kw toks f i d _ h0 (fun t2 h2 => by
    have := hfo t2 (by rw [← h1]; exact h2); exact ⟨this.1, this.2.1, this.2.2.1⟩)).2.2.2.2.2.1 rfl
  exact ok_exprT this (ha ln (f + 1) (by omega))

theorem r_cont : R true .cont 2 := by
  intro b fuel ln first i rest d toks Q _ hf hD hfo _ ha
  obtain ⟨f, rfl⟩ : ∃ f, fuel = f + 2 := ⟨fuel - 2, by omega⟩
  have hT : T ln first .cont = [tk "continue" first ln] := by simp [T, printExpr, lexAux, tk]
  rw [hT] at hD ha
  replace hD : D toks i (tk "continue" first ln :: rest) := by simpa using hD
  have h0 := hD.head
  have h1 := hD.second
  have := (nt_kw toks f i d _ h0 (fun t2 h2 => by
    have := hfo t2 (by rw [← h1]; exact h2); exact ⟨this.1, this.2.1, this.2.2.1⟩)).2.2.2.2.2.2 rfl
  exact ok_exprT this (ha ln (f + 1) (by omega))

/-- Finish a complete expression whose head parser has returned: the trailing loop stops. -/
theorem fu_finish {toks : Toks} {b : Bool} {f i j : Nat} {d : List DiagKind} {e : Expr} {ln : Nat} {rest : List Tok}
    (h : Ok (parseNoTrailing toks false (f + 1)) ⟨i, d⟩ (Res1 e j d)) (hD : D toks j rest) (hs : Stop e ln rest) :
    Ok (parseExpressionT toks false b (f + 2)) ⟨i, d⟩ (Res1 e j d) := by
  refine ok_exprT' (ok_mono h ?_)
  rintro pe s1 ⟨h1, h2, rfl⟩
  exact ok_of_eq (trailing_stop' toks b f j d pe e ln rest hD hs) ⟨h1, h2, rfl⟩

theorem stop_second {e : Expr} {ln : Nat} {rest : List Tok} (hs : Stop e ln rest) :
    ∀ t2, rest.head? = some t2 → t2.text ≠ "=" ∧ t2.text ≠ "+=" ∧ t2.text ≠ "-=" := by
  intro t2 h2; have := hs t2 h2; exact ⟨this.1, this.2.1, this.2.2.1⟩

theorem fu_ret_none : FS (.ret none) 3 := by
  intro b fuel ln first i rest d toks hf hD hs
  obtain ⟨f, rfl⟩ : ∃ f, fuel = f + 3 := ⟨fuel - 3, by omega⟩
  have hT : T ln first (.ret none) = [tk "return" first ln] := by simp [T, printExpr, lexAux, tk]
  rw [hT] at hD ⊢
  replace hD : D toks i (tk "return" first ln :: rest) := by simpa using hD
  have h0 := hD.head
  have h1 := hD.second
  have hD1 := hD.tail
  refine fu_finish (f := f + 1) (ln := ln) ?_ hD1 hs
  refine ok_rw ((nt_kw toks (f + 1) i d _ h0 (fun t2 h2 => stop_second hs t2 (by rw [← h1]; exact h2))).2.1 rfl) ?_
  rw [parseReturn]
  oksimp
  rw [ok_det (requireToken_ok toks "return" i d _ h0 rfl)]
  simp only [tk_endLine]
  cases hr : rest.head? with
  | none =>
    have : toks[i + 1]? = none := by rw [h1]; exact hr
    simp [this, ok_pure, Res1, TokI.pos]
  | some t2 =>
    have h1' : toks[i + 1]? = some t2 := by rw [h1]; exact hr
    have hline := (hs t2 hr).2.2.2.2.2.2.2.2.2.1 rfl
    have hne : (ln == t2.line) = false := by
      have : pnl (.ret none) = 1 := by simp [pnl, printExpr, nlc]
      rw [this] at hline
      simp; omega
    simp [h1', hne, ok_pure, Res1, TokI.pos]

theorem fu_ret_some {e : Expr} {n : Nat} (he : FU e n) (pe : PF e) : FS (.ret (some e)) (n + 3) := by
  intro b fuel ln first i rest d toks hf hD hs
  obtain ⟨f, rfl⟩ : ∃ f, fuel = f + 3 := ⟨fuel - 3, by omega⟩
  have hT : T ln first (.ret (some e)) = tk "return" first ln :: T ln false e := by
    simp [T, printExpr, lexAux, tk]
  rw [hT] at hD ⊢
  have hD0 : D toks i (tk "return" first ln :: (T ln false e ++ rest)) := by simpa using hD
  have h0 := hD0.head
  have hD1 := hD0.tail
  obtain ⟨s1, tl1, hT1, hbad⟩ := T_head pe ln false
  have h1 : toks[i + 1]? = some (tk s1 false ln) := by
    have := hD1.head?; rw [hT1] at this; simpa using this
  have hs' : Stop e ln rest := by
    intro t ht
    have := hs t ht
    simpa [endsDot, tailRet, pnl, printExpr, nlc] using this
  have hin := he f ln false (i + 1) rest d toks (by omega) hD1 hs'
  have hD2 := hD1.skip
  have hj : i + (tk "return" first ln :: T ln false e).length = i + 1 + (T ln false e).length := by simp; omega
  rw [hj]
  refine fu_finish (toks := toks) (i := i) (d := d) (f := f + 1) (ln := ln) (e := .ret (some e)) (j := i + 1 + (T ln false e).length) ?_ hD2 hs
  refine ok_rw ((nt_kw toks (f + 1) i d _ h0 (fun t2 h2 => by rw [h1] at h2; cases h2; exact bad_second hbad)).2.1 rfl) ?_
  rw [parseReturn]
  oksimp
  rw [ok_det (requireToken_ok toks "return" i d _ h0 rfl)]
  simp only [h1, Option.map_some, tk_endLine, tk_line, beq_self_eq_true, ↓reduceIte]
  oksimp
  refine ok_mono hin ?_
  rintro r s1' ⟨hr1, hr2, rfl⟩
  simp [Res1, hr1, hr2, TokI.pos, Pos.merge]

theorem nt_assign (toks : Toks) (f i : Nat) (d : List DiagKind) (t t2 : Tok) (h0 : toks[i]? = some t)
    (h1 : toks[i + 1]? = some t2) :
    (t2.text = "=" → parseNoTrailing toks false (f + 1) ⟨i, d⟩ = parseAssign toks false f ⟨i, d⟩) ∧
    ((t2.text = "+=" ∨ t2.text = "-=") →
      parseNoTrailing toks false (f + 1) ⟨i, d⟩ = parseAssignUpdate toks false f ⟨i, d⟩) := by
  constructor
  · intro h; rw [parseNoTrailing]
    simp [bind_apply, P.bind, peek, peekAt, h0, h1, TokI.text, h]
  · intro h; rw [parseNoTrailing]
    rcases h with h | h <;> simp [bind_apply, P.bind, peek, peekAt, h0, h1, TokI.text, h]

theorem stop_lbrace {e : Expr} {ln : Nat} {l2 : Nat} {rest : List Tok} (ht : tailRet e = false) :
    Stop e ln (tk "{" false l2 :: rest) := by
  intro t h
  simp at h; subst h
  simp only [tk_text, tk_touch, tk_line]
  refine ⟨by decide, by decide, by decide, by simp, fun _ => by decide, by simp, by decide, by decide, by decide,
    (fun h => by rw [ht] at h; cases h), by decide⟩

theorem stop_lbrace' {e : Expr} {ln : Nat} {l2 : Nat} {rest : List Tok} (hl : ln + pnl e ≤ l2) :
    Stop e ln (tk "{" false l2 :: rest) := by
  intro t h
  simp at h; subst h
  simp only [tk_text, tk_touch, tk_line]
  exact ⟨by decide, by decide, by decide, by simp, fun _ => by decide, by simp, by decide, by decide, by decide,
    fun _ => hl, by decide⟩

theorem T_then_block {e : Expr} (h : PF e) (ln : Nat) (first : Bool) (b : Block) (B : List PTok) :
    lexAux false ln (printExpr first e ++ (printBlock b ++ B)) =
      T ln first e ++ lexAux false (ln + pnl e) (printBlock b ++ B) := by
  cases b with
  | mk es =>
    simp only [printBlock, List.cons_append, List.nil_append, w]
    rw [T_then_w h, lexAux_tok]
    simp [tk]

theorem T_then_block0 {e : Expr} (h : PF e) (ln : Nat) (first : Bool) (b : Block) :
    lexAux false ln (printExpr first e ++ printBlock b) = T ln first e ++ lexAux false (ln + pnl e) (printBlock b) := by
  have := T_then_block h ln first b []
  simpa using this

theorem stop_tail {e' e : Expr} {ln : Nat} {rest : List Tok} (hs : Stop e' ln rest)
    (h1 : endsDot e' = endsDot e) (h2 : tailRet e' = tailRet e) (h3 : pnl e' = pnl e) : Stop e ln rest := by
  intro t ht
  have := hs t ht
  rw [h1, h2, h3] at this
  exact this

theorem fu_let {x : String} {e : Expr} {n : Nat} (hx : ValidName x) (he : FU e n) (pe : PF e) :
    FS (.letE (.sym x) none e) (n + 3) := by
  intro b fuel ln first i rest d toks hf hD hs
  obtain ⟨f, rfl⟩ : ∃ f, fuel = f + 3 := ⟨fuel - 3, by omega⟩
  have hT : T ln first (.letE (.sym x) none e) = tk "let" first ln :: tk x false ln :: tk "=" false ln :: T ln false e := by
    simp [T, printExpr, printDest, printHintOpt, lexAux, tk, w]
  rw [hT] at hD ⊢
  have hD0 : D toks i (tk "let" first ln :: tk x false ln :: tk "=" false ln :: (T ln false e ++ rest)) := by
    simpa using hD
  have h0 := hD0.head
  have hD1 := hD0.tail
  have h1 := hD1.head
  have hD2 := hD1.tail
  have h2 := hD2.head
  have hD3 := hD2.tail
  have hs' : Stop e ln rest := stop_tail hs (by simp [endsDot]) (by simp [tailRet])
    (by simp [pnl, printExpr, printDest, printHintOpt, nlc, w])
  have hin := he f ln false (i + 1 + 1 + 1) rest d toks (by omega) hD3 hs'
  have hj : i + (tk "let" first ln :: tk x false ln :: tk "=" false ln :: T ln false e).length
      = i + 1 + 1 + 1 + (T ln false e).length := by simp; omega
  rw [hj]
  refine fu_finish (toks := toks) (i := i) (d := d) (f := f + 1) (ln := ln) (e := .letE (.sym x) none e)
    (j := i + 1 + 1 + 1 + (T ln false e).length) ?_ hD3.skip hs
  refine ok_rw ((nt_kw toks (f + 1) i d _ h0 (fun t2 h2' => by
    rw [h1] at h2'; cases h2'
    exact ⟨ne_of_isSymbolTok hx.sym (by decide), ne_of_isSymbolTok hx.sym (by decide), ne_of_isSymbolTok hx.sym (by decide)⟩)).1 rfl) ?_
  rw [parseLet]
  oksimp
  rw [ok_det (requireToken_ok toks "let" i d _ h0 rfl)]
  simp only [parseLetDestination]
  oksimp
  simp only [h1, tk_text, hx.beq_nonsym (lit := "(") (by decide), Bool.false_eq_true, ↓reduceIte]
  rw [ok_det (parseSymbol_ok toks (i + 1) d _ h1 hx)]
  simp only [parseColonAndHintOpt]
  oksimp
  simp only [h2, Option.map_some, TokI.text, tk_text, show (("=" : String) == ":") = false by decide,
    show isSymbolTok "=" = false by decide, Bool.false_and, Bool.false_eq_true, ↓reduceIte]
  oksimp
  rw [ok_det (requireToken_ok toks "=" (i + 1 + 1) d _ h2 rfl)]
  refine ok_mono hin ?_
  rintro r s1' ⟨hr1, hr2, rfl⟩
  simp [Res1, hr1, hr2, TokI.pos, Pos.merge]
  omega

theorem fu_assign {x : String} {e : Expr} {n : Nat} (hx : ValidName x) (he : FU e n) (pe : PF e) :
    FS (.assign x e) (n + 3) := by
  intro b fuel ln first i rest d toks hf hD hs
  obtain ⟨f, rfl⟩ : ∃ f, fuel = f + 3 := ⟨fuel - 3, by omega⟩
  have hT : T ln first (.assign x e) = tk x first ln :: tk "=" false ln :: T ln false e := by
    simp [T, printExpr, lexAux, tk, w]
  rw [hT] at hD ⊢
  have hD0 : D toks i (tk x first ln :: tk "=" false ln :: (T ln false e ++ rest)) := by simpa using hD
  have h0 := hD0.head
  have hD1 := hD0.tail
  have h1 := hD1.head
  have hD2 := hD1.tail
  have hs' : Stop e ln rest := stop_tail hs (by simp [endsDot]) (by simp [tailRet]) (by simp [pnl, printExpr, nlc, w])
  have hin := he f ln false (i + 1 + 1) rest d toks (by omega) hD2 hs'
  have hj : i + (tk x first ln :: tk "=" false ln :: T ln false e).length
      = i + 1 + 1 + (T ln false e).length := by simp; omega
  rw [hj]
  refine fu_finish (toks := toks) (i := i) (d := d) (f := f + 1) (ln := ln) (e := .assign x e)
    (j := i + 1 + 1 + (T ln false e).length) ?_ hD2.skip hs
  refine ok_rw ((nt_assign toks (f + 1) i d _ _ h0 h1).1 rfl) ?_
  rw [parseAssign]
  oksimp
  rw [ok_det (parseSymbol_ok toks i d _ h0 hx)]
  simp only [h1, tk_text, beq_self_eq_true, Bool.not_true, Bool.false_eq_true, ↓reduceIte]
  rw [ok_det (requireToken_ok toks "=" (i + 1) d _ h1 rfl)]
  refine ok_mono hin ?_
  rintro r s1' ⟨hr1, hr2, rfl⟩
  simp [Res1, hr1, hr2, Pos.merge]
  omega

theorem fu_update {op x : String} {e : Expr} {n : Nat} (hop : op = "+=" ∨ op = "-=") (hx : ValidName x)
    (he : FU e n) (pe : PF e) : FS (.update op x e) (n + 3) := by
  intro b fuel ln first i rest d toks hf hD hs
  obtain ⟨f, rfl⟩ : ∃ f, fuel = f + 3 := ⟨fuel - 3, by omega⟩
  have hT : T ln first (.update op x e) = tk x first ln :: tk op false ln :: T ln false e := by
    simp [T, printExpr, lexAux, tk, w]
  rw [hT] at hD ⊢
  have hD0 : D toks i (tk x first ln :: tk op false ln :: (T ln false e ++ rest)) := by simpa using hD
  have h0 := hD0.head
  have hD1 := hD0.tail
  have h1 := hD1.head
  have hD2 := hD1.tail
  have hs' : Stop e ln rest := stop_tail hs (by simp [endsDot]) (by simp [tailRet]) (by simp [pnl, printExpr, nlc, w])
  have hin := he f ln false (i + 1 + 1) rest d toks (by omega) hD2 hs'
  have hj : i + (tk x first ln :: tk op false ln :: T ln false e).length
      = i + 1 + 1 + (T ln false e).length := by simp; omega
  rw [hj]
  refine fu_finish (toks := toks) (i := i) (d := d) (f := f + 1) (ln := ln) (e := .update op x e)
    (j := i + 1 + 1 + (T ln false e).length) ?_ hD2.skip hs
  refine ok_rw ((nt_assign toks (f + 1) i d _ _ h0 h1).2 (by simpa using hop)) ?_
  rw [parseAssignUpdate]
  oksimp
  rw [ok_det (parseSymbol_ok toks i d _ h0 hx)]
  simp only [requireAToken]
  oksimp
  simp only [h1]
  rcases hop with rfl | rfl
  · simp only [TokI.text, tk_text, beq_self_eq_true, ↓reduceIte]
    (try oksimp)
    refine ok_mono hin ?_
    rintro r s1' ⟨hr1, hr2, rfl⟩
    simp [Res1, hr1, hr2, Pos.merge]
    omega
  · simp only [TokI.text, tk_text, show (("-=" : String) == "+=") = false by decide, beq_self_eq_true,
      Bool.false_eq_true, ↓reduceIte]
    (try oksimp)
    refine ok_mono hin ?_
    rintro r s1' ⟨hr1, hr2, rfl⟩
    simp [Res1, hr1, hr2, Pos.merge]
    omega

/-! ### Loops and conditionals -/

/-- hypotheses about the items of a block -/
structure BlockOK (es : List Expr) : Prop where
  fu : ∀ e ∈ es, ∃ n, FU e n
  pf : ∀ e ∈ es, PF e
  adj : Adj es

theorem r_while {c : Expr} {es : List Expr} {nc : Nat} (hc : FU c nc) (pc : PF c) 
    (hb : BlockOK es) : ∃ n, R true (.whileE c (.mk es)) n := by
  obtain ⟨NB, hNB⟩ := block_ok es hb.fu hb.pf hb.adj
  refine ⟨nc + NB + 3, ?_⟩
  intro b fuel ln first i rest d toks Q _ hfu hD hfo _ ha
  obtain ⟨f, rfl⟩ : ∃ f, fuel = f + 3 := ⟨fuel - 3, by omega⟩
  have hT : T ln first (.whileE c (.mk es)) = tk "while" first ln :: (T ln false c ++
      tk "{" false (ln + pnl c) :: (TItems (ln + pnl c) es ++ [tk "}" false (LItems (ln + pnl c) es + 1)])) := by
    simp only [T, printExpr, List.cons_append, List.nil_append, lexAux_tok, Bool.not_false, Bool.and_true]
    rw [T_then_block0 pc]
    have := TB_eq es hb.pf (ln + pnl c) []
    simp only [List.append_nil] at this
    rw [this]
    simp [lexAux, T]
  rw [hT] at hD ha
  have hD0 : D toks i (tk "while" first ln :: (T ln false c ++ (tk "{" false (ln + pnl c) ::
      (TItems (ln + pnl c) es ++ tk "}" false (LItems (ln + pnl c) es + 1) :: rest)))) := by
    simpa [List.append_assoc] using hD
  have h0 := hD0.head
  have hD1 := hD0.tail
  obtain ⟨s1, tl1, hT1, hbad⟩ := T_head pc ln false
  have h1 : toks[i + 1]? = some (tk s1 false ln) := by
    have := hD1.head?; rw [hT1] at this; simpa using this
  have hcond := hc f ln false (i + 1) _ d toks (by omega) hD1 (stop_lbrace' (Nat.le_refl _))
  have hblock := hNB f (ln + pnl c) (i + 1 + (T ln false c).length) rest d toks false (by omega) hD1.skip
  refine ok_exprT' (ok_rw ((nt_kw toks (f + 1) i d _ h0 (fun t2 h2 => by
    rw [h1] at h2; cases h2; exact bad_second hbad)).2.2.1 rfl) ?_)
  rw [parseWhile]
  oksimp
  rw [ok_det (requireToken_ok toks "while" i d _ h0 rfl)]
  refine ok_mono hcond ?_
  rintro rc s1' ⟨hr1, hr2, rfl⟩
  refine ok_mono hblock ?_
  rintro rb s2 ⟨hb1, hb2, rfl⟩
  have := ha ln (f + 2) (by omega)
  simp only [hr1, PBlock.block, hb1, TokI.pos, Pos.merge, tk_line, hb2]
  have e1 : max (i + 1) (i + 1 + (T ln false c).length + 1 + (TItems (ln + pnl c) es).length + 1)
      = i + (tk "while" first ln :: (T ln false c ++ tk "{" false (ln + pnl c) ::
        (TItems (ln + pnl c) es ++ [tk "}" false (LItems (ln + pnl c) es + 1)]))).length := by simp; omega
  have e2 : i + 1 + (T ln false c).length + 1 + (TItems (ln + pnl c) es).length + 1
      = i + (tk "while" first ln :: (T ln false c ++ tk "{" false (ln + pnl c) ::
        (TItems (ln + pnl c) es ++ [tk "}" false (LItems (ln + pnl c) es + 1)]))).length := by simp; omega
  rw [e1, e2]
  exact this

theorem r_for {x : String} {c : Expr} {es : List Expr} {nc : Nat} (hx : ValidName x) (hc : FU c nc) (pc : PF c)
    (hb : BlockOK es) : ∃ n, R true (.forIn (.sym x) c (.mk es)) n := by
  obtain ⟨NB, hNB⟩ := block_ok es hb.fu hb.pf hb.adj
  refine ⟨nc + NB + 3, ?_⟩
  intro b fuel ln first i rest d toks Q _ hfu hD hfo _ ha
  obtain ⟨f, rfl⟩ : ∃ f, fuel = f + 3 := ⟨fuel - 3, by omega⟩
  have hT : T ln first (.forIn (.sym x) c (.mk es)) = tk "for" first ln :: tk x false ln :: tk "in" false ln ::
      (T ln false c ++ tk "{" false (ln + pnl c) ::
        (TItems (ln + pnl c) es ++ [tk "}" false (LItems (ln + pnl c) es + 1)])) := by
    simp only [T, printExpr, printDest, List.cons_append, List.nil_append, lexAux_tok, Bool.not_false, Bool.and_true, w,
      Bool.false_and]
    rw [T_then_block0 pc]
    have := TB_eq es hb.pf (ln + pnl c) []
    simp only [List.append_nil] at this
    rw [this]
    simp [lexAux, T, tk]
  rw [hT] at hD ha
  have hD0 : D toks i (tk "for" first ln :: tk x false ln :: tk "in" false ln :: (T ln false c ++
      (tk "{" false (ln + pnl c) :: (TItems (ln + pnl c) es ++ tk "}" false (LItems (ln + pnl c) es + 1) :: rest)))) := by
    simpa [List.append_assoc] using hD
  have h0 := hD0.head
  have hD1 := hD0.tail
  have h1 := hD1.head
  have hD2 := hD1.tail
  have h2 := hD2.head
  have hD3 := hD2.tail
  have hcond := hc f ln false (i + 1 + 1 + 1) _ d toks (by omega) hD3 (stop_lbrace' (Nat.le_refl _))
  have hblock := hNB f (ln + pnl c) (i + 1 + 1 + 1 + (T ln false c).length) rest d toks false (by omega) hD3.skip
  refine ok_exprT' (ok_rw ((nt_kw toks (f + 1) i d _ h0 (fun t2 h2' => by
    rw [h1] at h2'; cases h2'
    exact ⟨ne_of_isSymbolTok hx.sym (by decide), ne_of_isSymbolTok hx.sym (by decide), ne_of_isSymbolTok hx.sym (by decide)⟩)).2.2.2.1 rfl) ?_)
  rw [parseForIn]
  oksimp
  rw [ok_det (requireToken_ok toks "for" i d _ h0 rfl)]
  simp only [parseLetDestination]
  oksimp
  simp only [h1, tk_text, hx.beq_nonsym (lit := "(") (by decide), Bool.false_eq_true, ↓reduceIte]
  rw [ok_det (parseSymbol_ok toks (i + 1) d _ h1 hx)]
  oksimp
  rw [ok_det (requireToken_ok toks "in" (i + 1 + 1) d _ h2 rfl)]
  refine ok_mono hcond ?_
  rintro rc s1' ⟨hr1, hr2, rfl⟩
  refine ok_mono hblock ?_
  rintro rb s2 ⟨hb1, hb2, rfl⟩
  have := ha ln (f + 2) (by omega)
  simp only [hr1, PBlock.block, hb1, TokI.pos, Pos.merge, tk_line, hb2, tk_text]
  have e1 : max (i + 1) (i + 1 + 1 + 1 + (T ln false c).length + 1 + (TItems (ln + pnl c) es).length + 1)
      = i + (tk "for" first ln :: tk x false ln :: tk "in" false ln :: (T ln false c ++ tk "{" false (ln + pnl c) ::
        (TItems (ln + pnl c) es ++ [tk "}" false (LItems (ln + pnl c) es + 1)]))).length := by simp; omega
  have e2 : i + 1 + 1 + 1 + (T ln false c).length + 1 + (TItems (ln + pnl c) es).length + 1
      = i + (tk "for" first ln :: tk x false ln :: tk "in" false ln :: (T ln false c ++ tk "{" false (ln + pnl c) ::
        (TItems (ln + pnl c) es ++ [tk "}" false (LItems (ln + pnl c) es + 1)]))).length := by simp; omega
  rw [e1, e2]
  exact this

theorem r_if_none {c : Expr} {es : List Expr} {nc : Nat} (hc : FU c nc) (pc : PF c) 
    (hb : BlockOK es) : ∃ n, R true (.ifE c (.mk es) none) n := by
  obtain ⟨NB, hNB⟩ := block_ok es hb.fu hb.pf hb.adj
  refine ⟨nc + NB + 3, ?_⟩
  intro b fuel ln first i rest d toks Q _ hfu hD hfo _ ha
  obtain ⟨f, rfl⟩ : ∃ f, fuel = f + 3 := ⟨fuel - 3, by omega⟩
  have hT : T ln first (.ifE c (.mk es) none) = tk "if" first ln :: (T ln false c ++
      tk "{" false (ln + pnl c) :: (TItems (ln + pnl c) es ++ [tk "}" false (LItems (ln + pnl c) es + 1)])) := by
    simp only [T, printExpr, List.cons_append, List.nil_append, lexAux_tok, Bool.not_false, Bool.and_true]
    rw [T_then_block0 pc]
    have := TB_eq es hb.pf (ln + pnl c) []
    simp only [List.append_nil] at this
    rw [this]
    simp [lexAux, T]
  rw [hT] at hD ha
  have hD0 : D toks i (tk "if" first ln :: (T ln false c ++ (tk "{" false (ln + pnl c) ::
      (TItems (ln + pnl c) es ++ tk "}" false (LItems (ln + pnl c) es + 1) :: rest)))) := by
    simpa [List.append_assoc] using hD
  have h0 := hD0.head
  have hD1 := hD0.tail
  obtain ⟨s1, tl1, hT1, hbad⟩ := T_head pc ln false
  have h1 : toks[i + 1]? = some (tk s1 false ln) := by
    have := hD1.head?; rw [hT1] at this; simpa using this
  have hcond := hc f ln false (i + 1) _ d toks (by omega) hD1 (stop_lbrace' (Nat.le_refl _))
  have hblock := hNB f (ln + pnl c) (i + 1 + (T ln false c).length) rest d toks false (by omega) hD1.skip
  have hnext := hD1.skip.tail.skip.tail.head?
  have hnoelse : (match toks[i + 1 + (T ln false c).length + 1 + (TItems (ln + pnl c) es).length + 1]? with
      | some t => t.text == "else" | none => false) = false := by
    rw [hnext]
    cases hr' : rest.head? with
    | none => rfl
    | some t => simp; exact (hfo t hr').2.2.2.2.2
  refine ok_exprT' (ok_rw ((nt_kw toks (f + 1) i d _ h0 (fun t2 h2 => by
    rw [h1] at h2; cases h2; exact bad_second hbad)).2.2.2.2.1 rfl) ?_)
  rw [parseIf]
  oksimp
  rw [ok_det (requireToken_ok toks "if" i d _ h0 rfl)]
  refine ok_mono hcond ?_
  rintro rc s1' ⟨hr1, hr2, rfl⟩
  refine ok_mono hblock ?_
  rintro rb s2 ⟨hb1, hb2, rfl⟩
  simp only [hnoelse, Bool.false_eq_true, ↓reduceIte]
  have := ha ln (f + 2) (by omega)
  simp only [hr1, PBlock.block, hb1, TokI.pos, Pos.merge, tk_line, hb2]
  have e1 : max (i + 1) (i + 1 + (T ln false c).length + 1 + (TItems (ln + pnl c) es).length + 1)
      = i + (tk "if" first ln :: (T ln false c ++ tk "{" false (ln + pnl c) ::
        (TItems (ln + pnl c) es ++ [tk "}" false (LItems (ln + pnl c) es + 1)]))).length := by simp; omega
  have e2 : i + 1 + (T ln false c).length + 1 + (TItems (ln + pnl c) es).length + 1
      = i + (tk "if" first ln :: (T ln false c ++ tk "{" false (ln + pnl c) ::
        (TItems (ln + pnl c) es ++ [tk "}" false (LItems (ln + pnl c) es + 1)]))).length := by simp; omega
  rw [e1, e2]
  exact this

theorem r_if_some {c : Expr} {es es2 : List Expr} {nc : Nat} (hc : FU c nc) (pc : PF c) 
    (hb : BlockOK es) (hb2 : BlockOK es2) : ∃ n, R true (.ifE c (.mk es) (some (.mk es2))) n := by
  obtain ⟨NB, hNB⟩ := block_ok es hb.fu hb.pf hb.adj
  obtain ⟨NB2, hNB2⟩ := block_ok es2 hb2.fu hb2.pf hb2.adj
  refine ⟨nc + NB + NB2 + 3, ?_⟩
  intro b fuel ln first i rest d toks Q _ hfu hD hfo _ ha
  obtain ⟨f, rfl⟩ : ∃ f, fuel = f + 3 := ⟨fuel - 3, by omega⟩
  -- abbreviations for the lines
  generalize hl1 : ln + pnl c = l1 at *
  generalize hl2 : LItems l1 es + 1 = l2 at *
  have hT : T ln first (.ifE c (.mk es) (some (.mk es2))) = tk "if" first ln :: (T ln false c ++
      tk "{" false l1 :: (TItems l1 es ++ tk "}" false l2 :: tk "else" false l2 :: tk "{" false l2 ::
        (TItems l2 es2 ++ [tk "}" false (LItems l2 es2 + 1)]))) := by
    simp only [T, printExpr, List.cons_append, List.nil_append, lexAux_tok, Bool.not_false, Bool.and_true,
      List.append_assoc]
    rw [T_then_block pc, hl1, TB_eq es hb.pf l1, hl2]
    have := TB_eq es2 hb2.pf l2 []
    simp only [List.append_nil] at this
    simp only [List.cons_append, List.nil_append, lexAux_tok, w, Bool.false_and]
    rw [show lexAux false l2 (printBlock (Block.mk es2)) = _ from this]
    simp [lexAux, T]
  rw [hT] at hD ha
  have hD0 : D toks i (tk "if" first ln :: (T ln false c ++ (tk "{" false l1 ::
      (TItems l1 es ++ tk "}" false l2 :: (tk "else" false l2 :: tk "{" false l2 ::
        (TItems l2 es2 ++ tk "}" false (LItems l2 es2 + 1) :: rest)))))) := by
    simpa [List.append_assoc] using hD
  have h0 := hD0.head
  have hD1 := hD0.tail
  obtain ⟨s1, tl1, hT1, hbad⟩ := T_head pc ln false
  have h1 : toks[i + 1]? = some (tk s1 false ln) := by
    have := hD1.head?; rw [hT1] at this; simpa using this
  have hcond := hc f ln false (i + 1) _ d toks (by omega) hD1 (by rw [← hl1]; exact stop_lbrace' (Nat.le_refl _))
  have hD2 := hD1.skip
  have hblock := hNB f l1 (i + 1 + (T ln false c).length) _ d toks false (by omega) (by rw [hl2]; exact hD2)
  have hD3 := hD2.tail.skip.tail
  have helse := hD3.head
  have hD4 := hD3.tail
  have hbrace := hD4.head
  have hblock2 := hNB2 f l2 (i + 1 + (T ln false c).length + 1 + (TItems l1 es).length + 1 + 1) rest d toks false
    (by omega) hD4
  refine ok_exprT' (ok_rw ((nt_kw toks (f + 1) i d _ h0 (fun t2 h2 => by
    rw [h1] at h2; cases h2; exact bad_second hbad)).2.2.2.2.1 rfl) ?_)
  rw [parseIf]
  oksimp
  rw [ok_det (requireToken_ok toks "if" i d _ h0 rfl)]
  refine ok_mono hcond ?_
  rintro rc s1' ⟨hr1, hr2, rfl⟩
  refine ok_mono hblock ?_
  rintro rb s2 ⟨hb1, hb2', rfl⟩
  simp only [helse, tk_text, beq_self_eq_true, ↓reduceIte]
  simp only [hbrace, tk_text, show (("{" : String) == "if") = false by decide, Bool.false_eq_true, ↓reduceIte]
  refine ok_mono hblock2 ?_
  rintro rb2 s3 ⟨hc1, hc2, rfl⟩
  have := ha ln (f + 2) (by omega)
  simp only [hr1, PBlock.block, hb1, hc1, TokI.pos, Pos.merge, tk_line, hc2]
  have e1 : max (i + 1) (i + 1 + (T ln false c).length + 1 + (TItems l1 es).length + 1 + 1 + 1 + (TItems l2 es2).length + 1)
      = i + (tk "if" first ln :: (T ln false c ++ tk "{" false l1 :: (TItems l1 es ++ tk "}" false l2 ::
        tk "else" false l2 :: tk "{" false l2 :: (TItems l2 es2 ++ [tk "}" false (LItems l2 es2 + 1)])))).length := by
    simp; omega
  have e2 : i + 1 + (T ln false c).length + 1 + (TItems l1 es).length + 1 + 1 + 1 + (TItems l2 es2).length + 1
      = i + (tk "if" first ln :: (T ln false c ++ tk "{" false l1 :: (TItems l1 es ++ tk "}" false l2 ::
        tk "else" false l2 :: tk "{" false l2 :: (TItems l2 es2 ++ [tk "}" false (LItems l2 es2 + 1)])))).length := by
    simp; omega
  rw [e1, e2]
  exact this

/-! ### Print facts for every constructor -/

theorem fl_tok (b : Bool) (a : List PTok) (s : String) (t : Bool) : fl b (a ++ [PTok.t s t]) = false := by
  rw [fl_append]; rfl

theorem pf_leaf (e : Expr) (s : String) (hp : ∀ first, printExpr first e = [PTok.t s first]) (hs : s ∉ badFirst)
    (ht : tailRet e = false) (hn : e.isInvalidOrPlaceholder = false) : PF e :=
  ⟨⟨s, [], hp, hs⟩, fun b first => by rw [hp, ht]; rfl, hn⟩

theorem intTok_not_bad {s : String} {i : Int} (h : IntTok s i) : s ∉ badFirst := by
  intro hm
  have : ∀ x ∈ badFirst, isIntTok x = false := by decide
  have := this s hm
  rw [h.int] at this; cases this

theorem validName_not_bad {x : String} (h : ValidName x) : x ∉ badFirst := by
  intro hm
  have : ∀ y ∈ badFirst, isSymbolTok y = false ∨ keywords.contains y = true := by decide
  rcases this x hm with h1 | h1
  · rw [h.sym] at h1; cases h1
  · rw [h.notKw] at h1; cases h1

theorem pf_int {i : Int} (h : IntTok (toString i) i) : PF (.intLit i) :=
  pf_leaf _ (toString i) (fun _ => by simp [printExpr]) (intTok_not_bad h) rfl rfl

theorem pf_var {x : String} (h : ValidName x) : PF (.var x) :=
  pf_leaf _ x (fun _ => by simp [printExpr]) (validName_not_bad h) rfl
    (by simpa [Expr.isInvalidOrPlaceholder, isPlaceholderName] using h.notPh)

theorem pf_brk : PF .brk := pf_leaf _ "break" (fun _ => by simp [printExpr]) (by decide) rfl rfl
theorem pf_cont : PF .cont := pf_leaf _ "continue" (fun _ => by simp [printExpr]) (by decide) rfl rfl

/-- a compound form that starts with the text of `r` and ends with a token -/
theorem pf_post {r e : Expr} (pr : PF r) (X : List PTok) (s : String) (t : Bool)
    (hp : ∀ first, printExpr first e = printExpr first r ++ X ++ [PTok.t s t])
    (ht : tailRet e = false) (hn : e.isInvalidOrPlaceholder = false) : PF e := by
  obtain ⟨s0, tl, h1, h2⟩ := pr.hd
  refine ⟨⟨s0, tl ++ X ++ [PTok.t s t], fun first => by rw [hp, h1]; simp, h2⟩, fun b first => ?_, hn⟩
  rw [hp, fl_tok, ht]

/-- a compound form that starts with a keyword / bracket and ends with a token -/
theorem pf_kw {e : Expr} (k : String) (X : List PTok) (s : String) (t : Bool)
    (hp : ∀ first, printExpr first e = PTok.t k first :: (X ++ [PTok.t s t])) (hk : k ∉ badFirst)
    (ht : tailRet e = false) (hn : e.isInvalidOrPlaceholder = false) : PF e := by
  refine ⟨⟨k, X ++ [PTok.t s t], hp, hk⟩, fun b first => ?_, hn⟩
  rw [hp, ht]
  show fl false (X ++ [PTok.t s t]) = false
  exact fl_tok _ _ _ _

theorem pf_dot {r : Expr} {f : String} (pr : PF r) : PF (.dot r f) :=
  pf_post pr [g "."] f true (fun first => by simp [printExpr, g]) rfl rfl
theorem pf_ns {r : Expr} {f : String} (pr : PF r) : PF (.ns r f) :=
  pf_post pr [g "::"] f true (fun first => by simp [printExpr, g]) rfl rfl
theorem pf_call {f : Expr} {args : List Expr} (pf : PF f) : PF (.call f args) :=
  pf_post pf ([g "("] ++ printArgs true args) ")" true (fun first => by simp [printExpr, g]) rfl rfl
theorem pf_paren {e : Expr} : PF (.paren e) :=
  pf_kw "(" (printExpr true e) ")" true (fun first => by simp [printExpr, g]) (by decide) rfl rfl

theorem printBlock_split (es : List Expr) : ∃ X, printBlock (.mk es) = X ++ [PTok.t "}" false] :=
  ⟨[w "{"] ++ printBlockItems es ++ [PTok.nl], by simp [printBlock, w]⟩

theorem pf_while {c : Expr} {es : List Expr} : PF (.whileE c (.mk es)) := by
  obtain ⟨X, hX⟩ := printBlock_split es
  exact pf_kw "while" (printExpr false c ++ X) "}" false (fun first => by simp [printExpr, hX]) (by decide) rfl rfl
theorem pf_for {d : LetDest} {c : Expr} {es : List Expr} : PF (.forIn d c (.mk es)) := by
  obtain ⟨X, hX⟩ := printBlock_split es
  exact pf_kw "for" (printDest d ++ [w "in"] ++ printExpr false c ++ X) "}" false
    (fun first => by simp [printExpr, hX]) (by decide) rfl rfl
theorem pf_if_none {c : Expr} {es : List Expr} : PF (.ifE c (.mk es) none) := by
  obtain ⟨X, hX⟩ := printBlock_split es
  exact pf_kw "if" (printExpr false c ++ X) "}" false (fun first => by simp [printExpr, hX]) (by decide) rfl rfl
theorem pf_if_some {c : Expr} {es es2 : List Expr} : PF (.ifE c (.mk es) (some (.mk es2))) := by
  obtain ⟨X, hX⟩ := printBlock_split es2
  exact pf_kw "if" (printExpr false c ++ printBlock (.mk es) ++ [w "else"] ++ X) "}" false
    (fun first => by simp [printExpr, hX]) (by decide) rfl rfl

theorem pf_binop {l r : Expr} {op : String} (pl : PF l) (pr : PF r) : PF (.binop l op r) := by
  obtain ⟨s0, tl, h1, h2⟩ := pl.hd
  refine ⟨⟨s0, tl ++ [w op] ++ printExpr false r, fun first => by simp [printExpr, h1], h2⟩, fun b first => ?_, rfl⟩
  simp only [printExpr]
  rw [fl_append, pr.fl]; rfl

/-- a statement `kw … = e` / `x = e` / `return e`: starts with a token, ends like `e` -/
theorem pf_stmt {e' e : Expr} (pe : PF e) (k : String) (X : List PTok)
    (hp : ∀ first, printExpr first e' = PTok.t k first :: (X ++ printExpr false e)) (hk : k ∉ badFirst)
    (ht : tailRet e' = tailRet e) (hn : e'.isInvalidOrPlaceholder = false) : PF e' := by
  refine ⟨⟨k, X ++ printExpr false e, hp, hk⟩, fun b first => ?_, hn⟩
  rw [hp, ht]
  show fl false (X ++ printExpr false e) = tailRet e
  rw [fl_append, pe.fl]

theorem pf_let {x : String} {e : Expr} (pe : PF e) : PF (.letE (.sym x) none e) :=
  pf_stmt pe "let" [w x, w "="] (fun first => by simp [printExpr, printDest, printHintOpt, w]) (by decide) rfl rfl
theorem pf_assign {x : String} {e : Expr} (hx : ValidName x) (pe : PF e) : PF (.assign x e) :=
  pf_stmt pe x [w "="] (fun first => by simp [printExpr, w]) (validName_not_bad hx) rfl rfl
theorem pf_update {op x : String} {e : Expr} (hx : ValidName x) (pe : PF e) : PF (.update op x e) :=
  pf_stmt pe x [w op] (fun first => by simp [printExpr, w]) (validName_not_bad hx) rfl rfl
theorem pf_ret_some {e : Expr} (pe : PF e) : PF (.ret (some e)) :=
  pf_stmt pe "return" [] (fun first => by simp [printExpr]) (by decide) rfl rfl
theorem pf_ret_none : PF (.ret none) :=
  ⟨⟨"return", [PTok.nl], fun first => by simp [printExpr], by decide⟩, fun b first => by simp [printExpr, fl, tailRet], rfl⟩

/-! ### Method calls, lists, strings, tuples -/

theorem r_mcall {r : Expr} {m : String} {args : List Expr} {nr : Nat} (hr : R true r nr) (pr : PF r)
    (tr : tailRet r = false) (hm : ValidName m)
    (hfu : ∀ a ∈ args, ∃ n, FU a n) (hpf : ∀ a ∈ args, PF a) :
    ∃ n, R true (.mcall r m args) n := by
  obtain ⟨N, hN⟩ := callArgs_ok args hfu hpf
  refine ⟨nr + N + 2, ?_⟩
  intro b fuel ln first i rest d toks Q _ hfu' hD hfo _ ha
  generalize hl1 : ln + pnl r = l1 at *
  have hT : T ln first (.mcall r m args) = T ln first r ++ tk "." true l1 :: tk m true l1 :: tk "(" true l1 ::
      (TA l1 true args ++ [tk ")" (!flA args) (l1 + pnlA args)]) := by
    simp only [T, printExpr, List.append_assoc]
    rw [T_then pr tr, hl1]
    simp only [List.cons_append, List.nil_append, lexAux_tok, g, Bool.and_true, Bool.not_false]
    rw [TA_then args hpf]
    simp [lexAux, tk, T]
  rw [hT] at hD ha
  have hD' : D toks i (T ln first r ++ (tk "." true l1 :: tk m true l1 :: tk "(" true l1 ::
      (TA l1 true args ++ tk ")" (!flA args) (l1 + pnlA args) :: rest))) := by
    simpa [List.append_assoc] using hD
  refine hr b fuel ln first i _ d toks Q (fun h => by cases h) (by omega) hD' ?_ (fun h => by cases h) ?_
  · intro t ht; simp at ht; subst ht; simp
  · intro ln' fuel' hl
    obtain ⟨k, rfl⟩ : ∃ k, fuel' = k + 1 := ⟨fuel' - 1, by omega⟩
    have hD1 := hD'.skip
    have h0 := hD1.head
    have hD2 := hD1.tail
    have h1 := hD2.head
    have hD3 := hD2.tail
    have h2 := hD3.head
    have hsym := parseSymbol_ok toks (i + (T ln first r).length + 1) d _ h1 hm
    have hca := hN k l1 (i + (T ln first r).length + 1 + 1) rest d toks true _ _ _ (by omega) (Nat.le_refl _) hD3
    rw [trailing]
    oksimp
    simp only [h0, Option.map_some, TokI.text, tk_text, tk_touch, h1]
    simp only [show (("." : String) == "(") = false by decide, show (("." : String) == ".") = true by decide,
      Bool.false_and, Bool.false_eq_true, ↓reduceIte]
    oksimp
    simp only [h0, h1, Option.map_some, tk_touch, ↓reduceIte]
    rw [ok_det hsym]
    simp only [h2, tk_text, beq_self_eq_true, ↓reduceIte]
    refine ok_mono hca ?_
    rintro ⟨as, cl⟩ s1 ⟨e1, e2, rfl⟩
    simp only at e1 e2
    have hlt : i + (T ln first r).length < i + (T ln first r).length + 1 + 1 + 1 + (TA l1 true args).length + 1 := by omega
    simp only [gt_iff_lt, hlt, ↓reduceIte, e1, Pos.merge, e2, tk_text]
    have := ha ln' k (by omega)
    have x1 : max (i + (T ln first r).length) (i + (T ln first r).length + 1 + 1 + 1 + (TA l1 true args).length + 1)
        = i + (T ln first r ++ tk "." true l1 :: tk m true l1 :: tk "(" true l1 ::
          (TA l1 true args ++ [tk ")" (!flA args) (l1 + pnlA args)])).length := by simp; omega
    have x2 : i + (T ln first r).length + 1 + 1 + 1 + (TA l1 true args).length + 1
        = i + (T ln first r ++ tk "." true l1 :: tk m true l1 :: tk "(" true l1 ::
          (TA l1 true args ++ [tk ")" (!flA args) (l1 + pnlA args)])).length := by simp; omega
    rw [x1, x2]
    exact this

theorem simple_list (toks : Toks) (fuel i : Nat) (d : List DiagKind) (t : Tok)
    (h1 : toks[i]? = some t) (hx : t.text = "[") :
    parseSimple toks false (fuel + 1) ⟨i, d⟩ = parseListLiteral toks false fuel ⟨i, d⟩ := by
  rw [parseSimple]
  simp [bind_apply, P.bind, peek, peekAt, h1, TokI.text, hx]

theorem TA_head {a : Expr} {r : List Expr} (pa : PF a) (ln : Nat) (first : Bool) :
    ∃ s tl, TA ln first (a :: r) = tk s first ln :: tl ∧ s ∉ badFirst := by
  obtain ⟨s0, tl, hp, hb⟩ := pa.hd
  cases r with
  | nil => exact ⟨s0, lexAux false ln tl, by simp [TA, printArgs, hp, lexAux, tk], hb⟩
  | cons a2 r2 =>
    exact ⟨s0, lexAux false ln (tl ++ g "," :: printArgs false (a2 :: r2)), by simp [TA, printArgs, hp, lexAux, tk], hb⟩

theorem r_list {items : List Expr} (hfu : ∀ a ∈ items, ∃ n, FU a n) (hpf : ∀ a ∈ items, PF a) :
    ∃ n, R true (.list items) n := by
  obtain ⟨N, hN⟩ := comma_ok items hfu hpf
  refine ⟨N + 4, ?_⟩
  intro b fuel ln first i rest d toks Q _ hfu' hD hfo _ ha
  obtain ⟨f, rfl⟩ : ∃ f, fuel = f + 4 := ⟨fuel - 4, by omega⟩
  have hT : T ln first (.list items) = tk "[" first ln :: (TA ln true items ++ [tk "]" (!flA items) (ln + pnlA items)]) := by
    simp only [T, printExpr, List.cons_append, List.nil_append, lexAux_tok, Bool.not_false, Bool.and_true]
    rw [TA_then items hpf]
    simp [lexAux, tk, g, TA]
  rw [hT] at hD ha
  have hD0 : D toks i (tk "[" first ln :: (TA ln true items ++ (tk "]" (!flA items) (ln + pnlA items) :: rest))) := by
    simpa [List.append_assoc] using hD
  have h0 := hD0.head
  have hD1 := hD0.tail
  have hitems := hN f ln true (i + 1) rest d toks [] ln "]" _ _ (by omega) (Or.inr rfl)
    (by rw [(args_facts items hpf true).2]; exact Nat.le_refl _) hD1
  have hclose := hD1.skip.head
  -- the token after `[` is the first token of the first item, or `]`
  have h2 : ∀ t2, toks[i + 1]? = some t2 → t2.text ≠ "=" ∧ t2.text ≠ "+=" ∧ t2.text ≠ "-=" := by
    intro t2 ht2
    cases items with
    | nil =>
      have hD1' : D toks (i + 1) (tk "]" (!flA []) (ln + pnlA []) :: rest) := by simpa [TA, printArgs, lexAux] using hD1
      rw [hD1'.head] at ht2; cases ht2
      refine ⟨?_, ?_, ?_⟩ <;> (simp only [tk_text]; decide)
    | cons a r =>
      have pa := hpf a (List.mem_cons_self ..)
      obtain ⟨s0, tl', htl, hb⟩ := TA_head (r := r) pa ln true
      rw [htl] at hD1
      have := hD1.head
      rw [this] at ht2; cases ht2
      exact bad_second hb
  refine enter_simple (f := f + 2) h0 (by simp [stmtKeywords]) h2 ?_
  refine ok_rw (simple_list toks (f + 1) i d _ h0 rfl) ?_
  rw [parseListLiteral]
  oksimp
  rw [ok_det (requireToken_ok toks "[" i d _ h0 rfl)]
  simp only [tk_line]
  refine ok_mono hitems ?_
  rintro r s1 ⟨hr, rfl⟩
  simp only [closePos]
  oksimp
  simp only [TA] at hclose ⊢
  simp only [hclose, Option.map_some, TokI.text, tk_text, beq_self_eq_true, ↓reduceIte]
  oksimp
  simp only [hclose]
  have := ha ln (f + 3) (by omega)
  simp only [List.nil_append] at hr
  simp only [hr, TokI.pos, Pos.merge, tk_line]
  have e1 : max (i + 1) (i + 1 + (lexAux false ln (printArgs true items)).length + 1)
      = i + (tk "[" first ln :: (TA ln true items ++ [tk "]" (!flA items) (ln + pnlA items)])).length := by simp [TA]; omega
  have e2 : i + 1 + (lexAux false ln (printArgs true items)).length + 1
      = i + (tk "[" first ln :: (TA ln true items ++ [tk "]" (!flA items) (ln + pnlA items)])).length := by simp [TA]; omega
  rw [e1, e2]
  exact this

/-! ### String literals -/

theorem unescape_escape (cs : List Char) : unescapeChars (escapeChars cs) = (0, cs) := by
  induction cs with
  | nil => simp [escapeChars, unescapeChars]
  | cons c r ih =>
    unfold escapeChars
    by_cases h1 : c = '\\'
    · subst h1; simp [unescapeChars, ih]
    · by_cases h2 : c = '"'
      · subst h2; simp [unescapeChars, ih]
      · by_cases h3 : c = '\n'
        · subst h3; simp [unescapeChars, ih]
        · by_cases h4 : c = '\t'
          · subst h4; simp [unescapeChars, ih]
          · simp only [beq_iff_eq, h1, h2, h3, h4, ↓reduceIte]
            rw [unescapeChars]
            · simp [ih]
            all_goals (intros; simp_all)

theorem dropLastQuote_snoc (l : List Char) : dropLastQuote (l ++ ['"']) = l := by
  simp [dropLastQuote]

theorem strTok_toList (s : String) : (strTok s).toList = '"' :: (escapeChars s.toList ++ ['"']) := by
  simp [strTok]

theorem unescapeTok_strTok (s : String) : unescapeTok (strTok s) = (0, s) := by
  simp [unescapeTok, strTok_toList, dropLastQuote_snoc, unescape_escape]

/-- facts about the text of a string literal token -/
structure StrFacts (x : String) : Prop where
  str : isStringTok x = true
  notSym : isSymbolTok x = false
  notBad : x ∉ badFirst
  notStmt : x ∉ stmtKeywords
  ne1 : x ≠ "(" ∧ x ≠ "[" ∧ x ≠ "Dict" ∧ x ≠ "fun" ∧ x ≠ "assert"

theorem strFacts (s : String) : StrFacts (strTok s) := by
  have hstr : isStringTok (strTok s) = true := by simp [isStringTok, strTok_toList]
  have hsym : isSymbolTok (strTok s) = false := by simp [isSymbolTok, strTok_toList, isSymStart]
  have key : ∀ y : String, isStringTok y = false → strTok s ≠ y := by
    intro y hy e; rw [e, hy] at hstr; cases hstr
  refine ⟨hstr, hsym, ?_, ?_, ?_⟩
  · intro hm
    have : ∀ y ∈ badFirst, isStringTok y = false := by decide
    exact key _ (this _ hm) rfl
  · intro hm
    have : ∀ y ∈ stmtKeywords, isStringTok y = false := by decide
    exact key _ (this _ hm) rfl
  · exact ⟨key _ (by decide), key _ (by decide), key _ (by decide), key _ (by decide), key _ (by decide)⟩

theorem simple_str (toks : Toks) (fuel i : Nat) (d : List DiagKind) (t : Tok) (s : String)
    (h1 : toks[i]? = some t) (ht : t.text = strTok s) :
    parseSimple toks false (fuel + 1) ⟨i, d⟩ = .ok ⟨.strLit s, ⟨t.line, i + 1⟩⟩ ⟨i + 1, d⟩ := by
  have hf := strFacts s
  rw [parseSimple]
  obtain ⟨n1, n2, n3, n4, n5⟩ := hf.ne1
  simp [bind_apply, P.bind, pure_apply, peek, peekAt, h1, TokI.text, ht, n1, n2, n3, n4, n5, hf.notSym, hf.str, pop,
    unescapeTok_strTok, diagN, TokI.pos]

theorem T_str (ln : Nat) (first : Bool) (s : String) : T ln first (.strLit s) = [tk (strTok s) first ln] := by
  simp [T, printExpr, lexAux, tk]

theorem r_str (s : String) : R true (.strLit s) 3 := by
  intro b fuel ln first i rest d toks Q _ hf hD hfo _ ha
  obtain ⟨f, rfl⟩ : ∃ f, fuel = f + 3 := ⟨fuel - 3, by omega⟩
  rw [T_str] at hD ha
  replace hD : D toks i (tk (strTok s) first ln :: rest) := by simpa using hD
  have h0 := hD.head
  have h1 := hD.second
  have hnt : parseNoTrailing toks false (f + 2) ⟨i, d⟩ = .ok ⟨.strLit s, ⟨ln, i + 1⟩⟩ ⟨i + 1, d⟩ := by
    rw [noTrailing_simple toks (f + 1) i d _ h0 (strFacts s).notStmt (fun t2 h2 => (fol_second hfo t2 (h1 ▸ h2)).1)]
    simpa using simple_str toks f i d _ s h0 rfl
  exact ok_exprT hnt (ha ln (f + 2) (by omega))

theorem pf_str (s : String) : PF (.strLit s) :=
  pf_leaf _ (strTok s) (fun _ => by simp [printExpr]) (strFacts s).notBad rfl rfl

/-! ### Tuple literals -/

/-- tokens of `, e2, e3 …` (the part of a tuple after its first element) -/
def TLs : Bool → Nat → List Expr → List Tok
  | _, _, [] => []
  | b, l, e :: r => tk "," (!b) l :: (T l false e ++ TLs (tailRet e) (l + pnl e) r)

def LLs : Nat → List Expr → Nat
  | l, [] => l
  | l, e :: r => LLs (l + pnl e) r

/-- does the text end in a newline after the last element? (`b`: did the element before?) -/
def FLs : Bool → List Expr → Bool
  | b, [] => b
  | _, e :: r => FLs (tailRet e) r

theorem args_tail (a : Expr) (rs : List Expr) (pa : PF a)
    (hpf : ∀ x ∈ rs, PF x) (ln : Nat) (first : Bool) (B : List PTok) :
    lexAux false ln (printArgs first (a :: rs) ++ B) =
      T ln first a ++ (TLs (tailRet a) (ln + pnl a) rs ++ lexAux (FLs (tailRet a) rs) (LLs (ln + pnl a) rs) B) := by
  induction rs generalizing a ln first with
  | nil =>
    simp only [printArgs, TLs, LLs, FLs, List.nil_append]
    exact T_then' pa ln first B
  | cons a2 r2 ih =>
    have pa2 := hpf a2 (List.mem_cons_self ..)
    have hpa : printArgs first (a :: a2 :: r2) = printExpr first a ++ (PTok.t "," true :: printArgs false (a2 :: r2)) := by
      simp [printArgs, g]
    rw [hpa, List.append_assoc, List.cons_append, T_then_g pa]
    simp only [TLs, LLs, FLs, List.cons_append, List.append_assoc]
    rw [ih a2 pa2 (fun x hx => hpf x (List.mem_cons_of_mem _ hx))]

theorem tupleLoop_ok (rs : List Expr) (hfu : ∀ a ∈ rs, ∃ n, FU a n) (hpf : ∀ a ∈ rs, PF a) :
    ∃ N, ∀ (fuel : Nat) (b : Bool) (l i : Nat) (rest : List Tok) (d : List DiagKind) (toks : Toks) (acc : List Expr)
      (tt : Bool) (lt : Nat),
      N ≤ fuel → LLs l rs ≤ lt → D toks i (TLs b l rs ++ tk ")" tt lt :: rest) →
      Ok (tupleLoop toks false fuel acc) ⟨i, d⟩ (fun r s' => r = acc ++ rs ∧ s' = ⟨i + (TLs b l rs).length, d⟩) := by
  induction rs with
  | nil =>
    refine ⟨1, ?_⟩
    intro fuel b l i rest d toks acc tt lt hf _ hD
    obtain ⟨f, rfl⟩ : ∃ f, fuel = f + 1 := ⟨fuel - 1, by omega⟩
    simp only [TLs, List.nil_append] at hD ⊢
    have h0 := hD.head
    rw [tupleLoop]
    oksimp
    simp [h0, ok_pure]
  | cons a r ih =>
    obtain ⟨na, hna⟩ := hfu a (List.mem_cons_self ..)
    have pa := hpf a (List.mem_cons_self ..)
    obtain ⟨N', hN'⟩ := ih (fun x hx => hfu x (List.mem_cons_of_mem _ hx)) (fun x hx => hpf x (List.mem_cons_of_mem _ hx))
    refine ⟨na + N' + 2, ?_⟩
    intro fuel b l i rest d toks acc tt lt hf hline hD
    obtain ⟨f, rfl⟩ : ∃ f, fuel = f + 1 := ⟨fuel - 1, by omega⟩
    simp only [TLs, LLs, List.cons_append, List.append_assoc] at hD hline ⊢
    have h0 := hD.head
    have hD1 := hD.tail
    obtain ⟨s0, tl0, hT0, hbad⟩ := T_head pa l false
    have h1 : toks[i + 1]? = some (tk s0 false l) := by
      have := hD1.head?; rw [hT0] at this; simpa using this
    have hstop : Stop a l (TLs (tailRet a) (l + pnl a) r ++ tk ")" tt lt :: rest) := by
      cases r with
      | nil =>
        simp only [TLs, List.nil_append]
        exact stop_sep' (Or.inr (Or.inl rfl)) (by simpa [LLs] using hline)
      | cons a2 r2 => simp only [TLs, List.cons_append]; exact stop_sep' (Or.inl rfl) (Nat.le_refl _)
    have hres := hna f l false (i + 1) _ d toks (by omega) hD1 hstop
    have hrec := hN' f (tailRet a) (l + pnl a) (i + 1 + (T l false a).length) rest d toks (acc ++ [a]) tt lt (by omega)
      hline hD1.skip
    have hpos := T_pos pa l false
    rw [tupleLoop]
    oksimp
    simp only [h0, tk_text, beq_self_eq_true, show (("," : String) == ")") = false by decide, Bool.not_true,
      Bool.false_and, Bool.false_eq_true, ↓reduceIte]
    (try oksimp)
    simp only [h0, h1, tk_text, not_badFirst hbad (show ")" ∈ badFirst by decide), Bool.false_eq_true, ↓reduceIte]
    refine ok_mono hres ?_
    rintro re s1 ⟨hr1, hr2, rfl⟩
    have hlt : i + 1 < i + 1 + (T l false a).length := by omega
    simp only [hr1, pa.ninv, Bool.and_false, Bool.false_eq_true, ↓reduceIte, gt_iff_lt, hlt]
    refine ok_mono hrec ?_
    rintro r2' s2 ⟨h1', h2'⟩
    refine ⟨by simp [h1'], ?_⟩
    rw [h2']; simp; omega

theorem r_tuple_nil : R true (.tuple []) 4 := by
  intro b fuel ln first i rest d toks Q _ hfu hD hfo _ ha
  obtain ⟨f, rfl⟩ : ∃ f, fuel = f + 4 := ⟨fuel - 4, by omega⟩
  have hT : T ln first (.tuple []) = [tk "(" first ln, tk ")" true ln] := by simp [T, printExpr, lexAux, tk, g]
  rw [hT] at hD ha
  replace hD : D toks i (tk "(" first ln :: tk ")" true ln :: rest) := by simpa using hD
  have h0 := hD.head
  have h1 := hD.tail.head
  refine enter_simple (f := f + 2) h0 (by simp [stmtKeywords]) (fun t2 h2 => ?_) ?_
  · rw [h1] at h2; cases h2; refine ⟨?_, ?_, ?_⟩ <;> (simp only [tk_text]; decide)
  · refine ok_rw (simple_paren toks (f + 1) i d _ h0 rfl) ?_
    rw [parseTupleOrParen]
    oksimp
    rw [ok_det (requireToken_ok toks "(" i d _ h0 rfl)]
    simp only [h1, tk_text, beq_self_eq_true, ↓reduceIte]
    rw [ok_det (requireToken_ok toks ")" (i + 1) d _ h1 rfl)]
    have := ha ln (f + 3) (by omega)
    simpa [TokI.pos, Pos.merge] using this

/-- a tuple with at least one element: `(e,)` or `(e, e2, …)` -/
theorem r_tuple_cons {e : Expr} {rs : List Expr} {ne : Nat} (he : FU e ne) (pe : PF e)
    (hfu : ∀ a ∈ rs, ∃ n, FU a n) (hpf : ∀ a ∈ rs, PF a) :
    ∃ n, R true (.tuple (e :: rs)) n := by
  obtain ⟨N, hN⟩ := tupleLoop_ok rs hfu hpf
  refine ⟨ne + N + 6, ?_⟩
  intro b fuel ln first i rest d toks Q _ hfu' hD hfo _ ha
  obtain ⟨f, rfl⟩ : ∃ f, fuel = f + 4 := ⟨fuel - 4, by omega⟩
  obtain ⟨s1, tl1, hT1, hbad⟩ := T_head pe ln true
  -- the shape of the tokens after the first element
  have hshape : ∃ (X : List Tok) (lc : Nat) (cf : Bool),
      T ln first (.tuple (e :: rs)) = tk "(" first ln :: (T ln true e ++ X ++ [tk ")" cf lc]) ∧
      (∀ (rest' : List Tok) (d' : List DiagKind) (i' : Nat), D toks i' (X ++ tk ")" cf lc :: rest') →
        Ok (tupleLoop toks false f [e]) ⟨i', d'⟩ (fun r s' => r = e :: rs ∧ s' = ⟨i' + X.length, d'⟩)) ∧
      (∃ xf xt, X = tk "," xf (ln + pnl e) :: xt) := by
    cases rs with
    | nil =>
      refine ⟨[tk "," (!tailRet e) (ln + pnl e)], ln + pnl e, true, ?_, ?_, ⟨_, [], rfl⟩⟩
      · simp only [T, printExpr, List.cons_append, List.nil_append, lexAux_tok, Bool.not_false, Bool.and_true]
        rw [show [g ",", g ")"] = PTok.t "," true :: [PTok.t ")" true] from rfl, T_then_g pe]
        simp [lexAux, tk, T]
      · intro rest' d' i' hD'
        have hc := hD'.head
        have hp := hD'.tail.head
        obtain ⟨f', hf'⟩ : ∃ f', f = f' + 1 := ⟨f - 1, by omega⟩
        rw [hf']
        rw [tupleLoop]
        oksimp
        simp only [hc, tk_text, beq_self_eq_true, show (("," : String) == ")") = false by decide, Bool.not_true,
          Bool.false_and, Bool.false_eq_true, ↓reduceIte]
        (try oksimp)
        simp only [hc, hp, tk_text, beq_self_eq_true, ↓reduceIte]
        simp [ok_pure]
    | cons a2 r2 =>
      refine ⟨TLs (tailRet e) (ln + pnl e) (a2 :: r2), LLs (ln + pnl e) (a2 :: r2), !FLs (tailRet e) (a2 :: r2),
        ?_, ?_, ⟨_, _, rfl⟩⟩
      · simp only [T, printExpr, List.cons_append, List.nil_append, lexAux_tok, Bool.not_false, Bool.and_true]
        rw [args_tail e (a2 :: r2) pe hpf]
        simp [lexAux, tk, g, T]
      · intro rest' d' i' hD'
        refine ok_mono (hN f (tailRet e) (ln + pnl e) i' rest' d' toks [e] _ _ (by omega) (Nat.le_refl _) hD') ?_
        rintro r s' ⟨h1, h2⟩
        exact ⟨by simpa using h1, h2⟩
  obtain ⟨X, lc, cf, hT, hloop, ⟨xf, xt, hX⟩⟩ := hshape
  rw [hT] at hD ha
  have hD0 : D toks i (tk "(" first ln :: (T ln true e ++ (X ++ tk ")" cf lc :: rest))) := by
    simpa [List.append_assoc] using hD
  have h0 := hD0.head
  have hD1 := hD0.tail
  have h1 : toks[i + 1]? = some (tk s1 true ln) := by
    have := hD1.head?; rw [hT1] at this; simpa using this
  have hstop : Stop e ln (X ++ tk ")" cf lc :: rest) := by
    rw [hX]; exact stop_sep' (Or.inl rfl) (Nat.le_refl _)
  have hin := he f ln true (i + 1) _ d toks (by omega) hD1 hstop
  have hD2 := hD1.skip
  have hcomma : toks[i + 1 + (T ln true e).length]? = some (tk "," xf (ln + pnl e)) := by
    have := hD2.head?; rw [hX] at this; simpa using this
  have hl := hloop rest d (i + 1 + (T ln true e).length) hD2
  have hclose := hD2.skip.head
  refine enter_simple (f := f + 2) h0 (by simp [stmtKeywords]) (fun t2 h2 => ?_) ?_
  · rw [h1] at h2; cases h2; exact bad_second hbad
  · refine ok_rw (simple_paren toks (f + 1) i d _ h0 rfl) ?_
    rw [parseTupleOrParen]
    oksimp
    rw [ok_det (requireToken_ok toks "(" i d _ h0 rfl)]
    simp only [h1, tk_text, not_badFirst hbad (show ")" ∈ badFirst by decide), Bool.false_eq_true, ↓reduceIte]
    refine ok_mono hin ?_
    rintro r s2 ⟨hr1, hr2, rfl⟩
    simp only [hcomma, tk_text, beq_self_eq_true, ↓reduceIte, hr1]
    refine ok_mono hl ?_
    rintro es s3 ⟨hes, rfl⟩
    rw [ok_det (requireToken_ok toks ")" _ d _ hclose rfl)]
    have := ha ln (f + 3) (by omega)
    simp only [hes, TokI.pos, Pos.merge, tk_line]
    have e1 : max (i + 1) (i + 1 + (T ln true e).length + X.length + 1)
        = i + (tk "(" first ln :: (T ln true e ++ X ++ [tk ")" cf lc])).length := by simp; omega
    have e2 : i + 1 + (T ln true e).length + X.length + 1
        = i + (tk "(" first ln :: (T ln true e ++ X ++ [tk ")" cf lc])).length := by simp; omega
    rw [e1, e2]
    exact this

theorem pf_tuple {es : List Expr} : PF (.tuple es) := by
  cases es with
  | nil => exact pf_kw "(" [] ")" true (fun first => by simp [printExpr, g]) (by decide) rfl rfl
  | cons e r =>
    cases r with
    | nil => exact pf_kw "(" (printExpr true e ++ [g ","]) ")" true (fun first => by simp [printExpr, g]) (by decide) rfl rfl
    | cons e2 r2 =>
      exact pf_kw "(" (printArgs true (e :: e2 :: r2)) ")" true (fun first => by simp [printExpr, g]) (by decide) rfl rfl

theorem pf_list {es : List Expr} : PF (.list es) :=
  pf_kw "[" (printArgs true es) "]" true (fun first => by simp [printExpr, g]) (by decide) rfl rfl

theorem pf_mcall {r : Expr} {m : String} {args : List Expr} (pr : PF r) : PF (.mcall r m args) :=
  pf_post pr ([g ".", g m, g "("] ++ printArgs true args) ")" true (fun first => by simp [printExpr, g]) rfl rfl


/-! ### Pieces without newlines (type hints, parameters, destinations, patterns) -/

/-- a print-token list without newlines -/
def Flat (A : List PTok) : Prop := fl false A = false ∧ nlc A = 0

theorem Flat.nil : Flat [] := ⟨rfl, rfl⟩
theorem Flat.cons {s : String} {t : Bool} {A : List PTok} (h : Flat A) : Flat (PTok.t s t :: A) := ⟨h.1, h.2⟩
theorem Flat.append {A B : List PTok} (ha : Flat A) (hb : Flat B) : Flat (A ++ B) := by
  refine ⟨?_, ?_⟩
  · rw [fl_append, ha.1, hb.1]
  · rw [nlc_append, ha.2, hb.2]

theorem lex_flat {A : List PTok} (h : Flat A) (ln : Nat) (B : List PTok) :
    lexAux false ln (A ++ B) = lexAux false ln A ++ lexAux false ln B := by
  rw [lexAux_append, h.1, h.2]; rfl

/-- Type hints the grammar can express. -/
inductive WTH : TypeHint → Prop
  | named {name : String} {args : List TypeHint} : ValidName name → name ≠ "Tuple" → (∀ a ∈ args, WTH a) →
      WTH (.mk name args)
  | tuple {args : List TypeHint} : (∀ a ∈ args, WTH a) → WTH (.mk "Tuple" args)

theorem printHints_flat (args : List TypeHint) (h : ∀ a ∈ args, Flat (printHint a)) : Flat (printHints args) := by
  induction args with
  | nil => simp [printHints]; exact Flat.nil
  | cons a r ih =>
    cases r with
    | nil => simp [printHints]; exact h a (List.mem_cons_self ..)
    | cons a2 r2 =>
      have : printHints (a :: a2 :: r2) = printHint a ++ ([g ","] ++ printHints (a2 :: r2)) := by simp [printHints]
      rw [this]
      exact (h a (List.mem_cons_self ..)).append (Flat.cons (ih (fun x hx => h x (List.mem_cons_of_mem _ hx))))

theorem hint_flat {h : TypeHint} (wh : WTH h) : Flat (printHint h) := by
  induction wh with
  | @named name args hn hnt _ ih =>
    have hne : (name == "Tuple") = false := by simp [hnt]
    have := printHints_flat args ih
    cases args with
    | nil => simp [printHint, hne, w]; exact Flat.cons Flat.nil
    | cons a r =>
      simp only [printHint, hne, Bool.false_eq_true, ↓reduceIte, w, g]
      exact Flat.cons (Flat.cons (this.append (Flat.cons Flat.nil)))
  | @tuple args _ ih =>
    have := printHints_flat args ih
    simp only [printHint, beq_self_eq_true, ↓reduceIte, w, g]
    exact Flat.cons (this.append (Flat.cons Flat.nil))

def TH (ln : Nat) (h : TypeHint) : List Tok := lexAux false ln (printHint h)
def THs (ln : Nat) (hs : List TypeHint) : List Tok := lexAux false ln (printHints hs)

/-- what the first token of a hint is -/
def HintStart (s : String) : Prop := ValidName s ∨ s = "("

theorem HintStart.ne {s : String} (h : HintStart s) : s ≠ ">" ∧ s ≠ ")" ∧ s ≠ "," ∧ s ≠ "<" := by
  rcases h with h | rfl
  · exact ⟨ne_of_isSymbolTok h.sym (by decide), ne_of_isSymbolTok h.sym (by decide), ne_of_isSymbolTok h.sym (by decide),
      ne_of_isSymbolTok h.sym (by decide)⟩
  · exact ⟨by decide, by decide, by decide, by decide⟩

theorem hint_print_head {h : TypeHint} (wh : WTH h) : ∃ s X, printHint h = w s :: X ∧ HintStart s := by
  cases wh with
  | @named name args hn hnt _ =>
    have hne : (name == "Tuple") = false := by simp [hnt]
    cases args with
    | nil => exact ⟨name, [], by simp [printHint, hne], Or.inl hn⟩
    | cons a r => exact ⟨name, _, by simp only [printHint, hne, Bool.false_eq_true, ↓reduceIte]; rfl, Or.inl hn⟩
  | @tuple args _ => exact ⟨"(", _, by simp only [printHint, beq_self_eq_true, ↓reduceIte]; rfl, Or.inr rfl⟩

theorem hint_head {h : TypeHint} (wh : WTH h) (ln : Nat) : ∃ s tl, TH ln h = tk s false ln :: tl ∧ HintStart s := by
  obtain ⟨s, X, h1, h2⟩ := hint_print_head wh
  exact ⟨s, lexAux false ln X, by simp [TH, h1, w, lexAux, tk], h2⟩

theorem THs_one (a : TypeHint) (ln : Nat) : THs ln [a] = TH ln a := by simp [THs, TH, printHints]

theorem THs_cons2 (a a2 : TypeHint) (r2 : List TypeHint) (wa : WTH a) (ln : Nat) :
    THs ln (a :: a2 :: r2) = TH ln a ++ tk "," true ln :: THs ln (a2 :: r2) := by
  have : printHints (a :: a2 :: r2) = printHint a ++ ([g ","] ++ printHints (a2 :: r2)) := by simp [printHints]
  simp only [THs, this]
  rw [lex_flat (hint_flat wa)]
  simp [TH, lexAux, tk, g]

/-- `parse_type_hint` returns exactly `h` on its canonical text. -/
def HOk (h : TypeHint) (N : Nat) : Prop :=
  ∀ (fuel ln i : Nat) (rest : List Tok) (d : List DiagKind) (toks : Toks), N ≤ fuel →
    D toks i (TH ln h ++ rest) → (∀ t, rest.head? = some t → t.text ≠ "<") →
    Ok (parseTypeHint toks false fuel) ⟨i, d⟩ (fun r s' => r = h ∧ s' = ⟨i + (TH ln h).length, d⟩)

theorem typeArgsLoop_ok (args : List TypeHint) (hw : ∀ a ∈ args, WTH a) (hok : ∀ a ∈ args, ∃ N, HOk a N)
    (hne : args ≠ []) :
    ∃ N, ∀ (fuel ln i : Nat) (rest : List Tok) (d : List DiagKind) (toks : Toks) (acc : List TypeHint),
      N ≤ fuel → D toks i (THs ln args ++ tk ">" true ln :: rest) →
      Ok (typeArgsLoop toks false fuel acc) ⟨i, d⟩
        (fun r s' => r = acc ++ args ∧ s' = ⟨i + (THs ln args).length, d⟩) := by
  induction args with
  | nil => exact absurd rfl hne
  | cons a r ih =>
    obtain ⟨na, hna⟩ := hok a (List.mem_cons_self ..)
    have wa := hw a (List.mem_cons_self ..)
    cases r with
    | nil =>
      refine ⟨na + 1, ?_⟩
      intro fuel ln i rest d toks acc hf hD
      obtain ⟨f, rfl⟩ : ∃ f, fuel = f + 1 := ⟨fuel - 1, by omega⟩
      rw [THs_one] at hD ⊢
      obtain ⟨s0, tl0, hT0, hs0⟩ := hint_head wa ln
      have h0 : toks[i]? = some (tk s0 false ln) := by
        have := hD.head?; rw [hT0] at this; simpa using this
      have hres := hna f ln i _ d toks (by omega) hD (by intro t ht; simp at ht; subst ht; simp)
      have hclose := hD.skip.head
      rw [typeArgsLoop]
      oksimp
      simp only [h0, tk_text, show (s0 == ">") = false by simp [hs0.ne.1], Bool.false_eq_true, ↓reduceIte,
        Option.isNone_some, Bool.and_false]
      refine ok_mono hres ?_
      rintro r1 s1 ⟨rfl, rfl⟩
      simp [hclose, TokI.text, ok_pure]
    | cons a2 r2 =>
      obtain ⟨N', hN'⟩ := ih (fun x hx => hw x (List.mem_cons_of_mem _ hx)) (fun x hx => hok x (List.mem_cons_of_mem _ hx))
        (by simp)
      refine ⟨na + N' + 1, ?_⟩
      intro fuel ln i rest d toks acc hf hD
      obtain ⟨f, rfl⟩ : ∃ f, fuel = f + 1 := ⟨fuel - 1, by omega⟩
      rw [THs_cons2 a a2 r2 wa] at hD ⊢
      have hD' : D toks i (TH ln a ++ (tk "," true ln :: (THs ln (a2 :: r2) ++ tk ">" true ln :: rest))) := by
        simpa [List.append_assoc] using hD
      obtain ⟨s0, tl0, hT0, hs0⟩ := hint_head wa ln
      have h0 : toks[i]? = some (tk s0 false ln) := by
        have := hD'.head?; rw [hT0] at this; simpa using this
      have hres := hna f ln i _ d toks (by omega) hD' (by intro t ht; simp at ht; subst ht; simp)
      have hcomma := hD'.skip.head
      have hrec := hN' f ln (i + (TH ln a).length + 1) rest d toks (acc ++ [a]) (by omega) hD'.skip.tail
      rw [typeArgsLoop]
      oksimp
      simp only [h0, tk_text, show (s0 == ">") = false by simp [hs0.ne.1], Bool.false_eq_true, ↓reduceIte,
        Option.isNone_some, Bool.and_false]
      refine ok_mono hres ?_
      rintro r1 s1 ⟨rfl, rfl⟩
      simp only [hcomma, Option.map_some, TokI.text, tk_text, beq_self_eq_true, ↓reduceIte]
      oksimp
      simp only [hcomma]
      refine ok_mono hrec ?_
      rintro r2' s2 ⟨h1, h2⟩
      refine ⟨by simp [h1], ?_⟩
      rw [h2]; simp; omega

theorem tupleHintLoop_ok (args : List TypeHint) (hw : ∀ a ∈ args, WTH a) (hok : ∀ a ∈ args, ∃ N, HOk a N) :
    ∃ N, ∀ (fuel ln i : Nat) (rest : List Tok) (d : List DiagKind) (toks : Toks) (acc : List TypeHint),
      N ≤ fuel → D toks i (THs ln args ++ tk ")" true ln :: rest) →
      Ok (tupleHintLoop toks false fuel acc) ⟨i, d⟩
        (fun r s' => r = acc ++ args ∧ s' = ⟨i + (THs ln args).length, d⟩) := by
  induction args with
  | nil =>
    refine ⟨1, ?_⟩
    intro fuel ln i rest d toks acc hf hD
    obtain ⟨f, rfl⟩ : ∃ f, fuel = f + 1 := ⟨fuel - 1, by omega⟩
    have hT : THs ln [] = [] := by simp [THs, printHints, lexAux]
    rw [hT] at hD ⊢
    replace hD : D toks i (tk ")" true ln :: rest) := by simpa using hD
    have h0 := hD.head
    rw [tupleHintLoop]
    oksimp
    simp [h0, ok_pure]
  | cons a r ih =>
    obtain ⟨na, hna⟩ := hok a (List.mem_cons_self ..)
    have wa := hw a (List.mem_cons_self ..)
    obtain ⟨N', hN'⟩ := ih (fun x hx => hw x (List.mem_cons_of_mem _ hx)) (fun x hx => hok x (List.mem_cons_of_mem _ hx))
    refine ⟨na + N' + 1, ?_⟩
    intro fuel ln i rest d toks acc hf hD
    obtain ⟨f, rfl⟩ : ∃ f, fuel = f + 1 := ⟨fuel - 1, by omega⟩
    obtain ⟨s0, tl0, hT0, hs0⟩ := hint_head wa ln
    cases r with
    | nil =>
      rw [THs_one] at hD ⊢
      have h0 : toks[i]? = some (tk s0 false ln) := by
        have := hD.head?; rw [hT0] at this; simpa using this
      have hres := hna f ln i _ d toks (by omega) hD (by intro t ht; simp at ht; subst ht; simp)
      have hclose := hD.skip.head
      rw [tupleHintLoop]
      oksimp
      simp only [h0, tk_text, show (s0 == ")") = false by simp [hs0.ne.2.1], Bool.false_eq_true, ↓reduceIte]
      refine ok_mono hres ?_
      rintro r1 s1 ⟨rfl, rfl⟩
      simp [hclose, TokI.text, ok_pure]
    | cons a2 r2 =>
      rw [THs_cons2 a a2 r2 wa] at hD ⊢
      have hD' : D toks i (TH ln a ++ (tk "," true ln :: (THs ln (a2 :: r2) ++ tk ")" true ln :: rest))) := by
        simpa [List.append_assoc] using hD
      have h0 : toks[i]? = some (tk s0 false ln) := by
        have := hD'.head?; rw [hT0] at this; simpa using this
      have hres := hna f ln i _ d toks (by omega) hD' (by intro t ht; simp at ht; subst ht; simp)
      have hcomma := hD'.skip.head
      have hrec := hN' f ln (i + (TH ln a).length + 1) rest d toks (acc ++ [a]) (by omega) hD'.skip.tail
      rw [tupleHintLoop]
      oksimp
      simp only [h0, tk_text, show (s0 == ")") = false by simp [hs0.ne.2.1], Bool.false_eq_true, ↓reduceIte]
      have hlt : i < i + (TH ln a).length + 1 := by omega
      refine ok_mono hres ?_
      rintro r1 s1 ⟨rfl, rfl⟩
      simp only [hcomma, Option.map_some, TokI.text, tk_text, show (("," : String) == ")") = false by decide,
        beq_self_eq_true, Bool.false_eq_true, ↓reduceIte]
      oksimp
      simp only [hcomma]
      simp only [gt_iff_lt, hlt, ↓reduceIte]
      refine ok_mono hrec ?_
      rintro r2' s2 ⟨h1, h2⟩
      refine ⟨by simp [h1], ?_⟩
      rw [h2]; simp; omega

theorem hint_ok {h : TypeHint} (wh : WTH h) : ∃ N, HOk h N := by
  induction wh with
  | @named name args hn hnt hw ih =>
    have hne : (name == "Tuple") = false := by simp [hnt]
    cases args with
    | nil =>
      refine ⟨2, ?_⟩
      intro fuel ln i rest d toks hf hD hfol
      obtain ⟨f, rfl⟩ : ∃ f, fuel = f + 2 := ⟨fuel - 2, by omega⟩
      have hT : TH ln (.mk name []) = [tk name false ln] := by simp [TH, printHint, hne, w, lexAux, tk]
      rw [hT] at hD ⊢
      replace hD : D toks i (tk name false ln :: rest) := by simpa using hD
      have h0 := hD.head
      have h1 := hD.second
      have hno : (match toks[i + 1]? with | some t => t.text == "<" | none => false) = false := by
        rw [h1]
        cases hr : rest.head? with
        | none => rfl
        | some t => simp; exact hfol t hr
      rw [parseTypeHint]
      oksimp
      simp only [h0, tk_text, hn.beq_nonsym (lit := "(") (by decide), Bool.false_eq_true, ↓reduceIte]
      rw [ok_det (parseSymbol_ok toks i d _ h0 hn)]
      rw [parseTypeArguments]
      oksimp
      rw [h1]
      cases hr : rest.head? with
      | none => simp [ok_pure, hne]
      | some t => have := hfol t hr; simp [ok_pure, hne, this]
    | cons a r =>
      obtain ⟨NL, hNL⟩ := typeArgsLoop_ok (a :: r) hw ih (by simp)
      refine ⟨NL + 2, ?_⟩
      intro fuel ln i rest d toks hf hD hfol
      obtain ⟨f, rfl⟩ : ∃ f, fuel = f + 2 := ⟨fuel - 2, by omega⟩
      have hT : TH ln (.mk name (a :: r)) = tk name false ln :: tk "<" true ln :: (THs ln (a :: r) ++ [tk ">" true ln]) := by
        have hfl : Flat (printHints (a :: r)) := printHints_flat _ (fun x hx => hint_flat (hw x hx))
        simp only [TH, printHint, hne, Bool.false_eq_true, ↓reduceIte, List.cons_append, List.nil_append, w, g, lexAux_tok]
        rw [lex_flat hfl]
        simp [THs, lexAux, tk]
      rw [hT] at hD ⊢
      replace hD : D toks i (tk name false ln :: tk "<" true ln :: (THs ln (a :: r) ++ tk ">" true ln :: rest)) := by
        simpa [List.append_assoc] using hD
      have h0 := hD.head
      have hD1 := hD.tail
      have h1 := hD1.head
      have hD2 := hD1.tail
      have hloop := hNL f ln (i + 1 + 1) rest d toks [] (by omega) hD2
      have hclose := hD2.skip.head
      rw [parseTypeHint]
      oksimp
      simp only [h0, tk_text, hn.beq_nonsym (lit := "(") (by decide), Bool.false_eq_true, ↓reduceIte]
      rw [ok_det (parseSymbol_ok toks i d _ h0 hn)]
      rw [parseTypeArguments]
      oksimp
      simp only [h1, tk_text, beq_self_eq_true, Bool.not_true, Bool.false_eq_true, ↓reduceIte]
      rw [ok_det (requireToken_ok toks "<" (i + 1) d _ h1 rfl)]
      refine ok_mono hloop ?_
      rintro r1 s1 ⟨hr, rfl⟩
      rw [ok_det (requireToken_ok toks ">" _ d _ hclose rfl)]
      simp [ok_pure, hne, hr]
      omega
  | @tuple args hw ih =>
    obtain ⟨NL, hNL⟩ := tupleHintLoop_ok args hw ih
    refine ⟨NL + 2, ?_⟩
    intro fuel ln i rest d toks hf hD hfol
    obtain ⟨f, rfl⟩ : ∃ f, fuel = f + 2 := ⟨fuel - 2, by omega⟩
    have hT : TH ln (.mk "Tuple" args) = tk "(" false ln :: (THs ln args ++ [tk ")" true ln]) := by
      have hfl : Flat (printHints args) := printHints_flat _ (fun x hx => hint_flat (hw x hx))
      simp only [TH, printHint, beq_self_eq_true, ↓reduceIte, List.cons_append, List.nil_append, w, g, lexAux_tok]
      rw [lex_flat hfl]
      simp [THs, lexAux, tk]
    rw [hT] at hD ⊢
    replace hD : D toks i (tk "(" false ln :: (THs ln args ++ tk ")" true ln :: rest)) := by
      simpa [List.append_assoc] using hD
    have h0 := hD.head
    have hD1 := hD.tail
    have hloop := hNL f ln (i + 1) rest d toks [] (by omega) hD1
    have hclose := hD1.skip.head
    rw [parseTypeHint]
    oksimp
    simp only [h0, tk_text, beq_self_eq_true, ↓reduceIte]
    rw [parseTupleTypeHint]
    oksimp
    rw [ok_det (requireToken_ok toks "(" i d _ h0 rfl)]
    refine ok_mono hloop ?_
    rintro r1 s1 ⟨hr, rfl⟩
    rw [ok_det (requireToken_ok toks ")" _ d _ hclose rfl)]
    simp [ok_pure, hr]
    omega

/-! ### Optional hints, parameters, destinations, patterns, type parameters -/

def WTHO : Option TypeHint → Prop
  | none => True
  | some h => WTH h

def THO (ln : Nat) (ho : Option TypeHint) : List Tok := lexAux false ln (printHintOpt ho)

theorem hintOpt_flat {ho : Option TypeHint} (wh : WTHO ho) : Flat (printHintOpt ho) := by
  cases ho with
  | none => exact Flat.nil
  | some h => exact Flat.cons (hint_flat wh)

/-- a token that is neither `:` nor a plain symbol nor `<` (what follows an optional hint) -/
def NoHint (rest : List Tok) : Prop :=
  ∀ t, rest.head? = some t → t.text ≠ "<" ∧ t.text ≠ ":" ∧ (isSymbolTok t.text = false ∨ keywords.contains t.text = true)

theorem noHint_tok {s : String} {tt : Bool} {l : Nat} {rest : List Tok}
    (h : s = "=" ∨ s = "," ∨ s = ")" ∨ s = "{") : NoHint (tk s tt l :: rest) := by
  intro t ht; simp at ht; subst ht
  simp only [tk_text]
  rcases h with rfl | rfl | rfl | rfl <;> exact ⟨by decide, by decide, Or.inl (by decide)⟩

theorem hintOpt_ok {ho : Option TypeHint} (wh : WTHO ho) :
    ∃ N, ∀ (fuel ln i : Nat) (rest : List Tok) (d : List DiagKind) (toks : Toks), N ≤ fuel →
      D toks i (THO ln ho ++ rest) → NoHint rest →
      Ok (parseColonAndHintOpt toks false fuel) ⟨i, d⟩ (fun r s' => r = ho ∧ s' = ⟨i + (THO ln ho).length, d⟩) := by
  cases ho with
  | none =>
    refine ⟨0, ?_⟩
    intro fuel ln i rest d toks _ hD hno
    have hT : THO ln none = [] := by simp [THO, printHintOpt, lexAux]
    rw [hT] at hD ⊢
    replace hD : D toks i rest := by simpa using hD
    have h0 := hD.head?
    simp only [parseColonAndHintOpt]
    oksimp
    rw [h0]
    cases hr : rest.head? with
    | none => simp [ok_pure]
    | some t =>
      obtain ⟨_, h2, h3⟩ := hno t hr
      have h2' : (t.text == ":") = false := by simp [h2]
      have h3' : (isSymbolTok t.text && !keywords.contains t.text) = false := by
        rcases h3 with h3 | h3
        · simp [h3]
        · rw [h3]; simp
      simp only [Option.map_some, TokI.text, h2', h3', Bool.false_eq_true, ↓reduceIte]
      simp [ok_pure]
  | some h =>
    obtain ⟨N, hN⟩ := hint_ok wh
    refine ⟨N, ?_⟩
    intro fuel ln i rest d toks hf hD hno
    have hT : THO ln (some h) = tk ":" true ln :: TH ln h := by simp [THO, TH, printHintOpt, lexAux, tk, g]
    rw [hT] at hD ⊢
    replace hD : D toks i (tk ":" true ln :: (TH ln h ++ rest)) := by simpa using hD
    have h0 := hD.head
    have hres := hN fuel ln (i + 1) rest d toks hf hD.tail (fun t ht => (hno t ht).1)
    simp only [parseColonAndHintOpt]
    oksimp
    simp only [h0, Option.map_some, TokI.text, tk_text, beq_self_eq_true, ↓reduceIte]
    simp only [parseColonAnd]
    oksimp
    rw [ok_det (requireToken_ok toks ":" i d _ h0 rfl)]
    refine ok_mono hres ?_
    rintro r s1 ⟨rfl, rfl⟩
    simp; omega

/-- no repeated names (as `dupDiags` sees them: `_` may repeat) -/
def dupFree : List String → List String → Bool
  | [], _ => true
  | x :: xs, seen => if x == "_" then dupFree xs seen else if seen.contains x then false else dupFree xs (x :: seen)

theorem dupDiags_ok (xs seen : List String) (h : dupFree xs seen = true) (s : St) : dupDiags xs seen s = .ok () s := by
  induction xs generalizing seen with
  | nil => rfl
  | cons x xs ih =>
    unfold dupFree at h
    unfold dupDiags
    by_cases h1 : (x == "_") = true
    · simp only [h1, ↓reduceIte] at h ⊢; exact ih seen h
    · simp only [h1, Bool.false_eq_true, ↓reduceIte] at h ⊢
      by_cases h2 : seen.contains x = true
      · exfalso; simp at h2; simp [h2] at h
      · simp only [h2, Bool.false_eq_true, ↓reduceIte] at h ⊢; exact ih _ h

theorem commaJoin_flat (xs : List (List PTok)) (h : ∀ x ∈ xs, Flat x) : Flat (commaJoin xs) := by
  induction xs with
  | nil => exact Flat.nil
  | cons x r ih =>
    cases r with
    | nil => simpa [commaJoin] using h x (List.mem_cons_self ..)
    | cons y r2 =>
      have : commaJoin (x :: y :: r2) = x ++ ([g ","] ++ commaJoin (y :: r2)) := by simp [commaJoin]
      rw [this]
      exact (h x (List.mem_cons_self ..)).append (Flat.cons (ih (fun z hz => h z (List.mem_cons_of_mem _ hz))))

/-- names glued with commas -/
def TNs (ln : Nat) (xs : List String) : List Tok := lexAux false ln (commaJoin (xs.map fun x => [g x]))

theorem names_flat (xs : List String) : Flat (commaJoin (xs.map fun x => [g x])) :=
  commaJoin_flat _ (by intro x hx; simp at hx; obtain ⟨a, _, rfl⟩ := hx; exact Flat.cons Flat.nil)

theorem TNs_nil (ln : Nat) : TNs ln [] = [] := by simp [TNs, commaJoin, lexAux]
theorem TNs_one (ln : Nat) (x : String) : TNs ln [x] = [tk x true ln] := by simp [TNs, commaJoin, lexAux, tk, g]
theorem TNs_cons2 (ln : Nat) (x y : String) (r : List String) :
    TNs ln (x :: y :: r) = tk x true ln :: tk "," true ln :: TNs ln (y :: r) := by
  simp [TNs, commaJoin, lexAux, tk, g]

theorem checkRequiredToken_ok (toks : Toks) (x : String) (i : Nat) (d : List DiagKind) (t : Tok)
    (h : toks[i]? = some t) (hx : t.text = x) :
    checkRequiredToken toks x ⟨i, d⟩ = .ok (true, ⟨t, i⟩) ⟨i + 1, d⟩ := by
  simp [checkRequiredToken, bind_apply, P.bind, pure_apply, prev, pop, h, TokI.text, hx]

/-! #### Parameters -/

structure WTP (p : Param) : Prop where
  name : ValidName p.name
  hint : WTHO p.hint

def TP (ln : Nat) (p : Param) : List Tok := lexAux false ln (printParam p)
def TPs (ln : Nat) (ps : List Param) : List Tok := lexAux false ln (commaJoin (ps.map printParam))

theorem param_flat {p : Param} (wp : WTP p) : Flat (printParam p) := Flat.cons (hintOpt_flat wp.hint)

theorem TP_eq (ln : Nat) (p : Param) : TP ln p = tk p.name true ln :: THO ln p.hint := by
  simp [TP, THO, printParam, lexAux, tk, g]

theorem TPs_nil (ln : Nat) : TPs ln [] = [] := by simp [TPs, commaJoin, lexAux]
theorem TPs_one (ln : Nat) (p : Param) : TPs ln [p] = TP ln p := by simp [TPs, TP, commaJoin]
theorem TPs_cons2 (ln : Nat) (p p2 : Param) (r : List Param) (wp : WTP p) :
    TPs ln (p :: p2 :: r) = TP ln p ++ tk "," true ln :: TPs ln (p2 :: r) := by
  have : commaJoin ((p :: p2 :: r).map printParam) = printParam p ++ ([g ","] ++ commaJoin ((p2 :: r).map printParam)) := by
    simp [commaJoin]
  simp only [TPs, this]
  rw [lex_flat (param_flat wp)]
  simp [TP, lexAux, tk, g]

theorem params_flat (ps : List Param) (hw : ∀ p ∈ ps, WTP p) : Flat (commaJoin (ps.map printParam)) :=
  commaJoin_flat _ (by intro x hx; simp at hx; obtain ⟨a, ha, rfl⟩ := hx; exact param_flat (hw a ha))

theorem paramsLoop_ok (ps : List Param) (hw : ∀ p ∈ ps, WTP p) :
    ∃ N, ∀ (fuel ln i : Nat) (rest : List Tok) (d : List DiagKind) (toks : Toks) (acc : List Param),
      N ≤ fuel → D toks i (TPs ln ps ++ tk ")" true ln :: rest) →
      Ok (paramsLoop toks false fuel acc) ⟨i, d⟩ (fun r s' => r = acc ++ ps ∧ s' = ⟨i + (TPs ln ps).length, d⟩) := by
  induction ps with
  | nil =>
    refine ⟨1, ?_⟩
    intro fuel ln i rest d toks acc hf hD
    obtain ⟨f, rfl⟩ : ∃ f, fuel = f + 1 := ⟨fuel - 1, by omega⟩
    rw [TPs_nil] at hD ⊢
    replace hD : D toks i (tk ")" true ln :: rest) := by simpa using hD
    have h0 := hD.head
    rw [paramsLoop]
    oksimp
    simp [h0, ok_pure]
  | cons p r ih =>
    have wp := hw p (List.mem_cons_self ..)
    obtain ⟨NH, hNH⟩ := hintOpt_ok wp.hint
    obtain ⟨N', hN'⟩ := ih (fun x hx => hw x (List.mem_cons_of_mem _ hx))
    refine ⟨NH + N' + 1, ?_⟩
    intro fuel ln i rest d toks acc hf hD
    obtain ⟨f, rfl⟩ : ∃ f, fuel = f + 1 := ⟨fuel - 1, by omega⟩
    have hnp : (p.name == ")") = false := wp.name.beq_nonsym (by decide)
    cases r with
    | nil =>
      rw [TPs_one, TP_eq] at hD ⊢
      replace hD : D toks i (tk p.name true ln :: (THO ln p.hint ++ tk ")" true ln :: rest)) := by simpa using hD
      have h0 := hD.head
      have hD1 := hD.tail
      have hh := hNH f ln (i + 1) _ d toks (by omega) hD1 (noHint_tok (Or.inr (Or.inr (Or.inl rfl))))
      have hclose := hD1.skip.head
      rw [paramsLoop]
      oksimp
      simp only [h0, tk_text, hnp, Bool.false_eq_true, ↓reduceIte]
      simp only [parseParameter]
      oksimp
      rw [ok_det (parseSymbol_ok toks i d _ h0 wp.name)]
      refine ok_mono hh ?_
      rintro r1 s1 ⟨rfl, rfl⟩
      simp [hclose, TokI.text, ok_pure]
      omega
    | cons p2 r2 =>
      rw [TPs_cons2 ln p p2 r2 wp, TP_eq] at hD ⊢
      replace hD : D toks i (tk p.name true ln :: (THO ln p.hint ++ (tk "," true ln ::
          (TPs ln (p2 :: r2) ++ tk ")" true ln :: rest)))) := by simpa [List.append_assoc] using hD
      have h0 := hD.head
      have hD1 := hD.tail
      have hh := hNH f ln (i + 1) _ d toks (by omega) hD1 (noHint_tok (Or.inr (Or.inl rfl)))
      have hcomma := hD1.skip.head
      have hrec := hN' f ln (i + 1 + (THO ln p.hint).length + 1) rest d toks (acc ++ [p]) (by omega) hD1.skip.tail
      have hlt : i < i + 1 + (THO ln p.hint).length + 1 := by omega
      rw [paramsLoop]
      oksimp
      simp only [h0, tk_text, hnp, Bool.false_eq_true, ↓reduceIte]
      simp only [parseParameter]
      oksimp
      rw [ok_det (parseSymbol_ok toks i d _ h0 wp.name)]
      refine ok_mono hh ?_
      rintro r1 s1 ⟨rfl, rfl⟩
      simp only [hcomma, Option.map_some, TokI.text, tk_text, beq_self_eq_true, ↓reduceIte]
      oksimp
      simp only [hcomma]
      simp only [gt_iff_lt, hlt, ↓reduceIte]
      refine ok_mono hrec ?_
      rintro r2' s2 ⟨h1, h2⟩
      refine ⟨by simp [h1], ?_⟩
      rw [h2]; simp; omega

def TParams (ln : Nat) (ps : List Param) : List Tok := lexAux false ln (printParams ps)

theorem TParams_eq (ln : Nat) (ps : List Param) (hw : ∀ p ∈ ps, WTP p) :
    TParams ln ps = tk "(" true ln :: (TPs ln ps ++ [tk ")" true ln]) := by
  simp only [TParams, printParams, List.cons_append, List.nil_append, g, lexAux_tok]
  rw [lex_flat (params_flat ps hw)]
  simp [TPs, lexAux, tk]

theorem params_ok (ps : List Param) (hw : ∀ p ∈ ps, WTP p) (hdup : dupFree (ps.map (·.name)) [] = true) :
    ∃ N, ∀ (fuel ln i : Nat) (rest : List Tok) (d : List DiagKind) (toks : Toks),
      N ≤ fuel → D toks i (TParams ln ps ++ rest) →
      Ok (parseParameters toks false fuel) ⟨i, d⟩ (fun r s' => r = ps ∧ s' = ⟨i + (TParams ln ps).length, d⟩) := by
  obtain ⟨N, hN⟩ := paramsLoop_ok ps hw
  refine ⟨N, ?_⟩
  intro fuel ln i rest d toks hf hD
  rw [TParams_eq ln ps hw] at hD ⊢
  replace hD : D toks i (tk "(" true ln :: (TPs ln ps ++ tk ")" true ln :: rest)) := by
    simpa [List.append_assoc] using hD
  have h0 := hD.head
  have hloop := hN fuel ln (i + 1) rest d toks [] hf hD.tail
  have hclose := hD.tail.skip.head
  simp only [parseParameters]
  oksimp
  rw [ok_det (checkRequiredToken_ok toks "(" i d _ h0 rfl)]
  simp only [Bool.not_true, Bool.false_eq_true, ↓reduceIte]
  (try oksimp)
  refine ok_mono hloop ?_
  rintro r1 s1 ⟨hr, rfl⟩
  rw [ok_det (requireToken_ok toks ")" _ d _ hclose rfl)]
  simp only [List.nil_append] at hr
  subst hr
  rw [ok_det (dupDiags_ok _ _ hdup _)]
  simp; omega

/-! #### Destinations, patterns, type parameters -/

inductive WTD : LetDest → Prop
  | sym {x : String} : ValidName x → WTD (.sym x)
  | destr {xs : List String} : (∀ x ∈ xs, ValidName x) → dupFree xs [] = true → WTD (.destr xs)

def TD (ln : Nat) (dst : LetDest) : List Tok := lexAux false ln (printDest dst)

theorem dest_flat (dst : LetDest) : Flat (printDest dst) := by
  cases dst with
  | sym x => exact Flat.cons Flat.nil
  | destr xs => exact Flat.cons ((names_flat xs).append (Flat.cons Flat.nil))

theorem TD_sym (ln : Nat) (x : String) : TD ln (.sym x) = [tk x false ln] := by simp [TD, printDest, lexAux, tk, w]
theorem TD_destr (ln : Nat) (xs : List String) :
    TD ln (.destr xs) = tk "(" false ln :: (TNs ln xs ++ [tk ")" true ln]) := by
  simp only [TD, printDest, List.cons_append, List.nil_append, w, lexAux_tok]
  rw [lex_flat (names_flat xs)]
  simp [TNs, lexAux, tk, g]

theorem destLoop_ok (xs : List String) (hv : ∀ x ∈ xs, ValidName x) :
    ∃ N, ∀ (fuel ln i : Nat) (rest : List Tok) (d : List DiagKind) (toks : Toks) (acc : List String),
      N ≤ fuel → D toks i (TNs ln xs ++ tk ")" true ln :: rest) →
      Ok (destLoop toks false fuel acc) ⟨i, d⟩ (fun r s' => r = acc ++ xs ∧ s' = ⟨i + (TNs ln xs).length + 1, d⟩) := by
  induction xs with
  | nil =>
    refine ⟨1, ?_⟩
    intro fuel ln i rest d toks acc hf hD
    obtain ⟨f, rfl⟩ : ∃ f, fuel = f + 1 := ⟨fuel - 1, by omega⟩
    rw [TNs_nil] at hD ⊢
    replace hD : D toks i (tk ")" true ln :: rest) := by simpa using hD
    have h0 := hD.head
    rw [destLoop]
    oksimp
    simp [h0, ok_pure]
  | cons x r ih =>
    have vx := hv x (List.mem_cons_self ..)
    obtain ⟨N', hN'⟩ := ih (fun y hy => hv y (List.mem_cons_of_mem _ hy))
    refine ⟨N' + 1, ?_⟩
    intro fuel ln i rest d toks acc hf hD
    obtain ⟨f, rfl⟩ : ∃ f, fuel = f + 1 := ⟨fuel - 1, by omega⟩
    have hnp : (x == ")") = false := vx.beq_nonsym (by decide)
    have hph : PSym.isPlaceholder ⟨x, ⟨ln, i + 1⟩⟩ = false := by simpa [PSym.isPlaceholder] using vx.notPh
    cases r with
    | nil =>
      rw [TNs_one] at hD ⊢
      replace hD : D toks i (tk x true ln :: tk ")" true ln :: rest) := by simpa using hD
      have h0 := hD.head
      have h1 := hD.tail.head
      have hrec := hN' f ln (i + 1) rest d toks (acc ++ [x]) (by omega) (by rw [TNs_nil]; simpa using hD.tail)
      rw [destLoop]
      oksimp
      simp only [h0, tk_text, hnp, Bool.false_eq_true, ↓reduceIte]
      rw [ok_det (parseSymbol_ok toks i d _ h0 vx)]
      simp only [tk_text, tk_line, hph, h1, Bool.false_and, Bool.false_eq_true, ↓reduceIte, beq_self_eq_true,
        Bool.not_true]
      (try oksimp)
      have hlt : i < i + 1 := by omega
      simp only [gt_iff_lt, hlt, ↓reduceIte]
      refine ok_mono hrec ?_
      rintro r2' s2 ⟨e1, e2⟩
      refine ⟨by simp [e1], ?_⟩
      rw [e2]; simp [TNs_nil]
    | cons y r2 =>
      rw [TNs_cons2] at hD ⊢
      replace hD : D toks i (tk x true ln :: tk "," true ln :: (TNs ln (y :: r2) ++ tk ")" true ln :: rest)) := by
        simpa using hD
      have h0 := hD.head
      have h1 := hD.tail.head
      have hrec := hN' f ln (i + 1 + 1) rest d toks (acc ++ [x]) (by omega) hD.tail.tail
      rw [destLoop]
      oksimp
      simp only [h0, tk_text, hnp, Bool.false_eq_true, ↓reduceIte]
      rw [ok_det (parseSymbol_ok toks i d _ h0 vx)]
      simp only [tk_text, tk_line, hph, h1, Bool.false_and, Bool.false_eq_true, ↓reduceIte,
        show (("," : String) == ")") = false by decide, Bool.not_false]
      (try oksimp)
      rw [ok_det (requireToken_ok toks "," (i + 1) d _ h1 rfl)]
      have hlt : i < i + 1 + 1 := by omega
      simp only [gt_iff_lt, hlt, ↓reduceIte]
      refine ok_mono hrec ?_
      rintro r2' s2 ⟨e1, e2⟩
      refine ⟨by simp [e1], ?_⟩
      rw [e2]; simp; omega

theorem dest_ok {dst : LetDest} (wd : WTD dst) :
    ∃ N, ∀ (fuel ln i : Nat) (rest : List Tok) (d : List DiagKind) (toks : Toks),
      N ≤ fuel → D toks i (TD ln dst ++ rest) →
      Ok (parseLetDestination toks false fuel) ⟨i, d⟩ (fun r s' => r = dst ∧ s' = ⟨i + (TD ln dst).length, d⟩) := by
  cases wd with
  | @sym x vx =>
    refine ⟨0, ?_⟩
    intro fuel ln i rest d toks _ hD
    rw [TD_sym] at hD ⊢
    replace hD : D toks i (tk x false ln :: rest) := by simpa using hD
    have h0 := hD.head
    simp only [parseLetDestination]
    oksimp
    simp only [h0, tk_text, vx.beq_nonsym (lit := "(") (by decide), Bool.false_eq_true, ↓reduceIte]
    rw [ok_det (parseSymbol_ok toks i d _ h0 vx)]
    simp [ok_pure]
  | @destr xs hv hdup =>
    obtain ⟨N, hN⟩ := destLoop_ok xs hv
    refine ⟨N, ?_⟩
    intro fuel ln i rest d toks hf hD
    rw [TD_destr] at hD ⊢
    replace hD : D toks i (tk "(" false ln :: (TNs ln xs ++ tk ")" true ln :: rest)) := by
      simpa [List.append_assoc] using hD
    have h0 := hD.head
    have hloop := hN fuel ln (i + 1) rest d toks [] hf hD.tail
    simp only [parseLetDestination]
    oksimp
    simp only [h0, tk_text, beq_self_eq_true, ↓reduceIte]
    refine ok_mono hloop ?_
    rintro r1 s1 ⟨hr, rfl⟩
    simp only [List.nil_append] at hr
    subst hr
    rw [ok_det (dupDiags_ok _ _ hdup _)]
    simp; omega

structure WTPat (p : Pattern) : Prop where
  variant : ValidName p.variant
  payload : ∀ dst, p.payload = some dst → WTD dst

def TPat (ln : Nat) (p : Pattern) : List Tok := lexAux false ln (printPattern p)

theorem pattern_flat (p : Pattern) : Flat (printPattern p) := by
  unfold printPattern
  cases p.payload with
  | none => exact Flat.cons Flat.nil
  | some dst => exact Flat.cons (Flat.cons ((dest_flat dst).append (Flat.cons Flat.nil)))

theorem pattern_ok {p : Pattern} (wp : WTPat p) :
    ∃ N, ∀ (fuel ln i : Nat) (rest : List Tok) (d : List DiagKind) (toks : Toks),
      N ≤ fuel → D toks i (TPat ln p ++ rest) → (∀ t, rest.head? = some t → t.text ≠ "(") →
      Ok (parsePattern toks false fuel) ⟨i, d⟩ (fun r s' => r = p ∧ s' = ⟨i + (TPat ln p).length, d⟩) := by
  obtain ⟨v, pl⟩ := p
  cases pl with
  | none =>
    refine ⟨0, ?_⟩
    intro fuel ln i rest d toks _ hD hno
    have hT : TPat ln ⟨v, none⟩ = [tk v false ln] := by simp [TPat, printPattern, lexAux, tk, w]
    rw [hT] at hD ⊢
    replace hD : D toks i (tk v false ln :: rest) := by simpa using hD
    have h0 := hD.head
    have h1 := hD.second
    simp only [parsePattern]
    oksimp
    rw [ok_det (parseSymbol_ok toks i d _ h0 wp.variant)]
    oksimp
    rw [h1]
    cases hr : rest.head? with
    | none => simp [ok_pure]
    | some t => have := hno t hr; simp [ok_pure, this]
  | some dst =>
    obtain ⟨N, hN⟩ := dest_ok (wp.payload dst rfl)
    refine ⟨N, ?_⟩
    intro fuel ln i rest d toks hf hD hno
    have hT : TPat ln ⟨v, some dst⟩ = tk v false ln :: tk "(" true ln :: (TD ln dst ++ [tk ")" true ln]) := by
      simp only [TPat, printPattern, List.cons_append, List.nil_append, w, g, lexAux_tok]
      rw [lex_flat (dest_flat dst)]
      simp [TD, lexAux, tk]
    rw [hT] at hD ⊢
    replace hD : D toks i (tk v false ln :: tk "(" true ln :: (TD ln dst ++ tk ")" true ln :: rest)) := by
      simpa [List.append_assoc] using hD
    have h0 := hD.head
    have h1 := hD.tail.head
    have hd := hN fuel ln (i + 1 + 1) _ d toks hf hD.tail.tail
    have hclose := hD.tail.tail.skip.head
    simp only [parsePattern]
    oksimp
    rw [ok_det (parseSymbol_ok toks i d _ h0 wp.variant)]
    oksimp
    simp only [h1, tk_text, beq_self_eq_true, ↓reduceIte]
    rw [ok_det (requireToken_ok toks "(" (i + 1) d _ h1 rfl)]
    refine ok_mono hd ?_
    rintro r1 s1 ⟨rfl, rfl⟩
    rw [ok_det (requireToken_ok toks ")" _ d _ hclose rfl)]
    simp [ok_pure]; omega

def TTP (ln : Nat) (ts : List String) : List Tok := lexAux false ln (printTParams ts)

theorem tparams_flat (ts : List String) : Flat (printTParams ts) := by
  cases ts with
  | nil => exact Flat.nil
  | cons x r => exact Flat.cons ((names_flat (x :: r)).append (Flat.cons Flat.nil))

theorem typeParamsLoop_ok (xs : List String) (hv : ∀ x ∈ xs, ValidName x) (hne : xs ≠ []) :
    ∃ N, ∀ (fuel ln i : Nat) (rest : List Tok) (d : List DiagKind) (toks : Toks) (acc : List String),
      N ≤ fuel → D toks i (TNs ln xs ++ tk ">" true ln :: rest) →
      Ok (typeParamsLoop toks false fuel acc) ⟨i, d⟩ (fun r s' => r = acc ++ xs ∧ s' = ⟨i + (TNs ln xs).length, d⟩) := by
  induction xs with
  | nil => exact absurd rfl hne
  | cons x r ih =>
    have vx := hv x (List.mem_cons_self ..)
    have hnp : (x == ">") = false := vx.beq_nonsym (by decide)
    cases r with
    | nil =>
      refine ⟨1, ?_⟩
      intro fuel ln i rest d toks acc hf hD
      obtain ⟨f, rfl⟩ : ∃ f, fuel = f + 1 := ⟨fuel - 1, by omega⟩
      rw [TNs_one] at hD ⊢
      replace hD : D toks i (tk x true ln :: tk ">" true ln :: rest) := by simpa using hD
      have h0 := hD.head
      have h1 := hD.tail.head
      rw [typeParamsLoop]
      oksimp
      simp only [h0, tk_text, hnp, Bool.false_eq_true, ↓reduceIte]
      rw [ok_det (parseSymbol_ok toks i d _ h0 vx)]
      simp [h1, TokI.text, ok_pure]
    | cons y r2 =>
      obtain ⟨N', hN'⟩ := ih (fun z hz => hv z (List.mem_cons_of_mem _ hz)) (by simp)
      refine ⟨N' + 1, ?_⟩
      intro fuel ln i rest d toks acc hf hD
      obtain ⟨f, rfl⟩ : ∃ f, fuel = f + 1 := ⟨fuel - 1, by omega⟩
      rw [TNs_cons2] at hD ⊢
      replace hD : D toks i (tk x true ln :: tk "," true ln :: (TNs ln (y :: r2) ++ tk ">" true ln :: rest)) := by
        simpa using hD
      have h0 := hD.head
      have h1 := hD.tail.head
      have hrec := hN' f ln (i + 1 + 1) rest d toks (acc ++ [x]) (by omega) hD.tail.tail
      rw [typeParamsLoop]
      oksimp
      simp only [h0, tk_text, hnp, Bool.false_eq_true, ↓reduceIte]
      rw [ok_det (parseSymbol_ok toks i d _ h0 vx)]
      simp only [h1, Option.map_some, TokI.text, tk_text, beq_self_eq_true, ↓reduceIte]
      oksimp
      simp only [h1]
      have hlt : ¬ (i + 1 + 1 ≤ i) := by omega
      simp only [hlt, decide_false, Bool.false_eq_true, ↓reduceIte]
      refine ok_mono hrec ?_
      rintro r2' s2 ⟨e1, e2⟩
      refine ⟨by simp [e1], ?_⟩
      rw [e2]; simp; omega

theorem tparams_ok (ts : List String) (hv : ∀ x ∈ ts, ValidName x) :
    ∃ N, ∀ (fuel ln i : Nat) (rest : List Tok) (d : List DiagKind) (toks : Toks),
      N ≤ fuel → D toks i (TTP ln ts ++ rest) → (∀ t, rest.head? = some t → t.text ≠ "<") →
      Ok (parseTypeParams toks false fuel) ⟨i, d⟩ (fun r s' => r = ts ∧ s' = ⟨i + (TTP ln ts).length, d⟩) := by
  cases ts with
  | nil =>
    refine ⟨0, ?_⟩
    intro fuel ln i rest d toks _ hD hno
    have hT : TTP ln [] = [] := by simp [TTP, printTParams, lexAux]
    rw [hT] at hD ⊢
    replace hD : D toks i rest := by simpa using hD
    have h0 := hD.head?
    simp only [parseTypeParams]
    oksimp
    rw [h0]
    cases hr : rest.head? with
    | none => simp [ok_pure]
    | some t => have := hno t hr; simp [ok_pure, this]
  | cons x r =>
    obtain ⟨N, hN⟩ := typeParamsLoop_ok (x :: r) hv (by simp)
    refine ⟨N, ?_⟩
    intro fuel ln i rest d toks hf hD hno
    have hT : TTP ln (x :: r) = tk "<" true ln :: (TNs ln (x :: r) ++ [tk ">" true ln]) := by
      simp only [TTP, printTParams, List.cons_append, List.nil_append]
      rw [show (g "<" : PTok) = PTok.t "<" true from rfl, lexAux_tok, lex_flat (names_flat (x :: r))]
      simp [TNs, lexAux, tk, g]
    rw [hT] at hD ⊢
    replace hD : D toks i (tk "<" true ln :: (TNs ln (x :: r) ++ tk ">" true ln :: rest)) := by
      simpa [List.append_assoc] using hD
    have h0 := hD.head
    have hloop := hN fuel ln (i + 1) rest d toks [] hf hD.tail
    have hclose := hD.tail.skip.head
    simp only [parseTypeParams]
    oksimp
    simp only [h0, tk_text, beq_self_eq_true, Bool.not_true, Bool.false_eq_true, ↓reduceIte]
    rw [ok_det (requireToken_ok toks "<" i d _ h0 rfl)]
    refine ok_mono hloop ?_
    rintro r1 s1 ⟨hr, rfl⟩
    rw [ok_det (requireToken_ok toks ">" _ d _ hclose rfl)]
    simp only [List.nil_append] at hr
    simp [ok_pure, hr]; omega

/-! ### Function signatures and bodies; lambdas -/

structure WTF (tps : List String) (ps : List Param) (r : Option TypeHint) : Prop where
  tpsOk : ∀ x ∈ tps, ValidName x
  psOk : ∀ p ∈ ps, WTP p
  dup : dupFree (List.map (fun p : Param => p.name) ps) [] = true
  ret : WTHO r

def TF (ln : Nat) (tps : List String) (ps : List Param) (r : Option TypeHint) (es : List Expr) : List Tok :=
  lexAux false ln (printFun (.mk tps ps r (.mk es)))

theorem TF_eq {tps : List String} {ps : List Param} {r : Option TypeHint} (wf : WTF tps ps r) {es : List Expr}
    (hpf : ∀ e ∈ es, PF e) (ln : Nat) (B : List PTok) :
    lexAux false ln (printFun (.mk tps ps r (.mk es)) ++ B) =
      TTP ln tps ++ (TParams ln ps ++ (THO ln r ++ tk "{" false ln ::
        (TItems ln es ++ tk "}" false (LItems ln es + 1) :: lexAux false (LItems ln es + 1) B))) := by
  have hfp : Flat (printParams ps) := Flat.cons ((params_flat ps wf.psOk).append (Flat.cons Flat.nil))
  simp only [printFun, List.append_assoc]
  rw [lex_flat (tparams_flat tps), lex_flat hfp, lex_flat (hintOpt_flat wf.ret), TB_eq es hpf]
  rfl

theorem funTail_ok {tps : List String} {ps : List Param} {r : Option TypeHint} (wf : WTF tps ps r) {es : List Expr}
    (hb : BlockOK es) :
    ∃ N, ∀ (fuel ln i : Nat) (rest : List Tok) (d : List DiagKind) (toks : Toks) (j : Nat)
      (K : List String → List Param → Option TypeHint → PBlock → St → Prop),
      N ≤ fuel →
      D toks i (TTP ln tps ++ (TParams ln ps ++ (THO ln r ++ tk "{" false ln ::
        (TItems ln es ++ tk "}" false (LItems ln es + 1) :: rest)))) →
      j = i + (TTP ln tps).length + (TParams ln ps).length + (THO ln r).length + 1 + (TItems ln es).length + 1 →
      (∀ body : PBlock, body.exprs = es → body.close.endPos = j → K tps ps r body ⟨j, d⟩) →
      Ok (parseTypeParams toks false fuel) ⟨i, d⟩ (fun a s1 =>
        Ok (parseParameters toks false fuel) s1 (fun b s2 =>
          Ok (parseColonAndHintOpt toks false fuel) s2 (fun c s3 =>
            Ok (parseBlock toks false fuel) s3 (fun body s4 => K a b c body s4)))) := by
  obtain ⟨N1, h1⟩ := tparams_ok tps wf.tpsOk
  obtain ⟨N2, h2⟩ := params_ok ps wf.psOk wf.dup
  obtain ⟨N3, h3⟩ := hintOpt_ok wf.ret
  obtain ⟨N4, h4⟩ := block_ok es hb.fu hb.pf hb.adj
  refine ⟨N1 + N2 + N3 + N4, ?_⟩
  intro fuel ln i rest d toks j K hf hD hj hK
  have hparen : ∀ t, (TParams ln ps ++ (THO ln r ++ tk "{" false ln ::
      (TItems ln es ++ tk "}" false (LItems ln es + 1) :: rest))).head? = some t → t.text ≠ "<" := by
    intro t ht
    rw [TParams_eq ln ps wf.psOk] at ht
    simp at ht; subst ht; simp
  refine ok_mono (h1 fuel ln i _ d toks (by omega) hD hparen) ?_
  rintro a s1 ⟨rfl, rfl⟩
  refine ok_mono (h2 fuel ln _ _ d toks (by omega) hD.skip) ?_
  rintro b s2 ⟨rfl, rfl⟩
  refine ok_mono (h3 fuel ln _ _ d toks (by omega) hD.skip.skip (noHint_tok (Or.inr (Or.inr (Or.inr rfl))))) ?_
  rintro c s3 ⟨rfl, rfl⟩
  refine ok_mono (h4 fuel ln _ rest d toks false (by omega) hD.skip.skip.skip) ?_
  rintro body s4 ⟨hb1, hb2, rfl⟩
  have := hK body hb1 (by rw [hb2, hj])
  rw [hj] at this
  exact this

theorem simple_lambda (toks : Toks) (fuel i : Nat) (d : List DiagKind) (t t2 : Tok)
    (h1 : toks[i]? = some t) (hx : t.text = "fun") (h2 : toks[i + 1]? = some t2) (hx2 : t2.text = "(") :
    parseSimple toks false (fuel + 1) ⟨i, d⟩ = parseLambda toks false fuel ⟨i, d⟩ := by
  rw [parseSimple]
  simp [bind_apply, P.bind, peek, peekAt, h1, h2, TokI.text, hx, hx2]

theorem r_lambda {ps : List Param} {r : Option TypeHint} {es : List Expr} (wf : WTF [] ps r) (hb : BlockOK es) :
    ∃ n, R true (.lambda (.mk [] ps r (.mk es))) n := by
  obtain ⟨N, hN⟩ := funTail_ok wf hb
  refine ⟨N + 4, ?_⟩
  intro b fuel ln first i rest d toks Q _ hfu hD hfo _ ha
  obtain ⟨f, rfl⟩ : ∃ f, fuel = f + 4 := ⟨fuel - 4, by omega⟩
  have hT : T ln first (.lambda (.mk [] ps r (.mk es))) = tk "fun" first ln :: (TTP ln [] ++ (TParams ln ps ++
      (THO ln r ++ tk "{" false ln :: (TItems ln es ++ [tk "}" false (LItems ln es + 1)])))) := by
    simp only [T, printExpr, List.cons_append, List.nil_append, lexAux_tok, Bool.not_false, Bool.and_true]
    have := TF_eq wf hb.pf ln []
    simp only [List.append_nil] at this
    rw [this]
    simp [lexAux]
  rw [hT] at hD ha
  have hD0 : D toks i (tk "fun" first ln :: (TTP ln [] ++ (TParams ln ps ++
      (THO ln r ++ tk "{" false ln :: (TItems ln es ++ tk "}" false (LItems ln es + 1) :: rest))))) := by
    simpa [List.append_assoc] using hD
  have h0 := hD0.head
  have hD1 := hD0.tail
  have h1 : toks[i + 1]? = some (tk "(" true ln) := by
    have := hD1.head?
    rw [this, TParams_eq ln ps wf.psOk]
    simp [TTP, printTParams, lexAux]
  refine enter_simple (f := f + 2) h0 (by simp [stmtKeywords]) (fun t2 h2 => ?_) ?_
  · rw [h1] at h2; cases h2; refine ⟨?_, ?_, ?_⟩ <;> (simp only [tk_text]; decide)
  · refine ok_rw (simple_lambda toks (f + 1) i d _ _ h0 rfl h1 rfl) ?_
    rw [parseLambda]
    oksimp
    rw [ok_det (requireToken_ok toks "fun" i d _ h0 rfl)]
    refine hN f ln (i + 1) rest d toks _ _ (by omega) hD1 rfl ?_
    intro body hb1 hb2
    have := ha ln (f + 3) (by omega)
    simp only [PBlock.block, hb1, TokI.pos, Pos.merge, tk_line, hb2]
    have e1 : max (i + 1) (i + 1 + (TTP ln []).length + (TParams ln ps).length + (THO ln r).length + 1 +
        (TItems ln es).length + 1) = i + (tk "fun" first ln :: (TTP ln [] ++ (TParams ln ps ++
          (THO ln r ++ tk "{" false ln :: (TItems ln es ++ [tk "}" false (LItems ln es + 1)]))))).length := by
      simp; omega
    have e2 : i + 1 + (TTP ln []).length + (TParams ln ps).length + (THO ln r).length + 1 + (TItems ln es).length + 1
        = i + (tk "fun" first ln :: (TTP ln [] ++ (TParams ln ps ++
          (THO ln r ++ tk "{" false ln :: (TItems ln es ++ [tk "}" false (LItems ln es + 1)]))))).length := by
      simp; omega
    rw [e1, e2]
    exact this

theorem pf_lambda {f : FunInfo} : PF (.lambda f) := by
  obtain ⟨tps, ps, r, ⟨es⟩⟩ := f
  obtain ⟨X, hX⟩ := printBlock_split es
  exact pf_kw "fun" (printTParams tps ++ printParams ps ++ printHintOpt r ++ X) "}" false
    (fun first => by simp [printExpr, printFun, hX]) (by decide) rfl rfl

/-! ### `match` -/

def CaseOK : Case → Prop
  | .mk p (.mk es) => WTPat p ∧ BlockOK es

/-- tokens of the arms of a `match` whose `{` is on line `l` -/
def TCases : Nat → List Case → List Tok
  | _, [] => []
  | l, .mk p (.mk es) :: r =>
    TPat (l + 1) p ++ tk "=>" false (l + 1) :: tk "{" false (l + 1) ::
      (TItems (l + 1) es ++ tk "}" false (LItems (l + 1) es + 1) :: tk "," true (LItems (l + 1) es + 1) ::
        TCases (LItems (l + 1) es + 1) r)

def LCases : Nat → List Case → Nat
  | l, [] => l
  | l, .mk _ (.mk es) :: r => LCases (LItems (l + 1) es + 1) r

theorem printPattern_head (p : Pattern) : ∃ X, printPattern p = w p.variant :: X := by
  unfold printPattern
  cases p.payload with
  | none => exact ⟨[], rfl⟩
  | some dst => exact ⟨_, rfl⟩

theorem cases_tokens (cases : List Case) (hok : ∀ c ∈ cases, CaseOK c) (l : Nat) (B : List PTok) :
    lexAux false l (printCases cases ++ (PTok.nl :: w "}" :: B)) =
      TCases l cases ++ tk "}" false (LCases l cases + 1) :: lexAux false (LCases l cases + 1) B := by
  induction cases generalizing l with
  | nil => simp [printCases, TCases, LCases, lexAux, tk, w]
  | cons c r ih =>
    obtain ⟨p, ⟨es⟩⟩ := c
    obtain ⟨wp, hb⟩ := hok _ (List.mem_cons_self ..)
    have ih' := ih (fun x hx => hok x (List.mem_cons_of_mem _ hx))
    obtain ⟨X, hX⟩ := printPattern_head p
    have h1 : lexAux true (l + 1) (printPattern p ++ (w "=>" :: (printBlock (.mk es) ++ (g "," :: (printCases r ++ (PTok.nl :: w "}" :: B))))))
        = lexAux false (l + 1) (printPattern p ++ (w "=>" :: (printBlock (.mk es) ++ (g "," :: (printCases r ++ (PTok.nl :: w "}" :: B)))))) := by
      rw [hX]; simp [lexAux, w]
    simp only [printCases, List.cons_append, List.nil_append, List.append_assoc, lexAux_nl, TCases, LCases]
    rw [h1, lex_flat (pattern_flat p)]
    rw [show (w "=>" : PTok) = PTok.t "=>" false from rfl, lexAux_tok, TB_eq es hb.pf]
    rw [show (g "," : PTok) = PTok.t "," true from rfl, lexAux_tok, ih']
    simp [TPat, tk]

theorem matchLoop_ok (cases : List Case) (hok : ∀ c ∈ cases, CaseOK c) :
    ∃ N, ∀ (fuel l i : Nat) (rest : List Tok) (d : List DiagKind) (toks : Toks) (acc : List Case) (tt : Bool),
      N ≤ fuel → D toks i (TCases l cases ++ tk "}" tt (LCases l cases + 1) :: rest) →
      Ok (matchLoop toks false fuel acc) ⟨i, d⟩ (fun r s' => r = acc ++ cases ∧ s' = ⟨i + (TCases l cases).length, d⟩) := by
  induction cases with
  | nil =>
    refine ⟨1, ?_⟩
    intro fuel l i rest d toks acc tt hf hD
    obtain ⟨f, rfl⟩ : ∃ f, fuel = f + 1 := ⟨fuel - 1, by omega⟩
    simp only [TCases, LCases, List.nil_append] at hD ⊢
    have h0 := hD.head
    rw [matchLoop]
    oksimp
    simp [h0, TokI.text, ok_pure]
  | cons c r ih =>
    obtain ⟨p, ⟨es⟩⟩ := c
    obtain ⟨wp, hb⟩ := hok _ (List.mem_cons_self ..)
    obtain ⟨N', hN'⟩ := ih (fun x hx => hok x (List.mem_cons_of_mem _ hx))
    obtain ⟨NP, hNP⟩ := pattern_ok wp
    obtain ⟨NB, hNB⟩ := block_ok es hb.fu hb.pf hb.adj
    refine ⟨NP + NB + N' + 2, ?_⟩
    intro fuel l i rest d toks acc tt hf hD
    obtain ⟨f, rfl⟩ : ∃ f, fuel = f + 2 := ⟨fuel - 2, by omega⟩
    simp only [TCases, LCases, List.append_assoc, List.cons_append] at hD ⊢
    generalize hl2 : LItems (l + 1) es + 1 = l2 at *
    obtain ⟨X, hX⟩ := printPattern_head p
    have hTP : TPat (l + 1) p = tk p.variant false (l + 1) :: lexAux false (l + 1) X := by
      simp [TPat, hX, w, lexAux, tk]
    have h0 : toks[i]? = some (tk p.variant false (l + 1)) := by
      have := hD.head?; rw [hTP] at this; simpa using this
    have hne : (p.variant == "}") = false := wp.variant.beq_nonsym (by decide)
    have hpat := hNP (f + 1) (l + 1) i _ d toks (by omega) hD (by intro t ht; simp at ht; subst ht; simp)
    have hD1 := hD.skip
    have harrow := hD1.head
    have hD2 := hD1.tail
    have hbrace := hD2.head
    have hblock := hNB f (l + 1) (i + (TPat (l + 1) p).length + 1) _ d toks false (by omega) (by rw [hl2]; exact hD2)
    have hD3 := hD2.tail.skip.tail
    have hcomma := hD3.head
    have hrec := hN' (f + 1) l2 (i + (TPat (l + 1) p).length + 1 + 1 + (TItems (l + 1) es).length + 1 + 1) rest d toks
      (acc ++ [Case.mk p (.mk es)]) tt (by omega) hD3.tail
    rw [matchLoop]
    oksimp
    simp only [h0, Option.map_some, TokI.text, tk_text, hne, Bool.false_eq_true, ↓reduceIte]
    oksimp
    refine ok_mono hpat ?_
    rintro rp s1 ⟨rfl, rfl⟩
    rw [ok_det (requireToken_ok toks "=>" _ d _ harrow rfl)]
    rw [parseCaseBlock]
    oksimp
    simp only [hbrace, tk_text, beq_self_eq_true, ↓reduceIte]
    refine ok_mono hblock ?_
    rintro rb s2 ⟨hb1, hb2, rfl⟩
    simp only [hcomma, tk_text, beq_self_eq_true, ↓reduceIte]
    have hlt : ¬ (i + (TPat (l + 1) rp).length + 1 + 1 + (TItems (l + 1) es).length + 1 + 1 ≤ i) := by omega
    simp only [hlt, ↓reduceIte, PBlock.block, hb1]
    refine ok_mono hrec ?_
    rintro r2' s3 ⟨e1, e2⟩
    refine ⟨by simp [e1], ?_⟩
    rw [e2]; simp; omega

theorem nt_kw2 (toks : Toks) (f i : Nat) (d : List DiagKind) (t : Tok) (h0 : toks[i]? = some t)
    (h2 : ∀ t2, toks[i + 1]? = some t2 → t2.text ≠ "=" ∧ t2.text ≠ "+=" ∧ t2.text ≠ "-=") :
    (t.text = "match" → parseNoTrailing toks false (f + 1) ⟨i, d⟩ = parseMatch toks false f ⟨i, d⟩) ∧
    (t.text = "try" → parseNoTrailing toks false (f + 1) ⟨i, d⟩ = parseTry toks false f ⟨i, d⟩) := by
  refine ⟨?_, ?_⟩ <;> intro ht <;> rw [parseNoTrailing] <;>
    (cases h3 : toks[i + 1]? with
     | none => simp [bind_apply, P.bind, pure_apply, peek, peekAt, h0, h3, TokI.text, ht]
     | some t2 =>
       obtain ⟨e1, e2, e3⟩ := h2 t2 h3
       simp [bind_apply, P.bind, pure_apply, peek, peekAt, h0, h3, TokI.text, e1, e2, e3, ht])

theorem r_match {s : Expr} {cases : List Case} {ns : Nat} (hs : FU s ns) (ps : PF s)
    (hok : ∀ c ∈ cases, CaseOK c) : ∃ n, R true (.matchE s cases) n := by
  obtain ⟨NL, hNL⟩ := matchLoop_ok cases hok
  refine ⟨ns + NL + 3, ?_⟩
  intro b fuel ln first i rest d toks Q _ hfu hD hfo _ ha
  obtain ⟨f, rfl⟩ : ∃ f, fuel = f + 3 := ⟨fuel - 3, by omega⟩
  generalize hl1 : ln + pnl s = l1 at *
  have hT : T ln first (.matchE s cases) = tk "match" first ln :: (T ln false s ++
      tk "{" false l1 :: (TCases l1 cases ++ [tk "}" false (LCases l1 cases + 1)])) := by
    simp only [T, printExpr, List.cons_append, List.nil_append, lexAux_tok, Bool.not_false, Bool.and_true,
      List.append_assoc]
    rw [show (w "{" : PTok) = PTok.t "{" false from rfl, T_then_w ps, hl1]
    have := cases_tokens cases hok l1 []
    rw [this]
    simp [lexAux, T]
  rw [hT] at hD ha
  have hD0 : D toks i (tk "match" first ln :: (T ln false s ++ (tk "{" false l1 ::
      (TCases l1 cases ++ tk "}" false (LCases l1 cases + 1) :: rest)))) := by
    simpa [List.append_assoc] using hD
  have h0 := hD0.head
  have hD1 := hD0.tail
  obtain ⟨s1, tl1, hT1, hbad⟩ := T_head ps ln false
  have h1 : toks[i + 1]? = some (tk s1 false ln) := by
    have := hD1.head?; rw [hT1] at this; simpa using this
  have hscrut := hs f ln false (i + 1) _ d toks (by omega) hD1 (by rw [← hl1]; exact stop_lbrace' (Nat.le_refl _))
  have hD2 := hD1.skip
  have hbrace := hD2.head
  have hloop := hNL f l1 (i + 1 + (T ln false s).length + 1) rest d toks [] false (by omega) hD2.tail
  have hclose := hD2.tail.skip.head
  refine ok_exprT' (ok_rw ((nt_kw2 toks (f + 1) i d _ h0 (fun t2 h2 => by
    rw [h1] at h2; cases h2; exact bad_second hbad)).1 rfl) ?_)
  rw [parseMatch]
  oksimp
  rw [ok_det (requireToken_ok toks "match" i d _ h0 rfl)]
  refine ok_mono hscrut ?_
  rintro rc s1' ⟨hr1, hr2, rfl⟩
  rw [ok_det (requireToken_ok toks "{" _ d _ hbrace rfl)]
  simp only [TokI.text, tk_text, bne_self_eq_false, Bool.false_eq_true, ↓reduceIte]
  refine ok_mono hloop ?_
  rintro rcs s2 ⟨hcs, rfl⟩
  rw [ok_det (requireToken_ok toks "}" _ d _ hclose rfl)]
  have := ha ln (f + 2) (by omega)
  simp only [List.nil_append] at hcs
  simp only [hr1, hcs, TokI.pos, Pos.merge, tk_line]
  have e1 : max (i + 1) (i + 1 + (T ln false s).length + 1 + (TCases l1 cases).length + 1)
      = i + (tk "match" first ln :: (T ln false s ++ tk "{" false l1 ::
        (TCases l1 cases ++ [tk "}" false (LCases l1 cases + 1)]))).length := by simp; omega
  have e2 : i + 1 + (T ln false s).length + 1 + (TCases l1 cases).length + 1
      = i + (tk "match" first ln :: (T ln false s ++ tk "{" false l1 ::
        (TCases l1 cases ++ [tk "}" false (LCases l1 cases + 1)]))).length := by simp; omega
  rw [e1, e2]
  exact this

theorem pf_match {s : Expr} {cases : List Case} : PF (.matchE s cases) :=
  pf_kw "match" (printExpr false s ++ [w "{"] ++ printCases cases ++ [PTok.nl]) "}" false
    (fun first => by simp [printExpr, w]) (by decide) rfl rfl

/-! ### Struct literals -/

def FieldOK : Field → Prop
  | .mk n e => ValidName n ∧ (∃ k, FU e k) ∧ PF e

def TFields : Nat → List Field → List Tok
  | _, [] => []
  | l, .mk n e :: r =>
    tk n false l :: tk ":" true l :: (T l false e ++ tk "," (!tailRet e) (l + pnl e) :: TFields (l + pnl e) r)

def LFields : Nat → List Field → Nat
  | l, [] => l
  | l, .mk _ e :: r => LFields (l + pnl e) r

theorem fields_tokens (fs : List Field) (hok : ∀ x ∈ fs, FieldOK x) (l : Nat) (B : List PTok) :
    lexAux false l (printFields fs ++ B) = TFields l fs ++ lexAux false (LFields l fs) B := by
  induction fs generalizing l with
  | nil => simp [printFields, TFields, LFields]
  | cons c r ih =>
    obtain ⟨n, e⟩ := c
    obtain ⟨_, _, pe⟩ := hok _ (List.mem_cons_self ..)
    have ih' := ih (fun x hx => hok x (List.mem_cons_of_mem _ hx))
    simp only [printFields, List.cons_append, List.nil_append, List.append_assoc, TFields, LFields, w, g, lexAux_tok]
    rw [T_then_g pe, ih']
    simp [tk]

theorem fieldsLoop_ok (fs : List Field) (hok : ∀ x ∈ fs, FieldOK x) :
    ∃ N, ∀ (fuel l i : Nat) (rest : List Tok) (d : List DiagKind) (toks : Toks) (acc : List Field) (tt : Bool) (lc : Nat),
      N ≤ fuel → D toks i (TFields l fs ++ tk "}" tt lc :: rest) →
      Ok (fieldsLoop toks false fuel acc) ⟨i, d⟩ (fun r s' => r = acc ++ fs ∧ s' = ⟨i + (TFields l fs).length, d⟩) := by
  induction fs with
  | nil =>
    refine ⟨1, ?_⟩
    intro fuel l i rest d toks acc tt lc hf hD
    obtain ⟨f, rfl⟩ : ∃ f, fuel = f + 1 := ⟨fuel - 1, by omega⟩
    simp only [TFields, List.nil_append] at hD ⊢
    have h0 := hD.head
    rw [fieldsLoop]
    oksimp
    simp [h0, ok_pure]
  | cons c r ih =>
    obtain ⟨n, e⟩ := c
    obtain ⟨vn, ⟨ne, hne⟩, pe⟩ := hok _ (List.mem_cons_self ..)
    obtain ⟨N', hN'⟩ := ih (fun x hx => hok x (List.mem_cons_of_mem _ hx))
    refine ⟨ne + N' + 1, ?_⟩
    intro fuel l i rest d toks acc tt lc hf hD
    obtain ⟨f, rfl⟩ : ∃ f, fuel = f + 1 := ⟨fuel - 1, by omega⟩
    simp only [TFields, List.cons_append, List.append_assoc] at hD ⊢
    have h0 := hD.head
    have hD1 := hD.tail
    have h1 := hD1.head
    have hD2 := hD1.tail
    have hnp : (n == "}") = false := vn.beq_nonsym (by decide)
    have hph : PSym.isPlaceholder ⟨n, ⟨l, i + 1⟩⟩ = false := by simpa [PSym.isPlaceholder] using vn.notPh
    have hres := hne f l false (i + 1 + 1) _ d toks (by omega) hD2 (stop_sep' (Or.inl rfl) (Nat.le_refl _))
    have hcomma := hD2.skip.head
    have hrec := hN' f (l + pnl e) (i + 1 + 1 + (T l false e).length + 1) rest d toks (acc ++ [Field.mk n e]) tt lc
      (by omega) hD2.skip.tail
    rw [fieldsLoop]
    oksimp
    simp only [h0, tk_text, hnp, Bool.false_eq_true, ↓reduceIte]
    rw [ok_det (parseSymbol_ok toks i d _ h0 vn)]
    simp only [tk_text, tk_line, hph, Bool.false_eq_true, ↓reduceIte]
    (try oksimp)
    rw [ok_det (requireToken_ok toks ":" (i + 1) d _ h1 rfl)]
    refine ok_mono hres ?_
    rintro re s1 ⟨hr1, hr2, rfl⟩
    have hne1 : ¬ (i + 1 + 1 + (T l false e).length = i) := by omega
    simp only [hne1, beq_iff_eq, ↓reduceIte, hr1]
    simp only [hcomma, Option.map_some, TokI.text, tk_text, ↓reduceIte]
    oksimp
    simp only [hcomma]
    have hne2 : ¬ (i + 1 + 1 + (T l false e).length + 1 = i) := by omega
    simp only [hne2, ↓reduceIte]
    refine ok_mono hrec ?_
    rintro r2' s3 ⟨e1, e2⟩
    refine ⟨by simp [e1], ?_⟩
    rw [e2]; simp; omega

theorem simple_struct (toks : Toks) (fuel i : Nat) (d : List DiagKind) (t t2 : Tok)
    (h1 : toks[i]? = some t) (hv : ValidName t.text) (h2 : toks[i + 1]? = some t2) (hx2 : t2.text = "{")
    (ht2 : t2.touchesPrev = true) :
    parseSimple toks false (fuel + 1) ⟨i, d⟩ = parseStructLiteral toks false fuel ⟨i, d⟩ := by
  rw [parseSimple]
  have e1 := ne_of_isSymbolTok hv.sym (lit := "(") (by decide)
  have e2 := ne_of_isSymbolTok hv.sym (lit := "[") (by decide)
  have e3 := hv.notDict
  have e4 := hv.ne_kw (k := "fun") (by decide)
  have e5 := hv.ne_kw (k := "assert") (by decide)
  have e6 := hv.sym
  simp [bind_apply, P.bind, pure_apply, peek, peekAt, h1, h2, TokI.text, e1, e2, e3, e4, e5, e6, hx2, ht2]

theorem r_struct {n : String} {fs : List Field} (vn : ValidName n) (hok : ∀ x ∈ fs, FieldOK x) :
    ∃ k, R true (.structLit n fs) k := by
  obtain ⟨NL, hNL⟩ := fieldsLoop_ok fs hok
  refine ⟨NL + 4, ?_⟩
  intro b fuel ln first i rest d toks Q _ hfu hD hfo _ ha
  obtain ⟨f, rfl⟩ : ∃ f, fuel = f + 4 := ⟨fuel - 4, by omega⟩
  have hT : T ln first (.structLit n fs) = tk n first ln :: tk "{" true ln :: (TFields ln fs ++ [tk "}" false (LFields ln fs)]) := by
    simp only [T, printExpr, List.cons_append, List.nil_append, lexAux_tok, Bool.not_false, Bool.and_true, g]
    rw [fields_tokens fs hok]
    simp [lexAux, tk, w]
  rw [hT] at hD ha
  have hD0 : D toks i (tk n first ln :: tk "{" true ln :: (TFields ln fs ++ tk "}" false (LFields ln fs) :: rest)) := by
    simpa [List.append_assoc] using hD
  have h0 := hD0.head
  have hD1 := hD0.tail
  have h1 := hD1.head
  have hD2 := hD1.tail
  have hloop := hNL f ln (i + 1 + 1) rest d toks [] false _ (by omega) hD2
  have hclose := hD2.skip.head
  refine enter_simple (f := f + 2) h0 vn.notStmt (fun t2 h2 => ?_) ?_
  · rw [h1] at h2; cases h2; refine ⟨?_, ?_, ?_⟩ <;> (simp only [tk_text]; decide)
  · refine ok_rw (simple_struct toks (f + 1) i d _ _ h0 vn h1 rfl rfl) ?_
    rw [parseStructLiteral]
    oksimp
    rw [ok_det (parseSymbol_ok toks i d _ h0 vn)]
    have hne1 : ¬ (i + 1 = i) := by omega
    simp only [hne1, beq_iff_eq, decide_false, Bool.and_false, Bool.false_eq_true, ↓reduceIte]
    rw [ok_det (requireToken_ok toks "{" (i + 1) d _ h1 rfl)]
    refine ok_mono hloop ?_
    rintro rf s2 ⟨hrf, rfl⟩
    rw [ok_det (requireToken_ok toks "}" _ d _ hclose rfl)]
    have := ha ln (f + 3) (by omega)
    simp only [List.nil_append] at hrf
    simp only [hrf, TokI.pos, Pos.merge, tk_line, tk_text]
    have e1 : max (i + 1) (i + 1 + 1 + (TFields ln fs).length + 1)
        = i + (tk n first ln :: tk "{" true ln :: (TFields ln fs ++ [tk "}" false (LFields ln fs)])).length := by
      simp; omega
    have e2 : i + 1 + 1 + (TFields ln fs).length + 1
        = i + (tk n first ln :: tk "{" true ln :: (TFields ln fs ++ [tk "}" false (LFields ln fs)])).length := by
      simp; omega
    rw [e1, e2]
    exact this

theorem pf_struct {n : String} {fs : List Field} (vn : ValidName n) : PF (.structLit n fs) :=
  ⟨⟨n, g "{" :: (printFields fs ++ [w "}"]), fun first => by simp [printExpr], validName_not_bad vn⟩,
   fun b first => by
     simp only [printExpr, tailRet]
     rw [show ([PTok.t n first, g "{"] ++ printFields fs ++ [w "}"]) = ([PTok.t n first, g "{"] ++ printFields fs) ++ [PTok.t "}" false] from by simp [w]]
     exact fl_tok _ _ _ _, rfl⟩

/-! ### `try`, `assert`, dictionaries, floats -/

theorem r_try {es es2 : List Expr} {x : String} (hb : BlockOK es) (vx : ValidName x) (hb2 : BlockOK es2) :
    ∃ n, R true (.tryE (.mk es) x (.mk es2)) n := by
  obtain ⟨NB, hNB⟩ := block_ok es hb.fu hb.pf hb.adj
  obtain ⟨NB2, hNB2⟩ := block_ok es2 hb2.fu hb2.pf hb2.adj
  refine ⟨NB + NB2 + 3, ?_⟩
  intro b fuel ln first i rest d toks Q _ hfu hD hfo _ ha
  obtain ⟨f, rfl⟩ : ∃ f, fuel = f + 3 := ⟨fuel - 3, by omega⟩
  generalize hl2 : LItems ln es + 1 = l2 at *
  have hT : T ln first (.tryE (.mk es) x (.mk es2)) = tk "try" first ln :: tk "{" false ln ::
      (TItems ln es ++ tk "}" false l2 :: tk "catch" false l2 :: tk "(" false l2 :: tk x true l2 :: tk ")" true l2 ::
        tk "{" false l2 :: (TItems l2 es2 ++ [tk "}" false (LItems l2 es2 + 1)])) := by
    simp only [T, printExpr, List.cons_append, List.nil_append, lexAux_tok, Bool.not_false, Bool.and_true,
      List.append_assoc]
    rw [TB_eq es hb.pf ln, hl2]
    have := TB_eq es2 hb2.pf l2 []
    simp only [List.append_nil] at this
    simp only [List.cons_append, List.nil_append, lexAux_tok, w, g, Bool.false_and, Bool.and_true, Bool.not_false]
    rw [show lexAux false l2 (printBlock (Block.mk es2)) = _ from this]
    simp [lexAux, tk]
  rw [hT] at hD ha
  have hD0 : D toks i (tk "try" first ln :: tk "{" false ln ::
      (TItems ln es ++ tk "}" false l2 :: (tk "catch" false l2 :: tk "(" false l2 :: tk x true l2 :: tk ")" true l2 ::
        tk "{" false l2 :: (TItems l2 es2 ++ tk "}" false (LItems l2 es2 + 1) :: rest)))) := by
    simpa [List.append_assoc] using hD
  have h0 := hD0.head
  have hD1 := hD0.tail
  have h1 := hD1.head
  have hblock := hNB f ln (i + 1) _ d toks false (by omega) (by rw [hl2]; exact hD1)
  have hD2 := hD1.tail.skip.tail
  have hcatch := hD2.head
  have hparen := hD2.tail.head
  have hx := hD2.tail.tail.head
  have hclose := hD2.tail.tail.tail.head
  have hD3 := hD2.tail.tail.tail.tail
  have hblock2 := hNB2 f l2 _ rest d toks false (by omega) hD3
  refine ok_exprT' (ok_rw ((nt_kw2 toks (f + 1) i d _ h0 (fun t2 h2 => by
    rw [h1] at h2; cases h2; refine ⟨?_, ?_, ?_⟩ <;> (simp only [tk_text]; decide))).2 rfl) ?_)
  rw [parseTry]
  oksimp
  rw [ok_det (requireToken_ok toks "try" i d _ h0 rfl)]
  refine ok_mono hblock ?_
  rintro rb s2 ⟨hb1, hb2', rfl⟩
  rw [ok_det (requireToken_ok toks "catch" _ d _ hcatch rfl)]
  rw [ok_det (requireToken_ok toks "(" _ d _ hparen rfl)]
  rw [ok_det (parseSymbol_ok toks _ d _ hx vx)]
  rw [ok_det (requireToken_ok toks ")" _ d _ hclose rfl)]
  refine ok_mono hblock2 ?_
  rintro rb2 s3 ⟨hc1, hc2, rfl⟩
  have := ha ln (f + 2) (by omega)
  simp only [PBlock.block, hb1, hc1, TokI.pos, Pos.merge, tk_line, hc2, tk_text]
  have e1 : max (i + 1) (i + 1 + 1 + (TItems ln es).length + 1 + 1 + 1 + 1 + 1 + 1 + (TItems l2 es2).length + 1)
      = i + (tk "try" first ln :: tk "{" false ln ::
      (TItems ln es ++ tk "}" false l2 :: tk "catch" false l2 :: tk "(" false l2 :: tk x true l2 :: tk ")" true l2 ::
        tk "{" false l2 :: (TItems l2 es2 ++ [tk "}" false (LItems l2 es2 + 1)]))).length := by
    simp; omega
  have e2 : i + 1 + 1 + (TItems ln es).length + 1 + 1 + 1 + 1 + 1 + 1 + (TItems l2 es2).length + 1
      = i + (tk "try" first ln :: tk "{" false ln ::
      (TItems ln es ++ tk "}" false l2 :: tk "catch" false l2 :: tk "(" false l2 :: tk x true l2 :: tk ")" true l2 ::
        tk "{" false l2 :: (TItems l2 es2 ++ [tk "}" false (LItems l2 es2 + 1)]))).length := by
    simp; omega
  rw [e1, e2]
  exact this

theorem pf_try {es es2 : List Expr} {x : String} : PF (.tryE (.mk es) x (.mk es2)) := by
  obtain ⟨X, hX⟩ := printBlock_split es2
  exact pf_kw "try" (printBlock (.mk es) ++ [w "catch", w "(", g x, g ")"] ++ X) "}" false
    (fun first => by simp [printExpr, hX]) (by decide) rfl rfl

theorem simple_assert (toks : Toks) (fuel i : Nat) (d : List DiagKind) (t : Tok)
    (h1 : toks[i]? = some t) (hx : t.text = "assert") :
    parseSimple toks false (fuel + 1) ⟨i, d⟩ = parseAssert toks false fuel ⟨i, d⟩ := by
  rw [parseSimple]
  simp [bind_apply, P.bind, peek, peekAt, h1, TokI.text, hx]

theorem r_assert {e : Expr} {n : Nat} (he : FU e n) (pe : PF e) :
    R true (.assertE e) (n + 4) := by
  intro b fuel ln first i rest d toks Q _ hfu hD hfo _ ha
  obtain ⟨f, rfl⟩ : ∃ f, fuel = f + 4 := ⟨fuel - 4, by omega⟩
  have hT : T ln first (.assertE e) = tk "assert" first ln :: tk "(" true ln :: (T ln true e ++ [tk ")" (!tailRet e) (ln + pnl e)]) := by
    simp only [T, printExpr, List.cons_append, List.nil_append, lexAux_tok, Bool.not_false, Bool.and_true, g]
    rw [T_then_g pe]
    simp [lexAux, tk, T]
  rw [hT] at hD ha
  have hD0 : D toks i (tk "assert" first ln :: tk "(" true ln :: (T ln true e ++ (tk ")" (!tailRet e) (ln + pnl e) :: rest))) := by
    simpa [List.append_assoc] using hD
  have h0 := hD0.head
  have hD1 := hD0.tail
  have h1 := hD1.head
  have hD2 := hD1.tail
  obtain ⟨s1, tl1, hT1, hbad⟩ := T_head pe ln true
  have h2 : toks[i + 1 + 1]? = some (tk s1 true ln) := by
    have := hD2.head?; rw [hT1] at this; simpa using this
  have hin := he f ln true (i + 1 + 1) _ d toks (by omega) hD2 (stop_sep' (Or.inr (Or.inl rfl)) (Nat.le_refl _))
  have hclose := hD2.skip.head
  refine enter_simple (f := f + 2) h0 (by simp [stmtKeywords]) (fun t2 h2' => ?_) ?_
  · rw [h1] at h2'; cases h2'; refine ⟨?_, ?_, ?_⟩ <;> (simp only [tk_text]; decide)
  · refine ok_rw (simple_assert toks (f + 1) i d _ h0 rfl) ?_
    rw [parseAssert]
    oksimp
    rw [ok_det (requireToken_ok toks "assert" i d _ h0 rfl)]
    rw [ok_det (requireToken_ok toks "(" (i + 1) d _ h1 rfl)]
    simp only [h2, tk_text, not_badFirst hbad (show ")" ∈ badFirst by decide), Bool.false_eq_true, ↓reduceIte]
    refine ok_mono hin ?_
    rintro r s2 ⟨hr1, hr2, rfl⟩
    rw [ok_det (requireToken_ok toks ")" _ d _ hclose rfl)]
    have := ha ln (f + 3) (by omega)
    simp only [hr1, TokI.pos, Pos.merge, tk_line]
    have e1 : max (i + 1) (i + 1 + 1 + (T ln true e).length + 1)
        = i + (tk "assert" first ln :: tk "(" true ln :: (T ln true e ++ [tk ")" (!tailRet e) (ln + pnl e)])).length := by
      simp; omega
    have e2 : i + 1 + 1 + (T ln true e).length + 1
        = i + (tk "assert" first ln :: tk "(" true ln :: (T ln true e ++ [tk ")" (!tailRet e) (ln + pnl e)])).length := by
      simp; omega
    rw [e1, e2]
    exact this

theorem pf_assert {e : Expr} : PF (.assertE e) :=
  pf_kw "assert" ([g "("] ++ printExpr true e) ")" true (fun first => by simp [printExpr, g]) (by decide) rfl rfl

/-! #### Dictionaries -/

def KVOK : KV → Prop
  | .mk k v => (∃ n, FU k n) ∧ PF k ∧ (∃ n, FU v n) ∧ PF v

def TKVs : Nat → Bool → List KV → List Tok
  | _, _, [] => []
  | l, first, .mk k v :: r =>
    T l first k ++ tk "=>" false (l + pnl k) :: (T (l + pnl k) false v ++ tk "," (!tailRet v) (l + pnl k + pnl v) ::
      TKVs (l + pnl k + pnl v) false r)

def LKVs : Nat → List KV → Nat
  | l, [] => l
  | l, .mk k v :: r => LKVs (l + pnl k + pnl v) r

theorem kvs_tokens (kvs : List KV) (hok : ∀ x ∈ kvs, KVOK x) (l : Nat) (first : Bool) (B : List PTok) :
    lexAux false l (printKVs first kvs ++ B) = TKVs l first kvs ++ lexAux false (LKVs l kvs) B := by
  induction kvs generalizing l first with
  | nil => simp [printKVs, TKVs, LKVs]
  | cons c r ih =>
    obtain ⟨k, v⟩ := c
    obtain ⟨_, pk, _, pv⟩ := hok _ (List.mem_cons_self ..)
    have ih' := ih (fun x hx => hok x (List.mem_cons_of_mem _ hx))
    simp only [printKVs, List.cons_append, List.nil_append, List.append_assoc, TKVs, LKVs, w, g]
    rw [T_then_w pk, T_then_g pv, ih']

theorem dictLoop_ok (kvs : List KV) (hok : ∀ x ∈ kvs, KVOK x) :
    ∃ N, ∀ (fuel l : Nat) (first : Bool) (i : Nat) (rest : List Tok) (d : List DiagKind) (toks : Toks) (acc : List KV)
      (tt : Bool) (lc : Nat),
      N ≤ fuel → D toks i (TKVs l first kvs ++ tk "]" tt lc :: rest) →
      Ok (dictLoop toks false fuel acc) ⟨i, d⟩ (fun r s' => r = acc ++ kvs ∧ s' = ⟨i + (TKVs l first kvs).length, d⟩) := by
  induction kvs with
  | nil =>
    refine ⟨1, ?_⟩
    intro fuel l first i rest d toks acc tt lc hf hD
    obtain ⟨f, rfl⟩ : ∃ f, fuel = f + 1 := ⟨fuel - 1, by omega⟩
    simp only [TKVs, List.nil_append] at hD ⊢
    have h0 := hD.head
    rw [dictLoop]
    oksimp
    simp [h0, ok_pure]
  | cons c r ih =>
    obtain ⟨k, v⟩ := c
    obtain ⟨⟨nk, hnk⟩, pk, ⟨nv, hnv⟩, pv⟩ := hok _ (List.mem_cons_self ..)
    obtain ⟨N', hN'⟩ := ih (fun x hx => hok x (List.mem_cons_of_mem _ hx))
    refine ⟨nk + nv + N' + 1, ?_⟩
    intro fuel l first i rest d toks acc tt lc hf hD
    obtain ⟨f, rfl⟩ : ∃ f, fuel = f + 1 := ⟨fuel - 1, by omega⟩
    simp only [TKVs, List.cons_append, List.append_assoc] at hD ⊢
    obtain ⟨s0, tl0, hT0, hbad⟩ := T_head pk l first
    have h0 : toks[i]? = some (tk s0 first l) := by
      have := hD.head?; rw [hT0] at this; simpa using this
    have hkey := hnk f l first i _ d toks (by omega) hD (stop_sep' (Or.inr (Or.inr (Or.inr (Or.inr rfl)))) (Nat.le_refl _))
    have hD1 := hD.skip
    have harrow := hD1.head
    have hD2 := hD1.tail
    have hval := hnv f (l + pnl k) false (i + (T l first k).length + 1) _ d toks (by omega) hD2 (stop_sep' (Or.inl rfl) (Nat.le_refl _))
    have hcomma := hD2.skip.head
    have hrec := hN' f (l + pnl k + pnl v) false (i + (T l first k).length + 1 + (T (l + pnl k) false v).length + 1)
      rest d toks (acc ++ [KV.mk k v]) tt lc (by omega) hD2.skip.tail
    have hposk := T_pos pk l first
    rw [dictLoop]
    oksimp
    simp only [h0, tk_text, not_badFirst hbad (show "]" ∈ badFirst by decide), Bool.false_eq_true, ↓reduceIte]
    refine ok_mono hkey ?_
    rintro rk s1 ⟨hk1, hk2, rfl⟩
    simp only [hk1, pk.ninv, Bool.false_eq_true, ↓reduceIte]
    rw [ok_det (requireToken_ok toks "=>" _ d _ harrow rfl)]
    refine ok_mono hval ?_
    rintro rv s2 ⟨hv1, hv2, rfl⟩
    have hlt : i < i + (T l first k).length + 1 + (T (l + pnl k) false v).length := by omega
    simp only [gt_iff_lt, hlt, decide_true, Bool.not_true, Bool.false_eq_true, ↓reduceIte, hv1]
    simp only [hcomma, Option.map_some, TokI.text, tk_text, beq_self_eq_true, ↓reduceIte]
    (try oksimp)
    (try simp only [hcomma])
    refine ok_mono hrec ?_
    rintro r2' s3 ⟨e1, e2⟩
    refine ⟨by simp [e1], ?_⟩
    rw [e2]; simp; omega

theorem simple_dict (toks : Toks) (fuel i : Nat) (d : List DiagKind) (t : Tok)
    (h1 : toks[i]? = some t) (hx : t.text = "Dict") :
    parseSimple toks false (fuel + 1) ⟨i, d⟩ = parseDictLiteral toks false fuel ⟨i, d⟩ := by
  rw [parseSimple]
  simp [bind_apply, P.bind, peek, peekAt, h1, TokI.text, hx]

theorem r_dict {kvs : List KV} (hok : ∀ x ∈ kvs, KVOK x) : ∃ n, R true (.dict kvs) n := by
  obtain ⟨NL, hNL⟩ := dictLoop_ok kvs hok
  refine ⟨NL + 4, ?_⟩
  intro b fuel ln first i rest d toks Q _ hfu hD hfo _ ha
  obtain ⟨f, rfl⟩ : ∃ f, fuel = f + 4 := ⟨fuel - 4, by omega⟩
  have hT : T ln first (.dict kvs) = tk "Dict" first ln :: tk "[" true ln :: (TKVs ln true kvs ++ [tk "]" true (LKVs ln kvs)]) := by
    simp only [T, printExpr, List.cons_append, List.nil_append, lexAux_tok, Bool.not_false, Bool.and_true, g]
    rw [kvs_tokens kvs hok]
    simp [lexAux, tk]
  rw [hT] at hD ha
  have hD0 : D toks i (tk "Dict" first ln :: tk "[" true ln :: (TKVs ln true kvs ++ tk "]" true (LKVs ln kvs) :: rest)) := by
    simpa [List.append_assoc] using hD
  have h0 := hD0.head
  have h1 := hD0.tail.head
  have hD2 := hD0.tail.tail
  have hloop := hNL f ln true (i + 1 + 1) rest d toks [] true _ (by omega) hD2
  have hclose := hD2.skip.head
  refine enter_simple (f := f + 2) h0 (by simp [stmtKeywords]) (fun t2 h2 => ?_) ?_
  · rw [h1] at h2; cases h2; refine ⟨?_, ?_, ?_⟩ <;> (simp only [tk_text]; decide)
  · refine ok_rw (simple_dict toks (f + 1) i d _ h0 rfl) ?_
    rw [parseDictLiteral]
    oksimp
    rw [ok_det (requireToken_ok toks "Dict" i d _ h0 rfl)]
    rw [ok_det (requireToken_ok toks "[" (i + 1) d _ h1 rfl)]
    refine ok_mono hloop ?_
    rintro rk s2 ⟨hrk, rfl⟩
    rw [ok_det (requireToken_ok toks "]" _ d _ hclose rfl)]
    have := ha ln (f + 3) (by omega)
    simp only [List.nil_append] at hrk
    simp only [hrk, TokI.pos, Pos.merge, tk_line]
    have e1 : max (i + 1) (i + 1 + 1 + (TKVs ln true kvs).length + 1)
        = i + (tk "Dict" first ln :: tk "[" true ln :: (TKVs ln true kvs ++ [tk "]" true (LKVs ln kvs)])).length := by
      simp; omega
    have e2 : i + 1 + 1 + (TKVs ln true kvs).length + 1
        = i + (tk "Dict" first ln :: tk "[" true ln :: (TKVs ln true kvs ++ [tk "]" true (LKVs ln kvs)])).length := by
      simp; omega
    rw [e1, e2]
    exact this

theorem pf_dict {kvs : List KV} : PF (.dict kvs) :=
  pf_kw "Dict" ([g "["] ++ printKVs true kvs) "]" true (fun first => by simp [printExpr, g]) (by decide) rfl rfl

/-! #### Float literals -/

/-- A token text the parser reads as the float literal with the same text. -/
structure FloatTok (s : String) : Prop where
  flt : isFloatTok s = true
  notSym : isSymbolTok s = false
  notStr : isStringTok s = false
  clean : s.toList.filter (· != '_') = s.toList
  whole : floatWhole s.toList = true

theorem FloatTok.ne {s lit : String} (h : FloatTok s) (hl : isFloatTok lit = false) : s ≠ lit := by
  intro e; subst e; rw [h.flt] at hl; cases hl

theorem FloatTok.notBad {s : String} (h : FloatTok s) : s ∉ badFirst := by
  intro hm
  have : ∀ x ∈ badFirst, isFloatTok x = false := by decide
  exact h.ne (this s hm) rfl

theorem FloatTok.notStmt {s : String} (h : FloatTok s) : s ∉ stmtKeywords := by
  intro hm
  have : ∀ x ∈ stmtKeywords, isFloatTok x = false := by decide
  exact h.ne (this s hm) rfl

theorem simple_float (toks : Toks) (fuel i : Nat) (d : List DiagKind) (t : Tok)
    (h1 : toks[i]? = some t) (hf : FloatTok t.text) :
    parseSimple toks false (fuel + 1) ⟨i, d⟩ = .ok ⟨.floatLit t.text, ⟨t.line, i + 1⟩⟩ ⟨i + 1, d⟩ := by
  rw [parseSimple]
  have e1 := hf.ne (lit := "(") (by decide)
  have e2 := hf.ne (lit := "[") (by decide)
  have e3 := hf.ne (lit := "Dict") (by decide)
  have e4 := hf.ne (lit := "fun") (by decide)
  have e5 := hf.ne (lit := "assert") (by decide)
  simp [bind_apply, P.bind, pure_apply, peek, peekAt, h1, TokI.text, e1, e2, e3, e4, e5, hf.notSym, hf.notStr, hf.flt,
    parseFloat, requireAToken, pop, hf.clean, hf.whole, TokI.pos, String.ofList_toList]

theorem r_float {s : String} (hs : FloatTok s) : R true (.floatLit s) 3 := by
  intro b fuel ln first i rest d toks Q _ hf hD hfo _ ha
  obtain ⟨f, rfl⟩ : ∃ f, fuel = f + 3 := ⟨fuel - 3, by omega⟩
  have hT : T ln first (.floatLit s) = [tk s first ln] := by simp [T, printExpr, lexAux, tk]
  rw [hT] at hD ha
  replace hD : D toks i (tk s first ln :: rest) := by simpa using hD
  have h0 := hD.head
  have h1 := hD.second
  have hnt : parseNoTrailing toks false (f + 2) ⟨i, d⟩ = .ok ⟨.floatLit s, ⟨ln, i + 1⟩⟩ ⟨i + 1, d⟩ := by
    rw [noTrailing_simple toks (f + 1) i d _ h0 hs.notStmt (fun t2 h2 => (fol_second hfo t2 (h1 ▸ h2)).1)]
    simpa using simple_float toks f i d _ h0 hs
  exact ok_exprT hnt (ha ln (f + 2) (by omega))

theorem pf_float {s : String} (hs : FloatTok s) : PF (.floatLit s) :=
  pf_leaf _ s (fun _ => by simp [printExpr]) hs.notBad rfl rfl

example : FloatTok "1.5" := ⟨by decide, by decide, by decide, by decide, by decide⟩
example : FloatTok "-0.25" := ⟨by decide, by decide, by decide, by decide, by decide⟩

/-! #### `let` and `for` with destructuring and type hints -/

theorem TD_head {dst : LetDest} (wd : WTD dst) (ln : Nat) :
    ∃ s tl, TD ln dst = tk s false ln :: tl ∧ s ≠ "=" ∧ s ≠ "+=" ∧ s ≠ "-=" := by
  cases wd with
  | @sym x vx =>
    exact ⟨x, [], TD_sym ln x, ne_of_isSymbolTok vx.sym (by decide), ne_of_isSymbolTok vx.sym (by decide),
      ne_of_isSymbolTok vx.sym (by decide)⟩
  | @destr xs _ _ => exact ⟨"(", _, TD_destr ln xs, by decide, by decide, by decide⟩

theorem fu_let' {dst : LetDest} {h : Option TypeHint} {e : Expr} {n : Nat} (wd : WTD dst) (wh : WTHO h)
    (he : FU e n) (pe : PF e) : ∃ k, FS (.letE dst h e) k := by
  obtain ⟨ND, hND⟩ := dest_ok wd
  obtain ⟨NH, hNH⟩ := hintOpt_ok wh
  refine ⟨n + ND + NH + 3, ?_⟩
  intro b fuel ln first i rest d toks hf hD hs
  obtain ⟨f, rfl⟩ : ∃ f, fuel = f + 3 := ⟨fuel - 3, by omega⟩
  have hT : T ln first (.letE dst h e) = tk "let" first ln :: (TD ln dst ++ (THO ln h ++ tk "=" false ln :: T ln false e)) := by
    simp only [T, printExpr, List.cons_append, List.nil_append, List.append_assoc, lexAux_tok, Bool.not_false, Bool.and_true]
    rw [lex_flat (dest_flat dst), lex_flat (hintOpt_flat wh)]
    simp [TD, THO, lexAux, tk, w]
  have hpnl : pnl (.letE dst h e) = pnl e := by
    simp only [pnl, printExpr, List.cons_append, List.nil_append, List.append_assoc, nlc]
    rw [nlc_append, nlc_append, (dest_flat dst).2, (hintOpt_flat wh).2]
    simp [w, nlc]
  rw [hT] at hD ⊢
  have hD0 : D toks i (tk "let" first ln :: (TD ln dst ++ (THO ln h ++ (tk "=" false ln :: (T ln false e ++ rest))))) := by
    simpa [List.append_assoc] using hD
  have h0 := hD0.head
  have hD1 := hD0.tail
  obtain ⟨s1, tl1, hT1, n1, n2, n3⟩ := TD_head wd ln
  have h1 : toks[i + 1]? = some (tk s1 false ln) := by
    have := hD1.head?; rw [hT1] at this; simpa using this
  have hdest := hND f ln (i + 1) _ d toks (by omega) hD1
  have hD2 := hD1.skip
  have hhint := hNH f ln _ _ d toks (by omega) hD2 (noHint_tok (Or.inl rfl))
  have hD3 := hD2.skip
  have heq := hD3.head
  have hD4 := hD3.tail
  have hs' : Stop e ln rest := stop_tail hs (by simp [endsDot]) (by simp [tailRet]) hpnl
  have hin := he f ln false _ rest d toks (by omega) hD4 hs'
  have hj : i + (tk "let" first ln :: (TD ln dst ++ (THO ln h ++ tk "=" false ln :: T ln false e))).length
      = i + 1 + (TD ln dst).length + (THO ln h).length + 1 + (T ln false e).length := by simp; omega
  rw [hj]
  refine fu_finish (toks := toks) (i := i) (d := d) (f := f + 1) (ln := ln) (e := .letE dst h e)
    (j := i + 1 + (TD ln dst).length + (THO ln h).length + 1 + (T ln false e).length) ?_ hD4.skip hs
  refine ok_rw ((nt_kw toks (f + 1) i d _ h0 (fun t2 h2' => by
    rw [h1] at h2'; cases h2'; exact ⟨n1, n2, n3⟩)).1 rfl) ?_
  rw [parseLet]
  oksimp
  rw [ok_det (requireToken_ok toks "let" i d _ h0 rfl)]
  refine ok_mono hdest ?_
  rintro rd s1' ⟨rfl, rfl⟩
  refine ok_mono hhint ?_
  rintro rh s2' ⟨rfl, rfl⟩
  rw [ok_det (requireToken_ok toks "=" _ d _ heq rfl)]
  refine ok_mono hin ?_
  rintro r s3' ⟨hr1, hr2, rfl⟩
  simp [Res1, hr1, hr2, TokI.pos, Pos.merge]
  omega

theorem pf_let' {dst : LetDest} {h : Option TypeHint} {e : Expr} (pe : PF e) : PF (.letE dst h e) :=
  pf_stmt pe "let" (printDest dst ++ printHintOpt h ++ [w "="]) (fun first => by simp [printExpr]) (by decide) rfl rfl

theorem r_for' {dst : LetDest} {c : Expr} {es : List Expr} {nc : Nat} (wd : WTD dst) (hc : FU c nc) (pc : PF c)
    (hb : BlockOK es) : ∃ n, R true (.forIn dst c (.mk es)) n := by
  obtain ⟨NB, hNB⟩ := block_ok es hb.fu hb.pf hb.adj
  obtain ⟨ND, hND⟩ := dest_ok wd
  refine ⟨nc + NB + ND + 3, ?_⟩
  intro b fuel ln first i rest d toks Q _ hfu hD hfo _ ha
  obtain ⟨f, rfl⟩ : ∃ f, fuel = f + 3 := ⟨fuel - 3, by omega⟩
  have hT : T ln first (.forIn dst c (.mk es)) = tk "for" first ln :: (TD ln dst ++ tk "in" false ln ::
      (T ln false c ++ tk "{" false (ln + pnl c) ::
        (TItems (ln + pnl c) es ++ [tk "}" false (LItems (ln + pnl c) es + 1)]))) := by
    simp only [T, printExpr, List.cons_append, List.nil_append, List.append_assoc, lexAux_tok, Bool.not_false, Bool.and_true]
    rw [lex_flat (dest_flat dst)]
    simp only [w, lexAux_tok]
    rw [T_then_block0 pc]
    have := TB_eq es hb.pf (ln + pnl c) []
    simp only [List.append_nil] at this
    rw [this]
    simp [lexAux, T, tk, TD]
  rw [hT] at hD ha
  have hD0 : D toks i (tk "for" first ln :: (TD ln dst ++ (tk "in" false ln :: (T ln false c ++
      (tk "{" false (ln + pnl c) :: (TItems (ln + pnl c) es ++ tk "}" false (LItems (ln + pnl c) es + 1) :: rest)))))) := by
    simpa [List.append_assoc] using hD
  have h0 := hD0.head
  have hD1 := hD0.tail
  obtain ⟨s1, tl1, hT1, n1, n2, n3⟩ := TD_head wd ln
  have h1 : toks[i + 1]? = some (tk s1 false ln) := by
    have := hD1.head?; rw [hT1] at this; simpa using this
  have hdest := hND f ln (i + 1) _ d toks (by omega) hD1
  have hD2 := hD1.skip
  have hin' := hD2.head
  have hD3 := hD2.tail
  have hcond := hc f ln false _ _ d toks (by omega) hD3 (stop_lbrace' (Nat.le_refl _))
  have hblock := hNB f (ln + pnl c) _ rest d toks false (by omega) hD3.skip
  refine ok_exprT' (ok_rw ((nt_kw toks (f + 1) i d _ h0 (fun t2 h2' => by
    rw [h1] at h2'; cases h2'; exact ⟨n1, n2, n3⟩)).2.2.2.1 rfl) ?_)
  rw [parseForIn]
  oksimp
  rw [ok_det (requireToken_ok toks "for" i d _ h0 rfl)]
  refine ok_mono hdest ?_
  rintro rd s1' ⟨rfl, rfl⟩
  rw [ok_det (requireToken_ok toks "in" _ d _ hin' rfl)]
  refine ok_mono hcond ?_
  rintro rc s2' ⟨hr1, hr2, rfl⟩
  refine ok_mono hblock ?_
  rintro rb s3' ⟨hb1, hb2, rfl⟩
  have := ha ln (f + 2) (by omega)
  simp only [hr1, PBlock.block, hb1, TokI.pos, Pos.merge, tk_line, hb2, tk_text]
  have e1 : max (i + 1) (i + 1 + (TD ln rd).length + 1 + (T ln false c).length + 1 + (TItems (ln + pnl c) es).length + 1)
      = i + (tk "for" first ln :: (TD ln rd ++ tk "in" false ln :: (T ln false c ++ tk "{" false (ln + pnl c) ::
        (TItems (ln + pnl c) es ++ [tk "}" false (LItems (ln + pnl c) es + 1)])))).length := by simp; omega
  have e2 : i + 1 + (TD ln rd).length + 1 + (T ln false c).length + 1 + (TItems (ln + pnl c) es).length + 1
      = i + (tk "for" first ln :: (TD ln rd ++ tk "in" false ln :: (T ln false c ++ tk "{" false (ln + pnl c) ::
        (TItems (ln + pnl c) es ++ [tk "}" false (LItems (ln + pnl c) es + 1)])))).length := by simp; omega
  rw [e1, e2]
  exact this

/-! ### Definitions -/

/-- tokens of what follows `fun` / `fun name`: type parameters, parameters, return hint, body -/
def TFB (ln : Nat) (tps : List String) (ps : List Param) (r : Option TypeHint) (es : List Expr) : List Tok :=
  TTP ln tps ++ (TParams ln ps ++ (THO ln r ++ tk "{" false ln :: (TItems ln es ++ [tk "}" false (LItems ln es + 1)])))

theorem TFB_eq {tps : List String} {ps : List Param} {r : Option TypeHint} (wf : WTF tps ps r) {es : List Expr}
    (hpf : ∀ e ∈ es, PF e) (ln : Nat) :
    lexAux false ln (printFun (.mk tps ps r (.mk es))) = TFB ln tps ps r es := by
  have := TF_eq wf hpf ln []
  simp only [List.append_nil] at this
  rw [this]; simp [TFB, lexAux]

theorem funTail_ok' {tps : List String} {ps : List Param} {r : Option TypeHint} (wf : WTF tps ps r) {es : List Expr}
    (hb : BlockOK es) :
    ∃ N, ∀ (fuel ln i : Nat) (rest : List Tok) (d : List DiagKind) (toks : Toks)
      (K : List String → List Param → Option TypeHint → PBlock → St → Prop),
      N ≤ fuel → D toks i (TFB ln tps ps r es ++ rest) →
      (∀ body : PBlock, body.exprs = es → K tps ps r body ⟨i + (TFB ln tps ps r es).length, d⟩) →
      Ok (parseTypeParams toks false fuel) ⟨i, d⟩ (fun a s1 =>
        Ok (parseParameters toks false fuel) s1 (fun b s2 =>
          Ok (parseColonAndHintOpt toks false fuel) s2 (fun c s3 =>
            Ok (parseBlock toks false fuel) s3 (fun body s4 => K a b c body s4)))) := by
  obtain ⟨N, hN⟩ := funTail_ok wf hb
  refine ⟨N, ?_⟩
  intro fuel ln i rest d toks K hf hD hK
  refine hN fuel ln i rest d toks (i + (TFB ln tps ps r es).length) K hf ?_ ?_ ?_
  · simpa [TFB, List.append_assoc] using hD
  · simp [TFB]; omega
  · intro body h1 _; exact hK body h1

def defKw : List String := ["fun", "method", "test", "enum", "struct", "public", "import"]

theorem pubTok_lex (ln : Nat) (first pub : Bool) (kw : String) :
    lexAux false ln (pubTok first pub kw) = if pub then [tk "public" first ln, tk kw false ln] else [tk kw first ln] := by
  cases pub <;> simp [pubTok, lexAux, tk, w]

/-- `pop_if_public` then the keyword. -/
theorem pub_kw_ok (toks : Toks) (ln : Nat) (first pub : Bool) (kw : String) (hkw : kw ≠ "public") (i : Nat)
    (d : List DiagKind) (rest : List Tok) (hD : D toks i (lexAux false ln (pubTok first pub kw) ++ rest))
    (K : Bool → St → Prop) (hK : K pub ⟨i + (lexAux false ln (pubTok first pub kw)).length, d⟩) :
    Ok (popIfPublic toks) ⟨i, d⟩ (fun a s1 => Ok (requireToken toks kw) s1 (fun _ s2 => K a s2)) := by
  rw [pubTok_lex] at hD hK
  cases pub with
  | false =>
    simp only [Bool.false_eq_true, ↓reduceIte] at hD hK
    replace hD : D toks i (tk kw first ln :: rest) := by simpa using hD
    have h0 := hD.head
    simp only [popIfPublic]
    oksimp
    simp only [h0, tk_text, show (kw == "public") = false by simp [hkw], Bool.false_eq_true, ↓reduceIte]
    rw [ok_det (requireToken_ok toks kw i d _ h0 rfl)]
    simpa using hK
  | true =>
    simp only [↓reduceIte] at hD hK
    replace hD : D toks i (tk "public" first ln :: tk kw false ln :: rest) := by simpa using hD
    have h0 := hD.head
    have h1 := hD.tail.head
    simp only [popIfPublic]
    oksimp
    simp only [h0, tk_text, beq_self_eq_true, ↓reduceIte]
    rw [ok_det (requireToken_ok toks kw (i + 1) d _ h1 rfl)]
    simpa using hK

theorem pubTok_flat (first pub : Bool) (kw : String) : Flat (pubTok first pub kw) := by
  cases pub <;> simp [pubTok, w] <;> exact Flat.cons (by first | exact Flat.nil | exact Flat.cons Flat.nil)

def IT (ln : Nat) (first : Bool) (it : Item) : List Tok := lexAux false ln (printItem first it)

/-- the result of `parse_toplevel_item` on the canonical text of `it` -/
def ItemRes (it : Item) (j : Nat) (d : List DiagKind) : Option Item → St → Prop :=
  fun r s' => r = some it ∧ s' = ⟨j, d⟩

theorem notKwPh {name : String} (vn : ValidName name) : (name == "__keyword_placeholder") = false := by
  have := vn.notPh
  simp [isPlaceholderName] at this
  simp [this.2]

theorem top_fun (toks : Toks) (fuel i : Nat) (d : List DiagKind) (ln : Nat) (first pub : Bool) (name : String)
    (rest' : List Tok) (vn : ValidName name)
    (hD : D toks i (lexAux false ln (pubTok first pub "fun") ++ tk name false ln :: rest')) :
    parseToplevelItem toks false fuel ⟨i, d⟩ = parseFunction toks false fuel ⟨i, d⟩ := by
  rw [pubTok_lex] at hD
  have hn : (name != "(") = true := by simp [ne_of_isSymbolTok vn.sym (lit := "(") (by decide)]
  have hn' : (name == "(") = false := vn.beq_nonsym (by decide)
  have hn2 : name ≠ "(" := ne_of_isSymbolTok vn.sym (by decide)
  cases pub with
  | false =>
    replace hD : D toks i (tk "fun" first ln :: tk name false ln :: rest') := by simpa using hD
    have h0 := hD.head
    have h1 := hD.tail.head
    simp [parseToplevelItem, parseDefinition, bind_apply, P.bind, peek, peekAt, h0, h1, TokI.text, hn, hn2]
  | true =>
    replace hD : D toks i (tk "public" first ln :: tk "fun" false ln :: tk name false ln :: rest') := by simpa using hD
    have h0 := hD.head
    have h1 := hD.tail.head
    have h2 := hD.tail.tail.head
    simp [parseToplevelItem, parseDefinition, bind_apply, P.bind, peek, peekAt, h0, h1, h2, TokI.text, hn', hn2]

theorem item_func {pub : Bool} {name : String} {tps : List String} {ps : List Param} {r : Option TypeHint}
    {es : List Expr} (vn : ValidName name) (wf : WTF tps ps r) (hb : BlockOK es) :
    ∃ N, ∀ (fuel ln : Nat) (first : Bool) (i : Nat) (rest : List Tok) (d : List DiagKind) (toks : Toks), N ≤ fuel →
      D toks i (IT ln first (.func pub name (.mk tps ps r (.mk es))) ++ rest) →
      Ok (parseToplevelItem toks false fuel) ⟨i, d⟩
        (ItemRes (.func pub name (.mk tps ps r (.mk es))) (i + (IT ln first (.func pub name (.mk tps ps r (.mk es)))).length) d) := by
  obtain ⟨N, hN⟩ := funTail_ok' wf hb
  refine ⟨N, ?_⟩
  intro fuel ln first i rest d toks hf hD
  have hT : IT ln first (.func pub name (.mk tps ps r (.mk es))) =
      lexAux false ln (pubTok first pub "fun") ++ tk name false ln :: TFB ln tps ps r es := by
    simp only [IT, printItem, List.append_assoc]
    rw [lex_flat (pubTok_flat first pub "fun")]
    simp only [List.cons_append, List.nil_append, w, lexAux_tok]
    rw [TFB_eq wf hb.pf]
    simp [tk]
  rw [hT] at hD ⊢
  generalize hPK : lexAux false ln (pubTok first pub "fun") = PK at *
  have hD' : D toks i (PK ++ tk name false ln :: (TFB ln tps ps r es ++ rest)) := by
    simpa [List.append_assoc] using hD
  refine ok_rw (top_fun toks fuel i d ln first pub name _ vn (by rw [hPK]; exact hD')) ?_
  have hname := hD'.skip.head
  have hD2 := hD'.skip.tail
  simp only [parseFunction]
  oksimp
  refine pub_kw_ok toks ln first pub "fun" (by decide) i d _ (by rw [hPK]; exact hD') _ ?_
  rw [hPK, ok_det (parseSymbol_ok toks _ d _ hname vn)]
  simp only [tk_text, notKwPh vn, Bool.false_eq_true, ↓reduceIte]
  refine hN fuel ln _ rest d toks _ hf hD2 ?_
  intro body hb1
  simp [ItemRes, PBlock.block, hb1]
  omega

theorem top_method (toks : Toks) (fuel i : Nat) (d : List DiagKind) (ln : Nat) (first pub : Bool) (t2 : Tok)
    (rest' : List Tok)
    (hD : D toks i (lexAux false ln (pubTok first pub "method") ++ t2 :: rest')) :
    parseToplevelItem toks false fuel ⟨i, d⟩ =
      (do let m ← parseMethod toks false fuel; pure (some m) : P (Option Item)) ⟨i, d⟩ := by
  rw [pubTok_lex] at hD
  cases pub with
  | false =>
    replace hD : D toks i (tk "method" first ln :: t2 :: rest') := by simpa using hD
    have h0 := hD.head
    have h1 := hD.tail.head
    simp [parseToplevelItem, parseDefinition, bind_apply, P.bind, peek, peekAt, h0, h1, TokI.text]
  | true =>
    replace hD : D toks i (tk "public" first ln :: tk "method" false ln :: t2 :: rest') := by simpa using hD
    have h0 := hD.head
    have h1 := hD.tail.head
    simp [parseToplevelItem, parseDefinition, bind_apply, P.bind, peek, peekAt, h0, h1, TokI.text]

theorem item_method {pub : Bool} {name recv : String} {rh : TypeHint} {tps : List String} {ps : List Param}
    {r : Option TypeHint} {es : List Expr} (vn : ValidName name) (wf : WTF tps (⟨recv, some rh⟩ :: ps) r)
    (hb : BlockOK es) :
    ∃ N, ∀ (fuel ln : Nat) (first : Bool) (i : Nat) (rest : List Tok) (d : List DiagKind) (toks : Toks), N ≤ fuel →
      D toks i (IT ln first (.method pub name recv rh (.mk tps ps r (.mk es))) ++ rest) →
      Ok (parseToplevelItem toks false fuel) ⟨i, d⟩
        (ItemRes (.method pub name recv rh (.mk tps ps r (.mk es)))
          (i + (IT ln first (.method pub name recv rh (.mk tps ps r (.mk es)))).length) d) := by
  obtain ⟨N, hN⟩ := funTail_ok wf hb
  obtain ⟨N1, h1⟩ := tparams_ok tps wf.tpsOk
  obtain ⟨N2, h2⟩ := params_ok (⟨recv, some rh⟩ :: ps) wf.psOk wf.dup
  obtain ⟨N3, h3⟩ := hintOpt_ok wf.ret
  obtain ⟨N4, h4⟩ := block_ok es hb.fu hb.pf hb.adj
  refine ⟨N1 + N2 + N3 + N4, ?_⟩
  intro fuel ln first i rest d toks hf hD
  have hT : IT ln first (.method pub name recv rh (.mk tps ps r (.mk es))) =
      lexAux false ln (pubTok first pub "method") ++ tk name false ln :: TFB ln tps (⟨recv, some rh⟩ :: ps) r es := by
    simp only [IT, printItem, List.append_assoc]
    rw [lex_flat (pubTok_flat first pub "method")]
    simp only [List.cons_append, List.nil_append, w, lexAux_tok]
    rw [TFB_eq wf hb.pf]
    simp [tk]
  rw [hT] at hD ⊢
  generalize hPK : lexAux false ln (pubTok first pub "method") = PK at *
  generalize hps' : (⟨recv, some rh⟩ :: ps : List Param) = ps' at *
  have hD' : D toks i (PK ++ tk name false ln :: (TTP ln tps ++ (TParams ln ps' ++ (THO ln r ++
      tk "{" false ln :: (TItems ln es ++ tk "}" false (LItems ln es + 1) :: rest))))) := by
    simpa [TFB, List.append_assoc] using hD
  refine ok_rw (top_method toks fuel i d ln first pub _ _ (by rw [hPK]; exact hD')) ?_
  have hname := hD'.skip.head
  have hD2 := hD'.skip.tail
  have hparen : ∀ t, (TParams ln ps' ++ (THO ln r ++ tk "{" false ln ::
      (TItems ln es ++ tk "}" false (LItems ln es + 1) :: rest))).head? = some t → t.text ≠ "<" := by
    intro t ht
    rw [TParams_eq ln ps' wf.psOk] at ht
    simp at ht; subst ht; simp
  simp only [parseMethod]
  oksimp
  refine pub_kw_ok toks ln first pub "method" (by decide) i d _ (by rw [hPK]; exact hD') _ ?_
  rw [hPK, ok_det (parseSymbol_ok toks _ d _ hname vn)]
  refine ok_mono (h1 fuel ln _ _ d toks (by omega) hD2 hparen) ?_
  rintro a s1 ⟨rfl, rfl⟩
  refine ok_mono (h2 fuel ln _ _ d toks (by omega) hD2.skip) ?_
  rintro b s2 ⟨rfl, rfl⟩
  subst hps'
  simp only [ok_pure]
  refine ok_mono (h3 fuel ln _ _ d toks (by omega) hD2.skip.skip (noHint_tok (Or.inr (Or.inr (Or.inr rfl))))) ?_
  rintro c s3 ⟨rfl, rfl⟩
  refine ok_mono (h4 fuel ln _ rest d toks false (by omega) hD2.skip.skip.skip) ?_
  rintro body s4 ⟨hb1, hb2, rfl⟩
  simp [ItemRes, PBlock.block, hb1, TFB]
  omega

theorem top_test (toks : Toks) (fuel i : Nat) (d : List DiagKind) (ln : Nat) (first : Bool) (t2 : Tok)
    (rest' : List Tok) (hD : D toks i (tk "test" first ln :: t2 :: rest')) :
    parseToplevelItem toks false fuel ⟨i, d⟩ =
      (do let m ← parseTest toks false fuel; pure (some m) : P (Option Item)) ⟨i, d⟩ := by
  have h0 := hD.head
  have h1 := hD.tail.head
  simp [parseToplevelItem, parseDefinition, bind_apply, P.bind, peek, peekAt, h0, h1, TokI.text]

theorem item_test {name : String} {es : List Expr} (vn : ValidName name) (hb : BlockOK es) :
    ∃ N, ∀ (fuel ln : Nat) (first : Bool) (i : Nat) (rest : List Tok) (d : List DiagKind) (toks : Toks), N ≤ fuel →
      D toks i (IT ln first (.test name (.mk es)) ++ rest) →
      Ok (parseToplevelItem toks false fuel) ⟨i, d⟩
        (ItemRes (.test name (.mk es)) (i + (IT ln first (.test name (.mk es))).length) d) := by
  obtain ⟨N4, h4⟩ := block_ok es hb.fu hb.pf hb.adj
  refine ⟨N4, ?_⟩
  intro fuel ln first i rest d toks hf hD
  have hT : IT ln first (.test name (.mk es)) = tk "test" first ln :: tk name false ln :: tk "{" false ln ::
      (TItems ln es ++ [tk "}" false (LItems ln es + 1)]) := by
    simp only [IT, printItem, List.cons_append, List.nil_append, w, lexAux_tok]
    have := TB_eq es hb.pf ln []
    simp only [List.append_nil] at this
    rw [this]
    simp [tk, lexAux]
  rw [hT] at hD ⊢
  have hD' : D toks i (tk "test" first ln :: tk name false ln :: tk "{" false ln ::
      (TItems ln es ++ tk "}" false (LItems ln es + 1) :: rest)) := by
    simpa [List.append_assoc] using hD
  refine ok_rw (top_test toks fuel i d ln first _ _ hD') ?_
  have h0 := hD'.head
  have h1 := hD'.tail.head
  have h2 := hD'.tail.tail.head
  simp only [parseTest]
  oksimp
  rw [ok_det (requireToken_ok toks "test" i d _ h0 rfl)]
  rw [ok_det (parseSymbol_ok toks _ d _ h1 vn)]
  simp only [h2, tk_text, show (("{" : String) == "(") = false by decide, Bool.false_eq_true, ↓reduceIte]
  (try oksimp)
  refine ok_mono (h4 fuel ln _ rest d toks false hf hD'.tail.tail) ?_
  rintro body s4 ⟨hb1, hb2, rfl⟩
  simp [ItemRes, PBlock.block, hb1]
  omega

/-! #### Enums -/

structure VariantOK (v : Variant) : Prop where
  name : ValidName v.name
  payload : ∀ h, v.payload = some h → WTH h

/-- tokens of one variant on line `l` -/
def TVar (l : Nat) (v : Variant) : List Tok :=
  match v.payload with
  | none => [tk v.name false l, tk "," true l]
  | some h => tk v.name false l :: tk "(" true l :: (TH l h ++ [tk ")" true l, tk "," true l])

def TVars : Nat → List Variant → List Tok
  | _, [] => []
  | l, v :: r => TVar (l + 1) v ++ TVars (l + 1) r

theorem lexAux_true_w (l : Nat) (s : String) (X : List PTok) :
    lexAux true l (w s :: X) = lexAux false l (w s :: X) := by simp [lexAux, w]

theorem variants_tokens (vs : List Variant) (hok : ∀ v ∈ vs, VariantOK v) (b : Bool) (l : Nat) (B : List PTok) :
    lexAux b l (vs.flatMap printVariant ++ (PTok.nl :: w "}" :: B)) =
      TVars l vs ++ tk "}" false (l + vs.length + 1) :: lexAux false (l + vs.length + 1) B := by
  induction vs generalizing b l with
  | nil => simp [TVars, lexAux, tk, w]
  | cons v r ih =>
    have hv := hok v (List.mem_cons_self ..)
    have ih' := ih (fun x hx => hok x (List.mem_cons_of_mem _ hx))
    obtain ⟨vn, pl⟩ := v
    have e : l + 1 + r.length + 1 = l + (r.length + 1) + 1 := by omega
    cases pl with
    | none =>
      simp only [List.flatMap_cons, printVariant, List.cons_append, List.nil_append, List.append_assoc, lexAux_nl,
        lexAux_true_w, TVars, TVar, List.length_cons]
      simp only [w, g, lexAux_tok]
      have ih2 := ih' false (l + 1)
      simp only [w] at ih2
      rw [ih2, e]
      simp [tk]
    | some h =>
      have wh := hv.payload h rfl
      simp only [List.flatMap_cons, printVariant, List.cons_append, List.nil_append, List.append_assoc, lexAux_nl,
        lexAux_true_w, TVars, TVar, List.length_cons]
      simp only [w, g, lexAux_tok]
      rw [lex_flat (hint_flat wh)]
      simp only [lexAux_tok]
      have ih2 := ih' false (l + 1)
      simp only [w] at ih2
      rw [ih2, e]
      simp [tk, TH]

theorem enumBodyLoop_ok (vs : List Variant) (hok : ∀ v ∈ vs, VariantOK v) :
    ∃ N, ∀ (fuel l i : Nat) (rest : List Tok) (d : List DiagKind) (toks : Toks) (acc : List Variant) (tt : Bool) (lc : Nat),
      N ≤ fuel → D toks i (TVars l vs ++ tk "}" tt lc :: rest) →
      Ok (enumBodyLoop toks false fuel acc) ⟨i, d⟩ (fun r s' => r = acc ++ vs ∧ s' = ⟨i + (TVars l vs).length, d⟩) := by
  induction vs with
  | nil =>
    refine ⟨1, ?_⟩
    intro fuel l i rest d toks acc tt lc hf hD
    obtain ⟨f, rfl⟩ : ∃ f, fuel = f + 1 := ⟨fuel - 1, by omega⟩
    simp only [TVars, List.nil_append] at hD ⊢
    have h0 := hD.head
    rw [enumBodyLoop]
    oksimp
    simp [h0, ok_pure]
  | cons v r ih =>
    have hv := hok v (List.mem_cons_self ..)
    obtain ⟨N', hN'⟩ := ih (fun x hx => hok x (List.mem_cons_of_mem _ hx))
    obtain ⟨vn, pl⟩ := v
    have hnp : (vn == "}") = false := hv.name.beq_nonsym (by decide)
    cases pl with
    | none =>
      refine ⟨N' + 1, ?_⟩
      intro fuel l i rest d toks acc tt lc hf hD
      obtain ⟨f, rfl⟩ : ∃ f, fuel = f + 1 := ⟨fuel - 1, by omega⟩
      simp only [TVars, TVar, List.cons_append, List.nil_append, List.append_assoc] at hD ⊢
      have h0 := hD.head
      have h1 := hD.tail.head
      have hrec := hN' f (l + 1) (i + 1 + 1) rest d toks (acc ++ [⟨vn, none⟩]) tt lc (by omega) hD.tail.tail
      rw [enumBodyLoop]
      oksimp
      simp only [h0, tk_text, hnp, Bool.false_eq_true, ↓reduceIte]
      simp only [parseVariant]
      oksimp
      rw [ok_det (parseSymbol_ok toks i d _ h0 hv.name)]
      simp only [h1, tk_text, show (("," : String) == "(") = false by decide, Bool.false_eq_true, ↓reduceIte]
      (try oksimp)
      simp only [h1, Option.map_some, TokI.text, tk_text, beq_self_eq_true, ↓reduceIte]
      have hlt : ¬ (i + 1 + 1 ≤ i) := by omega
      simp only [hlt, decide_false, Bool.false_eq_true, ↓reduceIte, Bool.and_false]
      refine ok_mono hrec ?_
      rintro r2' s3 ⟨e1, e2⟩
      refine ⟨by simp [e1], ?_⟩
      rw [e2]; simp; omega
    | some h =>
      obtain ⟨NH, hNH⟩ := hint_ok (hv.payload h rfl)
      refine ⟨NH + N' + 1, ?_⟩
      intro fuel l i rest d toks acc tt lc hf hD
      obtain ⟨f, rfl⟩ : ∃ f, fuel = f + 1 := ⟨fuel - 1, by omega⟩
      simp only [TVars, TVar, List.cons_append, List.nil_append, List.append_assoc] at hD ⊢
      have h0 := hD.head
      have h1 := hD.tail.head
      have hD2 := hD.tail.tail
      have hh := hNH f (l + 1) (i + 1 + 1) _ d toks (by omega) hD2 (by intro t ht; simp at ht; subst ht; simp)
      have hclose := hD2.skip.head
      have hcomma := hD2.skip.tail.head
      have hrec := hN' f (l + 1) (i + 1 + 1 + (TH (l + 1) h).length + 1 + 1) rest d toks (acc ++ [⟨vn, some h⟩]) tt lc
        (by omega) hD2.skip.tail.tail
      rw [enumBodyLoop]
      oksimp
      simp only [h0, tk_text, hnp, Bool.false_eq_true, ↓reduceIte]
      simp only [parseVariant]
      oksimp
      rw [ok_det (parseSymbol_ok toks i d _ h0 hv.name)]
      simp only [h1, tk_text, beq_self_eq_true, ↓reduceIte]
      refine ok_mono hh ?_
      rintro rh s1 ⟨rfl, rfl⟩
      rw [ok_det (requireToken_ok toks ")" _ d _ hclose rfl)]
      simp only [hcomma, Option.map_some, TokI.text, tk_text, beq_self_eq_true, ↓reduceIte]
      (try oksimp)
      (try simp only [hcomma])
      have hlt : ¬ (i + 1 + 1 + (TH (l + 1) rh).length + 1 + 1 ≤ i) := by omega
      simp only [hlt, decide_false, Bool.false_eq_true, ↓reduceIte, Bool.and_false]
      refine ok_mono hrec ?_
      rintro r2' s3 ⟨e1, e2⟩
      refine ⟨by simp [e1], ?_⟩
      rw [e2]; simp; omega

theorem requiredTokenOk_ok (toks : Toks) (x : String) (i : Nat) (d : List DiagKind) (t : Tok)
    (h : toks[i]? = some t) (hx : t.text = x) :
    requiredTokenOk toks x ⟨i, d⟩ = .ok true ⟨i + 1, d⟩ := by
  simp [requiredTokenOk, checkRequiredToken, bind_apply, P.bind, pure_apply, prev, pop, h, TokI.text, hx]

theorem top_enum (toks : Toks) (fuel i : Nat) (d : List DiagKind) (ln : Nat) (first pub : Bool) (t2 : Tok)
    (rest' : List Tok)
    (hD : D toks i (lexAux false ln (pubTok first pub "enum") ++ t2 :: rest')) :
    parseToplevelItem toks false fuel ⟨i, d⟩ =
      (do let m ← parseEnum toks false fuel; pure (some m) : P (Option Item)) ⟨i, d⟩ := by
  rw [pubTok_lex] at hD
  cases pub with
  | false =>
    replace hD : D toks i (tk "enum" first ln :: t2 :: rest') := by simpa using hD
    have h0 := hD.head
    have h1 := hD.tail.head
    simp [parseToplevelItem, parseDefinition, bind_apply, P.bind, peek, peekAt, h0, h1, TokI.text]
  | true =>
    replace hD : D toks i (tk "public" first ln :: tk "enum" false ln :: t2 :: rest') := by simpa using hD
    have h0 := hD.head
    have h1 := hD.tail.head
    simp [parseToplevelItem, parseDefinition, bind_apply, P.bind, peek, peekAt, h0, h1, TokI.text]

theorem item_enum {pub : Bool} {name : String} {tps : List String} {vs : List Variant} (vn : ValidName name)
    (htps : ∀ x ∈ tps, ValidName x) (hok : ∀ v ∈ vs, VariantOK v) :
    ∃ N, ∀ (fuel ln : Nat) (first : Bool) (i : Nat) (rest : List Tok) (d : List DiagKind) (toks : Toks), N ≤ fuel →
      D toks i (IT ln first (.enum pub name tps vs) ++ rest) →
      Ok (parseToplevelItem toks false fuel) ⟨i, d⟩
        (ItemRes (.enum pub name tps vs) (i + (IT ln first (.enum pub name tps vs)).length) d) := by
  obtain ⟨N1, h1⟩ := tparams_ok tps htps
  obtain ⟨N2, h2⟩ := enumBodyLoop_ok vs hok
  refine ⟨N1 + N2, ?_⟩
  intro fuel ln first i rest d toks hf hD
  have hT : IT ln first (.enum pub name tps vs) =
      lexAux false ln (pubTok first pub "enum") ++ tk name false ln :: (TTP ln tps ++ tk "{" false ln ::
        (TVars ln vs ++ [tk "}" false (ln + vs.length + 1)])) := by
    simp only [IT, printItem, List.append_assoc]
    rw [lex_flat (pubTok_flat first pub "enum")]
    simp only [List.cons_append, List.nil_append, w, lexAux_tok]
    rw [lex_flat (tparams_flat tps), lexAux_tok]
    have := variants_tokens vs hok false ln []
    simp only [w] at this
    rw [this]
    simp [tk, TTP, lexAux]
  rw [hT] at hD ⊢
  generalize hPK : lexAux false ln (pubTok first pub "enum") = PK at *
  have hD' : D toks i (PK ++ tk name false ln :: (TTP ln tps ++ (tk "{" false ln ::
      (TVars ln vs ++ tk "}" false (ln + vs.length + 1) :: rest)))) := by
    simpa [List.append_assoc] using hD
  refine ok_rw (top_enum toks fuel i d ln first pub _ _ (by rw [hPK]; exact hD')) ?_
  have hname := hD'.skip.head
  have hD2 := hD'.skip.tail
  have hbrace := hD2.skip.head
  have hD3 := hD2.skip.tail
  have hclose := hD3.skip.head
  simp only [parseEnum]
  oksimp
  refine pub_kw_ok toks ln first pub "enum" (by decide) i d _ (by rw [hPK]; exact hD') _ ?_
  rw [hPK, ok_det (parseSymbol_ok toks _ d _ hname vn)]
  refine ok_mono (h1 fuel ln _ _ d toks (by omega) hD2 (by intro t ht; simp at ht; subst ht; simp)) ?_
  rintro a s1 ⟨rfl, rfl⟩
  rw [ok_det (requiredTokenOk_ok toks "{" _ d _ hbrace rfl)]
  simp only [Bool.not_true, Bool.false_eq_true, ↓reduceIte]
  refine ok_mono (h2 fuel ln _ _ d toks [] false _ (by omega) hD3) ?_
  rintro vs' s2 ⟨hvs, rfl⟩
  rw [ok_det (requireToken_ok toks "}" _ d _ hclose rfl)]
  simp only [List.nil_append] at hvs
  simp [ItemRes, hvs]
  omega

/-! #### Structs -/

structure SFieldOK (f : StructField) : Prop where
  name : ValidName f.name
  hint : WTH f.hint

def TSFields : Nat → List StructField → List Tok
  | _, [] => []
  | l, f :: r => tk f.name false (l + 1) :: tk ":" true (l + 1) :: (TH (l + 1) f.hint ++ tk "," true (l + 1) :: TSFields (l + 1) r)

theorem sfields_tokens (fs : List StructField) (hok : ∀ f ∈ fs, SFieldOK f) (b : Bool) (l : Nat) (B : List PTok) :
    lexAux b l (fs.flatMap printStructField ++ (PTok.nl :: w "}" :: B)) =
      TSFields l fs ++ tk "}" false (l + fs.length + 1) :: lexAux false (l + fs.length + 1) B := by
  induction fs generalizing b l with
  | nil => simp [TSFields, lexAux, tk, w]
  | cons f r ih =>
    have hf := hok f (List.mem_cons_self ..)
    have ih' := ih (fun x hx => hok x (List.mem_cons_of_mem _ hx))
    have e : l + 1 + r.length + 1 = l + (r.length + 1) + 1 := by omega
    simp only [List.flatMap_cons, printStructField, List.cons_append, List.nil_append, List.append_assoc, lexAux_nl,
      lexAux_true_w, TSFields, List.length_cons]
    simp only [w, g, lexAux_tok]
    rw [lex_flat (hint_flat hf.hint)]
    simp only [lexAux_tok]
    have ih2 := ih' false (l + 1)
    simp only [w] at ih2
    rw [ih2, e]
    simp [tk, TH]

theorem structFieldsLoop_ok (fs : List StructField) (hok : ∀ f ∈ fs, SFieldOK f) :
    ∃ N, ∀ (fuel l i : Nat) (rest : List Tok) (d : List DiagKind) (toks : Toks) (acc : List StructField) (tt : Bool) (lc : Nat),
      N ≤ fuel → D toks i (TSFields l fs ++ tk "}" tt lc :: rest) →
      Ok (structFieldsLoop toks false fuel acc) ⟨i, d⟩ (fun r s' => r = acc ++ fs ∧ s' = ⟨i + (TSFields l fs).length, d⟩) := by
  induction fs with
  | nil =>
    refine ⟨1, ?_⟩
    intro fuel l i rest d toks acc tt lc hf hD
    obtain ⟨f, rfl⟩ : ∃ f, fuel = f + 1 := ⟨fuel - 1, by omega⟩
    simp only [TSFields, List.nil_append] at hD ⊢
    have h0 := hD.head
    rw [structFieldsLoop]
    oksimp
    simp [h0, ok_pure]
  | cons fl r ih =>
    have hfl := hok fl (List.mem_cons_self ..)
    obtain ⟨N', hN'⟩ := ih (fun x hx => hok x (List.mem_cons_of_mem _ hx))
    obtain ⟨NH, hNH⟩ := hint_ok hfl.hint
    refine ⟨NH + N' + 1, ?_⟩
    intro fuel l i rest d toks acc tt lc hf hD
    obtain ⟨f, rfl⟩ : ∃ f, fuel = f + 1 := ⟨fuel - 1, by omega⟩
    simp only [TSFields, List.cons_append, List.nil_append, List.append_assoc] at hD ⊢
    have hnp : (fl.name == "}") = false := hfl.name.beq_nonsym (by decide)
    have h0 := hD.head
    have h1 := hD.tail.head
    have hD2 := hD.tail.tail
    have hh := hNH f (l + 1) (i + 1 + 1) _ d toks (by omega) hD2 (by intro t ht; simp at ht; subst ht; simp)
    have hcomma := hD2.skip.head
    have hrec := hN' f (l + 1) (i + 1 + 1 + (TH (l + 1) fl.hint).length + 1) rest d toks (acc ++ [fl]) tt lc
      (by omega) hD2.skip.tail
    rw [structFieldsLoop]
    oksimp
    simp only [h0, tk_text, hnp, Bool.false_eq_true, ↓reduceIte, Option.map_some]
    oksimp
    rw [ok_det (parseSymbol_ok toks i d _ h0 hfl.name)]
    simp only [parseColonAnd]
    oksimp
    rw [ok_det (requireToken_ok toks ":" (i + 1) d _ h1 rfl)]
    refine ok_mono hh ?_
    rintro rh s1 ⟨rfl, rfl⟩
    simp only [hcomma, Option.map_some, TokI.text, tk_text, beq_self_eq_true, ↓reduceIte]
    (try oksimp)
    (try simp only [hcomma])
    refine ok_mono hrec ?_
    rintro r2' s3 ⟨e1, e2⟩
    refine ⟨by simp [e1], ?_⟩
    rw [e2]; simp; omega

theorem top_struct (toks : Toks) (fuel i : Nat) (d : List DiagKind) (ln : Nat) (first pub : Bool) (t2 : Tok)
    (rest' : List Tok)
    (hD : D toks i (lexAux false ln (pubTok first pub "struct") ++ t2 :: rest')) :
    parseToplevelItem toks false fuel ⟨i, d⟩ =
      (do let m ← parseStruct toks false fuel; pure (some m) : P (Option Item)) ⟨i, d⟩ := by
  rw [pubTok_lex] at hD
  cases pub with
  | false =>
    replace hD : D toks i (tk "struct" first ln :: t2 :: rest') := by simpa using hD
    have h0 := hD.head
    have h1 := hD.tail.head
    simp [parseToplevelItem, parseDefinition, bind_apply, P.bind, peek, peekAt, h0, h1, TokI.text]
  | true =>
    replace hD : D toks i (tk "public" first ln :: tk "struct" false ln :: t2 :: rest') := by simpa using hD
    have h0 := hD.head
    have h1 := hD.tail.head
    simp [parseToplevelItem, parseDefinition, bind_apply, P.bind, peek, peekAt, h0, h1, TokI.text]

theorem item_struct {pub : Bool} {name : String} {tps : List String} {fs : List StructField} (vn : ValidName name)
    (htps : ∀ x ∈ tps, ValidName x) (hok : ∀ f ∈ fs, SFieldOK f) :
    ∃ N, ∀ (fuel ln : Nat) (first : Bool) (i : Nat) (rest : List Tok) (d : List DiagKind) (toks : Toks), N ≤ fuel →
      D toks i (IT ln first (.struct pub name tps fs) ++ rest) →
      Ok (parseToplevelItem toks false fuel) ⟨i, d⟩
        (ItemRes (.struct pub name tps fs) (i + (IT ln first (.struct pub name tps fs)).length) d) := by
  obtain ⟨N1, h1⟩ := tparams_ok tps htps
  obtain ⟨N2, h2⟩ := structFieldsLoop_ok fs hok
  refine ⟨N1 + N2, ?_⟩
  intro fuel ln first i rest d toks hf hD
  have hT : IT ln first (.struct pub name tps fs) =
      lexAux false ln (pubTok first pub "struct") ++ tk name false ln :: (TTP ln tps ++ tk "{" false ln ::
        (TSFields ln fs ++ [tk "}" false (ln + fs.length + 1)])) := by
    simp only [IT, printItem, List.append_assoc]
    rw [lex_flat (pubTok_flat first pub "struct")]
    simp only [List.cons_append, List.nil_append, w, lexAux_tok]
    rw [lex_flat (tparams_flat tps), lexAux_tok]
    have := sfields_tokens fs hok false ln []
    simp only [w] at this
    rw [this]
    simp [tk, TTP, lexAux]
  rw [hT] at hD ⊢
  generalize hPK : lexAux false ln (pubTok first pub "struct") = PK at *
  have hD' : D toks i (PK ++ tk name false ln :: (TTP ln tps ++ (tk "{" false ln ::
      (TSFields ln fs ++ tk "}" false (ln + fs.length + 1) :: rest)))) := by
    simpa [List.append_assoc] using hD
  refine ok_rw (top_struct toks fuel i d ln first pub _ _ (by rw [hPK]; exact hD')) ?_
  have hname := hD'.skip.head
  have hD2 := hD'.skip.tail
  have hbrace := hD2.skip.head
  have hD3 := hD2.skip.tail
  have hclose := hD3.skip.head
  simp only [parseStruct]
  oksimp
  refine pub_kw_ok toks ln first pub "struct" (by decide) i d _ (by rw [hPK]; exact hD') _ ?_
  rw [hPK, ok_det (parseSymbol_ok toks _ d _ hname vn)]
  refine ok_mono (h1 fuel ln _ _ d toks (by omega) hD2 (by intro t ht; simp at ht; subst ht; simp)) ?_
  rintro a s1 ⟨rfl, rfl⟩
  rw [ok_det (requiredTokenOk_ok toks "{" _ d _ hbrace rfl)]
  simp only [Bool.not_true, Bool.false_eq_true, ↓reduceIte]
  refine ok_mono (h2 fuel ln _ _ d toks [] false _ (by omega) hD3) ?_
  rintro fs' s2 ⟨hfs, rfl⟩
  rw [ok_det (requireToken_ok toks "}" _ d _ hclose rfl)]
  simp only [List.nil_append] at hfs
  simp [ItemRes, hfs]
  omega

/-! #### Imports, expression items, block items -/

theorem top_import (toks : Toks) (fuel i : Nat) (d : List DiagKind) (ln : Nat) (first : Bool) (t2 : Tok)
    (rest' : List Tok) (hD : D toks i (tk "import" first ln :: t2 :: rest')) :
    parseToplevelItem toks false fuel ⟨i, d⟩ = parseImport toks false ⟨i, d⟩ := by
  have h0 := hD.head
  have h1 := hD.tail.head
  simp [parseToplevelItem, parseDefinition, bind_apply, P.bind, peek, peekAt, h0, h1, TokI.text]

theorem item_import {path : String} {al : Option String} (hal : ∀ a, al = some a → ValidName a) :
    ∀ (fuel ln : Nat) (first : Bool) (i : Nat) (rest : List Tok) (d : List DiagKind) (toks : Toks),
      D toks i (IT ln first (.importI path al) ++ rest) →
      (al = none → ∀ t, rest.head? = some t → t.text ≠ "as") →
      Ok (parseToplevelItem toks false fuel) ⟨i, d⟩
        (ItemRes (.importI path al) (i + (IT ln first (.importI path al)).length) d) := by
  intro fuel ln first i rest d toks hD hno
  cases al with
  | none =>
    have hT : IT ln first (.importI path none) = [tk "import" first ln, tk (strTok path) false ln] := by
      simp [IT, printItem, lexAux, tk, w]
    rw [hT] at hD ⊢
    replace hD : D toks i (tk "import" first ln :: tk (strTok path) false ln :: rest) := by simpa using hD
    refine ok_rw (top_import toks fuel i d ln first _ _ hD) ?_
    have h0 := hD.head
    have h1 := hD.tail.head
    have h2 := hD.tail.tail.head?
    simp only [parseImport]
    oksimp
    rw [ok_det (requireToken_ok toks "import" i d _ h0 rfl)]
    simp only [h1, TokI.text, tk_text, (strFacts path).str, ↓reduceIte, unescapeTok_strTok, diagN]
    oksimp
    rw [h2]
    cases hr : rest.head? with
    | none => simp [ItemRes]
    | some t => have := hno rfl t hr; simp [ItemRes, this]
  | some a =>
    have va := hal a rfl
    have hT : IT ln first (.importI path (some a)) =
        [tk "import" first ln, tk (strTok path) false ln, tk "as" false ln, tk a false ln] := by
      simp [IT, printItem, lexAux, tk, w]
    rw [hT] at hD ⊢
    replace hD : D toks i (tk "import" first ln :: tk (strTok path) false ln :: tk "as" false ln :: tk a false ln :: rest) := by
      simpa using hD
    refine ok_rw (top_import toks fuel i d ln first _ _ hD) ?_
    have h0 := hD.head
    have h1 := hD.tail.head
    have h2 := hD.tail.tail.head
    have h3 := hD.tail.tail.tail.head
    simp only [parseImport]
    oksimp
    rw [ok_det (requireToken_ok toks "import" i d _ h0 rfl)]
    simp only [h1, TokI.text, tk_text, (strFacts path).str, ↓reduceIte, unescapeTok_strTok, diagN]
    oksimp
    simp only [h2, tk_text, beq_self_eq_true, ↓reduceIte]
    rw [ok_det (parseSymbol_ok toks _ d _ h3 va)]
    simp [ItemRes]

theorem item_expr {e : Expr} {n : Nat} (he : FU e n) (pe : PF e)
    (htop : ∀ s tl, printExpr true e = PTok.t s true :: tl → s ∉ defKw) :
    ∀ (fuel ln : Nat) (first : Bool) (i : Nat) (rest : List Tok) (d : List DiagKind) (toks : Toks), n ≤ fuel →
      D toks i (IT ln first (.expr e) ++ rest) → Stop e ln rest →
      Ok (parseToplevelItem toks false fuel) ⟨i, d⟩ (ItemRes (.expr e) (i + (IT ln first (.expr e)).length) d) := by
  intro fuel ln first i rest d toks hf hD hs
  have hT : IT ln first (.expr e) = T ln first e := rfl
  rw [hT] at hD ⊢
  obtain ⟨s0, tl0, hp0, hbad⟩ := pe.hd
  have hT0 : T ln first e = tk s0 first ln :: lexAux false ln tl0 := by simp [T, hp0, lexAux, tk]
  have h0 : toks[i]? = some (tk s0 first ln) := by
    have := hD.head?; rw [hT0] at this; simpa using this
  have hk : s0 ∉ defKw := htop s0 tl0 (hp0 true)
  have hk' : (["fun", "method", "test", "enum", "struct", "public", "import"].contains s0) = false := by
    simpa [defKw] using hk
  have hb : (s0 == "{") = false := not_badFirst hbad (by decide)
  simp only [parseToplevelItem]
  oksimp
  simp only [h0, Option.map_some, TokI.text, tk_text]
  (try oksimp)
  simp only [tk_text, hk', hb, Bool.false_eq_true, ↓reduceIte]
  refine ok_mono (he fuel ln first i rest d toks hf hD hs) ?_
  rintro r s1 ⟨h1, h2, rfl⟩
  simp [ItemRes, h1]

theorem item_block {es : List Expr} (hb : BlockOK es) :
    ∃ N, ∀ (fuel ln : Nat) (first : Bool) (i : Nat) (rest : List Tok) (d : List DiagKind) (toks : Toks), N ≤ fuel →
      D toks i (IT ln first (.block (.mk es)) ++ rest) →
      Ok (parseToplevelItem toks false fuel) ⟨i, d⟩
        (ItemRes (.block (.mk es)) (i + (IT ln first (.block (.mk es))).length) d) := by
  obtain ⟨N4, h4⟩ := block_ok es hb.fu hb.pf hb.adj
  refine ⟨N4, ?_⟩
  intro fuel ln first i rest d toks hf hD
  have hT : IT ln first (.block (.mk es)) = tk "{" first ln :: (TItems ln es ++ [tk "}" false (LItems ln es + 1)]) := by
    simp only [IT, printItem, printBlock, List.cons_append, List.nil_append, w, lexAux_tok]
    have := items_tokens es hb.pf false ln []
    simp only [w] at this
    rw [this]
    simp [tk, lexAux]
  rw [hT] at hD ⊢
  have hD' : D toks i (tk "{" first ln :: (TItems ln es ++ tk "}" false (LItems ln es + 1) :: rest)) := by
    simpa [List.append_assoc] using hD
  have h0 := hD'.head
  simp only [parseToplevelItem]
  oksimp
  simp only [h0, Option.map_some, TokI.text, tk_text]
  (try oksimp)
  simp only [tk_text, show (["fun", "method", "test", "enum", "struct", "public", "import"].contains "{") = false by decide,
    beq_self_eq_true, Bool.false_eq_true, ↓reduceIte]
  refine ok_mono (h4 fuel ln _ rest d toks first hf hD') ?_
  rintro body s4 ⟨hb1, hb2, rfl⟩
  simp [ItemRes, PBlock.block, hb1]
  omega

/-! ### Sequences of top-level items -/

/-- first tokens that would continue a preceding expression item or import -/
def istopSet : List String := ["=", "+=", "-=", ".", "::", "else", "as"] ++ gardenBinaryOps

/-- what must hold of the tokens after an item -/
def IStop : Item → Nat → List Tok → Prop
  | .expr e, ln, rest => Stop e ln rest
  | .importI _ none, _, rest => ∀ t, rest.head? = some t → t.text ≠ "as"
  | _, _, _ => True

structure ItemOK (it : Item) : Prop where
  parse : ∃ N, ∀ (fuel ln : Nat) (first : Bool) (i : Nat) (rest : List Tok) (d : List DiagKind) (toks : Toks), N ≤ fuel →
    D toks i (IT ln first it ++ rest) → IStop it ln rest →
    Ok (parseToplevelItem toks false fuel) ⟨i, d⟩ (ItemRes it (i + (IT ln first it).length) d)
  head : ∃ s tl, (∀ first, printItem first it = PTok.t s first :: tl) ∧ s ∉ istopSet
  ninv : it.isInvalidOrPlaceholder = false

/-- newlines inside the text of an item -/
def inl (it : Item) : Nat := nlc (printItem false it)

/-- tokens of a sequence of items, the first one starting on line `ln` -/
def TIs : Nat → Bool → List Item → List Tok
  | _, _, [] => []
  | ln, first, it :: r => IT ln first it ++ TIs (ln + inl it + 1) false r

theorem ItemOK.nlc {it : Item} (h : ItemOK it) (first : Bool) : nlc (printItem first it) = inl it := by
  obtain ⟨s, tl, h1, _⟩ := h.head
  simp [inl, h1, RT.nlc]

theorem go_lex (its : List Item) (hok : ∀ it ∈ its, ItemOK it) (b : Bool) (l : Nat) :
    lexAux b l (printItems.go its) = TIs (l + 1) false its := by
  induction its generalizing b l with
  | nil => simp [printItems.go, TIs, lexAux]
  | cons it r ih =>
    have hit := hok it (List.mem_cons_self ..)
    obtain ⟨s, tl, h1, _⟩ := hit.head
    have ih' := ih (fun x hx => hok x (List.mem_cons_of_mem _ hx))
    have e1 : lexAux true (l + 1) (printItem false it ++ printItems.go r) =
        lexAux false (l + 1) (printItem false it ++ printItems.go r) := by
      rw [h1]; simp [lexAux]
    simp only [printItems.go, List.cons_append, List.nil_append, List.append_assoc, lexAux_nl, TIs]
    rw [e1, lexAux_append, ih', hit.nlc]
    rfl

theorem printItems_cons (it : Item) (r : List Item) : printItems (it :: r) = printItem true it ++ printItems.go r := by
  cases r with
  | nil => simp [printItems, printItems.go]
  | cons a r2 => simp [printItems]

theorem items_lex (its : List Item) (hok : ∀ it ∈ its, ItemOK it) : lexAux false 0 (printItems its) = TIs 0 true its := by
  cases its with
  | nil => simp [printItems, TIs, lexAux]
  | cons it r =>
    have hit := hok it (List.mem_cons_self ..)
    rw [printItems_cons, lexAux_append, go_lex r (fun x hx => hok x (List.mem_cons_of_mem _ hx)), hit.nlc]
    simp [TIs, IT]

/-- Adjacent items: an expression item that ends in a dot access is not followed by an item starting with `(`. -/
def IAdj : List Item → Prop
  | [] => True
  | [_] => True
  | a :: b :: r =>
    (∀ e, a = .expr e → endsDot e = true → ∀ s tl, printItem false b = PTok.t s false :: tl → s ≠ "(") ∧ IAdj (b :: r)

theorem stop_item2 {e : Expr} {l : Nat} {s : String} {l2 : Nat} {rest : List Tok} (hs : s ∉ istopSet)
    (hdot : endsDot e = true → s ≠ "(") (hl : l + pnl e ≤ l2) : Stop e l (tk s false l2 :: rest) := by
  intro t h
  simp at h; subst h
  have m : ∀ x, x ∈ istopSet → s ≠ x := fun x hx e => by subst e; exact hs hx
  simp only [tk_text, tk_touch, tk_line]
  refine ⟨m _ (by decide), m _ (by decide), m _ (by decide), by simp, hdot, by simp, m _ (by decide), m _ (by decide), ?_,
    fun _ => hl, m _ (by decide)⟩
  cases hc : gardenBinaryOps.contains s with
  | false => rfl
  | true =>
    have : s ∈ gardenBinaryOps := by simpa using hc
    exact absurd (List.mem_append_right _ this) hs

theorem TIs_head {it : Item} (hit : ItemOK it) (ln : Nat) (first : Bool) (r : List Item) :
    ∃ s tl, TIs ln first (it :: r) = tk s first ln :: tl ∧ s ∉ istopSet ∧
      (∀ tl', printItem false it = PTok.t s false :: tl' → True) ∧ (∃ tl2, printItem false it = PTok.t s false :: tl2) := by
  obtain ⟨s, tl, h1, h2⟩ := hit.head
  exact ⟨s, lexAux false ln tl ++ TIs (ln + inl it + 1) false r, by simp [TIs, IT, h1, lexAux, tk], h2,
    fun _ _ => trivial, tl, h1 false⟩

theorem itemsLoop_ok (its : List Item) (hok : ∀ it ∈ its, ItemOK it) (hadj : IAdj its) :
    ∃ N, ∀ (fuel ln : Nat) (first : Bool) (i : Nat) (d : List DiagKind) (toks : Toks) (acc : List Item),
      N ≤ fuel → D toks i (TIs ln first its) →
      Ok (itemsLoop toks false fuel acc) ⟨i, d⟩ (fun r s' => r = acc ++ its ∧ s' = ⟨i + (TIs ln first its).length, d⟩) := by
  induction its with
  | nil =>
    refine ⟨1, ?_⟩
    intro fuel ln first i d toks acc hf hD
    obtain ⟨f, rfl⟩ : ∃ f, fuel = f + 1 := ⟨fuel - 1, by omega⟩
    have hge : toks.length ≤ i := by
      have : toks.drop i = [] := hD
      exact List.drop_eq_nil_iff.mp this
    rw [itemsLoop]
    oksimp
    simp [hge, TIs, ok_pure]
  | cons it r ih =>
    have hit := hok it (List.mem_cons_self ..)
    obtain ⟨NI, hNI⟩ := hit.parse
    have hadj' : IAdj r := by
      cases r with
      | nil => trivial
      | cons b r2 => exact hadj.2
    obtain ⟨N', hN'⟩ := ih (fun x hx => hok x (List.mem_cons_of_mem _ hx)) hadj'
    refine ⟨NI + N' + 1, ?_⟩
    intro fuel ln first i d toks acc hf hD
    obtain ⟨f, rfl⟩ : ∃ f, fuel = f + 1 := ⟨fuel - 1, by omega⟩
    obtain ⟨s0, tl0, hh0, _⟩ := hit.head
    have hpos : 0 < (IT ln first it).length := by simp [IT, hh0, lexAux]
    have hlt : ¬ (toks.length ≤ i) := by
      intro hle
      have : toks.drop i = [] := List.drop_eq_nil_iff.mpr hle
      have h2 : toks.drop i = TIs ln first (it :: r) := hD
      rw [this] at h2
      have h3 : (TIs ln first (it :: r)).length = 0 := by rw [← h2]; rfl
      have h4 : (TIs ln first (it :: r)).length = (IT ln first it).length + (TIs (ln + inl it + 1) false r).length := by
        simp [TIs]
      omega
    simp only [TIs] at hD ⊢
    -- the context of this item
    have hstop : IStop it ln (TIs (ln + inl it + 1) false r) := by
      cases r with
      | nil =>
        cases it with
        | expr e => intro t ht; simp [TIs] at ht
        | importI p al => cases al with
          | none => intro t ht; simp [TIs] at ht
          | some a => trivial
        | _ => trivial
      | cons b r2 =>
        have hb := hok b (List.mem_cons_of_mem _ (List.mem_cons_self ..))
        obtain ⟨s2, tl2, hT2, hs2, _, ⟨tl3, hp3⟩⟩ := TIs_head hb (ln + inl it + 1) false r2
        cases it with
        | expr e =>
          show Stop e ln _
          rw [hT2]
          refine stop_item2 hs2 (fun hd => hadj.1 e rfl hd s2 tl3 hp3) ?_
          have : inl (.expr e) = pnl e := rfl
          omega
        | importI p al => cases al with
          | none =>
            intro t ht
            rw [hT2] at ht; simp at ht; subst ht
            simp only [tk_text]
            intro e; subst e; exact hs2 (by decide)
          | some a => trivial
        | _ => trivial
    have hres := hNI f ln first i _ d toks (by omega) hD hstop
    have hrec := hN' f (ln + inl it + 1) false (i + (IT ln first it).length) d toks (acc ++ [it]) (by omega) hD.skip
    rw [itemsLoop]
    oksimp
    simp only [ge_iff_le, hlt, ↓reduceIte]
    refine ok_mono hres ?_
    rintro ro s1 ⟨rfl, rfl⟩
    have hgt : i < i + (IT ln first it).length := by omega
    simp only [hit.ninv, Bool.false_eq_true, ↓reduceIte]
    oksimp
    simp only [gt_iff_lt, hgt, ↓reduceIte]
    refine ok_mono hrec ?_
    rintro r2' s2 ⟨e1, e2⟩
    refine ⟨by simp [e1], ?_⟩
    rw [e2]; simp; omega

/-- The whole-file round trip for a list of items that parse back individually. -/
theorem items_roundtrip (its : List Item) (hok : ∀ it ∈ its, ItemOK it) (hadj : IAdj its) :
    ∃ N, ∀ fuel, N ≤ fuel →
      parseItems fuel (lexOf 0 (printItems its)) = .ok its ⟨(lexOf 0 (printItems its)).length, []⟩ := by
  obtain ⟨N, hN⟩ := itemsLoop_ok its hok hadj
  refine ⟨N, ?_⟩
  intro fuel hf
  have hl : lexOf 0 (printItems its) = TIs 0 true its := items_lex its hok
  rw [hl]
  obtain ⟨r, s', h1, h2, h3⟩ := hN fuel 0 true 0 [] (TIs 0 true its) [] hf (by simp [D])
  simp only [parseItems, parseItemsCfg]
  rw [h1, h2, h3]
  simp

/-- `a op s` where `a` is a chain and `s` a statement form (`let`, assignment, `return`): the last
operator of a chain may have an open-ended right operand. -/
theorem fu_binop_stmt {l r : Expr} {op : String} {nl nr : Nat} (hl : R false l nl) (hr : FS r nr)
    (pl : PF l) (tl : tailRet l = false) (pr : PF r)
    (hop : gardenBinaryOps.contains op = true) : FU (.binop l op r) (nl + nr + 3) := by
  intro fuel ln first i rest d toks hfu hD hs
  obtain ⟨o1, o2, o3, o4, o5, o6, o7, _, _⟩ := binop_ne hop
  have hmem : op ∈ gardenBinaryOps := by simpa using hop
  have oe : op ≠ "else" := by intro e; subst e; revert hop; decide
  have hT : T ln first (.binop l op r) = T ln first l ++ tk op false (ln + pnl l) :: T (ln + pnl l) false r := by
    simp only [T, printExpr]
    rw [List.append_assoc, T_then pl tl]
    simp [lexAux, tk, w, T]
  have hpnl : pnl (.binop l op r) = pnl l + pnl r := by
    simp only [pnl, printExpr, nlc_append]
    simp [w, nlc]
  rw [hT] at hD ⊢
  have hD' : D toks i (T ln first l ++ (tk op false (ln + pnl l) :: (T (ln + pnl l) false r ++ rest))) := by
    simpa [List.append_assoc] using hD
  have hsr : Stop r (ln + pnl l) rest := by
    intro t ht
    have := hs t ht
    rw [hpnl] at this
    simpa [endsDot, tailRet, Nat.add_assoc] using this
  refine hl true fuel ln first i _ d toks _ (fun _ => rfl) (by omega) hD' ?_ ?_ ?_
  · intro t ht; simp at ht; subst ht; simp [o4, o5, o6, o7, o1, oe]
  · intro _ t ht; simp at ht; subst ht; simp [o1, o2, o3]
  · intro ln' fuel' hl'
    obtain ⟨k, rfl⟩ : ∃ k, fuel' = k + 1 := ⟨fuel' - 1, by omega⟩
    have hD1 := hD'.skip
    have h0 := hD1.head
    have hD2 := hD1.tail
    rw [trailing]
    oksimp
    simp only [h0, Option.map_some, TokI.text, tk_text, tk_touch]
    simp only [beq_iff_eq, o1, o2, o3, false_and, Bool.false_and, Bool.false_eq_true, ↓reduceIte, hmem, List.contains_iff_mem,
      List.elem_eq_mem, decide_true, decide_false]
    oksimp
    simp only [h0]
    refine ok_mono (hr false k (ln + pnl l) false (i + (T ln first l).length + 1) rest d toks (by omega) hD2 hsr) ?_
    rintro rr s1 ⟨hr1, hr2, rfl⟩
    have hpos := T_pos pr (ln + pnl l) false
    have hlt : i + (T ln first l).length < i + (T ln first l).length + 1 + (T (ln + pnl l) false r).length := by omega
    simp only [gt_iff_lt, hlt, ↓reduceIte, Pos.merge, hr1, hr2]
    obtain ⟨k2, rfl⟩ : ∃ k2, k = k2 + 1 := ⟨k - 1, by omega⟩
    have hstop := trailing_stop' toks true k2 (i + (T ln first l).length + 1 + (T (ln + pnl l) false r).length) d
      ⟨.binop l op r, ⟨ln', max (i + (T ln first l).length) (i + (T ln first l).length + 1 + (T (ln + pnl l) false r).length)⟩⟩
      (.binop l op r) ln rest hD2.skip hs
    rw [ok_det hstop]
    refine ⟨rfl, ?_, ?_⟩
    · simp; omega
    · simp; omega

/-! ### Well-formed trees (what the grammar can express), and the round trip -/

/-- Syntactic position: an operand (`closed`), an operator chain (`chain`), a statement form (`stmt`:
`let`, assignment, `return`), a complete expression (`full`). -/
inductive Kind where
  | closed | chain | stmt | full

/-- The expression trees covered by the machine-checked round trip: every constructor of `Expr` except
`invalid` (see the header of this file for the side conditions and why they are there). -/
inductive WT : Kind → Expr → Prop
  | int {i : Int} : I64 i → WT .closed (.intLit i)
  | float {s : String} : FloatTok s → WT .closed (.floatLit s)
  | str {s : String} : WT .closed (.strLit s)
  | var {x : String} : ValidName x → WT .closed (.var x)
  | call {f : Expr} {args : List Expr} : WT .closed f → endsDot f = false →
      (∀ a ∈ args, WT .full a) → WT .closed (.call f args)
  | mcall {r : Expr} {m : String} {args : List Expr} : WT .closed r → ValidName m →
      (∀ a ∈ args, WT .full a) → WT .closed (.mcall r m args)
  | dot {r : Expr} {f : String} : WT .closed r → ValidName f → WT .closed (.dot r f)
  | ns {r : Expr} {f : String} : WT .closed r → ValidName f → WT .closed (.ns r f)
  | paren {e : Expr} : WT .full e → WT .closed (.paren e)
  | list {items : List Expr} : (∀ a ∈ items, WT .full a) → WT .closed (.list items)
  | tuple {items : List Expr} : (∀ a ∈ items, WT .full a) → WT .closed (.tuple items)
  | dict {kvs : List KV} : (∀ k v, KV.mk k v ∈ kvs → WT .full k) →
      (∀ k v, KV.mk k v ∈ kvs → WT .full v) → WT .closed (.dict kvs)
  | structLit {n : String} {fs : List Field} : ValidName n → (∀ f e, Field.mk f e ∈ fs → ValidName f) →
      (∀ f e, Field.mk f e ∈ fs → WT .full e) → WT .closed (.structLit n fs)
  | lambda {ps : List Param} {r : Option TypeHint} {es : List Expr} : WTF [] ps r →
      (∀ e ∈ es, WT .full e) → Adj es → WT .closed (.lambda (.mk [] ps r (.mk es)))
  | assertE {e : Expr} : WT .full e → WT .closed (.assertE e)
  | brk : WT .closed .brk
  | cont : WT .closed .cont
  | whileE {c : Expr} {es : List Expr} : WT .full c → (∀ e ∈ es, WT .full e) → Adj es →
      WT .closed (.whileE c (.mk es))
  | forIn {dst : LetDest} {c : Expr} {es : List Expr} : WTD dst → WT .full c →
      (∀ e ∈ es, WT .full e) → Adj es → WT .closed (.forIn dst c (.mk es))
  | ifNone {c : Expr} {es : List Expr} : WT .full c → (∀ e ∈ es, WT .full e) → Adj es →
      WT .closed (.ifE c (.mk es) none)
  | ifSome {c : Expr} {es es2 : List Expr} : WT .full c → (∀ e ∈ es, WT .full e) → Adj es →
      (∀ e ∈ es2, WT .full e) → Adj es2 → WT .closed (.ifE c (.mk es) (some (.mk es2)))
  | matchE {s : Expr} {cases : List Case} : WT .full s →
      (∀ p es, Case.mk p (.mk es) ∈ cases → WTPat p ∧ Adj es) →
      (∀ p es e, Case.mk p (.mk es) ∈ cases → e ∈ es → WT .full e) → WT .closed (.matchE s cases)
  | tryE {es es2 : List Expr} {x : String} : (∀ e ∈ es, WT .full e) → Adj es → ValidName x →
      (∀ e ∈ es2, WT .full e) → Adj es2 → WT .closed (.tryE (.mk es) x (.mk es2))
  | ofClosed {e : Expr} : WT .closed e → WT .chain e
  | binop {l r : Expr} {op : String} : WT .chain l → gardenBinaryOps.contains op = true → WT .closed r →
      WT .chain (.binop l op r)
  | ofChain {e : Expr} : WT .chain e → WT .full e
  | letE {dst : LetDest} {h : Option TypeHint} {e : Expr} : WTD dst → WTHO h → WT .full e →
      WT .stmt (.letE dst h e)
  | assign {x : String} {e : Expr} : ValidName x → WT .full e → WT .stmt (.assign x e)
  | update {op x : String} {e : Expr} : (op = "+=" ∨ op = "-=") → ValidName x → WT .full e →
      WT .stmt (.update op x e)
  | retNone : WT .stmt (.ret none)
  | retSome {e : Expr} : WT .full e → WT .stmt (.ret (some e))
  | ofStmt {e : Expr} : WT .stmt e → WT .full e
  | binopStmt {l r : Expr} {op : String} : WT .chain l → gardenBinaryOps.contains op = true → WT .stmt r →
      WT .full (.binop l op r)

/-- What the induction proves for a tree in position `k`. -/
def Goal : Kind → Expr → Prop
  | .closed, e => ∃ n, R true e n
  | .chain, e => ∃ n, R false e n
  | .stmt, e => ∃ n, FS e n
  | .full, e => ∃ n, FU e n

def NoTail : Kind → Expr → Prop
  | .full, _ => True
  | .stmt, _ => True
  | _, e => tailRet e = false

theorem blockOK_of {es : List Expr} (hadj : Adj es)
    (ih : ∀ e ∈ es, PF e ∧ NoTail .full e ∧ Goal .full e) : BlockOK es :=
  ⟨fun e he => (ih e he).2.2, fun e he => (ih e he).1, hadj⟩

theorem wt_all {k : Kind} {e : Expr} (h : WT k e) : PF e ∧ NoTail k e ∧ Goal k e := by
  induction h with
  | int hi => exact ⟨pf_int hi.tok, rfl, 3, r_int hi.tok⟩
  | float hs => exact ⟨pf_float hs, rfl, 3, r_float hs⟩
  | @str s => exact ⟨pf_str s, rfl, 3, r_str s⟩
  | var hx => exact ⟨pf_var hx, rfl, 3, r_var hx⟩
  | call _ hnd _ ihf iha =>
    obtain ⟨pf, tf, nf, hf⟩ := ihf
    exact ⟨pf_call pf, rfl, r_call hf pf tf hnd (fun a ha => (iha a ha).2.2) (fun a ha => (iha a ha).1)⟩
  | mcall _ hm _ ihr iha =>
    obtain ⟨pr, tr, nr, hr⟩ := ihr
    exact ⟨pf_mcall pr, rfl, r_mcall hr pr tr hm (fun a ha => (iha a ha).2.2) (fun a ha => (iha a ha).1)⟩
  | dot _ hf ih =>
    obtain ⟨pr, tr, nr, hr⟩ := ih
    exact ⟨pf_dot pr, rfl, nr + 2, r_dot hr pr tr hf⟩
  | ns _ hf ih =>
    obtain ⟨pr, tr, nr, hr⟩ := ih
    exact ⟨pf_ns pr, rfl, nr + 2, r_ns hr pr tr hf⟩
  | paren _ ih =>
    obtain ⟨pe, te, n, he⟩ := ih
    exact ⟨pf_paren, rfl, n + 4, r_paren he pe⟩
  | list _ iha =>
    exact ⟨pf_list, rfl, r_list (fun a ha => (iha a ha).2.2) (fun a ha => (iha a ha).1)⟩
  | @tuple items _ iha =>
    refine ⟨pf_tuple, rfl, ?_⟩
    cases items with
    | nil => exact ⟨4, r_tuple_nil⟩
    | cons e rs =>
      obtain ⟨pe, te, ne, he⟩ := iha e (List.mem_cons_self ..)
      exact r_tuple_cons he pe (fun a ha => (iha a (List.mem_cons_of_mem _ ha)).2.2)
        (fun a ha => (iha a (List.mem_cons_of_mem _ ha)).1)
  | @dict kvs _ _ ihk ihv =>
    refine ⟨pf_dict, rfl, r_dict ?_⟩
    rintro ⟨k, v⟩ hx
    obtain ⟨pk, tk', nk⟩ := ihk k v hx
    obtain ⟨pv, tv, nv⟩ := ihv k v hx
    exact ⟨nk, pk, nv, pv⟩
  | @structLit n fs vn hfn _ ihe =>
    refine ⟨pf_struct vn, rfl, r_struct vn ?_⟩
    rintro ⟨f, e⟩ hx
    obtain ⟨pe, te, ne⟩ := ihe f e hx
    exact ⟨hfn f e hx, ne, pe⟩
  | lambda wf _ hadj ihb => exact ⟨pf_lambda, rfl, r_lambda wf (blockOK_of hadj ihb)⟩
  | assertE _ ih =>
    obtain ⟨pe, te, n, he⟩ := ih
    exact ⟨pf_assert, rfl, n + 4, r_assert he pe⟩
  | brk => exact ⟨pf_brk, rfl, 2, r_brk⟩
  | cont => exact ⟨pf_cont, rfl, 2, r_cont⟩
  | whileE _ _ hadj ihc ihb =>
    obtain ⟨pc, tc, nc, hc⟩ := ihc
    exact ⟨pf_while, rfl, r_while hc pc (blockOK_of hadj ihb)⟩
  | forIn wd _ _ hadj ihc ihb =>
    obtain ⟨pc, tc, nc, hc⟩ := ihc
    exact ⟨pf_for, rfl, r_for' wd hc pc (blockOK_of hadj ihb)⟩
  | ifNone _ _ hadj ihc ihb =>
    obtain ⟨pc, tc, nc, hc⟩ := ihc
    exact ⟨pf_if_none, rfl, r_if_none hc pc (blockOK_of hadj ihb)⟩
  | ifSome _ _ hadj _ hadj2 ihc ihb ihb2 =>
    obtain ⟨pc, tc, nc, hc⟩ := ihc
    exact ⟨pf_if_some, rfl, r_if_some hc pc (blockOK_of hadj ihb) (blockOK_of hadj2 ihb2)⟩
  | @matchE s cases _ hpat _ ihs ihc =>
    obtain ⟨ps, ts, ns, hs⟩ := ihs
    refine ⟨pf_match, rfl, r_match hs ps ?_⟩
    rintro ⟨p, ⟨es⟩⟩ hx
    exact ⟨(hpat p es hx).1, blockOK_of (hpat p es hx).2 (fun e he => ihc p es e hx he)⟩
  | tryE _ hadj vx _ hadj2 ihb ihb2 =>
    exact ⟨pf_try, rfl, r_try (blockOK_of hadj ihb) vx (blockOK_of hadj2 ihb2)⟩
  | ofClosed _ ih =>
    obtain ⟨pe, te, n, he⟩ := ih
    refine ⟨pe, te, n, ?_⟩
    intro b fuel ln first i rest d toks Q _ hf hD hfo _ ha
    exact he b fuel ln first i rest d toks Q (fun h => by cases h) hf hD hfo (fun h => by cases h) ha
  | binop _ hop _ ihl ihr =>
    obtain ⟨pl, tl, nl, hl⟩ := ihl
    obtain ⟨pr, tr, nr, hr⟩ := ihr
    exact ⟨pf_binop pl pr, tr, nl + nr + 3, r_binop hl hr pl tl pr hop⟩
  | @ofChain e _ ih =>
    obtain ⟨pe, te, n, he⟩ := ih
    exact ⟨pe, trivial, n + 1, FU.of_R he⟩
  | @letE dst h e wd wh _ ih =>
    obtain ⟨pe, te, n, he⟩ := ih
    exact ⟨pf_let' pe, trivial, fu_let' wd wh he pe⟩
  | @assign x e hx _ ih =>
    obtain ⟨pe, te, n, he⟩ := ih
    exact ⟨pf_assign hx pe, trivial, n + 3, fu_assign hx he pe⟩
  | @update op x e hop hx _ ih =>
    obtain ⟨pe, te, n, he⟩ := ih
    exact ⟨pf_update hx pe, trivial, n + 3, fu_update hop hx he pe⟩
  | retNone => exact ⟨pf_ret_none, trivial, 3, fu_ret_none⟩
  | ofStmt _ ih =>
    obtain ⟨pe, _, n, he⟩ := ih
    exact ⟨pe, trivial, n, he.fu⟩
  | binopStmt _ hop _ ihl ihr =>
    obtain ⟨pl, tl, nl, hl⟩ := ihl
    obtain ⟨pr, _, nr, hr⟩ := ihr
    exact ⟨pf_binop pl pr, trivial, nl + nr + 3, fu_binop_stmt hl hr pl tl pr hop⟩
  | @retSome e _ ih =>
    obtain ⟨pe, te, n, he⟩ := ih
    exact ⟨pf_ret_some pe, trivial, n + 3, fu_ret_some he pe⟩

/-- **Round trip for complete expressions / statements.** -/
theorem parse_print_expr {e : Expr} (h : WT .full e) :
    ∃ n, ∀ (fuel ln : Nat) (first : Bool) (i : Nat) (rest : List Tok) (d : List DiagKind) (toks : Toks),
      n ≤ fuel → toks.drop i = lexAux false ln (printExpr first e) ++ rest → Stop e ln rest →
      ∃ r, parseExpression toks false fuel ⟨i, d⟩ = .ok r ⟨i + (lexAux false ln (printExpr first e)).length, d⟩ ∧
        r.e = e := by
  obtain ⟨_, _, n, hn⟩ := wt_all h
  refine ⟨n, ?_⟩
  intro fuel ln first i rest d toks hf hD hs
  obtain ⟨r, s', h1, h2, _, rfl⟩ := hn fuel ln first i rest d toks hf hD hs
  exact ⟨r, h1, h2⟩

theorem blockOK_wt {es : List Expr} (h : ∀ e ∈ es, WT .full e) (hadj : Adj es) : BlockOK es :=
  blockOK_of hadj (fun e he => wt_all (h e he))

/-! ### Well-formed top-level items -/

/-- The items covered by the round trip: every constructor of `Item`. -/
inductive WTI : Item → Prop
  | func {pub : Bool} {name : String} {tps : List String} {ps : List Param} {r : Option TypeHint} {es : List Expr} :
      ValidName name → WTF tps ps r → (∀ e ∈ es, WT .full e) → Adj es →
      WTI (.func pub name (.mk tps ps r (.mk es)))
  | method {pub : Bool} {name recv : String} {rh : TypeHint} {tps : List String} {ps : List Param}
      {r : Option TypeHint} {es : List Expr} :
      ValidName name → WTF tps (⟨recv, some rh⟩ :: ps) r → (∀ e ∈ es, WT .full e) → Adj es →
      WTI (.method pub name recv rh (.mk tps ps r (.mk es)))
  | test {name : String} {es : List Expr} : ValidName name → (∀ e ∈ es, WT .full e) → Adj es →
      WTI (.test name (.mk es))
  | enum {pub : Bool} {name : String} {tps : List String} {vs : List Variant} : ValidName name →
      (∀ x ∈ tps, ValidName x) → (∀ v ∈ vs, VariantOK v) → WTI (.enum pub name tps vs)
  | struct {pub : Bool} {name : String} {tps : List String} {fs : List StructField} : ValidName name →
      (∀ x ∈ tps, ValidName x) → (∀ f ∈ fs, SFieldOK f) → WTI (.struct pub name tps fs)
  | importI {path : String} {al : Option String} : (∀ a, al = some a → ValidName a) → WTI (.importI path al)
  | expr {e : Expr} : WT .full e → (∀ s tl, printExpr true e = PTok.t s true :: tl → s ∉ defKw) → WTI (.expr e)
  | block {es : List Expr} : (∀ e ∈ es, WT .full e) → Adj es → WTI (.block (.mk es))

theorem istop_sub_bad : ∀ x ∈ istopSet, x ∈ badFirst := by decide

theorem pubTok_head (pub : Bool) (kw : String) (hk : kw ∉ istopSet) (X : List PTok) :
    ∃ s tl, (∀ first, pubTok first pub kw ++ X = PTok.t s first :: tl) ∧ s ∉ istopSet := by
  cases pub with
  | false => exact ⟨kw, X, fun first => by simp [pubTok], hk⟩
  | true => exact ⟨"public", w kw :: X, fun first => by simp [pubTok], by decide⟩

theorem vn_ninv {name : String} (vn : ValidName name) : isPlaceholderName name = false := vn.notPh

theorem wti_ok {it : Item} (h : WTI it) : ItemOK it := by
  cases h with
  | @func pub name tps ps r es vn wf hb hadj =>
    obtain ⟨N, hN⟩ := item_func (pub := pub) vn wf (blockOK_wt hb hadj)
    refine ⟨⟨N, fun fuel ln first i rest d toks hf hD _ => hN fuel ln first i rest d toks hf hD⟩, ?_, vn_ninv vn⟩
    obtain ⟨s, tl, h1, h2⟩ := pubTok_head pub "fun" (by decide) ([w name] ++ printFun (.mk tps ps r (.mk es)))
    exact ⟨s, tl, fun first => by rw [← h1 first]; simp [printItem], h2⟩
  | @method pub name recv rh tps ps r es vn wf hb hadj =>
    obtain ⟨N, hN⟩ := item_method (pub := pub) vn wf (blockOK_wt hb hadj)
    refine ⟨⟨N, fun fuel ln first i rest d toks hf hD _ => hN fuel ln first i rest d toks hf hD⟩, ?_, vn_ninv vn⟩
    obtain ⟨s, tl, h1, h2⟩ := pubTok_head pub "method" (by decide)
      ([w name] ++ printFun (.mk tps (⟨recv, some rh⟩ :: ps) r (.mk es)))
    exact ⟨s, tl, fun first => by rw [← h1 first]; simp [printItem], h2⟩
  | @test name es vn hb hadj =>
    obtain ⟨N, hN⟩ := item_test vn (blockOK_wt hb hadj)
    refine ⟨⟨N, fun fuel ln first i rest d toks hf hD _ => hN fuel ln first i rest d toks hf hD⟩, ?_, vn_ninv vn⟩
    exact ⟨"test", _, fun first => by simp only [printItem, List.cons_append]; rfl, by decide⟩
  | @enum pub name tps vs vn htps hvs =>
    obtain ⟨N, hN⟩ := item_enum (pub := pub) vn htps hvs
    refine ⟨⟨N, fun fuel ln first i rest d toks hf hD _ => hN fuel ln first i rest d toks hf hD⟩, ?_, vn_ninv vn⟩
    obtain ⟨s, tl, h1, h2⟩ := pubTok_head pub "enum" (by decide)
      ([w name] ++ printTParams tps ++ [w "{"] ++ vs.flatMap printVariant ++ [PTok.nl, w "}"])
    exact ⟨s, tl, fun first => by rw [← h1 first]; simp [printItem], h2⟩
  | @struct pub name tps fs vn htps hfs =>
    obtain ⟨N, hN⟩ := item_struct (pub := pub) vn htps hfs
    refine ⟨⟨N, fun fuel ln first i rest d toks hf hD _ => hN fuel ln first i rest d toks hf hD⟩, ?_, vn_ninv vn⟩
    obtain ⟨s, tl, h1, h2⟩ := pubTok_head pub "struct" (by decide)
      ([w name] ++ printTParams tps ++ [w "{"] ++ fs.flatMap printStructField ++ [PTok.nl, w "}"])
    exact ⟨s, tl, fun first => by rw [← h1 first]; simp [printItem], h2⟩
  | @importI path al hal =>
    refine ⟨⟨0, fun fuel ln first i rest d toks _ hD hs => item_import hal fuel ln first i rest d toks hD ?_⟩, ?_, rfl⟩
    · intro hn; subst hn; exact hs
    · cases al with
      | none => exact ⟨"import", _, fun first => by simp only [printItem, List.cons_append]; rfl, by decide⟩
      | some a => exact ⟨"import", _, fun first => by simp only [printItem, List.cons_append]; rfl, by decide⟩
  | @expr e he htop =>
    obtain ⟨pe, _, n, hn⟩ := wt_all he
    refine ⟨⟨n, fun fuel ln first i rest d toks hf hD hs => item_expr hn pe htop fuel ln first i rest d toks hf hD hs⟩, ?_,
      pe.ninv⟩
    obtain ⟨s, tl, h1, h2⟩ := pe.hd
    exact ⟨s, tl, fun first => by simp [printItem, h1], fun hm => h2 (istop_sub_bad s hm)⟩
  | @block es hb hadj =>
    obtain ⟨N, hN⟩ := item_block (blockOK_wt hb hadj)
    refine ⟨⟨N, fun fuel ln first i rest d toks hf hD _ => hN fuel ln first i rest d toks hf hD⟩, ?_, rfl⟩
    exact ⟨"{", printBlockItems es ++ [PTok.nl, w "}"], fun first => by simp [printItem, printBlock, w], by decide⟩

/-- **Whole files**: a list of well-formed items, printed and lexed, parses back to exactly the list,
consuming every token, with no diagnostics. -/
theorem parse_print_items (its : List Item) (h : ∀ it ∈ its, WTI it) (hadj : IAdj its) :
    ∃ N, ∀ fuel, N ≤ fuel →
      parseItems fuel (lexOf 0 (printItems its)) = .ok its ⟨(lexOf 0 (printItems its)).length, []⟩ :=
  items_roundtrip its (fun it hit => wti_ok (h it hit)) hadj

end RT


namespace C33
open Parse Print ParseLemmas RT

/-- **Round trip for expressions and statements.** For every well-formed tree `e` (`RT.WT`, every node
kind) in a complete-expression position, in every token context (`toks.drop i` = the lexed canonical text of `e`
followed by `rest`, where `rest` does not continue the expression: `RT.Stop`), for every fuel above a
bound depending only on `e`: `parse_expression` returns exactly `e`, consumes exactly its tokens and
emits no diagnostic. -/
theorem parse_print_stmt {e : Expr} (h : WT .full e) :
    ∃ n, ∀ (fuel ln : Nat) (first : Bool) (i : Nat) (rest : List Tok) (d : List DiagKind) (toks : Toks),
      n ≤ fuel → toks.drop i = lexAux false ln (printExpr first e) ++ rest → Stop e ln rest →
      ∃ r, parseExpression toks false fuel ⟨i, d⟩ = .ok r ⟨i + (lexAux false ln (printExpr first e)).length, d⟩ ∧
        r.e = e :=
  parse_print_expr h

/-- The same for a whole text: index 0, nothing after, no diagnostics at all. -/
theorem parse_print_stmt_whole {e : Expr} (h : WT .full e) :
    ∃ n, ∀ fuel, n ≤ fuel →
      ∃ r, parseExpression (lexOf 0 (printExpr true e)) false fuel ⟨0, []⟩ =
        .ok r ⟨(lexOf 0 (printExpr true e)).length, []⟩ ∧ r.e = e := by
  obtain ⟨n, hn⟩ := parse_print_stmt h
  refine ⟨n, fun fuel hf => ?_⟩
  have := hn fuel 0 true 0 [] [] (lexOf 0 (printExpr true e)) hf (by simp [lexOf]) (by intro t ht; simp at ht)
  simpa [lexOf] using this

/-- **Blocks**: `{`, the items each on its own line, `}` parse back to exactly the items. -/
theorem parse_print_block (es : List Expr) (h : ∀ e ∈ es, WT .full e) (hadj : Adj es) :
    ∃ n, ∀ (fuel ln i : Nat) (rest : List Tok) (d : List DiagKind) (toks : Toks),
      n ≤ fuel → toks.drop i = lexAux false ln (printBlock (.mk es)) ++ rest →
      ∃ r, parseBlock toks false fuel ⟨i, d⟩ = .ok r ⟨i + (lexAux false ln (printBlock (.mk es))).length, d⟩ ∧
        r.exprs = es := by
  obtain ⟨N, hN⟩ := block_ok es (fun e he => (wt_all (h e he)).2.2) (fun e he => (wt_all (h e he)).1) hadj
  refine ⟨N, ?_⟩
  intro fuel ln i rest d toks hf hD
  have hTB := TB_eq es (fun e he => (wt_all (h e he)).1) ln []
  simp only [List.append_nil, lexAux] at hTB
  rw [hTB] at hD ⊢
  have hD' : D toks i (tk "{" false ln :: (TItems ln es ++ tk "}" false (LItems ln es + 1) :: rest)) := by
    simpa [D, List.append_assoc] using hD
  obtain ⟨r, s', h1, h2, _, rfl⟩ := hN fuel ln i rest d toks false hf hD'
  refine ⟨r, ?_, h2⟩
  rw [h1]
  simp
  omega

/-- **C33, main theorem (whole files, whole grammar).** For every list of well-formed top-level items (`RT.WTI`:
functions, methods, tests, enums, structs, imports, expression items and blocks, whose expressions are
`RT.WT` trees of any node kind) with `RT.IAdj`, for every fuel above a bound depending only on the
items: lexing the canonical text of the items and parsing it returns exactly the items, consumes every
token and emits no diagnostic. -/
theorem parse_print (its : List Item) (h : ∀ it ∈ its, WTI it) (hadj : IAdj its) :
    ∃ N, ∀ fuel, N ≤ fuel →
      parseItems fuel (lexOf 0 (printItems its)) = .ok its ⟨(lexOf 0 (printItems its)).length, []⟩ :=
  parse_print_items its h hadj

/-! ### The hypotheses are satisfiable: a program with every item kind and most node kinds -/

macro "vname" : tactic => `(tactic| exact ⟨by decide, by decide, by decide, by decide⟩)
macro "i64" : tactic => `(tactic| exact ⟨by decide, by decide⟩)

/-- ```
import "lib.gdn" as lib
public struct Point { x: Int, ys: List<Int>, }
enum Opt<T> { Some(T), None, }
public fun f<T>(a: Opt<T>, b): (Int, T) {
  let (p, q) = (1, 2)
  let g: Fun = fun(z: Int) { z * -2 }
  for (i, v) in [p, q].enumerate() { continue }
  match a { Some(x) => { return (g(p), x) }, None => { lib::fail("none\\") }, }
  try { Point{ x: 1, ys: [], } } catch (e) { Dict["k" => 1.5, ] }
  p + q = 1
  g(return
  )
  return
}
method len(this: Point): Int { this.x }
test t { assert(f(1, 2) == 3) }
f(1, 2)
{ break }
``` -/
def demo : List Item :=
  [ .importI "lib.gdn" (some "lib"),
    .struct true "Point" [] [⟨"x", .mk "Int" []⟩, ⟨"ys", .mk "List" [.mk "Int" []]⟩],
    .enum false "Opt" ["T"] [⟨"Some", some (.mk "T" [])⟩, ⟨"None", none⟩],
    .func true "f" (.mk ["T"] [⟨"a", some (.mk "Opt" [.mk "T" []])⟩, ⟨"b", none⟩]
      (some (.mk "Tuple" [.mk "Int" [], .mk "T" []]))
      (.mk [ .letE (.destr ["p", "q"]) none (.tuple [.intLit 1, .intLit 2]),
             .letE (.sym "g") (some (.mk "Fun" []))
               (.lambda (.mk [] [⟨"z", some (.mk "Int" [])⟩] none (.mk [.binop (.var "z") "*" (.intLit (-2))]))),
             .forIn (.destr ["i", "v"]) (.mcall (.list [.var "p", .var "q"]) "enumerate" []) (.mk [.cont]),
             .matchE (.var "a")
               [ .mk ⟨"Some", some (.sym "x")⟩ (.mk [.ret (some (.tuple [.call (.var "g") [.var "p"], .var "x"]))]),
                 .mk ⟨"None", none⟩ (.mk [.call (.ns (.var "lib") "fail") [.strLit "none\\"]]) ],
             .tryE (.mk [.structLit "Point" [.mk "x" (.intLit 1), .mk "ys" (.list [])]]) "e"
               (.mk [.dict [.mk (.strLit "k") (.floatLit "1.5")]]),
             .binop (.var "p") "+" (.assign "q" (.intLit 1)),
             .call (.var "g") [.ret none],
             .ret none ])),
    .method false "len" "this" (.mk "Point" []) (.mk [] [] (some (.mk "Int" [])) (.mk [.dot (.var "this") "x"])),
    .test "t" (.mk [.assertE (.binop (.call (.var "f") [.intLit 1, .intLit 2]) "==" (.intLit 3))]),
    .expr (.call (.var "f") [.intLit 1, .intLit 2]),
    .block (.mk [.brk]) ]

theorem demo_wf : (∀ it ∈ demo, WTI it) ∧ IAdj demo := by
  have hInt : WTH (.mk "Int" []) := .named (by vname) (by decide) (by intro a ha; cases ha)
  have hT : WTH (.mk "T" []) := .named (by vname) (by decide) (by intro a ha; cases ha)
  have vf : ValidName "f" := by vname
  have vp : ValidName "p" := by vname
  have vq : ValidName "q" := by vname
  have vg : ValidName "g" := by vname
  have va : ValidName "a" := by vname
  have vx : ValidName "x" := by vname
  have cl : ∀ {e : Expr}, WT .closed e → WT .full e := fun h => .ofChain (.ofClosed h)
  have hcall : WT .closed (.call (.var "f") [.intLit 1, .intLit 2]) := by
    refine .call (.var vf) rfl ?_
    intro a ha; simp at ha
    rcases ha with rfl | rfl
    · exact cl (.int (by i64))
    · exact cl (.int (by i64))
  refine ⟨?_, ?_⟩
  · intro it hit
    simp [demo] at hit
    rcases hit with rfl | rfl | rfl | rfl | rfl | rfl | rfl | rfl
    · exact .importI (by intro a ha; cases ha; vname)
    · refine .struct (by vname) (by intro x hx; cases hx) ?_
      intro f hf; simp at hf
      rcases hf with rfl | rfl
      · exact ⟨(by vname), hInt⟩
      · exact ⟨(by vname), .named (by vname) (by decide) (by intro a ha; simp at ha; subst ha; exact hInt)⟩
    · refine .enum (by vname) (by intro x hx; simp at hx; subst hx; vname) ?_
      intro v hv; simp at hv
      rcases hv with rfl | rfl
      · exact ⟨(by vname), (by intro h hh; cases hh; exact hT)⟩
      · exact ⟨(by vname), (by intro h hh; cases hh)⟩
    · refine .func vf ⟨(by intro x hx; simp at hx; subst hx; vname), ?_, (by decide), ?_⟩ ?_ ?_
      · intro p hp; simp at hp
        rcases hp with rfl | rfl
        · exact ⟨va, .named (by vname) (by decide) (by intro a ha; simp at ha; subst ha; exact hT)⟩
        · exact ⟨(by vname), trivial⟩
      · exact .tuple (by intro a ha; simp at ha; rcases ha with rfl | rfl; exact hInt; exact hT)
      · intro e he; simp at he
        rcases he with rfl | rfl | rfl | rfl | rfl | rfl | rfl | rfl
        · refine .ofStmt (.letE (.destr (by intro x hx; simp at hx; rcases hx with rfl | rfl <;> vname) (by decide)) trivial
            (cl (.tuple ?_)))
          intro a ha; simp at ha
          rcases ha with rfl | rfl <;> exact cl (.int (by i64))
        · refine .ofStmt (.letE (.sym vg) (.named (by vname) (by decide) (by intro a ha; cases ha)) (cl (.lambda ?_ ?_ (by trivial))))
          · exact ⟨(by intro x hx; cases hx), (by intro p hp; simp at hp; subst hp; exact ⟨(by vname), hInt⟩), (by decide), trivial⟩
          · intro e he; simp at he; subst he
            exact .ofChain (.binop (.ofClosed (.var (by vname))) (by decide) (.int (by i64)))
        · refine cl (.forIn (.destr (by intro x hx; simp at hx; rcases hx with rfl | rfl <;> vname) (by decide))
            (cl (.mcall (.list ?_) (by vname) (by intro a ha; cases ha))) ?_ (by trivial))
          · intro a ha; simp at ha
            rcases ha with rfl | rfl
            · exact cl (.var vp)
            · exact cl (.var vq)
          · intro e he; simp at he; subst he; exact cl .cont
        · refine cl (.matchE (cl (.var va)) ?_ ?_)
          · intro p es hc; simp at hc
            rcases hc with ⟨rfl, rfl⟩ | ⟨rfl, rfl⟩
            · exact ⟨⟨(by vname), (by intro d hd; cases hd; exact .sym vx)⟩, trivial⟩
            · exact ⟨⟨(by vname), (by intro d hd; cases hd)⟩, trivial⟩
          · intro p es e hc he; simp at hc
            rcases hc with ⟨rfl, rfl⟩ | ⟨rfl, rfl⟩
            · simp at he; subst he
              refine .ofStmt (.retSome (cl (.tuple ?_)))
              intro a ha; simp at ha
              rcases ha with rfl | rfl
              · refine cl (.call (.var vg) rfl ?_)
                intro a ha; simp at ha; subst ha; exact cl (.var vp)
              · exact cl (.var vx)
            · simp at he; subst he
              refine cl (.call (.ns (.var (by vname)) (by vname)) rfl ?_)
              intro a ha; simp at ha; subst ha; exact cl .str
        · refine cl (.tryE ?_ (by trivial) (by vname) ?_ (by trivial))
          · intro e he; simp at he; subst he
            refine cl (.structLit (by vname) ?_ ?_)
            · intro f e hf; simp at hf
              rcases hf with ⟨rfl, rfl⟩ | ⟨rfl, rfl⟩ <;> vname
            · intro f e hf; simp at hf
              rcases hf with ⟨rfl, rfl⟩ | ⟨rfl, rfl⟩
              · exact cl (.int (by i64))
              · exact cl (.list (by intro a ha; cases ha))
          · intro e he; simp at he; subst he
            refine cl (.dict ?_ ?_)
            · intro k v hk; simp at hk; obtain ⟨rfl, rfl⟩ := hk; exact cl .str
            · intro k v hk; simp at hk; obtain ⟨rfl, rfl⟩ := hk
              exact cl (.float ⟨by decide, by decide, by decide, by decide, by decide⟩)
        · exact .binopStmt (.ofClosed (.var vp)) (by decide) (.assign vq (cl (.int (by i64))))
        · refine cl (.call (.var vg) rfl ?_)
          intro a ha; simp at ha; subst ha; exact .ofStmt .retNone
        · exact .ofStmt .retNone
      · simp [Adj, endsDot]
    · refine .method (by vname) ⟨(by intro x hx; cases hx), ?_, (by decide), hInt⟩ ?_ (by trivial)
      · intro p hp; simp at hp; subst hp
        exact ⟨(by vname), .named (by vname) (by decide) (by intro a ha; cases ha)⟩
      · intro e he; simp at he; subst he
        exact cl (.dot (.var (by vname)) vx)
    · refine .test (by vname) ?_ (by trivial)
      intro e he; simp at he; subst he
      exact cl (.assertE (.ofChain (.binop (.ofClosed hcall) (by decide) (.int (by i64)))))
    · refine .expr (cl hcall) ?_
      intro s tl hs
      simp [printExpr] at hs
      obtain ⟨rfl, _⟩ := hs
      decide
    · refine .block ?_ (by trivial)
      intro e he; simp at he; subst he; exact cl .brk
  · simp [demo, IAdj, endsDot]

/-- The canonical text of `demo` parses back to `demo` (instance of the main theorem). -/
theorem demo_roundtrip : ∃ N, ∀ fuel, N ≤ fuel →
    parseItems fuel (lexOf 0 (printItems demo)) = .ok demo ⟨(lexOf 0 (printItems demo)).length, []⟩ :=
  parse_print demo demo_wf.1 demo_wf.2

end C33
