/-!
# M1/M3 (string part): printing, scanning and reading string literals

Transcribed from
* `escape_string_literal`            src/values.rs:781-797
* `STRING_RE` and its use            src/parser/lex.rs:15, 271-339
* `unescape_string`                  src/parser.rs:694-760

Strings are `List Char` (Rust `char` = Unicode scalar value = Lean `Char`).
Import-free.

`STRING_RE` after the `fix:` patch is `^"(\\.|[^"])*("|\z)`; on the pinned tree it is
`^"(\\"|[^"])*("|\z)`.  Both are modelled (`scanBody` / `scanBodyOld`).  The regex crate gives
leftmost-first (backtracking-order) semantics.  For both regexes the star body alternatives are
tried in order at every position, the star is greedy, and the greedy run can only stop in front of
a `"` or at the end of input, where the final group `("|\z)` always succeeds: so the first match a
backtracking engine finds is the greedy run and no backtracking happens.  That argument is not
formalised; the scanners are tied to the regex crate by the exhaustive `lex` correspondence of
harness/c12.py (every input of length <= 4/5 over a 10-character alphabet after the opening quote).
-/

namespace StringLit

/-! ## Printing: `escape_string_literal` -/

/-- What the `for c in s.chars()` loop pushes for one character. -/
def escapeChar (c : Char) : List Char :=
  if c = '"' then ['\\', '"']
  else if c = '\n' then ['\\', 'n']
  else if c = '\\' then ['\\', '\\']
  else [c]

def escapeBody : List Char → List Char
  | [] => []
  | c :: cs => escapeChar c ++ escapeBody cs

/-- `escape_string_literal(s)`. -/
def escapeStringLiteral (s : List Char) : List Char :=
  '"' :: (escapeBody s ++ ['"'])

/-! ## Scanning: `STRING_RE.find(s)` on input that starts at the current offset -/

/-- `.` of the regex crate: any character except `\n`. -/
def dot (c : Char) : Bool := c != '\n'

/-- Number of characters consumed by the greedy run of `(\\.|[^"])*` (fixed regex). -/
def scanBody : List Char → Nat
  | [] => 0
  | [c] => if c = '"' then 0 else 1        -- `[^"]` takes a final backslash too
  | c :: d :: rest' =>
    if c = '\\' then
      if dot d then 2 + scanBody rest'      -- first alternative `\\.`
      else 1 + scanBody (d :: rest')        -- second alternative `[^"]` takes the backslash
    else if c = '"' then 0
    else 1 + scanBody (d :: rest')

/-- The same for the pinned tree's `(\\"|[^"])*`. -/
def scanBodyOld : List Char → Nat
  | [] => 0
  | [c] => if c = '"' then 0 else 1
  | c :: d :: rest' =>
    if c = '\\' then
      if d = '"' then 2 + scanBodyOld rest'   -- first alternative `\\"`
      else 1 + scanBodyOld (d :: rest')
    else if c = '"' then 0
    else 1 + scanBodyOld (d :: rest')

/-- Length (in characters) of the match of the whole regex, given the body scanner;
`none` when the input does not start with `"` (the regex is anchored). -/
def scanWith (body : List Char → Nat) : List Char → Option Nat
  | '"' :: rest =>
    let n := body rest
    match rest.drop n with
    | '"' :: _ => some (n + 2)      -- closing quote
    | _ => some (n + 1)             -- `\z` (the run only stops at `"` or at the end)
  | _ => none

/-- `STRING_RE.find` with the fixed regex: number of characters matched. -/
def scanString : List Char → Option Nat := scanWith scanBody
/-- `STRING_RE.find` on the pinned tree. -/
def scanStringOld : List Char → Option Nat := scanWith scanBodyOld

/-- `text.split_once("\n")`'s first half, or all of `text`. -/
def beforeNewline : List Char → List Char
  | [] => []
  | c :: cs => if c = '\n' then [] else c :: beforeNewline cs

/-- What `lex_between` does with a string match: the token text and whether
"Unclosed string literal." is reported. Note that `text.ends_with('"')` is tested on the whole
match, so the lone `"` at the end of input and `"abc\"` at the end of input count as closed. -/
def lexStringWith (body : List Char → Nat) (input : List Char) : Option (List Char × Bool) :=
  match scanWith body input with
  | none => none
  | some n =>
    let text := input.take n
    if text.getLast? = some '"' then some (text, false)
    else some (beforeNewline text, true)

def lexString : List Char → Option (List Char × Bool) := lexStringWith scanBody
def lexStringOld : List Char → Option (List Char × Bool) := lexStringWith scanBodyOld

/-! ## Reading: `unescape_string` -/

/-- The `while i < chars.len()` loop: result text and number of "Invalid escape sequence"
diagnostics. -/
def unescapeBody : List Char → List Char × Nat
  | [] => ([], 0)
  | [c] => if c = '\\' then (['\\'], 1) else ([c], 0)
  | c :: d :: rest' =>
    if c = '\\' then
      if d = 'n' then let r := unescapeBody rest'; ('\n' :: r.1, r.2)
      else if d = 't' then let r := unescapeBody rest'; ('\t' :: r.1, r.2)
      else if d = '\\' then let r := unescapeBody rest'; ('\\' :: r.1, r.2)
      else if d = '"' then let r := unescapeBody rest'; ('"' :: r.1, r.2)
      else let r := unescapeBody (d :: rest'); ('\\' :: r.1, r.2 + 1)   -- "Treat \z as \\z."
    else
      let r := unescapeBody (d :: rest'); (c :: r.1, r.2)

/-- One UTF-8 byte? (`&src[1..]` panics unless byte offset 1 is a character boundary.) -/
def isOneByte (c : Char) : Bool := c.toNat < 128

/-- `unescape_string(token)` on the token text. `none` = the Rust panics (`&src[1..]` on an
empty text or on a text whose first character is longer than one byte; no caller passes such a
token). Otherwise the unescaped string and the number of diagnostics. -/
def unescapeString (tok : List Char) : Option (List Char × Nat) :=
  match tok with
  | [] => none
  | c :: s =>
    if !isOneByte c then none else
    let s := if s.getLast? = some '"' then s.dropLast else s
    some (unescapeBody s)

end StringLit
