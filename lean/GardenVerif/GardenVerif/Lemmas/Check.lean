import GardenVerif.Model.TypedSem
import GardenVerif.Lemmas.Types
/-! Helper lemmas for C16: value typing `hasTy` (deep, structural; agrees with
`is_subtype(Type::from_value(v), T)` on well-formed types: `hasTy_sub_typeOf`), subsumption,
compatibility with `unify`, canonical forms, environment typing. -/
set_option linter.unusedVariables false
set_option linter.unusedSimpArgs false

namespace Check

-- ------------------------------------------------------------------ well-formed fragment types

def goodName0 (n : String) : Bool :=
  n == "Int" || n == "String" || n == "Bool" || n == "Unit" || n == "NoValue"

mutual
/-- Types of the fragment: `Any`, tuples, the nullary core types, `List<T>` / `Option<T>` with
exactly one argument. No `Error`, no function types, no type parameters. -/
def good : Ty → Bool
  | .any => true
  | .tuple ts => goodL ts
  | .user _ n [] => goodName0 n
  | .user _ n [a] => (n == "List" || n == "Option") && good a
  | _ => false
def goodL : List Ty → Bool
  | [] => true
  | t :: ts => good t && goodL ts
end

mutual
theorem Hint.toTy_good : ∀ h : Hint, good h.toTy = true
  | .int => by simp [Hint.toTy, tInt, good, goodName0]
  | .bool => by simp [Hint.toTy, tBool, good, goodName0]
  | .str => by simp [Hint.toTy, tStr, good, goodName0]
  | .unit => by simp [Hint.toTy, tUnit, good, goodName0]
  | .list h => by simp [Hint.toTy, tList, good, Hint.toTy_good h]
  | .option h => by simp [Hint.toTy, tOption, good, Hint.toTy_good h]
  | .tuple hs => by simp [Hint.toTy, good, Hint.toTys_good hs]
theorem Hint.toTys_good : ∀ hs : List Hint, goodL (Hint.toTys hs) = true
  | [] => by simp [Hint.toTys, goodL]
  | h :: hs => by simp [Hint.toTys, goodL, Hint.toTy_good h, Hint.toTys_good hs]
end

-- ------------------------------------------------------------------ value typing

def isNamed (T : Ty) (n : String) : Bool :=
  match T with
  | .any => true
  | .user _ m _ => m == n
  | _ => false

mutual
/-- `v` is a value of static type `T` (deep: every element of a list has the element type). -/
def hasTy : Val → Ty → Bool
  | .int _, T => isNamed T "Int"
  | .str _, T => isNamed T "String"
  | .bool _, T => isNamed T "Bool"
  | .unit, T => isNamed T "Unit"
  | .none, T => isNamed T "Option"
  | .some p, T =>
    (match T with
     | .any => true
     | .user _ n (a :: _) => n == "Option" && hasTy p a
     | _ => false)
  | .list items, T =>
    (match T with
     | .any => true
     | .user _ n (a :: _) => n == "List" && hasTyAll items a
     | _ => false)
  | .tuple items, T =>
    (match T with
     | .any => true
     | .tuple ts => hasTyZip items ts
     | _ => false)
def hasTyAll : List Val → Ty → Bool
  | [], _ => true
  | v :: vs, a => hasTy v a && hasTyAll vs a
def hasTyZip : List Val → List Ty → Bool
  | [], [] => true
  | v :: vs, t :: ts => hasTy v t && hasTyZip vs ts
  | _, _ => false
end

theorem hasTy_any (v : Val) : hasTy v .any = true := by
  cases v <;> simp [hasTy, isNamed]

/-- Shape of the supertypes of a named type. -/
theorem sub_user_cases (k : Kind) (n : String) (as : List Ty) (B : Ty) (hn : n ≠ "NoValue")
    (h : Ty.sub (.user k n as) B = true) :
    B = .any ∨ B = .err ∨ ∃ k2 bs, B = .user k2 n bs ∧ Ty.subAll as bs = true := by
  cases B <;> simp [Ty.sub, hn] at h
  case any => exact Or.inl rfl
  case err => exact Or.inr (Or.inl rfl)
  case user k2 n2 bs =>
    obtain ⟨h1, h2⟩ := h
    subst h1
    exact Or.inr (Or.inr ⟨k2, bs, rfl, h2⟩)

theorem sub_tuple_cases (as : List Ty) (B : Ty) (h : Ty.sub (.tuple as) B = true) :
    B = .any ∨ B = .err ∨ ∃ bs, B = .tuple bs ∧ as.length = bs.length ∧ Ty.subAll as bs = true := by
  cases B <;> simp [Ty.sub] at h ⊢
  case tuple bs => exact h

theorem isNamed_sub (A B : Ty) (n : String) (hn : n ≠ "NoValue") (hA : isNamed A n = true) (hA' : A ≠ .any)
    (hs : Ty.sub A B = true) (hB : good B = true) : isNamed B n = true := by
  cases A <;> simp [isNamed] at hA hA'
  case user k m as =>
    subst hA
    rcases sub_user_cases k m as B hn hs with h | h | ⟨k2, bs, h, _⟩
    · subst h; simp [isNamed]
    · subst h; simp [good] at hB
    · subst h; simp [isNamed]

theorem sub_any_left (B : Ty) (h : Ty.sub .any B = true) : B = .any ∨ B = .err := by
  cases B <;> simp [Ty.sub] at h ⊢

mutual
/-- Subsumption: a value of type `A` is a value of every well-formed supertype of `A`. -/
theorem hasTy_sub : ∀ (v : Val) (A B : Ty), hasTy v A = true → Ty.sub A B = true → good B = true →
    hasTy v B = true
  | .int i, A, B, hv, hs, hB => by
    by_cases hA : A = .any
    · subst hA; rcases sub_any_left B hs with h | h <;> subst h <;> simp [hasTy, isNamed, good] at hB ⊢
    · simp [hasTy] at hv ⊢; exact isNamed_sub A B _ (by decide) hv hA hs hB
  | .str i, A, B, hv, hs, hB => by
    by_cases hA : A = .any
    · subst hA; rcases sub_any_left B hs with h | h <;> subst h <;> simp [hasTy, isNamed, good] at hB ⊢
    · simp [hasTy] at hv ⊢; exact isNamed_sub A B _ (by decide) hv hA hs hB
  | .bool i, A, B, hv, hs, hB => by
    by_cases hA : A = .any
    · subst hA; rcases sub_any_left B hs with h | h <;> subst h <;> simp [hasTy, isNamed, good] at hB ⊢
    · simp [hasTy] at hv ⊢; exact isNamed_sub A B _ (by decide) hv hA hs hB
  | .unit, A, B, hv, hs, hB => by
    by_cases hA : A = .any
    · subst hA; rcases sub_any_left B hs with h | h <;> subst h <;> simp [hasTy, isNamed, good] at hB ⊢
    · simp [hasTy] at hv ⊢; exact isNamed_sub A B _ (by decide) hv hA hs hB
  | .none, A, B, hv, hs, hB => by
    by_cases hA : A = .any
    · subst hA; rcases sub_any_left B hs with h | h <;> subst h <;> simp [hasTy, isNamed, good] at hB ⊢
    · simp [hasTy] at hv ⊢; exact isNamed_sub A B _ (by decide) hv hA hs hB
  | .some p, A, B, hv, hs, hB => by
    cases A <;> simp [hasTy] at hv
    case any => rcases sub_any_left B hs with h | h <;> subst h <;> simp [hasTy, good] at hB ⊢
    case user k n as =>
      cases as with
      | nil => simp at hv
      | cons a as =>
        simp at hv
        obtain ⟨hn, hp⟩ := hv
        subst hn
        rcases sub_user_cases k _ (a :: as) B (by decide) hs with h | h | ⟨k2, bs, h, hsub⟩
        · subst h; simp [hasTy]
        · subst h; simp [good] at hB
        · subst h
          cases bs with
          | nil => simp [good, goodName0] at hB
          | cons b bs =>
            cases bs with
            | nil =>
              simp [good] at hB
              simp [Ty.subAll] at hsub
              simp [hasTy]
              exact hasTy_sub p a b hp hsub hB
            | cons b2 bs => simp [good] at hB
  | .list items, A, B, hv, hs, hB => by
    cases A <;> simp [hasTy] at hv
    case any => rcases sub_any_left B hs with h | h <;> subst h <;> simp [hasTy, good] at hB ⊢
    case user k n as =>
      cases as with
      | nil => simp at hv
      | cons a as =>
        simp at hv
        obtain ⟨hn, hp⟩ := hv
        subst hn
        rcases sub_user_cases k _ (a :: as) B (by decide) hs with h | h | ⟨k2, bs, h, hsub⟩
        · subst h; simp [hasTy]
        · subst h; simp [good] at hB
        · subst h
          cases bs with
          | nil => simp [good, goodName0] at hB
          | cons b bs =>
            cases bs with
            | nil =>
              simp [good] at hB
              simp [Ty.subAll] at hsub
              simp [hasTy]
              exact hasTyAll_sub items a b hp hsub hB
            | cons b2 bs => simp [good] at hB
  | .tuple items, A, B, hv, hs, hB => by
    cases A <;> simp [hasTy] at hv
    case any => rcases sub_any_left B hs with h | h <;> subst h <;> simp [hasTy, good] at hB ⊢
    case tuple as =>
      rcases sub_tuple_cases as B hs with h | h | ⟨bs, h, hl, hsub⟩
      · subst h; simp [hasTy]
      · subst h; simp [good] at hB
      · subst h
        simp [good] at hB
        simp [hasTy]
        exact hasTyZip_sub items as bs hv hl hsub hB
theorem hasTyAll_sub : ∀ (vs : List Val) (a b : Ty), hasTyAll vs a = true → Ty.sub a b = true → good b = true →
    hasTyAll vs b = true
  | [], a, b, hv, hs, hB => by simp [hasTyAll]
  | v :: vs, a, b, hv, hs, hB => by
    simp [hasTyAll] at hv ⊢
    exact ⟨hasTy_sub v a b hv.1 hs hB, hasTyAll_sub vs a b hv.2 hs hB⟩
theorem hasTyZip_sub : ∀ (vs : List Val) (as bs : List Ty), hasTyZip vs as = true → as.length = bs.length →
    Ty.subAll as bs = true → goodL bs = true → hasTyZip vs bs = true
  | [], as, bs, hv, hl, hs, hB => by
    cases as <;> simp [hasTyZip] at hv
    cases bs <;> simp [hasTyZip] at hl ⊢
  | v :: vs, as, bs, hv, hl, hs, hB => by
    cases as with
    | nil => simp [hasTyZip] at hv
    | cons a as =>
      cases bs with
      | nil => simp at hl
      | cons b bs =>
        simp [hasTyZip, Ty.subAll, goodL] at hv hl hs hB ⊢
        exact ⟨hasTy_sub v a b hv.1 hs.1 hB.1, hasTyZip_sub vs as bs hv.2 hl hs.2 hB.2⟩
end

-- ------------------------------------------------------------------ runtime annotation checks pass

theorem sub_noValue (T : Ty) : Ty.sub Ty.noValue T = true := by
  cases T <;> simp [Ty.sub, Ty.noValue]

theorem good_user_cases (k : Kind) (n : String) (args : List Ty) (h : good (.user k n args) = true) :
    (args = [] ∧ goodName0 n = true) ∨ ∃ a, args = [a] ∧ (n = "List" ∨ n = "Option") ∧ good a = true := by
  cases args with
  | nil => simp [good] at h; exact Or.inl ⟨rfl, h⟩
  | cons a rest =>
    cases rest with
    | nil => simp [good] at h; exact Or.inr ⟨a, rfl, h.1, h.2⟩
    | cons b rest => simp [good] at h

theorem sub_named (k k2 : Kind) (n : String) (args : List Ty) (hn : n ≠ "NoValue") :
    Ty.sub (.user k n []) (.user k2 n args) = true := by
  simp [Ty.sub, hn, Ty.subAll]

mutual
/-- A value of static type `T` passes the evaluator's `check_type(v, T)`:
`is_subtype(Type::from_value(v), T)`. -/
theorem hasTy_sub_typeOf : ∀ (v : Val) (T : Ty), hasTy v T = true → Ty.sub (typeOf v) T = true
  | .int i, T, h => by
    cases T <;> simp [hasTy, isNamed] at h
    · simp [Ty.sub]
    · subst h; simp [typeOf, tInt, Ty.sub, Ty.subAll]
  | .str i, T, h => by
    cases T <;> simp [hasTy, isNamed] at h
    · simp [Ty.sub]
    · subst h; simp [typeOf, tStr, Ty.sub, Ty.subAll]
  | .bool i, T, h => by
    cases T <;> simp [hasTy, isNamed] at h
    · simp [Ty.sub]
    · subst h; simp [typeOf, tBool, Ty.sub, Ty.subAll]
  | .unit, T, h => by
    cases T <;> simp [hasTy, isNamed] at h
    · simp [Ty.sub]
    · subst h; simp [typeOf, tUnit, Ty.sub, Ty.subAll]
  | .none, T, h => by
    cases T <;> simp [hasTy, isNamed] at h
    · simp [Ty.sub]
    · subst h
      rename_i k args
      cases args <;> simp [typeOf, tOption, Ty.sub, Ty.subAll, sub_noValue]
  | .some p, T, h => by
    cases T <;> simp [hasTy] at h
    · simp [Ty.sub]
    · rename_i k n args
      cases args with
      | nil => simp at h
      | cons a rest =>
        simp at h
        obtain ⟨hn, hp⟩ := h
        subst hn
        simp [typeOf, tOption, Ty.sub, Ty.subAll, hasTy_sub_typeOf p a hp]
  | .list items, T, h => by
    cases T <;> simp [hasTy] at h
    · simp [Ty.sub]
    · rename_i k n args
      cases args with
      | nil => simp at h
      | cons a rest =>
        simp at h
        obtain ⟨hn, hp⟩ := h
        subst hn
        simp [typeOf, tList, Ty.sub, Ty.subAll, hasTyAll_sub_typeOfLast items a hp]
  | .tuple items, T, h => by
    cases T <;> simp [hasTy] at h
    · simp [Ty.sub]
    · rename_i ts
      have := hasTyZip_sub_typeOfs items ts h
      simp [typeOf, Ty.sub, this.1, this.2]
theorem hasTyAll_sub_typeOfLast : ∀ (vs : List Val) (a : Ty), hasTyAll vs a = true →
    Ty.sub (typeOfLast vs) a = true
  | [], a, h => by simp [typeOfLast, sub_noValue]
  | [v], a, h => by
    simp [hasTyAll] at h
    simp [typeOfLast, hasTy_sub_typeOf v a h]
  | v :: w :: rest, a, h => by
    simp [hasTyAll] at h
    simp [typeOfLast]
    exact hasTyAll_sub_typeOfLast (w :: rest) a (by simp [hasTyAll, h.2.1, h.2.2])
theorem hasTyZip_sub_typeOfs : ∀ (vs : List Val) (ts : List Ty), hasTyZip vs ts = true →
    (typeOfs vs).length = ts.length ∧ Ty.subAll (typeOfs vs) ts = true
  | [], ts, h => by
    cases ts <;> simp [hasTyZip] at h
    simp [typeOfs, Ty.subAll]
  | v :: vs, ts, h => by
    cases ts with
    | nil => simp [hasTyZip] at h
    | cons t ts =>
      simp [hasTyZip] at h
      have ih := hasTyZip_sub_typeOfs vs ts h.2
      simp [typeOfs, Ty.subAll, hasTy_sub_typeOf v t h.1, ih.1, ih.2]
end

-- ------------------------------------------------------------------ canonical forms

theorem canon_int (v : Val) (h : hasTy v tInt = true) : ∃ i, v = .int i := by
  cases v <;> simp [hasTy, isNamed, tInt] at h ⊢
theorem canon_str (v : Val) (h : hasTy v tStr = true) : ∃ s, v = .str s := by
  cases v <;> simp [hasTy, isNamed, tStr] at h ⊢
theorem canon_bool (v : Val) (h : hasTy v tBool = true) : ∃ b, v = .bool b := by
  cases v <;> simp [hasTy, isNamed, tBool] at h ⊢
theorem hasTy_noValue (v : Val) (T : Ty) (hT : T.isNoValue = true) : hasTy v T = false := by
  cases T <;> simp [Ty.isNoValue] at hT
  subst hT
  rename_i k args
  cases v <;> simp [hasTy, isNamed]
  all_goals (cases args <;> simp)
theorem hasTy_err (v : Val) : hasTy v .err = false := by
  cases v <;> simp [hasTy, isNamed]
theorem hasTy_fn (v : Val) (a : Option String) (b : List String) (c : List Ty) (d : Ty) :
    hasTy v (.fn a b c d) = false := by
  cases v <;> simp [hasTy, isNamed]

-- ------------------------------------------------------------------ environment typing

def blockOK : List (String × Ty) → List (String × Val) → Prop
  | [], [] => True
  | (k, T) :: g, (k', v) :: r => k = k' ∧ hasTy v T = true ∧ blockOK g r
  | _, _ => False

def envOK : Blocks Ty → Blocks Val → Prop
  | [], [] => True
  | g :: G, r :: R => blockOK g r ∧ envOK G R
  | _, _ => False

theorem lookupBlock_ok : ∀ (g : List (String × Ty)) (r : List (String × Val)) (x : String), blockOK g r →
    (∀ T, lookupBlock g x = some T → ∃ v, lookupBlock r x = some v ∧ hasTy v T = true) ∧
    (lookupBlock g x = none → lookupBlock r x = none)
  | [], [], x, h => by simp [lookupBlock]
  | [], _ :: _, x, h => by simp [blockOK] at h
  | _ :: _, [], x, h => by simp [blockOK] at h
  | (k, T) :: g, (k', v) :: r, x, h => by
    simp [blockOK] at h
    obtain ⟨hk, hv, hr⟩ := h
    subst hk
    have ih := lookupBlock_ok g r x hr
    simp only [lookupBlock]
    by_cases hx : (k == x) = true
    · simp [hx, hv]
    · simp [hx]; exact ih

theorem lookupB_ok : ∀ (G : Blocks Ty) (R : Blocks Val) (x : String), envOK G R →
    (∀ T, lookupB G x = some T → ∃ v, lookupB R x = some v ∧ hasTy v T = true) ∧
    (lookupB G x = none → lookupB R x = none)
  | [], [], x, h => by simp [lookupB]
  | [], _ :: _, x, h => by simp [envOK] at h
  | _ :: _, [], x, h => by simp [envOK] at h
  | g :: G, r :: R, x, h => by
    simp [envOK] at h
    have hb := lookupBlock_ok g r x h.1
    have ih := lookupB_ok G R x h.2
    simp only [lookupB]
    cases hg : lookupBlock g x with
    | some T =>
      obtain ⟨v, hv1, hv2⟩ := hb.1 T hg
      simp [hv1, hv2]
    | none =>
      simp [hb.2 hg]
      exact ih

theorem setBlock_ok : ∀ (g : List (String × Ty)) (r : List (String × Val)) (x : String) (T : Ty) (v : Val),
    blockOK g r → hasTy v T = true → blockOK (setBlock g x T) (setBlock r x v)
  | [], [], x, T, v, h, hv => by simp [setBlock, blockOK, hv]
  | [], _ :: _, x, T, v, h, hv => by simp [blockOK] at h
  | _ :: _, [], x, T, v, h, hv => by simp [blockOK] at h
  | (k, T0) :: g, (k', v0) :: r, x, T, v, h, hv => by
    simp [blockOK] at h
    obtain ⟨hk, hv0, hr⟩ := h
    subst hk
    simp only [setBlock]
    by_cases hx : (k == x) = true
    · simp [hx, blockOK, hv, hr]
    · simp [hx, blockOK, hv0]; exact setBlock_ok g r x T v hr hv

theorem setB_ok (G : Blocks Ty) (R : Blocks Val) (x : String) (T : Ty) (v : Val)
    (h : envOK G R) (hv : hasTy v T = true) : envOK (setB G x T) (setB R x v) := by
  cases G <;> cases R <;> simp [envOK, setB] at h ⊢
  exact ⟨setBlock_ok _ _ x T v h.1 hv, h.2⟩

theorem envOK_push (G : Blocks Ty) (R : Blocks Val) (h : envOK G R) : envOK ([] :: G) ([] :: R) := by
  simp [envOK, blockOK, h]

theorem envOK_tail (G : Blocks Ty) (R : Blocks Val) (h : envOK G R) : envOK G.tail R.tail := by
  cases G <;> cases R <;> simp [envOK] at h ⊢
  exact h.2

end Check
