import GardenVerif.Lemmas.ValueEq
/-!
C13 — `==` is structural equality on values.

Over the model of Model/ValueEq.lean (`valueEq` = `impl PartialEq for Value_` of the tree
with patches/arith-fix-float-dict-eq.diff, `valueNe` = `!=`). `LitValue` is the value as the
evaluator stores it, without the fields `eq` ignores; Lean's `=` on it is structural
equality (floats by bit pattern, which for finite floats is the same as "same printed form":
Rust prints the shortest digits that read back to the same bits, and `0.0` / `-0.0` print
differently). All statements are for ALL values, of any size and depth.
-/

namespace C13

/-- `a == b` is True exactly when `a` and `b` are structurally the same value. -/
theorem eq_is_structural (a b : LitValue) : valueEq a b = true ↔ a = b :=
  valueEq_iff a b

/-- `a != b` is always the negation of `a == b`. -/
theorem ne_is_negation (a b : LitValue) : valueNe a b = !valueEq a b := rfl

theorem eq_reflexive (a : LitValue) : valueEq a a = true :=
  (valueEq_iff a a).mpr rfl

theorem eq_symmetric (a b : LitValue) : valueEq a b = valueEq b a := by
  cases h : valueEq b a with
  | true => exact (valueEq_iff a b).mpr ((valueEq_iff b a).mp h).symm
  | false =>
    cases h2 : valueEq a b with
    | false => rfl
    | true =>
      have := (valueEq_iff b a).mpr ((valueEq_iff a b).mp h2).symm
      rw [h] at this; cases this

theorem eq_transitive (a b c : LitValue) (h1 : valueEq a b = true) (h2 : valueEq b c = true) :
    valueEq a c = true :=
  (valueEq_iff a c).mpr (((valueEq_iff a b).mp h1).trans ((valueEq_iff b c).mp h2))

/-- Two evaluations of the same literal (two separately built values) compare equal, and
literals denoting different values compare unequal. -/
theorem eq_on_literals (x y : Lit) :
    valueEq (Lit.eval x).1 (Lit.eval y).1 = true ↔ (Lit.eval x).1 = (Lit.eval y).1 :=
  valueEq_iff _ _

example : valueEq (Lit.eval (.dict [("b", .float 1), ("a", .list [.int 2])])).1
                  (Lit.eval (.dict [("a", .list [.int 2]), ("b", .float 1)])).1 = true := by
  rw [eq_is_structural]; rfl

example : valueEq (.list [.float 0x3ff8000000000000]) (.list [.float 0x3ff8000000000000]) = true :=
  eq_reflexive _

/-- The defect of the pinned tree: its `eq` is reflexive on a value iff the value contains
no float and no dict (so `1.5 == 1.5` and `Dict[] == Dict[]` are False there). -/
theorem pinned_not_reflexive (a : LitValue) : valueEqPinned a a = !a.hasFloatOrDict :=
  valueEqPinned_self a

example : valueEqPinned (.float 0x3ff8000000000000) (.float 0x3ff8000000000000) = false := by
  rw [pinned_not_reflexive]; rfl

end C13
