#!/usr/bin/env python3
"""Writes /verif/MANIFEST.json from the per-property table below."""
import json
import os

ROOT = os.path.dirname(os.path.dirname(os.path.abspath(__file__)))

TB = ("Trusted: Lean 4.33.0 kernel; axioms propext, Classical.choice, Quot.sound only (audited by #print axioms "
      "on every run); the hand-written model is tied to /repo only by the correspondence run; harness + "
      "`garden verif` hook report what the implementation did. ")

CLAIMED = {
    "C14": dict(
        category="proof",
        technique="Lean 4 proof (mutual structural induction) over a model of is_subtype + differential correspondence via hook",
        text="Proved for all types, no bound: reflexivity; transitivity on arity-well-formed error-free types; Any top; "
             "NoValue bottom; tuple/user-defined covariance and function contra/co-variance as iff-characterisations "
             "(Props/C14.lean). The model Ty.sub is compared with the real is_subtype on ~90k pairs per quick run "
             "(exhaustive depth<=1 families, structural near-miss mutations, malformed stream), and the real function "
             "is judged directly: reflexivity, all triples of a 200-type pool for transitivity, and a one-step-rule "
             "oracle (its answer must equal the documented rule applied to its own answers on components).",
        note=TB + "Type::Error payload and symbol positions are not modelled (never read by is_subtype).",
        design="§7 C14"),
    "C15": dict(
        category="proof",
        technique="Lean 4 proof over a model of unify/unify_all (uses C14 transitivity) + differential correspondence via hook",
        text="Proved for all types: unify(a,b)=Some c implies a<:c and b<:c; unify(a,a)=Some a; unify_all of n>=1 copies "
             "of a is a; unify_all(ts)=Ok c implies every t in ts is <: c for well-formed error-free ts. Model compared "
             "with the real unify/unify_all on ~40k pairs/lists per quick run; the real results are also judged by the "
             "real is_subtype (upper bound, idempotence) without the model.",
        note=TB + "Call sites of unify/unify_all in the checker (list/dict literals, if, try, match) are not modelled; "
             "the property is decided for the two combining functions every such site goes through.",
        design="§7 C15"),
}

NOT_YET = {}


def main():
    props = [json.loads(l) for l in open(os.path.join(ROOT, "properties.jsonl"))]
    checks = []
    na = []
    for p in props:
        pid = p["id"]
        if pid in CLAIMED:
            c = CLAIMED[pid]
            checks.append(dict(
                property_id=pid,
                quick_cmd="./check %s --tier quick" % pid,
                thorough_cmd="./check %s --tier thorough" % pid,
                evidence_file="/verif/evidence/%s.json" % pid,
                replay_cmd_template="./check %s --replay {path}" % pid,
                engine="lean4+correspondence",
                level_claimed=dict(category=c["category"], text=c["text"], design_ref=c["design"]),
                level_note=c["note"],
                technique=c["technique"]))
        else:
            na.append(dict(property_id=pid, reason=NOT_YET.get(
                pid, "not claimed yet: the Lean model/proof and correspondence for this property are not built at "
                     "this commit (planned in DESIGN.md §7); no check is registered, so nothing is asserted about it")))
    manifest = dict(
        version=1,
        setup_cmd="./setup.sh",
        hooks=dict(
            guard="wilfred_garden_verif",
            enable="RUSTFLAGS='--cfg wilfred_garden_verif' CARGO_TARGET_DIR=/verif/.build/garden-target cargo build --offline --bin garden (done by every check)",
            baseline_off_cmd="cd /repo && cargo test --workspace --no-fail-fast --offline",
            source_commits=[l.strip() for l in open(os.path.join(ROOT, "hook_commits.txt")) if l.strip()],
            add_only=True),
        engines=[dict(name="lean4+correspondence", path="/verif/lean/GardenVerif",
                      serves_properties=sorted(CLAIMED),
                      kind_free_text="Lean 4 models + theorems (lake project, no Mathlib require), line-protocol model "
                                     "driver (lean_exe gvdriver), Python harness diffing it against the hooked garden")],
        checks=checks,
        notes="See DESIGN.md. Every check rebuilds the hooked garden from /repo's working tree and the Lean "
              "theorems, audits axioms, runs the model/implementation correspondence and a direct oracle.",
        not_applicable=na)
    json.dump(manifest, open(os.path.join(ROOT, "MANIFEST.json"), "w"), indent=1)
    print("claimed:", sorted(CLAIMED))


if __name__ == "__main__":
    main()
