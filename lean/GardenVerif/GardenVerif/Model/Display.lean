import GardenVerif.Model.StringLit
/-!
# M3 (display part): values with literal syntax, `Value::display`, and reading literals back

Transcribed from
* `Value::display`                          src/values.rs:553-765
* the lexer's token classes                 src/parser/lex.rs:13-16, 161-376
* `parse_simple_expression`, `parse_tuple_literal_or_parentheses`, `parse_list_literal`,
  `parse_comma_separated_exprs`, `parse_dict_literal(_items)`, `parse_struct_literal(_fields)`,
  the call case of `parse_expression`       src/parser.rs:166-470, 762-945, 1061-1225
* evaluation of literals                    src/eval.rs:6630-6760, 7472-7610

`DValue F` is a value that has literal syntax; `F` is the float type (abstract in the theorems,
the printed text in the driver).  Enum values carry the variant *name* (`display` looks the name up
from `type_name`/`variant_idx`; a signature `Sig` says which names are variants and which are
structs).  A dict is the list of its entries in ascending key order, i.e. in the order `display`
emits them (`sort_by_key`); a struct keeps its fields in the order the value stores them.

`readValue` is a recursive-descent reader over characters that follows the lexer's token classes
and the parser's literal grammar and evaluates on the fly.  It is deliberately partial: on text
outside the literal fragment (operators, variables that are not variants, comments, …) it
returns `none`.  Recursion is by fuel; `readTop` supplies `length + 1`.
-/

inductive DValue (F : Type) where
  | int (i : Int)
  | float (f : F)
  | str (s : List Char)
  | list (items : List (DValue F))
  | tuple (items : List (DValue F))
  | dict (items : List (List Char × DValue F))
  | enum0 (name : List Char)
  | enum1 (name : List Char) (payload : DValue F)
  | struct (name : List Char) (fields : List (List Char × DValue F))

namespace Display
open StringLit

/-! ## Integers: Rust's `{}` for `i64` and `str::parse::<i64>` -/

def digitChar (d : Nat) : Char := Char.ofNat (48 + d)

/-- Decimal digits of a natural number, most significant first, no leading zeros. -/
def natDigits (n : Nat) : List Char :=
  if n < 10 then [digitChar n] else natDigits (n / 10) ++ [digitChar (n % 10)]
decreasing_by omega

/-- `format!("{i}")`. -/
def showInt (i : Int) : List Char :=
  if i < 0 then '-' :: natDigits i.natAbs else natDigits i.toNat

/-- `[0-9]` of the regex crate (ASCII digits only). -/
def isDigit (c : Char) : Bool := 48 ≤ c.toNat && c.toNat ≤ 57
/-- `[0-9_]` -/
def isDigitU (c : Char) : Bool := isDigit c || c = '_'
/-- `[a-zA-Z_]` -/
def isSymStart (c : Char) : Bool :=
  (97 ≤ c.toNat && c.toNat ≤ 122) || (65 ≤ c.toNat && c.toNat ≤ 90) || c = '_'
/-- `[a-zA-Z0-9_]` -/
def isSymChar (c : Char) : Bool := isSymStart c || isDigit c

/-- Split off the longest prefix whose characters satisfy `p`. -/
def spanChars (p : Char → Bool) : List Char → List Char × List Char
  | [] => ([], [])
  | c :: cs => if p c then let r := spanChars p cs; (c :: r.1, r.2) else ([], c :: cs)

/-- `INTEGER_RE = ^-?[0-9][0-9_]*`: the matched text and the rest. -/
def scanInt : List Char → Option (List Char × List Char)
  | '-' :: d :: cs =>
    if isDigit d then let r := spanChars isDigitU cs; some ('-' :: d :: r.1, r.2) else none
  | d :: cs =>
    if isDigit d then let r := spanChars isDigitU cs; some (d :: r.1, r.2) else none
  | [] => none

/-- `FLOAT_RE = ^-?[0-9][0-9_]*\.[0-9][0-9_]*`: the matched text and the rest. -/
def scanFloat (cs : List Char) : Option (List Char × List Char) :=
  match scanInt cs with
  | none => none
  | some (ip, rest) =>
    match rest with
    | '.' :: d :: rest' =>
      if isDigit d then let r := spanChars isDigitU rest'; some (ip ++ '.' :: d :: r.1, r.2) else none
    | _ => none

/-- `SYMBOL_RE = ^[a-zA-Z_][a-zA-Z0-9_]*` -/
def scanSymbol : List Char → Option (List Char × List Char)
  | c :: cs => if isSymStart c then let r := spanChars isSymChar cs; some (c :: r.1, r.2) else none
  | [] => none

def digitVal (c : Char) : Nat := c.toNat - 48

/-- value of a digit string -/
def digitsVal (ds : List Char) : Nat := ds.foldl (fun a c => a * 10 + digitVal c) 0

/-- `text.replace('_', "").parse::<i64>()` for a text matched by `INTEGER_RE`;
`none` = out of range ("… is outside the range of valid integer values", a parse error). -/
def parseI64 (text : List Char) : Option Int :=
  let t := text.filter (· != '_')
  let i : Int :=
    if t.head? = some '-' then -((digitsVal t.tail : Nat) : Int) else ((digitsVal t : Nat) : Int)
  if -9223372036854775808 ≤ i ∧ i < 9223372036854775808 then some i else none

/-! ## Floats: printing and parsing are Rust's, kept abstract -/

/-- Printing and parsing of floats as used by the model: `shw` is `display` of a finite float
(`format!("{f}")` plus `.0` if there is no `.`), `read` is `text.parse::<f64>()` on a text matched by
`FLOAT_RE` with `_` removed. -/
structure FloatOps (F : Type) where
  shw : F → List Char
  read : List Char → Option F

/-- What the theorems assume about Rust's `{}` for `f64` and `str::parse::<f64>` on finite
floats: the printed form is `-?digits.digits` (no exponent) and parsing it gives the float back.
Trusted base; sampled on the implementation by harness/c12.py. -/
structure FloatRepr (F : Type) extends FloatOps F where
  /-- sign, integer digits, fraction digits of the printed form -/
  neg : F → Bool
  ipart : F → List Char
  fpart : F → List Char
  shape : ∀ f, shw f = (if neg f then ['-'] else []) ++ ipart f ++ '.' :: fpart f
  ipart_digits : ∀ f, ipart f ≠ [] ∧ ∀ c ∈ ipart f, isDigit c = true
  fpart_digits : ∀ f, fpart f ≠ [] ∧ ∀ c ∈ fpart f, isDigit c = true
  read_shw : ∀ f, read (shw f) = some f

/-! ## `Value::display` -/

mutual
def display {F} (shw : F → List Char) : DValue F → List Char
  | .int i => showInt i
  | .float f => shw f
  | .str s => escapeStringLiteral s
  | .list items => '[' :: (displayItems shw items ++ [']'])
  | .tuple items =>
    '(' :: (displayItems shw items ++ (match items with | [_] => [',', ')'] | _ => [')']))
  | .dict items => 'D' :: 'i' :: 'c' :: 't' :: '[' :: (displayEntries shw items ++ [']'])
  | .enum0 name => name
  | .enum1 name payload => name ++ '(' :: (display shw payload ++ [')'])
  | .struct name fields => name ++ '{' :: ' ' :: (displayFields shw fields ++ [' ', '}'])
/-- items separated by `", "` -/
def displayItems {F} (shw : F → List Char) : List (DValue F) → List Char
  | [] => []
  | [v] => display shw v
  | v :: w :: rest => display shw v ++ ',' :: ' ' :: displayItems shw (w :: rest)
/-- `"key" => value` separated by `", "` -/
def displayEntries {F} (shw : F → List Char) : List (List Char × DValue F) → List Char
  | [] => []
  | [(k, v)] => escapeStringLiteral k ++ ' ' :: '=' :: '>' :: ' ' :: display shw v
  | (k, v) :: e :: rest =>
    escapeStringLiteral k ++ ' ' :: '=' :: '>' :: ' ' :: (display shw v ++ ',' :: ' ' :: displayEntries shw (e :: rest))
/-- `name: value` separated by `", "` -/
def displayFields {F} (shw : F → List Char) : List (List Char × DValue F) → List Char
  | [] => []
  | [(k, v)] => k ++ ':' :: ' ' :: display shw v
  | (k, v) :: e :: rest => k ++ ':' :: ' ' :: (display shw v ++ ',' :: ' ' :: displayFields shw (e :: rest))
end

/-! ## Reading a literal back -/

/-- Which names the program's type definitions give a meaning (prelude included). -/
structure Sig where
  /-- `some false`: a variant without payload (a value, e.g. `None`, `True`);
      `some true`: a variant constructor that takes a payload (e.g. `Some`). -/
  variant : List Char → Option Bool
  /-- declared field names of a struct type -/
  structFields : List Char → Option (List (List Char))

/-- Characters the lexer skips between tokens (`char::is_whitespace`, ASCII part; on other
whitespace the lexer advances by one *byte* and can panic — property C01 — the reader stops). -/
def isWs (c : Char) : Bool := c = ' ' || c = '\n' || c = '\t' || c = '\r' || c.toNat = 11 || c.toNat = 12

def skipWs : List Char → List Char
  | [] => []
  | c :: cs => if isWs c then skipWs cs else c :: cs

/-- Lexicographic order on strings by code point (= Rust's `Ord for String`, byte-wise on UTF-8). -/
def strLt : List Char → List Char → Bool
  | _, [] => false
  | [], _ :: _ => true
  | a :: as, b :: bs => a.toNat < b.toNat || (a = b && strLt as bs)

/-- `items.insert_mut(key, value)` on the ascending entry list that stands for the map. -/
def dictInsert {F} (k : List Char) (v : DValue F) : List (List Char × DValue F) → List (List Char × DValue F)
  | [] => [(k, v)]
  | (k', v') :: rest =>
    if k = k' then (k, v) :: rest
    else if strLt k k' then (k, v) :: (k', v') :: rest
    else (k', v') :: dictInsert k v rest

/-- The struct-literal checks of `eval_struct_value` that do not involve types: every field is
declared, none is given twice, none is missing. -/
def fieldsOk (declared : List (List Char)) (given : List (List Char)) : Bool :=
  given.all (declared.contains ·) && given.length = declared.length && given.eraseDups.length = given.length

def dictKw : List Char := ['D', 'i', 'c', 't']

mutual
/-- One expression of the literal fragment at the start of `cs` (leading whitespace allowed):
the value it evaluates to and the remaining text. `t` is the text at the next token. -/
def readValue {F} (fr : FloatOps F) (sig : Sig) : Nat → List Char → Option (DValue F × List Char)
  | 0, _ => none
  | fuel + 1, cs =>
    let t := skipWs cs
    if t.head? = some '(' then
      -- parse_tuple_literal_or_parentheses
      let r := skipWs t.tail
      if r.head? = some ')' then some (.tuple [], r.tail)
      else
        match readValue fr sig fuel r with
        | none => none
        | some (v, r1) =>
          let r2 := skipWs r1
          if r2.head? = some ',' then
            match readItems fr sig fuel ')' r2.tail with
            | none => none
            | some (vs, r3) => some (.tuple (v :: vs), r3)
          else if r2.head? = some ')' then some (v, r2.tail)     -- parenthesised expression
          else none
    else if t.head? = some '[' then
      -- parse_list_literal
      match readItems fr sig fuel ']' t.tail with
      | none => none
      | some (vs, r) => some (.list vs, r)
    else if t.head? = some '"' then
      match lexString t with
      | some (text, false) =>
        match unescapeString text with
        | some (s, 0) => some (.str s, t.drop text.length)
        | _ => none                                     -- invalid escape = parse error
      | _ => none                                       -- unclosed string = parse error
    else
      match scanFloat t with
      | some (text, r) =>
        match fr.read (text.filter (· != '_')) with
        | some f => some (.float f, r)
        | none => none
      | none =>
      match scanInt t with
      | some (text, r) =>
        match parseI64 text with
        | some i => some (.int i, r)
        | none => none
      | none =>
      match scanSymbol t with
      | none => none
      | some (name, r) =>
        if name = dictKw then
          -- parse_dict_literal
          let r1 := skipWs r
          if r1.head? = some '[' then
            match readEntries fr sig fuel r1.tail with
            | none => none
            | some (es, r2) => some (.dict es, r2)
          else none
        else if r.head? = some '{' then
          -- struct literal: the brace touches the name
          match sig.structFields name, readFields fr sig fuel r.tail with
          | some declared, some (fs, r1) =>
            if fieldsOk declared (fs.map (·.1)) then some (.struct name fs, r1) else none
          | _, _ => none
        else if r.head? = some '(' then
          -- call: the parenthesis touches the name
          match sig.variant name, readItems fr sig fuel ')' r.tail with
          | some true, some ([v], r1) => some (.enum1 name v, r1)
          | _, _ => none
        else
          match sig.variant name with
          | some false => some (.enum0 name, r)
          | _ => none
/-- `parse_comma_separated_exprs` up to and including the terminator `term`. -/
def readItems {F} (fr : FloatOps F) (sig : Sig) : Nat → Char → List Char → Option (List (DValue F) × List Char)
  | 0, _, _ => none
  | fuel + 1, term, cs =>
    let t := skipWs cs
    if t.head? = some term then some ([], t.tail) else
    match readValue fr sig fuel t with
    | none => none
    | some (v, r) =>
      let r1 := skipWs r
      if r1.head? = some ',' then
        match readItems fr sig fuel term r1.tail with
        | none => none
        | some (vs, r2) => some (v :: vs, r2)
      else if r1.head? = some term then some ([v], r1.tail)
      else none
/-- `parse_dict_literal_items` and the closing `]`, evaluated: later duplicates win. -/
def readEntries {F} (fr : FloatOps F) (sig : Sig) : Nat → List Char → Option (List (List Char × DValue F) × List Char)
  | 0, _ => none
  | fuel + 1, cs =>
    let t := skipWs cs
    if t.head? = some ']' then some ([], t.tail) else
    match readValue fr sig fuel t with
    | some (.str k, r) =>
      let r1 := skipWs r
      if r1.head? = some '=' ∧ r1.tail.head? = some '>' then
        match readValue fr sig fuel r1.tail.tail with
        | none => none
        | some (v, r2) =>
          let r3 := skipWs r2
          if r3.head? = some ',' then
            match readEntries fr sig fuel r3.tail with
            | none => none
            | some (es, r4) => some (if es.any (·.1 = k) then es else dictInsert k v es, r4)
          else if r3.head? = some ']' then some ([(k, v)], r3.tail)
          else none
      else none
    | _ => none
/-- `parse_struct_literal_fields` and the closing brace. -/
def readFields {F} (fr : FloatOps F) (sig : Sig) : Nat → List Char → Option (List (List Char × DValue F) × List Char)
  | 0, _ => none
  | fuel + 1, cs =>
    let t := skipWs cs
    if t.head? = some '}' then some ([], t.tail) else
    match scanSymbol t with
    | none => none
    | some (name, r) =>
      let r1 := skipWs r
      if r1.head? = some ':' then
        match readValue fr sig fuel r1.tail with
        | none => none
        | some (v, r2) =>
          let r3 := skipWs r2
          if r3.head? = some ',' then
            match readFields fr sig fuel r3.tail with
            | none => none
            | some (fs, r4) => some ((name, v) :: fs, r4)
          else if r3.head? = some '}' then some ([(name, v)], r3.tail)
          else none
      else none
end

/-- Read a whole text as one literal: nothing but whitespace may follow. -/
def readTop {F} (fr : FloatOps F) (sig : Sig) (cs : List Char) : Option (DValue F) :=
  match readValue fr sig (cs.length + 1) cs with
  | some (v, rest) => if skipWs rest = [] then some v else none
  | none => none

/-- The prelude's variants. -/
def preludeVariant (name : List Char) : Option Bool :=
  if name = "True".toList ∨ name = "False".toList ∨ name = "Unit".toList ∨ name = "None".toList then some false
  else if name = "Some".toList ∨ name = "Ok".toList ∨ name = "Err".toList then some true
  else none

end Display
