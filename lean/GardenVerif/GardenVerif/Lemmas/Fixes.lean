import GardenVerif.Lemmas.Extract
import GardenVerif.Model.Fixes
/-! Lemmas for the program-level `check --fix` schema theorems (Props/C22).
Part 1: the repeated `&&` / `||` operand wrapper is locally sound (`local_rb`), so the congruence
`C21.eval_congr_partial` lifts it to whole programs.
Part 2: deleting unused literal statements (`delProg`): forward (`simDF_all`) and backward (`simDB_all`)
simulations between a program and the program without the selected statements. -/
set_option linter.unusedVariables false
set_option linter.unusedSimpArgs false
namespace Fixes
open Machine (Expr Case Dest BinOp Program FunDef EnumDef)
open RefSem Validators Extract

def opB (op : BinOp) (a b : Bool) : Bool := if op = .and then a && b else a || b

theorem asBool_eq {v : Val} {a : Bool} (h : v.asBool = some a) : v = vBool a := by
  unfold Val.asBool at h
  split at h <;> first | (cases h; rfl) | cases h

theorem asBool_vBool (a : Bool) : (vBool a).asBool = some a := by cases a <;> rfl

theorem vBool_inj {a b : Bool} (h : vBool a = vBool b) : a = b := by
  cases a <;> cases b <;> first | rfl | (simp [vBool] at h)

theorem binop_bool {op : BinOp} (hop : isBoolOp op = true) (lv rv : Val) :
    RefSem.binop op lv rv = (match lv.asBool, rv.asBool with
      | some a, some b => .val (vBool (opB op a b))
      | _, _ => .err .typeError) := by
  cases op <;> simp [isBoolOp] at hop <;> simp [RefSem.binop, opB] <;>
    cases lv.asBool <;> cases rv.asBool <;> rfl

theorem self_absorb {op : BinOp} (hop : isBoolOp op = true) (v : Val) :
    RefSem.binop op v v = .val v ∨ RefSem.binop op v v = .err .typeError := by
  rw [binop_bool hop]
  cases h : v.asBool with
  | none => right; rfl
  | some a =>
    left
    have := asBool_eq h
    subst this
    simp only [opB]
    cases a <;> split <;> rfl

theorem opB_absorb_l (op : BinOp) {a b d : Bool} (h : opB op a d = a) : opB op (opB op a b) d = opB op a b := by
  unfold opB at *; split at h <;> rename_i ho <;> simp only [ho, if_true, if_false] <;>
    cases a <;> cases b <;> cases d <;> simp_all

theorem opB_absorb_r (op : BinOp) {a b d : Bool} (h : opB op b d = b) : opB op (opB op a b) d = opB op a b := by
  unfold opB at *; split at h <;> rename_i ho <;> simp only [ho, if_true, if_false] <;>
    cases a <;> cases b <;> cases d <;> simp_all

/-- Result classification of a strict Boolean operator. -/
theorem binop_val_inv {op : BinOp} (hop : isBoolOp op = true) {lv rv vx : Val}
    (h : RefSem.binop op lv rv = .val vx) : ∃ a b, lv = vBool a ∧ rv = vBool b ∧ vx = vBool (opB op a b) := by
  rw [binop_bool hop] at h
  cases hl : lv.asBool with
  | none => simp [hl] at h
  | some a =>
    cases hr : rv.asBool with
    | none => simp [hl, hr] at h
    | some b =>
      simp only [hl, hr] at h
      injection h with h
      exact ⟨a, b, asBool_eq hl, asBool_eq hr, h.symm⟩

/-- Absorption step shared by both sides of a chain node. -/
theorem absorb_step {op : BinOp} (hop : isBoolOp op = true) {a b : Bool} {w vd : Val} (left : Bool)
    (hw : w = vBool (if left then a else b))
    (h : RefSem.binop op w vd = .val w ∨ RefSem.binop op w vd = .err .typeError) :
    RefSem.binop op (vBool (opB op a b)) vd = .val (vBool (opB op a b)) ∨
      RefSem.binop op (vBool (opB op a b)) vd = .err .typeError := by
  subst hw
  rw [binop_bool hop] at h ⊢
  simp only [asBool_vBool] at h ⊢
  cases hd : vd.asBool with
  | none => right; rfl
  | some d =>
    simp only [hd] at h ⊢
    rcases h with h | h
    · left
      injection h with h
      have := vBool_inj h
      cases left
      · simp only [Bool.false_eq_true, if_false] at this; rw [opB_absorb_r op this]
      · simp only [if_true] at this; rw [opB_absorb_l op this]
    · cases h

theorem eval_lift (q : Program) {n m : Nat} (h : n ≤ m) {env : Env} {s : RefSem.St} {e : Expr} {v : Val}
    {s1 : RefSem.St} (he : eval false q n env s e = (.val v, s1)) : eval false q m env s e = (.val v, s1) := by
  have := (eval_mono q h env s e).eq_of_not_to (by rw [he]; rfl)
  rw [← this, he]

/-- In a call-free pure chain `x` of a strict Boolean operator, every operand `d` evaluates (in the
unchanged state) to a value that the value of `x` absorbs — or `x op d` is a type error. -/
theorem chain_absorb (q : Program) {op : BinOp} (hop : isBoolOp op = true) :
    ∀ (x : Expr), arithE x = true → ∀ (n : Nat) (env : Env) (s : RefSem.St) (vx : Val),
      eval false q n env s x = (.val vx, s) → ∀ d ∈ operands op x,
      ∃ vd, eval false q n env s d = (.val vd, s) ∧
        (RefSem.binop op vx vd = .val vx ∨ RefSem.binop op vx vd = .err .typeError)
  | .binop id u op' l r, hx, n, env, s, vx, h, d, hd => by
      simp only [arithE, Bool.and_eq_true] at hx
      by_cases ho : op' = op
      · subst ho
        simp only [operands, if_true, List.mem_append] at hd
        cases n with
        | zero => simp [eval] at h
        | succ n' =>
          simp only [eval] at h
          have ksl := (keepsState false q n').ev env s l hx.1
          cases hl : eval false q n' env s l with
          | mk rl sl =>
            rw [hl] at ksl h; simp only at ksl; subst ksl
            cases rl <;> simp only [RefSem.bind] at h <;> try (injection h with h1 _; cases h1; done)
            rename_i lv
            have ksr := (keepsState false q n').ev env sl r hx.2
            cases hr : eval false q n' env sl r with
            | mk rr sr =>
              rw [hr] at ksr h; simp only at ksr; subst ksr
              cases rr <;> simp only [RefSem.bind] at h <;> try (injection h with h1 _; cases h1; done)
              rename_i rv
              injection h with h1 _
              obtain ⟨a, b, rfl, rfl, rfl⟩ := binop_val_inv hop h1
              rcases hd with hd | hd
              · obtain ⟨vd, hvd, hab⟩ := chain_absorb q hop l hx.1 n' env sr (vBool a) hl d hd
                exact ⟨vd, eval_lift q (Nat.le_succ _) hvd, absorb_step hop true rfl hab⟩
              · obtain ⟨vd, hvd, hab⟩ := chain_absorb q hop r hx.2 n' env sr (vBool b) hr d hd
                exact ⟨vd, eval_lift q (Nat.le_succ _) hvd, absorb_step hop false rfl hab⟩
      · simp only [operands, ho, if_false, List.mem_singleton] at hd
        subst hd
        exact ⟨vx, h, self_absorb hop vx⟩
  | .paren id u e, hx, n, env, s, vx, h, d, hd => by
      simp only [arithE] at hx
      simp only [operands] at hd
      cases n with
      | zero => simp [eval] at h
      | succ n' =>
        simp only [eval] at h
        obtain ⟨vd, hvd, hab⟩ := chain_absorb q hop e hx n' env s vx h d hd
        exact ⟨vd, eval_lift q (Nat.le_succ _) hvd, hab⟩
  | .int .., hx, n, env, s, vx, h, d, hd => by
      simp only [operands, List.mem_singleton] at hd; subst hd; exact ⟨vx, h, self_absorb hop vx⟩
  | .str .., hx, n, env, s, vx, h, d, hd => by
      simp only [operands, List.mem_singleton] at hd; subst hd; exact ⟨vx, h, self_absorb hop vx⟩
  | .var .., hx, n, env, s, vx, h, d, hd => by
      simp only [operands, List.mem_singleton] at hd; subst hd; exact ⟨vx, h, self_absorb hop vx⟩
  | .list .., hx, n, env, s, vx, h, d, hd => by
      simp only [operands, List.mem_singleton] at hd; subst hd; exact ⟨vx, h, self_absorb hop vx⟩
  | .tuple .., hx, n, env, s, vx, h, d, hd => by
      simp only [operands, List.mem_singleton] at hd; subst hd; exact ⟨vx, h, self_absorb hop vx⟩
  | .letE .., hx, _, _, _, _, _, _, _ => by simp [arithE] at hx
  | .assign .., hx, _, _, _, _, _, _, _ => by simp [arithE] at hx
  | .update .., hx, _, _, _, _, _, _, _ => by simp [arithE] at hx
  | .ifE .., hx, _, _, _, _, _, _, _ => by simp [arithE] at hx
  | .whileE .., hx, _, _, _, _, _, _, _ => by simp [arithE] at hx
  | .forE .., hx, _, _, _, _, _, _, _ => by simp [arithE] at hx
  | .matchE .., hx, _, _, _, _, _, _, _ => by simp [arithE] at hx
  | .ret .., hx, _, _, _, _, _, _, _ => by simp [arithE] at hx
  | .brk .., hx, _, _, _, _, _, _, _ => by simp [arithE] at hx
  | .cont .., hx, _, _, _, _, _, _, _ => by simp [arithE] at hx
  | .call .., hx, _, _, _, _, _, _, _ => by simp [arithE] at hx
  | .lambda .., hx, _, _, _, _, _, _, _ => by simp [arithE] at hx
  | .invalid .., hx, _, _, _, _, _, _, _ => by simp [arithE] at hx
  | .unsup .., hx, _, _, _, _, _, _, _ => by simp [arithE] at hx

theorem rb_fwd (q : Program) {op : BinOp} (hop : isBoolOp op = true) {x d : Expr} (hx : arithE x = true)
    (hd : d ∈ operands op x) (m : Nat) (env : Env) (s : RefSem.St) :
    LeX none (some .typeError) (eval false q m env s x) (eval false q (m + 1) env s (.binop 0 false op x d)) := by
  simp only [eval]
  have ks := (keepsState false q m).ev env s x hx
  cases h : eval false q m env s x with
  | mk r s1 =>
    rw [h] at ks; simp only at ks; subst ks
    cases r with
    | val vx =>
      obtain ⟨vd, hvd, hab⟩ := chain_absorb q hop x hx m env s1 vx h d hd
      simp only [RefSem.bind, hvd]
      rcases hab with hab | hab
      · rw [hab]; exact LeX.rfl
      · rw [hab]; exact Or.inr (Or.inr (Or.inr (by simp [failedBy])))
    | timeout => exact LeX.to
    | brk => exact LeX.rfl
    | cont => exact LeX.rfl
    | ret v => exact LeX.rfl
    | err k => exact LeX.rfl
    | unsup w => exact LeX.rfl

theorem rb_bwd (q : Program) {op : BinOp} (hop : isBoolOp op = true) {x d : Expr} (hx : arithE x = true)
    (hd : d ∈ operands op x) (m : Nat) (env : Env) (s : RefSem.St) :
    LeX (some .typeError) none (eval false q m env s (.binop 0 false op x d)) (eval false q m env s x) := by
  cases m with
  | zero => simp only [eval]; exact LeX.to
  | succ m' =>
    have ks := (keepsState false q m').ev env s x hx
    have hm := eval_mono q (Nat.le_succ m') env s x
    generalize eval false q (m' + 1) env s x = R at hm ⊢
    simp only [eval]
    cases h : eval false q m' env s x with
    | mk r s1 =>
      rw [h] at ks hm; simp only at ks; subst ks
      cases r with
      | timeout => exact LeX.to
      | val vx =>
        have e := hm.eq_of_not_to rfl
        obtain ⟨vd, hvd, hab⟩ := chain_absorb q hop x hx m' env s1 vx h d hd
        simp only [RefSem.bind, hvd, ← e]
        rcases hab with hab | hab
        · rw [hab]; exact LeX.rfl
        · rw [hab]; exact Or.inr (Or.inr (Or.inl (by simp [failedBy])))
      | brk => rw [← hm.eq_of_not_to rfl]; exact LeX.rfl
      | cont => rw [← hm.eq_of_not_to rfl]; exact LeX.rfl
      | ret v => rw [← hm.eq_of_not_to rfl]; exact LeX.rfl
      | err k => rw [← hm.eq_of_not_to rfl]; exact LeX.rfl
      | unsup w => rw [← hm.eq_of_not_to rfl]; exact LeX.rfl

theorem paren_fwd (q : Program) (oa ob : Option EK) (x : Expr) (m : Nat) (env : Env) (s : RefSem.St) :
    LeX oa ob (eval false q m env s x) (eval false q (m + 1) env s (.paren 0 false x)) := by
  simp only [eval]; exact LeX.rfl

theorem paren_bwd (q : Program) (oa : Option EK) (x : Expr) (m : Nat) (env : Env) (s : RefSem.St) :
    LeX oa none (eval false q m env s (.paren 0 false x)) (eval false q m env s x) := by
  cases m with
  | zero => simp only [eval]; exact LeX.to
  | succ m' =>
    have hm := eval_mono q (Nat.le_succ m') env s x
    generalize eval false q (m' + 1) env s x = R at hm ⊢
    simp only [eval]; exact hm.weakenL

/-- The repeated-operand wrapper is locally sound in every program. -/
theorem local_rb (op : BinOp) (k t : Nat) (p : Program) : Local (rbCfg op k t) p where
  notLet := fun id x _ => by
    show isLet (rbWrap op k x) = false
    unfold rbWrap; split
    · split <;> rfl
    · rfl
  fwd := fun m env s x _ => by
    show LeX none (some .typeError) _ (eval false _ (m + 1) env s (rbWrap op k x))
    unfold rbWrap; split
    · rename_i d hd
      split
      · rename_i hc
        simp only [Bool.and_eq_true] at hc
        exact rb_fwd _ hc.1 hc.2 (List.mem_of_getElem? hd) m env s
      · exact paren_fwd _ _ _ x m env s
    · exact paren_fwd _ _ _ x m env s
  bwd := fun m env s x _ => by
    show LeX (some .typeError) none (eval false _ m env s (rbWrap op k x)) _
    unfold rbWrap; split
    · rename_i d hd
      split
      · rename_i hc
        simp only [Bool.and_eq_true] at hc
        exact rb_bwd _ hc.1 hc.2 (List.mem_of_getElem? hd) m env s
      · exact paren_bwd _ _ x m env s
    · exact paren_bwd _ _ x m env s
  funs := fun d _ => bokFun_true d

-- ------------------------------------------------------------------ what `delProg` keeps

theorem funNames_DP (sel : Nat → Bool) (p : Program) : funNames (delProg sel p) = funNames p := by
  simp [funNames, delProg, List.map_map, Function.comp_def, delFun]

theorem lookupVar_DP (sel : Nat → Bool) (p : Program) (env : Env) (st : List Val) (n : String) :
    lookupVar (delProg sel p) env st n = lookupVar p env st n := by
  unfold lookupVar; rw [funNames_DP]; rfl

theorem patKey_DP (sel : Nat → Bool) (p : Program) (v : String) : patKey (delProg sel p) v = patKey p v := by
  unfold patKey; rw [funNames_DP]; rfl

theorem applyBuiltin_DP (sel : Nat → Bool) (p : Program) (name : String) (args : List Val) (s : RefSem.St) :
    applyBuiltin (delProg sel p) name args s = applyBuiltin p name args s := rfl

theorem find_DP (sel : Nat → Bool) (p : Program) (name : String) :
    (delProg sel p).funs.find? (fun d => d.name == name)
      = (p.funs.find? (fun d => d.name == name)).map (delFun sel) := by
  simp only [delProg, List.find?_map]; rfl

theorem isLet_del (sel : Nat → Bool) (e : Expr) : isLet (del sel e) = isLet e := by
  cases e <;> try (simp [del, isLet]; done)
  rename_i o; cases o <;> simp [del, isLet]

theorem isLit_notLet {e : Expr} (h : isLit e = true) : isLet e = false := by
  cases e <;> simp [isLit, isLet] at h ⊢

theorem delSeq_cons_ne (sel : Nat → Bool) : ∀ (e : Expr) (rest : List Expr),
    ∃ a l, delSeq sel (e :: rest) = a :: l
  | e, [] => by simp [delSeq, delHere]
  | e, r0 :: rest => by
      simp only [delSeq]
      split
      · exact delSeq_cons_ne sel r0 rest
      · exact ⟨_, _, rfl⟩

/-- A literal statement that is not the last one only costs one level of fuel. -/
theorem evalSeq_lit (cl : Bool) (p : Program) (n : Nat) (env : Env) (s : RefSem.St) {e : Expr}
    {rest : List Expr} (hl : isLit e = true) (hr : rest.isEmpty = false) :
    evalSeq cl p (n + 1) env s (e :: rest) = if n = 0 then (.timeout, s) else evalSeq cl p n env s rest := by
  rw [evalSeq_cons_nonlet cl p n env s rest (isLit_notLet hl)]
  cases rest with
  | nil => simp at hr
  | cons r0 rest' =>
    cases n with
    | zero => simp [eval, RefSem.bind]
    | succ n' => cases e <;> simp [isLit] at hl <;> simp [eval, RefSem.bind]

theorem dels_le_cons (sel : Nat → Bool) (e : Expr) (rest : List Expr) : dels sel rest ≤ dels sel (e :: rest) := by
  simp [dels]

theorem dokSeq_cons {sel : Nat → Bool} {K : Nat} {e : Expr} {rest : List Expr}
    (h : dokSeq sel K (e :: rest) = true) : dok sel K e = true ∧ dokSeq sel K rest = true := by
  simp only [dokSeq, dokL, Bool.and_eq_true, decide_eq_true_eq] at h ⊢
  exact ⟨h.2.1, Nat.le_trans (dels_le_cons sel e rest) h.1, h.2.2⟩

-- ------------------------------------------------------------------ forward: the original is below the fixed program

structure SimDF (sel : Nat → Bool) (p : Program) (n m : Nat) : Prop where
  ev : ∀ env s e, LeX none none (eval false p n env s e) (eval false (delProg sel p) m env s (del sel e))
  seq : ∀ env s es,
    LeX none none (evalSeq false p n env s es) (evalSeq false (delProg sel p) m env s (delSeq sel es))
  lst : ∀ env s es,
    LeX none none (evalList false p n env s es) (evalList false (delProg sel p) m env s (delList sel es))
  whl : ∀ env s cnd body, LeX none none (evalWhile false p n env s cnd body)
    (evalWhile false (delProg sel p) m env s (del sel cnd) (delSeq sel body))
  for_ : ∀ env s dest items body, LeX none none (evalFor false p n env s dest items body)
    (evalFor false (delProg sel p) m env s dest items (delSeq sel body))
  cases : ∀ env s ty idx pl cs, LeX none none (evalCases false p n env s ty idx pl cs)
    (evalCases false (delProg sel p) m env s ty idx pl (delCases sel cs))
  app : ∀ s f args, LeX none none (applyVal false p n s f args) (applyVal false (delProg sel p) m s f args)

theorem simDF_zero (sel : Nat → Bool) (p : Program) (m : Nat) : SimDF sel p 0 m := by
  refine ⟨?_, ?_, ?_, ?_, ?_, ?_, ?_⟩ <;> intros <;>
    simp only [eval, evalSeq, evalList, evalWhile, evalFor, evalCases, applyVal] <;> exact LeX.to

theorem simDF_succ {sel : Nat → Bool} {p : Program} (n : Nat)
    (ihf : ∀ m0, n ≤ m0 → SimDF sel p n m0) (m : Nat) (hm : n + 1 ≤ m) : SimDF sel p (n + 1) m := by
  obtain ⟨m1, rfl⟩ : ∃ m1, m = m1 + 1 := ⟨m - 1, by omega⟩
  have ih := ihf m1 (by omega)
  refine ⟨?ev, ?seq, ?lst, ?whl, ?for_, ?cases, ?app⟩
  case ev =>
    intro env s e
    cases e with
    | int id u v => simp only [del, eval]; exact LeX.rfl
    | str id u v => simp only [del, eval]; exact LeX.rfl
    | var id u nm => simp only [del, eval, lookupVar_DP]; exact LeX.rfl
    | binop id u op l r =>
      simp only [del, eval]
      refine bind_le (ih.ev _ _ _) fun lv s1 => ?_
      refine bind_le (ih.ev _ _ _) fun rv s2 => ?_
      exact LeX.rfl
    | letE id u d r => simp only [del, eval]; exact LeX.rfl
    | assign id u nm rhs =>
      simp only [del, eval]
      exact bind_le (ih.ev _ _ _) fun v s1 => LeX.rfl
    | update id u a nm rhs =>
      simp only [del, eval]
      exact bind_le (ih.ev _ _ _) fun v s1 => LeX.rfl
    | ifE id u cnd thn els =>
      simp only [del, eval]
      refine bind_le (ih.ev _ _ _) fun cv s1 => ?_
      cases cv.asBool with
      | none => exact LeX.rfl
      | some b =>
        cases els with
        | none =>
          simp only [delOpt]
          cases b with
          | false => exact LeX.rfl
          | true => simp only [if_true]; exact bind_le (ih.seq _ _ _) fun _ s2 => LeX.rfl
        | some eb =>
          simp only [delOpt]
          cases b with
          | false => exact ih.seq _ _ _
          | true => exact ih.seq _ _ _
    | whileE id u cnd body => simp only [del, eval]; exact ih.whl _ _ _ _
    | forE id u dest iter body =>
      simp only [del, eval]
      refine bind_le (ih.ev _ _ _) fun iv s1 => ?_
      cases iv <;> first | exact LeX.rfl | exact ih.for_ _ _ _ _ _
    | matchE id u scrut cs =>
      simp only [del, eval]
      refine bind_le (ih.ev _ _ _) fun sv s1 => ?_
      cases sv <;> first | exact LeX.rfl | exact ih.cases _ _ _ _ _ _
    | ret id u o =>
      cases o with
      | none => simp only [del, eval]; exact LeX.rfl
      | some x => simp only [del, eval]; exact bind_le (ih.ev _ _ _) fun v s1 => LeX.rfl
    | brk id u => simp only [del, eval]; exact LeX.rfl
    | cont id u => simp only [del, eval]; exact LeX.rfl
    | list id u items => simp only [del, eval]; exact ih.lst _ _ _
    | tuple id u items => simp only [del, eval]; exact bind_le (ih.lst _ _ _) fun vs s1 => LeX.rfl
    | call id u recv args =>
      simp only [del, eval]
      refine bind_le (ih.ev _ _ _) fun fv s1 => ?_
      refine bind_le (ih.lst _ _ _) fun vs s2 => ?_
      cases vs <;> first | exact LeX.rfl | exact ih.app _ _ _
    | lambda id u ps body => simp only [del, eval, Bool.false_eq_true, if_false]; exact LeX.rfl
    | paren id u x => simp only [del, eval]; exact ih.ev _ _ _
    | invalid id u => simp only [del, eval]; exact LeX.rfl
    | unsup id u w => simp only [del, eval]; exact LeX.rfl
  case seq =>
    intro env s es
    cases es with
    | nil => simp only [delSeq, evalSeq]; exact LeX.rfl
    | cons e rest =>
      simp only [delSeq]
      by_cases hd : delHere sel e rest = true
      · simp only [hd, if_true]
        simp only [delHere, Bool.and_eq_true, Bool.not_eq_true'] at hd
        rw [evalSeq_lit _ _ _ _ _ hd.1.1 hd.2]
        by_cases hn : n = 0
        · simp only [hn, if_true]; exact LeX.to
        · simp only [hn, if_false]
          exact (ihf (m1 + 1) (by omega)).seq env s rest
      · simp only [hd, Bool.false_eq_true, if_false]
        by_cases hl : isLet e = true
        · obtain ⟨id, u, d, r, rfl⟩ := isLet_iff.mp hl
          simp only [del, evalSeq]
          refine bind_le (ih.ev _ _ _) fun v s1 => ?_
          cases hbd : bindDest d v env s1 with
          | error k => exact LeX.rfl
          | ok pr => obtain ⟨env', s2⟩ := pr; exact ih.seq _ _ _
        · have hl' : isLet e = false := by simpa using hl
          have hl2 : isLet (del sel e) = false := by rw [isLet_del]; exact hl'
          rw [evalSeq_cons_nonlet _ _ _ _ _ _ hl2, evalSeq_cons_nonlet _ _ _ _ _ _ hl']
          cases rest with
          | nil => simp only [delSeq]; exact ih.ev _ _ _
          | cons e2 rest2 =>
            obtain ⟨a, l, hal⟩ := delSeq_cons_ne sel e2 rest2
            have h2 := fun s1 => ih.seq env s1 (e2 :: rest2)
            rw [hal] at h2 ⊢
            exact bind_le (ih.ev _ _ _) fun _ s1 => h2 s1
  case lst =>
    intro env s es
    cases es with
    | nil => simp only [delList, evalList]; exact LeX.rfl
    | cons e rest =>
      simp only [delList, evalList]
      refine bind_le (ih.ev _ _ _) fun v s1 => ?_
      refine bind_le (ih.lst _ _ _) fun vs s2 => ?_
      exact LeX.rfl
  case whl =>
    intro env s cnd body
    rw [evalWhile_loop, evalWhile_loop]
    refine bind_le (ih.ev _ _ _) fun cv s1 => ?_
    cases cv.asBool with
    | none => exact LeX.rfl
    | some b =>
      cases b with
      | false => exact LeX.rfl
      | true => exact loop_le (ih.seq _ _ _) fun s2 => ih.whl _ _ _ _
  case for_ =>
    intro env s dest items body
    cases items with
    | nil => simp only [evalFor]; exact LeX.rfl
    | cons it rest =>
      rw [evalFor_loop, evalFor_loop]
      cases hbd : bindDest dest it env s with
      | error k => exact LeX.rfl
      | ok pr => obtain ⟨env', s2⟩ := pr; exact loop_le (ih.seq _ _ _) fun s3 => ih.for_ _ _ _ _ _
  case cases =>
    intro env s ty idx pl cs
    cases cs with
    | nil => simp only [delCases, evalCases]; exact LeX.rfl
    | cons cs0 rest =>
      have h3 := ih.cases env s ty idx pl rest
      obtain ⟨variant, dest, body⟩ := cs0
      cases dest with
      | none =>
        have h2 := ih.seq env s body
        simp only [delCases, delCase, evalCases, patKey_DP]
        by_cases hv : (variant == "_") = true
        · simp only [hv, if_true]; exact h2
        · simp only [hv, if_false, Bool.false_eq_true]
          cases patKey p variant with
          | none => exact LeX.rfl
          | some pk =>
            obtain ⟨pty, pidx⟩ := pk
            by_cases hk : (ty == pty && idx == pidx) = true
            · simp only [hk, if_true]
              cases pl with
              | none => exact h2
              | some _ => exact h3
            · simp only [hk, if_false, Bool.false_eq_true]; exact h3
      | some d =>
        simp only [delCases, delCase, evalCases, patKey_DP]
        cases patKey p variant with
        | none => exact LeX.rfl
        | some pk =>
          obtain ⟨pty, pidx⟩ := pk
          by_cases hk : (ty == pty && idx == pidx) = true
          · simp only [hk, if_true]
            cases pl with
            | none => exact h3
            | some v =>
              simp only []
              cases hbd : bindDest d v env s with
              | error k => exact LeX.rfl
              | ok pr => obtain ⟨env', s2⟩ := pr; exact ih.seq _ _ _
          · simp only [hk, if_false, Bool.false_eq_true]; exact h3
  case app =>
    intro s f args
    cases f with
    | closure cenv ps body => simp only [applyVal, Bool.not_false, if_true]; exact LeX.rfl
    | fn name =>
      simp only [applyVal, find_DP]
      cases hfind : p.funs.find? (fun d => d.name == name) with
      | none => exact LeX.rfl
      | some d =>
        simp only [Option.map_some, delFun]
        by_cases hl : (d.params.length != args.length) = true
        · simp only [hl, if_true]; exact LeX.rfl
        · simp only [hl, if_false, Bool.false_eq_true]
          exact funResult_le (ih.seq _ _ _)
    | builtin name => simp only [applyVal, applyBuiltin_DP]; exact LeX.rfl
    | int v => simp only [applyVal]; exact LeX.rfl
    | str v => simp only [applyVal]; exact LeX.rfl
    | list v => simp only [applyVal]; exact LeX.rfl
    | tuple v => simp only [applyVal]; exact LeX.rfl
    | enumV a b c => simp only [applyVal]; exact LeX.rfl
    | enumC a b => simp only [applyVal]; exact LeX.rfl

theorem simDF_all (sel : Nat → Bool) (p : Program) : ∀ n m, n ≤ m → SimDF sel p n m
  | 0, m, _ => simDF_zero sel p m
  | n + 1, m, hm => simDF_succ n (fun m0 h0 => simDF_all sel p n m0 h0) m hm

-- ------------------------------------------------------------------ backward: the fixed program is below the original

/-- Fuel the original needs for `n` levels of the fixed program: every level may skip up to `K`
deleted statements. -/
def dthr (K n : Nat) : Nat := (K + 1) * n

theorem dthr_succ (K n : Nat) : dthr K (n + 1) = dthr K n + K + 1 := by
  simp [dthr, Nat.mul_succ, Nat.add_assoc]

structure SimDB (sel : Nat → Bool) (K : Nat) (p : Program) (n : Nat) : Prop where
  ev : ∀ m, dthr K n ≤ m → ∀ env s e, dok sel K e = true →
    LeX none none (eval false (delProg sel p) n env s (del sel e)) (eval false p m env s e)
  seq : ∀ m es, dthr K n + dels sel es ≤ m + K → dokSeq sel K es = true → ∀ env s,
    LeX none none (evalSeq false (delProg sel p) n env s (delSeq sel es)) (evalSeq false p m env s es)
  lst : ∀ m, dthr K n ≤ m → ∀ env s es, dokL sel K es = true →
    LeX none none (evalList false (delProg sel p) n env s (delList sel es)) (evalList false p m env s es)
  whl : ∀ m, dthr K n ≤ m → ∀ env s cnd body, dok sel K cnd = true → dokSeq sel K body = true →
    LeX none none (evalWhile false (delProg sel p) n env s (del sel cnd) (delSeq sel body))
      (evalWhile false p m env s cnd body)
  for_ : ∀ m, dthr K n ≤ m → ∀ env s dest items body, dokSeq sel K body = true →
    LeX none none (evalFor false (delProg sel p) n env s dest items (delSeq sel body))
      (evalFor false p m env s dest items body)
  cases : ∀ m, dthr K n ≤ m → ∀ env s ty idx pl cs, dokCases sel K cs = true →
    LeX none none (evalCases false (delProg sel p) n env s ty idx pl (delCases sel cs))
      (evalCases false p m env s ty idx pl cs)
  app : ∀ m, dthr K n ≤ m → ∀ s f args,
    LeX none none (applyVal false (delProg sel p) n s f args) (applyVal false p m s f args)

theorem simDB_zero (sel : Nat → Bool) (K : Nat) (p : Program) : SimDB sel K p 0 := by
  refine ⟨?_, ?_, ?_, ?_, ?_, ?_, ?_⟩ <;> intros <;>
    simp only [eval, evalSeq, evalList, evalWhile, evalFor, evalCases, applyVal] <;> exact LeX.to

theorem dokSeq_of {sel : Nat → Bool} {K : Nat} {es : List Expr} (h1 : dels sel es ≤ K)
    (h2 : dokL sel K es = true) : dokSeq sel K es = true := by
  simp only [dokSeq, Bool.and_eq_true, decide_eq_true_eq]; exact ⟨h1, h2⟩

theorem simDB_succ {sel : Nat → Bool} {K : Nat} {p : Program}
    (hP : ∀ d ∈ p.funs, dokSeq sel K d.body = true) (n : Nat) (ih : SimDB sel K p n) :
    SimDB sel K p (n + 1) := by
  -- a block inside a node evaluated with fuel `m1 + 1 ≥ dthr (n+1)` on the right
  have blk : ∀ m1, dthr K n + K ≤ m1 → ∀ es, dokSeq sel K es = true → ∀ env s,
      LeX none none (evalSeq false (delProg sel p) n env s (delSeq sel es)) (evalSeq false p m1 env s es) := by
    intro m1 h1 es hes env s
    have hd : dels sel es ≤ K := by
      simp only [dokSeq, Bool.and_eq_true, decide_eq_true_eq] at hes; exact hes.1
    exact ih.seq m1 es (by omega) hes env s
  refine ⟨?ev, ?seq, ?lst, ?whl, ?for_, ?cases, ?app⟩
  case ev =>
    intro m hm env s e hk
    rw [dthr_succ] at hm
    obtain ⟨m1, rfl⟩ : ∃ m1, m = m1 + 1 := ⟨m - 1, by omega⟩
    have h1 : dthr K n ≤ m1 := by omega
    have h2 : dthr K n + K ≤ m1 := by omega
    cases e with
    | int id u v => simp only [del, eval]; exact LeX.rfl
    | str id u v => simp only [del, eval]; exact LeX.rfl
    | var id u nm => simp only [del, eval, lookupVar_DP]; exact LeX.rfl
    | binop id u op l r =>
      simp only [dok, Bool.and_eq_true] at hk
      simp only [del, eval]
      refine bind_le (ih.ev m1 h1 _ _ _ hk.1) fun lv s1 => ?_
      refine bind_le (ih.ev m1 h1 _ _ _ hk.2) fun rv s2 => ?_
      exact LeX.rfl
    | letE id u d r => simp only [del, eval]; exact LeX.rfl
    | assign id u nm rhs =>
      simp only [dok] at hk
      simp only [del, eval]
      exact bind_le (ih.ev m1 h1 _ _ _ hk) fun v s1 => LeX.rfl
    | update id u a nm rhs =>
      simp only [dok] at hk
      simp only [del, eval]
      exact bind_le (ih.ev m1 h1 _ _ _ hk) fun v s1 => LeX.rfl
    | ifE id u cnd thn els =>
      simp only [dok, Bool.and_eq_true, decide_eq_true_eq] at hk
      simp only [del, eval]
      refine bind_le (ih.ev m1 h1 _ _ _ hk.1.1.1) fun cv s1 => ?_
      have hthn := blk m1 h2 thn (dokSeq_of hk.1.1.2 hk.1.2)
      cases cv.asBool with
      | none => exact LeX.rfl
      | some b =>
        cases els with
        | none =>
          simp only [delOpt]
          cases b with
          | false => exact LeX.rfl
          | true => simp only [if_true]; exact bind_le (hthn _ _) fun _ s2 => LeX.rfl
        | some eb =>
          simp only [delOpt]
          have hk3 := hk.2
          simp only [dokOpt, Bool.and_eq_true, decide_eq_true_eq] at hk3
          cases b with
          | false => exact blk m1 h2 eb (dokSeq_of hk3.1 hk3.2) _ _
          | true => exact hthn _ _
    | whileE id u cnd body =>
      simp only [dok, Bool.and_eq_true, decide_eq_true_eq] at hk
      simp only [del, eval]
      exact ih.whl m1 h1 _ _ _ _ hk.1.1 (dokSeq_of hk.1.2 hk.2)
    | forE id u dest iter body =>
      simp only [dok, Bool.and_eq_true, decide_eq_true_eq] at hk
      simp only [del, eval]
      refine bind_le (ih.ev m1 h1 _ _ _ hk.1.1) fun iv s1 => ?_
      cases iv <;> first | exact LeX.rfl | exact ih.for_ m1 h1 _ _ _ _ _ (dokSeq_of hk.1.2 hk.2)
    | matchE id u scrut cs =>
      simp only [dok, Bool.and_eq_true] at hk
      simp only [del, eval]
      refine bind_le (ih.ev m1 h1 _ _ _ hk.1) fun sv s1 => ?_
      cases sv <;> first | exact LeX.rfl | exact ih.cases m1 h1 _ _ _ _ _ _ hk.2
    | ret id u o =>
      cases o with
      | none => simp only [del, eval]; exact LeX.rfl
      | some x =>
        simp only [dok] at hk
        simp only [del, eval]; exact bind_le (ih.ev m1 h1 _ _ _ hk) fun v s1 => LeX.rfl
    | brk id u => simp only [del, eval]; exact LeX.rfl
    | cont id u => simp only [del, eval]; exact LeX.rfl
    | list id u items =>
      simp only [dok] at hk
      simp only [del, eval]; exact ih.lst m1 h1 _ _ _ hk
    | tuple id u items =>
      simp only [dok] at hk
      simp only [del, eval]; exact bind_le (ih.lst m1 h1 _ _ _ hk) fun vs s1 => LeX.rfl
    | call id u recv args =>
      simp only [dok, Bool.and_eq_true] at hk
      simp only [del, eval]
      refine bind_le (ih.ev m1 h1 _ _ _ hk.1) fun fv s1 => ?_
      refine bind_le (ih.lst m1 h1 _ _ _ hk.2) fun vs s2 => ?_
      cases vs <;> first | exact LeX.rfl | exact ih.app m1 h1 _ _ _
    | lambda id u ps body => simp only [del, eval, Bool.false_eq_true, if_false]; exact LeX.rfl
    | paren id u x =>
      simp only [dok] at hk
      simp only [del, eval]; exact ih.ev m1 h1 _ _ _ hk
    | invalid id u => simp only [del, eval]; exact LeX.rfl
    | unsup id u w => simp only [del, eval]; exact LeX.rfl
  case seq =>
    intro m es
    induction es generalizing m with
    | nil =>
      intro hm _ env s
      rw [dthr_succ] at hm
      obtain ⟨m1, rfl⟩ : ∃ m1, m = m1 + 1 := ⟨m - 1, by simp [dels] at hm; omega⟩
      simp only [delSeq, evalSeq]; exact LeX.rfl
    | cons e rest ihes =>
      intro hm hk env s
      have hk' := dokSeq_cons hk
      rw [dthr_succ] at hm
      simp only [delSeq]
      by_cases hd : delHere sel e rest = true
      · simp only [hd, if_true]
        simp only [dels, hd, if_true] at hm
        obtain ⟨m1, rfl⟩ : ∃ m1, m = m1 + 1 := ⟨m - 1, by omega⟩
        have hd' := hd
        simp only [delHere, Bool.and_eq_true, Bool.not_eq_true'] at hd'
        rw [evalSeq_lit _ _ _ _ _ hd'.1.1 hd'.2]
        have hne : ¬ m1 = 0 := by omega
        simp only [hne, if_false]
        exact ihes m1 (by rw [dthr_succ]; omega) hk'.2 env s
      · simp only [hd, Bool.false_eq_true, if_false]
        simp only [dels, hd, Bool.false_eq_true, if_false, Nat.zero_add] at hm
        obtain ⟨m1, rfl⟩ : ∃ m1, m = m1 + 1 := ⟨m - 1, by omega⟩
        have h1 : dthr K n ≤ m1 := by omega
        have hrest : ∀ env s, LeX none none (evalSeq false (delProg sel p) n env s (delSeq sel rest))
            (evalSeq false p m1 env s rest) := fun env s => ih.seq m1 rest (by omega) hk'.2 env s
        by_cases hl : isLet e = true
        · obtain ⟨id, u, d, r, rfl⟩ := isLet_iff.mp hl
          have hkr : dok sel K r = true := by simpa [dok] using hk'.1
          simp only [del, evalSeq]
          refine bind_le (ih.ev m1 h1 _ _ _ hkr) fun v s1 => ?_
          cases hbd : bindDest d v env s1 with
          | error k => exact LeX.rfl
          | ok pr => obtain ⟨env', s2⟩ := pr; exact hrest _ _
        · have hl' : isLet e = false := by simpa using hl
          have hl2 : isLet (del sel e) = false := by rw [isLet_del]; exact hl'
          rw [evalSeq_cons_nonlet _ _ _ _ _ _ hl2, evalSeq_cons_nonlet _ _ _ _ _ _ hl']
          cases rest with
          | nil => simp only [delSeq]; exact ih.ev m1 h1 _ _ _ hk'.1
          | cons e2 rest2 =>
            obtain ⟨a, l, hal⟩ := delSeq_cons_ne sel e2 rest2
            have h2 := fun s1 => hrest env s1
            rw [hal] at h2 ⊢
            exact bind_le (ih.ev m1 h1 _ _ _ hk'.1) fun _ s1 => h2 s1
  case lst =>
    intro m hm env s es hk
    rw [dthr_succ] at hm
    obtain ⟨m1, rfl⟩ : ∃ m1, m = m1 + 1 := ⟨m - 1, by omega⟩
    have h1 : dthr K n ≤ m1 := by omega
    cases es with
    | nil => simp only [delList, evalList]; exact LeX.rfl
    | cons e rest =>
      simp only [dokL, Bool.and_eq_true] at hk
      simp only [delList, evalList]
      refine bind_le (ih.ev m1 h1 _ _ _ hk.1) fun v s1 => ?_
      refine bind_le (ih.lst m1 h1 _ _ _ hk.2) fun vs s2 => ?_
      exact LeX.rfl
  case whl =>
    intro m hm env s cnd body hk1 hk2
    rw [dthr_succ] at hm
    obtain ⟨m1, rfl⟩ : ∃ m1, m = m1 + 1 := ⟨m - 1, by omega⟩
    have h1 : dthr K n ≤ m1 := by omega
    rw [evalWhile_loop, evalWhile_loop]
    refine bind_le (ih.ev m1 h1 _ _ _ hk1) fun cv s1 => ?_
    cases cv.asBool with
    | none => exact LeX.rfl
    | some b =>
      cases b with
      | false => exact LeX.rfl
      | true => exact loop_le (blk m1 (by omega) body hk2 _ _) fun s2 => ih.whl m1 h1 _ _ _ _ hk1 hk2
  case for_ =>
    intro m hm env s dest items body hk
    rw [dthr_succ] at hm
    obtain ⟨m1, rfl⟩ : ∃ m1, m = m1 + 1 := ⟨m - 1, by omega⟩
    have h1 : dthr K n ≤ m1 := by omega
    cases items with
    | nil => simp only [evalFor]; exact LeX.rfl
    | cons it rest =>
      rw [evalFor_loop, evalFor_loop]
      cases hbd : bindDest dest it env s with
      | error k => exact LeX.rfl
      | ok pr =>
        obtain ⟨env', s2⟩ := pr
        exact loop_le (blk m1 (by omega) body hk _ _) fun s3 => ih.for_ m1 h1 _ _ _ _ _ hk
  case cases =>
    intro m hm env s ty idx pl cs hk
    rw [dthr_succ] at hm
    obtain ⟨m1, rfl⟩ : ∃ m1, m = m1 + 1 := ⟨m - 1, by omega⟩
    have h1 : dthr K n ≤ m1 := by omega
    cases cs with
    | nil => simp only [delCases, evalCases]; exact LeX.rfl
    | cons cs0 rest =>
      obtain ⟨variant, dest, body⟩ := cs0
      simp only [dokCases, Bool.and_eq_true, decide_eq_true_eq] at hk
      have h3 := ih.cases m1 h1 env s ty idx pl rest hk.2
      have hbody := blk m1 (by omega) body (dokSeq_of hk.1.1 hk.1.2)
      cases dest with
      | none =>
        simp only [delCases, delCase, evalCases, patKey_DP]
        by_cases hv : (variant == "_") = true
        · simp only [hv, if_true]; exact hbody _ _
        · simp only [hv, if_false, Bool.false_eq_true]
          cases patKey p variant with
          | none => exact LeX.rfl
          | some pk =>
            obtain ⟨pty, pidx⟩ := pk
            by_cases hkk : (ty == pty && idx == pidx) = true
            · simp only [hkk, if_true]
              cases pl with
              | none => exact hbody _ _
              | some _ => exact h3
            · simp only [hkk, if_false, Bool.false_eq_true]; exact h3
      | some d =>
        simp only [delCases, delCase, evalCases, patKey_DP]
        cases patKey p variant with
        | none => exact LeX.rfl
        | some pk =>
          obtain ⟨pty, pidx⟩ := pk
          by_cases hkk : (ty == pty && idx == pidx) = true
          · simp only [hkk, if_true]
            cases pl with
            | none => exact h3
            | some v =>
              simp only []
              cases hbd : bindDest d v env s with
              | error k => exact LeX.rfl
              | ok pr => obtain ⟨env', s2⟩ := pr; exact hbody _ _
          · simp only [hkk, if_false, Bool.false_eq_true]; exact h3
  case app =>
    intro m hm s f args
    rw [dthr_succ] at hm
    obtain ⟨m1, rfl⟩ : ∃ m1, m = m1 + 1 := ⟨m - 1, by omega⟩
    cases f with
    | closure cenv ps body => simp only [applyVal, Bool.not_false, if_true]; exact LeX.rfl
    | fn name =>
      simp only [applyVal, find_DP]
      cases hfind : p.funs.find? (fun d => d.name == name) with
      | none => exact LeX.rfl
      | some d =>
        have hmem : d ∈ p.funs := List.mem_of_find?_eq_some hfind
        simp only [Option.map_some, delFun]
        by_cases hl : (d.params.length != args.length) = true
        · simp only [hl, if_true]; exact LeX.rfl
        · simp only [hl, if_false, Bool.false_eq_true]
          exact funResult_le (blk m1 (by omega) d.body (hP d hmem) _ _)
    | builtin name => simp only [applyVal, applyBuiltin_DP]; exact LeX.rfl
    | int v => simp only [applyVal]; exact LeX.rfl
    | str v => simp only [applyVal]; exact LeX.rfl
    | list v => simp only [applyVal]; exact LeX.rfl
    | tuple v => simp only [applyVal]; exact LeX.rfl
    | enumV a b c => simp only [applyVal]; exact LeX.rfl
    | enumC a b => simp only [applyVal]; exact LeX.rfl

theorem simDB_all {sel : Nat → Bool} {K : Nat} {p : Program}
    (hP : ∀ d ∈ p.funs, dokSeq sel K d.body = true) : ∀ n, SimDB sel K p n
  | 0 => simDB_zero sel K p
  | n + 1 => simDB_succ hP n (simDB_all hP n)

end Fixes
