/-!
# M12 (LSP part) — dispatch model of the language server (src/lsp.rs)

Transcribed from `handle_message` (the `match parsed.method.as_deref()` block), `push_request_response`,
`push_error`, `handle_did_open/_did_change/_did_close`, the document-lookup prefix shared by every
`handle_*` request handler, and the `run_lsp` loop (`Action::{Continue,Shutdown,Exit}`,
`std::process::exit(if shutdown_received { 0 } else { 1 })`).

What is modelled exactly: which methods are answered and with which id; the three protocol error
codes; which messages change the document store; which publish diagnostics and for which text; the
shutdown flag and the exit status; that the loop stops only on `exit`.

What is abstracted: the *content* of a successful result (hover text, completion items, …) is not
modelled — the handler bodies are treated as total functions. Their panic-freedom is the front end's
(lexer/parser/checker: C01 and friends), not this property's; the harness nevertheless watches the real
process for panics. The only thing the model says about a result is whether the handler took its early
"no such document" exit (`Res.empty`: `null` or `[]`, see `handle_hover` etc.: `uri.to_file_path()`
fails, or the path is neither in the store nor readable from disk) — this makes the document store
observable.  The model's document store assumes the file is NOT on disk (the harness uses URIs below a
directory that does not exist).

A client message is represented by the features `handle_message` inspects:
* `envelopeOk`  — `serde_json::from_value::<Message>` succeeds (`jsonrpc` is a string, `method` is a string,
                  null or absent);
* `rawId`       — `message.get("id")` rendered as canonical JSON text (`"null"` for JSON null); used by the
                  Rust only when the envelope does not parse;
* `method`      — `parsed.method`;
* `params`      — `message.get("params")` classified against the parameter type of the method that is
                  being dispatched (`absent` / `malformed` / `good`), with the document path the handler
                  would compute (`none` when `to_file_path` fails);
* `sync`        — what the three `handle_did_*` functions extract with their `?` chains
                  (uri → path, and the new text), `none` when any step yields `None`.
Import-free.
-/

namespace LspDispatch

/-- How `handle_message` treats a method name (one constructor per shape of match arm). -/
inductive Kind where
  /-- `if let Some(id) = parsed.id { push_request_response(..) }` -/
  | request
  /-- `initialized`: empty arm -/
  | noop
  | didOpen
  | didChange
  | didClose
  /-- `if let Some(id) = parsed.id { push_response(handle_shutdown(id)) }; action = Shutdown` -/
  | shutdown
  /-- `action = Action::Exit` -/
  | exit
  deriving DecidableEq, Repr, Inhabited

/-- One arm of the `match parsed.method.as_deref()` in `handle_message`.
`docBased`: the handler starts with the uri → path → document lookup and returns its empty result
when that fails (all request handlers except `initialize`). Ignored for non-request kinds. -/
structure LspMethod where
  name : String
  kind : Kind
  docBased : Bool := false
  deriving DecidableEq, Repr, Inhabited

/-- A method that the server answers (when the message has an id). -/
def LspMethod.isRequest (m : LspMethod) : Bool :=
  m.kind == .request || m.kind == .shutdown

/-- The table of src/lsp.rs `handle_message` (transcribed by hand from the pinned tree; the translator
regenerates it and the harness compares). Order = order of the match arms. -/
def gardenMethods : List LspMethod := [
  { name := "initialize", kind := .request, docBased := false },
  { name := "initialized", kind := .noop },
  { name := "textDocument/completion", kind := .request, docBased := true },
  { name := "textDocument/definition", kind := .request, docBased := true },
  { name := "textDocument/hover", kind := .request, docBased := true },
  { name := "textDocument/signatureHelp", kind := .request, docBased := true },
  { name := "textDocument/documentHighlight", kind := .request, docBased := true },
  { name := "textDocument/documentSymbol", kind := .request, docBased := true },
  { name := "textDocument/formatting", kind := .request, docBased := true },
  { name := "textDocument/codeAction", kind := .request, docBased := true },
  { name := "textDocument/references", kind := .request, docBased := true },
  { name := "textDocument/rename", kind := .request, docBased := true },
  { name := "textDocument/didOpen", kind := .didOpen },
  { name := "textDocument/didChange", kind := .didChange },
  { name := "textDocument/didClose", kind := .didClose },
  { name := "shutdown", kind := .shutdown },
  { name := "exit", kind := .exit }
]

/-- First arm whose pattern equals the method (Rust `match` semantics). -/
def lookup (tbl : List LspMethod) (name : String) : Option LspMethod :=
  tbl.find? (fun m => m.name == name)

def distinct : List String → Bool
  | [] => true
  | x :: xs => !xs.contains x && distinct xs

/-- Well-formedness of a method table, decidable; what the theorems need:
* the only arm that stops the server is the one named `exit`, and the arm selected for `exit` does stop it;
* arm patterns are distinct (no unreachable arm). -/
def wfTable (tbl : List LspMethod) : Bool :=
  tbl.all (fun m => m.kind != .exit || m.name == "exit")
  && (match lookup tbl "exit" with
      | some e => e.kind == .exit
      | none => false)
  && distinct (tbl.map (·.name))

/-- JSON-RPC ids are arbitrary JSON values in the Rust (`serde_json::Value`); canonical JSON text here. -/
abbrev Id := String

/-- `message.get("params")` against the dispatched method's parameter type. -/
inductive Params where
  | absent
  | malformed
  /-- parses; `path` = `uri.to_file_path().ok()` (for `docBased` handlers) -/
  | good (path : Option String)
  deriving DecidableEq, Repr, Inhabited

/-- What `handle_did_open/_did_change/_did_close` extract: the document path (store key), the uri as
re-serialised in the notification, and the text (unused by didClose). -/
structure Sync where
  path : String
  uri : String
  text : String
  deriving DecidableEq, Repr, Inhabited

structure Msg where
  envelopeOk : Bool
  rawId : Option Id
  method : Option String
  params : Params
  sync : Option Sync
  deriving DecidableEq, Repr, Inhabited

/-- `parsed.id : Option<serde_json::Value>`: absent or JSON `null` is `None`. -/
def Msg.id (m : Msg) : Option Id :=
  match m.rawId with
  | some i => if i == "null" then none else some i
  | none => none

inductive ErrCode where
  | invalidRequest   -- -32600
  | methodNotFound   -- -32601
  | invalidParams    -- -32602
  deriving DecidableEq, Repr, Inhabited

def ErrCode.code : ErrCode → Int
  | .invalidRequest => -32600
  | .methodNotFound => -32601
  | .invalidParams => -32602

/-- Body of a response. -/
inductive Res where
  /-- some result computed by the handler (content not modelled) -/
  | value
  /-- the handler's early exit: document unknown (`null` / `[]`) -/
  | empty
  /-- `shutdown`: `result: null` -/
  | null
  | error (c : ErrCode)
  deriving DecidableEq, Repr, Inhabited

inductive Out where
  | response (id : Id) (r : Res)
  /-- `textDocument/publishDiagnostics` for `uri`, computed from `text` (`none`: cleared, didClose) -/
  | publish (uri : String) (text : Option String)
  deriving DecidableEq, Repr, Inhabited

def Out.respId? : Out → Option Id
  | .response i _ => some i
  | .publish _ _ => none

/-- Server state across messages: `documents` (path ↦ text, newest binding first), `shutdown_received`,
and whether the process has exited (with which status). The Rust keeps no "initialized" flag: requests
before `initialize` and after `shutdown` are served like any other. -/
structure State where
  docs : List (String × String) := []
  shutdown : Bool := false
  exited : Option Nat := none
  deriving DecidableEq, Repr, Inhabited

def State.get (st : State) (path : String) : Option String :=
  (st.docs.find? (fun kv => kv.1 == path)).map (·.2)

def State.insert (st : State) (path text : String) : State :=
  { st with docs := (path, text) :: st.docs.filter (fun kv => kv.1 != path) }

def State.remove (st : State) (path : String) : State :=
  { st with docs := st.docs.filter (fun kv => kv.1 != path) }

/-- `push_request_response` + the document lookup prefix of the handler. -/
def answer (st : State) (e : LspMethod) (i : Id) (p : Params) : Out :=
  match p with
  | .absent | .malformed => .response i (.error .invalidParams)
  | .good path =>
    if e.docBased then
      match path with
      | none => .response i .empty
      | some p => if (st.get p).isSome then .response i .value else .response i .empty
    else .response i .value

/-- The arm of `handle_message` selected for a known method `e`, followed by the `match action` of
`run_lsp`. -/
def handleKnown (st : State) (e : LspMethod) (m : Msg) : State × List Out :=
  match e.kind with
  | .request =>
    match m.id with
    | some i => (st, [answer st e i m.params])
    | none => (st, [])
  | .noop => (st, [])
  | .didOpen | .didChange =>
    match m.sync with
    | some s => (st.insert s.path s.text, [.publish s.uri (some s.text)])
    | none => (st, [])
  | .didClose =>
    match m.sync with
    | some s => (st.remove s.path, [.publish s.uri none])
    | none => (st, [])
  | .shutdown =>
    ({ st with shutdown := true },
     match m.id with
     | some i => [.response i .null]
     | none => [])
  | .exit => ({ st with exited := some (if st.shutdown then 0 else 1) }, [])

/-- One call of `handle_message` followed by the `match action` of `run_lsp`. -/
def handle (tbl : List LspMethod) (st : State) (m : Msg) : State × List Out :=
  if !m.envelopeOk then
    -- `Err(e) => { if let Some(id) = message.get("id") { push_error(InvalidRequest) }; return }`
    match m.rawId with
    | some i => (st, [.response i (.error .invalidRequest)])
    | none => (st, [])
  else
  match m.method with
  | none => (st, [])                       -- a response from the client: nothing to do
  | some name =>
    match lookup tbl name with
    | none =>                              -- `Some(method) =>` unknown
      match m.id with
      | some i => (st, [.response i (.error .methodNotFound)])
      | none => (st, [])
    | some e => handleKnown st e m

/-- The `run_lsp` loop over a finite client stream: stops consuming at `exit`; end of input leaves the
server not exited (the real process then returns from `run_lsp` with status 0). -/
def run (tbl : List LspMethod) (st : State) : List Msg → State × List Out
  | [] => (st, [])
  | m :: ms =>
    if st.exited.isSome then (st, []) else
    let (st', outs) := handle tbl st m
    let (st'', outs') := run tbl st' ms
    (st'', outs ++ outs')

/-- The specification side: the id that a client is entitled to see answered for message `m`
(independent of the server state). -/
def expectedId (tbl : List LspMethod) (m : Msg) : Option Id :=
  if !m.envelopeOk then m.rawId else
  match m.method with
  | none => none
  | some name =>
    match lookup tbl name with
    | none => m.id
    | some e => if e.isRequest then m.id else none

def isExit (tbl : List LspMethod) (m : Msg) : Bool :=
  m.envelopeOk &&
  match m.method with
  | none => false
  | some name => match lookup tbl name with
    | some e => e.kind == .exit
    | none => false

/-- Messages the server consumes: up to and including the first `exit`. -/
def untilExit (tbl : List LspMethod) : List Msg → List Msg
  | [] => []
  | m :: ms => if isExit tbl m then [m] else m :: untilExit tbl ms

def responseIds (outs : List Out) : List Id := outs.filterMap Out.respId?

end LspDispatch
