import GardenVerif.Lemmas.Session
/-!
# C10 — `:abort` returns the session to a clean top level

Statements over the session model M6 for /repo HEAD (`Cfg.patched`: `Stack::pop_to_toplevel` also
clears frame 0's `exprs_to_eval`, commit "fix: :abort also drops the toplevel frame's pending
expressions"). `abort st` is the state after the `:abort` command (`Session.handleCommand … .abort`
= `pop_to_toplevel` + the "Aborted" response).

`BottomOK st` is what `Env::new` establishes for the bottom frame and nothing in the session layer
changes: it is the toplevel frame created by `Stack::new` (kind toplevel, no caller, no bindings
waiting for a block), its oldest value is the placeholder `Unit`, it has at least one binding block.
(`:replace` never pops a frame's last value; before its fix it did — `C09.pinned_replace_pops_base`.)

* `abort_clean`: one frame, nothing pending, value stack = the single base `Unit`, one binding block.
* `abort_equiv_fresh`: the aborted session IS the fresh session holding the same definitions, tests
  and toplevel variables (`freshAt`: `freshWith (defs st) (toplevelVars st)` with the session-global
  counters — ticks, pending interrupt flag, limits — carried over), so every later request gets the
  same responses (`abort_same_responses`, any request list, any fuel).
* `nothing_leftover`: no frame, pending entry, value or binding block of the aborted evaluation is
  reachable: variable lookup sees exactly the toplevel variables.
Before that fix the pending entries of frame 0 survived (`pinned_abort_keeps_pending`): `:resume` after
`:abort` re-runs the aborted expression.
-/
set_option linter.unusedVariables false
set_option linter.unusedSimpArgs false
namespace C10
open Machine Session

def abort (st : Session.State) : Session.State := { st with m := popToToplevel Cfg.patched st.m }

/-- `:abort` as handled by the session is `abort` plus one response. -/
theorem abort_is_command (fuel : Nat) (st : Session.State) (id : Option Nat) :
    (handleCommand Cfg.patched fuel st id .abort).state = abort st := by
  simp only [handleCommand, cmdResp, abort]
  split <;> simp [respond, die]

/-- The bottom (toplevel) frame and its outermost binding block. -/
def bottom (st : Session.State) : Option Frame := (lastList st.m.frames).head?

def toplevelVars (st : Session.State) : Block :=
  match bottom st with
  | some f => ((lastList f.blocks).head?).getD []
  | none => []

def defs (st : Session.State) : Program := st.m.prog

def BottomOK (st : Session.State) : Prop :=
  ∃ f, bottom st = some f ∧ f.kind = .toplevel ∧ f.nextBlock = [] ∧ f.callerUses = true ∧
    f.callerId = none ∧ lastList f.values = [vUnit] ∧ f.blocks ≠ []

def Clean (st : Session.State) : Prop :=
  ∃ f, st.m.frames = [f] ∧ f.exprs = [] ∧ f.values = [vUnit] ∧ f.blocks.length = 1

theorem bottom_some (st : Session.State) (f : Frame) (h : bottom st = some f) :
    lastList st.m.frames = [f] := by
  unfold bottom at h
  have hl := lastList_length st.m.frames
  match hm : lastList st.m.frames, h, hl with
  | [g], h, _ => simp [hm] at h; simp [h]
  | [], h, _ => simp [hm] at h
  | _ :: _ :: _, _, hl => simp [hm] at hl

/-- **After `:abort` the session is at a clean top level.** -/
theorem abort_clean (st : Session.State) (h : BottomOK st) : Clean (abort st) := by
  obtain ⟨f, hb, _, _, _, _, hv, hbl⟩ := h
  have hl := bottom_some st f hb
  obtain ⟨b, hb1⟩ := lastList_ne f.blocks hbl
  refine ⟨{ f with exprs := [], values := lastList f.values, blocks := lastList f.blocks }, ?_, rfl, hv, ?_⟩
  · simp [abort, popToToplevel, hl, Cfg.patched]
  · simp [hb1]

/-- The fresh session with the same definitions, tests and toplevel variables; the session-global
counters (ticks, interrupt flag and schedule, limits, output buffer) are carried over. -/
def freshAt (st : Session.State) : Session.State :=
  let f := freshWith (defs st) (toplevelVars st)
  { m := { f.m with prog := st.m.prog, ticks := st.m.ticks, out := st.m.out,
                    interrupted := st.m.interrupted, tickLimit := st.m.tickLimit,
                    stackLimit := st.m.stackLimit, interruptAt := st.m.interruptAt,
                    stopAt := st.m.stopAt },
    tests := st.tests }

/-- The frames of `freshAt` are literally those of `freshWith (defs st) (toplevelVars st)`. -/
theorem freshAt_frames (st : Session.State) :
    (freshAt st).m.frames = (freshWith (defs st) (toplevelVars st)).m.frames := rfl

/-- **The aborted session equals the fresh one** (same definitions, same toplevel variables). -/
theorem abort_equiv_fresh (st : Session.State) (h : BottomOK st) : abort st = freshAt st := by
  obtain ⟨f, hb, hk, hn, hc, hi, hv, hbl⟩ := h
  have hl := bottom_some st f hb
  obtain ⟨b, hb1⟩ := lastList_ne f.blocks hbl
  have htv : toplevelVars st = b := by simp [toplevelVars, hb, hb1]
  cases st with
  | mk m tests =>
    cases m with
    | mk prog frames ticks out interrupted tickLimit stackLimit interruptAt stopAt =>
      cases f with
      | mk exprs values blocks nextBlock callerUses kind callerId =>
        simp only at hl hk hn hc hi hv hb1
        simp [abort, freshAt, freshWith, popToToplevel, hl, Cfg.patched, htv, hk, hn, hc, hi, hv, hb1, defs]

/-- Hence every later request list gets the same responses as in the fresh session. -/
theorem abort_same_responses (st : Session.State) (h : BottomOK st) (cfg : Cfg) (fuel : Nat)
    (reqs : List Req) :
    (run cfg fuel (abort st) reqs).responses = (run cfg fuel (freshAt st) reqs).responses ∧
    (run cfg fuel (abort st) reqs).outcome = (run cfg fuel (freshAt st) reqs).outcome := by
  rw [abort_equiv_fresh st h]; exact ⟨rfl, rfl⟩

/-- **Nothing of the aborted evaluation is reachable**: one frame; no pending entry; the only
value is the placeholder; a variable is found iff it is a toplevel variable (locals of the aborted
frames and of the aborted toplevel blocks are gone). -/
theorem nothing_leftover (st : Session.State) (h : BottomOK st) :
    ∃ f, (abort st).m.frames = [f] ∧ f.exprs = [] ∧ f.values = [vUnit] ∧
      ∀ name, lookupBlocks f.blocks name = lookupBlocks [toplevelVars st] name := by
  have he := abort_equiv_fresh st h
  refine ⟨_, by rw [he]; rfl, rfl, rfl, fun name => rfl⟩

-- ---------------------------------------------------------------- witnesses

/-- A session stopped inside a call, inside a block, with a pending toplevel entry. -/
def stopped : Session.State :=
  { Session.fresh with m := { Session.fresh.m with frames :=
      [ { exprs := [(.N, .var 5 true "nosuch")], values := [.int 3, vUnit], blocks := [[("inner", .int 1)], [("a", .int 2)]],
          nextBlock := [], callerUses := true, kind := .fn "f", callerId := some 9 },
        { exprs := [(.E, .ifE 7 true (.var 6 true "c") [] none)], values := [.int 8, vUnit],
          blocks := [[("blk", .int 4)], [("top", .int 10)]], nextBlock := [], callerUses := true, kind := .toplevel } ] } }

example : BottomOK stopped := ⟨_, rfl, rfl, rfl, rfl, rfl, rfl, by simp⟩
example : toplevelVars stopped = [("top", .int 10)] := rfl
example : (abort stopped).m.frames.length = 1 := by decide

/-- Before the fix: `pop_to_toplevel` keeps frame 0's pending entries (and truncates its blocks), so the
aborted `if` continuation is still there: not clean. -/
theorem pinned_abort_keeps_pending :
    ((popToToplevel Cfg.pinned stopped.m).frames.map (fun f => f.exprs.length)) = [1] := by
  decide

end C10
