"""C15 — Inferred types of lists and branches cover every element.

Proof: GardenVerif.Props.C15 over the models Ty.unify / Ty.unifyAll.
Tie: `unify` / `unify_all` ops of the hooked garden vs the Lean driver.
Direct oracle on the implementation: every successful unify(a, b) = c has
a <: c and b <: c by the real is_subtype; unify(a, a) = a; unify_all of a list
is a supertype of each element; unify_all of n copies of a is a. Program level (the call sites of unify_all in
the checker): see combo_programs below.
"""
from . import types_gen as G

LEAN_MODULES = ["GardenVerif.Props.C15"]


def run(ctx):
    rng = ctx.rng
    d0 = G.depth0()
    d1 = G.next_depth(d0)
    leaves = [G.user("NoValue"), G.user("Int"), "(any)", "(param T)", G.user("String")]
    fam = []
    for a in leaves:
        for b in leaves:
            fam += [G.user("Result", a, b), G.user("List", G.user("Result", a, b)), G.tup(a, b),
                    G.user("Option", G.user("List", a))]
    d2 = [G.random_type(rng, 2) for _ in range(ctx.scale(300, 3000))]
    mal = [G.random_type(rng, 2, malformed=True) for _ in range(ctx.scale(200, 2000))]
    allt = d0 + d1 + fam + d2
    ctx.rule = ("unify on pairs and unify_all on lists (length 0-5) of types from the C14 enumeration, with a "
                "family of same-skeleton types so that most unifications succeed non-trivially, plus a malformed "
                "stream compared for agreement only. Non-trivial = unify returned Some(c) with c textually "
                "different from at least one input, or returned None on two user types of the same name.")
    pairs = [(a, b) for a in fam for b in fam]
    while len(pairs) < ctx.scale(30000, 300000):
        a = rng.choice(allt)
        r = rng.random()
        b = rng.choice(allt) if r < 0.3 else G.mutate(rng, a, well_formed_only=(r < 0.9))
        pairs.append((a, b) if rng.random() < 0.5 else (b, a))
    npairs_wf = len(pairs)
    for _ in range(len(mal) * 3):
        pairs.append((rng.choice(mal), rng.choice(mal + d0 + fam)))
    lines = ["unify %s %s" % p for p in pairs]
    impl = ctx.garden_batch(lines)
    model = ctx.model_batch(lines)
    follow = []
    for q, ((a, b), i, m) in enumerate(zip(pairs, impl, model)):
        some = i is not None and i.startswith("OK (some ")
        c = i[len("OK (some "):-1] if some else None
        nontrivial = (some and (c != a or c != b) and a != b) or (i == "OK (none)" and a.split()[:3] == b.split()[:3])
        ctx.case(("unify", a, b), nontrivial)
        if i != m:
            ctx.disagree("unify", {"a": a, "b": b}, m, i)
        if i is None or not i.startswith("OK "):
            ctx.fail("C15/hook-error", "unify hook did not answer: %r" % (i,), a=a, b=b)
        if some and q < npairs_wf and G.well_formed(a) and G.well_formed(b):
            follow.append((a, b, c))
    ctx.sample({"op": lines[3], "impl": impl[3], "model": model[3]})
    ctx.sample({"op": lines[len(fam) ** 2 + 5], "impl": impl[len(fam) ** 2 + 5], "model": model[len(fam) ** 2 + 5]})
    # oracle: upper bound, by the real is_subtype
    sub_lines = []
    for a, b, c in follow:
        sub_lines += ["subtype %s %s" % (a, c), "subtype %s %s" % (b, c)]
    res = ctx.garden_batch(sub_lines)
    for q, (a, b, c) in enumerate(follow):
        if res[2 * q] != "OK true" or res[2 * q + 1] != "OK true":
            ctx.fail("C15/unify-not-upper", "unify(a,b)=c but a<:c or b<:c is false", a=a, b=b, c=c,
                     observed=[res[2 * q], res[2 * q + 1]])
    ctx.cov["unify_success_checked_as_upper_bound"] = len(follow)
    # oracle: idempotence
    idem = ["unify %s %s" % (t, t) for t in allt]
    for t, r in zip(allt, ctx.garden_batch(idem)):
        ctx.case(("idem", t), True)
        if r != "OK (some %s)" % t:
            ctx.fail("C15/unify-idem", "unify(a,a) is not a", a=t, observed=r)
    # unify_all on lists
    lists = []
    for _ in range(ctx.scale(8000, 80000)):
        n = rng.randrange(0, 6)
        base = rng.choice(fam + d1[:50])
        sk = [t for t in fam if t.split()[:3] == base.split()[:3]] or [base]
        ts = [rng.choice(sk + [G.user("NoValue")]) if rng.random() < 0.85 else rng.choice(allt) for _ in range(n)]
        lists.append(ts)
    for t in rng.sample(allt, 200):
        lists.append([t] * rng.randrange(1, 5))
    for _ in range(len(mal)):
        lists.append([rng.choice(mal + fam) for _ in range(rng.randrange(1, 4))])
    ul = ["unify_all " + " ".join(ts) for ts in lists]
    impl = ctx.garden_batch(ul)
    model = ctx.model_batch(ul)
    sub_lines, owners = [], []
    for ts, i, m in zip(lists, impl, model):
        ok = i is not None and i.startswith("OK (ok ")
        ctx.case(("unify_all",) + tuple(ts), ok and len(set(ts)) > 1)
        if i != m:
            ctx.disagree("unify_all", {"types": ts}, m, i)
        if ok and all(G.well_formed(t) for t in ts):
            c = i[len("OK (ok "):-1]
            if len(set(ts)) == 1 and ts and c != ts[0]:
                ctx.fail("C15/unify-all-equal", "unify_all of equal types is not that type", types=ts, observed=c)
            for t in ts:
                sub_lines.append("subtype %s %s" % (t, c))
                owners.append((ts, c, t))
    ctx.sample({"op": ul[11], "impl": impl[11], "model": model[11]})
    res = ctx.garden_batch(sub_lines)
    for r, (ts, c, t) in zip(res, owners):
        if r != "OK true":
            ctx.fail("C15/unify-all-not-upper", "unify_all(ts)=c but some t in ts is not <: c", types=ts, c=c, t=t)
    ctx.cov["unify_all_elements_checked_as_below_join"] = len(owners)
    ctx.assumptions += ["models Ty.unify/Ty.unifyAll are hand-written from src/checks/type_checker.rs:2944-3017",
                        "unify_all_upper is proved for well-formed error-free element types (uses C14 transitivity)"]
    run_programs(ctx)


# ------------------------------------------------------------------ program level: combination points
# The proof and the hook correspondence are about unify / unify_all themselves. The property is about the
# places where the checker USES them (list and dict literal elements, if/else branches, match arms incl. `_`
# arms). A combined type that does not cover one of the combined expressions shows as an ACCEPTED program
# that passes the combined value where only the other arm's type is allowed and raises a type error when
# that arm runs. (Seeded change C15-2 dropped the `_` arm's type from the types handed to unify_all.)
VALS = [("Int", "1"), ("Int", "2"), ("String", '"s"'), ("Bool", "True"), ("List<Int>", "[1]"),
        ("List<String>", '["a"]'), ("Option<Int>", "Some(1)"), ("Option<String>", 'Some("a")'),
        ("(Int, String)", '(1, "a")'), ("(Int, String, Bool)", '(1, "a", True)'), ("Unit", "Unit")]


def combo_programs():
    out = []
    for (ta, ea) in VALS:
        for (tb, eb) in VALS:
            if ta == tb and ea == eb:
                continue
            points = {
                "if-else": "if c { %s } else { %s }" % (ea, eb),
                "match-variants": "match o { Some(v) => %s None => %s }" % (ea, eb),
                "match-wildcard": "match o { Some(v) => %s _ => %s }" % (ea, eb),
                "match-wildcard-first": "match o { None => %s _ => %s }" % (ea, eb),
                "list-index": "[%s, %s]" % (ea, eb),
            }
            for point, combo in points.items():
                for use_t, which in ((ta, "first"), (tb, "second")):
                    if point == "list-index":
                        body = "  let xs = %s\n  for x in (xs) {\n    use(x)\n  }\n" % combo
                    else:
                        body = "  let x = %s\n  use(x)\n" % combo
                    src = ("fun use(v: %s): Unit {\n  Unit\n}\nfun f(c: Bool, o: Option<Int>): Unit {\n%s  Unit\n}\n"
                           "f(True, Some(1))\nf(False, None)\n" % (use_t, body))
                    out.append((point, ta, tb, which, src))
    return out


def run_programs(ctx):
    from . import c16 as C16
    from .common import hexs
    progs = combo_programs()
    if ctx.quick():
        progs = ctx.rng.sample(progs, 500)
    srcs = [p[4] for p in progs]
    chk = ctx.garden_batch(["check " + hexs(s) for s in srcs], timeout=900)
    runs = ctx.garden_batch(["machine %s - 40000 - notrace" % hexs(s) for s in srcs], timeout=900)
    acc = typeerr = 0
    for (point, ta, tb, which, src), c, r in zip(progs, chk, runs):
        rv = C16.real_verdict(c)
        if rv is None or rv[0]:
            ctx.broken.append(dict(kind="generator", what="combination program did not parse / check crashed", src=src))
            continue
        accepted = not rv[1]
        cls, is_type, msg = C16.real_outcome(r)
        ctx.case(("combo", point, ta, tb, which), ta != tb)
        if accepted:
            acc += 1
            if is_type:
                typeerr += 1
                ctx.fail("C15/combined-type-does-not-cover/%s" % point,
                         "check accepts a program that passes the value of `%s` (arms of type %s and %s) where only %s "
                         "is allowed, and the run raises: %s" % (point, ta, tb, ta if which == "first" else tb, msg[:160]),
                         src=src, replay="garden check f.gdn (no error); garden run f.gdn")
    ctx.rule += (" PROGRAM LEVEL: for every ordered pair of 11 typed expressions and every combination point "
                 "(if/else, match over variants, match with a `_` arm, list literal) a program passes the combined "
                 "value where only one arm's type is allowed and runs both arms: an accepted program must not raise "
                 "a type error (500 sampled at quick, all 1200 at thorough).")
    ctx.cov["combination_programs"] = len(progs)
    ctx.cov["combination_programs_accepted"] = acc
    ctx.log("combination points: %d programs, %d accepted, %d accepted with a runtime type error" % (len(progs), acc, typeerr))
