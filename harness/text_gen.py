"""G-text: shared generators of source *texts* for the lexer/parser front end (DESIGN §6b).

Four streams, all driven by a caller-supplied `random.Random`:

  raw(rng)        characters from a weighted alphabet (lexemes, digits with `_`/`.`, ASCII and
                  non-ASCII whitespace, CR, 2/3/4-byte characters, quotes and backslashes)
  tokens(rng)     sequences of whole tokens (numbers, symbols, keywords, operators, string
                  literals — some spanning lines — and comments) with an independently chosen
                  gap (nothing / space / newline / exotic whitespace / comment) between them
  stringy(rng)    texts dense in `"`, `\\`, newlines and `//` (string/comment interplay)
  perturbed(rng)  a seed file (every .gdn under src/test_files, src/*.gdn) with k random edits
                  (delete / insert / replace / duplicate / swap a span, insert a multi-line
                  string or a multi-byte character)

plus `exhaustive(alphabet, n)`: every string of length ≤ n over a small alphabet.
`classify(text)` returns the set of features a text has (used for measured non-triviality).
"""
import itertools
import os

TWO_CHAR = ["==", "!=", ">=", "<=", "&&", "||", "+=", "-=", "**", "+.", "-.", "*.", "/.", "=>", "::"]
ONE_CHAR = list("+-*/%^=<>&|(){},[].:")
KEYWORDS = ["let", "fun", "enum", "struct", "import", "if", "else", "while", "return", "test", "match",
            "break", "continue", "for", "in", "assert", "as", "method", "public", "shared", "try", "catch"]
SYMBOLS = ["x", "y", "foo", "_", "_x1", "Int", "String", "List", "True", "False", "None", "Some", "println",
           "this", "__placeholder", "a_b", "Z9"]
NUMBERS = ["0", "1", "42", "-1", "1_000", "1.5", "-0.25", "1_0.0_1", "1.", ".5", "1._", "0_", "-", "1e5",
           "9223372036854775807", "00"]
ASCII_WS = [" ", " ", " ", "\n", "\n", "\t", "\r", "\r\n", "\x0b", "\x0c"]
# 2-, 3-, 4-byte characters; the first three lines are Unicode White_Space
NONASCII_WS = [" ", "\u0085", " ", " ", "　", " ", " "]
NONASCII = ["é", "ü", "λ", "中", "€", "\U0001f600", "\U00010348", "​", "﻿"]
STRINGS = ['""', '"a"', '"a b"', '"\\n"', '"\\""', '"\\\\"', '"a\nb"', '"\n"', '"é\n\U0001f600 x"',
           '"a\\"b\nc"', '"{x}"', '"//"', '"', '"abc', '"a\\', '"\\"', '"x\n\n  y"']
COMMENTS = ["// c\n", "//\n", "/// doc\n", "// é中\n", "// \"q\n", "//x"]
SPECIAL = ['"', "\\", "//", "#!", "#", "/", "_", ".", "'", "?", "@", "$", "`", "~", ";", "!"]

EXHAUSTIVE_ALPHABET = ["a", "1", '"', "\\", "/", " ", "\n", "\r", "-", ".", "=", "é", " ", "\U0001f600"]
EXHAUSTIVE_STRING_ALPHABET = ['"', "\\", "a", "\n", " "]


def _weighted(rng, table):
    total = sum(w for w, _ in table)
    r = rng.random() * total
    for w, items in table:
        r -= w
        if r < 0:
            return rng.choice(items)
    return rng.choice(table[-1][1])


RAW_TABLE = [(14, TWO_CHAR), (14, ONE_CHAR), (8, KEYWORDS), (10, SYMBOLS), (10, NUMBERS), (16, ASCII_WS),
             (5, NONASCII_WS), (6, NONASCII), (8, SPECIAL), (5, STRINGS), (3, COMMENTS),
             (6, list("0123456789_."))]


def raw(rng, max_atoms=14):
    n = rng.randint(0, max_atoms)
    return "".join(_weighted(rng, RAW_TABLE) for _ in range(n))


TOKEN_TABLE = [(12, TWO_CHAR), (18, ONE_CHAR), (14, KEYWORDS), (18, SYMBOLS), (12, NUMBERS[:8]), (14, STRINGS[:13]),
               (2, NONASCII), (2, STRINGS[13:])]
GAP_TABLE = [(30, [""]), (40, [" "]), (14, ["\n", "\n\n", "\n  "]), (4, ["\t", "\r\n", "\r"]),
             (4, NONASCII_WS), (8, COMMENTS)]


def tokens(rng, max_tokens=16):
    n = rng.randint(1, max_tokens)
    out = []
    if rng.random() < 0.03:
        out.append(rng.choice(["#!/usr/bin/env garden\n", "#!x", "#"]))
    for _ in range(n):
        out.append(_weighted(rng, TOKEN_TABLE))
        out.append(_weighted(rng, GAP_TABLE))
    return "".join(out)


STRINGY_TABLE = [(20, ['"']), (14, ["\\"]), (14, ["\n"]), (10, ["a", "b", "x1"]), (8, [" "]), (6, ["//"]),
                 (4, ["é", "\U0001f600", " "]), (4, ["\\\"", "\\\\", "\\n"]), (3, ["/", "{", "}"]),
                 (3, ["let s = ", " + ", "println(", ")"])]


def stringy(rng, max_atoms=12):
    n = rng.randint(1, max_atoms)
    return "".join(_weighted(rng, STRINGY_TABLE) for _ in range(n))


_SEEDS = None


def seeds(repo):
    """Every .gdn under src/test_files plus src/*.gdn, as (relative path, text)."""
    global _SEEDS
    if _SEEDS is not None and _SEEDS[0] == repo:
        return _SEEDS[1]
    out = []
    src = os.path.join(repo, "src")
    paths = []
    for dirpath, _, files in os.walk(os.path.join(src, "test_files")):
        for f in files:
            if f.endswith(".gdn"):
                paths.append(os.path.join(dirpath, f))
    for f in os.listdir(src):
        if f.endswith(".gdn"):
            paths.append(os.path.join(src, f))
    for p in sorted(paths):
        try:
            out.append((os.path.relpath(p, repo), open(p, encoding="utf-8").read()))
        except (OSError, UnicodeDecodeError):
            pass
    _SEEDS = (repo, out)
    return out


INSERTS = (['"a\nb"', '"é\n"', "é", "\U0001f600", " ", "　", '"', "\\", "//", "\n", " ", "\r"]
           + TWO_CHAR + ONE_CHAR + KEYWORDS[:8] + NUMBERS[:6])


def perturb(rng, text, k=None, max_len=4000):
    """k random edits of `text` (k=0 returns it unchanged, cut to max_len chars)."""
    if len(text) > max_len:
        start = rng.randrange(0, len(text) - max_len)
        # cut at a line start when possible so most of the window still parses
        nl = text.find("\n", start)
        start = nl + 1 if 0 <= nl < start + 200 else start
        text = text[start:start + max_len]
    if k is None:
        k = rng.choice([1, 1, 1, 2, 2, 3, 5])
    s = text
    for _ in range(k):
        if not s:
            s = rng.choice(INSERTS)
            continue
        i = rng.randrange(0, len(s) + 1)
        j = min(len(s), i + rng.choice([1, 1, 1, 2, 3, 8]))
        op = rng.random()
        if op < 0.25:
            s = s[:i] + s[j:]
        elif op < 0.6:
            s = s[:i] + rng.choice(INSERTS) + s[i:]
        elif op < 0.8:
            s = s[:i] + rng.choice(INSERTS) + s[j:]
        elif op < 0.9:
            s = s[:j] + s[i:j] + s[j:]
        else:
            k2 = min(len(s), j + (j - i))
            s = s[:i] + s[j:k2] + s[i:j] + s[k2:]
    return s


def perturbed(rng, repo):
    sd = seeds(repo)
    if not sd:
        return tokens(rng)
    _, text = rng.choice(sd)
    return perturb(rng, text)


def exhaustive(alphabet, n):
    for k in range(0, n + 1):
        for tup in itertools.product(alphabet, repeat=k):
            yield "".join(tup)


def classify(text):
    """Features of a text that matter to the lexer's position bookkeeping."""
    f = set()
    if any(ord(c) > 127 for c in text):
        f.add("nonascii")
    if any(c in " \u0085  　    " for c in text):
        f.add("nonascii_ws")
    if "\n" in text:
        f.add("multiline")
    if '"' in text:
        f.add("quote")
    if "//" in text:
        f.add("comment")
    if "\r" in text:
        f.add("cr")
    if "\\" in text:
        f.add("backslash")
    return f
