import GardenVerif.Model.Types
/-
M8: the bidirectional type checker of src/checks/type_checker.rs for the fully annotated,
monomorphic, first-order core fragment, plus the two other `check` passes that can report an
ERROR on such programs (`check_loops`; `check_hints` cannot fire: hints are parsed into `Hint`,
which only has well-formed core types).

Transcribed arm by arm from `infer_expr_` / `check_expr_` / `check_block` / `infer_block` /
`check_match` / `check_match_exhaustive` / `infer_call` / `infer_var` / `infer_binary_op` /
`infer_int_binop` / `get_var_for_assignment` / `enum_payload_type` as they are in the tree the
patches `checker-fix-toplevel-let-scope`, `checker-fix-match-non-enum` and
`checker-fix-novalue-scrutinee-payload` produce. Where the Rust
gives up and returns `Error` / `Any` (thereby accepting), so does the model.

* `exp = none`  : `infer_expr`;  `exp = some E` : `check_expr(E, ·)` (E may be `Any`, which is NOT
  the same as inferring: the `If` arm of `check_expr_` returns `Any` then).
* Every function returns the diagnostics IT produced (severity Error only; warnings do not make
  `check` report an error) — the Rust appends to one vector, so the program is accepted iff all
  the pieces are `[]`.
* Bindings are threaded exactly as `LocalBindings` is mutated: `enter_block`/`exit_block` =
  push/pop, `set` = insert-or-overwrite in the innermost block.

No imports beyond M7 (the driver links this file).
-/

namespace Check

-- ------------------------------------------------------------------ syntax

/-- Type hints of the fragment (`TypeHint` restricted to the core types). -/
inductive Hint where
  | int | bool | str | unit
  | list (h : Hint)
  | option (h : Hint)
  | tuple (hs : List Hint)
  deriving Repr, Inhabited

def tInt : Ty := .user .struct "Int" []
def tStr : Ty := .user .struct "String" []
def tFloat : Ty := .user .struct "Float" []
def tBool : Ty := .user .enum "Bool" []
def tUnit : Ty := .user .enum "Unit" []
def tList (a : Ty) : Ty := .user .struct "List" [a]
def tOption (a : Ty) : Ty := .user .enum "Option" [a]

mutual
/-- `Type::from_hint` on the fragment's hints. -/
def Hint.toTy : Hint → Ty
  | .int => tInt
  | .bool => tBool
  | .str => tStr
  | .unit => tUnit
  | .list h => tList h.toTy
  | .option h => tOption h.toTy
  | .tuple hs => .tuple (Hint.toTys hs)
def Hint.toTys : List Hint → List Ty
  | [] => []
  | h :: hs => h.toTy :: Hint.toTys hs
end

inductive BinOp where
  | add | sub | mul | div | mod | pow | bitand | bitor
  | lt | le | gt | ge | eq | ne | and | or | concat
  deriving DecidableEq, Repr, Inhabited

mutual
/-- Expressions of the fragment, with the hints the Rust AST carries. The callee of a call is a
name (first-order fragment). `ifE c thn hasElse els`. -/
inductive TExpr where
  | int (v : Int64)
  | str (s : String)
  | var (name : String)
  | paren (e : TExpr)
  | binop (op : BinOp) (l r : TExpr)
  | letE (name : String) (hint : Option Hint) (e : TExpr)
  | assign (name : String) (e : TExpr)
  | update (isAdd : Bool) (name : String) (e : TExpr)
  | ifE (c : TExpr) (thn : List TExpr) (hasElse : Bool) (els : List TExpr)
  | whileE (c : TExpr) (body : List TExpr)
  | forE (name : String) (e : TExpr) (body : List TExpr)
  | matchE (scrut : TExpr) (cases : List Case)
  | ret (e : TExpr)
  | retUnit
  | brk
  | cont
  | list (items : List TExpr)
  | tuple (items : List TExpr)
  | call (fn : String) (args : List TExpr)
/-- `(Pattern, Block)`: variant name (`_` allowed), payload binder, body. -/
inductive Case where
  | mk (variant : String) (payload : Option String) (body : List TExpr)
end

instance : Inhabited TExpr := ⟨.retUnit⟩

structure FunDef where
  name : String
  params : List (String × Hint)
  ret : Hint
  body : List TExpr

/-- Toplevel items: function definitions and toplevel expressions (in source order). -/
structure Program where
  funs : List FunDef
  top : List TExpr

-- ------------------------------------------------------------------ bindings

/-- `LocalBindings.blocks` / the evaluator's `Bindings.block_bindings`, innermost block FIRST. -/
abbrev Blocks (α : Type) := List (List (String × α))

def lookupBlock {α : Type} : List (String × α) → String → Option α
  | [], _ => none
  | (k, v) :: rest, x => if k == x then some v else lookupBlock rest x

/-- `LocalBindings::get` / `Bindings::get`. -/
def lookupB {α : Type} : Blocks α → String → Option α
  | [], _ => none
  | b :: rest, x => match lookupBlock b x with
    | some v => some v
    | none => lookupB rest x

def setBlock {α : Type} : List (String × α) → String → α → List (String × α)
  | [], x, v => [(x, v)]
  | (k, w) :: rest, x, v => if k == x then (k, v) :: rest else (k, w) :: setBlock rest x v

/-- `LocalBindings::set` / `Bindings::add_new`: insert or overwrite in the innermost block. -/
def setB {α : Type} : Blocks α → String → α → Blocks α
  | [], _, _ => []
  | b :: rest, x, v => setBlock b x v :: rest

/-- `Bindings::set_existing`: overwrite in the innermost block that has the key. -/
def assignB {α : Type} : Blocks α → String → α → Blocks α
  | [], _, _ => []
  | b :: rest, x, v =>
    match lookupBlock b x with
    | some _ => setBlock b x v :: rest
    | none => b :: assignB rest x v

-- ------------------------------------------------------------------ diagnostics

/-- Kinds of Error-severity diagnostics the fragment can trigger. -/
inductive Diag where
  | mismatch          -- "Expected X but got Y" (check_expr_, check_block on an empty block)
  | unbound           -- "Unbound symbol"
  | notFunction       -- "Expected a function but got"
  | arity             -- arity_diagnostics
  | intOpOnFloat      -- "You can only use + for Int values. For Float values …"
  | plusOnString      -- "For String values, use ^ instead"
  | assignUnbound     -- "No such variable x. If you want to define a new local variable …"
  | assignFunction    -- "x is a function definition, which cannot be reassigned"
  | updateNotInt      -- "+= can only be used with Int variables"
  | ifElse            -- "if and else have incompatible types"
  | listElems         -- "List elements have different types"
  | returnUnit        -- "Expected this function to return X but got Unit"
  | matchNotEnum      -- "Expected an enum value but got" (checker-fix-match-non-enum)
  | matchMissing      -- "This match expression does not cover all the cases"
  | matchDuplicate    -- "Duplicate case in pattern match"
  | matchCases        -- "match cases have different types"
  | matchNoSuchType   -- "No such type" (pattern symbol unbound)
  | matchNotVariant   -- "Expected an enum variant here"
  | matchPayload      -- payload / no-payload pattern shape
  | matchWrongEnum    -- "This match case is for A, but you're matching on a B"
  | loopOutside       -- check_loops: break / continue outside a loop
  deriving DecidableEq, Repr, Inhabited

def Diag.toString : Diag → String
  | .mismatch => "mismatch" | .unbound => "unbound" | .notFunction => "not-function" | .arity => "arity"
  | .intOpOnFloat => "int-op-on-float" | .plusOnString => "plus-on-string"
  | .assignUnbound => "assign-unbound" | .assignFunction => "assign-function" | .updateNotInt => "update-not-int"
  | .ifElse => "if-else" | .listElems => "list-elems" | .returnUnit => "return-unit"
  | .matchNotEnum => "match-not-enum" | .matchMissing => "match-missing" | .matchDuplicate => "match-duplicate"
  | .matchCases => "match-cases" | .matchNoSuchType => "match-no-such-type" | .matchNotVariant => "match-not-variant"
  | .matchPayload => "match-payload" | .matchWrongEnum => "match-wrong-enum" | .loopOutside => "loop-outside"

-- ------------------------------------------------------------------ globals

/-- What a name denotes in the file's namespace (`get_var`): a user function, a prelude
function / constructor / constant of the fragment. -/
inductive Global where
  | fn (params : List Ty) (ret : Ty)
  | someC
  | printLike
  | stringRepr
  | val (T : Ty)

def findFun (P : Program) (x : String) : Option FunDef := P.funs.find? (fun f => f.name == x)

def paramTys (f : FunDef) : List Ty := f.params.map (fun p => p.2.toTy)

def globalOf (P : Program) (x : String) : Option Global :=
  match findFun P x with
  | some f => some (.fn (paramTys f) f.ret.toTy)
  | none =>
    if x == "Some" then some .someC
    else if x == "None" then some (.val (tOption Ty.noValue))
    else if x == "True" || x == "False" then some (.val tBool)
    else if x == "Unit" then some (.val tUnit)
    else if x == "println" || x == "print" then some .printLike
    else if x == "string_repr" then some .stringRepr
    else none

/-- `Type::from_value` of a namespace value. -/
def Global.ty (x : String) : Global → Ty
  | .fn ps r => .fn (some x) [] ps r
  | .someC => .fn none ["T"] [.param "T"] (.user .enum "Option" [.param "T"])
  | .printLike => .fn (some x) [] [tStr] tUnit
  | .stringRepr => .fn (some x) ["T"] [.param "T"] tStr
  | .val T => T

abbrev TC := Ty × Blocks Ty × List Diag

/-- `infer_var`. An unbound symbol is bound to `Error` in the current block ("to prevent
cascading errors"). -/
def inferVar (P : Program) (Γ : Blocks Ty) (x : String) : TC :=
  match lookupB Γ x with
  | some T => (T, Γ, [])
  | none => match globalOf P x with
    | some g => (g.ty x, Γ, [])
    | none => (.err, setB Γ x .err, [.unbound])

/-- `get_var_for_assignment`. -/
def varForAssign (P : Program) (Γ : Blocks Ty) (x : String) : TC :=
  match lookupB Γ x with
  | some T => (T, Γ, [])
  | none => match globalOf P x with
    | some g => (g.ty x, Γ, [.assignFunction])
    | none => (.err, setB Γ x .err, [.assignUnbound])

/-- The tail of `check_expr_`: `if !is_subtype(ty, expected) { diagnostic; ty = Error }`. -/
def fin (exp : Option Ty) (T : Ty) (Γ : Blocks Ty) (d : List Diag) : TC :=
  match exp with
  | none => (T, Γ, d)
  | some E => if Ty.sub T E then (T, Γ, d) else (.err, Γ, d ++ [.mismatch])

/-- `Type::type_name`. -/
def tyName : Ty → Option String
  | .any | .err | .tuple _ => none
  | .fn .. => some "Fun"
  | .user _ n _ => some n
  | .param n => some n

/-- Variants of the prelude enums a fragment value can have: (name, has payload). -/
def enumVariants (n : String) : Option (List (String × Bool)) :=
  if n == "Option" then some [("Some", true), ("None", false)]
  else if n == "Bool" then some [("True", false), ("False", false)]
  else if n == "Unit" then some [("Unit", false)]
  else if n == "Result" then some [("Ok", true), ("Err", true)]
  else if n == "NoValue" then some []
  else none

/-- The enum a pattern symbol belongs to and whether it is a constructor (`get_var` in
`check_match`: only the namespace is consulted, not the local bindings). -/
def variantOf (P : Program) (v : String) : Option (Option (String × Bool)) :=
  match findFun P v with
  | some _ => some none          -- a function: "Expected an enum variant here"
  | none =>
    if v == "Some" then some (some ("Option", true))
    else if v == "None" then some (some ("Option", false))
    else if v == "True" || v == "False" then some (some ("Bool", false))
    else if v == "Unit" then some (some ("Unit", false))
    else if v == "Ok" || v == "Err" then some (some ("Result", true))
    else if v == "println" || v == "print" || v == "string_repr" then some none
    else none

/-- `check_match_exhaustive` (Error diagnostics only). `remaining` = variants not yet seen. -/
def exhaustLoop (remaining : List String) (sawUnderscore : Bool) : List String → List Diag × List String × Bool
  | [] => ([], remaining, sawUnderscore)
  | v :: rest =>
    if sawUnderscore then exhaustLoop remaining true rest      -- warning only
    else if v == "_" then exhaustLoop remaining true rest
    else if remaining.contains v then exhaustLoop (remaining.filter (· != v)) false rest
    else
      let (d, rem, u) := exhaustLoop remaining false rest
      (.matchDuplicate :: d, rem, u)

def exhaustive (scrutName : String) (caseNames : List String) : List Diag :=
  match enumVariants scrutName with
  | none => []
  | some variants =>
    if variants.isEmpty then [] else
    let (d, remaining, u) := exhaustLoop (variants.map (·.1)) false caseNames
    if u then d else if remaining.isEmpty then d else d ++ [.matchMissing]

/-- `enum_payload_type` on the fragment (a `NoValue` scrutinee gives `NoValue` payloads:
checker-fix-novalue-scrutinee-payload). -/
def payloadTy (scrut : Ty) (variant : String) : Ty :=
  if scrut.isNoValue then Ty.noValue else
  match scrut with
  | .user _ n args =>
    match enumVariants n with
    | none => .err
    | some variants =>
      match variants.find? (fun p => p.1 == variant) with
      | none => .err
      | some (_, false) => .err
      | some (_, true) =>
        if n == "Option" then (match args with | a :: _ => a | [] => .err)
        else if n == "Result" then
          (if variant == "Ok" then (match args with | a :: _ => a | [] => .err)
           else (match args with | _ :: b :: _ => b | _ => .err))
        else .err
  | _ => .err

/-- The per-case pattern diagnostics of `check_match` (after the case body was checked). -/
def patternDiags (P : Program) (scrutName : Option String) (variant : String) (hasPayload : Bool) : List Diag :=
  if variant == "_" then [] else
  match variantOf P variant with
  | none => [.matchNoSuchType]
  | some none => [.matchNotVariant]
  | some (some (en, ctor)) =>
    (if hasPayload != ctor then [.matchPayload] else []) ++
    (match scrutName with
     | none => []
     | some sn => if sn == "NoValue" then [] else if en != sn then [.matchWrongEnum] else [])

def _root_.Ty.isTuple : Ty → Bool
  | .tuple _ => true
  | _ => false

/-- `scrutinee_is_enum` of checker-fix-match-non-enum (the diagnostic is only emitted when no
pattern diagnostic would be: all cases are `_`, or the scrutinee is a tuple). -/
def scrutIsEnum : Ty → Bool
  | .user _ n _ => (enumVariants n).isSome
  | .tuple _ | .fn .. => false
  | .any | .param _ | .err => true

def unifyAllOr (ts : List Ty) (dflt : Ty) : Ty :=
  match Ty.unifyAll ts with
  | .ok T => T
  | .error _ => dflt

def isIntArith : BinOp → Bool
  | .add | .sub | .mul | .div | .mod | .pow | .bitand | .bitor => true
  | _ => false

def hasFloatTwin : BinOp → Bool
  | .add | .sub | .mul | .div => true
  | _ => false

/-- The operand tests of `infer_int_binop` once both operand types are known. -/
def intBinopTy (op : BinOp) (lt rt : Ty) : Ty × List Diag :=
  if hasFloatTwin op && Ty.subNotError lt tFloat && Ty.subNotError rt tFloat then (.err, [.intOpOnFloat])
  else if op == .add && Ty.subNotError lt tStr && Ty.subNotError rt tStr then (.err, [.plusOnString])
  else (tInt, (if Ty.sub lt tInt then [] else [.mismatch]) ++ (if Ty.sub rt tInt then [] else [.mismatch]))

/-- The receiver/argument logic of `infer_call` once the argument types are known
(`Some` and `string_repr` are the only generic callees: `T` is solved to the argument's type, so
the argument test `is_subtype(arg, arg)` always passes). -/
def callTy (P : Program) (Γ : Blocks Ty) (f : String) (argTys : List Ty) : Ty × Blocks Ty × List Diag :=
  match lookupB Γ f with
  | some T =>
    -- a local: in the fragment it never has a function type
    (match T with
     | .err => (.err, Γ, [])
     | .fn _ _ ps r =>
        if ps.length == argTys.length then
          (r, Γ, (List.zip ps argTys).filterMap (fun pa => if Ty.sub pa.2 pa.1 then none else some Diag.mismatch))
        else (r, Γ, [.arity])
     | _ => if T.isNoValue then (Ty.noValue, Γ, []) else (.err, Γ, [.notFunction]))
  | none =>
    match globalOf P f with
    | none => (.err, setB Γ f .err, [.unbound])
    | some (.fn ps r) =>
        if ps.length == argTys.length then
          (r, Γ, (List.zip ps argTys).filterMap (fun pa => if Ty.sub pa.2 pa.1 then none else some Diag.mismatch))
        else (r, Γ, [.arity])
    | some .printLike =>
        (match argTys with
         | [a] => (tUnit, Γ, if Ty.sub a tStr then [] else [.mismatch])
         | _ => (tUnit, Γ, [.arity]))
    | some .stringRepr =>
        (match argTys with
         | [_] => (tStr, Γ, [])
         | _ => (tStr, Γ, [.arity]))
    | some .someC =>
        (match argTys with
         | [a] => (tOption a, Γ, [])
         | [] => (tOption Ty.noValue, Γ, [.arity])
         | a :: _ => (tOption a, Γ, [.arity]))
    | some (.val T) =>
        if T.isNoValue then (Ty.noValue, Γ, []) else (.err, Γ, [.notFunction])

def forElemTy : Ty → Ty
  | .user _ n args => if n == "List" then (match args with | a :: _ => a | [] => .err) else .err
  | _ => .err

/-- The expected element type if `check_expr_`'s list-literal arm applies. -/
def listExpected : Option Ty → Option Ty
  | some (.user .struct n [a]) => if n == "List" then some a else none
  | _ => none

/-- `match expected_ty { Type::Any => infer…, _ => check… }` in `check_match`. -/
def matchMode : Option Ty → Option Ty
  | none => none
  | some .any => none
  | some E => some E

-- ------------------------------------------------------------------ the checker

mutual
/-- `infer_expr` (`exp = none`) / `check_expr` (`exp = some E`). `ret` = `expected_return_ty`. -/
def tcExpr (P : Program) (ret : Ty) (exp : Option Ty) (Γ : Blocks Ty) : TExpr → TC
  | .int _ => fin exp tInt Γ []
  | .str _ => fin exp tStr Γ []
  | .var x =>
    let (T, Γ1, d) := inferVar P Γ x
    fin exp T Γ1 d
  | .paren e =>
    let (T, Γ1, d) := tcExpr P ret none Γ e
    fin exp T Γ1 d
  | .binop op l r =>
    if isIntArith op then
      let (lt, Γ1, d1) := tcExpr P ret none Γ l
      let (rt, Γ2, d2) := tcExpr P ret none Γ1 r
      let (T, d3) := intBinopTy op lt rt
      fin exp T Γ2 (d1 ++ d2 ++ d3)
    else if op == .eq || op == .ne then
      let (_, Γ1, d1) := tcExpr P ret none Γ l
      let (_, Γ2, d2) := tcExpr P ret none Γ1 r
      fin exp tBool Γ2 (d1 ++ d2)
    else
      let (opnd, res) :=
        if op == .and || op == .or then (tBool, tBool)
        else if op == .concat then (tStr, tStr)
        else (tInt, tBool)
      let (_, Γ1, d1) := tcExpr P ret (some opnd) Γ l
      let (_, Γ2, d2) := tcExpr P ret (some opnd) Γ1 r
      fin exp res Γ2 (d1 ++ d2)
  | .letE x hint e =>
    match hint with
    | some h =>
      let (_, Γ1, d1) := tcExpr P ret (some h.toTy) Γ e
      fin exp tUnit (setB Γ1 x h.toTy) d1
    | none =>
      let (T, Γ1, d1) := tcExpr P ret none Γ e
      fin exp tUnit (setB Γ1 x T) d1
  | .assign x e =>
    let (T, Γ1, d1) := varForAssign P Γ x
    let (_, Γ2, d2) := tcExpr P ret (some T) Γ1 e
    fin exp tUnit Γ2 (d1 ++ d2)
  | .update _ x e =>
    let (T, Γ1, d1) := varForAssign P Γ x
    let d1' := if Ty.sub T tInt then [] else [Diag.updateNotInt]
    let (_, Γ2, d2) := tcExpr P ret (some tInt) Γ1 e
    fin exp tUnit Γ2 (d1 ++ d1' ++ d2)
  | .ifE c thn hasElse els =>
    let (_, Γ1, d1) := tcExpr P ret (some tBool) Γ c
    if hasElse then
      match exp with
      | none =>
        let (tt, Γ2, d2) := tcSeq P ret none ([] :: Γ1) thn
        let (te, Γ3, d3) := tcSeq P ret none ([] :: Γ2.tail) els
        match Ty.unify tt te with
        | some T => (T, Γ3.tail, d1 ++ d2 ++ d3)
        | none => (.err, Γ3.tail, d1 ++ d2 ++ d3 ++ [.ifElse])
      | some E =>
        let (_, Γ2, d2) := tcSeq P ret (some E) ([] :: Γ1) thn
        let (_, Γ3, d3) := tcSeq P ret (some E) ([] :: Γ2.tail) els
        fin exp E Γ3.tail (d1 ++ d2 ++ d3)
    else
      let (_, Γ2, d2) := tcSeq P ret none ([] :: Γ1) thn
      fin exp tUnit Γ2.tail (d1 ++ d2)
  | .whileE c body =>
    let (_, Γ1, d1) := tcExpr P ret (some tBool) Γ c
    let (_, Γ2, d2) := tcSeq P ret none ([] :: Γ1) body
    fin exp tUnit Γ2.tail (d1 ++ d2)
  | .forE x e body =>
    let (Te, Γ1, d1) := tcExpr P ret (some (tList .any)) Γ e
    let Γb := setB ([] :: Γ1) x (forElemTy Te)
    let (_, Γ2, d2) := tcSeq P ret none ([] :: Γb) body
    fin exp tUnit Γ2.tail.tail (d1 ++ d2)
  | .matchE scrut cases =>
    let (Ts, Γ1, d1) := tcExpr P ret none Γ scrut
    let d2 := if !(scrutIsEnum Ts) && (allUnderscore cases || Ts.isTuple) then [Diag.matchNotEnum] else []
    let d3 := match tyName Ts with
      | some n => exhaustive n (caseNames cases)
      | none => []
    let (tys, Γ2, d4) := tcCases P ret (matchMode exp) Ts Γ1 cases
    match matchMode exp with
    | none =>
      (match Ty.unifyAll tys with
       | .ok T => fin exp T Γ2 (d1 ++ d2 ++ d3 ++ d4)
       | .error _ => fin exp .err Γ2 (d1 ++ d2 ++ d3 ++ d4 ++ [.matchCases]))
    | some E =>
      (match Ty.unifyAll tys with
       | .ok T => fin exp (if T.isNoValue then E else T) Γ2 (d1 ++ d2 ++ d3 ++ d4)
       | .error _ => fin exp E Γ2 (d1 ++ d2 ++ d3 ++ d4))
  | .ret e =>
    let (_, Γ1, d1) := tcExpr P ret (some ret) Γ e
    fin exp Ty.noValue Γ1 d1
  | .retUnit => fin exp Ty.noValue Γ (if Ty.sub tUnit ret then [] else [.returnUnit])
  | .brk => fin exp Ty.noValue Γ []
  | .cont => fin exp Ty.noValue Γ []
  | .list items =>
    match listExpected exp with
    | some a =>
      let (tys, Γ1, d1) := tcItems P ret (some a) Γ items
      fin exp (tList (unifyAllOr tys .err)) Γ1 d1
    | none =>
      let (tys, Γ1, d1) := tcItems P ret none Γ items
      (match Ty.unifyAll tys with
       | .ok T => fin exp (tList T) Γ1 d1
       | .error _ => fin exp (tList .any) Γ1 (d1 ++ [.listElems]))
  | .tuple items =>
    let (tys, Γ1, d1) := tcItems P ret none Γ items
    fin exp (.tuple tys) Γ1 d1
  | .call f args =>
    -- `infer_expr(recv)` first (it may bind an unbound name), then the arguments in order
    let (tys, Γ1, d1) := tcItems P ret none Γ args
    let (T, Γ2, d2) := callTy P Γ1 f tys
    fin exp T Γ2 (d1 ++ d2)
/-- The expressions of a block inside an already entered scope (`infer_block` / `check_block`
without the `enter_block` / `exit_block`): only the LAST expression is checked against `exp`;
an empty block is `Unit`. -/
def tcSeq (P : Program) (ret : Ty) (exp : Option Ty) (Γ : Blocks Ty) : List TExpr → TC
  | [] => (tUnit, Γ, match exp with
      | some E => if Ty.sub tUnit E then [] else [.mismatch]
      | none => [])
  | [e] => tcExpr P ret exp Γ e
  | e :: e2 :: rest =>
    let (_, Γ1, d1) := tcExpr P ret none Γ e
    let (T, Γ2, d2) := tcSeq P ret exp Γ1 (e2 :: rest)
    (T, Γ2, d1 ++ d2)
/-- List / tuple items and call arguments, left to right. -/
def tcItems (P : Program) (ret : Ty) (exp : Option Ty) (Γ : Blocks Ty) : List TExpr → List Ty × Blocks Ty × List Diag
  | [] => ([], Γ, [])
  | e :: rest =>
    let (T, Γ1, d1) := tcExpr P ret exp Γ e
    let (Ts, Γ2, d2) := tcItems P ret exp Γ1 rest
    (T :: Ts, Γ2, d1 ++ d2)
/-- The case loop of `check_match`. -/
def tcCases (P : Program) (ret : Ty) (mode : Option Ty) (Ts : Ty) (Γ : Blocks Ty) : List Case → List Ty × Blocks Ty × List Diag
  | [] => ([], Γ, [])
  | .mk variant payload body :: rest =>
    let Γp := match payload with
      | some x => setB ([] :: Γ) x (payloadTy Ts variant)
      | none => [] :: Γ
    let (T, Γ1, d1) := tcSeq P ret mode ([] :: Γp) body
    let d2 := patternDiags P (tyName Ts) variant payload.isSome
    let (Tr, Γ2, d3) := tcCases P ret mode Ts Γ1.tail.tail rest
    (T :: Tr, Γ2, d1 ++ d2 ++ d3)
/-- `cases.iter().all(|(pattern, _)| pattern.variant_sym.name.is_underscore())`. -/
def allUnderscore : List Case → Bool
  | [] => true
  | .mk v _ _ :: rest => v == "_" && allUnderscore rest
/-- Pattern symbols of the cases, in order. -/
def caseNames : List Case → List String
  | [] => []
  | .mk v _ _ :: rest => v :: caseNames rest
end

-- ------------------------------------------------------------------ check_loops

mutual
/-- `check_loops`: `break` / `continue` outside `while` / `for`. -/
def loopDiags (inLoop : Bool) : TExpr → List Diag
  | .int _ | .str _ | .var _ | .retUnit => []
  | .brk | .cont => if inLoop then [] else [.loopOutside]
  | .paren e | .letE _ _ e | .assign _ e | .update _ _ e | .ret e => loopDiags inLoop e
  | .binop _ l r => loopDiags inLoop l ++ loopDiags inLoop r
  | .ifE c thn _ els => loopDiags inLoop c ++ loopDiagsL inLoop thn ++ loopDiagsL inLoop els
  | .whileE c body => loopDiags inLoop c ++ loopDiagsL true body
  | .forE _ e body => loopDiags inLoop e ++ loopDiagsL true body
  | .matchE s cases => loopDiags inLoop s ++ loopDiagsC inLoop cases
  | .list items | .tuple items | .call _ items => loopDiagsL inLoop items
def loopDiagsL (inLoop : Bool) : List TExpr → List Diag
  | [] => []
  | e :: rest => loopDiags inLoop e ++ loopDiagsL inLoop rest
def loopDiagsC (inLoop : Bool) : List Case → List Diag
  | [] => []
  | .mk _ _ body :: rest => loopDiagsL inLoop body ++ loopDiagsC inLoop rest
end

-- ------------------------------------------------------------------ the program

def paramBlock (f : FunDef) : List (String × Ty) :=
  f.params.foldl (fun b p => setBlock b p.1 p.2.toTy) []

/-- `visit_fun_info` with the toplevel's locals hidden (checker-fix-toplevel-let-scope):
`enter_block`, bind the parameters, `check_block(return_ty, body)`. -/
def checkFun (P : Program) (f : FunDef) : List Diag :=
  (tcSeq P f.ret.toTy (some f.ret.toTy) ([] :: [paramBlock f, []]) f.body).2.2 ++ loopDiagsL false f.body

def checkFuns (P : Program) : List FunDef → List Diag
  | [] => []
  | f :: rest => checkFun P f ++ checkFuns P rest

/-- `visit_toplevel_expr` for each toplevel expression, sharing one scope. -/
def checkTop (P : Program) (Γ : Blocks Ty) : List TExpr → List Diag
  | [] => []
  | e :: rest =>
    let (_, Γ1, d) := tcExpr P .any none Γ e
    d ++ loopDiags false e ++ checkTop P Γ1 rest

/-- All Error diagnostics of `garden check` on a fragment program. -/
def check (P : Program) : List Diag := checkFuns P P.funs ++ checkTop P [[]] P.top

-- ------------------------------------------------------------------ the fragment

def reservedNames : List String :=
  ["Some", "None", "True", "False", "Unit", "Ok", "Err", "println", "print", "string_repr", "_"]

def isGlobalName (P : Program) (x : String) : Bool := (findFun P x).isSome || reservedNames.contains x

def isValueGlobal (x : String) : Bool := x == "None" || x == "True" || x == "False" || x == "Unit"

def isItemIf : TExpr → Bool
  | .ifE _ _ true _ => true
  | _ => false

mutual
/-- Syntactic side conditions of the fragment (decidable):
* binders (let / for / match payload) are not names of functions, prelude values or `_`;
* a variable in value position is a local or one of `None`/`True`/`False`/`Unit` (first order);
* a callee is a function of the program, `Some`, `println`, `print` or `string_repr`;
* match cases use the variants `Some`/`None`/`True`/`False`/`Unit`/`_`;
* a list literal that is directly the iterable of a `for` has no direct `if … else` item
  (known finding C16/any-from-checked-if: `check_expr_`'s `If` arm returns the expected type `Any`
  there, and `Any` is then accepted as a `match` scrutinee). -/
def fragE (P : Program) : TExpr → Bool
  | .int _ | .str _ | .retUnit | .brk | .cont => true
  | .var x => !(isGlobalName P x) || isValueGlobal x
  | .paren e | .ret e => fragE P e
  | .binop _ l r => fragE P l && fragE P r
  | .letE x _ e => !(isGlobalName P x) && fragE P e
  | .assign x e => !(isGlobalName P x) && fragE P e
  | .update _ x e => !(isGlobalName P x) && fragE P e
  | .ifE c thn _ els => fragE P c && fragL P thn && fragL P els
  | .whileE c body => fragE P c && fragL P body
  | .forE x e body =>
    !(isGlobalName P x) && fragE P e && fragL P body &&
      (match e with
       | .list items => !(items.any isItemIf)
       | _ => true)
  | .matchE s cases => fragE P s && fragC P cases
  | .list items | .tuple items => fragL P items
  | .call f args =>
    ((findFun P f).isSome || f == "Some" || f == "println" || f == "print" || f == "string_repr") && fragL P args
def fragL (P : Program) : List TExpr → Bool
  | [] => true
  | e :: rest => fragE P e && fragL P rest
def fragC (P : Program) : List Case → Bool
  | [] => true
  | .mk v payload body :: rest =>
    (v == "Some" || v == "None" || v == "True" || v == "False" || v == "Unit" || v == "_") &&
    (match payload with | some x => !(isGlobalName P x) | none => true) &&
    fragL P body && fragC P rest
end

def distinctNames : List String → Bool
  | [] => true
  | x :: rest => !(rest.contains x) && distinctNames rest

/-- Every function is fully annotated by construction of `FunDef`; in addition: function names
are distinct and not prelude names, parameter names are distinct and not global names, and all
bodies and toplevel expressions satisfy `fragE`. Toplevel expressions contain no `return`. -/
def fragFun (P : Program) (f : FunDef) : Bool :=
  !(reservedNames.contains f.name) &&
  distinctNames (f.params.map (·.1)) &&
  f.params.all (fun p => !(isGlobalName P p.1)) &&
  fragL P f.body

mutual
def hasRet : TExpr → Bool
  | .ret _ | .retUnit => true
  | .int _ | .str _ | .var _ | .brk | .cont => false
  | .paren e | .letE _ _ e | .assign _ e | .update _ _ e => hasRet e
  | .binop _ l r => hasRet l || hasRet r
  | .ifE c thn _ els => hasRet c || hasRetL thn || hasRetL els
  | .whileE c body | .forE _ c body => hasRet c || hasRetL body
  | .matchE s cases => hasRet s || hasRetC cases
  | .list items | .tuple items | .call _ items => hasRetL items
def hasRetL : List TExpr → Bool
  | [] => false
  | e :: rest => hasRet e || hasRetL rest
def hasRetC : List Case → Bool
  | [] => false
  | .mk _ _ body :: rest => hasRetL body || hasRetC rest
end

-- ------------------------------------------------------------------ the fragment of the soundness theorem

/-- Iterables of `for` whose type is inferred and then compared with `List<Any>` (a variable, a
call, a parenthesised expression): for list literals / `if` / `match` in that position the checker
computes lossy types (known findings C16/any-from-checked-if, C16/error-from-checked-list). -/
def iterOK : TExpr → Bool
  | .var _ | .call _ _ | .paren _ => true
  | _ => false

mutual
/-- The fragment of `check_sound_fragment`, indexed by a bound on the nesting depth (so that all
proofs are inductions on a natural number). `let` only as a block statement. -/
def okE (P : Program) : Nat → TExpr → Bool
  | 0, _ => false
  | d + 1, e =>
    match e with
    | .int _ | .str _ | .retUnit | .brk | .cont => true
    | .var x => (isValueGlobal x && (findFun P x).isNone) || !(isGlobalName P x)
    | .paren e | .ret e | .assign _ e | .update _ _ e => okE P d e
    | .binop _ l r => okE P d l && okE P d r
    | .letE _ _ _ => false
    | .ifE c thn _ els => okE P d c && okL P d thn && okL P d els
    | .whileE c body => okE P d c && okL P d body
    | .forE _ e body => iterOK e && okE P d e && okL P d body
    | .matchE s cases => okE P d s && okC P d cases
    | .list items | .tuple items | .call _ items => okA P d items
def okL (P : Program) : Nat → List TExpr → Bool
  | 0, _ => false
  | _ + 1, [] => true
  | d + 1, e :: rest =>
    (match e with
     | .letE _ _ e' => okE P d e'
     | _ => okE P d e) && okL P d rest
def okA (P : Program) : Nat → List TExpr → Bool
  | 0, _ => false
  | _ + 1, [] => true
  | d + 1, e :: rest => okE P d e && okA P d rest
def okC (P : Program) : Nat → List Case → Bool
  | 0, _ => false
  | _ + 1, [] => true
  | d + 1, .mk v payload body :: rest => (v != "_" || payload.isNone) && okL P d body && okC P d rest
end

/-- A block statement: a `let`, or an expression of the fragment. -/
def okS (P : Program) (d : Nat) (e : TExpr) : Bool :=
  match e with
  | .letE _ _ e' => okE P d e'
  | _ => okE P d e


mutual
/-- Number of nodes (a sufficient nesting-depth bound for `okE`). -/
def sizeE : TExpr → Nat
  | .int _ | .str _ | .var _ | .retUnit | .brk | .cont => 1
  | .paren e | .ret e | .letE _ _ e | .assign _ e | .update _ _ e => sizeE e + 1
  | .binop _ l r => sizeE l + sizeE r + 1
  | .ifE c thn _ els => sizeE c + sizeL thn + sizeL els + 1
  | .whileE c body | .forE _ c body => sizeE c + sizeL body + 1
  | .matchE s cases => sizeE s + sizeC cases + 1
  | .list items | .tuple items | .call _ items => sizeL items + 1
def sizeL : List TExpr → Nat
  | [] => 1
  | e :: rest => sizeE e + sizeL rest + 1
def sizeC : List Case → Nat
  | [] => 1
  | .mk _ _ body :: rest => sizeL body + sizeC rest + 1
end

def progSize (P : Program) : Nat :=
  (P.funs.map (fun f => sizeL f.body)).foldl (· + ·) (sizeL P.top) + 1

/-- Membership of a whole program in the fragment of `check_sound_fragment` (depth bound `D`):
function bodies are blocks of the fragment, toplevel expressions are block statements. -/
def fragmentD (P : Program) (D : Nat) : Bool :=
  P.funs.all (fun f => okL P D f.body) && P.top.all (fun e => okS P D e)

/-- The hypothesis of `check_sound_fragment`. Every function is fully annotated by construction
of `FunDef`; `fragmentD` is what the proof uses; the remaining conjuncts (distinct, non-reserved
names, no toplevel `return`, …) are the conditions under which M8 / the reference semantics were
transcribed and are tied to the implementation by the correspondence. -/
def fullyAnnotated (P : Program) : Bool :=
  fragmentD P (progSize P) &&
  distinctNames (P.funs.map (·.name)) &&
  P.funs.all (fragFun P) &&
  fragL P P.top && !(hasRetL P.top)

end Check
