import GardenVerif.Driver.Validators
import GardenVerif.Model.Extract
/-! Driver ops of C21 / C20 (certified validators, DESIGN §3 (V)).

* `dbgwrap_check <target id> <astx before> <astx after>` (C21): evaluate `dbgwrapCheck` (is the after-tree,
  up to ids / flags, the before-tree with exactly the node `target` wrapped in `dbg(…)`?), `dbgFree`
  (hypothesis of `dbg_identity_partial`) and whether the program is closure-free:
  `OK (dbgwrap <check> <dbgfree> <closurefree> <nodes with that id>)`.
* `annot_check <astx before> <astx after>` (C21): type hints are removed from both dumps (the slots are
  compared separately, in textual order: every `let`, parameter and return type is a slot), then
  `annotCheck` on the hint-free trees: `OK (annot <check> <slots before> <slots after> (changed <i>:<old>:<new> …))`.
* `hoist_check <target id> <name> <astx before> <astx after>` and
  `funext_check <target id> <name> <astx before> <astx after>` (C20): see Model/Extract.lean part 2.
-/

namespace DriverExtract
open Machine (Expr Case Dest Program FunDef)
open Validators Extract DriverValidators

/-- Hint slots in textual order, and the dump with every slot emptied. -/
partial def unhint : Sexp → Sexp × List (Option String)
  | .atom a => if a == "nohint" then (.atom a, [none]) else (.atom a, [])
  | .list (.atom "hint" :: rest) =>
      (.atom "nohint", [some (match rest with | .atom t :: _ => t | _ => "")])
  | .list (.atom "var" :: rest) => (.list (.atom "var" :: rest), [])
  | .list (.atom "sym" :: rest) => (.list (.atom "sym" :: rest), [])
  | .list (.atom "destr" :: rest) => (.list (.atom "destr" :: rest), [])
  | .list (.atom "enum" :: rest) => (.list (.atom "enum" :: rest), [])
  | .list [.atom "assign", i, u, n, e] => let r := unhint e; (.list [.atom "assign", i, u, n, r.1], r.2)
  | .list [.atom "update", i, u, k, n, e] => let r := unhint e; (.list [.atom "update", i, u, k, n, r.1], r.2)
  | .list [.atom "p", n, .atom "hint"] => (.list [.atom "p", n, .atom "nohint"], [some ""])
  | .list [.atom "p", n, h] => let r := unhint h; (.list [.atom "p", n, r.1], r.2)
  | .list [.atom "case", v, d, b] =>
      let rd := unhint d; let rb := unhint b
      (.list [.atom "case", v, rd.1, rb.1], rd.2 ++ rb.2)
  | .list [.atom "lambda", i, u, ps, .atom "hint", b] =>
      let rp := unhint ps; let rb := unhint b
      (.list [.atom "lambda", i, u, rp.1, .atom "nohint", rb.1], rp.2 ++ [some ""] ++ rb.2)
  | .list (.atom "fun" :: name :: rest) =>
      let rs := rest.map unhint
      (.list (.atom "fun" :: name :: rs.map (·.1)), rs.flatMap (·.2))
  | .list items =>
      let rs := items.map unhint
      (.list (rs.map (·.1)), rs.flatMap (·.2))

def slotStr : Option String → String
  | none => "-"
  | some t => if t == "" then "s:" else t

def changedSlots : Nat → List (Option String) → List (Option String) → List String
  | i, a :: as, b :: bs =>
      (if a == b then [] else [s!"{i}:{slotStr a}:{slotStr b}"]) ++ changedSlots (i + 1) as bs
  | _, _, _ => []

def handleDbgwrap (rest : String) : String :=
  match rest.splitOn " " with
  | target :: sexpParts =>
    match target.toNat?, Sexp.parseAll (" ".intercalate sexpParts) with
    | some t, some [sa, sb] =>
      if parseErrs sa != 0 || parseErrs sb != 0 then "OK (dbgwrap parse-error)" else
      match parseProg (unhint sa).1, parseProg (unhint sb).1 with
      | some pa, some pb =>
        match pa.unsupported, pb.unsupported with
        | none, none =>
          let chk := dbgwrapCheck pa.prog pb.prog t
          s!"OK (dbgwrap {b01 chk} {b01 (dbgFree pa.prog)} {b01 (!progHasLambda pa.prog)} {hitsProg t pa.prog})"
        | _, _ => "OK (dbgwrap unsupported)"
      | _, _ => "ERR bad-astx"
    | _, _ => "ERR bad-args"
  | _ => "ERR args"

def handleAnnot (rest : String) : String :=
  match Sexp.parseAll rest with
  | some [sa, sb] =>
    if parseErrs sa != 0 || parseErrs sb != 0 then "OK (annot parse-error)" else
    let ua := unhint sa
    let ub := unhint sb
    match parseProg ua.1, parseProg ub.1 with
    | some pa, some pb =>
      let chk := annotCheck pa.prog pb.prog
      let ch := changedSlots 0 ua.2 ub.2
      s!"OK (annot {b01 chk} {ua.2.length} {ub.2.length} (changed{String.join (ch.map fun c => " " ++ c)}))"
    | _, _ => "ERR bad-astx"
  | _ => "ERR bad-sexp"

mutual
partial def findNode (t : Nat) (e : Expr) : Option Expr :=
  if e.id == t then some e else
  match e with
  | .binop _ _ _ l r => (findNode t l).or (findNode t r)
  | .letE _ _ _ x => findNode t x
  | .assign _ _ _ x => findNode t x
  | .update _ _ _ _ x => findNode t x
  | .ifE _ _ c th el => ((findNode t c).or (findNodeL t th)).or (match el with | some b => findNodeL t b | none => none)
  | .whileE _ _ c b => (findNode t c).or (findNodeL t b)
  | .forE _ _ _ x b => (findNode t x).or (findNodeL t b)
  | .matchE _ _ x cs => (findNode t x).or (cs.findSome? fun | .mk _ _ b => findNodeL t b)
  | .ret _ _ (some x) => findNode t x
  | .list _ _ es => findNodeL t es
  | .tuple _ _ es => findNodeL t es
  | .call _ _ r as => (findNode t r).or (findNodeL t as)
  | .lambda _ _ _ b => findNodeL t b
  | .paren _ _ x => findNode t x
  | _ => none
partial def findNodeL (t : Nat) (es : List Expr) : Option Expr := es.findSome? (findNode t)
end

def findNodeP (t : Nat) (p : Program) : Option Expr :=
  (p.funs.findSome? fun d => findNodeL t d.body).or (findNodeL t p.toplevel)

def pureAt (t : Nat) (p : Program) : Bool :=
  match findNodeP t p with
  | some e => pureE (ctorsOf p) e
  | none => false

/-- `hoist_check <target id> <name> <astx before> <astx after>`:
`OK (extract <schema> <Pure e> <nodes with that id> <name fresh> <side conditions of the soundness theorem> (params …))`. -/
def handleHoist (rest : String) (isFun : Bool) : String :=
  match rest.splitOn " " with
  | target :: name :: sexpParts =>
    match target.toNat?, Sexp.parseAll (" ".intercalate sexpParts) with
    | some t, some [sa, sb] =>
      if parseErrs sa != 0 || parseErrs sb != 0 then "OK (extract parse-error)" else
      match parseProg (unhint sa).1, parseProg (unhint sb).1 with
      | some pa, some pb =>
        match pa.unsupported, pb.unsupported with
        | none, none =>
          let p := pa.prog
          let chk := if isFun then funextCheck p pb.prog t name else hoistCheck p pb.prog t name
          let ps := match pb.prog.funs.find? (fun d => d.name == name) with
            | some d => String.join (d.params.map fun x => " " ++ x)
            | none => ""
          let safe := if isFun then funSafe p pb.prog t name else hoistSafe t name p
          s!"OK (extract {b01 chk} {b01 (pureAt t p)} {hitsProg t p} {b01 (freshProg name p)} {b01 safe} (params{ps}))"
        | _, _ => "OK (extract unsupported)"
      | _, _ => "ERR bad-astx"
    | _, _ => "ERR bad-args"
  | _ => "ERR args"

def handle (op : String) (rest : String) : Option String :=
  if op == "dbgwrap_check" then some (handleDbgwrap rest)
  else if op == "annot_check" then some (handleAnnot rest)
  else if op == "hoist_check" then some (handleHoist rest false)
  else if op == "funext_check" then some (handleHoist rest true)
  else none

end DriverExtract
