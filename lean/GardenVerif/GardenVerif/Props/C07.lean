import GardenVerif.Lemmas.Resume
import GardenVerif.Generated.Tables
/-!
C07 — Resuming after a runtime error reproduces the same error.

Model: M4 (`Machine.step`, src/eval.rs) + the session's `:resume` (= `eval` on the stack as it
is, `Resume.resume`). A runtime error makes `eval` push back ("restore") the values the failed
step popped and the entry it popped (`restore_stack_frame`).

* `error_restore_fixpoint`: if the restore puts the call stack back exactly as it was before the
  failed step (`RestoresExactly`), the next step fails with the same error and restores exactly
  again; `resume_any_number`: hence ANY number of `:resume`s answer with the same error, at the
  same node, with the failed step applied to the same receiver and arguments (the frames are equal).
* `every_site_restores`: `RestoresExactly` is discharged by proof for EVERY error site of
  `Machine.dispatch` (operators, let / assign / update, variable lookup, `if` / `while` / `for` /
  `match`, calls of closures, functions, enum constructors, built-ins, non-callables), hence
  `resume_same_error`: after ANY error step of the machine, any number of `:resume`s answer with the
  same error and an unchanged call stack. (Before the `fix:` commits "failed built-in calls restore
  the receiver before the arguments", "a failed if condition or match leaves the stack as it was",
  "a failed for-loop step can be resumed" this failed at `println(1)`, `"a"(println)`, `if 1 {2}`,
  `match 1 {…}`, `for x in 1 {…}`, `for (a, b) in [1] {…}`; those inputs are now positive examples.)
  For the built-in arms outside the model the regenerated table
  (`Tables.builtinArms[*].restoreShapes`, tie (T)) is checked by `decide` (`builtin_arms_restore_shape`).
-/
set_option linter.unusedVariables false
set_option linter.unusedSimpArgs false

namespace C07
open Machine Resume ResumeL

/-- A JSON session has no tick limit; no interrupt is pending or scheduled ("nothing changed"). -/
def Calm (s : State) : Prop := s.tickLimit = none ∧ C08.quiet s

/-- The error step `s → s'` put the call stack back exactly as it was: the popped entry and
exactly the popped values, in their original order, and nothing else was pushed. (Output,
program, limits are untouched by an error step: `ResumeL.step_error_fields`; ticks advance.) -/
def RestoresExactly (s s' : State) : Prop := s'.frames = s.frames

/-- **Fixpoint.** After an error step that restored exactly, the next step (what `:resume` runs
first) fails with the same error, and again restores exactly. -/
theorem error_restore_fixpoint (s s' : State) (e : Err) (hc : Calm s)
    (h : step s = .error s' e) (hr : RestoresExactly s s') :
    ∃ s'', step s' = .error s'' e ∧ RestoresExactly s' s'' ∧ Calm s'' := by
  have fl := step_error_fields s s' e h
  have hq' : C08.quiet s' := C08.quiet_step s s' hc.2 (by simp [h, C08.stateOf])
  have hcore : C08.core s = C08.core s' :=
    core_eq_of_fields s s' fl.1.symm hr.symm fl.2.1.symm fl.2.2.1.symm fl.2.2.2.1.symm fl.2.2.2.2.1.symm
  have sim := C08.step_sim s s' hcore hc.1 (C08.quiet_not_fires s hc.2) (C08.quiet_not_fires s' hq')
  rw [h] at sim
  cases hs : step s' <;> simp [hs, C08.mapState] at sim
  case error s'' e' =>
    obtain ⟨h1, h2⟩ := sim
    subst h2
    have fl' := step_error_fields s' s'' e hs
    refine ⟨s'', rfl, ?_, ?_, ?_⟩
    · exact (core_frames s' s'' h1).symm
    · rw [fl'.2.2.1, fl.2.2.1]; exact hc.1
    · exact C08.quiet_step s' s'' hq' (by simp [hs, C08.stateOf])

/-- **Any number of `:resume`s.** Every response of `eval`, `:resume` × k on the restored state
is the same error, and the call stack (entry, receiver, arguments, everything) is the one the
first failure saw. -/
theorem resume_any_number (fuel : Nat) (e : Err) : ∀ (k : Nat) (s s' : State), Calm s →
    step s = .error s' e → RestoresExactly s s' →
    ∀ o ∈ resumes (fuel + 1) k s', ∃ s'', o = .error s'' e ∧ s''.frames = s.frames := by
  intro k
  induction k with
  | zero =>
    intro s s' hc h hr o ho
    obtain ⟨s'', h1, h2, _⟩ := error_restore_fixpoint s s' e hc h hr
    simp [resumes, Resume.eval, h1] at ho
    exact ⟨s'', ho, by rw [h2, hr]⟩
  | succ k ih =>
    intro s s' hc h hr o ho
    obtain ⟨s'', h1, h2, h3⟩ := error_restore_fixpoint s s' e hc h hr
    have hc' : Calm s' := by
      have fl := step_error_fields s s' e h
      exact ⟨by rw [fl.2.2.1]; exact hc.1, C08.quiet_step s s' hc.2 (by simp [h, C08.stateOf])⟩
    simp [resumes, Resume.eval, h1] at ho
    rcases ho with ho | ho
    · exact ⟨s'', ho, by rw [h2, hr]⟩
    · obtain ⟨t, ht1, ht2⟩ := ih s' s'' hc' h1 h2 o ho
      exact ⟨t, ht1, by rw [ht2, hr]⟩

-- ------------------------------------------------------------------ per error site

/-- The error paths of `dispatch` on entry `(st, e)` (frame `f` = the current frame after the
entry was popped) hand `restore` exactly what was popped. -/
def SiteRestores (p : Program) (f : Frame) (st : St) (e : Expr) : Prop :=
  ∀ f' st' vals er, dispatch p f st e = .err f' st' vals er → restore f' st' e vals = f.pushE st e

/-- If the entry on top restores exactly at the `dispatch` level, the error step does at the
`step` level (this also covers the stack-limit error, which pops nothing). -/
theorem step_restores_of_site (s s' : State) (er : Err) (hc : Calm s) (h : step s = .error s' er)
    (hs : ∀ f callers st e rest, s.frames = f :: callers → f.exprs = (st, e) :: rest →
      SiteRestores s.prog { f with exprs := rest } st e) : RestoresExactly s s' := by
  obtain ⟨hl, hi, ha⟩ := hc
  unfold RestoresExactly
  unfold step at h
  match hf : s.frames with
  | [] => simp [hf] at h
  | f :: callers =>
    simp only [hf] at h
    match he : f.exprs with
    | [] =>
      simp only [he] at h
      cases callers with
      | nil => cases hv : f.values <;> simp [hv] at h
      | cons caller rest =>
        cases hv : f.values with
        | nil => simp [hv] at h
        | cons v vs => simp only [hv] at h; split at h <;> simp at h
    | (st, e0) :: rest =>
      have hsite := hs f callers st e0 rest hf he
      simp only [he, hi, ha, hl, limitReached] at h
      simp only [Bool.false_or, List.contains_nil, Bool.false_eq_true, if_false] at h
      have horig : ({ f with exprs := rest } : Frame).pushE st e0 = f := by
        cases f; simp_all [Frame.pushE]
      split at h
      · simp at h; obtain ⟨h, _⟩ := h; subst h
        simp [setTop, hf, restore_eq]
        cases f; simp_all
      · split at h <;> (try (unfold stopCheck at h; repeat' split at h)) <;> simp at h
        rename_i f' st' vals er' hd
        obtain ⟨h, _⟩ := h; subst h
        have := hsite f' st' vals er' hd
        simp [setTop, hf, this, horig]

macro "site_auto" : tactic => `(tactic| (
  intro f' st' vals er h
  simp only [dispatch] at h
  repeat' split at h
  all_goals (try (simp at h))
  all_goals (try (obtain ⟨h1, h2, h3, h4⟩ := h; subst h1 h2 h3 h4))
  all_goals (try (simp [restore_eq, Frame.pushE, Frame.pushVIf, Frame.pushV]))
  all_goals (try (cases ‹Frame›; simp_all))))

/-- Every error path of `eval_call` restores `[receiver, argₙ … arg₁]`: exactly what it popped. -/
theorem evalCall_restores (p : Program) (f : Frame) (e : Expr) (id : Nat) (used : Bool) (nargs : Nat) :
    ∀ f' st' vals er, evalCall p f id used nargs = .err f' st' vals er →
      restore f' st' e vals = f.pushE .E e := by
  intro f' st' vals er h
  unfold evalCall at h
  cases hp : popN nargs f.values with
  | none => simp [hp] at h
  | some pr =>
    obtain ⟨args, vals0⟩ := pr
    have hpa := popN_append nargs f.values args vals0 hp
    simp only [hp] at h
    cases vals0 with
    | nil => simp at h
    | cons recv vals1 =>
      have hfin : ∀ (ff : Frame), ff = { f with values := vals1 } →
          restore ff .E e (recv :: args.reverse) = f.pushE .E e := by
        intro ff hff; subst hff
        simp [restore_eq, Frame.pushE]
        cases f; simp_all
      simp only at h
      cases recv <;> simp only at h <;> (repeat' split at h) <;> (try (simp at h)) <;>
        (try (obtain ⟨h1, h2, h3, h4⟩ := h; subst h1 h2 h3 h4; exact hfin _ rfl))

/-- **Every error site of `dispatch` restores exactly.** -/
theorem every_site_restores (p : Program) (f : Frame) (st : St) (e : Expr) :
    SiteRestores p f st e := by
  cases e
  case call id u recv args =>
    intro f' st' vals er h
    simp only [dispatch] at h
    cases st
    case E =>
      simp only at h
      exact evalCall_restores p f _ _ _ _ f' st' vals er h
    all_goals simp at h
  case var => site_auto
  case ifE => cases st <;> site_auto
  case matchE => cases st <;> site_auto
  case forE => cases st <;> site_auto
  case int => site_auto
  case str => site_auto
  case lambda => site_auto
  case paren => site_auto
  case invalid => site_auto
  case unsup => site_auto
  case binop => site_auto
  case letE => site_auto
  case assign => site_auto
  case update => site_auto
  case whileE => site_auto
  case ret => site_auto
  case brk => site_auto
  case cont => site_auto
  case list => site_auto
  case tuple => site_auto

/-- **C07 over the model.** After ANY error step of a calm session (any node kind, any frame,
including the stack-limit error), every response to `eval`, `:resume` × k is the same error and the
call stack — pending entry, receiver, arguments, everything — is the one the first failure saw. -/
theorem resume_same_error (fuel k : Nat) (s s' : State) (e : Err) (hc : Calm s)
    (h : step s = .error s' e) :
    ∀ o ∈ resumes (fuel + 1) k s', ∃ s'', o = .error s'' e ∧ s''.frames = s.frames :=
  resume_any_number fuel e k s s' hc h
    (step_restores_of_site s s' e hc h (fun f callers st e0 rest hf he =>
      every_site_restores s.prog _ st e0))

-- ------------------------------------------------------------------ examples

def start (e : Expr) : State := init { funs := [], enums := [], toplevel := [e] } [] none none

/-- The hypotheses of `error_restore_fixpoint` are satisfiable: `1 + "a"` stops at an error and three
`:resume`s observe the same error at the same entry with the same stack sizes. -/
theorem binop_resume_example :
    observe 20 3 (start (.binop 3 true .add (.int 1 true 1) (.str 2 true "a"))) =
      [.error (.typeError "Int") (some (.E, 3)) 1 3, .error (.typeError "Int") (some (.E, 3)) 1 3,
       .error (.typeError "Int") (some (.E, 3)) 1 3, .error (.typeError "Int") (some (.E, 3)) 1 3] := by
  decide

/-- `println(1)` (was: the resumed step reported "Expected Function"). -/
theorem println_resume_example :
    observe 20 2 (start (.call 3 true (.var 1 true "println") [.int 2 true 1])) =
      [.error (.typeError "String") (some (.E, 3)) 1 3, .error (.typeError "String") (some (.E, 3)) 1 3,
       .error (.typeError "String") (some (.E, 3)) 1 3] := by
  decide

/-- `"a"(println)` (was: the resumed step ran `println("a")`). -/
theorem expected_function_resume_example :
    observe 20 2 (start (.call 3 true (.str 1 true "a") [.var 2 true "println"])) =
      [.error (.typeError "Function") (some (.E, 3)) 1 3, .error (.typeError "Function") (some (.E, 3)) 1 3,
       .error (.typeError "Function") (some (.E, 3)) 1 3] := by
  decide

/-- `if 1 { 2 }` (was: one more stale `(E, if)` entry per resume). -/
theorem if_resume_example :
    observe 20 2 (start (.ifE 3 true (.int 1 true 1) [.int 2 true 2] none)) =
      [.error (.typeError "Bool") (some (.PW, 3)) 1 2, .error (.typeError "Bool") (some (.PW, 3)) 1 2,
       .error (.typeError "Bool") (some (.PW, 3)) 1 2] := by
  decide

/-- `match 1 { Some(x) => x }` (was: a different error, then an eval.rs panic). -/
theorem match_resume_example :
    observe 20 3 (start (.matchE 3 true (.int 1 true 1) [.mk "Some" (some (.sym "x")) [.var 2 true "x"]])) =
      [.error .notEnum (some (.PW, 3)) 1 2, .error .notEnum (some (.PW, 3)) 1 2,
       .error .notEnum (some (.PW, 3)) 1 2, .error .notEnum (some (.PW, 3)) 1 2] := by
  decide

/-- `for x in 1 { 2 }` (was: `unreachable!` on the first resume). -/
theorem for_resume_example :
    observe 20 2 (start (.forE 3 true (.sym "x") (.int 1 true 1) [.int 2 true 2])) =
      [.error (.typeError "List") (some (.PW, 3)) 1 3, .error (.typeError "List") (some (.PW, 3)) 1 3,
       .error (.typeError "List") (some (.PW, 3)) 1 3] := by
  decide

/-- `for (a, b) in [1] { 2 }` (was: `unreachable!` on the first resume). -/
theorem for_destructure_resume_example :
    observe 20 2 (start (.forE 3 true (.destr ["a", "b"]) (.list 4 true [.int 1 true 1]) [.int 2 true 2])) =
      [.error (.typeError "Tuple") (some (.PW, 3)) 1 3, .error (.typeError "Tuple") (some (.PW, 3)) 1 3,
       .error (.typeError "Tuple") (some (.PW, 3)) 1 3] := by
  decide

-- ------------------------------------------------------------------ built-in arms: tie (T)

/-- Arms of `eval_built_in_call` / `eval_built_in_method_call` whose error paths are allowed to
build `saved_values` in another order than `[receiver, argₙ … arg₁]`: none. -/
def knownBad : List String := []

def shapeOk (sh : String) : Bool := sh == "receiverFirst" || sh == "argsOnly"

/-- Every `saved_values` construction of every built-in arm (regenerated from src/eval.rs on every
run) pushes the receiver first, then the arguments in reverse pop order — the order `eval_call` /
`eval_method_call` popped them in (`evalCall_restores` shows this order restores exactly). -/
theorem builtin_arms_restore_shape :
    ∀ arm ∈ Tables.builtinArms, arm.restoreShapes.all shapeOk = true ∨ arm.name ∈ knownBad := by
  decide

end C07
