import GardenVerif.Model.Validators
/-! Helper lemmas for the validator theorems (Props/C19 … C22). -/
set_option linter.unusedVariables false
set_option linter.unusedSimpArgs false

namespace Validators
open Machine (Expr Case Dest BinOp Program FunDef EnumDef)
open RefSem

-- ------------------------------------------------------------------ structural equality is equality

mutual
theorem exprEq_sound : ∀ (a b : Expr), exprEq a b = true → a = b
  | .int .., b => by cases b <;> simp [exprEq] <;> (intros; simp_all)
  | .str .., b => by cases b <;> simp [exprEq] <;> (intros; simp_all)
  | .var .., b => by cases b <;> simp [exprEq] <;> (intros; simp_all)
  | .binop _ _ _ l r, b => by
      cases b <;> simp only [exprEq, destEq, Bool.false_eq_true, false_implies, Bool.and_eq_true, beq_iff_eq, decide_eq_true_eq]
      rename_i l' r'
      rintro ⟨⟨⟨⟨h1, h2⟩, h3⟩, h4⟩, h5⟩
      rw [h1, h2, h3, exprEq_sound l l' h4, exprEq_sound r r' h5]
  | .letE _ _ _ e, b => by
      cases b <;> simp only [exprEq, destEq, Bool.false_eq_true, false_implies, Bool.and_eq_true, beq_iff_eq, decide_eq_true_eq]
      rename_i e'
      rintro ⟨⟨⟨h1, h2⟩, h3⟩, h4⟩
      rw [h1, h2, h3, exprEq_sound e e' h4]
  | .assign _ _ _ e, b => by
      cases b <;> simp only [exprEq, destEq, Bool.false_eq_true, false_implies, Bool.and_eq_true, beq_iff_eq, decide_eq_true_eq]
      rename_i e'
      rintro ⟨⟨⟨h1, h2⟩, h3⟩, h4⟩
      rw [h1, h2, h3, exprEq_sound e e' h4]
  | .update _ _ _ _ e, b => by
      cases b <;> simp only [exprEq, destEq, Bool.false_eq_true, false_implies, Bool.and_eq_true, beq_iff_eq, decide_eq_true_eq]
      rename_i e'
      rintro ⟨⟨⟨⟨h1, h2⟩, h3⟩, h4⟩, h5⟩
      rw [h1, h2, h3, h4, exprEq_sound e e' h5]
  | .ifE _ _ c t e, b => by
      cases b <;> simp only [exprEq, destEq, Bool.false_eq_true, false_implies, Bool.and_eq_true, beq_iff_eq, decide_eq_true_eq]
      rename_i c' t' e'
      rintro ⟨⟨⟨⟨h1, h2⟩, h3⟩, h4⟩, h5⟩
      rw [h1, h2, exprEq_sound c c' h3, seqEq_sound t t' h4, optEq_sound e e' h5]
  | .whileE _ _ c bd, b => by
      cases b <;> simp only [exprEq, destEq, Bool.false_eq_true, false_implies, Bool.and_eq_true, beq_iff_eq, decide_eq_true_eq]
      rename_i c' bd'
      rintro ⟨⟨⟨h1, h2⟩, h3⟩, h4⟩
      rw [h1, h2, exprEq_sound c c' h3, seqEq_sound bd bd' h4]
  | .forE _ _ _ e bd, b => by
      cases b <;> simp only [exprEq, destEq, Bool.false_eq_true, false_implies, Bool.and_eq_true, beq_iff_eq, decide_eq_true_eq]
      rename_i e' bd'
      rintro ⟨⟨⟨⟨h1, h2⟩, h3⟩, h4⟩, h5⟩
      rw [h1, h2, h3, exprEq_sound e e' h4, seqEq_sound bd bd' h5]
  | .matchE _ _ s cs, b => by
      cases b <;> simp only [exprEq, destEq, Bool.false_eq_true, false_implies, Bool.and_eq_true, beq_iff_eq, decide_eq_true_eq]
      rename_i s' cs'
      rintro ⟨⟨⟨h1, h2⟩, h3⟩, h4⟩
      rw [h1, h2, exprEq_sound s s' h3, casesEq_sound cs cs' h4]
  | .brk .., b => by cases b <;> simp [exprEq] <;> (intros; simp_all)
  | .cont .., b => by cases b <;> simp [exprEq] <;> (intros; simp_all)
  | .list _ _ es, b => by
      cases b <;> simp only [exprEq, destEq, Bool.false_eq_true, false_implies, Bool.and_eq_true, beq_iff_eq, decide_eq_true_eq]
      rename_i es'
      rintro ⟨⟨h1, h2⟩, h3⟩
      rw [h1, h2, seqEq_sound es es' h3]
  | .tuple _ _ es, b => by
      cases b <;> simp only [exprEq, destEq, Bool.false_eq_true, false_implies, Bool.and_eq_true, beq_iff_eq, decide_eq_true_eq]
      rename_i es'
      rintro ⟨⟨h1, h2⟩, h3⟩
      rw [h1, h2, seqEq_sound es es' h3]
  | .call _ _ r as, b => by
      cases b <;> simp only [exprEq, destEq, Bool.false_eq_true, false_implies, Bool.and_eq_true, beq_iff_eq, decide_eq_true_eq]
      rename_i r' as'
      rintro ⟨⟨⟨h1, h2⟩, h3⟩, h4⟩
      rw [h1, h2, exprEq_sound r r' h3, seqEq_sound as as' h4]
  | .lambda _ _ _ bd, b => by
      cases b <;> simp only [exprEq, destEq, Bool.false_eq_true, false_implies, Bool.and_eq_true, beq_iff_eq, decide_eq_true_eq]
      rename_i bd'
      rintro ⟨⟨⟨h1, h2⟩, h3⟩, h4⟩
      rw [h1, h2, h3, seqEq_sound bd bd' h4]
  | .paren _ _ e, b => by
      cases b <;> simp only [exprEq, destEq, Bool.false_eq_true, false_implies, Bool.and_eq_true, beq_iff_eq, decide_eq_true_eq]
      rename_i e'
      rintro ⟨⟨h1, h2⟩, h3⟩
      rw [h1, h2, exprEq_sound e e' h3]
  | .invalid .., b => by cases b <;> simp [exprEq] <;> (intros; simp_all)
  | .unsup .., b => by cases b <;> simp [exprEq] <;> (intros; simp_all)
  | .ret _ _ none, b => by
      cases b <;> try (simp [exprEq]; done)
      rename_i o; cases o <;> simp [exprEq] <;> (intros; simp_all)
  | .ret _ _ (some e), b => by
      cases b <;> try (simp [exprEq]; done)
      rename_i o; cases o <;> simp only [exprEq, Bool.false_eq_true, false_implies, Bool.and_eq_true, beq_iff_eq]
      rename_i e'
      rintro ⟨⟨h1, h2⟩, h3⟩
      rw [h1, h2, exprEq_sound e e' h3]
theorem seqEq_sound : ∀ (a b : List Expr), seqEq a b = true → a = b
  | [], [] => by simp
  | a :: as, b :: bs => by
      simp only [seqEq, Bool.and_eq_true]
      rintro ⟨h1, h2⟩
      rw [exprEq_sound a b h1, seqEq_sound as bs h2]
  | [], _ :: _ => by simp [seqEq]
  | _ :: _, [] => by simp [seqEq]
theorem optEq_sound : ∀ (a b : Option (List Expr)), optEq a b = true → a = b
  | none, none => by simp
  | some a, some b => by
      simp only [optEq]
      intro h
      rw [seqEq_sound a b h]
  | none, some _ => by simp [optEq]
  | some _, none => by simp [optEq]
theorem caseEq_sound : ∀ (a b : Case), caseEq a b = true → a = b
  | .mk v d b, .mk v' d' b' => by
      simp only [caseEq, Bool.and_eq_true, beq_iff_eq, decide_eq_true_eq]
      rintro ⟨⟨h1, h2⟩, h3⟩
      rw [h1, h2, seqEq_sound b b' h3]
theorem casesEq_sound : ∀ (a b : List Case), casesEq a b = true → a = b
  | [], [] => by simp
  | a :: as, b :: bs => by
      simp only [casesEq, Bool.and_eq_true]
      rintro ⟨h1, h2⟩
      rw [caseEq_sound a b h1, casesEq_sound as bs h2]
  | [], _ :: _ => by simp [casesEq]
  | _ :: _, [] => by simp [casesEq]
end

theorem funsEq_sound : ∀ (a b : List FunDef), funsEq a b = true → a = b
  | [], [] => by simp
  | a :: as, b :: bs => by
      simp only [funsEq, funEq, Bool.and_eq_true, beq_iff_eq]
      rintro ⟨⟨⟨h1, h2⟩, h3⟩, h4⟩
      have := seqEq_sound _ _ h3
      rw [funsEq_sound as bs h4]
      cases a; cases b; simp_all
  | [], _ :: _ => by simp [funsEq]
  | _ :: _, [] => by simp [funsEq]

theorem enumsEq_sound : ∀ (a b : List EnumDef), enumsEq a b = true → a = b
  | [], [] => by simp
  | a :: as, b :: bs => by
      simp only [enumsEq, enumEq, Bool.and_eq_true, beq_iff_eq]
      rintro ⟨⟨h1, h2⟩, h4⟩
      rw [enumsEq_sound as bs h4]
      cases a; cases b; simp_all
  | [], _ :: _ => by simp [enumsEq]
  | _ :: _, [] => by simp [enumsEq]

theorem progEq_sound (a b : Program) (h : progEq a b = true) : a = b := by
  simp only [progEq, Bool.and_eq_true] at h
  obtain ⟨⟨h1, h2⟩, h3⟩ := h
  have := funsEq_sound _ _ h1
  have := enumsEq_sound _ _ h2
  have := seqEq_sound _ _ h3
  cases a; cases b; simp_all

-- ------------------------------------------------------------------ C19: environments related by a renaming

/-- `ER c act env env'`: `env'` is `env` with some entries of `c.x` renamed to `c.y` (same
locations); `act` says whether the innermost entry of `c.x` is a renamed one. No entry of
`env` is called `c.y`. -/
inductive ER (c : RenCfg) : Bool → Env → Env → Prop where
  | nil : ER c false [] []
  | other {a env env'} (k : String) (l : Nat) : k ≠ c.x → k ≠ c.y → ER c a env env' →
      ER c a ((k, l) :: env) ((k, l) :: env')
  | hit {a env env'} (l : Nat) : ER c a env env' → ER c true ((c.x, l) :: env) ((c.y, l) :: env')
  | shadow {a env env'} (l : Nat) : ER c a env env' → ER c false ((c.x, l) :: env) ((c.x, l) :: env')

theorem ER.lookup_other {c : RenCfg} {a env env'} (h : ER c a env env') (z : String)
    (hx : z ≠ c.x) (hy : z ≠ c.y) : lookup env' z = lookup env z := by
  induction h with
  | nil => rfl
  | other k l _ _ _ ih => simp only [lookup, ih]
  | hit l _ ih =>
    simp only [lookup]
    rw [if_neg (by simpa using Ne.symm hy), if_neg (by simpa using Ne.symm hx), ih]
  | shadow l _ ih => simp only [lookup, ih]

theorem ER.lookup_x {c : RenCfg} {a env env'} (h : ER c a env env') (hxy : c.x ≠ c.y) :
    (a = false → lookup env' c.x = lookup env c.x) ∧
    (a = true → lookup env' c.y = lookup env c.x ∧ (lookup env c.x).isSome = true) := by
  induction h with
  | nil => simp [lookup]
  | other k l hk1 hk2 _ ih =>
    have e1 : (k == c.x) = false := by simpa using hk1
    have e2 : (k == c.y) = false := by simpa using hk2
    simp only [lookup, e1, e2, Bool.false_eq_true, if_false]
    exact ih
  | hit l _ ih => simp [lookup]
  | shadow l _ ih => simp [lookup]

/-- Looking up a (renamed) use. -/
theorem ER.lookup_rn {c : RenCfg} {a env env'} (h : ER c a env env') (hxy : c.x ≠ c.y) (n : String)
    (hn : n ≠ c.y) : lookup env' (rn c a n) = lookup env n ∧
      (isUse c a n = true → (lookup env n).isSome = true) := by
  unfold rn isUse
  by_cases hx : n = c.x
  · subst hx
    cases a
    · simpa using (h.lookup_x hxy).1 rfl
    · simpa using (h.lookup_x hxy).2 rfl
  · have : (n == c.x) = false := by simpa using hx
    simp only [this, Bool.and_false, Bool.false_eq_true, if_false, false_implies, and_true]
    exact h.lookup_other n hx hn

theorem renNames_fst_length (c : RenCfg) (hit : Option Nat) :
    ∀ (ns : List String) (act : Bool) (i : Nat), (renNames c hit act i ns).1.length = ns.length
  | [], _, _ => rfl
  | n :: ns, act, i => by simp [renNames, renNames_fst_length c hit ns]

/-- Binding (renamed) names keeps the environments related; the stores are the same. -/
theorem ER.bindNames {c : RenCfg} (hx : c.x ≠ "_") (hy : c.y ≠ "_") (hit : Option Nat) :
    ∀ (ns : List String) (vs : List Val) (act : Bool) (i : Nat) (env env' : Env) (s : RefSem.St),
      ER c act env env' → freshNames c.y ns = true → vs.length = ns.length →
      ER c (renNames c hit act i ns).2 (bindNames ns vs env s).1
        (bindNames (renNames c hit act i ns).1 vs env' s).1 ∧
      (bindNames (renNames c hit act i ns).1 vs env' s).2 = (bindNames ns vs env s).2
  | [], vs, act, i, env, env', s, h, _, _ => by simp [renNames, RefSem.bindNames, h]
  | n :: ns, [], act, i, env, env', s, h, _, hl => by simp at hl
  | n :: ns, v :: vs, act, i, env, env', s, h, hf, hl => by
      have hl' : vs.length = ns.length := by simpa using hl
      simp only [freshNames, List.all_cons, Bool.and_eq_true, bne_iff_ne, ne_eq] at hf
      obtain ⟨hny, hrest⟩ := hf
      simp only [renNames, RefSem.bindNames]
      have hrest' : freshNames c.y ns = true := by simpa [freshNames] using hrest
      by_cases hnx : n = c.x
      · subst hnx
        have hne : (c.x == "_") = false := by simpa using hx
        have hne' : (c.y == "_") = false := by simpa using hy
        by_cases hh : (hit == some i) = true
        · simp only [renName, beq_self_eq_true, if_true, hh, hne, hne', Bool.false_eq_true, if_false]
          exact ER.bindNames hx hy hit ns vs true (i + 1) _ _ _ (ER.hit _ h) hrest' hl'
        · simp only [renName, beq_self_eq_true, if_true, hh, hne, Bool.false_eq_true, if_false]
          exact ER.bindNames hx hy hit ns vs false (i + 1) _ _ _ (ER.shadow _ h) hrest' hl'
      · have hnx' : (n == c.x) = false := by simpa using hnx
        simp only [renName, hnx', Bool.false_eq_true, if_false]
        by_cases hu : (n == "_") = true
        · simp only [hu, if_true]
          exact ER.bindNames hx hy hit ns vs act (i + 1) _ _ _ h hrest' hl'
        · simp only [hu, Bool.false_eq_true, if_false]
          exact ER.bindNames hx hy hit ns vs act (i + 1) _ _ _ (ER.other _ _ hnx hny h) hrest' hl'

-- ------------------------------------------------------------------ apply_renames

theorem slice_mid {α} (pre g rest : List α) :
    slice (pre ++ (g ++ rest)) pre.length (pre.length + g.length) = some g := by
  unfold slice
  rw [if_pos (by simp)]
  simp

theorem slice_end {α} (pre last : List α) :
    slice (pre ++ last) pre.length (pre ++ last).length = some last := by
  unfold slice
  rw [if_pos (by simp)]
  simp

theorem applyRenamesGo_spec {α} (new : List α) :
    ∀ (segs : List (List α × List α)) (pre last acc : List α),
      applyRenamesGo (pre ++ buildText segs last) new pre.length (positionsOf pre.length segs) acc
        = some (acc ++ buildRenamed new segs last)
  | [], pre, last, acc => by
      simp only [buildText, positionsOf, applyRenamesGo, buildRenamed, slice_end, Option.map_some]
  | (g, t) :: rest, pre, last, acc => by
      simp only [buildText, positionsOf, applyRenamesGo, buildRenamed]
      rw [List.append_assoc g t, slice_mid]
      have := applyRenamesGo_spec new rest (pre ++ g ++ t) last (acc ++ g ++ new)
      simp only [List.length_append, List.append_assoc, Nat.add_assoc] at this ⊢
      rw [this]

-- ------------------------------------------------------------------ apply_fixes

theorem splice_mid {α} (pre g t x nw : List α) :
    splice (pre ++ g ++ t ++ x) ⟨pre.length + g.length, pre.length + g.length + t.length, nw⟩
      = some (pre ++ g ++ nw ++ x) := by
  unfold splice
  rw [if_pos (by simp; omega)]
  have h1 : (pre ++ g ++ t ++ x).take (pre.length + g.length) = pre ++ g := by
    rw [List.append_assoc (pre ++ g)]
    exact List.take_left' (by simp)
  have h2 : (pre ++ g ++ t ++ x).drop (pre.length + g.length + t.length) = x := by
    exact List.drop_left' (by simp [Nat.add_assoc])
  simp only [h1, h2]

theorem applyFixes_foldr {α} :
    ∀ (segs : List (List α × List α × List α)) (pre last : List α),
      (fixesOf pre.length segs).foldr (fun f acc => acc.bind (splice · f)) (some (pre ++ buildText3 segs last))
        = some (pre ++ buildFixed segs last)
  | [], pre, last => by simp [fixesOf, buildText3, buildFixed]
  | (g, t, nw) :: rest, pre, last => by
      simp only [fixesOf, buildText3, buildFixed, List.foldr_cons]
      have ih := applyFixes_foldr rest (pre ++ g ++ t) last
      simp only [List.length_append] at ih
      simp only [List.append_assoc] at ih
      simp only [List.append_assoc, ih, Option.bind_some]
      have := splice_mid pre g t (buildFixed rest last) nw
      simp only [List.append_assoc] at this
      exact this

theorem applyFixesSkipGo_spec {α} :
    ∀ (segs : List (List α × List α × List α)) (pre last : List α) (more : List (Fix α)) (bound : Nat),
      (pre ++ buildText3 segs last).length ≤ bound →
      ∃ bound', pre.length ≤ bound' ∧
        applyFixesSkipGo ((fixesOf pre.length segs).reverse ++ more) (pre ++ buildText3 segs last) bound
          = applyFixesSkipGo more (pre ++ buildFixed segs last) bound'
  | [], pre, last, more, bound, h => by
      refine ⟨bound, ?_, ?_⟩
      · simp [buildText3] at h; omega
      · simp [fixesOf, buildText3, buildFixed]
  | (g, t, nw) :: rest, pre, last, more, bound, h => by
      have h' : ((pre ++ g ++ t) ++ buildText3 rest last).length ≤ bound := by
        simpa [buildText3, List.append_assoc] using h
      obtain ⟨b', hb', ih⟩ := applyFixesSkipGo_spec rest (pre ++ g ++ t) last
        (⟨pre.length + g.length, pre.length + g.length + t.length, nw⟩ :: more) bound h'
      refine ⟨pre.length + g.length, by omega, ?_⟩
      simp only [List.length_append] at ih hb'
      simp only [fixesOf, buildText3, buildFixed, List.reverse_cons, List.append_assoc, List.singleton_append]
      simp only [List.append_assoc] at ih
      rw [ih]
      simp only [applyFixesSkipGo]
      rw [if_pos ⟨by omega, by omega⟩]
      have h1 : (pre ++ (g ++ (t ++ buildFixed rest last))).take (pre.length + g.length) = pre ++ g := by
        rw [← List.append_assoc]
        exact List.take_left' (by simp)
      have h2 : (pre ++ (g ++ (t ++ buildFixed rest last))).drop (pre.length + g.length + t.length)
          = buildFixed rest last := by
        rw [← List.append_assoc, ← List.append_assoc]
        exact List.drop_left' (by simp [Nat.add_assoc])
      rw [h1, h2]
      simp [List.append_assoc]

end Validators
