"""C20 — Extract variable and extract function preserve behaviour.

Level: translation validation (certified validator, DESIGN §3 (V)).
Proof (GardenVerif.Props.C20, closure-free restriction of RefSem, all programs, all fuel): `hoistCheck_sound`,
`funextCheck_sound` (the decision procedures imply the relations `IsLetHoist` / `IsFunExtract`);
`let_hoist_sound_partial` / `let_hoist_behaviour_partial` / `hoistCheck_behaviour_partial` (IsLetHoist + the decidable
side conditions `hoistSafe`: a run of the original that ends without error is reproduced, same result and output, by
the extracted program); `fun_extract_sound_partial` / `fun_extract_behaviour_partial` (IsFunExtract + `funSafe`: same);
`pure_keeps_state_partial`, `hoisted_use_partial`. The driver evaluates `hoistSafe` / `funSafe` on the real trees; the
inputs where they do not hold (impure sub-expression evaluated before the selection, call in the selection, …) are
covered by the oracle only and counted (`*_theorem_applies`).

Per input: assignment-free RGen programs (closures, loops over lists, match, if, functions); targets = pure
sub-expressions (literals, variables, operators, parentheses, list / tuple literals, calls of string_repr / Some, closure
literals, if / match / for with pure parts), sampled per program, every enclosing construct (toplevel, function body,
if branch, for body, match arm, closure body); plus shadowing templates that exercise the free-variable analysis.
The schema includes "the new function's parameters are exactly the free local variables of the selection, in order of
first use", computed by the Lean model with the language's lexical scoping (`expectedParams`).
* Validator: the Lean driver matches the two REAL parser trees against the schema (`hoist_check`: `let n = e` inserted
  immediately before the enclosing statement IN THE SAME BLOCK, only the selected occurrence replaced, `n` fresh;
  `funext_check`: new toplevel function whose body is e, the occurrence replaced by the call with the parameters in
  the same order) and evaluates `Pure e` on the real tree (must agree with the generator's own purity test).
* Direct oracle (no model): extract-variable's output text = input with `let <name> = <text of e>` + newline + the
  statement's indentation inserted at the start of the innermost enclosing statement of the same block (computed
  from the `astq` tree by an independent walk) and the selection replaced by the name; both tools' outputs parse; where
  the original ran without error the result prints the same stdout and ends without error (real evaluator;
  differences re-run through `garden run`).

Failure keys (fixed; tool + enclosing construct of the selection, never the input):
  C20/crash, C20/generator,
  C20/extract-variable/{refused,wrong-text,does-not-parse,behaviour-changed}/<ctx>,
  C20/extract-function/{refused,does-not-parse,behaviour-changed}/<ctx>
  with <ctx> in: toplevel fun-body if-branch for-body while-body match-arm closure-body (random programs: the construct
  enclosing the selection) and, for the shadowing templates (an inner binder of the selection has the name of an
  enclosing local that another part of the selection reads; every arm / branch is executed):
  shadow/match-arm-payload shadow/arm-let shadow/if-branch-let shadow/closure-param shadow/for-variable
  shadow/local-named-like-function; and for the else templates: else-if/condition (the condition of an `else if`: the
  nested `if` has no braces) else-block/inner-if-condition (a braced else block whose inner `if` uses a local of the block).
"""
import os
import re
import shutil
from . import common
from . import refactor_common as RC
from .common import hexs

LEAN_MODULES = ["GardenVerif.Props.C20"]
LEVEL = "translation_validation"
VNAME, FNAME = "nv_fresh", "nf_fresh"
PURE_CALLEES = {"string_repr", "Some", "Ok", "Err"}


def pure_block(b):
    return all(is_pure(x) for x in b[3:])


def is_pure(e):
    """Side-effect free: literals, variables, operators, parentheses, list / tuple literals, calls of string_repr /
    enum constructors, closure literals, and if / match / for whose parts and blocks are pure (blocks may bind with
    `let`). Must agree with `Extract.pureE` (the driver reports it)."""
    k = e[0]
    if k in ("int", "str", "var"):
        return True
    if k == "binop":
        return is_pure(e[6]) and is_pure(e[7])
    if k == "paren":
        return is_pure(e[5])
    if k in ("list", "tuple"):
        return all(is_pure(x) for x in e[5:])
    if k == "call":
        f = e[5]
        if f[0] == "paren" and f[5][0] == "lambda":       # a closure literal called on the spot
            return pure_block(f[5][7]) and all(is_pure(x) for x in e[6:])
        return f[0] == "var" and f[5][1] in PURE_CALLEES and all(is_pure(x) for x in e[6:])
    if k == "let":
        return is_pure(e[7])
    if k == "if":
        return is_pure(e[5]) and pure_block(e[6]) and (e[7] == "noelse" or pure_block(e[7]))
    if k == "for":
        return is_pure(e[6]) and pure_block(e[7])
    if k == "match":
        return is_pure(e[5]) and all(pure_block(c[3]) for c in e[6:])
    if k == "lambda":
        return pure_block(e[7])
    return False


# ------------------------------------------------------------------------- shadowing shapes (free-variable analysis)
SHADOW_SHAPES = {
    # an inner binder of the selection shadows an enclosing local that ANOTHER part of the selection reads
    "match-arm-payload": ["match o { Some(%(w)s) => { %(w)s + 1 } None => { %(w)s } }",
                          "match o { None => { %(w)s } Some(%(w)s) => { %(w)s + 1 } }",
                          "match o { Some(%(w)s) => { %(w)s + %(v)s } None => { %(w)s * 2 } }"],
    "arm-let": ["match o { Some(q) => { let %(w)s = q + 1\n    %(w)s } None => { %(w)s } }",
                "match o { None => { %(w)s } Some(q) => { let %(w)s = q\n    %(w)s + %(v)s } }"],
    "if-branch-let": ["(if %(v)s > 5 { let %(w)s = 1\n    %(w)s } else { 0 }) + %(w)s",
                      "if %(v)s > 5 { let %(w)s = 1\n    %(w)s } else { %(w)s }",
                      "[if %(v)s > 5 { let %(w)s = 1\n    %(w)s } else { 0 }, %(w)s]"],
    "closure-param": ["[(fun(%(w)s) { %(w)s + 1 })(%(v)s), %(w)s]",
                      "(fun(%(w)s) { %(w)s + 1 })(%(w)s) + %(w)s",
                      "[%(w)s, (fun(%(w)s) { %(w)s * 3 })(%(v)s)]"],
    "for-variable": ["match o { Some(q) => { for %(w)s in [q] { let z9 = %(w)s }\n    %(w)s } None => { %(w)s + 1 } }",
                     "[if %(v)s > 5 { for %(w)s in [1] { let z9 = %(w)s }\n    %(w)s } else { 0 }, %(w)s]"],
    "local-named-like-function": ["helper + %(v)s", "[helper, %(w)s]"],
}


def gen_elseif_program(rng):
    """`else if` chains (the nested `if` has no braces of its own: a variable extracted from its condition needs
    them) and braced `else` blocks whose inner `if` condition uses a local of that block; every branch is executed."""
    k = rng.randrange(4)
    if k == 0:
        body, sel, key = "if a { 1 } else if b > 3 { 2 } else { 3 }", "b > 3", "else-if/condition"
    elif k == 1:
        body, sel, key = "if a { 1 } else if b > 5 { 2 } else if b > 1 { 4 } else { 3 }", rng.choice(["b > 5", "b > 1"]), "else-if/condition"
    elif k == 2:
        body, sel, key = ("if a { 1 } else { let half = b / 2\n    if half > 3 { 2 } else { 3 } }",
                          rng.choice(["half > 3", "half"]), "else-block/inner-if-condition")
    else:
        body, sel, key = ("if a { 1 } else {\n    let half = b / 2\n    if half > 1 { half } else if half + b > 2 { 7 } else { 3 }\n  }",
                          rng.choice(["half > 1", "half + b > 2", "half + b"]), "else-block/inner-if-condition")
    src = ("fun f(a, b) {\n  %s\n}\n" % body +
           "".join("println(string_repr(f(%s, %d)))\n" % (x, y) for x in ("True", "False") for y in (0, 3, 5, 8, 12)))
    start = src.index(sel, src.index("if ", src.index("else")))
    return src, key, (start, start + len(sel))


def gen_shadow_program(rng):
    """A function with the locals v (parameter) and w (let); the selection is one expression in which an inner binder
    (match payload, let in an arm / branch, closure parameter, for variable) has the name of an enclosing local that
    another part of the selection reads; the function is called so that EVERY arm / branch runs."""
    shape = rng.choice(sorted(SHADOW_SHAPES))
    tmpl = rng.choice(SHADOW_SHAPES[shape])
    v, w = rng.sample(["v", "w", "x", "y", "a", "b"], 2)
    sel = tmpl % dict(v=v, w=w)
    pre = "let helper = %s + 3\n  " % v if shape == "local-named-like-function" else ""
    src = ("fun helper(k) {\n  k + 100\n}\n"
           "fun pick(o, %(v)s) {\n  let %(w)s = %(v)s * 2\n  %(pre)s%(sel)s\n}\n"
           "println(string_repr(pick(Some(1), 10)))\nprintln(string_repr(pick(None, 10)))\n"
           "println(string_repr(pick(Some(7), 1)))\nprintln(string_repr(pick(None, 1)))\n"
           "println(string_repr(helper(1)))\n") % dict(v=v, w=w, sel=sel, pre=pre)
    start = src.index(sel, src.index("let %s = " % w) + 1)
    return src, "shadow/" + shape, (start, start + len(sel))


def collect(tree_items):
    """[(node, parent kind, statement node, ctx)] for every expression, by an independent walk of the astq tree:
    `statement` = the innermost enclosing statement of the node's own block."""
    out = []

    def block(b, ctx):
        for e in b[3:]:
            expr(e, None, e, ctx)

    def expr(e, parent, stmt, ctx):
        out.append((e, parent, stmt, ctx))
        k = e[0]
        rest = e[5:]
        if k == "binop":
            expr(rest[1], e, stmt, ctx)
            expr(rest[2], e, stmt, ctx)
        elif k == "let":
            expr(rest[2], e, stmt, ctx)
        elif k == "assign":
            expr(rest[1], e, stmt, ctx)
        elif k == "update":
            expr(rest[2], e, stmt, ctx)
        elif k == "if":
            expr(rest[0], e, stmt, ctx)
            block(rest[1], "if-branch")
            if rest[2] != "noelse":
                block(rest[2], "if-branch")
        elif k == "while":
            expr(rest[0], e, stmt, ctx)
            block(rest[1], "while-body")
        elif k == "for":
            expr(rest[1], e, stmt, ctx)
            block(rest[2], "for-body")
        elif k == "match":
            expr(rest[0], e, stmt, ctx)
            for c in rest[1:]:
                block(c[3], "match-arm")
        elif k == "return":
            if rest[0] != "none":
                expr(rest[0], e, stmt, ctx)
        elif k in ("list", "tuple", "call"):
            for x in rest:
                expr(x, e, stmt, ctx)
        elif k == "lambda":
            block(rest[2], "closure-body")
        elif k in ("paren", "assert"):
            expr(rest[0], e, stmt, ctx)
    for it in tree_items:
        if it[0] == "fun":
            block(it[4], "fun-body")
        elif it[0] == "expr":
            expr(it[1], None, it[1], "toplevel")
        elif it[0] == "blockitem":
            block(it[1], "toplevel")
    return out


def scratch_dir():
    d = os.path.join(common.BUILD, "scratch", "extract", "c20-%d" % os.getpid())
    os.makedirs(d, exist_ok=True)
    return d


def run(ctx):
    rng = ctx.rng
    nprog = ctx.scale(300, 4000)
    per = ctx.scale(3, 12)
    ctx.rule = ("%d assignment-free RGen programs (6-name pool, shadowing, closures, for loops, match, if, functions); up "
                "to %d pure sub-expressions per program and tool (one per enclosing construct first). Non-trivial = the "
                "selection is not a whole statement and is not a literal." % (nprog, per))
    progs = [RC.gen_program(rng, size=rng.choice([15, 28, 40]), assign=False, closures=rng.random() < 0.7)
             for _ in range(nprog)]
    srcs = [p for p, _ in progs]
    forced = {}
    for _ in range(ctx.scale(120, 1500)):
        src, shape, span = gen_shadow_program(rng)
        forced[len(srcs)] = (shape, span)
        srcs.append(src)
    for _ in range(ctx.scale(40, 400)):
        src, shape, span = gen_elseif_program(rng)
        forced[len(srcs)] = (shape, span)
        srcs.append(src)
    n = len(srcs)
    r = ctx.garden_batch(["astq " + hexs(s) for s in srcs] + ["astx " + hexs(s) for s in srcs] +
                         [RC.run_line(s) for s in srcs])
    astq, astx, runs = r[:n], r[n:2 * n], r[2 * n:]
    before = [RC.run_result(x) for x in runs]
    jobs = []
    ctx_hist = {}
    for i, s in enumerate(srcs):
        if not astq[i] or not astq[i].startswith("OK (astq 0"):
            ctx.fail("C20/generator", "generated program does not parse", src=s)
            continue
        if before[i][0] in ("panic", "died"):
            ctx.fail("C20/crash", "evaluator crashed on a generated program: %s" % before[i][1], src=s)
            continue
        t = RC.Tree(astq[i])
        cands = []
        for e, parent, stmt, cx in collect(t.items):
            if not is_pure(e) or e[0] == "let":
                continue
            if parent is not None and parent[0] == "paren":
                continue          # the tool takes the parentheses with it: select the paren node instead
            if parent is not None and parent[0] == "call" and parent[5] is e:
                continue          # a callee
            if e[0] == "var" and (e[5][1] in t.fun_names or e[5][1] in ("println", "print", "string_repr", "True", "False", "None")):
                continue
            cands.append((e, parent, stmt, cx))
        if i in forced:
            shape, span = forced[i]
            hit = [c for c in cands if (int(c[0][3]), int(c[0][4])) == span]
            if not hit:
                ctx.fail("C20/generator", "the shadowing selection is not a pure expression node", src=s, span=list(span))
                continue
            for tool in ("extract_variable", "extract_function"):
                c = (hit[0][0], hit[0][1], hit[0][2], shape)
                jobs.append((tool, i, c))
                ctx_hist[tool + "/" + shape] = ctx_hist.get(tool + "/" + shape, 0) + 1
            continue
        by_ctx = {}
        for c in cands:
            by_ctx.setdefault(c[3], []).append(c)
        for tool in ("extract_variable", "extract_function"):
            chosen = [rng.choice(v) for v in by_ctx.values()]
            rest = [c for c in cands if not any(c is q for q in chosen)]
            rng.shuffle(rest)
            chosen = (chosen + rest)[:per] if len(chosen) <= per else rng.sample(chosen, per)
            for c in chosen:
                if tool == "extract_variable" and c[0][0] == "lambda":
                    continue      # the tool declines a closure literal as the selection itself (no violation)
                jobs.append((tool, i, c))
                ctx_hist[tool + "/" + c[3]] = ctx_hist.get(tool + "/" + c[3], 0) + 1
    ctx.log("programs %d, extract jobs %d" % (n, len(jobs)))
    res = ctx.garden_batch([RC.tool_line(tool, srcs[i], int(c[0][3]), int(c[0][4]), VNAME if tool == "extract_variable" else FNAME)
                            for tool, i, c in jobs])
    stat = {"ok": 0, "refused": 0}
    checked = []
    for (tool, i, c), x in zip(jobs, res):
        e, parent, stmt, cx = c
        src = srcs[i]
        st, en = int(e[3]), int(e[4])
        tname = tool.replace("_", "-")
        k, txt = RC.tool_result(x)
        ctx.case((tool, src, st, en), e is not stmt and e[0] not in ("int", "str"))
        rep = dict(src=src, offset=st, end=en, node=e[0], context=cx,
                   cmd="garden reftest-%s f.gdn %d %d --name %s" % (tname, st, en, VNAME if tool == "extract_variable" else FNAME))
        if k in ("panic", "died"):
            ctx.fail("C20/crash", "%s crashed: %s" % (tool, txt[:200]), **rep)
            continue
        if k == "err":
            stat["refused"] += 1
            ctx.fail("C20/%s/refused/%s" % (tname, cx), "%s refused a pure expression: %s" % (tool, txt), **rep)
            continue
        stat["ok"] += 1
        if tool == "extract_variable" and src.encode()[:int(stmt[3])].rstrip().endswith(b"else"):
            stat["else-if-needs-braces"] = stat.get("else-if-needs-braces", 0) + 1      # no exact text expectation
        elif tool == "extract_variable":
            b = src.encode()
            s0 = int(stmt[3])
            col = s0 - (b.rfind(b"\n", 0, s0) + 1)
            inner = e[5] if e[0] == "paren" else e
            exp = (b[:s0] + ("let %s = " % VNAME).encode() + b[int(inner[3]):int(inner[4])] + b"\n" + b" " * col +
                   b[s0:st] + VNAME.encode() + b[en:]).decode()
            if txt != exp:
                ctx.fail("C20/extract-variable/wrong-text/" + cx, "the output is not the input with `let <name> = e` "
                         "inserted immediately before the enclosing statement of the same block and the selection "
                         "replaced by the name", expected=exp, got=txt, **rep)
        checked.append((tool, i, c, txt))
        if len(ctx.samples) < 6 and cx not in ("toplevel",) and e[0] == "binop":
            ctx.sample(dict(tool=tool, src=src, offset=st, end=en, context=cx, output=txt))
    texts = sorted({t for _, _, _, t in checked})
    m = len(texts)
    ctx.log("tool calls done: %d distinct outputs" % m)
    r2 = ctx.garden_batch(["astx " + hexs(t) for t in texts] + [RC.run_line(t) for t in texts])
    ax2, run2 = dict(zip(texts, r2[:m])), dict(zip(texts, r2[m:]))
    scratch = scratch_dir()
    cli_n = 0
    oracle_failed = set()
    lines, meta = [], []
    for j, (tool, i, c, txt) in enumerate(checked):
        e, parent, stmt, cx = c
        tname = tool.replace("_", "-")
        st, en = int(e[3]), int(e[4])
        rep = dict(src=srcs[i], offset=st, end=en, node=e[0], context=cx, after=txt,
                   cmd="garden reftest-%s f.gdn %d %d --name %s" % (tname, st, en, VNAME if tool == "extract_variable" else FNAME))
        if not (ax2[txt] or "").startswith("OK (astx 0"):
            ctx.fail("C20/%s/does-not-parse/%s" % (tname, cx), "the output has parse errors", **rep)
            continue
        b, a = before[i], RC.run_result(run2[txt])
        if b[0] == "ok" and (a[0] != "ok" or a[2] != b[2]):
            cli_n += 1
            c1 = RC.cli_run(ctx, srcs[i], scratch, "b%d" % j)
            c2 = RC.cli_run(ctx, txt, scratch, "a%d" % j)
            if c1[1] != c2[1] or c1[0] != c2[0] or a[0] != "ok":
                oracle_failed.add((tool, i, e[1]))
                ctx.fail("C20/%s/behaviour-changed/%s" % (tname, cx), "the original runs without error, the result "
                         "prints or ends differently", before_run=b, after_run=a, **rep)
        op = "hoist_check" if tool == "extract_variable" else "funext_check"
        lines.append("%s %s %s %s %s" % (op, e[1], VNAME if tool == "extract_variable" else FNAME, astx[i][3:], ax2[txt][3:]))
        meta.append((tool, i, c, txt))
    lr = ctx.model_batch(lines)
    vstat = {"extract_variable": 0, "extract_function": 0, "params": {}}
    for (tool, i, c, txt), x in zip(meta, lr):
        e = c[0]
        mm = re.match(r"^OK \(extract (\d) (\d) (\d+) (\d) (\d) \(params((?: \S+)*)\)\)$", x or "")
        inp = {"src": srcs[i], "tool": tool, "offset": int(e[3]), "end": int(e[4]), "id": e[1], "context": c[3], "after": txt}
        if not mm:
            ctx.disagree(tool + "_check", inp, x, "tool output accepted by the oracle")
            continue
        chk, pure, hits, fresh, safe, params = mm.groups()
        if chk != "1" and pure == "1" and hits == "1" and fresh == "1" and (tool, i, e[1]) in oracle_failed:
            # the schema (parameters = free local variables, …) rejects an output that the oracle rejects too:
            # one defect, reported by the oracle with its replay
            vstat["schema_rejects_what_the_oracle_rejects"] = vstat.get("schema_rejects_what_the_oracle_rejects", 0) + 1
        elif chk != "1" or pure != "1" or hits != "1" or fresh != "1":
            ctx.disagree(tool + "_check", inp, "schema=%s Pure=%s nodes-with-id=%s fresh=%s" % (chk, pure, hits, fresh),
                         "tool output accepted by the oracle; generator says the selection is pure")
        else:
            vstat[tool] += 1
            vstat[tool + "_theorem_applies"] = vstat.get(tool + "_theorem_applies", 0) + (safe == "1")
            if tool == "extract_function":
                k = len(params.split())
                vstat["params"][k] = vstat["params"].get(k, 0) + 1

    def cli_job(job):
        tool, i, c, txt = job
        e = c[0]
        path = os.path.join(scratch, "c%d_%s_%s.gdn" % (i, tool[-3:], e[1]))
        with open(path, "w") as f:
            f.write(srcs[i])
        rc, so, se = ctx.garden(["reftest-" + tool.replace("_", "-"), path, e[3], e[4], "--name",
                                 VNAME if tool == "extract_variable" else FNAME], timeout=60)
        return job, rc, so
    sample = checked[::max(1, len(checked) // ctx.scale(40, 600))]
    for (tool, i, c, txt), rc, so in common.pmap(cli_job, sample):
        if so != txt:
            ctx.disagree("hook-vs-cli", {"src": srcs[i], "tool": tool, "offset": c[0][3], "end": c[0][4]}, txt,
                         {"rc": rc, "stdout": so})
    shutil.rmtree(scratch, ignore_errors=True)
    ctx.cov.update(programs=n, tool_calls=len(jobs), by_tool_and_context=ctx_hist, stats=stat, distinct_outputs=m,
                   validator_accepted=vstat, disagreements_checked=len(lines), runs_reexamined_by_cli=cli_n,
                   cli_compared=len(sample), originals_running_without_error=sum(1 for b in before if b[0] == "ok"),
                   failure_keys=sorted({f["key"] for f in ctx.failures}),
                   known_keys_hit=sorted({k["key"] for k in ctx.known_hit}))
    ctx.assumptions += [
        "let_hoist_sound_partial / fun_extract_sound_partial need the side conditions hoistSafe / funSafe (evaluated on "
        "the real trees; coverage[validator_accepted][*_theorem_applies]) and are about the closure-free RefSem; for the "
        "other inputs behaviour preservation is decided only by the real evaluator before / after",
        "Pure = literals, variables, operators, parentheses, list / tuple literals, calls of string_repr / Some / Ok / Err; "
        "a pure expression may still raise an error: only originals that run without error are compared (as the "
        "property says)",
        "programs are assignment-free (RGen assign=False) and ASCII",
    ]
    ctx.log("stats %s; contexts %s; validator %s; cli re-runs %d" % (stat, ctx_hist, vstat, cli_n))
