import GardenVerif.Lemmas.Imports
/-!
# C34 — Only public definitions are visible through imports

Statements over the loader model `Imports.load` (Model/Imports.lean), a transcription of
`load_toplevel_items_`, `insert_imported_namespace`, `eval_namespace_access` and
`infer_namespace_access`. The tie to the Rust is the `imports_eval` correspondence
(harness/c34.py: generated project directories, `garden check --json` / `garden run`).

What is proved (all universally quantified over projects, no acyclicity hypothesis)
* `load_terminates`, `load_fuel_exists`, `load_calls_bounded`: for EVERY finite project (any import
  graph: cycles, self-imports, unreadable files) the loader returns (a state, or a panic at one of
  the two modelled `unwrap`/`borrow_mut` sites) with fuel `|files| + 1`, after at most `|files|`
  recursive loads. Measure: project files not in `paths_seen`.
* `exported_exactly_public`: after a successful load, for the main file and for every readable file
  in `paths_seen`, `exported_syms(f)` is EXACTLY `{x | the last definition of function x in f is
  public}`, and every exported name is bound. This holds through cycles (the main file may be
  loaded re-entrantly).
* `import_exactly_public_partial`: after `import "f" as a`, `a::x` resolves at run time iff it is
  accepted at check time iff `f` defines a public function `x`; anything else is an error at both
  times. "Partial" = functions only, `name::item` form only.
* `import_only_public_in_scope`: unqualified imports, soundness half — in every file of every project
  a bare name denotes a function of that file or a `public` definition; `a::x` reaches only public
  definitions (no private function crosses a file boundary, whatever the import graph).
* `qual_check_run_agree`, `bare_check_run_agree`: check time and run time apply the same rule.
* witnesses `private_type_visible_witness`, `private_method_visible_witness`,
  `public_enum_variants_not_imported_witness`, `cyclic_unqualified_partial_witness`,
  `panic_sites_witness`: on concrete model projects the full statement of the property FAILS for
  types, methods, enum variants and for unqualified imports inside a cycle, and the loader panics
  on two input classes — the model exhibits the known findings, so the correspondence stays exact.

What is NOT proved (kept visible): the completeness half of the unqualified analogue
  `bare x in file F resolves ↔ F defines x ∨ ∃ f, F has "import f" ∧ proj.publicFun f x`
is FALSE in the model for files inside an import cycle (`cyclic_unqualified_partial_witness`) and
name clashes are resolved by statement order; for acyclic projects it is left to the correspondence
run and the direct oracle. Types, methods and enum variants: the statement is false (witnesses).
-/
set_option linter.unusedVariables false

namespace C34
open Imports

/-- The loader never runs out of fuel `|files| + 1`, whatever the import graph. -/
theorem load_terminates (cfg : Cfg) (proj : Project) (main : String) :
    load cfg proj main (proj.length + 1) ≠ .outOfFuel := by
  have h := loadFile_spec cfg proj (proj.length + 1) main St.init
    (by show unseen proj [] < proj.length + 1; rw [unseen_nil]; omega)
  exact h.1

/-- `∃ fuel ≤ |files| + 1` form of the statement. -/
theorem load_fuel_exists (cfg : Cfg) (proj : Project) (main : String) :
    ∃ fuel, fuel ≤ proj.length + 1 ∧ load cfg proj main fuel ≠ .outOfFuel :=
  ⟨proj.length + 1, Nat.le_refl _, load_terminates cfg proj main⟩

/-- At most one recursive load per project file (each one moves a file into `paths_seen`). -/
theorem load_calls_bounded (cfg : Cfg) (proj : Project) (main : String) (st : St)
    (h : load cfg proj main (proj.length + 1) = .ok st) : st.calls ≤ proj.length := by
  have hs := loadFile_spec cfg proj (proj.length + 1) main St.init
    (by show unseen proj [] < proj.length + 1; rw [unseen_nil]; omega)
  have hm := hs.2 st h
  have h0 : unseen proj St.init.seen = proj.length := unseen_nil proj
  have hc : St.init.calls = 0 := rfl
  unfold Meas at hm
  omega

/-- A cyclic three-file project with a self-import: the hypotheses are satisfiable and the
result is a state, not a panic. -/
def cyclicProject : Project :=
  [("main.gdn", [.imp "a.gdn" (some "m"), .fn false "f" 1 none]),
   ("a.gdn", [.imp "b.gdn" none, .fn true "g" 2 none, .imp "a.gdn" (some "self")]),
   ("b.gdn", [.imp "main.gdn" (some "top"), .imp "a.gdn" none, .fn true "h" 3 none])]

def okCalls : Out St → Option Nat
  | .ok st => some st.calls
  | _ => none

def okState : Out St → St
  | .ok st => st
  | _ => St.init

def panicSite : Out St → Option String
  | .panic s => some s
  | _ => none

example : okCalls (load Cfg.asIs cyclicProject "main.gdn" 4) = some 3 := by decide

/-! ## The visibility rule for functions -/

/-- Run time (`eval_namespace_access`) and check time (`infer_namespace_access`) apply the same
rule to `a::x` when `a` is bound to a loaded namespace: an error iff `x` is not a value of
that namespace or is not in its `exported_syms`. -/
theorem qual_check_run_agree (st : St) (cur a x f : String)
    (ha : alookup (st.nsOf cur).values a = some (.ns f)) :
    ((∃ v, resolveQual st cur a x = .ok v) ↔ checkProbe st cur (.qual a x false) = none) ∧
    ((∃ v, resolveQual st cur a x = .ok v) ↔
      ((alookup (st.nsOf f).values x).isSome = true ∧ (st.nsOf f).exported.contains x = true)) := by
  simp only [resolveQual, checkProbe, ha]
  cases hv : alookup (st.nsOf f).values x with
  | none => simp
  | some v =>
    by_cases he : x ∈ (st.nsOf f).exported
    · simp [he]
    · simp [he]

/-- Bare names: the same at run time and check time (the variable is a value of the current
file's namespace). -/
theorem bare_check_run_agree (st : St) (cur x : String) :
    (∃ v, resolveBare st cur x = .ok v) ↔ checkProbe st cur (.bare x false) = none := by
  simp only [resolveBare, checkProbe]
  cases alookup (st.nsOf cur).values x <;> simp

/-- One `Fun` item decides membership of its own name in `exported_syms` (and nothing else),
and always binds the name. -/
theorem addFun_exported (st : St) (cur : String) (pub : Bool) (name : String) (tag : Nat)
    (body : Option Probe) (x : String) :
    ((st.addFun cur pub name tag body).nsOf cur).exported.contains x =
      (if x = name then pub else (st.nsOf cur).exported.contains x) ∧
    alookup ((st.addFun cur pub name tag body).nsOf cur).values name = some (.fn cur tag pub body) := by
  have hns : (st.addFun cur pub name tag body).nsOf cur =
      { st.nsOf cur with values := (name, Val.fn cur tag pub body) :: (st.nsOf cur).values,
                         exported := if pub then name :: (st.nsOf cur).exported
                                     else (st.nsOf cur).exported.filter (fun e => e != name) } := by
    simp [St.addFun, St.nsOf, St.getNs, St.setNs, alookup]
  rw [hns]
  refine ⟨?_, by simp [alookup]⟩
  by_cases hx : x = name
  · subst hx
    cases pub <;> simp [List.contains_eq_mem]
  · cases pub <;> simp [hx, List.contains_eq_mem]

/-- After a successful load (any fuel, any import graph), `exported_syms(f)` of the main file and
of every readable file that was imported is exactly the set of public functions of `f` (last
definition wins), and exported names are bound. -/
theorem exported_exactly_public (cfg : Cfg) (proj : Project) (main : String) (fuel : Nat) (st : St)
    (h : load cfg proj main fuel = .ok st) (f x : String)
    (hf : f = main ∨ (st.seen.contains f = true ∧ (alookup proj f).isSome = true)) :
    mem st f x = proj.publicFun f x ∧ (mem st f x = true → hasVal st f x = true) := by
  obtain ⟨⟨r, n, s⟩, inv, g⟩ := loadFile_T cfg proj fuel main St.init st h (Inv_init proj)
  refine ⟨?_, inv.val f x⟩
  rcases hf with rfl | ⟨hs, hr⟩
  · exact g x
  · exact n f hs rfl hr x

/-- `import_exactly_public` for functions and the `name::item` form: if `a` is bound in the main
file to the namespace of a loaded file `f`, then `a::x` resolves at run time iff the checker
accepts it iff `f` defines a PUBLIC function `x`. -/
theorem import_exactly_public_partial (cfg : Cfg) (proj : Project) (main : String) (fuel : Nat)
    (st : St) (h : load cfg proj main fuel = .ok st) (a f x : String)
    (ha : alookup (st.nsOf main).values a = some (.ns f))
    (hf : f = main ∨ (st.seen.contains f = true ∧ (alookup proj f).isSome = true)) :
    ((∃ v, resolveQual st main a x = .ok v) ↔ proj.publicFun f x = true) ∧
    (checkProbe st main (.qual a x false) = none ↔ proj.publicFun f x = true) ∧
    (proj.publicFun f x = false →
      (∃ e, resolveQual st main a x = .error e) ∧ checkProbe st main (.qual a x false) ≠ none) := by
  obtain ⟨hm, hv⟩ := exported_exactly_public cfg proj main fuel st h f x hf
  obtain ⟨h1, h2⟩ := qual_check_run_agree st main a x f ha
  have key : (∃ v, resolveQual st main a x = .ok v) ↔ proj.publicFun f x = true := by
    rw [h2, ← hm]
    constructor
    · exact fun hh => hh.2
    · exact fun hh => ⟨hv hh, hh⟩
  refine ⟨key, h1.symm.trans key, ?_⟩
  intro hp
  have hno : ¬ ∃ v, resolveQual st main a x = .ok v := by rw [key, hp]; simp
  refine ⟨?_, fun hc => hno (h1.mpr hc)⟩
  cases hr : resolveQual st main a x with
  | ok v => exact absurd ⟨v, hr⟩ hno
  | error e => exact ⟨e, rfl⟩

/-- The hypotheses are satisfiable on a cyclic project, for a public, a private and a missing name. -/
example : alookup ((okState (load Cfg.asIs cyclicProject "main.gdn" 4)).nsOf "main.gdn").values "m" = some (.ns "a.gdn")
    ∧ (okState (load Cfg.asIs cyclicProject "main.gdn" 4)).seen.contains "a.gdn" = true
    ∧ Project.publicFun cyclicProject "a.gdn" "g" = true
    ∧ Project.publicFun cyclicProject "b.gdn" "nosuch" = false := by decide

/-- Unqualified imports (and scope in general), soundness half: after loading ANY project,
whatever function a bare name `x` denotes in ANY file `p` was defined in `p` itself or declared
`public` where it was defined — no private function crosses a file boundary, also not through
cycles, repeated or self imports — and through `a::x` only `public` definitions are reached. -/
theorem import_only_public_in_scope (cfg : Cfg) (proj : Project) (main : String) (fuel : Nat) (st : St)
    (h : load cfg proj main fuel = .ok st) :
    (∀ p x o t b body, resolveBare st p x = .ok (Val.fn o t b body) → o = p ∨ b = true) ∧
    (∀ p a x o t b body, resolveQual st p a x = .ok (Val.fn o t b body) → b = true) := by
  have vi := loadFile_vis cfg proj fuel main St.init st h visInv_init
  refine ⟨?_, ?_⟩
  · intro p x o t b body hr
    simp only [resolveBare] at hr
    split at hr
    · cases hr
    · rename_i v hv; cases hr; exact vi.u p x o t b body hv
  · intro p a x o t b body hr
    simp only [resolveQual] at hr
    split at hr
    · cases hr
    · rename_i f hf
      split at hr
      · cases hr
      · rename_i v hv
        split at hr
        · rename_i he; cases hr; exact vi.e f x o t b body he hv
        · cases hr
    · cases hr
    · cases hr

/-! ## Where the implementation does not follow the statement (model witnesses) -/

def libProject : Project :=
  [("main.gdn", [.imp "lib.gdn" none, .imp "lib.gdn" (some "m")]),
   ("lib.gdn", [.fn true "pubf" 1001 none, .fn false "privf" 1002 none, .struct false "PrivS",
                .meth false "PrivS" "privm" 1003, .enum true "PubE" ["PRed", "PGreen"]])]

def libState : St :=
  match load Cfg.asIs libProject "main.gdn" 3 with
  | .ok st => st
  | _ => St.init

/-- Functions behave as stated on this project … -/
example : runProbe libState "main.gdn" (.qual "m" "pubf" true) = .ok (some 1001)
    ∧ runProbe libState "main.gdn" (.qual "m" "privf" true) = .err .notExternal
    ∧ checkProbe libState "main.gdn" (.qual "m" "privf" true) = some .notExternal
    ∧ runProbe libState "main.gdn" (.bare "pubf" true) = .ok (some 1001)
    ∧ runProbe libState "main.gdn" (.bare "privf" true) = .err .unbound := by decide

example : alookup (libState.nsOf "main.gdn").values "pubf" = some (Val.fn "lib.gdn" 1001 true none) := by decide

/-- … but a PRIVATE struct of the imported file is usable by the importer (run and check). -/
theorem private_type_visible_witness :
    runProbe libState "main.gdn" (.structLit "PrivS") = .ok none ∧
    checkProbe libState "main.gdn" (.structLit "PrivS") = none := by decide

/-- … a PRIVATE method of the imported file is callable by the importer. -/
theorem private_method_visible_witness :
    runProbe libState "main.gdn" (.methStruct "PrivS" "privm") = .ok (some 1003) ∧
    checkProbe libState "main.gdn" (.methStruct "PrivS" "privm") = none := by decide

/-- … and the variants of a PUBLIC enum are reachable neither bare nor through `m::`. -/
theorem public_enum_variants_not_imported_witness :
    runProbe libState "main.gdn" (.bare "PRed" false) = .err .unbound ∧
    runProbe libState "main.gdn" (.qual "m" "PRed" false) = .err .notExternal ∧
    checkProbe libState "main.gdn" (.qual "m" "PRed" false) = some .notExternal := by decide

def partialProject : Project :=
  [("main.gdn", [.imp "a.gdn" (some "a"), .imp "b.gdn" (some "b")]),
   ("a.gdn", [.fn true "x" 1 none, .imp "b.gdn" none, .fn true "y" 2 none]),
   ("b.gdn", [.imp "a.gdn" none, .fn true "viax" 3 (some (.bare "x" true)),
              .fn true "viay" 4 (some (.bare "y" true))])]

def partialState : St :=
  match load Cfg.asIs partialProject "main.gdn" 4 with
  | .ok st => st
  | _ => St.init

/-- In an import cycle, `b.gdn`'s unqualified import of `a.gdn` happens while `a.gdn` is still
being loaded: `x` (defined before `a`'s import of `b`) is in scope of `b`, the public `y`
(defined after it) is not; check time (of `main.gdn`) reports nothing. -/
theorem cyclic_unqualified_partial_witness :
    runProbe partialState "main.gdn" (.qual "b" "viax" true) = .ok (some 1) ∧
    runProbe partialState "main.gdn" (.qual "b" "viay" true) = .err .unbound ∧
    checkProbe partialState "main.gdn" (.qual "b" "viay" true) = none ∧
    Project.publicFun partialProject "a.gdn" "y" = true := by decide

/-- The two panic sites of the code as it is, and their absence after the repairs. -/
theorem panic_sites_witness :
    panicSite (load Cfg.asIs [("main.gdn", [.imp "nosuch.gdn" (some "a"), .imp "nosuch.gdn" (some "b")])]
      "main.gdn" 2) = some "eval.rs:476 get_namespace(..).unwrap() on None" ∧
    panicSite (load Cfg.asIs [("main.gdn", [.imp "main.gdn" none, .fn true "x" 1 none])] "main.gdn" 2)
      = some "eval.rs:646 RefCell already borrowed" ∧
    okCalls (load Cfg.repaired [("main.gdn", [.imp "nosuch.gdn" (some "a"), .imp "nosuch.gdn" (some "b")])]
      "main.gdn" 2) = some 0 ∧
    okCalls (load Cfg.repaired [("main.gdn", [.imp "main.gdn" none, .fn true "x" 1 none])] "main.gdn" 2)
      = some 1 := by decide

end C34
